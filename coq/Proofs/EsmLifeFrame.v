(* Every step of the vault life cycle other than the esm vault redemption (vault messages, unsolicited
   transfers, environment, seizure, sweep, bids, auction block tick incl. the ESM auction return) leaves the row of
   the esm account, the esm debt register and the records alone, and keeps the esm account from becoming the
   owner of a vault or a locked vault: [InvE] / [InvE02] are preserved by [ELife] steps. *)
From Comdex Require Import Lib.Base Lib.DecArith Lib.DecFacts Lib.Atomic Model.Vault Model.VaultLife Model.EsmLife
  Proofs.VaultProofs Proofs.VaultExec Proofs.VaultHandlers Proofs.VaultInv Proofs.VaultLifeBase Proofs.VaultLifeInv Proofs.VaultLifeHist
  Proofs.VaultLifeSupply Proofs.EsmLifeBase Proofs.EsmLifeInv Proofs.EsmLifeSteps.
From Coq Require Import ZifyBool Sorted.

Lemma AUC_neE : AUC <> ESMA. Proof. discriminate. Qed.
Lemma LIQ_neE : LIQ <> ESMA. Proof. discriminate. Qed.
Lemma COLL_neE : COLL <> ESMA. Proof. discriminate. Qed.
Lemma VAULT_neE : VAULT <> ESMA. Proof. discriminate. Qed.

Definition owners_esm (s : state) : Prop := forall v, In v (vaults s) -> v_owner v <> ESMA.

Lemma owners_esm_step c s s' from bc : from <> ESMA -> owners_esm s -> bc_pre c s bc -> vaults s' = bc_vaults bc (vaults s) ->
  bc_owner_ok from bc -> owners_esm s'.
Proof.
  intros Hfr HO Hpre Hv Hok v Hin. rewrite Hv in Hin.
  destruct bc as [|v0 v1|nv|v0|x0 x1|x]; cbn [bc_vaults bc_pre bc_owner_ok] in *; try (apply HO; exact Hin).
  - destruct Hpre as (Hf & _). apply (gput_in v_id) in Hin. destruct Hin as [->|Hin]; [|apply HO; exact Hin].
    rewrite Hok. apply (gfind_some v_id) in Hf. destruct Hf as [Hi _]. apply HO; exact Hi.
  - apply (gput_in v_id) in Hin. destruct Hin as [->|Hin]; [rewrite Hok; exact Hfr|apply HO; exact Hin].
  - apply (gdel_in v_id) in Hin. apply HO; exact Hin.
Qed.

Lemma eff_esm c s s' from bc fee : from <> ESMA -> effect c s s' from bc fee -> bc_owner_ok from bc -> owners_esm s ->
  esame s s' /\ owners_esm s'.
Proof.
  intros Hf E Hok HO. split.
  - intros d. rewrite (ef_bal _ _ _ _ _ _ E). unfold xfer, at2. change (ESMA =? VAULT) with false. change (ESMA =? COLL) with false.
    destruct (Z.eqb_spec ESMA from); [congruence|]. cbn [andb]. lia.
  - exact (owners_esm_step c s s' from bc Hf HO (ef_pre _ _ _ _ _ _ E) (ef_vaults _ _ _ _ _ _ E) Hok).
Qed.

Lemma frame_esm s s' : vaults s' = vaults s -> (forall d, bal s' ESMA d = bal s ESMA d) -> owners_esm s -> esame s s' /\ owners_esm s'.
Proof. intros Hv Hb HO. split; [exact Hb|]. unfold owners_esm. rewrite Hv. exact HO. Qed.

Theorem vop_esm c l o s' : cfg_ok c -> user_op o -> sender o <> ESMA -> InvL c l -> owners_esm (vs l) -> run c (vs l) o = Ok s' ->
  esame (vs l) s' /\ owners_esm s'.
Proof.
  intros CK [Hu _] He I HO H. pose proof (invL_pe c l I) as PE. pose proof (invL_wf c l I) as W.
  destruct o; cbn [run sender] in *.
  - unfold msg_create in H. do 2 exec1 H.
    destruct (create_h_effect c (vs l) from app epid ain aout s' CK ltac:(lia) ltac:(lia) H) as (ep & cl & _ & _ & _ & _ & _ & _ & _ & _ & _ & E).
    apply (eff_esm c _ _ _ _ _ He E); [reflexivity|exact HO].
  - unfold msg_deposit in H. do 2 exec1 H.
    destruct (deposit_h_effect c (vs l) from app epid id amt ienv s' PE W ltac:(lia) H) as (v0 & ep & _ & _ & _ & _ & _ & _ & _ & E).
    apply (eff_esm c _ _ _ _ _ He E); [reflexivity|exact HO].
  - unfold msg_withdraw in H. do 2 exec1 H.
    destruct (withdraw_h_effect c (vs l) from app epid id amt ienv s' PE W ltac:(lia) H) as (v0 & ep & _ & _ & _ & _ & _ & _ & _ & E).
    apply (eff_esm c _ _ _ _ _ He E); [reflexivity|exact HO].
  - unfold msg_draw in H. do 2 exec1 H.
    destruct (draw_h_effect c (vs l) from app epid id amt ienv s' CK PE W H) as (v0 & ep & _ & _ & _ & _ & _ & _ & _ & _ & _ & _ & _ & E).
    apply (eff_esm c _ _ _ _ _ He E); [reflexivity|exact HO].
  - destruct (repay_effect c (vs l) from app epid id amt ienv s' PE W H) as (v0 & ep & _ & _ & _ & _ & _ & _ & _ & [[_ E]|(_ & _ & E)]);
      (apply (eff_esm c _ _ _ _ _ He E); [reflexivity|exact HO]).
  - destruct (close_effect c (vs l) from app epid id ienv s' PE W H) as (v0 & ep & _ & _ & _ & _ & Hown & _ & E).
    apply (eff_esm c _ _ _ _ _ He E); [exact Hown|exact HO].
  - unfold msg_deposit_draw in H. do 5 exec1 H. exec1 H.
    destruct (deposit_h_effect c (vs l) from app epid id amt i1 st PE W ltac:(lia) E) as (v0 & ep & _ & _ & _ & _ & _ & _ & _ & E1).
    assert (I1 : InvL c (set_vs l st)) by (apply (eff_step c l st _ _ _ Hu I E1); reflexivity).
    destruct (draw_h_effect c st from app epid id z0 i2 s' CK (invL_pe c _ I1) (invL_wf c _ I1) H) as (v1 & ep1 & _ & _ & _ & _ & _ & _ & _ & _ & _ & _ & _ & E2).
    destruct (eff_esm c _ _ _ _ _ He E1 eq_refl HO) as [A1 O1]. destruct (eff_esm c _ _ _ _ _ He E2 eq_refl O1) as [A2 O2].
    split; [exact (esame_trans _ _ _ A1 A2)|exact O2].
  - destruct (stable_create_effect c (vs l) from app epid amt s' CK H) as (ep & tout & _ & _ & _ & _ & _ & _ & _ & _ & E).
    apply (eff_esm c _ _ _ _ _ He E); [exact Logic.I|exact HO].
  - destruct (stable_deposit_effect c (vs l) from app epid id amt s' CK PE H) as (x0 & ep & tout & _ & _ & _ & _ & _ & _ & _ & _ & _ & E).
    apply (eff_esm c _ _ _ _ _ He E); [exact Logic.I|exact HO].
  - destruct (stable_withdraw_effect c (vs l) from app epid id amt s' CK PE H) as (x0 & ep & tout & upd & _ & _ & _ & _ & _ & _ & _ & _ & _ & E).
    apply (eff_esm c _ _ _ _ _ He E); [exact Logic.I|exact HO].
  - destruct (interest_effect c (vs l) app id ienv s' W H) as (v0 & _ & _ & E).
    apply (eff_esm c _ _ 2 _ _ ltac:(discriminate) (E 2)); [reflexivity|exact HO].
  - unfold donate in H. exec1 H. exec1 H. apply send_spec in E. destruct E as (_ & b1 & -> & Hb1).
    injection H as <-. apply frame_esm; [reflexivity| |exact HO].
    intros x. ssimpl. rewrite Hb1. unfold xfer. change (ESMA =? VAULT) with false. destruct (Z.eqb_spec ESMA from); [congruence|]. cbn [andb]. lia.
  - injection H as <-. apply frame_esm; [reflexivity|intros x; reflexivity|exact HO].
  - injection H as <-. apply frame_esm; [reflexivity|intros x; reflexivity|exact HO].
  - injection H as <-. apply frame_esm; [reflexivity|intros x; reflexivity|exact HO].
  - injection H as <-. apply frame_esm; [reflexivity|intros x; reflexivity|exact HO].
  - injection H as <-. apply frame_esm; [reflexivity|intros x; reflexivity|exact HO].
Qed.

(* what a life-cycle step leaves alone *)
Record lframe (l l' : lstate) : Prop := mkLF {
  lf_esame : esame (vs l) (vs l');
  lf_edebt : edebt l' = edebt l;
  lf_users : users_ok l'
}.
Lemma lframe_refl l : users_ok l -> lframe l l.
Proof. intros U. constructor; [apply esame_refl|reflexivity|exact U]. Qed.

(* ---------- seizure ---------- *)
Lemma liquidate_lframe c lc l id ie intk keeper l' : InvL c l -> users_ok l -> (intk = true -> keeper <> ESMA) ->
  liquidate c lc l id ie intk keeper = Ok l' -> lframe l l'.
Proof.
  intros I U Hkeep H. pose proof (invL_pe c l I) as PE. pose proof (invL_wf c l I) as W.
  unfold liquidate in H. cbv zeta in H.
  exec_checks H. exec1 H. exec1 H; [injection H as <-; apply lframe_refl; exact U|].
  exec_accrue H. bc_simpl.
  exec1 H. exec1 H. exec1 H. exec1 H. exec1 H. exec1 H. exec1 H. exec1 H.
  injection H as <-.
  apply csend_spec in E1. destruct E1 as (b1 & -> & Hb1).
  assert (Hvin : In v (vaults (vs l))) by (apply (gfind_some v_id) in M; tauto).
  destruct U as [U1 U2].
  constructor; cbn [vs lks edebt].
  - intros d. unfold dec_len. repeat (ssimpl; rewrite ?bal_prod_del_id). rewrite Hb1. unfold xfer.
    change (ESMA =? AUC) with false. change (ESMA =? VAULT) with false. cbn [andb]. lia.
  - reflexivity.
  - split; cbn [vs lks].
    + intros w Hw. unfold dec_len, prod_del_id in Hw. destruct (prods _ _ _) in Hw; ssimpl; apply (gdel_in v_id) in Hw; apply (gput_in v_id) in Hw;
        (destruct Hw as [->|Hw]; [cbn [v_owner with_int]; exact (U1 v Hvin)|exact (U1 w Hw)]).
    + intros k Hk. apply (gput_in lk_id) in Hk. destruct Hk as [->|Hk]; [|exact (U2 k Hk)].
      cbn [lk_owner lk_intk lk_keeper]. split; [exact (U1 v Hvin)|exact Hkeep].
Qed.

Lemma sweep_lframe c lc items : cfg_ok c -> forall l, InvL c l -> users_ok l -> lframe l (sweep c lc l items).
Proof.
  intros CK. unfold sweep. induction items as [|it items IH]; intros l I U; cbn [fold_left]; [apply lframe_refl; exact U|].
  destruct (liquidate c lc l (fst it) (snd it) false 0) as [l1| |] eqn:E; cbn [keep]; try exact (IH l I U).
  pose proof (liquidate_lframe c lc l _ _ false 0 l1 I U ltac:(discriminate) E) as F1.
  pose proof (liquidate_invL c lc l _ _ false 0 l1 CK ltac:(discriminate) I E) as I1.
  destruct (IH l1 I1 (lf_users _ _ F1)) as [A B C]. constructor; [exact (esame_trans _ _ _ (lf_esame _ _ F1) A)|rewrite B; exact (lf_edebt _ _ F1)|exact C].
Qed.

(* ---------- bids ---------- *)
Lemma withdraw_reserve_esame l app asset amt l1 : withdraw_reserve l app asset amt = Ok l1 -> esame (vs l) (vs l1).
Proof.
  unfold withdraw_reserve. intros H. do 3 exec1 H. injection H as <-. cbn [vs].
  exact (csend_esame _ _ _ _ _ _ LIQ_neE AUC_neE E).
Qed.

Lemma bid_esame lc l aid who paid recv closed exh topup l' : who <> ESMA -> users_ok l ->
  bid lc l aid who paid recv closed exh topup = Ok l' -> esame (vs l) (vs l').
Proof.
  intros Hw [_ U2] H. unfold bid in H. cbv zeta in H. exec1 H. exec1 H. rename M into Ma. rename M0 into Mk.
  destruct (gfind_some lk_id _ _ _ Mk) as [Hin _]. destruct (U2 _ Hin) as [Ho Hkp].
  assert (AE : AUC <> ESMA) by discriminate. assert (CE : COLL <> ESMA) by discriminate.
  destruct closed.
  - exec1 H. rename st into l1.
    assert (L1 : esame (vs l) (vs l1)) by (destruct exh; [exact (withdraw_reserve_esame _ _ _ _ _ E)|injection E as <-; apply esame_refl]).
    clear E.
    exec1 H. exec1 H. exec1 H. exec1 H. exec1 H. exec1 H.
    match type of H with obind ?X _ = _ => destruct X as [[s5 pen]| |] eqn:E3; cbn [obind] in H; try discriminate H end.
    assert (K : esame st2 s5).
    { destruct (lk_intk l0) eqn:Ik.
      - destruct (fee_share _ _) as [ki|]; [|discriminate E3]. destruct (ki >? 0).
        + destruct (lk_fee l0 - ki <? 0); [discriminate E3|].
          destruct (send st2 AUC (lk_keeper l0) (au_cout a) ki) as [x| |] eqn:Es; cbn [obind] in E3; try discriminate E3.
          injection E3 as <- <-. exact (send_esame _ _ _ _ _ _ AE (Hkp eq_refl) Es).
        + injection E3 as <- <-. apply esame_refl.
      - injection E3 as <- <-. apply esame_refl. }
    cbv beta iota in H.
    match type of H with obind ?X _ = _ => destruct X as [s6| |] eqn:E4; cbn [obind] in H; try discriminate H end.
    match type of H with obind ?X _ = _ => destruct X as [s7| |] eqn:E5; cbn [obind] in H; try discriminate H end.
    apply update_collector_spec in E5. destruct E5 as [_ ->].
    injection H as <-. cbn [vs].
    pose proof (csend_esame _ _ _ _ _ _ Hw AE E) as Ba.
    pose proof (csend_esame _ _ _ _ _ _ AE Hw E0) as Bb.
    pose proof (cburn_from_esame _ _ _ _ _ AE E1) as Bc.
    pose proof (csend_esame _ _ _ _ _ _ AE Ho E2) as Bd.
    pose proof (csend_esame _ _ _ _ _ _ AE CE E4) as Be.
    intros d. rewrite bal_upd_coll, bal_upd_mint.
    rewrite (Be d), (K d), (Bd d), (Bc d), (Bb d), (Ba d). exact (L1 d).
  - do 3 exec1 H. injection H as <-. cbn [vs].
    pose proof (csend_esame _ _ _ _ _ _ Hw AE E) as Ba. pose proof (csend_esame _ _ _ _ _ _ AE Hw E0) as Bb.
    exact (esame_trans _ _ _ Ba Bb).
Qed.

Lemma bid_lframe c lc l aid who paid recv closed exh topup l' : who <> VAULT -> who <> ESMA -> InvL c l -> users_ok l ->
  bid lc l aid who paid recv closed exh topup = Ok l' -> lframe l l'.
Proof.
  intros Hwv Hwe I U H.
  assert (HL : forall k, In k (lks l) -> lk_owner k <> VAULT /\ (lk_intk k = true -> lk_keeper k <> VAULT)).
  { intros k Hk. destruct (il_lk _ _ I k Hk) as (H1 & H2 & _). split; assumption. }
  pose proof (bid_esame lc l aid who paid recv closed exh topup l' Hwe U H) as Es.
  destruct (bid_spec lc l aid who paid recv closed exh topup l' Hwv HL H) as (a & lk & Ma & Mk & Hc).
  destruct U as [U1 U2]. destruct closed.
  - destruct Hc as (s' & r' & -> & B & _ & _). unfold closes in *. constructor; cbn [vs lks edebt] in *.
    + exact Es.
    + reflexivity.
    + split; cbn [vs lks].
      * intros v Hv. apply U1. rewrite <- (bs_vaults _ _ B).
        unfold upd_coll, upd_mint in Hv. repeat (match type of Hv with context [match prods ?s ?a0 ?p0 with _ => _ end] => destruct (prods s a0 p0) end; ssimpl). all: exact Hv.
      * intros k Hk. apply (gdel_in lk_id) in Hk. exact (U2 k Hk).
  - destruct Hc as (s' & -> & B & _). constructor; cbn [vs lks edebt] in *.
    + exact Es.
    + reflexivity.
    + split; cbn [vs lks]; [intros v Hv; apply U1; rewrite <- (bs_vaults _ _ B); exact Hv|exact U2].
Qed.

(* ---------- the auction block tick ---------- *)
Lemma create_new_vault_bal s owner app pair ain aout s' : create_new_vault s owner app pair ain aout = Ok s' -> bal s' = bal s.
Proof.
  unfold create_new_vault. destruct (umap s owner app pair).
  - destruct (find_v (vaults s) z); [|discriminate]. intros H; injection H as <-. reflexivity.
  - intros H; injection H as <-. ssimpl. rewrite bal_prod_add_id. reflexivity.
Qed.

Lemma trigger_esm_esame l a lk l' : trigger_esm l a lk = Ok l' -> esame (vs l) (vs l').
Proof.
  intros H. unfold trigger_esm in H. cbv zeta in H. exec1 H.
  match type of H with obind ?X _ = _ => destruct X as [[[s2 tr] tb]| |] eqn:E1; cbn [obind] in H; try discriminate H end.
  cbv beta iota in H.
  assert (F2 : esame (vs l) s2).
  { destruct (lk_debt lk + lk_fee lk - au_debt a >? lk_fee lk).
    - match type of E1 with obind ?X _ = _ => destruct X as [s1| |] eqn:Eb; cbn [obind] in E1; try discriminate E1 end.
      injection E1 as <- <- <-. intros d. rewrite bal_upd_mint. exact (cburn_from_esame _ _ _ _ _ AUC_neE Eb d).
    - injection E1 as <- <- <-. apply esame_refl. }
  exec1 H. rename st into s3. exec1 H. apply update_collector_spec in E0. destruct E0 as [_ ->].
  exec1 H. rename st into s5. injection H as <-. cbn [vs].
  pose proof (send_esame _ _ _ _ _ _ AUC_neE COLL_neE E) as F3.
  intros d. rewrite bal_upd_coll, (create_new_vault_bal _ _ _ _ _ _ _ E0). rewrite (F3 d). exact (F2 d).
Qed.

Lemma tick_one_lframe c lc l aid l' : InvL c l -> users_ok l -> tick_one lc l aid = Ok l' -> lframe l l'.
Proof.
  intros I U H. unfold tick_one in H. cbv zeta in H.
  destruct (find_au (aus l) aid) as [a|] eqn:Ma; [|injection H as <-; apply lframe_refl; exact U].
  destruct (gfind_some au_id _ _ _ Ma) as [Hain Haid].
  destruct (e_status (esm (vs l) (au_app a))) eqn:Es.
  - destruct (now (vs l) >? au_end a) eqn:Nw; [|injection H as <-; apply lframe_refl; exact U].
    destruct (find_lk (lks l) (au_lock a)) as [lk|] eqn:Mk; [|injection H as <-; apply lframe_refl; exact U].
    pose proof (trigger_esm_esame l a lk l' H) as Ee.
    destruct (trigger_esm_spec c l a lk l' I Hain Mk H) as
      (bc & tb & Htb & Bpre & Bwf & Bapp & Bpair & Bdin & Bdout & Bown & Sv & Sx & Sl & Si & Ssi & Su & Sun & Sb & Ss & Spf & Spc & Spm & Spi &
       Llk & Lau & Llkid & Lauid & Led & Ldr & Lem & Lec & Les & Lov).
    destruct (gfind_some lk_id _ _ _ Mk) as [Hkin _]. destruct U as [U1 U2]. destruct (U2 lk Hkin) as [Ko _].
    assert (Hok : bc_owner_ok (lk_owner lk) bc) by (destruct bc; try (exfalso; exact Bown); exact Bown).
    constructor; [exact Ee|exact Led|]. split.
    + exact (owners_esm_step c (vs l) (vs l') (lk_owner lk) bc Ko U1 Bpre Sv Hok).
    + rewrite Llk. exact U2.
  - destruct (now (vs l) >? au_end a) eqn:Nw; [|injection H as <-; apply lframe_refl; exact U].
    do 3 exec1 H. injection H as <-. constructor; cbn [vs lks edebt]; [apply esame_refl|reflexivity|exact U].
Qed.

Lemma auc_tick_lframe c lc l : InvL c l -> users_ok l -> lframe l (auc_tick lc l).
Proof.
  unfold auc_tick. generalize (map au_id (aus l)) as ids. intros ids. revert l.
  induction ids as [|aid ids IH]; intros l I U; cbn [fold_left]; [apply lframe_refl; exact U|].
  destruct (tick_one lc l aid) as [l1| |] eqn:T; cbn [keep]; try exact (IH l I U).
  pose proof (tick_one_lframe c lc l aid l1 I U T) as F1. pose proof (tick_one_invL c lc l aid l1 I T) as I1.
  destruct (IH l1 I1 (lf_users _ _ F1)) as [A B C]. constructor; [exact (esame_trans _ _ _ (lf_esame _ _ F1) A)|rewrite B; exact (lf_edebt _ _ F1)|exact C].
Qed.

(* ---------- every life-cycle step except the esm vault redemption ---------- *)
Definition lop_esm_ok (o : lop) : Prop :=
  match o with
  | VOp o' => sender o' <> ESMA
  | Liquidate _ _ k => k <> ESMA
  | Bid _ who _ _ _ _ _ => who <> ESMA
  | _ => True
  end.
Definition not_esm_redeem (o : lop) : Prop := match o with EsmRedeem _ => False | _ => True end.

Theorem lrun_lframe c lc l o l' : cfg_ok c -> lop_ok l o -> lop_esm_ok o -> not_esm_redeem o -> InvL c l -> users_ok l ->
  lrun c lc l o = Ok l' -> lframe l l'.
Proof.
  intros CK Hok He Hn I U H. destruct o; cbn [lrun lop_ok lop_esm_ok not_esm_redeem] in *.
  - destruct (run c (vs l) o) as [s'| |] eqn:R; try discriminate H. injection H as <-.
    destruct (vop_esm c l o s' CK Hok He I (proj1 U) R) as [A O]. constructor; [exact A|reflexivity|split; [exact O|exact (proj2 U)]].
  - exact (liquidate_lframe c lc l id ienv true keeper l' I U (fun _ => He) H).
  - injection H as <-. exact (sweep_lframe c lc items CK l I U).
  - exact (bid_lframe c lc l aid who paid recv closed exh topup l' (proj1 Hok) He I U H).
  - injection H as <-. exact (auc_tick_lframe c lc l I U).
  - contradiction.
Qed.

Theorem elife_invE c lc e o l' : cfg_ok c -> lop_ok (el e) o -> lop_esm_ok o -> not_esm_redeem o -> InvE c e ->
  lrun c lc (el e) o = Ok l' -> InvE c (set_el e l') /\ (forall ext, InvE02 c ext e -> InvE02 c ext (set_el e l')).
Proof.
  intros CK Hok He Hn I H.
  destruct (lrun_lframe c lc (el e) o l' CK Hok He Hn (ie_life _ _ I) (ie_users _ _ I) H) as [A B U].
  split.
  - constructor; cbn [set_el el recs cool epool epaid]; try apply I.
    + exact (lrun_invL c lc (el e) o l' CK Hok (ie_life _ _ I) H).
    + exact U.
    + intros d. rewrite (A d). exact (ie_custody _ _ I d).
    + intros d. rewrite (A d). exact (ie_nonneg _ _ I d).
    + intros d. rewrite B. exact (ie_debt _ _ I d).
  - intros ext [J G]. split; [|exact G]. cbn [set_el el gburn]. exact (lrun_inv02 c _ lc (el e) o l' CK Hok (ie_life _ _ I) J H).
Qed.
