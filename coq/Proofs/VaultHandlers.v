(* The effect of every vault message handler, obtained by executing the handler once along its
   successful path (tactics and bank specifications in Proofs/VaultExec.v). *)
From Comdex Require Import Lib.Base Lib.DecArith Lib.DecFacts Lib.Atomic Model.Vault Proofs.VaultProofs Proofs.VaultExec.
From Coq Require Import ZifyBool.

Lemma deposit_h_effect c s f a e id amt ie s' :
  ProdsExist s -> VWf s -> 0 < amt ->
  deposit_h c s f a e id amt ie = Ok s' ->
  exists v0 ep, find_v (vaults s) id = Some v0 /\ get_ep c e = Some ep /\ v_pair v0 = e /\ v_app v0 = a /\ v_owner v0 = f /\ 0 <= ie /\
    e_status (esm s a) = false /\
    effect c s s' f (BUpd v0 (with_in (with_int v0 (v_int v0 + ie)) (v_in v0 + amt))) 0.
Proof.
  intros PE W Hamt H. unfold deposit_h in H.
  do 10 exec1 H. exec_accrue H.
  do 2 exec1 H. apply csend_spec in E. destruct E as (b1 & -> & Hb1). ssimpl.
  injection H as <-. bool_norm.
  pose proof (get_ep_id _ _ _ M) as Hid. pose proof (find_v_id _ _ _ M0) as Hvid.
  pose proof (prods_exist_v _ _ _ PE M0) as Hpf. pose proof (vwf_found _ _ _ W M0) as (W1 & W2 & W3 & W4).
  replace (v_app v) with a in Hpf by congruence. replace (v_pair v) with e in Hpf by congruence.
  match goal with |- context [upd_coll ?st ?a0 ?p0 ?m ?ad] =>
    destruct (upd_coll_spec st a0 p0 m ad Hpf) as (f' & -> & Hf1 & Hf2 & Hf3 & Hf4) end.
  exists v, e0. repeat (split; [first [reflexivity|congruence|lia]|]).
  rewrite put_put by reflexivity.
  pose proof (denom_in_ep _ _ _ M) as Hdi. pose proof (denom_out_ep _ _ _ M) as Hdo.
  replace e with (v_pair v) in Hdi, Hdo by congruence.
  constructor; ssimpl; bc_simpl; try reflexivity.
  - repeat split; congruence.
  - unfold wfv; bc_simpl; lia.
  - intros a' p'. prod_rw. rewrite andb_false_r, orb_false_r. reflexivity.
  - intros a' p'. prod_rw. eqb_cases.
  - intros a' p'. prod_rw. eqb_cases.
  - intros a' p'. prod_rw. eqb_cases.
  - intros a' x. bal_rw. rewrite Hdi, Hdo. ledger.
  - intros d. unfold at1. destruct (_ =? _); lia.
  - repeat split; reflexivity.
Qed.

Lemma withdraw_h_effect c s f a e id amt ie s' :
  ProdsExist s -> VWf s -> 0 < amt ->
  withdraw_h c s f a e id amt ie = Ok s' ->
  exists v0 ep, find_v (vaults s) id = Some v0 /\ get_ep c e = Some ep /\ v_pair v0 = e /\ v_app v0 = a /\ v_owner v0 = f /\ 0 <= ie /\
    verify_cr s ep (v_in v0 - amt) (if e_status (esm s a) then v_out v0 else v_out v0 + (v_int v0 + ie) + v_fee v0) (e_status (esm s a)) = Ok tt /\
    effect c s s' f (BUpd v0 (with_in (with_int v0 (v_int v0 + ie)) (v_in v0 - amt))) 0.
Proof.
  intros PE W Hamt H. unfold withdraw_h in H. cbv zeta in H.
  do 10 exec1 H. exec_accrue H.
  do 3 exec1 H. apply csend_spec in E0. destruct E0 as (b1 & -> & Hb1). ssimpl.
  injection H as <-. bool_norm.
  pose proof (get_ep_id _ _ _ M) as Hid. pose proof (find_v_id _ _ _ M0) as Hvid.
  pose proof (prods_exist_v _ _ _ PE M0) as Hpf. pose proof (vwf_found _ _ _ W M0) as (W1 & W2 & W3 & W4).
  replace (v_app v) with a in Hpf by congruence. replace (v_pair v) with e in Hpf by congruence.
  match goal with |- context [upd_coll ?st ?a0 ?p0 ?m ?ad] =>
    destruct (upd_coll_spec st a0 p0 m ad Hpf) as (f' & -> & Hf1 & Hf2 & Hf3 & Hf4) end.
  exists v, e0. repeat (split; [first [reflexivity|congruence|lia]|]).
  split.
  { match type of E with _ = Ok ?u => destruct u end. erewrite verify_cr_env; [exact E|reflexivity..]. }
  rewrite put_put by reflexivity.
  pose proof (denom_in_ep _ _ _ M) as Hdi. pose proof (denom_out_ep _ _ _ M) as Hdo.
  replace e with (v_pair v) in Hdi, Hdo by congruence.
  constructor; ssimpl; bc_simpl; try reflexivity.
  - repeat split; congruence.
  - unfold wfv; bc_simpl; lia.
  - intros a' p'. prod_rw. rewrite andb_false_r, orb_false_r. reflexivity.
  - intros a' p'. prod_rw. eqb_cases.
  - intros a' p'. prod_rw. eqb_cases.
  - intros a' p'. prod_rw. eqb_cases.
  - intros a' x. bal_rw. rewrite Hdi, Hdo. ledger.
  - intros d. unfold at1. destruct (_ =? _); lia.
  - repeat split; reflexivity.
Qed.

Lemma draw_h_effect c s f a e id amt ie s' :
  cfg_ok c -> ProdsExist s -> VWf s ->
  draw_h c s f a e id amt ie = Ok s' ->
  exists v0 ep, find_v (vaults s) id = Some v0 /\ get_ep c e = Some ep /\ v_pair v0 = e /\ v_app v0 = a /\ v_owner v0 = f /\ 0 <= ie /\
    0 < amt /\ e_status (esm s a) = false /\ pmint s a e + amt < ep_ceiling ep /\
    verify_cr s ep (v_in v0) (v_out v0 + amt + (v_int v0 + ie) + v_fee v0) false = Ok tt /\
    ddf_fee ep amt = feeq amt (ep_ddf ep) /\
    effect c s s' f (BUpd v0 (with_out (with_int v0 (v_int v0 + ie)) (v_out v0 + amt))) (feeq amt (ep_ddf ep)).
Proof.
  intros [_ CK] PE W H. unfold draw_h in H. cbv zeta in H.
  do 11 exec1 H. exec_accrue H.
  pose proof (get_ep_id _ _ _ M) as Hid. pose proof (find_v_id _ _ _ M0) as Hvid.
  pose proof (prods_exist_v _ _ _ PE M0) as Hpf. pose proof (vwf_found _ _ _ W M0) as (W1 & W2 & W3 & W4).
  bool_norm.
  replace (v_app v) with a in Hpf by congruence. replace (v_pair v) with e in Hpf by congruence.
  rewrite ensure_prod_found in H by exact Hpf.
  do 4 exec1 H.
  apply mint_spec in E0. destruct E0 as (Hm0 & b1 & sp1 & -> & Hb1 & Hs1).
  exec1 H.
  destruct (CK _ (get_ep_in _ _ _ M)) as (Hddf & Hio & Hcl).
  apply deliver_spec in E0; [|lia|exact Hddf|lia]. destruct E0 as (Hfs & b2 & -> & Hb2). ssimpl.
  injection H as <-.
  match goal with |- context [upd_mint ?st ?a0 ?p0 ?m ?ad] =>
    destruct (upd_mint_spec st a0 p0 m ad Hpf) as (f' & -> & Hf1 & Hf2 & Hf3 & Hf4) end.
  destruct (feeq_bounds amt (ep_ddf e0) ltac:(lia) Hddf) as [Hfb _].
  exists v, e0. repeat (split; [first [reflexivity|congruence|lia]|]).
  split. { unfold prod_mint in C8. unfold pmint. ssimpl. destruct (prods s a e); lia. }
  split. { match type of E with _ = Ok ?u => destruct u end. erewrite verify_cr_env; [exact E|reflexivity..]. }
  split. { apply ddf_fee_val. exact Hfs. }
  rewrite put_put by reflexivity.
  pose proof (denom_in_ep _ _ _ M) as Hdi. pose proof (denom_out_ep _ _ _ M) as Hdo.
  replace e with (v_pair v) in Hdi, Hdo by congruence.
  constructor; ssimpl; bc_simpl; try reflexivity.
  - repeat split; congruence.
  - unfold wfv; bc_simpl; lia.
  - intros a' p'. prod_rw. rewrite andb_false_r, orb_false_r. reflexivity.
  - intros a' p'. prod_rw. eqb_cases.
  - intros a' p'. prod_rw. eqb_cases.
  - intros a' p'. prod_rw. eqb_cases.
  - lia.
  - intros a' x. bal_rw. rewrite Hdi, Hdo. ledger.
  - intros d. bal_rw. rewrite Hdo. ledger.
  - repeat split; reflexivity.
Qed.

Lemma interest_effect c s a id ie s' :
  VWf s -> msg_interest_calc c s a id ie = Ok s' ->
  exists v0, find_v (vaults s) id = Some v0 /\ 0 <= ie /\
    forall u, effect c s s' u (BUpd v0 (with_int v0 (v_int v0 + ie))) 0.
Proof.
  intros W H. unfold msg_interest_calc in H. do 2 exec1 H. rename C0 into M.
  destruct (accrue_inv _ _ _ _ _ H M) as [Hie ->].
  pose proof (vwf_found _ _ _ W M) as (W1 & W2 & W3 & W4). pose proof (find_v_id _ _ _ M) as Hvid.
  exists v. split; [reflexivity|]. split; [lia|]. intros u.
  constructor; ssimpl; bc_simpl; try reflexivity.
  - repeat split; congruence.
  - unfold wfv; bc_simpl; lia.
  - intros a' p'. prod_rw. rewrite andb_false_r, orb_false_r. reflexivity.
  - intros a' p'. prod_rw. destruct (_ && _); lia.
  - intros a' p'. prod_rw. destruct (_ && _); lia.
  - intros a' p'. prod_rw. destruct (_ && _); reflexivity.
  - intros a' x. ledger.
  - intros d. ledger.
  - repeat split; reflexivity.
Qed.

Lemma repay_effect c s f a e id amt ie s' :
  ProdsExist s -> VWf s ->
  msg_repay c s f a e id amt ie = Ok s' ->
  exists v0 ep, find_v (vaults s) id = Some v0 /\ get_ep c e = Some ep /\ v_pair v0 = e /\ v_app v0 = a /\ v_owner v0 = f /\ 0 <= ie /\ 0 < amt /\
   ((amt <= v_int v0 + ie /\
     effect c s s' f (BUpd v0 (with_int v0 (v_int v0 + ie - amt))) amt) \/
    (v_int v0 + ie < amt /\ ep_floor ep <= v_out v0 - (amt - (v_int v0 + ie)) /\
     effect c s s' f (BUpd v0 (with_int (with_out v0 (v_out v0 - (amt - (v_int v0 + ie)))) 0)) (v_int v0 + ie))).
Proof.
  intros PE W H. unfold msg_repay in H. cbv zeta in H.
  exec_checks H. exec_accrue H.
  pose proof (get_ep_id _ _ _ M) as Hid. pose proof (find_v_id _ _ _ M0) as Hvid.
  pose proof (prods_exist_v _ _ _ PE M0) as Hpf. pose proof (vwf_found _ _ _ W M0) as (W1 & W2 & W3 & W4).
  bool_norm.
  replace (v_app v) with a in Hpf by congruence. replace (v_pair v) with e in Hpf by congruence.
  pose proof (denom_in_ep _ _ _ M) as Hdi. pose proof (denom_out_ep _ _ _ M) as Hdo.
  replace e with (v_pair v) in Hdi, Hdo by congruence.
  exec1 H. bc_simpl.
  exists v, e0. repeat (split; [first [reflexivity|congruence|lia]|]).
  destruct (Z.leb_spec amt (v_int v + ie)) as [Hle|Hgt].
  - (* interest only *)
    left. split; [lia|].
    exec1 H. injection H as <-.
    assert (E' : exists b1, st = set_bal (set_vaults s (put_v (vaults s) (with_int v (v_int v + ie)))) b1 /\
                 forall a' x, b1 a' x = bal s a' x + xfer f VAULT (ep_out e0) amt a' x + xfer VAULT COLL (ep_out e0) amt a' x).
    { destruct (Z.gtb_spec amt 0); [|lia].
      exec1 E. apply send_spec in E0. destruct E0 as (_ & b1 & -> & Hb1).
      exec1 E. apply send_spec in E0. destruct E0 as (_ & b2 & -> & Hb2).
      apply update_collector_spec in E. destruct E as [_ ->]. ssimpl.
      exists b2. split; [reflexivity|]. intros a' x. rewrite Hb2. ssimpl. rewrite Hb1. ssimpl. reflexivity. }
    destruct E' as (b1 & -> & Hb1). ssimpl. rewrite put_put by reflexivity.
    constructor; ssimpl; bc_simpl; try reflexivity.
    + repeat split; congruence.
    + unfold wfv; bc_simpl; lia.
    + intros a' p'. prod_rw. rewrite andb_false_r, orb_false_r. reflexivity.
    + intros a' p'. prod_rw. destruct (_ && _); lia.
    + intros a' p'. prod_rw. destruct (_ && _); lia.
    + intros a' p'. prod_rw. destruct (_ && _); reflexivity.
    + lia.
    + intros a' x. bal_rw. rewrite Hdi, Hdo. ledger.
    + intros d. ledger.
    + repeat split; reflexivity.
  - right. split; [lia|].
    do 4 exec1 H. injection H as <-.
    apply csend_spec in E. destruct E as (b1 & -> & Hb1).
    apply cburn_spec in E0. destruct E0 as (b2 & sp2 & -> & Hb2 & Hs2).
    assert (E' : exists b3, st1 = set_bal (set_sup (set_bal (set_bal (set_vaults s (put_v (vaults s) (with_int v (v_int v + ie)))) b1) b2) sp2) b3 /\
                 forall a' x, b3 a' x = b2 a' x + xfer VAULT COLL (ep_out e0) (v_int v + ie) a' x).
    { destruct (Z.gtb_spec (v_int v + ie) 0).
      - exec1 E1. apply send_spec in E. destruct E as (_ & b3 & -> & Hb3).
        apply update_collector_spec in E1. destruct E1 as [_ ->]. ssimpl.
        exists b3. split; [reflexivity|]. intros a' x. rewrite Hb3. reflexivity.
      - injection E1 as <-. exists b2. split; [reflexivity|]. intros a' x.
        replace (v_int v + ie) with 0 by lia. unfold xfer. destruct (_ && _), (_ && _); lia. }
    destruct E' as (b3 & -> & Hb3). ssimpl.
    match goal with |- context [upd_mint ?st ?a0 ?p0 ?m ?ad] =>
      destruct (upd_mint_spec st a0 p0 m ad Hpf) as (f' & -> & Hf1 & Hf2 & Hf3 & Hf4) end.
    split; [lia|].
    rewrite put_put by reflexivity.
    constructor; ssimpl; bc_simpl; try reflexivity.
    + repeat split; congruence.
    + unfold wfv; bc_simpl; lia.
    + intros a' p'. prod_rw. rewrite andb_false_r, orb_false_r. reflexivity.
    + intros a' p'. prod_rw. eqb_cases.
    + intros a' p'. prod_rw. eqb_cases.
    + intros a' p'. prod_rw. eqb_cases.
    + lia.
    + intros a' x. bal_rw. rewrite Hdi, Hdo. ledger.
    + intros d. bal_rw. rewrite Hdo. ledger.
    + repeat split; reflexivity.
Qed.

Lemma close_effect c s f a e id ie s' :
  ProdsExist s -> VWf s ->
  msg_close c s f a e id ie = Ok s' ->
  exists v0 ep, find_v (vaults s) id = Some v0 /\ get_ep c e = Some ep /\ v_pair v0 = e /\ v_app v0 = a /\ v_owner v0 = f /\ 0 <= ie /\
    effect c s s' f (BDel v0) (v_int v0 + ie + v_fee v0).
Proof.
  intros PE W H. unfold msg_close in H. cbv zeta in H.
  exec_checks H. exec_accrue H.
  pose proof (get_ep_id _ _ _ M) as Hid. pose proof (find_v_id _ _ _ M0) as Hvid.
  pose proof (prods_exist_v _ _ _ PE M0) as Hpf. pose proof (vwf_found _ _ _ W M0) as (W1 & W2 & W3 & W4).
  bool_norm.
  replace (v_app v) with a in Hpf by congruence. replace (v_pair v) with e in Hpf by congruence.
  pose proof (denom_in_ep _ _ _ M) as Hdi. pose proof (denom_out_ep _ _ _ M) as Hdo.
  replace e with (v_pair v) in Hdi, Hdo by congruence.
  bc_simpl.
  do 6 exec1 H. injection H as <-.
  apply csend_spec in E. destruct E as (b1 & -> & Hb1).
  apply update_collector_spec in E0. destruct E0 as [Hfee ->].
  apply csend_spec in E1. destruct E1 as (b2 & -> & Hb2).
  apply csend_spec in E2. destruct E2 as (b3 & -> & Hb3).
  apply cburn_spec in E3. destruct E3 as (b4 & sp4 & -> & Hb4 & Hs4).
  apply csend_spec in E4. destruct E4 as (b5 & -> & Hb5).
  ssimpl.
  match goal with |- context [upd_coll ?st ?a0 ?p0 ?m ?ad] =>
    destruct (upd_coll_spec st a0 p0 m ad Hpf) as (f1 & -> & Hf11 & Hf12 & Hf13 & Hf14) end.
  match goal with |- context [upd_mint ?st ?a0 ?p0 ?m ?ad] =>
    assert (Hpf2 : pfound st a0 p0 = true) by (prod_rw; rewrite <- pfound_f; exact Hpf);
    destruct (upd_mint_spec st a0 p0 m ad Hpf2) as (f2 & -> & Hf21 & Hf22 & Hf23 & Hf24) end.
  match goal with |- context [prod_del_id ?st ?a0 ?p0 ?m] =>
    assert (Hpf3 : pfound st a0 p0 = true) by (prod_rw; rewrite <- pfound_f; exact Hpf);
    destruct (prod_del_id_spec st a0 p0 m Hpf3) as (f3 & -> & Hf31 & Hf32 & Hf33 & Hf34) end.
  ssimpl. rewrite del_put by reflexivity.
  exists v, e0. repeat (split; [first [reflexivity|congruence|lia]|]).
  constructor; ssimpl; bc_simpl; try reflexivity.
  - congruence.
  - intros a' p'. prod_rw. rewrite andb_false_r, orb_false_r. reflexivity.
  - intros a' p'. prod_rw. eqb_cases.
  - intros a' p'. prod_rw. eqb_cases.
  - intros a' p'. prod_rw. eqb_cases.
  - lia.
  - intros a' x. bal_rw. rewrite Hdi, Hdo. ledger.
  - intros d. bal_rw. rewrite Hdo. ledger.
  - repeat split; reflexivity.
  - congruence.
Qed.

Lemma create_h_effect c s f a e ain aout s' :
  cfg_ok c -> 0 < ain -> 0 < aout ->
  create_h c s f a e ain aout = Ok s' ->
  exists ep closing, get_ep c e = Some ep /\ a = ep_app ep /\ ep_stable ep = false /\ e_status (esm s a) = false /\
    ep_floor ep <= aout /\ pmint s a e + aout <= ep_ceiling ep /\
    verify_cr s ep ain aout false = Ok tt /\ 0 <= closing /\
    ddf_fee ep aout = feeq aout (ep_ddf ep) /\
    effect c s s' f (BNew (mkV (vid s + 1) f a e ain aout 0 closing)) (feeq aout (ep_ddf ep)).
Proof.
  intros [_ CK] Hain Haout H. unfold create_h in H. cbv zeta in H.
  exec_checks H.
  destruct (ensure_prod_spec s a e) as (f0 & Hens & Hf01 & Hf02 & Hf03 & Hf04).
  rewrite Hens in *.
  exec1 H. exec1 H. apply csend_spec in E0. destruct E0 as (b1 & -> & Hb1).
  exec1 H. exec1 H. apply mint_spec in E0. destruct E0 as (_ & b2 & sp2 & -> & Hb2 & Hs2).
  exec1 H.
  destruct (CK _ (get_ep_in _ _ _ M)) as (Hddf & Hio & Hcl).
  apply deliver_spec in E0; [|lia|exact Hddf|lia]. destruct E0 as (Hfs & b3 & -> & Hb3). ssimpl.
  exec_checks H. injection H as <-. bool_norm.
  pose proof (get_ep_id _ _ _ M) as Hid.
  pose proof (denom_in_ep _ _ _ M) as Hdi. pose proof (denom_out_ep _ _ _ M) as Hdo.
  match goal with |- context [prod_on_create ?st ?a0 ?p0 ?i ?o ?k] =>
    destruct (prod_on_create_spec st a0 p0 i o k) as (f1 & -> & Hf11 & Hf12 & Hf13 & Hf14) end.
  destruct (feeq_bounds aout (ep_ddf e0) ltac:(lia) Hddf) as [Hfb _].
  exists e0, z0. repeat (split; [first [reflexivity|congruence|lia]|]).
  split. { unfold prod_mint in C7. ssimpl. rewrite pmint_f, <- Hf03. unfold fmint. destruct (f0 a e); lia. }
  split. { match type of E with _ = Ok ?u => destruct u end. erewrite verify_cr_env; [exact E|reflexivity..]. }
  split.
  { apply fee_share_val in M1. rewrite M1. unfold feeq. pose proof P18_pos.
    unfold int64_c in M0. destruct (_ && _) in M0; [|discriminate]. injection M0 as <-.
    apply Z.quot_pos; nia. }
  split. { apply ddf_fee_val. exact Hfs. }
  constructor; ssimpl; bc_simpl; try reflexivity.
  - split; [reflexivity|]. exists e0. split; [exact M|exact C3].
  - unfold wfv; bc_simpl. apply fee_share_val in M1. rewrite M1. unfold feeq. pose proof P18_pos.
    unfold int64_c in M0. destruct (_ && _) in M0; [|discriminate]. injection M0 as <-.
    repeat split; try lia. apply Z.quot_pos; nia.
  - intros a' p'. prod_rw. rewrite andb_true_r. eqb_cases; rewrite ?orb_true_r, ?orb_false_r; reflexivity.
  - intros a' p'. prod_rw. eqb_cases.
  - intros a' p'. prod_rw. eqb_cases.
  - intros a' p'. prod_rw. eqb_cases.
  - lia.
  - intros a' x. bal_rw. rewrite Hdi, Hdo. ledger.
  - intros d. bal_rw. rewrite Hdo. ledger.
  - repeat split; reflexivity.
Qed.

Lemma stable_create_effect c s f a e amt s' :
  cfg_ok c ->
  msg_stable_create c s f a e amt = Ok s' ->
  exists ep tout, get_ep c e = Some ep /\ a = ep_app ep /\ ep_stable ep = true /\ 0 < amt /\
    other_token (ep_dec_in ep) amt (ep_dec_out ep) = Some tout /\ 0 < tout /\
    pmint s a e + tout < ep_ceiling ep /\
    ddf_fee ep tout = feeq tout (ep_ddf ep) /\
    effect c s s' f (SNew (mkSV (sid s + 1) a e amt tout)) (feeq tout (ep_ddf ep)).
Proof.
  intros [_ CK] H. unfold msg_stable_create in H. cbv zeta in H.
  exec_checks H.
  destruct (ensure_prod_spec s a e) as (f0 & Hens & Hf01 & Hf02 & Hf03 & Hf04).
  rewrite Hens in *.
  assert (Hamt : 0 < amt) by lia.
  assert (G : (amt >? 0) = true) by lia.
  exec1 H. rewrite G in E.
  exec1 E. apply send_spec in E0. destruct E0 as (_ & b1 & -> & Hb1).
  exec1 E. apply mint_spec in E. destruct E as (Hz0 & b2 & sp2 & -> & Hb2 & Hs2).
  exec1 H.
  destruct (CK _ (get_ep_in _ _ _ M)) as (Hddf & Hio & Hcl).
  assert (Hz : 0 < z) by lia.
  apply deliver_spec in E; [|lia|exact Hddf|exact G]. destruct E as (Hfs & b3 & -> & Hb3). ssimpl.
  injection H as <-. bool_norm.
  pose proof (get_ep_id _ _ _ M) as Hid.
  pose proof (denom_in_ep _ _ _ M) as Hdi. pose proof (denom_out_ep _ _ _ M) as Hdo.
  match goal with |- context [prod_on_create ?st ?a0 ?p0 ?i ?o ?k] =>
    destruct (prod_on_create_spec st a0 p0 i o k) as (f1 & -> & Hf11 & Hf12 & Hf13 & Hf14) end.
  destruct (feeq_bounds z (ep_ddf e0) ltac:(lia) Hddf) as [Hfb _].
  exists e0, z. repeat (split; [first [reflexivity|congruence|lia]|]).
  split. { unfold prod_mint in C8. ssimpl. rewrite pmint_f, <- Hf03. unfold fmint. destruct (f0 a e); lia. }
  split. { apply ddf_fee_val. exact Hfs. }
  constructor; ssimpl; bc_simpl; try reflexivity.
  - split; [reflexivity|]. exists e0. split; [exact M|exact C4].
  - intros a' p'. prod_rw. rewrite andb_true_r. eqb_cases; rewrite ?orb_true_r, ?orb_false_r; reflexivity.
  - intros a' p'. prod_rw. eqb_cases.
  - intros a' p'. prod_rw. eqb_cases.
  - intros a' p'. prod_rw. eqb_cases.
  - lia.
  - intros a' x. bal_rw. rewrite Hdi, Hdo. ledger.
  - intros d. bal_rw. rewrite Hdo. ledger.
  - repeat split; reflexivity.
Qed.

Lemma stable_deposit_effect c s f a e id amt s' :
  cfg_ok c -> ProdsExist s ->
  msg_stable_deposit c s f a e id amt = Ok s' ->
  exists x0 ep tout, find_sv (svaults s) id = Some x0 /\ get_ep c e = Some ep /\ sv_pair x0 = e /\ sv_app x0 = a /\ 0 < amt /\
    other_token (ep_dec_in ep) amt (ep_dec_out ep) = Some tout /\ 0 < tout /\
    pmint s a e + tout < ep_ceiling ep /\
    ddf_fee ep tout = feeq tout (ep_ddf ep) /\
    effect c s s' f (SUpd x0 (mkSV (sv_id x0) (sv_app x0) (sv_pair x0) (sv_in x0 + amt) (sv_out x0 + tout))) (feeq tout (ep_ddf ep)).
Proof.
  intros [_ CK] PE H. unfold msg_stable_deposit in H. cbv zeta in H.
  do 9 exec1 H.
  pose proof (prods_exist_sv _ _ _ PE M0) as Hpf.
  do 3 exec1 H. bool_norm.
  pose proof (get_ep_id _ _ _ M) as Hid. pose proof (find_sv_id _ _ _ M0) as Hxid.
  replace (sv_app s0) with a in Hpf by congruence. replace (sv_pair s0) with e in Hpf by congruence.
  rewrite ensure_prod_found in H by exact Hpf.
  exec_checks H.
  assert (Hamt : 0 < amt) by lia.
  assert (G : (amt >? 0) = true) by lia.
  exec1 H. rewrite G in E.
  exec1 E. apply send_spec in E0. destruct E0 as (_ & b1 & -> & Hb1).
  exec1 E. apply mint_spec in E. destruct E as (Hz0 & b2 & sp2 & -> & Hb2 & Hs2).
  exec1 H.
  destruct (CK _ (get_ep_in _ _ _ M)) as (Hddf & Hio & Hcl).
  assert (Hz : 0 < z) by lia.
  apply deliver_spec in E; [|lia|exact Hddf|exact G]. destruct E as (Hfs & b3 & -> & Hb3). ssimpl.
  injection H as <-. bool_norm.
  pose proof (denom_in_ep _ _ _ M) as Hdi. pose proof (denom_out_ep _ _ _ M) as Hdo.
  replace e with (sv_pair s0) in Hdi, Hdo by congruence.
  match goal with |- context [upd_coll ?st ?a0 ?p0 ?m ?ad] =>
    destruct (upd_coll_spec st a0 p0 m ad Hpf) as (f1 & -> & Hf11 & Hf12 & Hf13 & Hf14) end.
  match goal with |- context [upd_mint ?st ?a0 ?p0 ?m ?ad] =>
    assert (Hpf2 : pfound st a0 p0 = true) by (prod_rw; rewrite <- pfound_f; exact Hpf);
    destruct (upd_mint_spec st a0 p0 m ad Hpf2) as (f2 & -> & Hf21 & Hf22 & Hf23 & Hf24) end.
  destruct (feeq_bounds z (ep_ddf e0) ltac:(lia) Hddf) as [Hfb _].
  exists s0, e0, z. repeat (split; [first [reflexivity|congruence|lia]|]).
  split. { unfold prod_mint in *. unfold pmint. destruct (prods s a e); lia. }
  split. { apply ddf_fee_val. exact Hfs. }
  constructor; ssimpl; bc_simpl; try reflexivity.
  - repeat split; congruence.
  - intros a' p'. prod_rw. rewrite andb_false_r, orb_false_r. reflexivity.
  - intros a' p'. prod_rw. eqb_cases.
  - intros a' p'. prod_rw. eqb_cases.
  - intros a' p'. prod_rw. eqb_cases.
  - lia.
  - intros a' x. bal_rw. rewrite Hdi, Hdo. ledger.
  - intros d. bal_rw. rewrite Hdo. ledger.
  - repeat split; reflexivity.
Qed.

Lemma xfer_zero f t d a x : xfer f t d 0 a x = 0.
Proof. unfold xfer. destruct (_ && _), (_ && _); lia. Qed.

Lemma stable_withdraw_effect c s f a e id amt s' :
  cfg_ok c -> ProdsExist s ->
  msg_stable_withdraw c s f a e id amt = Ok s' ->
  exists x0 ep tout upd, find_sv (svaults s) id = Some x0 /\ get_ep c e = Some ep /\ sv_pair x0 = e /\ sv_app x0 = a /\ 0 < amt /\
    0 < upd /\ upd = amt - feeq amt (ep_ddf ep) /\ 0 <= tout /\
    other_token (ep_dec_out ep) upd (ep_dec_in ep) = Some tout /\
    effect c s s' f (SUpd x0 (mkSV (sv_id x0) (sv_app x0) (sv_pair x0) (sv_in x0 - tout) (sv_out x0 - upd))) (feeq amt (ep_ddf ep)).
Proof.
  intros [_ CK] PE H. unfold msg_stable_withdraw in H. cbv zeta in H.
  do 9 exec1 H.
  pose proof (prods_exist_sv _ _ _ PE M0) as Hpf.
  exec_checks H. bool_norm.
  pose proof (get_ep_id _ _ _ M) as Hid. pose proof (find_sv_id _ _ _ M0) as Hxid.
  replace (sv_app s0) with a in Hpf by congruence. replace (sv_pair s0) with e in Hpf by congruence.
  assert (Hamt : 0 < amt) by lia.
  assert (G : (amt >? 0) = true) by lia.
  destruct (CK _ (get_ep_in _ _ _ M)) as (Hddf & Hio & Hcl).
  destruct (feeq_bounds amt (ep_ddf e0) ltac:(lia) Hddf) as [Hfb Hfb2]. specialize (Hfb2 Hamt).
  pose proof (denom_in_ep _ _ _ M) as Hdi. pose proof (denom_out_ep _ _ _ M) as Hdo.
  replace e with (sv_pair s0) in Hdi, Hdo by congruence.
  exec1 H. apply csend_spec in E. destruct E as (b1 & -> & Hb1).
  exec1 H. destruct st as [[s3 tout] upd].
  assert (E' : exists b2 sp2, s3 = set_sup (set_bal s b2) sp2 /\ 0 <= tout /\ upd = amt - feeq amt (ep_ddf e0) /\
               other_token (ep_dec_out e0) upd (ep_dec_in e0) = Some tout /\
               (forall a' x, b2 a' x = b1 a' x + xfer VAULT COLL (ep_out e0) (feeq amt (ep_ddf e0)) a' x
                                        - at2 VAULT (ep_out e0) upd a' x + xfer VAULT f (ep_in e0) tout a' x) /\
               (forall x, sp2 x = sup s x - at1 (ep_out e0) upd x)).
  { rewrite G in E. destruct (Z.eqb_spec (ep_ddf e0) 0) as [Ez|Ez]; cbn [andb] in E.
    - exec1 E. apply burn_spec in E0. destruct E0 as (_ & b2 & sp2 & -> & Hb2 & Hs2).
      exec1 E. apply send_spec in E0. destruct E0 as (Ht0 & b3 & -> & Hb3).
      injection E as <- <- <-. rewrite Ez, feeq_zero.
      exists b3, sp2. split; [reflexivity|]. split; [exact Ht0|]. split; [lia|]. split; [exact M1|].
      split; [|exact Hs2]. intros a' x. rewrite Hb3. ssimpl. rewrite Hb2. ssimpl.
      rewrite xfer_zero. lia.
    - destruct (fee_share amt (ep_ddf e0)) as [sh|] eqn:F; [|discriminate].
      pose proof (fee_share_val _ _ _ F) as ->.
      exec1 E.
      assert (E1 : exists b2, st = set_bal (set_bal s b1) b2 /\ forall a' x, b2 a' x = b1 a' x + xfer VAULT COLL (ep_out e0) (feeq amt (ep_ddf e0)) a' x).
      { destruct (Z.gtb_spec (feeq amt (ep_ddf e0)) 0).
        - exec1 E0. apply send_spec in E1. destruct E1 as (_ & b2 & -> & Hb2).
          apply update_collector_spec in E0. destruct E0 as [_ ->]. exists b2. split; [reflexivity|exact Hb2].
        - injection E0 as <-. exists b1. split; [reflexivity|]. intros a' x.
          replace (feeq amt (ep_ddf e0)) with 0 by lia. unfold xfer. destruct (_ && _), (_ && _); lia. }
      destruct E1 as (b2 & -> & Hb2). clear E0.
      destruct (Z.gtb_spec (amt - feeq amt (ep_ddf e0)) 0); [|lia].
      exec1 E. apply burn_spec in E0. destruct E0 as (_ & b3 & sp3 & -> & Hb3 & Hs3).
      exec1 E. exec1 E. apply send_spec in E0. destruct E0 as (Ht0 & b4 & -> & Hb4).
      injection E as <- <- <-.
      exists b4, sp3. split; [reflexivity|]. split; [exact Ht0|]. split; [reflexivity|]. split; [exact M2|].
      split; [|exact Hs3]. intros a' x. rewrite Hb4. ssimpl. rewrite Hb3. ssimpl. rewrite Hb2. reflexivity. }
  destruct E' as (b2 & sp2 & -> & Ht0 & Hupd & Hot & Hb2 & Hs2).
  injection H as <-. ssimpl.
  match goal with |- context [upd_coll ?st ?a0 ?p0 ?m ?ad] =>
    destruct (upd_coll_spec st a0 p0 m ad Hpf) as (f1 & -> & Hf11 & Hf12 & Hf13 & Hf14) end.
  match goal with |- context [upd_mint ?st ?a0 ?p0 ?m ?ad] =>
    assert (Hpf2 : pfound st a0 p0 = true) by (prod_rw; rewrite <- pfound_f; exact Hpf);
    destruct (upd_mint_spec st a0 p0 m ad Hpf2) as (f2 & -> & Hf21 & Hf22 & Hf23 & Hf24) end.
  exists s0, e0, tout, upd. repeat (split; [first [reflexivity|congruence|lia|assumption]|]).
  constructor; ssimpl; bc_simpl; try reflexivity.
  - repeat split; congruence.
  - intros a' p'. prod_rw. rewrite andb_false_r, orb_false_r. reflexivity.
  - intros a' p'. prod_rw. eqb_cases.
  - intros a' p'. prod_rw. eqb_cases.
  - intros a' p'. prod_rw. eqb_cases.
  - lia.
  - intros a' x. bal_rw. rewrite Hdi, Hdo. ledger.
  - intros d. bal_rw. rewrite Hdo. ledger.
  - repeat split; reflexivity.
Qed.
