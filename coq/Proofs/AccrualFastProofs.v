From Comdex Require Import Lib.Base Lib.DecArith Lib.F64 Lib.F64Fast Model.Accrual Model.AccrualFast.

Lemma cmp_xf_eq lsr : cmp_xf lsr = cmp_x lsr. Proof. apply to64f_eq. Qed.
Lemma cmp_yf_eq secs : cmp_yf secs = cmp_y secs. Proof. apply to64f_eq. Qed.
Lemma cmp_amtff_eq a : cmp_amtff a = cmp_amtf a. Proof. apply to64f_eq. Qed.

Lemma calculation_of_rewards_fast_eq pow now btime amt lsr :
  calculation_of_rewards_fast pow now btime amt lsr = calculation_of_rewards pow now btime amt lsr.
Proof.
  unfold calculation_of_rewards_fast, calculation_of_rewards.
  destruct (now - btime <? 0); [reflexivity|].
  destruct (int64_c amt); [|reflexivity]. cbv zeta. rewrite cmp_xf_eq, cmp_yf_eq, cmp_amtff_eq, !sub64f_eq, !mul64f_eq, !fmt18f_eq. reflexivity.
Qed.
