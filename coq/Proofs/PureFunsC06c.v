(* Tie (C) for C06, third part: lemmas about Model/Pool.v used by the ties of amm.NewRangedPool and
   amm.CreateRangedPool (nothing here depends on the regenerated Gen/PureFuns.v). *)
From Comdex Require Import Lib.Base Lib.DecArith Lib.GoSem Model.Pool Proofs.PureFunsLemmas.

(* the nine fields of *RangedPool in declaration order (pool.go:204) *)
Definition rp_fields (p : rpool) : Z * Z * Z * Z * Z * Z * Z * Z * Z :=
  (r_rx p, r_ry p, r_ps p, r_min p, r_max p, r_tx p, r_ty p, r_xc p, r_yc p).

Lemma collapse_obind : forall A B (m : outcome A) (f : A -> outcome B),
  collapse (obind m f) = match collapse m with Ok a => collapse (f a) | Err e => Panic | Panic => Panic end.
Proof. destruct m; reflexivity. Qed.

(* ValidateRangedPoolParams' errors are numbered 1..8 *)
Lemma validate_ranged_err : forall minP maxP initP n,
  validate_ranged minP maxP initP = Err n -> 1 <= n <= 8.
Proof.
  intros minP maxP initP n. unfold validate_ranged.
  repeat match goal with
         | |- context [if ?c then _ else _] => destruct c
         | |- context [match ?x with Some _ => _ | None => _ end] => destruct x
         end; intros H; inversion H; lia.
Qed.

(* the error result of CreateRangedPool as the translator numbers it: its own fmt.Errorf is the
   function's first error site (1); the model calls it Err 9; the errors of
   ValidateRangedPoolParams are handed on unchanged *)
Definition create_err_code (n : Z) : Z := if n =? 9 then 1 else n.
