(* C08 proofs, part 4d: the close rule of a generation-2 auction of a handed-over position.  What the lending
   pools hold of the asset out after the close, against the principal that returns and the interest the close
   books (TotalInterestAccumulated): proved outside known-finding class 3, refuted inside it (Properties/C08.v). *)
From Comdex Require Import Lib.Base Lib.DecArith Lib.DecFacts Model.Lend Proofs.LendProofs Proofs.LendProofsInv Proofs.LendProofsSide
     Proofs.LendProofsSteps Proofs.LendProofsSteps2.
From Coq Require Import ZifyBool.

(* ---------- the ledger ---------- *)
Lemma balance_pset b k v x a :
  balance (mkBank (pset (bal b) k v) (sup b)) x a = if peqb k (x, a) then v else balance b x a.
Proof. unfold balance. cbn [bal]. rewrite pget_pset. destruct (peqb k (x, a)); reflexivity. Qed.
Lemma balance_pset' B k v s x a :
  balance (mkBank (pset B k v) s) x a = if peqb k (x, a) then v else balance (mkBank B s) x a.
Proof. unfold balance. cbn [bal]. rewrite pget_pset. destruct (peqb k (x, a)); reflexivity. Qed.

Definition ind (c : bool) (v : Z) : Z := if c then v else 0.

Lemma send_balance b f t d amt b' : send b f t d amt = Ok b' ->
  0 <= amt /\ forall x a, balance b' x a = balance b x a + ind (peqb (t, d) (x, a)) amt - ind (peqb (f, d) (x, a)) amt.
Proof.
  unfold send. destruct (amt <? 0) eqn:E1; [discriminate|]. destruct (amt =? 0) eqn:E2.
  - intros H. injection H as <-. split; [lia|]. intros x a. assert (amt = 0) by lia. subst amt. unfold ind.
    destruct (peqb (t, d) (x, a)); destruct (peqb (f, d) (x, a)); lia.
  - destruct (balance b f d <? amt); [discriminate|]. intros H. injection H as <-. split; [lia|]. intros x a.
    set (b1 := mkBank (pset (bal b) (f, d) (balance b f d - amt)) (sup b)).
    assert (HB1 : forall y c, balance b1 y c = if peqb (f,d) (y,c) then balance b f d - amt else balance b y c) by (intros; apply balance_pset).
    change (balance (mkBank (pset (bal b1) (t,d) (balance b1 t d + amt)) (sup b1)) x a = balance b x a + ind (peqb (t, d) (x, a)) amt - ind (peqb (f, d) (x, a)) amt).
    rewrite balance_pset, !HB1. unfold ind.
    destruct (peqb (t, d) (x, a)) eqn:Et; destruct (peqb (f, d) (x, a)) eqn:Ef.
    + apply peqb_eq in Et. apply peqb_eq in Ef. injection Et as <- <-. injection Ef as ->. rewrite peqb_refl. clear. lia.
    + apply peqb_eq in Et. injection Et as <- <-. rewrite Ef. clear. lia.
    + apply peqb_eq in Ef. injection Ef as <- <-. clear. lia.
    + clear. lia.
Qed.

Lemma credit_balance b t d amt b' : credit b t d amt = Ok b' ->
  0 <= amt /\ forall x a, balance b' x a = balance b x a + ind (peqb (t, d) (x, a)) amt.
Proof.
  unfold credit. destruct (amt <? 0) eqn:E1; [discriminate|]. destruct (amt =? 0) eqn:E2.
  - intros H. injection H as <-. split; [lia|]. intros x a. unfold ind. destruct (peqb _ _); lia.
  - intros H. injection H as <-. split; [lia|]. intros x a. rewrite balance_pset. unfold ind.
    destruct (peqb (t, d) (x, a)) eqn:Et; [apply peqb_eq in Et; injection Et as <- <-|]; lia.
Qed.

Lemma mint_balance b t d amt b' : mint b t d amt = Ok b' ->
  0 <= amt /\ forall x a, balance b' x a = balance b x a + ind (peqb (t, d) (x, a)) amt.
Proof.
  unfold mint. destruct (amt <? 0) eqn:E1; [discriminate|]. destruct (amt =? 0) eqn:E2.
  - intros H. injection H as <-. split; [lia|]. intros x a. unfold ind. destruct (peqb _ _); lia.
  - intros H. injection H as <-. split; [lia|]. intros x a. unfold balance at 1. cbn [bal]. rewrite pget_pset. unfold ind.
    destruct (peqb (t, d) (x, a)) eqn:Et; [apply peqb_eq in Et; injection Et as <- <-; reflexivity|]. unfold balance. lia.
Qed.

(* ---------- sums over the pool module accounts ---------- *)
Definition mods (cfg : config) : list Z := map (fun ip => p_mod (snd ip)) (c_pools cfg).
Fixpoint msum (g : Z -> Z) (l : list Z) : Z := match l with [] => 0 | x :: r => g x + msum g r end.
Lemma ptotal_msum cfg b a : ptotal cfg b a = msum (fun x => balance b x a) (mods cfg).
Proof. unfold ptotal, mods. induction (c_pools cfg) as [|ip r IH]; cbn; [reflexivity|]. rewrite IH. reflexivity. Qed.
Lemma msum_add f g h l : (forall x, h x = f x + g x) -> msum h l = msum f l + msum g l.
Proof. intros E. induction l as [|x r IH]; cbn; [reflexivity|]. rewrite IH, E. lia. Qed.
Lemma msum_ind_notin t v l : ~ In t l -> msum (fun x => ind (t =? x) v) l = 0.
Proof.
  induction l as [|x r IH]; cbn; [reflexivity|]. intros Hn. rewrite IH by tauto. unfold ind.
  destruct (Z.eqb_spec t x); [exfalso; apply Hn; left; congruence|reflexivity].
Qed.
Lemma msum_ind_in t v l : NoDup l -> In t l -> msum (fun x => ind (t =? x) v) l = v.
Proof.
  induction l as [|x r IH]; cbn; [tauto|]. intros Hnd [->|Hin]; inversion Hnd; subst.
  - rewrite Z.eqb_refl. unfold ind at 1. rewrite msum_ind_notin by assumption. lia.
  - unfold ind at 1. destruct (Z.eqb_spec t x); [subst; contradiction|]. rewrite IH by assumption. lia.
Qed.
Lemma msum_ind_nonneg t v l : 0 <= v -> 0 <= msum (fun x => ind (t =? x) v) l.
Proof. intros Hv. induction l as [|x r IH]; cbn; [lia|]. unfold ind at 1. destruct (t =? x); lia. Qed.
Lemma msum_nonneg g l : (forall x, 0 <= g x) -> 0 <= msum g l.
Proof. intros Hg. induction l as [|x r IH]; cbn [msum]; [lia|]. specialize (Hg x). lia. Qed.
Lemma msum_zero l : msum (fun _ => 0) l = 0.
Proof. induction l as [|x r IH]; cbn; lia. Qed.
Lemma msum_ext f g l : (forall x, f x = g x) -> msum f l = msum g l.
Proof. intros E. induction l as [|x r IH]; cbn; [reflexivity|]. rewrite IH, E. reflexivity. Qed.

(* per-account delta of one denom -> delta of the pools' total *)
Lemma ptotal_delta cfg b b' a g :
  (forall x, balance b' x a = balance b x a + g x) -> ptotal cfg b' a = ptotal cfg b a + msum g (mods cfg).
Proof. intros E. rewrite !ptotal_msum. apply msum_add. exact E. Qed.

Lemma peqb_pair t d x a : peqb (t, d) (x, a) = (t =? x) && (d =? a).
Proof. reflexivity. Qed.

Definition pools_wf (cfg : config) : Prop :=
  NoDup (mods cfg) /\ ~ In RESERVE (mods cfg) /\ ~ In AUCTION (mods cfg) /\
  (forall id r, zget (c_rates cfg) id = Some r -> 0 <= r_pen r /\ 0 <= r_epen r).

Lemma pool_in_mods cfg id pl : zget (c_pools cfg) id = Some pl -> In (p_mod pl) (mods cfg).
Proof.
  intros H. apply (fget_in Z.eqb zeqb_eq) in H. unfold mods. apply in_map_iff. exists (id, pl). split; [reflexivity|exact H].
Qed.

(* a transfer: the pools' total of denom [a] moves by amt x ([to is a pool] - [from is a pool]) when it is denom a *)
Lemma send_ptotal cfg b f t d amt b' a :
  send b f t d amt = Ok b' ->
  ptotal cfg b' a = ptotal cfg b a + msum (fun x => ind (t =? x) (ind (d =? a) amt)) (mods cfg)
                                   - msum (fun x => ind (f =? x) (ind (d =? a) amt)) (mods cfg).
Proof.
  intros H. destruct (send_balance _ _ _ _ _ _ H) as (_ & HB).
  rewrite (ptotal_delta cfg b b' a (fun x => ind (t =? x) (ind (d =? a) amt) - ind (f =? x) (ind (d =? a) amt))).
  - rewrite (msum_add (fun x => ind (t =? x) (ind (d =? a) amt)) (fun x => - ind (f =? x) (ind (d =? a) amt))
                      (fun x => ind (t =? x) (ind (d =? a) amt) - ind (f =? x) (ind (d =? a) amt))) by (intros; lia).
    assert (E : forall l, msum (fun x => - ind (f =? x) (ind (d =? a) amt)) l = - msum (fun x => ind (f =? x) (ind (d =? a) amt)) l).
    { induction l as [|y r IH]; cbn; [reflexivity|]. rewrite IH. lia. }
    rewrite E. lia.
  - intros x. rewrite HB, !peqb_pair. unfold ind. destruct (t =? x); destruct (f =? x); destruct (d =? a); cbn; lia.
Qed.

Section CloseRule.
  Variable cfg : config.
  Hypothesis Hwf : pools_wf cfg.

  Lemma tia_after S k tomint S0 j :
    (if tomint >? 0 then match pget S k with None => Panic | Some s0 => Ok (pset S k (set_s_tia s0 (s_tia s0 + tomint))) end
     else Ok S) = Ok S0 ->
    (match pget (match pget S0 k with
                 | Some s1 => pset S0 k (set_s_bids s1 (remove_sorted j (s_bids s1)))
                 | None => S0 end) k with Some s => s_tia s | None => 0 end)
    = (match pget S k with Some s => s_tia s | None => 0 end) + (if tomint >? 0 then tomint else 0).
  Proof.
    intros H. destruct (tomint >? 0).
    - destruct (pget S k) as [s0|] eqn:E; [|discriminate]. injection H as <-.
      rewrite pget_pset, peqb_refl. rewrite pget_pset, peqb_refl. cbn [s_tia set_s_bids set_s_tia]. reflexivity.
    - injection H as <-. destruct (pget S k) as [s0|] eqn:E.
      + rewrite pget_pset, peqb_refl. cbn [s_tia set_s_bids]. lia.
      + rewrite E. lia.
  Qed.

  (* the exact flow of the asset out through the pools at a close, up to inflows that can only help *)
  Lemma auc_close_flow st bid target owner back st' b pr :
    auc_close cfg st bid target owner back = Ok st' ->
    zget (borrows st) bid = Some b -> zget (c_pairs cfg) (b_pair b) = Some pr ->
    exists pen extra,
      close_penalty cfg pr b = Ok pen /\ 0 <= extra /\ 0 <= pen /\
      ptotal cfg (bnk st') (pr_out pr) - ptotal cfg (bnk st) (pr_out pr)
        = target - pen - (if dtrunc_int (b_res b) >? 0 then dtrunc_int (b_res b) else 0) + extra /\
      tia_of st' (pr_out_pool pr, pr_out pr) - tia_of st (pr_out_pool pr, pr_out pr)
        = (if dtrunc_int (b_int b - b_res b) >? 0 then dtrunc_int (b_int b - b_res b) else 0).
  Proof.
    intros H Eb Ep. destruct Hwf as (Hnd & Hres & Hauc & _). unfold auc_close in H. rewrite Eb in H.
    destruct (b_liq b) eqn:Eq; cbn [negb orb] in H; [|discriminate].
    destruct (existsb (Z.eqb bid) (v1 st)) eqn:Ev1; [discriminate|]. rewrite Ep in H.
    destruct (zget (c_pools cfg) (pr_out_pool pr)) as [pout|] eqn:Epo; [|discriminate].
    cbv zeta in H. pose proof (pool_in_mods _ _ _ Epo) as Hin.
    destruct (send (bnk st) AUCTION owner (pr_in pr) back) as [b0| |] eqn:E0; cbn [obind] in H; try discriminate.
    destruct (credit b0 (p_mod pout) (pr_out pr) target) as [b1| |] eqn:E1; cbn [obind] in H; try discriminate.
    destruct (close_penalty cfg pr b) as [pen| |] eqn:E2; cbn [obind] in H; try discriminate.
    destruct (send b1 (p_mod pout) RESERVE (pr_out pr) pen) as [b2| |] eqn:E3; cbn [obind] in H; try discriminate.
    match type of H with obind ?x _ = _ => destruct x as [b3| |] eqn:E4; cbn [obind] in H; try discriminate end.
    match type of H with obind ?x _ = _ => destruct x as [b4| |] eqn:E5; cbn [obind] in H; try discriminate end.
    match type of H with obind ?x _ = _ => destruct x as [S0| |] eqn:ES0; cbn [obind] in H; try discriminate end.
    match type of H with obind ?x _ = _ => destruct x as [b5| |] eqn:E6; cbn [obind] in H; try discriminate end.
    injection H as <-. cbn [bnk with_bank with_books]. set (a := pr_out pr).
    (* step by step *)
    pose proof (send_ptotal cfg _ _ _ _ _ _ a E0) as F0. destruct (send_balance _ _ _ _ _ _ E0) as (Hback & _).
    rewrite (msum_ind_notin AUCTION _ _ Hauc) in F0.
    destruct (credit_balance _ _ _ _ _ E1) as (Htg & HB1).
    assert (F1 : ptotal cfg b1 a = ptotal cfg b0 a + target).
    { rewrite (ptotal_delta cfg b0 b1 a (fun x => ind (p_mod pout =? x) target)).
      - rewrite (msum_ind_in _ _ _ Hnd Hin). reflexivity.
      - intros x. rewrite HB1, peqb_pair. unfold a. rewrite Z.eqb_refl, andb_true_r. reflexivity. }
    pose proof (send_ptotal cfg _ _ _ _ _ _ a E3) as F3. destruct (send_balance _ _ _ _ _ _ E3) as (Hpen & _).
    rewrite (msum_ind_notin RESERVE _ _ Hres) in F3. unfold a in F3 at 3. rewrite Z.eqb_refl in F3. unfold ind in F3 at 2.
    rewrite (msum_ind_in _ _ _ Hnd Hin) in F3.
    assert (F4 : ptotal cfg b3 a = ptotal cfg b2 a - (if dtrunc_int (b_res b) >? 0 then dtrunc_int (b_res b) else 0)).
    { destruct (dtrunc_int (b_res b) >? 0).
      - pose proof (send_ptotal cfg _ _ _ _ _ _ a E4) as F. rewrite (msum_ind_notin RESERVE _ _ Hres) in F.
        unfold a in F at 3. rewrite Z.eqb_refl in F. unfold ind in F at 2. rewrite (msum_ind_in _ _ _ Hnd Hin) in F. lia.
      - injection E4 as <-. lia. }
    assert (F5 : exists x5, 0 <= x5 /\ ptotal cfg b4 a = ptotal cfg b3 a + x5).
    { destruct (dtrunc_int (b_int b - b_res b) >? 0).
      - destruct (cdenom_of cfg (pr_out pr)) as [cden|]; [|discriminate].
        destruct (mint_balance _ _ _ _ _ E5) as (Hm & HB5).
        exists (msum (fun x => ind (peqb (p_mod pout, cden) (x, a)) (dtrunc_int (b_int b - b_res b))) (mods cfg)). split.
        + apply msum_nonneg. intros x. unfold ind. destruct (peqb _ _); lia.
        + apply ptotal_delta. intros x. apply HB5.
      - injection E5 as <-. exists 0. split; lia. }
    destruct F5 as (x5 & Hx5 & F5).
    assert (F6 : ptotal cfg b5 a = ptotal cfg b4 a).
    { destruct (b_brd b >? 0); [|injection E6 as <-; reflexivity].
      destruct (zget (lends st) (b_lend b)) as [l|]; [|discriminate].
      destruct (zget (c_pools cfg) (l_pool l)) as [pin|] eqn:Epi; [|discriminate].
      pose proof (send_ptotal cfg _ _ _ _ _ _ a E6) as F. pose proof (pool_in_mods _ _ _ Epi) as Hin2.
      rewrite !(msum_ind_in _ _ _ Hnd) in F by assumption. lia. }
    exists pen, (msum (fun x => ind (owner =? x) (ind (pr_in pr =? a) back)) (mods cfg) + x5).
    split; [reflexivity|]. split.
    { assert (0 <= msum (fun x => ind (owner =? x) (ind (pr_in pr =? a) back)) (mods cfg)).
      { apply msum_ind_nonneg. unfold ind. destruct (pr_in pr =? a); lia. } lia. }
    split; [exact Hpen|]. split; [lia|].
    subst a. unfold tia_of. cbn [sstats with_bank with_books]. rewrite (tia_after _ _ _ _ bid ES0). lia.
  Qed.

  (* the penalty the close forwards is not above the one the target debt carries, outside class 3 *)
  Lemma close_penalty_le b pr rin pen t :
    zget (c_rates cfg) (pr_in pr) = Some rin -> 0 <= b_out b ->
    (pr_emode pr && (r_epen rin >? r_pen rin)) = false ->
    close_penalty cfg pr b = Ok pen ->
    dmul_c (dec_of_int (b_out b)) (r_pen rin) = Some t -> pen <= dtrunc_int t.
  Proof.
    intros Er Hout Hcls Hp Ht. destruct Hwf as (_ & _ & _ & Hpen). destruct (Hpen _ _ Er) as (Hp1 & Hp2).
    unfold close_penalty in Hp. rewrite Er in Hp. unfold dmul_c, chk_dec in *.
    rewrite dmul_int_exact in *. destruct (fits_dec (b_out b * r_pen rin)); [|discriminate]. injection Ht as <-.
    destruct (pr_emode pr); cbn [andb] in Hcls.
    - destruct (fits_dec _); [|discriminate]. injection Hp as <-. apply dtrunc_int_mono; nia.
    - destruct (fits_dec _); [|discriminate]. injection Hp as <-. lia.
  Qed.

  Lemma close_rule st bid target owner back st' b :
    auc_close cfg st bid target owner back = Ok st' ->
    zget (borrows st) bid = Some b -> 0 <= b_out b ->
    kf_C08_3 cfg st (OAucClose bid target owner back) = false ->
    holds_C08_target cfg st bid target = true ->
    holds_C08_close cfg st st' bid = true.
  Proof.
    intros H Eb Hout Hkf Htg. unfold holds_C08_close, holds_C08_target, kf_C08_3 in *. rewrite Eb in *.
    assert (Eq : b_liq b = true).
    { unfold auc_close in H. rewrite Eb in H. destruct (b_liq b); [reflexivity|discriminate]. }
    rewrite Eq in Hkf. cbn [andb] in Hkf. unfold target_of in Htg.
    destruct (zget (c_pairs cfg) (b_pair b)) as [pr|] eqn:Ep; [|discriminate].
    destruct (zget (c_rates cfg) (pr_in pr)) as [rin|] eqn:Er; [|discriminate].
    destruct (dmul_c (dec_of_int (b_out b)) (r_pen rin)) as [t|] eqn:Et; [|discriminate].
    apply orb_false_elim in Hkf as (Hkf & Hem). apply orb_false_elim in Hkf as (Htr & Htm).
    destruct (auc_close_flow _ _ _ _ _ _ b pr H Eb Ep) as (pen & extra & Hp & Hex & Hpn & HF & HT).
    pose proof (close_penalty_le b pr rin pen t Er Hout Hem Hp Et) as Hle.
    rewrite Htr in HF. rewrite Htm in HT. apply Z.leb_le. lia.
  Qed.
End CloseRule.

Lemma pools_wfb_ok cfg : pools_wfb cfg = true -> pools_wf cfg.
Proof.
  unfold pools_wfb, pools_wf. fold (mods cfg). intros H.
  repeat (apply andb_prop in H; destruct H as [H ?]).
  assert (Hex : forall x l, existsb (Z.eqb x) l = false -> ~ In x l).
  { intros x l E Hin. assert (existsb (Z.eqb x) l = true) by (apply existsb_exists; exists x; split; [exact Hin|apply Z.eqb_refl]). congruence. }
  split; [|split; [|split]].
  - revert H. generalize (mods cfg). induction l as [|x r IH]; intros Hn; [constructor|].
    apply andb_prop in Hn as (Hn1 & Hn2). constructor; [apply Hex; destruct (existsb (Z.eqb x) r); [discriminate|reflexivity]|apply IH; exact Hn2].
  - apply Hex. match goal with G : negb (existsb (Z.eqb RESERVE) _) = true |- _ => destruct (existsb (Z.eqb RESERVE) (mods cfg)); [discriminate|reflexivity] end.
  - apply Hex. match goal with G : negb (existsb (Z.eqb AUCTION) _) = true |- _ => destruct (existsb (Z.eqb AUCTION) (mods cfg)); [discriminate|reflexivity] end.
  - intros id r Hg. apply (fget_in Z.eqb zeqb_eq) in Hg.
    match goal with G : forallb _ (c_rates cfg) = true |- _ => rewrite forallb_forall in G; specialize (G _ Hg); cbn [snd] in G end. lia.
Qed.
