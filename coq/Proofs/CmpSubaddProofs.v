(* C18 (iii): sub-additivity of the compound accrual THROUGH the float roundings and the
   18-decimal formatting, under H4 only. *)
From Comdex Require Import Lib.Base Lib.DecArith Lib.DecFacts Lib.F64 Model.Accrual Model.Pow Proofs.AccrualProofs.
From Coq Require Import ZifyBool.

Definition AMT_MAX : Z := 2 ^ 63 * F_ONE.
Definition EN_MAX : Z := 2 ^ 40.

Lemma num_fact : P18f * (2 ^ 64 * (3 * F_P53 + 1) + 6 * F_P53) * F_P52 <= F_ONE * F_P53 * F_P53 /\
                 (2 * F_P53 + 1) * EN_MAX <= F_P53 * F_P53.
Proof. vm_compute. split; discriminate. Qed.

(* error of one rounding with a divisor d, divided through by d *)
Lemma sub64_err n : 0 <= n ->
  let a := rnd64 n F_ONE in
  0 <= a /\ a * F_P53 <= n * (F_P53 + 1) + F_P52 /\ n * (F_P53 - 1) - F_P52 <= a * F_P53.
Proof.
  intros Hn. cbv zeta. pose proof F_ONE_pos as HO. pose proof F_P53_pos.
  unfold rnd64. destruct (Z.ltb_spec n 0); [lia|].
  pose proof (rnd64_nn_err n F_ONE Hn HO) as [E1 E2]. pose proof (rnd64_nn_nonneg n F_ONE Hn HO).
  set (a := rnd64_nn n F_ONE) in *. split; [assumption|].
  split.
  - apply (Z.mul_le_mono_pos_r _ _ F_ONE HO). nia.
  - apply (Z.mul_le_mono_pos_r _ _ F_ONE HO). nia.
Qed.

Lemma mul64_err a A : 0 <= a -> 0 <= A ->
  let m := mul64 a A in
  0 <= m /\ m * F_ONE * F_P53 <= a * A * (F_P53 + 1) + F_ONE * F_P52 /\ a * A * (F_P53 - 1) - F_ONE * F_P52 <= m * F_ONE * F_P53.
Proof.
  intros Ha HA. cbv zeta. pose proof F_ONE_pos as HO. pose proof F_P53_pos.
  unfold mul64, rnd64. assert (0 <= a * A) by nia. destruct (Z.ltb_spec (a * A) 0); [lia|].
  assert (HOO : 0 < F_ONE * F_ONE) by nia.
  pose proof (rnd64_nn_err (a * A) (F_ONE * F_ONE) ltac:(lia) HOO) as [E1 E2].
  pose proof (rnd64_nn_nonneg (a * A) (F_ONE * F_ONE) ltac:(lia) HOO).
  set (m := rnd64_nn (a * A) (F_ONE * F_ONE)) in *. split; [assumption|].
  split.
  - apply (Z.mul_le_mono_pos_r _ _ F_ONE HO). nia.
  - apply (Z.mul_le_mono_pos_r _ _ F_ONE HO). nia.
Qed.

Lemma fmt18_err m : 0 <= m -> - F_ONE <= 2 * (fmt18 m * F_ONE - m * P18f) <= F_ONE.
Proof.
  intros Hm. unfold fmt18. destruct (Z.ltb_spec m 0); [lia|].
  pose proof P18f_pos. pose proof F_ONE_pos.
  pose proof (rne_bounds (m * P18f) F_ONE ltac:(nia) ltac:(lia)) as [_ B]. exact B.
Qed.

Ltac nn := repeat apply Z.mul_nonneg_nonneg; lia.

Lemma subadd_arith O P H K A en f12 n1 n2 n12 a1 a2 a12 m1 m2 m12 r1 r2 r12 :
  0 < O -> 0 < P -> P = 2 * H -> 0 < K -> 0 <= A -> 0 <= en -> 0 <= n1 -> 0 <= n2 -> 0 <= n12 -> n12 <= f12 ->
  0 <= a1 -> 0 <= a2 -> 0 <= a12 ->
  a1 * P <= n1 * (P + 1) + H -> a2 * P <= n2 * (P + 1) + H -> n12 * (P - 1) - H <= a12 * P ->
  m1 * O * P <= a1 * A * (P + 1) + O * H -> m2 * O * P <= a2 * A * (P + 1) + O * H -> a12 * A * (P - 1) - O * H <= m12 * O * P ->
  2 * (r1 * O - m1 * K) <= O -> 2 * (r2 * O - m2 * K) <= O -> - O <= 2 * (r12 * O - m12 * K) ->
  (n1 + n2) * P <= n12 * P + en * f12 ->
  2 * (r1 + r2 - r12) * O * O * P * P * P <=
    2 * K * A * f12 * (4 * P * P + (P + 1) * (P + 1) * en) + 2 * K * A * (3 * P + 1) * H * P + 6 * K * O * H * P * P + 3 * O * O * P * P * P.
Proof.
  intros HO HP HPH HK HA Hen Hn1 Hn2 Hn12 Hnf Ha1 Ha2 Ha12 A1 A2 A12 M1 M2 M12 R1 R2 R12 C.
  assert (HH : 0 <= H) by lia.
  (* step 1: the formatting *)
  assert (S1 : 2 * (r1 + r2 - r12) * O <= 2 * K * (m1 + m2 - m12) + 3 * O) by lia.
  (* step 2: the multiplication by the amount *)
  assert (S2 : (m1 + m2 - m12) * O * P <= (a1 + a2) * A * (P + 1) - a12 * A * (P - 1) + 3 * O * H) by lia.
  (* step 3: f - 1 *)
  assert (S3a : (a1 + a2) * P <= (n1 + n2) * (P + 1) + 2 * H) by lia.
  assert (T1 : ((a1 + a2) * P) * (A * (P + 1)) <= ((n1 + n2) * (P + 1) + 2 * H) * (A * (P + 1))).
  { apply Z.mul_le_mono_nonneg_r; [nn|exact S3a]. }
  assert (T2 : (n12 * (P - 1) - H) * (A * (P - 1)) <= (a12 * P) * (A * (P - 1))).
  { apply Z.mul_le_mono_nonneg_r; [nn|exact A12]. }
  assert (T0 : ((m1 + m2 - m12) * O * P) * P <= ((a1 + a2) * A * (P + 1) - a12 * A * (P - 1) + 3 * O * H) * P).
  { apply Z.mul_le_mono_nonneg_r; [lia|exact S2]. }
  assert (S4 : (m1 + m2 - m12) * O * P * P <=
               ((n1 + n2) * (P + 1) + 2 * H) * (A * (P + 1)) - (n12 * (P - 1) - H) * (A * (P - 1)) + 3 * O * H * P).
  { clear - T0 T1 T2. ring_simplify in T0. ring_simplify in T1. ring_simplify in T2. ring_simplify. lia. }
  (* step 4: H4 *)
  assert (T3 : ((n1 + n2) * P) * (A * (P + 1) * (P + 1)) <= (n12 * P + en * f12) * (A * (P + 1) * (P + 1))).
  { apply Z.mul_le_mono_nonneg_r; [nn|exact C]. }
  assert (T4 : ((m1 + m2 - m12) * O * P * P) * P <=
            (((n1 + n2) * (P + 1) + 2 * H) * (A * (P + 1)) - (n12 * (P - 1) - H) * (A * (P - 1)) + 3 * O * H * P) * P).
  { apply Z.mul_le_mono_nonneg_r; [lia|exact S4]. }
  assert (S5 : (m1 + m2 - m12) * O * P * P * P <=
               A * (4 * P * P * n12 + (P + 1) * (P + 1) * en * f12 + (3 * P + 1) * H * P) + 3 * O * H * P * P).
  { clear - T3 T4. ring_simplify in T3. ring_simplify in T4. ring_simplify. lia. }
  assert (S6 : (A * (4 * P * P)) * n12 <= (A * (4 * P * P)) * f12) by (apply Z.mul_le_mono_nonneg_l; [nn|exact Hnf]).
  (* assemble *)
  assert (S7 : (2 * (r1 + r2 - r12) * O) * (O * P * P * P) <= (2 * K * (m1 + m2 - m12) + 3 * O) * (O * P * P * P)).
  { apply Z.mul_le_mono_nonneg_r; [nn|exact S1]. }
  assert (S8 : (2 * K) * ((m1 + m2 - m12) * O * P * P * P) <=
               (2 * K) * (A * (4 * P * P * n12 + (P + 1) * (P + 1) * en * f12 + (3 * P + 1) * H * P) + 3 * O * H * P * P)).
  { apply Z.mul_le_mono_nonneg_l; [lia|exact S5]. }
  assert (S9 : (2 * K) * ((A * (4 * P * P)) * n12) <= (2 * K) * ((A * (4 * P * P)) * f12)) by (apply Z.mul_le_mono_nonneg_l; [lia|exact S6]).
  clear - S7 S8 S9. ring_simplify in S7. ring_simplify in S8. ring_simplify in S9. ring_simplify. lia.
Qed.

(* ---------------- the bound on the returned Dec amounts ----------------
   Two consecutive accruals on the same float principal A against one accrual over the combined
   interval, given H4 (pow x y1 * pow x y2 <= (1 + en/2^53) * pow x y12):
       r1 + r2 <= r12 + A * f12 * (en + 5) * 2^-53  + 2 ulp          (A, f12 as real numbers)
   i.e. the excess is at most (en + 5) * 2^-53 of (principal * growth factor), plus two units of the
   last stored decimal place.  4 of the 5 come from the two float roundings on each side
   (f - 1, * amount), 1 absorbs the second-order terms; the 2 ulp are the three 18-decimal
   formattings (1.5) and the sub-normal absolute errors. *)
Theorem cmp_after_pow_subadd en f1 f2 f12 A :
  F_ONE <= f1 -> F_ONE <= f2 -> F_ONE <= f12 -> 0 <= A <= AMT_MAX -> 0 <= en <= EN_MAX ->
  h4_ok en f1 f2 f12 = true ->
  (cmp_after_pow f1 A + cmp_after_pow f2 A - cmp_after_pow f12 A - 2) * F_ONE * F_ONE * F_P53 <= P18f * A * f12 * (en + 5).
Proof.
  intros H1 H2 H12 HA Hen H4.
  pose proof F_ONE_pos as HO. pose proof F_P53_pos as HP. pose proof F_P53_eq as HPH. pose proof P18f_pos as HK.
  pose proof num_fact as [NF1 NF2].
  pose proof (cmp_core_subadd en f1 f2 f12 H1 H2 H4) as C.
  unfold cmp_after_pow, sub64.
  pose proof (sub64_err (f1 - F_ONE) ltac:(lia)) as (a1n & a1u & _). cbv zeta in *.
  pose proof (sub64_err (f2 - F_ONE) ltac:(lia)) as (a2n & a2u & _). cbv zeta in *.
  pose proof (sub64_err (f12 - F_ONE) ltac:(lia)) as (a12n & _ & a12l). cbv zeta in *.
  set (a1 := rnd64 (f1 - F_ONE) F_ONE) in *. set (a2 := rnd64 (f2 - F_ONE) F_ONE) in *. set (a12 := rnd64 (f12 - F_ONE) F_ONE) in *.
  pose proof (mul64_err a1 A a1n ltac:(lia)) as (m1n & m1u & _). cbv zeta in *.
  pose proof (mul64_err a2 A a2n ltac:(lia)) as (m2n & m2u & _). cbv zeta in *.
  pose proof (mul64_err a12 A a12n ltac:(lia)) as (m12n & _ & m12l). cbv zeta in *.
  set (m1 := mul64 a1 A) in *. set (m2 := mul64 a2 A) in *. set (m12 := mul64 a12 A) in *.
  pose proof (fmt18_err m1 m1n) as [_ r1u]. pose proof (fmt18_err m2 m2n) as [_ r2u]. pose proof (fmt18_err m12 m12n) as [r12l _].
  set (r1 := fmt18 m1) in *. set (r2 := fmt18 m2) in *. set (r12 := fmt18 m12) in *.
  pose proof (subadd_arith F_ONE F_P53 F_P52 P18f A en f12 (f1 - F_ONE) (f2 - F_ONE) (f12 - F_ONE) a1 a2 a12 m1 m2 m12 r1 r2 r12
                HO HP HPH HK ltac:(lia) ltac:(lia) ltac:(lia) ltac:(lia) ltac:(lia) ltac:(lia) a1n a2n a12n a1u a2u a12l m1u m2u m12l r1u r2u r12l C) as B.
  (* (i) the en-dependent factor *)
  assert (E1 : 4 * F_P53 * F_P53 + (F_P53 + 1) * (F_P53 + 1) * en <= (en + 5) * (F_P53 * F_P53)).
  { assert ((2 * F_P53 + 1) * en <= (2 * F_P53 + 1) * EN_MAX) by (apply Z.mul_le_mono_nonneg_l; lia). nia. }
  assert (KAF : 0 <= 2 * P18f * A * f12) by nn.
  assert (E2 : (2 * P18f * A * f12) * (4 * F_P53 * F_P53 + (F_P53 + 1) * (F_P53 + 1) * en) <= (2 * P18f * A * f12) * ((en + 5) * (F_P53 * F_P53)))
    by (apply Z.mul_le_mono_nonneg_l; assumption).
  (* (ii) the absolute (sub-normal) error terms are below one unit of the result *)
  assert (E3 : (2 * P18f * (3 * F_P53 + 1) * F_P52 * F_P53) * A <= (2 * P18f * (3 * F_P53 + 1) * F_P52 * F_P53) * AMT_MAX)
    by (apply Z.mul_le_mono_nonneg_l; [nn|lia]).
  assert (E4 : (P18f * (2 ^ 64 * (3 * F_P53 + 1) + 6 * F_P53) * F_P52) * (F_ONE * F_P53) <= (F_ONE * F_P53 * F_P53) * (F_ONE * F_P53))
    by (apply Z.mul_le_mono_nonneg_r; [nn|exact NF1]).
  unfold AMT_MAX in E3.
  assert (E5 : 2 * P18f * A * (3 * F_P53 + 1) * F_P52 * F_P53 + 6 * P18f * F_ONE * F_P52 * F_P53 * F_P53 <= F_ONE * F_ONE * F_P53 * F_P53 * F_P53).
  { clear - E3 E4. ring_simplify in E3. ring_simplify in E4. ring_simplify. lia. }
  (* assemble and divide by 2 * P^2 *)
  assert (F : (2 * (F_P53 * F_P53)) * ((r1 + r2 - r12 - 2) * F_ONE * F_ONE * F_P53) <= (2 * (F_P53 * F_P53)) * (P18f * A * f12 * (en + 5))).
  { clear - B E2 E5. ring_simplify in B. ring_simplify in E2. ring_simplify in E5. ring_simplify. lia. }
  apply Z.mul_le_mono_pos_l in F; [exact F|nia].
Qed.

Lemma to64_amt_max : to64 (2 ^ 63 * P18f) = AMT_MAX. Proof. vm_compute. reflexivity. Qed.

Lemma cmp_amtf_le amt : amt < 2 ^ 63 -> cmp_amtf amt <= AMT_MAX.
Proof.
  intros H. unfold cmp_amtf. rewrite <- to64_amt_max. apply to64_mono. unfold dec_of_int. change P18f with P18.
  dec_consts. nia.
Qed.

Theorem cmp_subadditive pow en amt lsr t1 t2 :
  let x := cmp_x lsr in
  let f1 := pow x (cmp_y t1) in let f2 := pow x (cmp_y t2) in let f12 := pow x (cmp_y (t1 + t2)) in
  F_ONE <= f1 -> F_ONE <= f2 -> F_ONE <= f12 -> 0 <= amt < 2 ^ 63 -> 0 <= en <= EN_MAX -> h4_ok en f1 f2 f12 = true ->
  holds_C18_cmp_subadditive en (cmp_amtf amt) f12 (cmp_new pow amt lsr t1) (cmp_new pow amt lsr t2) (cmp_new pow amt lsr (t1 + t2)) = true.
Proof.
  cbv zeta. intros H1 H2 H12 Ha Hen H4. unfold holds_C18_cmp_subadditive, cmp_new. apply Z.leb_le.
  apply cmp_after_pow_subadd; try assumption. split; [apply cmp_amtf_ge; lia|apply cmp_amtf_le; lia].
Qed.
