(* Proofs about Model/Liquidity.v: consequences of the escrow invariant for C07 / C04 - nothing of a
   terminated order remains in escrow, the escrow covers the remaining offer coins, an order outside its
   placement batch can be cancelled, market-making cancel / replace cancels every indexed order. *)
From Comdex Require Import Lib.Base Lib.DecArith Lib.DecFacts Lib.DecFacts2 Model.Liquidity Proofs.LiquidityProofs
  Proofs.LiquiditySweep Proofs.LiquidityProofs2 Proofs.LiquidityEffects Proofs.LiquidityLists Proofs.LiquidityEscrow
  Proofs.LiquidityReach Proofs.LiquidityMMCancel.
From Coq Require Import ZifyBool Lia.

(* the records of the orders of one pair, as the runner collects them from the implementation *)
Definition pair_orders (a p : Z) (st : list entry) : list order :=
  map fst (filter (fun e => (o_app (fst e) =? a) && (o_pair (fst e) =? p)) st).

Lemma osum_pred ap a p d st :
  osum ap a p d st = zsum (map (fun o => if o_odenom o =? d then escrow_share (rate_of ap a) o else 0) (pair_orders a p st)).
Proof.
  unfold osum, pair_orders. induction st as [|e r IH]; cbn [map filter zsum]; [reflexivity|].
  unfold share at 1. destruct ((o_app (fst e) =? a) && (o_pair (fst e) =? p)) eqn:E; cbn [andb map zsum].
  - rewrite IH. replace (o_app (fst e)) with a by lia. reflexivity.
  - rewrite IH. lia.
Qed.

(* ---------------- nothing of a terminated order remains in escrow ---------------- *)
Theorem escrow_decomposition setup ops a p d : hist_ok setup ops ->
  let s := reach setup ops in
  holds_C07_escrow (rate_of (apps s) a) (pair_orders a p (orders s)) d (led s (Escrow a p) d) (surplus s a p d) = true.
Proof.
  intros Hh s. pose proof (reach_oinv setup ops Hh) as HI. fold s in HI.
  unfold holds_C07_escrow. rewrite (oi_esc _ _ HI), (oi_owed _ _ HI), osum_pred. apply Z.eqb_refl.
Qed.

(* ---------------- the escrow covers the remaining offer coins ---------------- *)
Definition params_ok (ap : list (Z * params)) : Prop := Forall (fun x => 0 <= pr_fee_rate (snd x)) ap.
Definition rem_need (d : Z) (os : list order) : Z :=
  zsum (map (fun o => if (o_odenom o =? d) && negb (is_term (o_status o)) then o_rem o else 0) os).

Lemma rate_of_nonneg ap a : params_ok ap -> 0 <= rate_of ap a.
Proof.
  unfold params_ok, rate_of. intros H. induction H as [|[k P] r Hx _ IH]; cbn [aget]; [lia|].
  destruct (k =? a); [exact Hx|exact IH].
Qed.

Lemma fee_amt_mono rate x y : 0 <= rate -> 0 <= x -> x <= y -> fee_amt rate x <= fee_amt rate y.
Proof.
  intros Hr Hx Hxy. unfold fee_amt. pose proof P18_pos. apply dtrunc_int_mono.
  - unfold dmul_trunc. apply chop_trunc_bounds. unfold dec_of_int. nia.
  - unfold dmul_trunc, dec_of_int. apply chop_trunc_mono.
    + apply Z.mul_nonneg_nonneg; [apply Z.mul_nonneg_nonneg; lia|lia].
    + apply Z.mul_le_mono_nonneg_r; [lia|]. apply Z.mul_le_mono_nonneg_r; lia.
Qed.

Lemma share_bounds rate o : 0 <= rate -> 0 <= o_rem o <= o_offer o ->
  (if negb (is_term (o_status o)) then o_rem o else 0) <= escrow_share rate o /\ 0 <= escrow_share rate o.
Proof.
  intros Hr Hb. unfold escrow_share, fee_reserve. destruct (is_term (o_status o)); cbn [negb]; [lia|].
  destruct (o_type o =? 3); [lia|]. pose proof (fee_amt_nonneg rate (o_offer o) Hr ltac:(lia)). lia.
Qed.

Theorem pair_escrow_covers setup ops a p d : hist_ok setup ops ->
  let s := reach setup ops in
  params_ok (apps s) -> 0 <= surplus s a p d ->
  holds_C04_escrow (led s (Escrow a p) d) (rem_need d (pair_orders a p (orders s))) = true.
Proof.
  intros Hh s Hpo Hsur. pose proof (reach_oinv setup ops Hh) as HI. fold s in HI.
  unfold holds_C04_escrow. apply Z.leb_le. rewrite (oi_esc _ _ HI), (oi_owed _ _ HI), osum_pred.
  assert (G : forall st, (forall e, In e st -> 0 <= o_rem (fst e) <= o_offer (fst e)) ->
            rem_need d (pair_orders a p st) <=
            zsum (map (fun o => if o_odenom o =? d then escrow_share (rate_of (apps s) a) o else 0) (pair_orders a p st))).
  { unfold rem_need, pair_orders. induction st as [|e r IH]; intros Hb; cbn [filter map zsum]; [lia|].
    specialize (IH (fun x Hx => Hb x (or_intror Hx))).
    destruct ((o_app (fst e) =? a) && (o_pair (fst e) =? p)); cbn [map zsum]; [|exact IH].
    pose proof (share_bounds (rate_of (apps s) a) (fst e) (rate_of_nonneg _ a Hpo) (Hb e (or_introl eq_refl))) as [B1 B2].
    destruct (o_odenom (fst e) =? d); cbn [andb]; lia. }
  specialize (G (orders s) (oi_rem _ _ HI)). lia.
Qed.

(* ---------------- an order outside its placement batch can be cancelled ---------------- *)
Lemma finish_calc_nonneg rate e st : 0 <= rate -> 0 <= o_rem (fst e) <= o_offer (fst e) ->
  0 <= snd (fst (finish_calc rate e st)) /\ 0 <= snd (finish_calc rate e st).
Proof.
  intros Hr Hb. destruct e as [o g]. unfold finish_calc. cbn [fst] in *.
  destruct (is_term (o_status o)); [cbn; lia|]. destruct (o_type o =? 3).
  { destruct (o_rem o >? 0) eqn:E; cbn; lia. }
  pose proof (fee_amt_nonneg rate (o_offer o) Hr ltac:(lia)) as C0.
  destruct (o_rem o >? 0) eqn:E; [destruct (o_rem o =? o_offer o)|]; cbn [fst snd]; try lia.
  pose proof (fee_amt_nonneg rate (o_offer o - o_rem o) Hr ltac:(lia)).
  pose proof (fee_amt_mono rate (o_offer o - o_rem o) (o_offer o) Hr ltac:(lia) ltac:(lia)). lia.
Qed.

Lemma zsum_member_le {A} (f : A -> Z) l e : (forall x, In x l -> 0 <= f x) -> In e l -> f e <= zsum (map f l).
Proof.
  induction l as [|x r IH]; intros Hn [].
  - subst. cbn [map zsum]. assert (0 <= zsum (map f r)); [|lia].
    clear IH. induction r as [|y t IH]; cbn [map zsum]; [lia|].
    pose proof (Hn y (or_intror (or_introl eq_refl))). assert (0 <= zsum (map f t)); [|lia].
    apply IH. intros z [Hz|Hz]; apply Hn; [left; exact Hz|right; right; exact Hz].
  - cbn [map zsum]. pose proof (Hn x (or_introl eq_refl)). specialize (IH (fun z Hz => Hn z (or_intror Hz)) H). lia.
Qed.

Lemma fin_rate_some ap s e : OInv ap s -> In e (orders s) -> exists rate, fin_rate s e = Some rate /\ 0 <= rate \/ fin_rate s e = Some rate /\ ~ params_ok ap.
Proof.
  intros HI Hin. unfold fin_rate. destruct (o_type (fst e) =? 3); [exists 0; left; split; [reflexivity|lia]|].
  pose proof (oi_app _ _ HI e Hin) as Ha. unfold get_params in *. destruct (oi_si _ _ HI) as [HA _].
  destruct (aget (apps s) (o_app (fst e))) as [P|] eqn:E; [|congruence]. cbn [option_map].
  exists (pr_fee_rate P). destruct (Z_le_dec 0 (pr_fee_rate P)) as [Hle|Hn]; [left; auto|right; split; [reflexivity|]].
  intros Hpo. apply Hn. pose proof (rate_of_nonneg ap (o_app (fst e)) Hpo) as R. unfold rate_of in R. rewrite <- HA, E in R. exact R.
Qed.

Theorem cancellable setup ops app owner pair id e pr : hist_ok setup ops ->
  let s := reach setup ops in
  params_ok (apps s) ->
  pair <> 0 -> id <> 0 ->
  find_order (app, pair, id) (orders s) = Some e -> o_owner (fst e) = owner -> o_status (fst e) <> 5 ->
  find_pair app pair (pairs s) = Some pr -> o_batch (fst e) <> p_batch pr ->
  0 <= surplus s app pair (o_odenom (fst e)) ->
  exists s' e', cancel_order s app owner pair id = Ok s' /\
    find_order (app, pair, id) (orders s') = Some e' /\ is_term (o_status (fst e')) = true /\
    (is_term (o_status (fst e)) = false -> o_status (fst e') = 5).
Proof.
  intros Hh s Hpo Hp0 Hi0 Hf Hown Hst Hpr Hb Hsur.
  pose proof (reach_oinv setup ops Hh) as HI. fold s in HI.
  destruct (find_order_in _ _ _ Hf) as [Hin Hk]. unfold ekey, okey in Hk. injection Hk as Ka Kp Ki.
  unfold cancel_order.
  destruct (pair =? 0) eqn:E1; [lia|]. destruct (id =? 0) eqn:E2; [lia|]. cbn [orb].
  assert (Happ : has_app s app = true).
  { unfold has_app. pose proof (oi_app _ _ HI e Hin) as Ha. rewrite Ka in Ha. destruct (get_params s app); [reflexivity|congruence]. }
  rewrite Happ. cbn [negb]. rewrite Hf. destruct (o_owner (fst e) =? owner) eqn:E3; [|lia]. cbn [negb].
  destruct (o_status (fst e) =? 5) eqn:E4; [lia|]. rewrite Hpr. destruct (o_batch (fst e) =? p_batch pr) eqn:E5; [lia|].
  destruct (is_term (o_status (fst e))) eqn:El.
  { exists s, e. unfold finish_entry. rewrite El. repeat split; try assumption; try reflexivity. discriminate. }
  destruct (fin_rate_some _ s e HI Hin) as (rate & [[Er Hr]|[_ Hn]]); [|contradiction].
  pose proof (oi_rem _ _ HI e Hin) as Hrem.
  destruct (finish_calc_nonneg rate e 5 Hr Hrem) as [N1 N2].
  destruct (oi_si _ _ HI) as [HA HS].
  pose proof (proj1 (Forall_forall _ _) HS e Hin) as He. cbn beta in He.
  pose proof (finish_calc_law rate e 5 (finish_rate s e rate Er e He eq_refl) El eq_refl) as (_ & Lsum & Lst & Lk).
  assert (Hcov : snd (fst (finish_calc rate e 5)) + snd (finish_calc rate e 5)
                 <= led s (Escrow (o_app (fst e)) (o_pair (fst e))) (o_odenom (fst e))).
  { rewrite Lsum, (oi_esc _ _ HI), (oi_owed _ _ HI). rewrite Ka, Kp.
    assert (share (apps s) app pair (o_odenom (fst e)) e <= osum (apps s) app pair (o_odenom (fst e)) (orders s)).
    { unfold osum. apply zsum_member_le; [|exact Hin]. intros x Hx. unfold share.
      destruct (_ && _); [|lia]. apply share_bounds; [apply rate_of_nonneg, Hpo|apply (oi_rem _ _ HI x Hx)]. }
    unfold share in H at 1. rewrite Ka, Kp, !Z.eqb_refl in H. cbn [andb] in H.
    rewrite <- Ka in H at 1. rewrite (share_rate s e rate Er) in H. lia. }
  destruct (finish_entry_ok s e 5 rate El Er N1 N2 Hcov) as [s' Hs'].
  destruct (finish_calc rate e 5) as [[e' refund] fee] eqn:Ec. cbn [fst snd] in *.
  exists s', e'. split; [exact Hs'|].
  destruct (finish_entry_eff _ _ _ _ Hs') as [[Ht _]|(_ & rate' & e'' & refund' & fee' & l & Er' & Ec' & _ & _ & _ & ->)]; [congruence|].
  rewrite Er in Er'. injection Er' as <-. rewrite Ec in Ec'. injection Ec' as <- <- <-. proj_cbn.
  assert (Hke : ekey e = (app, pair, id)). { unfold ekey, okey. congruence. }
  rewrite Hke. split; [apply (find_order_upd _ _ _ _ Hf); congruence|]. rewrite Lst. split; [reflexivity|auto].
Qed.

(* ---------------- market-making cancel / replace ---------------- *)
Lemma cancel_mm_inner_cancels s app owner pr skip s' ix :
  cancel_mm_inner s app owner pr skip = Ok s' -> find_mm app owner (p_id pr) (mmidx s) = Some ix ->
  (forall id, In id (mi_ids ix) -> nonlive_at (app, p_id pr, id) s') /\
  (forall k, nonlive_at k s -> nonlive_at k s') /\
  find_mm app owner (p_id pr) (mmidx s') = None.
Proof.
  unfold cancel_mm_inner, obind. intros H Hix. rewrite Hix in H.
  destruct (fold_m _ (mi_ids ix) s) as [s1| |] eqn:Ef; try discriminate. injection H as <-.
  destruct (cancel_fold_nonlive _ _ _ _ _ Ef) as (G1 & G2 & _). unfold drop_mm, nonlive_at in *. proj_cbn.
  split; [exact G1|]. split; [exact G2|]. apply find_mm_del.
Qed.

Theorem mm_cancel_all s app owner pair s' ix :
  cancel_mm s app owner pair = Ok s' -> find_mm app owner pair (mmidx s) = Some ix ->
  (forall id, In id (mi_ids ix) -> nonlive_at (app, pair, id) s') /\ find_mm app owner pair (mmidx s') = None.
Proof.
  unfold cancel_mm. intros H Hix. destruct (pair =? 0); [discriminate|].
  destruct (find_pair app pair (pairs s)) as [pr|] eqn:Epr; [|discriminate].
  destruct (find_pair_in _ _ _ _ Epr) as (_ & _ & Pi). rewrite <- Pi in Hix |- *.
  destruct (cancel_mm_inner_cancels _ _ _ _ _ _ _ H Hix) as (A & _ & C). split; assumption.
Qed.

(* MMOrder = the checks, then the cancellation of every previously indexed order, then the placement *)
Theorem mm_replace_cancels s m now s' :
  mm_order s m now = Ok s' ->
  exists pr s1 bt st,
    find_pair (mm_app m) (mm_pair m) (pairs s) = Some pr /\
    cancel_mm_inner s (mm_app m) (mm_owner m) pr true = Ok s1 /\
    (forall ix, find_mm (mm_app m) (mm_owner m) (mm_pair m) (mmidx s) = Some ix ->
                forall id, In id (mi_ids ix) -> nonlive_at (mm_app m, mm_pair m, id) s1) /\
    mm_tail s1 m pr bt st now = Ok s'.
Proof.
  intros H. unfold mm_order in H.
  destruct (negb (vb_mm m)); [discriminate|].
  destruct (get_params s (mm_app m)) as [P|] eqn:EP; [|discriminate].
  repeat match type of H with (if ?c then _ else _) = _ => destruct c; [discriminate|] end.
  destruct (find_pair (mm_app m) (mm_pair m) (pairs s)) as [pr|] eqn:Epr; [|discriminate].
  destruct (match p_last_price pr with Some lp => _ | None => _ end) as [lo hi].
  repeat match type of H with (if ?c then _ else _) = _ => destruct c; [discriminate|] end.
  destruct (if mm_buy_amt m >? 0 then _ else Some []) as [bt|]; [|discriminate].
  destruct (if mm_sell_amt m >? 0 then _ else Some []) as [stt|]; [|discriminate].
  destruct (existsb _ (bt ++ stt)) eqn:Eneg; [discriminate|].
  repeat match type of H with (if ?c then _ else _) = _ => destruct c; [discriminate|] end.
  unfold obind in H.
  destruct (cancel_mm_inner s _ _ pr true) as [s1| |] eqn:E1; try discriminate.
  exists pr, s1, bt, stt. split; [reflexivity|]. split; [exact E1|]. split; [|exact H].
  destruct (find_pair_in _ _ _ _ Epr) as (_ & _ & Pi). intros ix Hix id Hid. rewrite <- Pi in Hix |- *.
  destruct (cancel_mm_inner_cancels _ _ _ _ _ _ _ E1 Hix) as (A & _ & _). apply A, Hid.
Qed.

(* ---------------- the ghosts are what moved on the ledger ---------------- *)
Theorem finish_pays s e st s' : is_term (o_status (fst e)) = false -> finish_entry s e st = Ok s' ->
  exists rate, fin_rate s e = Some rate /\
    let '(e', refund, fee) := finish_calc rate e st in
    let o := fst e in
    refund = (g_ret_offer (snd e') + g_ret_fee (snd e')) - (g_ret_offer (snd e) + g_ret_fee (snd e)) /\
    fee = g_fee_fwd (snd e') - g_fee_fwd (snd e) /\
    forall c d, led s' c d = led s c d + at_ (User (o_owner o)) (o_odenom o) c d refund
                             + at_ (SwapFee (o_app o) (o_pair o)) (o_odenom o) c d fee
                             - at_ (Escrow (o_app o) (o_pair o)) (o_odenom o) c d (refund + fee).
Proof.
  intros El H.
  destruct (finish_entry_eff _ _ _ _ H) as [[Ht _]|(_ & rate & e' & refund & fee & l & Er & Ec & _ & _ & Hl & ->)]; [congruence|].
  exists rate. split; [exact Er|]. rewrite Ec. proj_cbn. split; [|split; [|exact Hl]].
  - revert Ec. unfold finish_calc. destruct e as [o g]. cbn [fst snd] in *. rewrite El.
    destruct (o_type o =? 3); [intros [= <- <- _]; cbn; lia|].
    destruct (o_rem o >? 0); [destruct (o_rem o =? o_offer o)|]; intros [= <- <- _]; cbn; lia.
  - revert Ec. unfold finish_calc. destruct e as [o g]. cbn [fst snd] in *. rewrite El.
    destruct (o_type o =? 3); [intros [= <- _ <-]; cbn; lia|].
    destruct (o_rem o >? 0); [destruct (o_rem o =? o_offer o)|]; intros [= <- _ <-]; cbn; lia.
Qed.

Lemma in_ins_self (e0 : entry) st : In e0 (ins_order e0 st).
Proof.
  induction st as [|x r IH]; cbn [ins_order]; [left; reflexivity|].
  destruct (k3_eqb (ekey x) (ekey e0)); [left; reflexivity|]. destruct (k3_ltb (ekey e0) (ekey x)); [left; reflexivity|right; exact IH].
Qed.

Theorem place_takes s m typ pr price offer fee now s' : place s m typ pr price offer fee now = Ok s' ->
  exists e, In e (orders s') /\ ekey e = (m_app m, p_id pr, p_last_order pr + 1) /\ o_owner (fst e) = m_owner m /\
    g_taken (snd e) = offer + fee /\
    forall c d, led s' c d = led s c d + at_ (Escrow (m_app m) (m_pair m)) (m_odenom m) c d (g_taken (snd e))
                             - at_ (User (m_owner m)) (m_odenom m) c d (g_taken (snd e)).
Proof.
  intros H. destruct (place_eff _ _ _ _ _ _ _ _ _ H) as (l & _ & _ & Hl & ->). proj_cbn.
  exists (mkOrder (m_app m) (p_id pr) (p_last_order pr + 1) (m_owner m) (m_buy m) typ (m_odenom m) (m_ddenom m)
                  offer offer 0 price (m_amt m) (m_amt m) (p_batch pr) (now + m_life m) 1, new_ghost (offer + fee)).
  split; [|split; [|split; [|split; [|exact Hl]]]]; try reflexivity.
  apply in_ins_self.
Qed.

(* the fee reserve is the floor of offer * rate *)
Lemma fee_amt_floor rate x : 0 <= rate -> 0 <= x -> fee_amt rate x = (x * rate) / P18.
Proof.
  intros Hr Hx. unfold fee_amt. rewrite dmul_trunc_int_exact. unfold dtrunc_int. pose proof P18_pos.
  apply Z.quot_div_nonneg; nia.
Qed.

(* one fill: the bookkeeping of ApplyMatchResult and the payout of the received demand coin *)
Theorem fill_pays s app pair id matched paid recv s' :
  apply_fill s app pair (id, matched, paid, recv) = Ok s' ->
  exists o g s3, find_order (app, pair, id) (orders s) = Some (o, g) /\ 0 <= paid <= o_rem o /\ 0 <= recv /\
    (if o_open o - matched =? 0
     then finish_entry (fill_book s (app, pair, id) o g matched paid recv)
                       (set_fill o matched paid recv (o_status o), fill_ghost g matched paid recv) 4 = Ok s3
     else s3 = mark_status (fill_book s (app, pair, id) o g matched paid recv) (app, pair, id)
                           (set_fill o matched paid recv (o_status o)) (fill_ghost g matched paid recv) 3) /\
    g_recv (fill_ghost g matched paid recv) = g_recv g + recv /\
    forall c d, led s' c d = led s3 c d + at_ (User (o_owner o)) (o_ddenom o) c d recv - at_ (Escrow app pair) (o_ddenom o) c d recv.
Proof.
  unfold apply_fill, obind. intros H.
  destruct (find_order (app, pair, id) (orders s)) as [[o g]|] eqn:Ef; [|discriminate].
  destruct (negb (is_live (o_status o))); [discriminate|].
  destruct ((o_rem o - paid <? 0) || (paid <? 0) || (recv <? 0)) eqn:Eg; [discriminate|].
  match type of H with match ?x with _ => _ end = _ => destruct x as [s3| |] eqn:E3; try discriminate end.
  destruct (esc_out_eff _ _ _ _ _ _ _ H) as (l & _ & Hl & ->).
  exists o, g, s3. split; [reflexivity|]. split; [lia|]. split; [lia|]. split; [|split; [reflexivity|exact Hl]].
  cbn [set_fill o_open] in E3. destruct (o_open o - matched =? 0); [exact E3|]. injection E3 as <-. reflexivity.
Qed.
