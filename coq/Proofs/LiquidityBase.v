(* Proofs about Model/Liquidity.v: basic tactics and lemmas - inversion of a successful handler run,
   keys and lookups of the keyed stores, ssend, folds. *)
From Comdex Require Import Lib.Base Lib.DecArith Model.Liquidity.
From Coq Require Import ZifyBool Lia.

(* generic inversion of [f ... = Ok s'] into its success path *)
Ltac inv_ok H :=
  repeat first
    [ discriminate H
    | progress (match type of H with
                | context [match ?x with _ => _ end] => let E := fresh "E" in destruct x eqn:E
                end) ];
  try (injection H as H).

(* ---------------- keys and lookups ---------------- *)
Lemma k3_eqb_eq a b : k3_eqb a b = true -> a = b.
Proof. destruct a as [[a1 a2] a3], b as [[b1 b2] b3]. unfold k3_eqb. intros H. f_equal; [f_equal|]; lia. Qed.
Lemma k3_eqb_refl a : k3_eqb a a = true.
Proof. destruct a as [[a1 a2] a3]. unfold k3_eqb. lia. Qed.
Lemma k3_eqb_neq a b : k3_eqb a b = false -> a <> b.
Proof. intros H E. subst. rewrite k3_eqb_refl in H. discriminate. Qed.

Lemma find_order_in k st e : find_order k st = Some e -> In e st /\ ekey e = k.
Proof.
  induction st as [|x r IH]; cbn [find_order]; [discriminate|]. destruct (k3_eqb (ekey x) k) eqn:E.
  - intros H. injection H as H. subst x. split; [left; reflexivity|apply k3_eqb_eq; assumption].
  - intros H. destruct (IH H). split; [right; assumption|assumption].
Qed.
Lemma find_order_self k st e : find_order k st = Some e -> find_order (ekey e) st = Some e.
Proof. intros H. destruct (find_order_in _ _ _ H) as [_ <-]. exact H. Qed.

Lemma find_order_upd k st e e' : find_order k st = Some e -> ekey e' = k ->
  find_order k (upd_order k (fun _ => e') st) = Some e'.
Proof.
  intros H He'. induction st as [|x r IH]; cbn [find_order upd_order map] in *; [discriminate|].
  destruct (k3_eqb (ekey x) k) eqn:E.
  - rewrite He', k3_eqb_refl. reflexivity.
  - rewrite E. apply IH. exact H.
Qed.

Lemma find_pair_in a i l p : find_pair a i l = Some p -> In p l /\ p_app p = a /\ p_id p = i.
Proof.
  induction l as [|x r IH]; cbn [find_pair]; [discriminate|]. destruct ((p_app x =? a) && (p_id x =? i)) eqn:E.
  - intros H. injection H as ->. split; [left; reflexivity|lia].
  - intros H. destruct (IH H) as (? & ? & ?). split; [right; assumption|split; assumption].
Qed.
Lemma find_pool_in a i l p : find_pool a i l = Some p -> In p l /\ pl_app p = a /\ pl_id p = i.
Proof.
  induction l as [|x r IH]; cbn [find_pool]; [discriminate|]. destruct ((pl_app x =? a) && (pl_id x =? i)) eqn:E.
  - intros H. injection H as ->. split; [left; reflexivity|lia].
  - intros H. destruct (IH H) as (? & ? & ?). split; [right; assumption|split; assumption].
Qed.
Lemma find_dep_in k l r : find_dep k l = Some r -> In r l /\ dkey r = k.
Proof.
  induction l as [|x t IH]; cbn [find_dep]; [discriminate|]. destruct (k3_eqb (dkey x) k) eqn:E.
  - intros H. injection H as ->. split; [left; reflexivity|apply k3_eqb_eq; assumption].
  - intros H. destruct (IH H). split; [right; assumption|assumption].
Qed.
Lemma find_wd_in k l r : find_wd k l = Some r -> In r l /\ wkey r = k.
Proof.
  induction l as [|x t IH]; cbn [find_wd]; [discriminate|]. destruct (k3_eqb (wkey x) k) eqn:E.
  - intros H. injection H as ->. split; [left; reflexivity|apply k3_eqb_eq; assumption].
  - intros H. destruct (IH H). split; [right; assumption|assumption].
Qed.

(* ---------------- ssend, folds ---------------- *)
Lemma ssend_inv s a b d x s' : ssend s a b d x = Ok s' -> exists l, send (led s) a b d x = Ok l /\ s' = set_led s l.
Proof. unfold ssend. intros H. destruct (send (led s) a b d x) as [l| |] eqn:E; try discriminate. injection H as <-. eauto. Qed.

(* every [ssend si .. = Ok sj] hypothesis becomes [sj = set_led si l] (substituted) + the [send] fact *)
Ltac sends :=
  repeat match goal with
         | E : ssend ?s _ _ _ _ = Ok ?s' |- _ =>
           apply ssend_inv in E; let l := fresh "l" in let Hl := fresh "Hl" in destruct E as (l & Hl & ->)
         end.

Lemma fold_m_inv {A} (P : state -> Prop) (f : state -> A -> outcome state) l :
  (forall s x s', P s -> f s x = Ok s' -> P s') -> forall s s', P s -> fold_m f l s = Ok s' -> P s'.
Proof.
  intros Hf. induction l as [|x r IH]; cbn [fold_m]; intros s s' HP H.
  - injection H as <-. exact HP.
  - unfold obind in H. destruct (f s x) eqn:E; try discriminate. eapply IH; [eapply Hf; eauto|exact H].
Qed.
Lemma fold_m_inv' {A} (P : state -> Prop) (f : state -> A -> outcome state) l s s' :
  fold_m f l s = Ok s' -> P s -> (forall s x s', P s -> f s x = Ok s' -> P s') -> P s'.
Proof. intros H HP Hf. eapply fold_m_inv; eauto. Qed.
Lemma fold_left_inv {A} (P : state -> Prop) (f : state -> A -> state) l :
  (forall s x, P s -> P (f s x)) -> forall s, P s -> P (fold_left f l s).
Proof. intros Hf. induction l as [|x r IH]; intros s HP; cbn [fold_left]; [exact HP|]. apply IH, Hf, HP. Qed.


(* reduce the projections of an explicit successor state *)
Ltac proj_cbn :=
  cbn [apps assets pairs last_pair orders mmidx pools last_pool deps wds qfs afs led sup owed surplus ge_owed farmed
       set_apps set_assets set_pairs set_last_pair set_orders set_mmidx set_pools set_last_pool set_deps set_wds
       set_qfs set_afs set_led set_sup set_owed set_surplus set_ge_owed set_farmed
       put_dep put_wd mint disable_pool drop_mm disable_depleted set_pair_after mark_status] in *.


(* ---------------- the message-level denom checks: a successful message is the request on the pool's own coins ---------------- *)
Lemma pool_coin_check_inv s app pid dn en u : pool_coin_check s app pid dn en = Ok u -> dn = pool_denom app pid.
Proof.
  unfold pool_coin_check. intros H. destruct (negb (has_app s app)); [discriminate|].
  destruct (find_pool app pid (pools s)); [|discriminate]. destruct (en && pl_disabled p); [discriminate|].
  destruct (dn =? pool_denom app pid) eqn:E; [lia|discriminate].
Qed.
Lemma deposit_msg_inv s app owner pid cs s' r : deposit_msg s app owner pid cs = Ok (s', r) ->
  exists x y, deposit_req s app owner pid x y = Ok (s', r).
Proof.
  unfold deposit_msg, obind. intros H. destruct (deposit_coins s app pid cs) as [[x y]| |]; try discriminate.
  exists x, y. exact H.
Qed.
Lemma withdraw_msg_inv s app owner pid dn pc sr : withdraw_msg s app owner pid dn pc = Ok sr -> withdraw_req s app owner pid pc = Ok sr.
Proof.
  unfold withdraw_msg, obind. intros H. destruct (_ || _); [discriminate|].
  destruct (pool_coin_check s app pid dn true); try discriminate. exact H.
Qed.
Lemma farm_msg_inv s app owner pid dn amt now s' : farm_msg s app owner pid dn amt now = Ok s' -> farm s app owner pid amt now = Ok s'.
Proof.
  unfold farm_msg, obind. intros H. destruct (_ || _); [discriminate|].
  destruct (pool_coin_check s app pid dn false); try discriminate. exact H.
Qed.
Lemma unfarm_msg_inv s app owner pid dn amt s' : unfarm_msg s app owner pid dn amt = Ok s' -> unfarm s app owner pid amt = Ok s'.
Proof.
  unfold unfarm_msg, obind. intros H. destruct (_ || _); [discriminate|].
  destruct (pool_coin_check s app pid dn false); try discriminate. exact H.
Qed.
Lemma deposit_and_farm_msg_inv s app owner pid cs now ax ay pc s' : deposit_and_farm_msg s app owner pid cs now ax ay pc = Ok s' ->
  exists x y, deposit_and_farm s app owner pid x y now ax ay pc = Ok s'.
Proof.
  unfold deposit_and_farm_msg, obind. intros H. destruct (deposit_coins s app pid cs) as [[x y]| |]; try discriminate.
  exists x, y. exact H.
Qed.
Lemma unfarm_and_withdraw_msg_inv s app owner pid dn pc x y s' :
  unfarm_and_withdraw_msg s app owner pid dn pc x y = Ok s' -> unfarm_and_withdraw s app owner pid pc x y = Ok s'.
Proof.
  unfold unfarm_and_withdraw_msg, obind. intros H. destruct (_ || _); [discriminate|].
  destruct (pool_coin_check s app pid dn false); try discriminate. exact H.
Qed.
