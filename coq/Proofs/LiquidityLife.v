(* Proofs about Model/Liquidity.v: an order over its whole life.  In every state reachable by any finite history
   (any ENV: any matching results), for every stored order, the fills recorded so far satisfy [life_ok]: each
   fill's payment was covered by what was left of the offer coin before it - hence the total paid never exceeds
   the offer coin and the remaining offer coin is never negative.  Instance of the generic sweep. *)
From Comdex Require Import Lib.Base Lib.DecArith Lib.DecFacts Model.Liquidity Proofs.LiquidityProofs Proofs.LiquiditySweep
  Proofs.LiquidityProofs2.
From Coq Require Import ZifyBool Lia.

Definition paid_of (f : Z * Z * Z) : Z := snd (fst f).
(* the fill list is newest first; [rest] are the fills before the head *)
Fixpoint life_ok (offer : Z) (fills : list (Z * Z * Z)) : Prop :=
  match fills with
  | [] => True
  | f :: rest => life_ok offer rest /\ 0 <= paid_of f <= offer - zsum (map paid_of rest)
  end.

Lemma life_ok_nonneg offer fills : life_ok offer fills -> 0 <= zsum (map paid_of fills).
Proof. induction fills as [|x r IH]; cbn [life_ok map zsum]; [lia|]. intros [Hr Hx]. specialize (IH Hr). lia. Qed.

Definition LE (e : entry) : Prop := life_ok (o_offer (fst e)) (g_fills (snd e)).
Definition LInvL (st : list entry) : Prop := Forall LE st.
Definition LI (ap : list (Z * params)) (s : state) : Prop := SI ap s /\ LInvL (orders s).

Lemma finish_calc_life rate e st : LE e -> LE (fst (fst (finish_calc rate e st))).
Proof.
  destruct e as [o g]. unfold LE, finish_calc. cbn [fst snd].
  destruct (is_term (o_status o)); [auto|]. destruct (o_type o =? 3); [auto|].
  destruct (o_rem o >? 0); [destruct (o_rem o =? o_offer o)|]; auto.
Qed.

Section LifeLeaves.
Variable ap : list (Z * params).

Lemma li_finish s e st s' :
  LI ap s -> find_order (ekey e) (orders s) = Some e -> is_term st = true -> finish_entry s e st = Ok s' -> LI ap s'.
Proof.
  intros [HS HL] Hf Ht H. split; [eapply si_finish; eauto|].
  destruct (find_order_in _ _ _ Hf) as [Hin _]. unfold finish_entry in H.
  destruct (is_term (o_status (fst e))); [injection H as <-; exact HL|].
  destruct (if o_type (fst e) =? 3 then Some 0 else option_map pr_fee_rate (get_params s (o_app (fst e)))) as [rate|]; [|discriminate].
  destruct (finish_calc rate e st) as [[e' refund] fee] eqn:Ec.
  unfold obind in H. inv_ok H; subst s'; sends. proj_cbn.
  apply Forall_upd; [exact HL|].
  pose proof (finish_calc_life rate e st (proj1 (Forall_forall _ _) HL e Hin)) as L. rewrite Ec in L. exact L.
Qed.

Lemma li_place s m typ pr price offer fee now s' P :
  LI ap s -> get_params s (m_app m) = Some P -> find_pair (m_app m) (m_pair m) (pairs s) = Some pr ->
  fee = fee_amt (pr_fee_rate P) offer -> typ = 1 \/ typ = 2 ->
  place s m typ pr price offer fee now = Ok s' -> LI ap s'.
Proof.
  intros [HS HL] HP Hpr Hfee Hty H. split; [eapply si_place; eauto|].
  unfold place, obind in H. destruct (offer <? 0); [discriminate|]. inv_ok H; subst s'; sends. proj_cbn.
  apply Forall_ins; [exact HL|]. unfold LE. cbn. exact I.
Qed.

Lemma mm_place_life app owner now life pr buy ticks : forall id st,
  LInvL st -> LInvL (fst (fst (mm_place app owner now life pr buy ticks id st))).
Proof.
  induction ticks as [|[[price amt] off] r IH]; intros id st HS; cbn [mm_place]; [exact HS|].
  specialize (IH (id + 1)
    (ins_order (mkOrder app (p_id pr) (id + 1) owner buy 3 (if buy then p_quote pr else p_base pr)
                        (if buy then p_base pr else p_quote pr) off off 0 price amt amt (p_batch pr) (now + life) 1, new_ghost off) st)).
  destruct (mm_place app owner now life pr buy r (id + 1) _) as [[st' ids] last] eqn:E. cbn [fst].
  cbn [fst] in IH. apply IH. apply Forall_ins; [assumption|]. unfold LE. cbn. exact I.
Qed.

Lemma li_mm_tail s m pr bt st now s' :
  LI ap s -> existsb (fun t : Z * Z * Z => snd t <? 0) (bt ++ st) = false ->
  mm_tail s m pr bt st now = Ok s' -> LI ap s'.
Proof.
  intros [HS HL] Eneg H. split; [eapply si_mm_tail; eauto|].
  unfold mm_tail, obind in H.
  destruct (ssend s _ _ _ _) as [s2| |] eqn:E2; try discriminate.
  destruct (ssend s2 _ _ _ _) as [s3| |] eqn:E3; try discriminate.
  destruct (mm_place _ _ _ _ pr true bt _ (orders s3)) as [[st1 ids1] last1] eqn:M1.
  destruct (mm_place _ _ _ _ pr false st last1 st1) as [[st2 ids2] last2] eqn:M2.
  injection H as <-. sends. proj_cbn.
  pose proof (mm_place_life (mm_app m) (mm_owner m) now (mm_life m) pr true bt (p_last_order pr) (orders s) HL) as I1.
  rewrite M1 in I1. cbn [fst] in I1.
  pose proof (mm_place_life (mm_app m) (mm_owner m) now (mm_life m) pr false st last1 st1 I1) as I2.
  rewrite M2 in I2. exact I2.
Qed.

(* one fill: the payment is within the remaining offer coin, which is the offer minus what the earlier fills paid *)
Lemma li_fill_book s k o g matched paid recv :
  LI ap s -> find_order k (orders s) = Some (o, g) -> is_live (o_status o) = true ->
  0 <= o_rem o - paid -> 0 <= paid -> 0 <= recv -> LI ap (fill_book s k o g matched paid recv).
Proof.
  intros [HS HL] Hf Hl Hp Hp0 Hr. split; [eapply si_fill_book; eauto|].
  destruct HS as [HA HS]. destruct k as [[a p] i]. unfold fill_book. proj_cbn.
  destruct (find_order_in _ _ _ Hf) as [Hin _].
  apply Forall_upd; [exact HL|].
  pose proof (proj1 (Forall_forall _ _) HS _ Hin) as He. pose proof (proj1 (Forall_forall _ _) HL _ Hin) as Hle.
  unfold EInv in He. cbn [fst snd] in He. destruct He as (_ & _ & _ & H4 & _).
  unfold LE in *. cbn [fst snd set_fill o_offer fill_ghost g_fills life_ok paid_of] in *.
  split; [exact Hle|]. unfold fills_paid in H4.
  replace (zsum (map paid_of (g_fills g))) with (zsum (map (fun f : Z * Z * Z => snd (fst f)) (g_fills g))) by reflexivity.
  lia.
Qed.

Lemma li_mark_status s k o g st :
  LI ap s -> find_order k (orders s) = Some (o, g) -> is_term (o_status o) = false -> is_term st = false ->
  LI ap (mark_status s k o g st).
Proof.
  intros [HS HL] Hf Hl Ht. split; [eapply si_mark_status; eauto|]. proj_cbn.
  destruct (find_order_in _ _ _ Hf) as [Hin _]. apply Forall_upd; [exact HL|].
  exact (proj1 (Forall_forall _ _) HL _ Hin).
Qed.

Lemma li_begin_app s app : LI ap s -> LI ap (begin_app app s).
Proof.
  intros [HS HL]. split; [apply si_begin_app, HS|]. unfold begin_app. proj_cbn.
  apply Forall_forall. intros e He. apply filter_In in He. destruct He as [He _].
  eapply Forall_forall in HL; eauto.
Qed.

(* everything else leaves [orders] alone *)
Ltac li_frame HI H s' lem :=
  destruct HI as [HS HL]; split; [eapply lem; eauto|]; inv_ok H; try subst s'; sends; proj_cbn; assumption.

Lemma li_esc_in s a p f d x s' : LI ap s -> is_outside f = true -> esc_in s a p f d x = Ok s' -> LI ap s'.
Proof. intros HI Ho H. pose proof H as H0. unfold esc_in, obind in H. li_frame HI H s' si_esc_in. Qed.
Lemma li_esc_out s a p t d x s' : LI ap s -> is_outside t = true -> esc_out s a p t d x = Ok s' -> LI ap s'.
Proof. intros HI Ho H. pose proof H as H0. unfold esc_out, obind in H. li_frame HI H s' si_esc_out. Qed.
Lemma li_create_pair s a c b q s' : LI ap s -> create_pair s a c b q = Ok s' -> LI ap s'.
Proof. intros HI H. pose proof H as H0. unfold create_pair, obind in H. li_frame HI H s' si_create_pair. Qed.
Lemma li_new_pool s P a c pr rg ax ay ps s' : LI ap s -> new_pool s P a c pr rg ax ay ps = Ok s' -> LI ap s'.
Proof. intros HI H. pose proof H as H0. unfold new_pool, obind in H. li_frame HI H s' si_new_pool. Qed.
Lemma li_deposit_req s a o p x y s' r : LI ap s -> deposit_req s a o p x y = Ok (s', r) -> LI ap s'.
Proof. intros HI H. pose proof H as H0. unfold deposit_req, obind in H. li_frame HI H s' si_deposit_req. Qed.
Lemma li_withdraw_req s a o p pc s' r : LI ap s -> withdraw_req s a o p pc = Ok (s', r) -> LI ap s'.
Proof. intros HI H. pose proof H as H0. unfold withdraw_req, obind in H. li_frame HI H s' si_withdraw_req. Qed.
Lemma li_fail_dep s r s' : LI ap s -> fail_dep s r = Ok s' -> LI ap s'.
Proof. intros HI H. pose proof H as H0. unfold fail_dep, obind in H. li_frame HI H s' si_fail_dep. Qed.
Lemma li_fail_wd s r s' : LI ap s -> fail_wd s r = Ok s' -> LI ap s'.
Proof. intros HI H. pose proof H as H0. unfold fail_wd, obind in H. li_frame HI H s' si_fail_wd. Qed.
Lemma li_do_deposit s r pr ax ay pc s' : LI ap s -> do_deposit s r pr ax ay pc = Ok s' -> LI ap s'.
Proof. intros HI H. pose proof H as H0. unfold do_deposit, obind in H. li_frame HI H s' si_do_deposit. Qed.
Lemma li_do_withdraw s r pl pr x y s' : LI ap s -> do_withdraw s r pl pr x y = Ok s' -> LI ap s'.
Proof. intros HI H. pose proof H as H0. unfold do_withdraw, obind in H. li_frame HI H s' si_do_withdraw. Qed.
Lemma li_farm s a o p amt now s' : LI ap s -> farm s a o p amt now = Ok s' -> LI ap s'.
Proof. intros HI H. pose proof H as H0. unfold farm, obind in H. li_frame HI H s' si_farm. Qed.
Lemma li_unfarm s a o p amt s' : LI ap s -> unfarm s a o p amt = Ok s' -> LI ap s'.
Proof. intros HI H. pose proof H as H0. unfold unfarm, obind in H. li_frame HI H s' si_unfarm. Qed.
Lemma li_process_queued s now app : LI ap s -> LI ap (process_queued now app s).
Proof.
  intros [HS HL]. split; [apply si_process_queued, HS|].
  unfold process_queued. destruct (get_params s app); [|exact HL].
  revert HL. apply (fold_left_inv (fun t => LInvL (orders t))). intros s0 q HI. unfold process_qf.
  destruct (filter _ (q_coins q)); exact HI.
Qed.

Theorem li_run ops s : Forall (fun o => is_addapp o = false) ops -> LI ap s -> LI ap (fold_left apply_op ops s).
Proof.
  intros Ho. apply (sw_run (LI ap)); try assumption.
  - exact li_finish.
  - exact li_place.
  - intros; assumption.
  - intros; eapply li_mm_tail; eauto.
  - exact li_fill_book.
  - intros s0 k o g st HI Hf Hl [-> | ->]; apply li_mark_status; auto.
  - exact li_esc_in.
  - exact li_esc_out.
  - intros; assumption.
  - intros; assumption.
  - exact li_begin_app.
  - exact li_create_pair.
  - intros; eapply li_new_pool; eauto.
  - exact li_deposit_req.
  - exact li_withdraw_req.
  - intros; eapply li_fail_dep; eauto.
  - intros; eapply li_fail_wd; eauto.
  - intros; assumption.
  - intros; eapply li_do_deposit; eauto.
  - intros; eapply li_do_withdraw; eauto.
  - exact li_farm.
  - exact li_unfarm.
  - exact li_process_queued.
  - intros; assumption.
  - intros; assumption.
Qed.
End LifeLeaves.

(* every state reachable by a setup prefix followed by ANY finite history, with ANY ENV inputs *)
Theorem run_life setup ops :
  Forall (fun o => is_setup o = true) setup -> Forall (fun o => is_addapp o = false) ops ->
  let s := fold_left apply_op ops (fold_left apply_op setup init) in
  forall e, In e (orders s) ->
    life_ok (o_offer (fst e)) (g_fills (snd e)) /\
    0 <= fills_paid (snd e) <= o_offer (fst e) /\
    o_rem (fst e) = o_offer (fst e) - fills_paid (snd e) /\ 0 <= o_rem (fst e) <= o_offer (fst e).
Proof.
  intros Hs Ho.
  assert (H0 : orders (fold_left apply_op setup init) = []).
  { assert (G : forall t, orders t = [] -> orders (fold_left apply_op setup t) = []).
    { induction Hs as [|o r Ho' _ IH]; intros t Ht; cbn [fold_left]; [assumption|]. apply IH. apply setup_no_orders; assumption. }
    apply G. reflexivity. }
  intros s e Hin.
  set (s0 := fold_left apply_op setup init) in *.
  assert (S0 : LI (apps s0) s0).
  { split; [split; [reflexivity|]; unfold SInvL; rewrite H0; constructor|]. unfold LInvL. rewrite H0. constructor. }
  destruct (li_run (apps s0) ops s0 Ho S0) as [[HA HS] HL]. fold s in HA, HS, HL.
  pose proof (proj1 (Forall_forall _ _) HL e Hin) as Le. unfold LE in Le.
  pose proof (proj1 (Forall_forall _ _) HS e Hin) as Ee. unfold EInv in Ee. cbn [fst snd] in Ee.
  destruct Ee as (_ & _ & _ & E4 & _ & E6 & _).
  pose proof (life_ok_nonneg _ _ Le) as Hn. unfold fills_paid in *.
  change (zsum (map paid_of (g_fills (snd e)))) with (zsum (map (fun f : Z * Z * Z => snd (fst f)) (g_fills (snd e)))) in Hn.
  repeat split; try assumption; lia.
Qed.

(* the ghost trace of the end block (which apps' batches were executed) does not change the computed state *)
Lemma end_block_trace_fst h now envs s : fst (end_block_trace h now envs s) = end_block h now envs s.
Proof.
  unfold end_block_trace, end_block.
  assert (G : forall l s tr, fst (fold_left
     (fun (st : state * list (Z * Z)) ap => let '(s, tr) := st in let '(app, P) := ap in
        if pr_batch P =? 0 then (s, tr ++ [(app, 3)])
        else if h mod pr_batch P =? 0
             then match end_app now s (find_app_env app envs) with Ok s' => (s', tr ++ [(app, 1)]) | _ => (s, tr ++ [(app, 0)]) end
             else (s, tr ++ [(app, 2)])) l (s, tr)) =
     fold_left (fun s ap => let '(app, P) := ap in
               if (pr_batch P =? 0) then s
               else if h mod pr_batch P =? 0 then atomic s (end_app now s (find_app_env app envs)) else s) l s).
  { induction l as [|[app P] r IH]; intros s0 tr; cbn [fold_left]; [reflexivity|].
    destruct (pr_batch P =? 0); [apply IH|].
    destruct (h mod pr_batch P =? 0); [|apply IH].
    destruct (end_app now s0 (find_app_env app envs)); cbn [atomic]; apply IH. }
  apply G.
Qed.
(* every registered app gets exactly one flag, in store order *)
Lemma end_block_trace_apps h now envs s : map fst (snd (end_block_trace h now envs s)) = map fst (apps s).
Proof.
  unfold end_block_trace.
  assert (G : forall l s tr, map fst (snd (fold_left
     (fun (st : state * list (Z * Z)) ap => let '(s, tr) := st in let '(app, P) := ap in
        if pr_batch P =? 0 then (s, tr ++ [(app, 3)])
        else if h mod pr_batch P =? 0
             then match end_app now s (find_app_env app envs) with Ok s' => (s', tr ++ [(app, 1)]) | _ => (s, tr ++ [(app, 0)]) end
             else (s, tr ++ [(app, 2)])) l (s, tr))) = map fst tr ++ map fst l).
  { induction l as [|[app P] r IH]; intros s0 tr; cbn [fold_left map]; [rewrite app_nil_r; reflexivity|].
    destruct (pr_batch P =? 0); [rewrite IH, map_app, <- app_assoc; reflexivity|].
    destruct (h mod pr_batch P =? 0); [|rewrite IH, map_app, <- app_assoc; reflexivity].
    destruct (end_app now s0 (find_app_env app envs)); rewrite IH, map_app, <- app_assoc; reflexivity. }
  rewrite G. reflexivity.
Qed.
