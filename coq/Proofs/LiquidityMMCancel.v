(* Proofs about Model/Liquidity.v: the cancellation loop of cancelMMOrder leaves every listed order
   not live. *)
From Comdex Require Import Lib.Base Lib.DecArith Lib.DecFacts Model.Liquidity Proofs.LiquidityProofs
  Proofs.LiquidityBase Proofs.LiquidityEffects.
From Coq Require Import ZifyBool Lia.

Definition nonlive_at (k : key3) (s : state) : Prop :=
  match find_order k (orders s) with None => True | Some e => is_live (o_status (fst e)) = false end.

Lemma term_not_live st : is_term st = true -> is_live st = false.
Proof. unfold is_term, is_live. lia. Qed.

Lemma finish_nonlive s e s' : find_order (ekey e) (orders s) = Some e -> finish_entry s e 5 = Ok s' ->
  nonlive_at (ekey e) s' /\ forall k, nonlive_at k s -> nonlive_at k s'.
Proof.
  intros Hf H.
  destruct (finish_entry_eff _ _ _ _ H) as [[Ht ->]|(El & rate & e' & refund & fee & l & Er & Ec & _ & _ & _ & ->)].
  - split; [|auto]. unfold nonlive_at. rewrite Hf. apply term_not_live, Ht.
  - pose proof (finish_calc_key rate e 5) as Hk. rewrite Ec in Hk. cbn [fst] in Hk.
    pose proof (finish_calc_status rate e 5 El) as Hst. rewrite Ec in Hst. cbn [fst] in Hst.
    assert (A : nonlive_at (ekey e) (set_owed (set_orders (set_led s l) (upd_order (ekey e) (fun _ => e') (orders s)))
                 (fadd3 (owed s) (o_app (fst e)) (o_pair (fst e)) (o_odenom (fst e)) (- (refund + fee))))).
    { unfold nonlive_at. proj_cbn. rewrite (find_order_upd _ _ _ _ Hf Hk), Hst. reflexivity. }
    split; [exact A|]. intros k Hn. destruct (k3_eqb k (ekey e)) eqn:E.
    + apply k3_eqb_eq in E. subst k. exact A.
    + unfold nonlive_at in *. proj_cbn. rewrite find_order_upd_other; [exact Hn|exact Hk|apply k3_eqb_neq, E].
Qed.

Lemma find_mm_del a o p l : find_mm a o p (del_mm a o p l) = None.
Proof.
  unfold del_mm. induction l as [|x r IH]; cbn [filter find_mm]; [reflexivity|].
  destruct ((mi_app x =? a) && (mi_owner x =? o) && (mi_pair x =? p)) eqn:E; cbn [negb]; [exact IH|].
  cbn [find_mm]. rewrite E. exact IH.
Qed.


Lemma finish_entry_mmidx s e st s' : finish_entry s e st = Ok s' -> mmidx s' = mmidx s.
Proof.
  intros H. destruct (finish_entry_eff _ _ _ _ H) as [[_ ->]|(_ & rate & e' & refund & fee & l & _ & _ & _ & _ & _ & ->)]; reflexivity.
Qed.

(* the loop of cancelMMOrder over the indexed ids *)
Lemma cancel_fold_nonlive app pr ids t t' :
  fold_m (fun s id =>
            match find_order (app, p_id pr, id) (orders s) with
            | None => Ok s
            | Some e => if o_batch (fst e) =? p_batch pr then Err 12
                        else if is_live (o_status (fst e)) then finish_entry s e 5 else Ok s
            end) ids t = Ok t' ->
  (forall id, In id ids -> nonlive_at (app, p_id pr, id) t') /\ (forall k, nonlive_at k t -> nonlive_at k t') /\
  mmidx t' = mmidx t.
Proof.
  revert t t'. induction ids as [|id r IH]; cbn [fold_m]; intros t t' H.
  - injection H as <-. split; [intros ? []|auto].
  - unfold obind in H.
    match type of H with match ?x with _ => _ end = _ => destruct x as [t1| |] eqn:E1; try discriminate end.
    destruct (IH t1 t' H) as (I1 & I2 & I3).
    assert (S1 : nonlive_at (app, p_id pr, id) t1 /\ (forall k, nonlive_at k t -> nonlive_at k t1) /\ mmidx t1 = mmidx t).
    { destruct (find_order (app, p_id pr, id) (orders t)) as [e|] eqn:Ef1.
      - destruct (o_batch (fst e) =? p_batch pr); [discriminate|].
        destruct (find_order_in _ _ _ Ef1) as [_ Hk].
        destruct (is_live (o_status (fst e))) eqn:El.
        + rewrite <- Hk. destruct (finish_nonlive t e t1) as [F1 F2]; [rewrite Hk; exact Ef1|exact E1|].
          split; [exact F1|split; [exact F2|eapply finish_entry_mmidx; exact E1]].
        + injection E1 as <-. split; [|auto]. unfold nonlive_at. rewrite Ef1. exact El.
      - injection E1 as <-. split; [|auto]. unfold nonlive_at. rewrite Ef1. exact Logic.I. }
    destruct S1 as (S1 & S2 & S3). split; [|split].
    + intros j [<-|Hj]; [apply I2, S1|apply I1, Hj].
    + intros k Hk. apply I2, S2, Hk.
    + congruence.
Qed.
