(* Proofs for Model/Rates.v (C18 rate model). *)
From Comdex Require Import Lib.Base Lib.DecArith Lib.DecFacts Lib.DecFacts3 Model.Rates.
From Coq Require Import ZifyBool.

Lemma kink_apr_spec u uopt base s1 s2 r : kink_apr u uopt base s1 s2 = Some r -> r = kink_val u uopt base s1 s2.
Proof.
  unfold kink_apr, kink_val, obindr. destruct (u <? uopt).
  - destruct (dquo_c u uopt) as [q|] eqn:E1; [|discriminate]. apply dquo_c_some in E1 as [_ E1].
    destruct (dmul_c q s1) as [m|] eqn:E2; [|discriminate]. apply dmul_c_some in E2.
    intros E3. apply dadd_c_some in E3. subst. reflexivity.
  - destruct (dsub_c u uopt) as [n|] eqn:E1; [|discriminate]. apply dsub_c_some in E1.
    destruct (dsub_c P18 uopt) as [d|] eqn:E2; [|discriminate]. apply dsub_c_some in E2.
    destruct (dquo_c n d) as [q|] eqn:E3; [|discriminate]. apply dquo_c_some in E3 as [_ E3].
    destruct (dmul_c q s2) as [m|] eqn:E4; [|discriminate]. apply dmul_c_some in E4.
    destruct (dadd_c base s1) as [b1|] eqn:E5; [|discriminate]. apply dadd_c_some in E5.
    intros E6. apply dadd_c_some in E6. subst. reflexivity.
Qed.

Lemma lend_apr_spec b u rf r : lend_apr b u rf = Some r -> r = lend_val b u rf.
Proof.
  unfold lend_apr, lend_val, obindr.
  destruct (dsub_c P18 rf) as [m|] eqn:E1; [|discriminate]. apply dsub_c_some in E1.
  destruct (dmul_c b u) as [x|] eqn:E2; [|discriminate]. apply dmul_c_some in E2.
  intros E3. apply dmul_c_some in E3. subst. reflexivity.
Qed.

(* utilisation is in [0,1] *)
Lemma utilisation_range m b u : 0 <= m -> 0 <= b -> utilisation m b = Some u -> 0 <= u <= P18.
Proof.
  intros Hm Hb. dec_consts. unfold utilisation, int64_c.
  destruct (_ && _); [|discriminate]. destruct (_ && _); [|discriminate].
  unfold dadd, dec_of_int. destruct (Z.eqb_spec (m * P18 + b * P18) 0).
  - intros E. injection E as <-. lia.
  - intros E. apply dquo_c_some in E as [_ ->].
    split; [apply dquo_nonneg; nia|apply dquo_le_one; nia].
Qed.
Lemma utilisation_zero m : utilisation m 0 = Some 0 \/ utilisation m 0 = None.
Proof.
  unfold utilisation. destruct (int64_c m) as [m'|]; [|right; reflexivity]. cbn [int64_c].
  change (int64_c 0) with (Some 0). unfold dadd, dec_of_int. rewrite Z.mul_0_l, Z.add_0_r.
  destruct (Z.eqb_spec (m' * P18) 0); [left; reflexivity|].
  unfold dquo_c. destruct (Z.eqb_spec (m' * P18) 0); [lia|]. rewrite dquo_zero. left. reflexivity.
Qed.

Lemma kink_base uopt base s1 s2 : 0 < uopt -> kink_val 0 uopt base s1 s2 = base.
Proof.
  intros. unfold kink_val. destruct (Z.ltb_spec 0 uopt); [|lia].
  rewrite dquo_zero, dmul_zero_l. lia.
Qed.

Lemma kink_monotone u1 u2 uopt base s1 s2 :
  0 < uopt -> uopt < P18 -> 0 <= s1 -> 0 <= s2 -> 0 <= u1 -> u1 <= u2 ->
  kink_val u1 uopt base s1 s2 <= kink_val u2 uopt base s1 s2.
Proof.
  intros Hu0 Hu1 Hs1 Hs2 H1 H12. unfold kink_val.
  destruct (Z.ltb_spec u1 uopt); destruct (Z.ltb_spec u2 uopt); try lia.
  - assert (dquo u1 uopt <= dquo u2 uopt) by (apply dquo_mono_l; lia).
    pose proof (dmul_mono_l (dquo u1 uopt) (dquo u2 uopt) s1 Hs1 ltac:(lia)). lia.
  - (* across the kink *)
    assert (dquo u1 uopt <= P18) by (apply dquo_le_one; lia).
    pose proof (dmul_le_l (dquo u1 uopt) s1 Hs1 ltac:(lia)).
    assert (0 <= dquo (u2 - uopt) (P18 - uopt)) by (apply dquo_nonneg; lia).
    pose proof (dmul_nonneg (dquo (u2 - uopt) (P18 - uopt)) s2 ltac:(lia) Hs2). lia.
  - assert (Hq : dquo (u1 - uopt) (P18 - uopt) <= dquo (u2 - uopt) (P18 - uopt)) by (apply dquo_mono_l; lia).
    pose proof (dmul_mono_l _ _ s2 Hs2 Hq). lia.
Qed.

(* at the kink the second branch starts exactly at base + slope1 ... *)
Lemma kink_at uopt base s1 s2 : kink_val uopt uopt base s1 s2 = base + s1.
Proof.
  unfold kink_val. destruct (Z.ltb_spec uopt uopt); [lia|].
  rewrite Z.sub_diag, dquo_zero, dmul_zero_l. lia.
Qed.

(* ... and one ulp below it the first branch is at most (2*s1/uopt + 1) ulps lower *)
Lemma kink_jump uopt base s1 s2 : 1 < uopt -> uopt < P18 -> 0 <= s1 -> 0 <= s2 ->
  let d := kink_val uopt uopt base s1 s2 - kink_val (uopt - 1) uopt base s1 s2 in
  0 <= d /\ d * uopt * P18 <= s1 * (P18 + uopt) + HALF18 * uopt /\ d * uopt <= 2 * s1 + uopt.
Proof.
  intros Hu0 Hu1 Hs1 Hs2. cbv zeta. rewrite kink_at. unfold kink_val.
  destruct (Z.ltb_spec (uopt - 1) uopt); [|lia]. dec_consts.
  pose proof (dquo_bounds (uopt - 1) uopt ltac:(lia) ltac:(lia)) as Bq.
  assert (Hq1 : dquo (uopt - 1) uopt <= P18) by (apply dquo_le_one; lia).
  assert (Hq0 : 0 <= dquo (uopt - 1) uopt) by (apply dquo_nonneg; lia).
  set (q := dquo (uopt - 1) uopt) in *.
  pose proof (dmul_bounds q s1) as Bm. pose proof (dmul_le_l q s1 Hs1 Hq1) as Hle.
  set (m := dmul q s1) in *.
  assert (A : (base + s1 - (base + m)) * uopt * P18 <= s1 * (P18 + uopt) + HALF18 * uopt).
  { assert (s1 * (q * uopt) >= s1 * ((uopt - 1) * P18 - uopt)) by nia. nia. }
  split; [lia|]. split; [exact A|]. nia.
Qed.

Lemma lend_le_borrow b u rf : 0 <= b -> 0 <= u <= P18 -> 0 <= rf <= P18 ->
  0 <= lend_val b u rf <= b.
Proof.
  intros Hb Hu Hrf. unfold lend_val.
  pose proof (dmul_nonneg b u Hb ltac:(lia)). pose proof (dmul_le_r b u Hb ltac:(lia)).
  pose proof (dmul_nonneg (dmul b u) (P18 - rf) ltac:(lia) ltac:(lia)).
  pose proof (dmul_le_r (dmul b u) (P18 - rf) ltac:(lia) ltac:(lia)). lia.
Qed.

(* the defect class: with UOptimal = 1 (accepted by Validate) a fully utilised pool divides by zero *)
Lemma kink_uopt_one_panics base s1 s2 : kink_apr P18 P18 base s1 s2 = None.
Proof.
  unfold kink_apr, obindr. rewrite Z.ltb_irrefl.
  destruct (dsub_c P18 P18) as [n|] eqn:E1; [|reflexivity]. apply dsub_c_some in E1.
  rewrite Z.sub_diag in E1. subst. unfold dquo_c. rewrite Z.eqb_refl. reflexivity.
Qed.
