(* Proofs for Model/Rates.v (C18 rate model). *)
From Comdex Require Import Lib.Base Lib.DecArith Lib.DecFacts Lib.DecFacts3 Model.Rates.
From Coq Require Import ZifyBool.

Lemma kink_apr_spec u uopt base s1 s2 r : kink_apr u uopt base s1 s2 = Some r -> r = kink_val u uopt base s1 s2.
Proof.
  unfold kink_apr, kink_val, obindr. destruct (u <? uopt).
  - destruct (dquo_c u uopt) as [q|] eqn:E1; [|discriminate]. apply dquo_c_some in E1 as [_ E1].
    destruct (dmul_c q s1) as [m|] eqn:E2; [|discriminate]. apply dmul_c_some in E2.
    intros E3. apply dadd_c_some in E3. subst. reflexivity.
  - destruct (dsub_c u uopt) as [n|] eqn:E1; [|discriminate]. apply dsub_c_some in E1.
    destruct (dsub_c P18 uopt) as [d|] eqn:E2; [|discriminate]. apply dsub_c_some in E2.
    destruct (dquo_c n d) as [q|] eqn:E3; [|discriminate]. apply dquo_c_some in E3 as [_ E3].
    destruct (dmul_c q s2) as [m|] eqn:E4; [|discriminate]. apply dmul_c_some in E4.
    destruct (dadd_c base s1) as [b1|] eqn:E5; [|discriminate]. apply dadd_c_some in E5.
    intros E6. apply dadd_c_some in E6. subst. reflexivity.
Qed.

Lemma lend_apr_spec b u rf r : lend_apr b u rf = Some r -> r = lend_val b u rf.
Proof.
  unfold lend_apr, lend_val, obindr.
  destruct (dsub_c P18 rf) as [m|] eqn:E1; [|discriminate]. apply dsub_c_some in E1.
  destruct (dmul_c b u) as [x|] eqn:E2; [|discriminate]. apply dmul_c_some in E2.
  intros E3. apply dmul_c_some in E3. subst. reflexivity.
Qed.

(* utilisation is in [0,1] *)
Lemma utilisation_range m b u : 0 <= m -> 0 <= b -> utilisation m b = Some u -> 0 <= u <= P18.
Proof.
  intros Hm Hb. dec_consts. unfold utilisation, int64_c.
  destruct (_ && _); [|discriminate]. destruct (_ && _); [|discriminate].
  unfold dadd, dec_of_int. destruct (Z.eqb_spec (m * P18 + b * P18) 0).
  - intros E. injection E as <-. lia.
  - intros E. apply dquo_c_some in E as [_ ->].
    split; [apply dquo_nonneg; nia|apply dquo_le_one; nia].
Qed.
Lemma utilisation_zero m : utilisation m 0 = Some 0 \/ utilisation m 0 = None.
Proof.
  unfold utilisation. destruct (int64_c m) as [m'|]; [|right; reflexivity]. cbn [int64_c].
  change (int64_c 0) with (Some 0). unfold dadd, dec_of_int. rewrite Z.mul_0_l, Z.add_0_r.
  destruct (Z.eqb_spec (m' * P18) 0); [left; reflexivity|].
  unfold dquo_c. destruct (Z.eqb_spec (m' * P18) 0); [lia|]. rewrite dquo_zero. left. reflexivity.
Qed.

Lemma kink_base uopt base s1 s2 : 0 < uopt -> kink_val 0 uopt base s1 s2 = base.
Proof.
  intros. unfold kink_val. destruct (Z.ltb_spec 0 uopt); [|lia].
  rewrite dquo_zero, dmul_zero_l. lia.
Qed.

Lemma kink_monotone u1 u2 uopt base s1 s2 :
  0 < uopt -> uopt < P18 -> 0 <= s1 -> 0 <= s2 -> 0 <= u1 -> u1 <= u2 ->
  kink_val u1 uopt base s1 s2 <= kink_val u2 uopt base s1 s2.
Proof.
  intros Hu0 Hu1 Hs1 Hs2 H1 H12. unfold kink_val.
  destruct (Z.ltb_spec u1 uopt); destruct (Z.ltb_spec u2 uopt); try lia.
  - assert (dquo u1 uopt <= dquo u2 uopt) by (apply dquo_mono_l; lia).
    pose proof (dmul_mono_l (dquo u1 uopt) (dquo u2 uopt) s1 Hs1 ltac:(lia)). lia.
  - (* across the kink *)
    assert (dquo u1 uopt <= P18) by (apply dquo_le_one; lia).
    pose proof (dmul_le_l (dquo u1 uopt) s1 Hs1 ltac:(lia)).
    assert (0 <= dquo (u2 - uopt) (P18 - uopt)) by (apply dquo_nonneg; lia).
    pose proof (dmul_nonneg (dquo (u2 - uopt) (P18 - uopt)) s2 ltac:(lia) Hs2). lia.
  - assert (Hq : dquo (u1 - uopt) (P18 - uopt) <= dquo (u2 - uopt) (P18 - uopt)) by (apply dquo_mono_l; lia).
    pose proof (dmul_mono_l _ _ s2 Hs2 Hq). lia.
Qed.

(* at the kink the second branch starts exactly at base + slope1 ... *)
Lemma kink_at uopt base s1 s2 : kink_val uopt uopt base s1 s2 = base + s1.
Proof.
  unfold kink_val. destruct (Z.ltb_spec uopt uopt); [lia|].
  rewrite Z.sub_diag, dquo_zero, dmul_zero_l. lia.
Qed.

(* ... and one ulp below it the first branch is at most (2*s1/uopt + 1) ulps lower *)
Lemma kink_jump uopt base s1 s2 : 1 < uopt -> uopt < P18 -> 0 <= s1 -> 0 <= s2 ->
  let d := kink_val uopt uopt base s1 s2 - kink_val (uopt - 1) uopt base s1 s2 in
  0 <= d /\ d * uopt * P18 <= s1 * (P18 + uopt) + HALF18 * uopt /\ d * uopt <= 2 * s1 + uopt.
Proof.
  intros Hu0 Hu1 Hs1 Hs2. cbv zeta. rewrite kink_at. unfold kink_val.
  destruct (Z.ltb_spec (uopt - 1) uopt); [|lia]. dec_consts.
  pose proof (dquo_bounds (uopt - 1) uopt ltac:(lia) ltac:(lia)) as Bq.
  assert (Hq1 : dquo (uopt - 1) uopt <= P18) by (apply dquo_le_one; lia).
  assert (Hq0 : 0 <= dquo (uopt - 1) uopt) by (apply dquo_nonneg; lia).
  set (q := dquo (uopt - 1) uopt) in *.
  pose proof (dmul_bounds q s1) as Bm. pose proof (dmul_le_l q s1 Hs1 Hq1) as Hle.
  set (m := dmul q s1) in *.
  assert (A : (base + s1 - (base + m)) * uopt * P18 <= s1 * (P18 + uopt) + HALF18 * uopt).
  { assert (s1 * (q * uopt) >= s1 * ((uopt - 1) * P18 - uopt)) by nia. nia. }
  split; [lia|]. split; [exact A|]. nia.
Qed.

Lemma lend_le_borrow b u rf : 0 <= b -> 0 <= u <= P18 -> 0 <= rf <= P18 ->
  0 <= lend_val b u rf <= b.
Proof.
  intros Hb Hu Hrf. unfold lend_val.
  pose proof (dmul_nonneg b u Hb ltac:(lia)). pose proof (dmul_le_r b u Hb ltac:(lia)).
  pose proof (dmul_nonneg (dmul b u) (P18 - rf) ltac:(lia) ltac:(lia)).
  pose proof (dmul_le_r (dmul b u) (P18 - rf) ltac:(lia) ltac:(lia)). lia.
Qed.

(* the curve of maths.go with UOptimal = 1 divides by zero in a fully utilised pool: this is why
   Validate has to reject UOptimal >= 1 (C18-F1, repaired) *)
Lemma kink_uopt_one_panics base s1 s2 : kink_apr P18 P18 base s1 s2 = None.
Proof.
  unfold kink_apr, obindr. rewrite Z.ltb_irrefl.
  destruct (dsub_c P18 P18) as [n|] eqn:E1; [|reflexivity]. apply dsub_c_some in E1.
  rewrite Z.sub_diag in E1. subst. unfold dquo_c. rewrite Z.eqb_refl. reflexivity.
Qed.

(* ---------------- validated parameters ---------------- *)
Lemma rates_valid_spec p : rates_valid p = true ->
  rp_asset p <> 0 /\ 0 < rp_uopt p < P18 /\ 0 < rp_base p /\ 0 < rp_s1 p /\ 0 < rp_s2 p /\
  0 <= rp_sbase p /\ 0 <= rp_ss1 p /\ 0 <= rp_ss2 p /\ 0 < rp_liqthr p /\ 0 < rp_liqbonus p /\
  0 < rp_liqpen p /\ 0 < rp_ltv p /\ 0 < rp_rf p /\ rp_casset p <> 0.
Proof. unfold rates_valid. intros H. repeat (apply andb_prop in H as [H ?]). lia. Qed.

Lemma rates_valid_uopt_lt_one p : P18 <= rp_uopt p -> rates_valid p = false.
Proof.
  intros H. destruct (rates_valid p) eqn:E; [|reflexivity]. apply rates_valid_spec in E. lia.
Qed.

Lemma add_rates_params_spec p q : add_rates_params p = Ok q -> q = p /\ rates_valid p = true.
Proof. unfold add_rates_params. destruct (rates_valid p); [|discriminate]. intros E. injection E as <-. auto. Qed.
Lemma add_rates_pool_pairs_spec p n d e q : add_rates_pool_pairs p n d e = Ok q -> q = p /\ rates_valid p = true.
Proof.
  unfold add_rates_pool_pairs, pool_pairs_valid. destruct (rates_valid p); [|discriminate].
  destruct (_ && _); [|discriminate]. destruct e; [discriminate|]. intros E. injection E as <-. auto.
Qed.

Lemma rates_bounded_spec p : rates_bounded p = true ->
  rp_base p < RATE_MAX /\ rp_s1 p < RATE_MAX /\ rp_s2 p < RATE_MAX /\
  rp_sbase p < RATE_MAX /\ rp_ss1 p < RATE_MAX /\ rp_ss2 p < RATE_MAX /\ rp_rf p < RATE_MAX.
Proof. unfold rates_bounded. intros H. repeat (apply andb_prop in H as [H ?]). lia. Qed.

(* ---------------- the rate is defined on [0,1] ---------------- *)
Lemma rate_max_facts : 0 < RATE_MAX /\ 4 * RATE_MAX * RATE_MAX < two315 /\ 4 * RATE_MAX < two315 /\
  2 * 1000000000000000000 * 1000000000000000000 < two315.
Proof. vm_compute. repeat split. Qed.
Lemma P18_val : P18 = 1000000000000000000. Proof. reflexivity. Qed.
Global Opaque RATE_MAX two315.

Lemma chk_dec_fits x : - two315 < x < two315 -> chk_dec x = Some x.
Proof.
  intros H. unfold chk_dec, fits_dec. destruct (Z.ltb_spec (Z.abs x) two315); [reflexivity|lia].
Qed.

Lemma kink_defined u uopt base s1 s2 :
  0 < uopt -> uopt < P18 -> 0 <= base < RATE_MAX -> 0 <= s1 < RATE_MAX -> 0 <= s2 < RATE_MAX ->
  0 <= u <= P18 ->
  kink_apr u uopt base s1 s2 = Some (kink_val u uopt base s1 s2) /\
  base <= kink_val u uopt base s1 s2 <= base + s1 + s2.
Proof.
  intros Hu0 Hu1 Hb Hs1 Hs2 Hu. pose proof rate_max_facts as (R0 & R1 & R2 & R3). pose proof P18_val as PV.
  unfold kink_apr, kink_val, obindr, dquo_c, dmul_c, dadd_c, dsub_c.
  destruct (Z.ltb_spec u uopt).
  - destruct (Z.eqb_spec uopt 0); [lia|].
    assert (Q0 : 0 <= dquo u uopt) by (apply dquo_nonneg; lia).
    assert (Q1 : dquo u uopt <= P18) by (apply dquo_le_one; lia).
    rewrite chk_dec_fits by lia.
    pose proof (dmul_nonneg (dquo u uopt) s1 Q0 ltac:(lia)).
    pose proof (dmul_le_l (dquo u uopt) s1 ltac:(lia) Q1).
    rewrite chk_dec_fits by lia. rewrite chk_dec_fits by lia. split; [reflexivity|lia].
  - rewrite chk_dec_fits by lia. rewrite chk_dec_fits by lia.
    destruct (Z.eqb_spec (P18 - uopt) 0); [lia|].
    assert (Q0 : 0 <= dquo (u - uopt) (P18 - uopt)) by (apply dquo_nonneg; lia).
    assert (Q1 : dquo (u - uopt) (P18 - uopt) <= P18) by (apply dquo_le_one; lia).
    rewrite chk_dec_fits by lia.
    pose proof (dmul_nonneg (dquo (u - uopt) (P18 - uopt)) s2 Q0 ltac:(lia)).
    pose proof (dmul_le_l (dquo (u - uopt) (P18 - uopt)) s2 ltac:(lia) Q1).
    rewrite chk_dec_fits by lia. rewrite chk_dec_fits by lia. rewrite chk_dec_fits by lia.
    split; [reflexivity|lia].
Qed.

(* a non-negative Dec times a non-positive one is non-positive *)
Lemma dmul_nonneg_nonpos a b : 0 <= a -> b <= 0 -> dmul a b <= 0.
Proof.
  intros Ha Hb. dec_consts. pose proof (dmul_bounds a b). assert (a * b <= 0) by nia. nia.
Qed.

Lemma lend_defined b u rf : 0 <= b < 3 * RATE_MAX -> 0 <= u <= P18 -> 0 <= rf < RATE_MAX ->
  lend_apr b u rf = Some (lend_val b u rf) /\ lend_val b u rf <= b /\ (rf <= P18 -> 0 <= lend_val b u rf).
Proof.
  intros Hb Hu Hrf. pose proof rate_max_facts as (R0 & R1 & R2 & R3). pose proof P18_val as PV. dec_consts.
  unfold lend_apr, lend_val, obindr, dmul_c, dsub_c.
  pose proof (dmul_nonneg b u ltac:(lia) ltac:(lia)) as X0. pose proof (dmul_le_r b u ltac:(lia) ltac:(lia)) as X1.
  set (x := dmul b u) in *.
  rewrite chk_dec_fits by lia. rewrite chk_dec_fits by lia.
  destruct (Z.le_gt_cases rf P18) as [Hle|Hgt].
  - pose proof (dmul_nonneg x (P18 - rf) X0 ltac:(lia)). pose proof (dmul_le_r x (P18 - rf) X0 ltac:(lia)).
    rewrite chk_dec_fits by lia. split; [reflexivity|]. split; [lia|]. intros _. lia.
  - pose proof (dmul_nonneg_nonpos x (P18 - rf) X0 ltac:(lia)) as Y0.
    pose proof (dmul_bounds x (P18 - rf)) as Y1.
    assert (- (3 * RATE_MAX * RATE_MAX) - 1 < dmul x (P18 - rf)) by nia.
    rewrite chk_dec_fits by lia. split; [reflexivity|]. split; [lia|]. intros; lia.
Qed.

(* the curve selected by the IsStableBorrow flag *)
Lemma borrow_apr_curve p stable u :
  borrow_apr p stable u = kink_apr u (rp_uopt p) (if stable then rp_sbase p else rp_base p)
                             (if stable then rp_ss1 p else rp_s1 p) (if stable then rp_ss2 p else rp_s2 p).
Proof. unfold borrow_apr. destruct stable; reflexivity. Qed.

(* the jump at the kink for every 0 < uopt < 1 (uopt = 1 ulp included: the lower neighbour is u = 0) *)
Lemma kink_jump_all uopt base s1 s2 : 0 < uopt -> uopt < P18 -> 0 <= s1 -> 0 <= s2 ->
  let d := kink_val uopt uopt base s1 s2 - kink_val (uopt - 1) uopt base s1 s2 in
  0 <= d /\ d * uopt <= 2 * s1 + uopt.
Proof.
  intros Hu0 Hu1 Hs1 Hs2. destruct (Z.eq_dec uopt 1) as [->|Hn].
  - cbv zeta. rewrite kink_at. change (1 - 1) with 0. rewrite kink_base by lia. lia.
  - pose proof (kink_jump uopt base s1 s2 ltac:(lia) Hu1 Hs1 Hs2) as J. cbv zeta in *. tauto.
Qed.
