(* C02 over the full life cycle: supply of every vault-minted denom beyond the external supply =
   recorded principal (open vaults + stable-mint vaults + vaults awaiting auction + debt registered for
   emergency redemption) - [over], where [over] >= 0 is what settlements burnt beyond the principal they
   retired (accrued interest and closing fees of seized vaults). *)
From Comdex Require Import Lib.Base Lib.DecArith Lib.DecFacts Lib.Atomic Model.Vault Model.VaultLife
  Proofs.VaultProofs Proofs.VaultExec Proofs.VaultHandlers Proofs.VaultInv Proofs.VaultLifeBase Proofs.VaultLifeInv Proofs.VaultLifeHist.
From Coq Require Import ZifyBool Sorted.

Definition Inv02L (c : cfg) (ext : Z -> Z) (l : lstate) : Prop :=
  forall d, sup (vs l) d - ext d = recorded_d c l d - over l d /\ 0 <= over l d.

(* ---------- a successful vault message as one or two record changes, or a frame ---------- *)
Inductive vop_shape (c : cfg) (l : lstate) (s' : state) : Prop :=
| vs_one from bc fee : from <> VAULT -> effect c (vs l) s' from bc fee -> vop_shape c l s'
| vs_two st from bc1 fee1 bc2 fee2 : from <> VAULT -> effect c (vs l) st from bc1 fee1 -> InvL c (set_vs l st) ->
    effect c st s' from bc2 fee2 -> vop_shape c l s'
| vs_frame : vaults s' = vaults (vs l) -> svaults s' = svaults (vs l) -> sup s' = sup (vs l) -> vop_shape c l s'.

Lemma vop_cases c l o s' : cfg_ok c -> user_op o -> InvL c l -> run c (vs l) o = Ok s' -> vop_shape c l s'.
Proof.
  intros CK [Hu _] I H. pose proof (invL_pe c l I) as PE. pose proof (invL_wf c l I) as W.
  destruct o; cbn [run sender] in *.
  - unfold msg_create in H. do 2 exec1 H.
    destruct (create_h_effect c (vs l) from app epid ain aout s' CK ltac:(lia) ltac:(lia) H) as (ep & cl & _ & _ & _ & _ & _ & _ & _ & _ & _ & E).
    exact (vs_one c l s' _ _ _ Hu E).
  - unfold msg_deposit in H. do 2 exec1 H.
    destruct (deposit_h_effect c (vs l) from app epid id amt ienv s' PE W ltac:(lia) H) as (v0 & ep & _ & _ & _ & _ & _ & _ & _ & E).
    exact (vs_one c l s' _ _ _ Hu E).
  - unfold msg_withdraw in H. do 2 exec1 H.
    destruct (withdraw_h_effect c (vs l) from app epid id amt ienv s' PE W ltac:(lia) H) as (v0 & ep & _ & _ & _ & _ & _ & _ & _ & E).
    exact (vs_one c l s' _ _ _ Hu E).
  - unfold msg_draw in H. do 2 exec1 H.
    destruct (draw_h_effect c (vs l) from app epid id amt ienv s' CK PE W H) as (v0 & ep & _ & _ & _ & _ & _ & _ & _ & _ & _ & _ & _ & E).
    exact (vs_one c l s' _ _ _ Hu E).
  - destruct (repay_effect c (vs l) from app epid id amt ienv s' PE W H) as (v0 & ep & _ & _ & _ & _ & _ & _ & _ & [[_ E]|(_ & _ & E)]);
      exact (vs_one c l s' _ _ _ Hu E).
  - destruct (close_effect c (vs l) from app epid id ienv s' PE W H) as (v0 & ep & _ & _ & _ & _ & _ & _ & E).
    exact (vs_one c l s' _ _ _ Hu E).
  - unfold msg_deposit_draw in H. do 5 exec1 H. exec1 H.
    destruct (deposit_h_effect c (vs l) from app epid id amt i1 st PE W ltac:(lia) E) as (v0 & ep & _ & _ & _ & _ & _ & _ & _ & E1).
    assert (I1 : InvL c (set_vs l st)) by (apply (eff_step c l st _ _ _ Hu I E1); reflexivity).
    destruct (draw_h_effect c st from app epid id z0 i2 s' CK (invL_pe c _ I1) (invL_wf c _ I1) H) as (v1 & ep1 & _ & _ & _ & _ & _ & _ & _ & _ & _ & _ & _ & E2).
    exact (vs_two c l s' st _ _ _ _ _ Hu E1 I1 E2).
  - destruct (stable_create_effect c (vs l) from app epid amt s' CK H) as (ep & tout & _ & _ & _ & _ & _ & _ & _ & _ & E).
    exact (vs_one c l s' _ _ _ Hu E).
  - destruct (stable_deposit_effect c (vs l) from app epid id amt s' CK PE H) as (x0 & ep & tout & _ & _ & _ & _ & _ & _ & _ & _ & _ & E).
    exact (vs_one c l s' _ _ _ Hu E).
  - destruct (stable_withdraw_effect c (vs l) from app epid id amt s' CK PE H) as (x0 & ep & tout & upd & _ & _ & _ & _ & _ & _ & _ & _ & _ & E).
    exact (vs_one c l s' _ _ _ Hu E).
  - destruct (interest_effect c (vs l) app id ienv s' W H) as (v0 & _ & _ & E).
    exact (vs_one c l s' 2 _ _ Hu (E 2)).
  - unfold donate in H. exec1 H. exec1 H. apply send_spec in E. destruct E as (_ & b1 & -> & Hb1).
    injection H as <-. apply vs_frame; reflexivity.
  - injection H as <-. apply vs_frame; reflexivity.
  - injection H as <-. apply vs_frame; reflexivity.
  - injection H as <-. apply vs_frame; reflexivity.
  - injection H as <-. apply vs_frame; reflexivity.
  - injection H as <-. apply vs_frame; reflexivity.
Qed.

Lemma eff_inv02 c ext l s' from bc fee : InvL c l -> Inv02L c ext l -> effect c (vs l) s' from bc fee -> Inv02L c ext (set_vs l s').
Proof.
  intros I J E d. destruct (J d) as [J1 J2]. split; [|exact J2].
  pose proof (effect_shift c (vs l) s' from bc fee (oc_of l) (opc_of l) (opm_of l)) as B.
  assert (Hds : debt_sum c s' d = debt_sum c (vs l) d + (if denom_out c (bc_pair bc) =? d then bc_dout bc else 0)).
  { unfold debt_sum. rewrite (ef_vaults _ _ _ _ _ _ E), (ef_svaults _ _ _ _ _ _ E).
    pose proof (bc_wsum c (view l) bc (fun v => if denom_out c (v_pair v) =? d then v_out v else 0)
                  (fun v => if denom_out c (sv_pair v) =? d then sv_out v else 0) (il_view _ _ I)) as Hw.
    unfold view in Hw. rewrite shift_pre, shift_vaults, shift_svaults in Hw. rewrite (Hw (ef_pre _ _ _ _ _ _ E)).
    rewrite (delta_out (fun _ p => denom_out c p =? d) c (vs l) bc (ef_pre _ _ _ _ _ _ E)). reflexivity. }
  unfold recorded_d in *. cbn [vs set_vs over lks edebt] in *. unfold lock_prin_d in *. cbn [lks set_vs] in *.
  rewrite Hds, (ef_sup _ _ _ _ _ _ E). unfold at1. rewrite (Z.eqb_sym d). destruct (_ =? d); lia.
Qed.

Theorem vop_inv02 c ext l o s' : cfg_ok c -> user_op o -> InvL c l -> Inv02L c ext l -> run c (vs l) o = Ok s' -> Inv02L c ext (set_vs l s').
Proof.
  intros CK U I J H. destruct (vop_cases c l o s' CK U I H) as [from bc fee Hf E|st from bc1 fee1 bc2 fee2 Hf E1 I1 E2|Hv Hx Hs].
  - exact (eff_inv02 c ext l s' from bc fee I J E).
  - pose proof (eff_inv02 c ext l st from bc1 fee1 I J E1) as J1.
    change (set_vs l s') with (set_vs (set_vs l st) s'). exact (eff_inv02 c ext (set_vs l st) s' from bc2 fee2 I1 J1 E2).
  - intros d. destruct (J d) as [J1 J2]. split; [|exact J2].
    unfold recorded_d, debt_sum, lock_prin_d in *. cbn [vs set_vs over lks edebt] in *. rewrite Hv, Hx, Hs. exact J1.
Qed.

(* ---------- seizure ---------- *)
Lemma liquidate_shape c lc l id ie intk keeper l' : InvL c l -> liquidate c lc l id ie intk keeper = Ok l' ->
  l' = l \/
  exists v e nk, find_v (vaults (vs l)) (v_id v) = Some v /\ get_ep c (v_pair v) = Some e /\
    vaults (vs l') = del_v (vaults (vs l)) (v_id v) /\ svaults (vs l') = svaults (vs l) /\ sup (vs l') = sup (vs l) /\
    lks l' = lks l ++ [nk] /\ lk_pair nk = v_pair v /\ lk_prin nk = v_out v /\ edebt l' = edebt l /\ over l' = over l.
Proof.
  intros I H. pose proof (invL_pe c l I) as PE. pose proof (invL_wf c l I) as W.
  unfold liquidate in H. cbv zeta in H.
  exec_checks H. exec1 H. exec1 H; [injection H as <-; left; reflexivity|].
  exec_accrue H. bc_simpl.
  exec1 H. exec1 H. exec1 H. exec1 H. exec1 H. exec1 H. exec1 H. exec1 H.
  injection H as <-. right.
  apply csend_spec in E1. destruct E1 as (b1 & -> & Hb1).
  pose proof (find_v_id _ _ _ M) as Hvid.
  set (nk := mkLK (lkid l + 1) (v_app v) (v_pair v) (v_owner v) (v_in v) (v_out v + (v_int v + ie) + v_fee v) z intk keeper (v_out v)).
  assert (Hfresh : find_lk (lks l) (lk_id nk) = None) by (apply (fresh_key lk_id _ _ (lkid l)); [exact (il_lkid _ _ I)|reflexivity]).
  assert (Hput : put_lk (lks l) nk = lks l ++ [nk]) by (apply (gput_new lk_id); exact Hfresh).
  exists v, e, nk. cbn [vs lks edebt over]. unfold dec_len. ssimpl.
  repeat split; try reflexivity.
  - rewrite Hvid. exact M.
  - exact M0.
  - unfold prod_del_id. destruct (prods _ _ _); ssimpl; rewrite del_put by reflexivity; reflexivity.
  - unfold prod_del_id. destruct (prods _ _ _); reflexivity.
  - unfold prod_del_id. destruct (prods _ _ _); reflexivity.
  - exact Hput.
Qed.

Lemma del_debt_sum c l v d : InvL c l -> find_v (vaults (vs l)) (v_id v) = Some v ->
  wsum (fun w => if denom_out c (v_pair w) =? d then v_out w else 0) (del_v (vaults (vs l)) (v_id v)) =
  wsum (fun w => if denom_out c (v_pair w) =? d then v_out w else 0) (vaults (vs l)) - (if denom_out c (v_pair v) =? d then v_out v else 0).
Proof. intros I M. unfold del_v. rewrite (gdel_wsum v_id _ _ _ v M). reflexivity. Qed.

Lemma liquidate_inv02 c ext lc l id ie intk keeper l' : InvL c l -> Inv02L c ext l ->
  liquidate c lc l id ie intk keeper = Ok l' -> Inv02L c ext l'.
Proof.
  intros I J H. destruct (liquidate_shape c lc l id ie intk keeper l' I H) as [->|(v & e & nk & M & Me & Hv & Hx & Hs & Hl & Hp & Hpr & He & Ho)]; [exact J|].
  intros d. destruct (J d) as [J1 J2]. rewrite Ho. split; [|exact J2].
  unfold recorded_d, debt_sum, lock_prin_d in *. rewrite Hv, Hx, Hs, Hl, He, (del_debt_sum c l v d I M), wsum_app, wsum_cons, wsum_nil, Hp, Hpr. lia.
Qed.

Lemma sweep_inv02 c ext lc items : cfg_ok c -> forall l, InvL c l -> Inv02L c ext l -> Inv02L c ext (sweep c lc l items).
Proof.
  intros CK. unfold sweep. induction items as [|it items IH]; intros l I J; cbn [fold_left]; [exact J|].
  destruct (liquidate c lc l (fst it) (snd it) false 0) as [l1| |] eqn:E; cbn [keep].
  - apply IH; [exact (liquidate_invL c lc l _ _ false 0 l1 CK ltac:(discriminate) I E)|exact (liquidate_inv02 c ext lc l _ _ false 0 l1 I J E)].
  - exact (IH l I J).
  - exact (IH l I J).
Qed.

(* ---------- bids ---------- *)
Lemma bid_inv02 c ext lc l aid who paid recv closed exh topup l' : who <> VAULT -> InvL c l -> Inv02L c ext l ->
  bid lc l aid who paid recv closed exh topup = Ok l' -> Inv02L c ext l'.
Proof.
  intros Hw I J H.
  assert (HL : forall k, In k (lks l) -> lk_owner k <> VAULT /\ (lk_intk k = true -> lk_keeper k <> VAULT)).
  { intros k Hk. destruct (il_lk _ _ I k Hk) as (H1 & H2 & _). split; assumption. }
  destruct (bid_spec lc l aid who paid recv closed exh topup l' Hw HL H) as (a & lk & Ma & Mk & Hc).
  destruct (gfind_some lk_id _ _ _ Mk) as [Hkin Hkid]. destruct (gfind_some au_id _ _ _ Ma) as [Hain Haid].
  destruct (il_lk _ _ I lk Hkin) as (K1 & K2 & K3 & K4 & K5).
  destruct (il_au _ _ I a Hain) as (A1 & Ac & Ad & A2). destruct (A2 lk Mk) as (A5 & A3 & A4).
  destruct closed.
  - destruct Hc as (s' & r' & -> & B & Hd & Hs). unfold closes. intros d. destruct (J d) as [J1 J2].
    cbn [vs over lks edebt]. unfold add1. split; [|destruct (d =? au_cout a); lia].
    unfold recorded_d, debt_sum, lock_prin_d in *. cbn [vs lks edebt].
    assert (Hvv : vaults (upd_coll (upd_mint s' (au_app a) (lk_pair lk) (lk_debt lk) false) (au_app a) (lk_pair lk) (lk_coll lk) false) = vaults (vs l)).
    { unfold upd_coll, upd_mint. repeat (match goal with |- context [match ?x with _ => _ end] => destruct x end; ssimpl); apply (bs_vaults _ _ B). }
    assert (Hxx : svaults (upd_coll (upd_mint s' (au_app a) (lk_pair lk) (lk_debt lk) false) (au_app a) (lk_pair lk) (lk_coll lk) false) = svaults (vs l)).
    { unfold upd_coll, upd_mint. repeat (match goal with |- context [match ?x with _ => _ end] => destruct x end; ssimpl); apply (bs_svaults _ _ B). }
    assert (Hss : sup (upd_coll (upd_mint s' (au_app a) (lk_pair lk) (lk_debt lk) false) (au_app a) (lk_pair lk) (lk_coll lk) false) = sup s').
    { unfold upd_coll, upd_mint. repeat (match goal with |- context [match ?x with _ => _ end] => destruct x end; ssimpl); reflexivity. }
    rewrite Hvv, Hxx, Hss, Hs. unfold del_lk. rewrite (gdel_wsum lk_id _ _ _ lk) by (rewrite Hkid; exact Mk).
    rewrite <- A3. unfold at1. rewrite (Z.eqb_sym (au_cout a) d). destruct (d =? au_cout a); lia.
  - destruct Hc as (s' & -> & B & Hs). intros d. destruct (J d) as [J1 J2]. cbn [vs over lks edebt]. split; [|exact J2].
    unfold recorded_d, debt_sum, lock_prin_d in *. cbn [vs lks edebt]. rewrite (bs_vaults _ _ B), (bs_svaults _ _ B), Hs. exact J1.
Qed.

(* ---------- the block tick: restarts touch nothing; an ESM return burns what was collected beyond the penalty
   and re-records the auction's remaining target debt as the returned vault's principal ---------- *)
Lemma trigger_esm_inv02 c ext l a lk l' : InvL c l -> Inv02L c ext l -> In a (aus l) -> find_lk (lks l) (au_lock a) = Some lk ->
  trigger_esm l a lk = Ok l' -> Inv02L c ext l'.
Proof.
  intros I J Hain Mk H.
  destruct (il_au _ _ I a Hain) as (A1 & Ac & Ad & A2). destruct (A2 lk Mk) as (A5 & A3 & A4).
  destruct (trigger_esm_spec c l a lk l' I Hain Mk H) as
    (bc & tb & Htb & Bpre & Bwf & Bapp & Bpair & Bdin & Bdout & Bown & Sv & Sx & Sl & Si & Ssi & Su & Sun & Sb & Ss & Spf & Spc & Spm & Spi &
     Llk & Lau & Llkid & Lauid & Led & Ldr & Lem & Lec & Les & Lov).
  intros d. destruct (J d) as [J1 J2]. rewrite Lov. unfold add1. split; [|destruct (d =? au_cout a); lia].
  assert (Hds : debt_sum c (vs l') d = debt_sum c (vs l) d + (if denom_out c (bc_pair bc) =? d then bc_dout bc else 0)).
  { unfold debt_sum. rewrite Sv, Sx.
    assert (Hxx : svaults (vs l) = bc_svaults bc (svaults (vs l))) by (destruct bc; try (exfalso; exact Bown); reflexivity).
    rewrite Hxx at 1.
    pose proof (bc_wsum c (view l) bc (fun v => if denom_out c (v_pair v) =? d then v_out v else 0)
                  (fun v => if denom_out c (sv_pair v) =? d then sv_out v else 0) (il_view _ _ I)) as Hw.
    unfold view in Hw. rewrite shift_pre, shift_vaults, shift_svaults in Hw. rewrite (Hw Bpre).
    rewrite (delta_out (fun _ p => denom_out c p =? d) c (vs l) bc Bpre). reflexivity. }
  unfold recorded_d, lock_prin_d in *. rewrite Hds, Ss, Llk, Led, Bpair, Bdout, <- A3. unfold at1. rewrite (Z.eqb_sym (au_cout a) d).
  destruct (d =? au_cout a); lia.
Qed.

Lemma tick_one_inv02 c ext lc l aid l' : InvL c l -> Inv02L c ext l -> tick_one lc l aid = Ok l' -> Inv02L c ext l'.
Proof.
  intros I J H. unfold tick_one in H. cbv zeta in H.
  destruct (find_au (aus l) aid) as [a|] eqn:Ma; [|injection H as <-; exact J].
  destruct (gfind_some au_id _ _ _ Ma) as [Hain Haid].
  destruct (e_status (esm (vs l) (au_app a))) eqn:Es.
  - destruct (now (vs l) >? au_end a) eqn:Nw; [|injection H as <-; exact J].
    destruct (find_lk (lks l) (au_lock a)) as [lk|] eqn:Mk; [|injection H as <-; exact J].
    exact (trigger_esm_inv02 c ext l a lk l' I J Hain Mk H).
  - destruct (now (vs l) >? au_end a) eqn:Nw; [|injection H as <-; exact J].
    do 3 exec1 H. injection H as <-. exact J.
Qed.

Lemma auc_tick_inv02 c ext lc l : InvL c l -> Inv02L c ext l -> Inv02L c ext (auc_tick lc l).
Proof.
  unfold auc_tick. generalize (map au_id (aus l)) as ids. intros ids. revert l.
  induction ids as [|aid ids IH]; intros l I J; cbn [fold_left]; [exact J|].
  destruct (tick_one lc l aid) as [l1| |] eqn:T; cbn [keep].
  - exact (IH l1 (tick_one_invL c lc l aid l1 I T) (tick_one_inv02 c ext lc l aid l1 I J T)).
  - exact (IH l I J).
  - exact (IH l I J).
Qed.

(* ---------- esm redemption: the principal moves from the vault record to the esm register ---------- *)
Lemma esm_redeem_one_shape c lc app l v l' : esm_redeem_one c lc app l v = Ok l' ->
  l' = l \/
  exists e, get_ep c (v_pair v) = Some e /\ vaults (vs l') = del_v (vaults (vs l)) (v_id v) /\ svaults (vs l') = svaults (vs l) /\
    sup (vs l') = sup (vs l) /\ lks l' = lks l /\ edebt l' = add1 (edebt l) (ep_out e) (v_out v) /\ over l' = over l.
Proof.
  intros H. unfold esm_redeem_one in H. cbv zeta in H.
  exec1 H; [injection H as <-; left; reflexivity|].
  do 4 exec1 H. injection H as <-. right. apply send_spec in E. destruct E as (_ & b1 & -> & Hb1).
  exists e. cbn [vs lks edebt over]. unfold dec_len, upd_coll, upd_mint, prod_del_id.
  repeat (match goal with |- context [match prods ?s ?a ?p with _ => _ end] => destruct (prods s a p) end; ssimpl); repeat split; reflexivity.
Qed.

Lemma esm_redeem_one_inv02 c ext lc app l v l' : InvL c l -> Inv02L c ext l -> find_v (vaults (vs l)) (v_id v) = Some v ->
  esm_redeem_one c lc app l v = Ok l' -> Inv02L c ext l'.
Proof.
  intros I J M H. destruct (esm_redeem_one_shape c lc app l v l' H) as [->|(e & Me & Hv & Hx & Hs & Hl & He & Ho)]; [exact J|].
  intros d. destruct (J d) as [J1 J2]. rewrite Ho. split; [|exact J2].
  unfold recorded_d, debt_sum, lock_prin_d in *. rewrite Hv, Hx, Hs, Hl, He, (del_debt_sum c l v d I M). unfold add1.
  rewrite (denom_out_ep _ _ _ Me), (Z.eqb_sym d). destruct (ep_out e =? d); lia.
Qed.

Lemma esm_redeem_loop_inv02 c ext lc app vl : NoDup (map v_id vl) -> forall l l', InvL c l -> Inv02L c ext l ->
  (forall v, In v vl -> find_v (vaults (vs l)) (v_id v) = Some v) ->
  esm_redeem_loop c lc app vl l = Ok l' -> Inv02L c ext l'.
Proof.
  induction vl as [|v vl IH]; intros Hnd l l' I J HF H; cbn [esm_redeem_loop] in H; [injection H as <-; exact J|].
  inversion Hnd as [|? ? Hny Hnd']; subst.
  destruct (esm_redeem_one c lc app l v) as [l1| |] eqn:E1; cbn [obind] in H; try discriminate H.
  destruct (esm_redeem_one_invL c lc app l v l1 I (HF v (or_introl eq_refl)) E1) as [I1 Hf1].
  pose proof (esm_redeem_one_inv02 c ext lc app l v l1 I J (HF v (or_introl eq_refl)) E1) as J1.
  apply (IH Hnd' l1 l' I1 J1); [|exact H]. intros w Hw. rewrite Hf1; [apply HF; right; exact Hw|].
  intros Eq. apply Hny. rewrite <- Eq. apply in_map. exact Hw.
Qed.

Lemma esm_redeem_inv02 c ext lc l app l' : InvL c l -> Inv02L c ext l -> esm_redeem c lc l app = Ok l' -> Inv02L c ext l'.
Proof.
  intros I J H. unfold esm_redeem in H.
  assert (Hnd : NoDup (map v_id (vaults (vs l)))) by (apply sorted_nodup; exact (i_sorted_v _ _ (il_view _ _ I))).
  apply (esm_redeem_loop_inv02 c ext lc app _ Hnd l l' I J); [|exact H].
  intros v Hv. apply (gfind_self v_id); assumption.
Qed.

(* ---------- every step, every history ---------- *)
Theorem lrun_inv02 c ext lc l o l' : cfg_ok c -> lop_ok l o -> InvL c l -> Inv02L c ext l -> lrun c lc l o = Ok l' -> Inv02L c ext l'.
Proof.
  intros CK Hok I J H. destruct o; cbn [lrun lop_ok] in *.
  - destruct (run c (vs l) o) as [s'| |] eqn:R; try discriminate H. injection H as <-. exact (vop_inv02 c ext l o s' CK Hok I J R).
  - exact (liquidate_inv02 c ext lc l id ienv true keeper l' I J H).
  - injection H as <-. exact (sweep_inv02 c ext lc items CK l I J).
  - exact (bid_inv02 c ext lc l aid who paid recv closed exh topup l' (proj1 Hok) I J H).
  - injection H as <-. apply auc_tick_inv02; [exact I|exact J].
  - exact (esm_redeem_inv02 c ext lc l app l' I J H).
Qed.

Theorem history_inv02L c ext lc ops : cfg_ok c -> forall l, hist_ok c lc l ops -> InvL c l -> Inv02L c ext l ->
  InvL c (lrun_all c lc ops l) /\ Inv02L c ext (lrun_all c lc ops l).
Proof.
  intros CK. induction ops as [|o ops IH]; intros l HO I J; [split; assumption|].
  destruct HO as [Ho HO]. cbn [lrun_all fold_left]. apply IH; [exact HO|apply lstep_invL; assumption|].
  destruct (lstep_cases c lc l o) as [(l' & H & ->)|[_ ->]]; [|exact J].
  exact (lrun_inv02 c ext lc l o l' CK Ho I J H).
Qed.

Lemma inv02L_init c b sp t pr : Inv02L c sp (lift (init b sp t pr)).
Proof. intros d. unfold recorded_d, debt_sum, lock_prin_d. cbn. split; lia. Qed.

Theorem inv02L_holds c ext l denoms : Inv02L c ext l -> holds_C02_life c ext denoms l = true.
Proof.
  intros J. unfold holds_C02_life. apply forallb_forall. intros d _. unfold c02l_backing. destruct (J d) as [J1 J2]. apply Z.leb_le. lia.
Qed.

(* ---------- histories without liquidations: exact equality ---------- *)
Definition NoSeized (l : lstate) : Prop := lks l = [] /\ forall d, over l d = 0.

Lemma tick_one_noseized lc l aid l' : lks l = [] -> tick_one lc l aid = Ok l' -> lks l' = [] /\ over l' = over l.
Proof.
  intros Hl H. unfold tick_one in H. cbv zeta in H.
  destruct (find_au (aus l) aid) as [a|]; [|injection H as <-; split; [first [exact Hl|reflexivity]|reflexivity]].
  rewrite Hl in H. cbn [find_lk gfind] in H.
  destruct (e_status _); destruct (now (vs l) >? au_end a); try (injection H as <-; split; [first [exact Hl|reflexivity]|reflexivity]).
  do 3 exec1 H. injection H as <-. split; [first [exact Hl|reflexivity]|reflexivity].
Qed.

Lemma auc_tick_noseized lc l : NoSeized l -> NoSeized (auc_tick lc l).
Proof.
  unfold auc_tick. generalize (map au_id (aus l)) as ids. intros ids. revert l.
  induction ids as [|aid ids IH]; intros l N; cbn [fold_left]; [exact N|].
  destruct (tick_one lc l aid) as [l1| |] eqn:T; cbn [keep]; try exact (IH l N).
  destruct N as [N1 N2]. destruct (tick_one_noseized lc l aid l1 N1 T) as [T1 T2]. apply IH. split; [exact T1|]. rewrite T2. exact N2.
Qed.

Lemma esm_redeem_loop_noseized c lc app vl : forall l l', NoSeized l -> esm_redeem_loop c lc app vl l = Ok l' -> NoSeized l'.
Proof.
  induction vl as [|v vl IH]; intros l l' N H; cbn [esm_redeem_loop] in H; [injection H as <-; exact N|].
  destruct (esm_redeem_one c lc app l v) as [l1| |] eqn:E1; cbn [obind] in H; try discriminate H.
  apply (IH l1 l'); [|exact H].
  destruct (esm_redeem_one_shape c lc app l v l1 E1) as [->|(e & _ & _ & _ & _ & Hl & _ & Ho)]; [exact N|].
  destruct N as [N1 N2]. split; [rewrite Hl; exact N1|rewrite Ho; exact N2].
Qed.

Lemma lrun_noseized c lc l o l' : is_liq o = false -> NoSeized l -> lrun c lc l o = Ok l' -> NoSeized l'.
Proof.
  intros Hn N H. destruct o; cbn [lrun is_liq] in *; try discriminate Hn.
  - destruct (run c (vs l) o) as [s'| |]; try discriminate H. injection H as <-. exact N.
  - exfalso. unfold bid in H. destruct (find_au (aus l) aid) as [a|]; [|discriminate H].
    rewrite (proj1 N) in H. cbn [find_lk gfind] in H. discriminate H.
  - injection H as <-. exact (auc_tick_noseized lc l N).
  - exact (esm_redeem_loop_noseized c lc app _ l l' N H).
Qed.

Theorem history_exact c ext lc ops : cfg_ok c -> Forall (fun o => is_liq o = false) ops ->
  forall l, hist_ok c lc l ops -> InvL c l -> Inv02L c ext l -> NoSeized l ->
  forall d, sup (vs (lrun_all c lc ops l)) d - ext d = recorded_d c (lrun_all c lc ops l) d.
Proof.
  intros CK HN l HO I J N.
  assert (G : NoSeized (lrun_all c lc ops l)).
  { revert l HO I J N. induction HN as [|o ops Ho HN IH]; intros l HO I J N; [exact N|].
    destruct HO as [Hok HO]. cbn [lrun_all fold_left].
    assert (I1 : InvL c (lstep c lc l o)) by (apply lstep_invL; assumption).
    destruct (lstep_cases c lc l o) as [(l' & H & E)|[_ E]]; rewrite E in *.
    - apply (IH l' HO I1 (lrun_inv02 c ext lc l o l' CK Hok I J H)). exact (lrun_noseized c lc l o l' Ho N H).
    - exact (IH l HO I J N). }
  destruct (history_inv02L c ext lc ops CK l HO I J) as [_ J']. intros d. destruct (J' d) as [J1 _]. rewrite (proj2 G d) in J1. lia.
Qed.

(* ---------- the settlement burns exactly the seized vault's debt ---------- *)
Theorem bid_settle_law c lc l aid who paid recv closed exh topup l' denoms : who <> VAULT -> InvL c l ->
  bid lc l aid who paid recv closed exh topup = Ok l' -> holds_C02_settle denoms l aid closed l' = true.
Proof.
  intros Hw I H.
  assert (HL : forall k, In k (lks l) -> lk_owner k <> VAULT /\ (lk_intk k = true -> lk_keeper k <> VAULT)).
  { intros k Hk. destruct (il_lk _ _ I k Hk) as (H1 & H2 & _). split; assumption. }
  destruct (bid_spec lc l aid who paid recv closed exh topup l' Hw HL H) as (a & lk & Ma & Mk & Hc).
  unfold holds_C02_settle. rewrite Ma, Mk. apply forallb_forall. intros d _.
  destruct closed.
  - destruct Hc as (s' & r' & -> & B & Hd & Hs). unfold closes. cbn [vs andb].
    assert (Hss : forall x, sup (upd_coll (upd_mint s' (au_app a) (lk_pair lk) (lk_debt lk) false) (au_app a) (lk_pair lk) (lk_coll lk) false) x = sup s' x).
    { intros x. unfold upd_coll, upd_mint. repeat (match goal with |- context [match ?y with _ => _ end] => destruct y end; ssimpl); reflexivity. }
    assert (Hbb : forall x, bal (upd_coll (upd_mint s' (au_app a) (lk_pair lk) (lk_debt lk) false) (au_app a) (lk_pair lk) (lk_coll lk) false) VAULT x = bal s' VAULT x).
    { intros x. unfold upd_coll, upd_mint. repeat (match goal with |- context [match ?y with _ => _ end] => destruct y end; ssimpl); reflexivity. }
    rewrite Hss, Hbb, Hs, (bs_cust _ _ B). unfold at1. rewrite Z.eqb_refl, andb_true_r. apply Z.eqb_eq. destruct (d =? au_cout a); lia.
  - destruct Hc as (s' & -> & B & Hs). cbn [vs andb]. rewrite Hs, (bs_cust _ _ B), Z.eqb_refl, andb_true_r. apply Z.eqb_eq. lia.
Qed.
