(* Invariants of the limit-bid model (Model/LimitBid.v): recorded total = sum of deposits, custody
   covers the deposits, every deposit >= 0 -- for every history that stays outside the two
   known-finding classes; a withdraw / cancel pays at most the depositor's own deposit. *)
From Comdex Require Import Lib.Base Lib.DecArith Lib.DecFacts Lib.FLedger Model.LimitBid.
From Coq Require Import ZifyBool.

(* ---------------- association lists ---------------- *)
Section AssocFacts.
  Context {K V : Type}.
  Variable eqb : K -> K -> bool.
  Hypothesis eqb_ok : forall a b, eqb a b = true <-> a = b.

  Lemma eqb_refl' a : eqb a a = true. Proof. apply eqb_ok. reflexivity. Qed.

  Lemma asum_aset (P : K -> V -> bool) (val : V -> Z) k v l :
    asum P val (aset eqb k v l) =
      asum P val l
      - (match aget eqb k l with Some v0 => if P k v0 then val v0 else 0 | None => 0 end)
      + (if P k v then val v else 0).
  Proof.
    induction l as [|[k' v'] r IH]; cbn [aset aget asum]; [lia|].
    destruct (eqb k k') eqn:E.
    - apply eqb_ok in E. subst k'. cbn [asum]. lia.
    - cbn [asum]. rewrite IH. lia.
  Qed.

  Lemma asum_adel (P : K -> V -> bool) (val : V -> Z) k l :
    asum P val (adel eqb k l) =
      asum P val l
      - (match aget eqb k l with Some v0 => if P k v0 then val v0 else 0 | None => 0 end).
  Proof.
    induction l as [|[k' v'] r IH]; cbn [adel aget asum]; [lia|].
    destruct (eqb k k') eqn:E.
    - apply eqb_ok in E. subst k'. lia.
    - cbn [asum]. rewrite IH. lia.
  Qed.

  Lemma aget_aset k' k v (l : list (K * V)) :
    aget eqb k' (aset eqb k v l) = if eqb k' k then Some v else aget eqb k' l.
  Proof.
    induction l as [|[k0 v0] r IH]; cbn [aset aget]; [reflexivity|].
    destruct (eqb k k0) eqn:E.
    - apply eqb_ok in E. subst k0. cbn [aget]. destruct (eqb k' k); reflexivity.
    - cbn [aget]. rewrite IH. destruct (eqb k' k0) eqn:E0, (eqb k' k) eqn:E1; try reflexivity.
      apply eqb_ok in E0, E1. subst. rewrite eqb_refl' in E. discriminate.
  Qed.

  Lemma Forall_aset (Q : K * V -> Prop) k v l : Q (k, v) -> Forall Q l -> Forall Q (aset eqb k v l).
  Proof.
    intros Hq. induction 1 as [|[k' v'] r Hx Hr IH]; cbn [aset]; [repeat constructor; exact Hq|].
    destruct (eqb k k'); constructor; auto.
  Qed.

  Lemma Forall_adel (Q : K * V -> Prop) k l : Forall Q l -> Forall Q (adel eqb k l).
  Proof.
    induction 1 as [|[k' v'] r Hx Hr IH]; cbn [adel]; [constructor|].
    destruct (eqb k k'); [exact Hr|constructor; auto].
  Qed.

  Lemma aget_Forall (Q : K * V -> Prop) k v l : Forall Q l -> aget eqb k l = Some v -> exists k', Q (k', v).
  Proof.
    induction 1 as [|[k' v'] r Hx Hr IH]; cbn [aget]; [discriminate|].
    destruct (eqb k k'); [intros E; injection E as <-; eauto|exact IH].
  Qed.
End AssocFacts.

Lemma keq_ok a b : keq a b = true <-> a = b.
Proof.
  destruct a as [a1 a2 a3 a4], b as [b1 b2 b3 b4]. unfold keq; cbn. split.
  - intros H. assert (a1 = b1 /\ a2 = b2 /\ a3 = b3 /\ a4 = b4) as (-> & -> & -> & ->) by lia. reflexivity.
  - intros E. injection E as -> -> -> ->. lia.
Qed.

Lemma meq_ok a b : meq a b = true <-> a = b.
Proof.
  destruct a as [a1 a2], b as [b1 b2]. unfold meq; cbn. split.
  - intros H. assert (a1 = b1 /\ a2 = b2) as (-> & ->) by lia. reflexivity.
  - intros E. injection E as -> ->. lia.
Qed.

Lemma meq_sym a b : meq a b = meq b a.
Proof. destruct a, b. unfold meq; cbn. lia. Qed.

(* ---------------- fees ---------------- *)
Lemma fee_bounds rate x fee : fee_of rate x = Some fee -> 0 <= rate <= P18 -> 0 <= x -> 0 <= fee <= x.
Proof.
  unfold fee_of, dmul_c, dtrunc_int_c, chk_dec, chk_int. rewrite dmul_int_exact_r.
  destruct (fits_dec (rate * x)); [|discriminate]. destruct (fits_int (dtrunc_int (rate * x))); [|discriminate].
  intros E Hr Hx. injection E as <-.
  destruct (dtrunc_int_bounds (rate * x) ltac:(nia)) as (H0 & H1 & _). pose proof P18_pos. nia.
Qed.

Definition fee_wf (c : cfg) : Prop :=
  0 <= closing_fee c <= P18 /\ 0 <= withdrawal_fee c <= P18.

(* ---------------- the invariant ---------------- *)
Definition nonneg (kr : key * lrec) : Prop := 0 <= r_amt (snd kr).

Definition LInv (l0 : ledger) (s : lstate) : Prop :=
  Forall nonneg (recs s) /\
  (forall m, tot m s = sum_market m s) /\
  (forall d, sum_denom d s <= led s MOD d - l0 MOD d).

(* the inputs of a step that the theorems are about: a bidder account, outside both
   known-finding classes, and (automatic fill) the Dutch settlement disburses no more of the
   module's debt coins than the limit record is charged -- C10's concern *)
Definition who_of (o : lop) : Z :=
  match o with
  | Deposit w _ _ _ _ _ | Cancel w _ _ _ | Withdraw w _ _ _ _ _ => w
  | AutoFill k _ _ _ => k_who k
  end.

Definition fill_env (s : lstate) (o : lop) : Prop :=
  match o with
  | AutoFill k D spent _ =>
      match aget keq k (recs s) with
      | Some r => spent <= (if r_amt r >=? D then D else r_amt r)
      | None => True
      end
  | _ => True
  end.

Definition clean (s : lstate) (o : lop) : Prop :=
  0 <= who_of o /\ kf_C11_1 s o = false /\ kf_C11_2 s o = false /\ fill_env s o.

Lemma linv_empty l0 : LInv l0 (lempty l0).
Proof. unfold LInv, lempty, tot, sum_market, sum_denom; cbn. repeat split; auto; lia. Qed.

Ltac eqb_cases :=
  repeat match goal with
         | |- context[Z.eqb ?p ?q] => destruct (Z.eqb_spec p q); subst
         | H : context[Z.eqb ?p ?q] |- _ => destruct (Z.eqb_spec p q); subst
         end; cbn [andb negb] in *.

Lemma tot_aset m' m v s r l :
  tot m' (mkL r (aset meq m v (totals s)) l) = if meq m' m then v else tot m' s.
Proof. unfold tot; cbn [totals]. rewrite (aget_aset meq meq_ok). destruct (meq m' m); reflexivity. Qed.

(* CancelLimitAuctionBid keeps the invariant and pays at most the own deposit *)
Lemma cancel_spec c l0 s who coll debt prem s' :
  fee_wf c -> LInv l0 s -> 0 <= who -> cancel c s who coll debt prem = Ok s' ->
  LInv l0 s' /\
  exists r fee, aget keq (mkK debt coll prem who) (recs s) = Some r /\ 0 <= fee <= r_amt r /\
    (forall acct d, acct <> MOD ->
       led s' acct d = led s acct d + (if (acct =? who) && (d =? r_denom r) then r_amt r - fee else 0)) /\
    tot (debt, coll) s' = tot (debt, coll) s - r_amt r.
Proof.
  intros [Hcf _] (Hnn & Htot & Hcus) Hw. unfold cancel, lift.
  destruct (prem <? 0); [discriminate|].
  set (k := mkK debt coll prem who).
  destruct (aget keq k (recs s)) as [r|] eqn:Hg; [|discriminate].
  destruct (aget_Forall keq nonneg k r (recs s) Hnn Hg) as [k' Hr]. unfold nonneg in Hr; cbn in Hr.
  assert (Hledger : forall fee l', 0 <= fee <= r_amt r ->
            (forall a x, l' a x = led s a x - (if (a =? MOD) && (x =? r_denom r) then r_amt r - fee else 0)
                                         + (if (a =? who) && (x =? r_denom r) then r_amt r - fee else 0)) ->
            LInv l0 (mkL (adel keq k (recs s)) (aset meq (debt, coll) (tot (debt, coll) s - r_amt r) (totals s)) l') /\
            exists r0 fee0, Some r = Some r0 /\ 0 <= fee0 <= r_amt r0 /\
              (forall acct d, acct <> MOD -> l' acct d = led s acct d + (if (acct =? who) && (d =? r_denom r0) then r_amt r0 - fee0 else 0)) /\
              tot (debt, coll) (mkL (adel keq k (recs s)) (aset meq (debt, coll) (tot (debt, coll) s - r_amt r) (totals s)) l')
                = tot (debt, coll) s - r_amt r0).
  { intros fee l' Hfee Hl'. split.
    - split; [apply Forall_adel; exact Hnn|]. split.
      + intros m. rewrite tot_aset. unfold sum_market; cbn [recs]. rewrite (asum_adel keq keq_ok), Hg.
        fold (sum_market m s). rewrite <- Htot. change (market k) with (debt, coll). rewrite (meq_sym m).
        destruct (meq (debt, coll) m) eqn:E; [apply meq_ok in E; subst m|]; lia.
      + intros d. unfold sum_denom; cbn [recs led]. rewrite (asum_adel keq keq_ok), Hg. fold (sum_denom d s).
        specialize (Hcus d). rewrite Hl'. unfold MOD in *. eqb_cases; lia.
    - exists r, fee. split; [reflexivity|]. split; [exact Hfee|]. split.
      + intros acct d Ha. rewrite Hl'. unfold MOD in *. eqb_cases; lia.
      + rewrite tot_aset. rewrite (proj2 (meq_ok _ _) eq_refl). reflexivity. }
  destruct (Z.gtb_spec (r_amt r) 0) as [Hpos|Hz].
  - destruct (fee_of (closing_fee c) (r_amt r)) as [fee|] eqn:Hf; [|discriminate].
    pose proof (fee_bounds _ _ _ Hf Hcf ltac:(lia)) as Hfee.
    destruct (send (led s) MOD who (r_denom r) (r_amt r - fee)) as [l'| |] eqn:S; try discriminate.
    apply send_spec in S. destruct S as (_ & _ & _ & S).
    intros E. injection E as <-. exact (Hledger fee l' Hfee S).
  - intros E. injection E as <-. assert (Hz0 : r_amt r = 0) by lia.
    refine (Hledger 0 (led s) ltac:(lia) _). intros a x. eqb_cases; lia.
Qed.

Lemma lstep_inv c l0 s o s' :
  fee_wf c -> LInv l0 s -> clean s o -> lstep c s o = Ok s' -> LInv l0 s'.
Proof.
  intros Hfw HI (Hw & K1 & K2 & Hfe). pose proof HI as (Hnn & Htot & Hcus).
  destruct o as [who coll debt prem denom amt|who coll debt prem|who coll debt prem denom amt|k D spent ok];
    cbn [lstep who_of kf_C11_1 kf_C11_2 fill_env] in *.
  - (* Deposit *)
    destruct ((coll =? 0) || (debt =? 0) || (amt <=? 0)) eqn:V; [discriminate|].
    destruct (prem >? MAX_PREMIUM); [discriminate|].
    destruct (denom_of c coll); [|discriminate]. destruct (denom_of c debt) as [dd|]; [|discriminate].
    destruct (negb (dd =? denom)); [discriminate|]. destruct (prem <? 0); [discriminate|].
    set (k := mkK debt coll prem who).
    assert (Hamt : 0 < amt) by lia.
    destruct (aget keq k (recs s)) as [r|] eqn:Hg.
    + destruct (Z.eqb_spec (r_denom r) denom) as [Ed|]; [|discriminate]. unfold lift.
      destruct (send (led s) who MOD denom amt) as [l'| |] eqn:S; try discriminate.
      apply send_spec in S. destruct S as (_ & _ & _ & S). intros E. injection E as <-.
      destruct (aget_Forall keq nonneg k r (recs s) Hnn Hg) as [k' Hr]. unfold nonneg in Hr; cbn in Hr.
      split; [apply Forall_aset; [unfold nonneg; cbn; lia|exact Hnn]|]. split.
      * intros m. rewrite tot_aset. unfold sum_market; cbn [recs]. rewrite (asum_aset keq keq_ok), Hg.
        fold (sum_market m s). rewrite <- Htot. change (market k) with (debt, coll); cbn [r_amt]. rewrite (meq_sym m).
        destruct (meq (debt, coll) m) eqn:E; [apply meq_ok in E; subst m|]; lia.
      * intros d. unfold sum_denom; cbn [recs led]. rewrite (asum_aset keq keq_ok), Hg. fold (sum_denom d s).
        specialize (Hcus d). rewrite S. cbn [r_amt r_denom]. unfold MOD in *. eqb_cases; lia.
    + unfold lift. destruct (send (led s) who MOD denom amt) as [l'| |] eqn:S; try discriminate.
      apply send_spec in S. destruct S as (_ & _ & _ & S). intros E. injection E as <-.
      split; [apply Forall_aset; [unfold nonneg; cbn; lia|exact Hnn]|]. split.
      * intros m. rewrite tot_aset. unfold sum_market; cbn [recs]. rewrite (asum_aset keq keq_ok), Hg.
        fold (sum_market m s). rewrite <- Htot. change (market k) with (debt, coll); cbn [r_amt]. rewrite (meq_sym m).
        destruct (meq (debt, coll) m) eqn:E; [apply meq_ok in E; subst m|]; lia.
      * intros d. unfold sum_denom; cbn [recs led]. rewrite (asum_aset keq keq_ok), Hg. fold (sum_denom d s).
        specialize (Hcus d). rewrite S. cbn [r_amt r_denom]. unfold MOD in *. eqb_cases; lia.
  - (* Cancel *)
    destruct ((coll =? 0) || (debt =? 0)); [discriminate|].
    intros C. exact (proj1 (cancel_spec c l0 s who coll debt prem s' Hfw HI Hw C)).
  - (* Withdraw, outside F1 *)
    destruct ((coll =? 0) || (debt =? 0) || (amt <=? 0)) eqn:V; [discriminate|].
    destruct (prem <? 0) eqn:Hp; [discriminate|].
    set (k := mkK debt coll prem who) in *.
    destruct (aget keq k (recs s)) as [r|] eqn:Hg; [|discriminate].
    destruct (Z.eqb_spec amt (r_amt r)) as [Ea|Na].
    + intros C. exact (proj1 (cancel_spec c l0 s who coll debt prem s' Hfw HI Hw C)).
    + assert (Hle : amt < r_amt r /\ denom = r_denom r /\ 0 < amt) by (cbn [negb] in K1; lia).
      destruct Hle as (Hle & -> & Hamt).
      destruct (Z.gtb_spec (r_amt r) 0) as [_|]; [|lia]. unfold lift.
      destruct (fee_of (withdrawal_fee c) amt) as [fee|] eqn:Hf; [|discriminate].
      pose proof (fee_bounds _ _ _ Hf (proj2 Hfw) ltac:(lia)) as Hfee.
      destruct (send (led s) MOD who (r_denom r) (amt - fee)) as [l'| |] eqn:S; try discriminate.
      apply send_spec in S. destruct S as (_ & _ & _ & S). intros E. injection E as <-.
      split; [apply Forall_aset; [unfold nonneg; cbn; lia|exact Hnn]|]. split.
      * intros m. rewrite tot_aset. unfold sum_market; cbn [recs]. rewrite (asum_aset keq keq_ok), Hg.
        fold (sum_market m s). rewrite <- Htot. change (market k) with (debt, coll); cbn [r_amt]. rewrite (meq_sym m).
        destruct (meq (debt, coll) m) eqn:E; [apply meq_ok in E; subst m|]; lia.
      * intros d. unfold sum_denom; cbn [recs led]. rewrite (asum_aset keq keq_ok), Hg. fold (sum_denom d s).
        specialize (Hcus d). rewrite S. cbn [r_amt r_denom]. unfold MOD in *. eqb_cases; lia.
  - (* AutoFill, outside F2 *)
    destruct (aget keq k (recs s)) as [r|] eqn:Hg; [|intros E; injection E as <-; exact HI].
    destruct ok; cbn [negb andb] in *; [|discriminate]. unfold lift.
    destruct (burn_from (led s) MOD (r_denom r) spent) as [l'| |] eqn:S; try discriminate.
    apply burn_spec in S. destruct S as (Hsp & S).
    destruct (aget_Forall keq nonneg k r (recs s) Hnn Hg) as [k' Hr]. unfold nonneg in Hr; cbn in Hr.
    destruct (Z.geb_spec (r_amt r) D) as [Hge|Hlt].
    + destruct (Z.eqb_spec (r_amt r) D) as [|Hne]; [discriminate|].
      intros E. injection E as <-.
      split; [apply Forall_aset; [unfold nonneg; cbn; lia|exact Hnn]|]. split.
      * intros m. rewrite tot_aset. unfold sum_market; cbn [recs]. rewrite (asum_aset keq keq_ok), Hg.
        fold (sum_market m s). rewrite <- Htot. cbn [r_amt]. rewrite (meq_sym m).
        destruct (meq (market k) m) eqn:E; [apply meq_ok in E; subst m|]; lia.
      * intros d. unfold sum_denom; cbn [recs led]. rewrite (asum_aset keq keq_ok), Hg. fold (sum_denom d s).
        specialize (Hcus d). rewrite S. cbn [r_amt r_denom]. unfold MOD in *. eqb_cases; lia.
    + intros E. injection E as <-.
      split; [apply Forall_adel; exact Hnn|]. split.
      * intros m. rewrite tot_aset. unfold sum_market; cbn [recs]. rewrite (asum_adel keq keq_ok), Hg.
        fold (sum_market m s). rewrite <- Htot. rewrite (meq_sym m).
        destruct (meq (market k) m) eqn:E; [apply meq_ok in E; subst m|]; lia.
      * intros d. unfold sum_denom; cbn [recs led]. rewrite (asum_adel keq keq_ok), Hg. fold (sum_denom d s).
        specialize (Hcus d). rewrite S. unfold MOD in *. eqb_cases; lia.
Qed.

(* histories that stay outside the known-finding classes *)
Fixpoint clean_run (c : cfg) (s : lstate) (ops : list lop) : Prop :=
  match ops with
  | [] => True
  | o :: r => clean s o /\ clean_run c (lapply c s o) r
  end.

Theorem lrun_inv c l0 ops : forall s,
  fee_wf c -> LInv l0 s -> clean_run c s ops -> LInv l0 (lrun c s ops).
Proof.
  induction ops as [|o r IH]; intros s Hfw HI Hc; [exact HI|].
  destruct Hc as [Hco Hcr]. cbn [lrun fold_left]. apply IH; auto.
  unfold lapply in *. destruct (lstep c s o) as [s'| |] eqn:E; auto.
  exact (lstep_inv c l0 s o s' Hfw HI Hco E).
Qed.

(* the invariant implies the executable predicates the runner evaluates *)
Lemma linv_holds l0 s : LInv l0 s ->
  (forall m, holds_C11_limit_total s m = true) /\
  (forall d, holds_C11_limit_custody s d (l0 MOD d) = true).
Proof.
  intros (Hnn & Htot & Hcus). split.
  - intros m. unfold holds_C11_limit_total. rewrite Htot. apply Z.eqb_refl.
  - intros d. unfold holds_C11_limit_custody. specialize (Hcus d).
    assert (nonneg_denom d s = true).
    { unfold nonneg_denom. apply forallb_forall. intros kr Hin.
      rewrite Forall_forall in Hnn. specialize (Hnn kr Hin). unfold nonneg in Hnn. lia. }
    lia.
Qed.

(* own deposit only *)
Theorem withdraw_own c l0 s who coll debt prem denom amt s' :
  fee_wf c -> LInv l0 s -> 0 <= who ->
  kf_C11_1 s (Withdraw who coll debt prem denom amt) = false ->
  lstep c s (Withdraw who coll debt prem denom amt) = Ok s' ->
  exists r x fee, aget keq (mkK debt coll prem who) (recs s) = Some r /\
    0 <= x <= r_amt r /\ 0 <= fee <= x /\ x = amt /\
    (forall acct d, acct <> MOD ->
       led s' acct d = led s acct d + (if (acct =? who) && (d =? r_denom r) then x - fee else 0)) /\
    tot (debt, coll) s' = tot (debt, coll) s - x.
Proof.
  intros Hfw HI Hw K1. pose proof HI as (Hnn & Htot & Hcus). cbn [lstep kf_C11_1] in *.
  destruct ((coll =? 0) || (debt =? 0) || (amt <=? 0)) eqn:V; [discriminate|].
  destruct (prem <? 0) eqn:Hp; [discriminate|].
  set (k := mkK debt coll prem who) in *.
  destruct (aget keq k (recs s)) as [r|] eqn:Hg; [|discriminate].
  destruct (Z.eqb_spec amt (r_amt r)) as [Ea|Na].
  - intros C. destruct (cancel_spec c l0 s who coll debt prem s' Hfw HI Hw C) as (_ & r0 & fee & Hg0 & Hfee & Hl & Ht).
    fold k in Hg0. rewrite Hg in Hg0. injection Hg0 as <-.
    exists r, (r_amt r), fee. repeat split; try lia; auto.
  - assert (Hle : amt < r_amt r /\ denom = r_denom r /\ 0 < amt) by (cbn [negb] in K1; lia).
    destruct Hle as (Hle & -> & Hamt).
    destruct (Z.gtb_spec (r_amt r) 0) as [_|]; [|lia]. unfold lift.
    destruct (fee_of (withdrawal_fee c) amt) as [fee|] eqn:Hf; [|discriminate].
    pose proof (fee_bounds _ _ _ Hf (proj2 Hfw) ltac:(lia)) as Hfee.
    destruct (send (led s) MOD who (r_denom r) (amt - fee)) as [l'| |] eqn:S; try discriminate.
    apply send_spec in S. destruct S as (_ & _ & _ & S). intros E. injection E as <-.
    exists r, amt, fee. repeat split; try lia.
    + intros acct d Ha. cbn [led]. rewrite S. unfold MOD in *. eqb_cases; lia.
    + rewrite tot_aset. rewrite (proj2 (meq_ok _ _) eq_refl). reflexivity.
Qed.
