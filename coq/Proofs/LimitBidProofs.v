(* Invariants of the limit-bid model (Model/LimitBid.v, the repaired code): recorded total = sum of
   deposits and every deposit >= 0 in EVERY reachable state (no hypothesis on the history);
   custody covers the deposits for every history of messages by bidder accounts and automatic
   fills whose Dutch settlement disburses no more than the records are charged; a withdraw /
   cancel pays at most the depositor's own deposit, in the deposited denom. *)
From Comdex Require Import Lib.Base Lib.DecArith Lib.DecFacts Lib.FLedger Model.LimitBid.
From Coq Require Import ZifyBool.

(* ---------------- association lists ---------------- *)
Section AssocFacts.
  Context {K V : Type}.
  Variable eqb : K -> K -> bool.
  Hypothesis eqb_ok : forall a b, eqb a b = true <-> a = b.

  Lemma eqb_refl' a : eqb a a = true. Proof. apply eqb_ok. reflexivity. Qed.

  Lemma asum_aset (P : K -> V -> bool) (val : V -> Z) k v l :
    asum P val (aset eqb k v l) =
      asum P val l
      - (match aget eqb k l with Some v0 => if P k v0 then val v0 else 0 | None => 0 end)
      + (if P k v then val v else 0).
  Proof.
    induction l as [|[k' v'] r IH]; cbn [aset aget asum]; [lia|].
    destruct (eqb k k') eqn:E.
    - apply eqb_ok in E. subst k'. cbn [asum]. lia.
    - cbn [asum]. rewrite IH. lia.
  Qed.

  Lemma asum_adel (P : K -> V -> bool) (val : V -> Z) k l :
    asum P val (adel eqb k l) =
      asum P val l
      - (match aget eqb k l with Some v0 => if P k v0 then val v0 else 0 | None => 0 end).
  Proof.
    induction l as [|[k' v'] r IH]; cbn [adel aget asum]; [lia|].
    destruct (eqb k k') eqn:E.
    - apply eqb_ok in E. subst k'. lia.
    - cbn [asum]. rewrite IH. lia.
  Qed.

  Lemma aget_aset k' k v (l : list (K * V)) :
    aget eqb k' (aset eqb k v l) = if eqb k' k then Some v else aget eqb k' l.
  Proof.
    induction l as [|[k0 v0] r IH]; cbn [aset aget]; [reflexivity|].
    destruct (eqb k k0) eqn:E.
    - apply eqb_ok in E. subst k0. cbn [aget]. destruct (eqb k' k); reflexivity.
    - cbn [aget]. rewrite IH. destruct (eqb k' k0) eqn:E0, (eqb k' k) eqn:E1; try reflexivity.
      apply eqb_ok in E0, E1. subst. rewrite eqb_refl' in E. discriminate.
  Qed.

  Lemma Forall_aset (Q : K * V -> Prop) k v l : Q (k, v) -> Forall Q l -> Forall Q (aset eqb k v l).
  Proof.
    intros Hq. induction 1 as [|[k' v'] r Hx Hr IH]; cbn [aset]; [repeat constructor; exact Hq|].
    destruct (eqb k k'); constructor; auto.
  Qed.

  Lemma Forall_adel (Q : K * V -> Prop) k l : Forall Q l -> Forall Q (adel eqb k l).
  Proof.
    induction 1 as [|[k' v'] r Hx Hr IH]; cbn [adel]; [constructor|].
    destruct (eqb k k'); [exact Hr|constructor; auto].
  Qed.

  Lemma aget_Forall (Q : K * V -> Prop) k v l : Forall Q l -> aget eqb k l = Some v -> exists k', Q (k', v).
  Proof.
    induction 1 as [|[k' v'] r Hx Hr IH]; cbn [aget]; [discriminate|].
    destruct (eqb k k'); [intros E; injection E as <-; eauto|exact IH].
  Qed.

  Lemma aget_Forall_key (Q : K * V -> Prop) k v l : Forall Q l -> aget eqb k l = Some v -> Q (k, v).
  Proof.
    induction 1 as [|[k' v'] r Hx Hr IH]; cbn [aget]; [discriminate|].
    destruct (eqb k k') eqn:E; [|exact IH].
    apply eqb_ok in E. subst k'. intros E; injection E as <-. exact Hx.
  Qed.
End AssocFacts.

Lemma keq_ok a b : keq a b = true <-> a = b.
Proof.
  destruct a as [a1 a2 a3 a4], b as [b1 b2 b3 b4]. unfold keq; cbn. split.
  - intros H. assert (a1 = b1 /\ a2 = b2 /\ a3 = b3 /\ a4 = b4) as (-> & -> & -> & ->) by lia. reflexivity.
  - intros E. injection E as -> -> -> ->. lia.
Qed.

Lemma meq_ok a b : meq a b = true <-> a = b.
Proof.
  destruct a as [a1 a2], b as [b1 b2]. unfold meq; cbn. split.
  - intros H. assert (a1 = b1 /\ a2 = b2) as (-> & ->) by lia. reflexivity.
  - intros E. injection E as -> ->. lia.
Qed.

Lemma meq_sym a b : meq a b = meq b a.
Proof. destruct a, b. unfold meq; cbn. lia. Qed.

(* ---------------- fees ---------------- *)
Lemma fee_bounds rate x fee : fee_of rate x = Some fee -> 0 <= rate <= P18 -> 0 <= x -> 0 <= fee <= x.
Proof.
  unfold fee_of, dmul_c, dtrunc_int_c, chk_dec, chk_int. rewrite dmul_int_exact_r.
  destruct (fits_dec (rate * x)); [|discriminate]. destruct (fits_int (dtrunc_int (rate * x))); [|discriminate].
  intros E Hr Hx. injection E as <-.
  destruct (dtrunc_int_bounds (rate * x) ltac:(nia)) as (H0 & H1 & _). pose proof P18_pos. nia.
Qed.

Definition fee_wf (c : cfg) : Prop :=
  0 <= closing_fee c <= P18 /\ 0 <= withdrawal_fee c <= P18.

(* ---------------- the invariants ---------------- *)
Definition nonneg (kr : key * lrec) : Prop := 0 <= r_amt (snd kr).
(* a record holds the denom of its market's debt asset ("in the deposited asset") *)
Definition denom_ok (c : cfg) (kr : key * lrec) : Prop := denom_of c (k_debt (fst kr)) = Some (r_denom (snd kr)).

(* bookkeeping: holds in every reachable state, whatever the history *)
Definition LInvB (c : cfg) (s : lstate) : Prop :=
  Forall nonneg (recs s) /\ Forall (denom_ok c) (recs s) /\ (forall m, tot m s = sum_market m s).

(* custody, relative to what the module held when the history started *)
Definition LInvC (l0 : ledger) (s : lstate) : Prop :=
  forall d, sum_denom d s <= led s MOD d - l0 MOD d.

Definition LInv (c : cfg) (l0 : ledger) (s : lstate) : Prop := LInvB c s /\ LInvC l0 s.

(* the environment of a step that the custody theorem is about: messages are sent by bidder
   accounts (not by the module account itself), and the Dutch settlement of an automatic fill
   disburses no more of the module's debt coins than the limit records are charged -- C10's concern *)
Definition who_of (o : lop) : Z :=
  match o with
  | Deposit w _ _ _ _ _ | Cancel w _ _ _ | Withdraw w _ _ _ _ _ => w
  | AutoFill _ _ _ _ _ _ => 0
  end.

Definition fill_env (s : lstate) (o : lop) : Prop :=
  match o with
  | AutoFill debt coll prem fills spent _ =>
      match fill_recs debt coll prem fills s with Some (_, ch) => spent <= ch | None => True end
  | _ => True
  end.

Definition env_ok (s : lstate) (o : lop) : Prop := 0 <= who_of o /\ fill_env s o.

Lemma linv_empty c l0 : LInv c l0 (lempty l0).
Proof. unfold LInv, LInvB, LInvC, lempty, tot, sum_market, sum_denom; cbn. repeat split; auto; lia. Qed.

Ltac eqb_cases :=
  repeat match goal with
         | |- context[Z.eqb ?p ?q] => destruct (Z.eqb_spec p q); subst
         | H : context[Z.eqb ?p ?q] |- _ => destruct (Z.eqb_spec p q); subst
         end; cbn [andb negb] in *.

Lemma tot_aset m' m v s r l :
  tot m' (mkL r (aset meq m v (totals s)) l) = if meq m' m then v else tot m' s.
Proof. unfold tot; cbn [totals]. rewrite (aget_aset meq meq_ok). destruct (meq m' m); reflexivity. Qed.

(* a record of market (debt, coll) is written / deleted and the market total moves by the same amount *)
Lemma inv_tot_set s debt coll prem who r' v l' :
  (forall m, tot m s = sum_market m s) ->
  v = tot (debt, coll) s + r_amt r'
      - (match aget keq (mkK debt coll prem who) (recs s) with Some r0 => r_amt r0 | None => 0 end) ->
  forall m, let s' := mkL (aset keq (mkK debt coll prem who) r' (recs s)) (aset meq (debt, coll) v (totals s)) l' in
            tot m s' = sum_market m s'.
Proof.
  intros Htot Hv m s'. unfold s'. rewrite tot_aset. unfold sum_market; cbn [recs].
  rewrite (asum_aset keq keq_ok). fold (sum_market m s). rewrite <- Htot.
  change (market (mkK debt coll prem who)) with (debt, coll). rewrite (meq_sym m).
  destruct (aget keq (mkK debt coll prem who) (recs s)) as [r0|];
    (destruct (meq (debt, coll) m) eqn:E; [apply meq_ok in E; subst m|]); lia.
Qed.

Lemma inv_tot_del s debt coll prem who v l' :
  (forall m, tot m s = sum_market m s) ->
  v = tot (debt, coll) s
      - (match aget keq (mkK debt coll prem who) (recs s) with Some r0 => r_amt r0 | None => 0 end) ->
  forall m, let s' := mkL (adel keq (mkK debt coll prem who) (recs s)) (aset meq (debt, coll) v (totals s)) l' in
            tot m s' = sum_market m s'.
Proof.
  intros Htot Hv m s'. unfold s'. rewrite tot_aset. unfold sum_market; cbn [recs].
  rewrite (asum_adel keq keq_ok). fold (sum_market m s). rewrite <- Htot.
  change (market (mkK debt coll prem who)) with (debt, coll). rewrite (meq_sym m).
  destruct (aget keq (mkK debt coll prem who) (recs s)) as [r0|];
    (destruct (meq (debt, coll) m) eqn:E; [apply meq_ok in E; subst m|]); lia.
Qed.

Lemma sum_denom_set d k r' rs ts l' s :
  rs = aset keq k r' (recs s) ->
  sum_denom d (mkL rs ts l') =
    sum_denom d s
    - (match aget keq k (recs s) with Some r0 => if r_denom r0 =? d then r_amt r0 else 0 | None => 0 end)
    + (if r_denom r' =? d then r_amt r' else 0).
Proof. intros ->. unfold sum_denom; cbn [recs]. rewrite (asum_aset keq keq_ok). reflexivity. Qed.

Lemma sum_denom_del d k rs ts l' s :
  rs = adel keq k (recs s) ->
  sum_denom d (mkL rs ts l') =
    sum_denom d s
    - (match aget keq k (recs s) with Some r0 => if r_denom r0 =? d then r_amt r0 else 0 | None => 0 end).
Proof. intros ->. unfold sum_denom; cbn [recs]. rewrite (asum_adel keq keq_ok). reflexivity. Qed.

(* ---------------- CancelLimitAuctionBid ---------------- *)
(* what a successful cancel does: the record is deleted, the total drops by its amount, [paid]
   moves from the module to the bidder *)
Lemma cancel_shape c s who coll debt prem s' :
  cancel c s who coll debt prem = Ok s' ->
  exists r paid l', aget keq (mkK debt coll prem who) (recs s) = Some r /\
    s' = mkL (adel keq (mkK debt coll prem who) (recs s))
             (aset meq (debt, coll) (tot (debt, coll) s - r_amt r) (totals s)) l' /\
    0 <= paid /\
    (forall a x, l' a x = led s a x - (if (a =? MOD) && (x =? r_denom r) then paid else 0)
                                   + (if (a =? who) && (x =? r_denom r) then paid else 0)) /\
    ((paid = 0 /\ r_amt r <= 0) \/
     exists fee, fee_of (closing_fee c) (r_amt r) = Some fee /\ paid = r_amt r - fee /\ 0 < r_amt r).
Proof.
  unfold cancel, lift. destruct (prem <? 0); [discriminate|].
  set (k := mkK debt coll prem who).
  destruct (aget keq k (recs s)) as [r|] eqn:Hg; [|discriminate].
  destruct (Z.gtb_spec (r_amt r) 0) as [Hpos|Hz].
  - destruct (fee_of (closing_fee c) (r_amt r)) as [fee|] eqn:Hf; [|discriminate].
    destruct (send (led s) MOD who (r_denom r) (r_amt r - fee)) as [l'| |] eqn:S; try discriminate.
    apply send_spec in S. destruct S as (S0 & _ & _ & S).
    intros E. injection E as <-. exists r, (r_amt r - fee), l'. repeat split; auto.
    right. exists fee. auto.
  - intros E. injection E as <-. exists r, 0, (led s). repeat split; auto; try lia.
    intros a x. destruct ((a =? MOD) && (x =? r_denom r)), ((a =? who) && (x =? r_denom r)); lia.
Qed.

Lemma cancel_invB c s who coll debt prem s' :
  LInvB c s -> cancel c s who coll debt prem = Ok s' -> LInvB c s'.
Proof.
  intros (Hnn & Hdn & Htot) C. destruct (cancel_shape _ _ _ _ _ _ _ C) as (r & paid & l' & Hg & -> & _).
  split; [apply Forall_adel; exact Hnn|]. split; [apply Forall_adel; exact Hdn|].
  apply inv_tot_del; [exact Htot|]. rewrite Hg. reflexivity.
Qed.

(* with a well-formed fee the bidder is paid its own deposit minus the fee, nobody else anything *)
Lemma cancel_spec c s who coll debt prem s' :
  fee_wf c -> LInvB c s -> cancel c s who coll debt prem = Ok s' ->
  exists r fee, aget keq (mkK debt coll prem who) (recs s) = Some r /\ 0 <= fee <= r_amt r /\
    (forall a x, led s' a x = led s a x - (if (a =? MOD) && (x =? r_denom r) then r_amt r - fee else 0)
                                       + (if (a =? who) && (x =? r_denom r) then r_amt r - fee else 0)) /\
    sum_denom (r_denom r) s' = sum_denom (r_denom r) s - r_amt r /\
    (forall d, d <> r_denom r -> sum_denom d s' = sum_denom d s) /\
    tot (debt, coll) s' = tot (debt, coll) s - r_amt r.
Proof.
  intros [Hcf _] (Hnn & _ & _) C.
  destruct (cancel_shape _ _ _ _ _ _ _ C) as (r & paid & l' & Hg & -> & Hp & Hl & Hfee).
  pose proof (aget_Forall_key keq keq_ok nonneg _ _ _ Hnn Hg) as Hr. unfold nonneg in Hr; cbn in Hr.
  assert (Hex : exists fee, 0 <= fee <= r_amt r /\ paid = r_amt r - fee).
  { destruct Hfee as [(-> & Hz)|(fee & Hf & -> & Hpos)].
    - exists (r_amt r). lia.
    - exists fee. pose proof (fee_bounds _ _ _ Hf Hcf ltac:(lia)). lia. }
  destruct Hex as (fee & Hfb & ->). exists r, fee. split; [exact Hg|]. split; [exact Hfb|].
  split; [exact Hl|]. split; [|split].
  - rewrite (sum_denom_del _ _ _ _ _ s eq_refl), Hg, Z.eqb_refl. reflexivity.
  - intros d Hd. rewrite (sum_denom_del _ _ _ _ _ s eq_refl), Hg.
    destruct (Z.eqb_spec (r_denom r) d); [congruence|lia].
  - rewrite tot_aset, (proj2 (meq_ok _ _) eq_refl). reflexivity.
Qed.

Lemma cancel_invC c l0 s who coll debt prem s' :
  fee_wf c -> LInvB c s -> LInvC l0 s -> 0 <= who -> cancel c s who coll debt prem = Ok s' -> LInvC l0 s'.
Proof.
  intros Hfw HB HC Hw C d.
  destruct (cancel_spec _ _ _ _ _ _ _ Hfw HB C) as (r & fee & _ & Hfee & Hl & Hs1 & Hs2 & _).
  specialize (HC d). rewrite Hl. unfold MOD in *.
  destruct (Z.eqb_spec d (r_denom r)) as [->|Hd].
  - rewrite Hs1. eqb_cases; lia.
  - rewrite (Hs2 d Hd). eqb_cases; lia.
Qed.

(* ---------------- the automatic fill ---------------- *)
Definition denom_is (c : cfg) (asset d : Z) : bool :=
  match denom_of c asset with Some dd => dd =? d | None => false end.

Lemma fill_recs_spec c debt coll prem fills : forall s s' ch,
  fill_recs debt coll prem fills s = Some (s', ch) -> LInvB c s ->
  LInvB c s' /\ led s' = led s /\ 0 <= ch /\
  forall d, sum_denom d s' = sum_denom d s - (if denom_is c debt d then ch else 0).
Proof.
  induction fills as [|[w bid] rest IH]; intros s s' ch; cbn [fill_recs].
  - intros E HB. injection E as <- <-. split; [exact HB|]. split; [reflexivity|]. split; [lia|]. intros d. destruct (denom_is c debt d); lia.
  - set (k := mkK debt coll prem w).
    destruct (aget keq k (recs s)) as [r|] eqn:Hg; [|discriminate].
    destruct (Z.ltb_spec bid 0) as [|Hb0]; [discriminate|]. destruct (Z.gtb_spec bid (r_amt r)) as [|Hble]; [discriminate|].
    cbn [orb]. intros E HB. pose proof HB as (Hnn & Hdn & Htot).
    pose proof (aget_Forall_key keq keq_ok nonneg _ _ _ Hnn Hg) as Hr. unfold nonneg in Hr; cbn in Hr.
    pose proof (aget_Forall_key keq keq_ok (denom_ok c) _ _ _ Hdn Hg) as Hd. unfold denom_ok in Hd; cbn in Hd.
    assert (Hdi : forall d, denom_is c debt d = (r_denom r =? d)) by (intros d; unfold denom_is; rewrite Hd; reflexivity).
    match type of E with match fill_recs _ _ _ _ ?x with _ => _ end = _ => set (s1 := x) in * end.
    destruct (fill_recs debt coll prem rest s1) as [[s2 ch2]|] eqn:E2; [|discriminate]. injection E as <- <-.
    assert (HB1 : LInvB c s1 /\ forall d, sum_denom d s1 = sum_denom d s - (if denom_is c debt d then bid else 0)).
    { unfold s1. destruct (Z.eqb_spec bid (r_amt r)) as [He|Hne].
      - split.
        + split; [apply Forall_adel; exact Hnn|]. split; [apply Forall_adel; exact Hdn|].
          apply inv_tot_del; [exact Htot|]. fold k. rewrite Hg. lia.
        + intros d. rewrite (sum_denom_del _ k _ _ _ s eq_refl), Hg, Hdi. destruct (r_denom r =? d); lia.
      - split.
        + split; [apply Forall_aset; [unfold nonneg; cbn; lia|exact Hnn]|].
          split; [apply Forall_aset; [exact Hd|exact Hdn]|].
          apply inv_tot_set; [exact Htot|]. fold k. rewrite Hg. cbn [r_amt]. lia.
        + intros d. rewrite (sum_denom_set _ k _ _ _ _ s eq_refl), Hg, Hdi. cbn [r_amt r_denom].
          destruct (r_denom r =? d); lia. }
    destruct HB1 as (HB1 & Hs1).
    destruct (IH s1 s2 ch2 E2 HB1) as (HB2 & Hl2 & Hc2 & Hs2). split; [exact HB2|]. split; [rewrite Hl2; unfold s1; reflexivity|].
    split; [lia|]. intros d. rewrite Hs2, Hs1. destruct (denom_is c debt d); lia.
Qed.

(* the settlement moves the module's coins of one denom by exactly -spent, whatever the sign *)
Lemma settle_spec l d spent l' : settle l d spent = LOk l' ->
  forall a x, l' a x = l a x - (if (a =? MOD) && (x =? d) then spent else 0).
Proof.
  unfold settle. destruct (Z.ltb_spec spent 0).
  - intros E. injection E as <-. intros a x. rewrite mint_spec. destruct ((a =? MOD) && (x =? d)); lia.
  - intros S. apply burn_spec in S. exact (proj2 S).
Qed.

(* ---------------- one step ---------------- *)
(* bookkeeping is preserved by EVERY successful step: no hypothesis on the operation *)
Lemma lstep_invB c s o s' : LInvB c s -> lstep c s o = Ok s' -> LInvB c s'.
Proof.
  intros HB. pose proof HB as (Hnn & Hdn & Htot).
  destruct o as [who coll debt prem denom amt|who coll debt prem|who coll debt prem denom amt|debt coll prem fills spent ok];
    cbn [lstep].
  - (* Deposit *)
    destruct ((coll =? 0) || (debt =? 0) || (amt <=? 0)) eqn:V; [discriminate|].
    destruct (prem >? MAX_PREMIUM); [discriminate|].
    destruct (denom_of c coll); [|discriminate]. destruct (denom_of c debt) as [dd|] eqn:Hdd; [|discriminate].
    destruct (Z.eqb_spec dd denom) as [->|]; cbn [negb]; [|discriminate]. destruct (prem <? 0); [discriminate|].
    set (k := mkK debt coll prem who).
    assert (Hamt : 0 < amt) by lia. unfold lift.
    destruct (aget keq k (recs s)) as [r|] eqn:Hg.
    + destruct (Z.eqb_spec (r_denom r) denom) as [Ed|]; [|discriminate].
      destruct (send (led s) who MOD denom amt) as [l'| |]; try discriminate. intros E. injection E as <-.
      pose proof (aget_Forall_key keq keq_ok nonneg _ _ _ Hnn Hg) as Hr. unfold nonneg in Hr; cbn in Hr.
      split; [apply Forall_aset; [unfold nonneg; cbn; lia|exact Hnn]|].
      split; [apply Forall_aset; [exact Hdd|exact Hdn]|].
      apply inv_tot_set; [exact Htot|]. fold k. rewrite Hg. cbn [r_amt]. lia.
    + destruct (send (led s) who MOD denom amt) as [l'| |]; try discriminate. intros E. injection E as <-.
      split; [apply Forall_aset; [unfold nonneg; cbn; lia|exact Hnn]|].
      split; [apply Forall_aset; [exact Hdd|exact Hdn]|].
      apply inv_tot_set; [exact Htot|]. fold k. rewrite Hg. cbn [r_amt]. lia.
  - (* Cancel *)
    destruct ((coll =? 0) || (debt =? 0)); [discriminate|]. apply cancel_invB. exact HB.
  - (* Withdraw *)
    destruct ((coll =? 0) || (debt =? 0) || (amt <=? 0)) eqn:V; [discriminate|].
    destruct (prem <? 0); [discriminate|].
    set (k := mkK debt coll prem who).
    destruct (aget keq k (recs s)) as [r|] eqn:Hg; [|discriminate].
    destruct (Z.eqb_spec denom (r_denom r)) as [->|]; cbn [negb]; [|discriminate].
    destruct (Z.gtb_spec amt (r_amt r)) as [|Hle]; [discriminate|].
    destruct (Z.eqb_spec amt (r_amt r)) as [Ea|Na]; [apply cancel_invB; exact HB|].
    pose proof (aget_Forall_key keq keq_ok (denom_ok c) _ _ _ Hdn Hg) as Hd. unfold denom_ok in Hd; cbn in Hd.
    match goal with |- match ?X with _ => _ end = _ -> _ => destruct X as [l'| |]; try discriminate end.
    intros E. injection E as <-.
    split; [apply Forall_aset; [unfold nonneg; cbn; lia|exact Hnn]|].
    split; [apply Forall_aset; [exact Hd|exact Hdn]|].
    apply inv_tot_set; [exact Htot|]. fold k. rewrite Hg. cbn [r_amt]. lia.
  - (* AutoFill *)
    destruct ok; cbn [negb]; [|discriminate].
    destruct (fill_recs debt coll prem fills s) as [[s1 ch]|] eqn:E1; [|discriminate].
    destruct (fill_recs_spec c _ _ _ _ _ _ _ E1 HB) as (HB1 & _ & _).
    destruct (denom_of c debt) as [dd|]; [|intros E; injection E as <-; exact HB1].
    unfold lift. destruct (settle (led s1) dd spent) as [l'| |]; try discriminate.
    intros E. injection E as <-. exact HB1.
Qed.

(* custody is preserved by the steps of the environment described by [env_ok] *)
Lemma lstep_invC c l0 s o s' :
  fee_wf c -> LInvB c s -> LInvC l0 s -> env_ok s o -> lstep c s o = Ok s' -> LInvC l0 s'.
Proof.
  intros Hfw HB HC (Hw & Hfe). pose proof HB as (Hnn & Hdn & Htot).
  destruct o as [who coll debt prem denom amt|who coll debt prem|who coll debt prem denom amt|debt coll prem fills spent ok];
    cbn [lstep who_of fill_env] in *.
  - (* Deposit *)
    destruct ((coll =? 0) || (debt =? 0) || (amt <=? 0)) eqn:V; [discriminate|].
    destruct (prem >? MAX_PREMIUM); [discriminate|].
    destruct (denom_of c coll); [|discriminate]. destruct (denom_of c debt) as [dd|]; [|discriminate].
    destruct (negb (dd =? denom)); [discriminate|]. destruct (prem <? 0); [discriminate|].
    set (k := mkK debt coll prem who).
    assert (Hamt : 0 < amt) by lia. unfold lift.
    destruct (aget keq k (recs s)) as [r|] eqn:Hg.
    + destruct (Z.eqb_spec (r_denom r) denom) as [Ed|]; [|discriminate].
      destruct (send (led s) who MOD denom amt) as [l'| |] eqn:S; try discriminate.
      apply send_spec in S. destruct S as (_ & _ & _ & S). intros E. injection E as <-.
      intros d. rewrite (sum_denom_set _ k _ _ _ _ s eq_refl), Hg. specialize (HC d). cbn [led r_amt r_denom].
      rewrite S. unfold MOD in *. eqb_cases; lia.
    + destruct (send (led s) who MOD denom amt) as [l'| |] eqn:S; try discriminate.
      apply send_spec in S. destruct S as (_ & _ & _ & S). intros E. injection E as <-.
      intros d. rewrite (sum_denom_set _ k _ _ _ _ s eq_refl), Hg. specialize (HC d). cbn [led r_amt r_denom].
      rewrite S. unfold MOD in *. eqb_cases; lia.
  - (* Cancel *)
    destruct ((coll =? 0) || (debt =? 0)); [discriminate|]. apply cancel_invC; assumption.
  - (* Withdraw *)
    destruct ((coll =? 0) || (debt =? 0) || (amt <=? 0)) eqn:V; [discriminate|].
    destruct (prem <? 0); [discriminate|].
    set (k := mkK debt coll prem who).
    destruct (aget keq k (recs s)) as [r|] eqn:Hg; [|discriminate].
    destruct (Z.eqb_spec denom (r_denom r)) as [->|]; cbn [negb]; [|discriminate].
    destruct (Z.gtb_spec amt (r_amt r)) as [|Hle]; [discriminate|].
    destruct (Z.eqb_spec amt (r_amt r)) as [Ea|Na]; [apply cancel_invC; assumption|].
    assert (Hamt : 0 < amt) by lia.
    destruct (Z.gtb_spec (r_amt r) 0) as [_|]; [|lia]. unfold lift.
    destruct (fee_of (withdrawal_fee c) amt) as [fee|] eqn:Hf; [|discriminate].
    pose proof (fee_bounds _ _ _ Hf (proj2 Hfw) ltac:(lia)) as Hfee.
    destruct (send (led s) MOD who (r_denom r) (amt - fee)) as [l'| |] eqn:S; try discriminate.
    apply send_spec in S. destruct S as (_ & _ & _ & S). intros E. injection E as <-.
    intros d. rewrite (sum_denom_set _ k _ _ _ _ s eq_refl), Hg. specialize (HC d). cbn [led r_amt r_denom].
    rewrite S. unfold MOD in *. eqb_cases; lia.
  - (* AutoFill *)
    destruct ok; cbn [negb]; [|discriminate].
    destruct (fill_recs debt coll prem fills s) as [[s1 ch]|] eqn:E1; [|discriminate].
    destruct (fill_recs_spec c _ _ _ _ _ _ _ E1 HB) as (_ & Hl1 & _ & Hs1).
    unfold denom_is in Hs1.
    destruct (denom_of c debt) as [dd|].
    + unfold lift. destruct (settle (led s1) dd spent) as [l'| |] eqn:S; try discriminate.
      pose proof (settle_spec _ _ _ _ S) as S'. clear S. rename S' into S. intros E. injection E as <-.
      intros d. specialize (HC d). specialize (Hs1 d). unfold sum_denom in *. cbn [recs led] in *.
      rewrite S, Hl1. unfold MOD in *. eqb_cases; lia.
    + intros E. injection E as <-. intros d. specialize (HC d). specialize (Hs1 d).
      rewrite Hl1. lia.
Qed.

Lemma lstep_inv c l0 s o s' :
  fee_wf c -> LInv c l0 s -> env_ok s o -> lstep c s o = Ok s' -> LInv c l0 s'.
Proof.
  intros Hfw (HB & HC) He E. split; [exact (lstep_invB c s o s' HB E)|exact (lstep_invC c l0 s o s' Hfw HB HC He E)].
Qed.

(* ---------------- histories ---------------- *)
Theorem lrun_invB c ops : forall s, LInvB c s -> LInvB c (lrun c s ops).
Proof.
  induction ops as [|o r IH]; intros s HB; [exact HB|].
  cbn [lrun fold_left]. apply IH. unfold lapply.
  destruct (lstep c s o) as [s'| |] eqn:E; auto. exact (lstep_invB c s o s' HB E).
Qed.

(* the environment hypothesis along a history *)
Fixpoint env_run (c : cfg) (s : lstate) (ops : list lop) : Prop :=
  match ops with
  | [] => True
  | o :: r => env_ok s o /\ env_run c (lapply c s o) r
  end.

Theorem lrun_inv c l0 ops : forall s,
  fee_wf c -> LInv c l0 s -> env_run c s ops -> LInv c l0 (lrun c s ops).
Proof.
  induction ops as [|o r IH]; intros s Hfw HI Hc; [exact HI|].
  destruct Hc as [Hco Hcr]. cbn [lrun fold_left]. apply IH; auto.
  unfold lapply in *. destruct (lstep c s o) as [s'| |] eqn:E; auto.
  exact (lstep_inv c l0 s o s' Hfw HI Hco E).
Qed.

(* histories of messages only: the environment hypothesis is just "sent by bidder accounts" *)
Definition is_msg (o : lop) : Prop :=
  match o with AutoFill _ _ _ _ _ _ => False | _ => 0 <= who_of o end.

Lemma env_run_msgs c ops : forall s, Forall is_msg ops -> env_run c s ops.
Proof.
  induction ops as [|o r IH]; intros s H; [exact I|]. inversion H as [|? ? Ho Hr]; subst.
  split; [|apply IH; exact Hr]. unfold env_ok.
  destruct o; cbn [is_msg who_of fill_env] in *; try contradiction; (split; [exact Ho|exact I]).
Qed.

(* the invariants imply the executable predicates the runner evaluates *)
Lemma linv_holds c l0 s : LInv c l0 s ->
  (forall m, holds_C11_limit_total s m = true) /\
  (forall d, holds_C11_limit_custody s d (l0 MOD d) = true).
Proof.
  intros ((Hnn & _ & Htot) & Hcus). split.
  - intros m. unfold holds_C11_limit_total. rewrite Htot. apply Z.eqb_refl.
  - intros d. unfold holds_C11_limit_custody. specialize (Hcus d).
    assert (nonneg_denom d s = true).
    { unfold nonneg_denom. apply forallb_forall. intros kr Hin.
      rewrite Forall_forall in Hnn. specialize (Hnn kr Hin). unfold nonneg in Hnn. lia. }
    lia.
Qed.

(* ---------------- own deposit only ---------------- *)
Theorem withdraw_own c s who coll debt prem denom amt s' :
  fee_wf c -> LInvB c s ->
  lstep c s (Withdraw who coll debt prem denom amt) = Ok s' ->
  exists r fee, aget keq (mkK debt coll prem who) (recs s) = Some r /\
    denom = r_denom r /\ 0 < amt <= r_amt r /\ 0 <= fee <= amt /\
    (forall acct d, acct <> MOD ->
       led s' acct d = led s acct d + (if (acct =? who) && (d =? r_denom r) then amt - fee else 0)) /\
    tot (debt, coll) s' = tot (debt, coll) s - amt.
Proof.
  intros Hfw HB. pose proof HB as (Hnn & Hdn & Htot). cbn [lstep].
  destruct ((coll =? 0) || (debt =? 0) || (amt <=? 0)) eqn:V; [discriminate|].
  destruct (prem <? 0) eqn:Hp; [discriminate|].
  set (k := mkK debt coll prem who) in *.
  destruct (aget keq k (recs s)) as [r|] eqn:Hg; [|discriminate].
  destruct (Z.eqb_spec denom (r_denom r)) as [->|]; cbn [negb]; [|discriminate].
  destruct (Z.gtb_spec amt (r_amt r)) as [|Hle]; [discriminate|].
  assert (Hamt : 0 < amt) by lia.
  destruct (Z.eqb_spec amt (r_amt r)) as [Ea|Na].
  - intros C. destruct (cancel_spec c s who coll debt prem s' Hfw HB C) as (r0 & fee & Hg0 & Hfee & Hl & _ & _ & Ht).
    fold k in Hg0. rewrite Hg in Hg0. injection Hg0 as <-.
    exists r, fee. repeat split; try lia; auto.
    intros acct d Ha. rewrite Hl. unfold MOD in *. eqb_cases; lia.
  - destruct (Z.gtb_spec (r_amt r) 0) as [_|]; [|lia]. unfold lift.
    destruct (fee_of (withdrawal_fee c) amt) as [fee|] eqn:Hf; [|discriminate].
    pose proof (fee_bounds _ _ _ Hf (proj2 Hfw) ltac:(lia)) as Hfee.
    destruct (send (led s) MOD who (r_denom r) (amt - fee)) as [l'| |] eqn:S; try discriminate.
    apply send_spec in S. destruct S as (_ & _ & _ & S). intros E. injection E as <-.
    exists r, fee. repeat split; try lia.
    + intros acct d Ha. cbn [led]. rewrite S. unfold MOD in *. eqb_cases; lia.
    + rewrite tot_aset. rewrite (proj2 (meq_ok _ _) eq_refl). reflexivity.
Qed.
