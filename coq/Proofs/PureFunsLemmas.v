(* Tie (C): lemmas and tactics shared by the equivalence theorems Properties/TieC*.v between the
   definitions regenerated from the Go source (Gen/PureFuns.v) and the hand-written models. *)
From Coq Require Import String.
From Comdex Require Import Lib.Base Lib.DecArith Lib.GoSem.

(* the monad laws the translator relies on *)
Lemma obind_ok_r : forall A (m : outcome A), obind m (fun v => Ok v) = m.
Proof. destruct m; reflexivity. Qed.

Lemma obind_assoc : forall A B C (m : outcome A) (f : A -> outcome B) (g : B -> outcome C),
  obind (obind m f) g = obind m (fun a => obind (f a) g).
Proof. destruct m; reflexivity. Qed.

(* option-valued models: None = the call panics (either class) *)
Lemma to_option_obind : forall A B (m : outcome A) (f : A -> outcome B),
  to_option (obind m f) = match to_option m with Some a => to_option (f a) | None => None end.
Proof. destruct m; reflexivity. Qed.

Lemma to_option_lift_ovf : forall o, to_option (lift_ovf o) = o.
Proof. destruct o; reflexivity. Qed.
Lemma to_option_lift_pan : forall o, to_option (lift_pan o) = o.
Proof. destruct o; reflexivity. Qed.

Lemma to_option_g_dquo : forall a b, to_option (g_dquo a b) = dquo_c a b.
Proof. intros; unfold g_dquo, dquo_c; destruct (b =? 0); [reflexivity | apply to_option_lift_ovf]. Qed.
Lemma to_option_g_dquo_trunc : forall a b, to_option (g_dquo_trunc a b) = dquo_trunc_c a b.
Proof. intros; unfold g_dquo_trunc, dquo_trunc_c; destruct (b =? 0); [reflexivity | apply to_option_lift_ovf]. Qed.
Lemma to_option_g_dquo_up : forall a b, to_option (g_dquo_up a b) = dquo_up_c a b.
Proof. intros; unfold g_dquo_up, dquo_up_c; destruct (b =? 0); [reflexivity | apply to_option_lift_ovf]. Qed.
Lemma to_option_g_dquo_int : forall a b, to_option (g_dquo_int a b) = dquo_int_c a b.
Proof. intros; unfold g_dquo_int, dquo_int_c; destruct (b =? 0); reflexivity. Qed.

Lemma collapse_to_option : forall A (m : outcome A),
  collapse m = match to_option m with Some v => Ok v | None => Panic end.
Proof. destruct m; reflexivity. Qed.

(* case analysis on the scrutinee of the first match / if of the goal, both sides at once *)
Ltac tie_case :=
  match goal with
  | |- context [match ?x with _ => _ end] =>
      match x with
      | context [match _ with _ => _ end] => fail 1
      | _ => destruct x eqn:?
      end
  end.
Ltac tie_auto := intros; repeat (reflexivity || (progress cbv beta iota zeta delta [andb orb negb]) || tie_case).

(* unfold the GoSem wrappers down to the Lib/DecArith operations the models are written in *)
Ltac unfold_gosem :=
  unfold g_dadd, g_dsub, g_dmul, g_dmul_trunc, g_dmul_up, g_dmul_int, g_dquo, g_dquo_trunc, g_dquo_up,
    g_dquo_int, g_dtrunc_int, g_dround_int, g_dtrunc_i64, g_dround_i64, g_dpower, g_sqrt,
    g_iadd, g_isub, g_imul, g_iquo, g_imod, g_int64, g_uint64, g_udiv, g_umod, g_sdiv, g_smod,
    safe_math, GoSem.lift_ovf, GoSem.lift_pan.
(* after the model's own helpers have been unfolded: same operations in the same order on both
   sides, so a case analysis on each operation's result in turn closes the goal *)
Ltac tie_solve := unfold_gosem; cbv [obind]; tie_auto.

(* "agree unless the code panics": left = the checked computation is None *)
Ltac agree_auto := intros; repeat (tie_case; cbv beta iota zeta); first [left; reflexivity | right; reflexivity].

(* value of a Go [error] result as the models number them: Ok _ = nil, Err c = the c-th error *)
Definition err_value (o : outcome unit) : outcome Z :=
  match o with Ok _ => Ok 0 | Err c => Ok c | Panic => Panic end.


(* ---------------- size facts about int64 / 256-bit / 315-bit values ---------------- *)
Lemma two63_lt_two256 : 9223372036854775808 < two256. Proof. vm_compute. reflexivity. Qed.
Lemma int64_dec_sum_lt : (9223372036854775808 * P18) + (9223372036854775808 * P18) < two315.
Proof. vm_compute. reflexivity. Qed.

Lemma int64_c_some : forall x y,
  int64_c x = Some y -> y = x /\ -9223372036854775808 <= x <= 9223372036854775807.
Proof. unfold int64_c; intros x y H. destruct (_ && _) eqn:E; inversion H; subst. split; [reflexivity|lia]. Qed.

(* an Int that does not fit 256 bits is not an int64 either: Int.Add's overflow panic and the
   Int64() panic the model has are the same observable (the call panics) *)
Lemma not_fits_int_int64 : forall x, fits_int x = false -> int64_c x = None.
Proof.
  unfold fits_int, int64_c; intros x H. pose proof two63_lt_two256.
  destruct (_ && _) eqn:E; [|reflexivity]. exfalso. lia.
Qed.

(* NewDec(int64).Add(NewDec(int64)) cannot exceed 315 bits *)
Lemma int64_dec_add_fits : forall a b,
  -9223372036854775808 <= a <= 9223372036854775807 -> -9223372036854775808 <= b <= 9223372036854775807 ->
  fits_dec (dec_of_int a + dec_of_int b) = true.
Proof.
  intros a b Ha Hb. unfold fits_dec, dec_of_int. pose proof int64_dec_sum_lt as K.
  assert (0 < P18) by (vm_compute; reflexivity).
  apply Z.ltb_lt. nia.
Qed.

(* (value, nil) *)
Definition pair0 (o : option Z) : option (Z * Z) := option_map (fun v => (v, 0)) o.

Lemma dec_of_int_eq0 : forall x, (dec_of_int x =? 0) = (x =? 0).
Proof.
  intros. unfold dec_of_int. assert (0 < P18) by (vm_compute; reflexivity).
  destruct (x =? 0) eqn:E.
  - apply Z.eqb_eq in E. subst. reflexivity.
  - apply Z.eqb_neq in E. apply Z.eqb_neq. nia.
Qed.

Lemma int64_fits_int : forall x, int64_c x = Some x -> fits_int x = true.
Proof.
  intros x H. destruct (fits_int x) eqn:E; [reflexivity|].
  rewrite (not_fits_int_int64 _ E) in H. discriminate.
Qed.

(* ---------------- (value, error) results ----------------
   A Go function with results (T, error) is regenerated with result type outcome (Z * Z), the
   second component being the error (0 = nil).  The models return outcome Z with Err code. *)
Definition res_of (o : outcome (Z * Z)) : outcome Z :=
  match o with Ok (v, e) => if e =? 0 then Ok v else Err e | Err _ => Panic | Panic => Panic end.
Definition ret (v e : Z) : outcome Z := if e =? 0 then Ok v else Err e.

Lemma min_int_Zmin : forall a b, min_int a b = Z.min a b.
Proof. intros. unfold min_int. destruct (a >? b) eqn:E; lia. Qed.
Lemma max_int_Zmax : forall a b, max_int a b = Z.max a b.
Proof. intros. unfold max_int. destruct (a <? b) eqn:E; lia. Qed.
