(* The Newton square root of cosmossdk.io/math (LegacyDec.ApproxRoot(2), reached through
   utils.DecApproxSqrt; model: Lib/DecArith.dsqrt / dsqrt_loop with the 300-iteration cap as fuel).

   One iteration from the guess g > 0 on the argument d (both as 10^18-scaled integers) is
       q  = Quo(d, g)                  (half-even rounding of floor(d*10^36/g) at 10^18)
       g' = g + ((q - g) >> 1) = floor((g + q) / 2)
   and the loop stops as soon as |g' - g| <= 1 (or after 300 iterations).  With X = d * 10^18 (so that the
   exact root, as a scaled integer, is sqrt X) and s = floor(sqrt X):

     * every iterate after the first is >= s                                   (step_lower)
     * while an iterate g >= s is not within 4 of s the distance to s at least halves:
       2 (g' - s) <= (g - s) + 2;  from distance <= 4 the next is <= 1;  from distance <= 1 the loop
       stops at the next test                                                 (step_progress, step_E)
     * hence for every d >= 1 with d <= 10^38 (any bound below the measure E 299 ~ 2^298 would do) the loop
       leaves through the delta test, long before the cap                      (loop_good)
     * whenever the loop leaves through the delta test the result r satisfies
           2 r^2 - r - 3 <= 2 X                                   (r <= sqrt X + 1/4 + 0.8/sqrt X)
           2 X 10^18 <= (2 r^2 + 3 r + 1) 10^18 + 2 (r + 1)       (r >= sqrt X - 3/4 - 10^-18)
       i.e. r is floor(sqrt X) or floor(sqrt X) + 1                           (step_exit_good)
     * these two bounds leave a window of width 1 + 10^-18 + 0.8/sqrt X for r, while the exact roots of two
       different 18-decimal arguments below 10^52 differ by more than 10^-10 of a unit: the result is
       EXACTLY weakly monotone in the argument                                 (good_mono, dsqrt_mono)

   So on the validated price range [MinPoolPrice, MaxPoolPrice] = [10^-15, 10^20] the square root is positive
   and weakly monotone, and Pool.ranged_roots_ok follows from ValidateRangedPoolParams
   (validate_ranged_roots_ok).  Constants stay opaque; only 1000 <= P18 = 2 * HALF18 is used. *)
From Comdex Require Import Lib.Base Lib.DecArith Lib.DecFacts Lib.DecFacts2 Model.Pool Proofs.PoolCreateProofs.
From Coq Require Import ZifyBool.

Lemma P18_ge_1000 : 1000 <= P18.
Proof. vm_compute. discriminate. Qed.

(* ---------- pure integer arithmetic (P stands for 10^18, X for d * 10^18) ---------- *)

Lemma ar_lower P g q X s :
  1000 <= P -> 0 < g -> 0 <= q -> 0 <= s -> s * s <= X ->
  (2 * X - g) * P <= 2 * (q * g) * P + 2 * g ->
  g + q <= 2 * s - 1 -> False.
Proof.
  intros HP Hg Hq Hs HX B2 Hw.
  assert (A1 : (g * P) * (g + q) <= (g * P) * (2 * s - 1)) by (apply Z.mul_le_mono_nonneg_l; [apply Z.mul_nonneg_nonneg; lia|lia]).
  assert (A2 : 0 <= P * ((g - s) * (g - s))) by (apply Z.mul_nonneg_nonneg; [lia|apply Z.square_nonneg]).
  assert (A3 : s * s * P <= X * P) by (apply Z.mul_le_mono_nonneg_r; lia).
  assert (A4 : 0 < g * (P - 2)) by (apply Z.mul_pos_pos; lia).
  lia.
Qed.

(* upper exit bound *)
Lemma ar_exit_U g q r X :
  0 < g -> 2 * (q * g) <= 2 * X + g -> 2 * r - g <= q ->
  (r = g - 1 \/ r = g \/ r = g + 1) ->
  2 * (r * r) - r - 3 <= 2 * X.
Proof.
  intros Hg B1 Hq Hc.
  assert (A1 : (2 * r - g) * g <= q * g) by (apply Z.mul_le_mono_nonneg_r; lia).
  destruct Hc as [-> | [-> | ->]]; lia.
Qed.

Lemma ar_exit_L P g q r X :
  1000 <= P -> 0 < g -> (2 * X - g) * P <= 2 * (q * g) * P + 2 * g -> q <= 2 * r - g + 1 ->
  (r = g - 1 \/ r = g \/ r = g + 1) ->
  2 * X * P <= (2 * (r * r) + 3 * r + 1) * P + 2 * (r + 1).
Proof.
  intros HP Hg B2 Hq Hc.
  assert (A1 : q * g * P <= (2 * r - g + 1) * g * P).
  { apply Z.mul_le_mono_nonneg_r; [lia|]. apply Z.mul_le_mono_nonneg_r; lia. }
  destruct Hc as [-> | [-> | ->]]; lia.
Qed.

Lemma ar_progress g q g' X s :
  11 <= s -> s <= g -> X < (s + 1) * (s + 1) ->
  2 * (q * g) <= 2 * X + g -> 2 * g' <= g + q ->
  2 * (g' - s) <= (g - s) + 2 /\ (g - s <= 4 -> g' - s <= 1).
Proof.
  intros Hs Hg HX B1 Hh.
  assert (A0 : g * (2 * g') <= g * (g + q)) by (apply Z.mul_le_mono_nonneg_l; lia).
  assert (K2 : 4 * (g * (g' - s)) <= 2 * ((g - s) * (g - s)) + 4 * s + g) by lia.
  split.
  - assert (A1 : (g - s) * (g - s) <= g * (g - s)) by (apply Z.mul_le_mono_nonneg_r; lia).
    assert (A2 : g * (4 * (g' - s)) <= g * (2 * (g - s) + 5)) by lia.
    apply Z.mul_le_mono_pos_l in A2; lia.
  - intros He. destruct (Z.le_gt_cases (g' - s) 1) as [|Hgt]; [assumption|exfalso].
    assert (A1 : (g - s) * (g - s) <= 4 * 4) by (apply Z.mul_le_mono_nonneg; lia).
    assert (A2 : g * 2 <= g * (g' - s)) by (apply Z.mul_le_mono_nonneg_l; lia).
    lia.
Qed.

(* monotonicity from the two bounds *)
Lemma ar_mono P X Y rx ry :
  1000 <= P -> 0 < rx -> 0 < ry -> X + P <= Y -> ry + 1 < P * P - 2 * P ->
  2 * (rx * rx) - rx - 3 <= 2 * X ->
  2 * Y * P <= (2 * (ry * ry) + 3 * ry + 1) * P + 2 * (ry + 1) ->
  rx <= ry.
Proof.
  intros HP Hrx Hry HXY Hb U L.
  destruct (Z.le_gt_cases rx ry) as [|Hgt]; [assumption|exfalso].
  assert (A1 : (ry + 1) * (ry + 1) <= rx * rx) by (apply Z.mul_le_mono_nonneg; lia).
  assert (A2 : 2 * (ry + 1) * (ry + 1) - (ry + 1) - 3 <= 2 * X).
  { assert ((rx - (ry + 1)) * 1 <= (rx - (ry + 1)) * (2 * (rx + ry + 1))) by (apply Z.mul_le_mono_nonneg_l; lia). lia. }
  assert (A3 : 2 * (X + P) * P <= 2 * Y * P) by (apply Z.mul_le_mono_nonneg_r; lia).
  assert (A4 : 2 * X * P >= (2 * (ry * ry) + 3 * ry - 2) * P).
  { assert ((2 * (ry * ry) + 3 * ry - 2) * P <= 2 * X * P) by (apply Z.mul_le_mono_nonneg_r; lia). lia. }
  lia.
Qed.
Lemma ar_bound P y r :
  1000 <= P -> 0 < r -> y <= 100 * P * P ->
  2 * (r * r) - r - 3 <= 2 * (y * P) ->
  r + 1 < P * P - 2 * P.
Proof.
  intros HP Hr Hy U.
  destruct (Z.lt_ge_cases (r + 1) (P * P - 2 * P)) as [|Hge]; [assumption|exfalso].
  assert (A0 : 1000 * P <= P * P) by (apply Z.mul_le_mono_nonneg_r; lia).
  set (B := P * P - 2 * P - 1) in *.
  assert (HB : 0 <= B) by (unfold B; lia).
  assert (A1 : 0 <= (r - B) * (2 * (r + B) - 1)) by (apply Z.mul_nonneg_nonneg; lia).
  assert (A2 : y * P <= 100 * P * P * P) by (apply Z.mul_le_mono_nonneg_r; lia).
  assert (A3 : 1000 * (P * P * P) <= P * (P * P * P)).
  { apply Z.mul_le_mono_nonneg_r; [|lia]. apply Z.mul_nonneg_nonneg; [apply Z.mul_nonneg_nonneg|]; lia. }
  assert (A4 : 0 <= P * P) by (apply Z.mul_nonneg_nonneg; lia).
  assert (A5 : 0 <= P * P * P) by (apply Z.mul_nonneg_nonneg; lia).
  unfold B in *. lia.
Qed.
Lemma ar_s_big X s : 1000 <= X -> 0 <= s -> X < (s + 1) * (s + 1) -> 11 <= s.
Proof.
  intros HX Hs H. destruct (Z.le_gt_cases 11 s) as [|Hlt]; [assumption|exfalso].
  assert ((s + 1) * (s + 1) <= 11 * 11) by (apply Z.mul_le_mono_nonneg; lia). lia.
Qed.

(* ---------- the two-sided rounding bound of Quo ---------- *)
(* lower half: Quo is at most half a unit plus 10^-18 of a unit below the exact quotient
   (the upper half is PoolCreateProofs.dquo_upper_half) *)
Lemma dquo_lower_half a b : 0 <= a -> 0 < b ->
  (2 * (a * P18) - b) * P18 <= 2 * (dquo a b * b) * P18 + 2 * b.
Proof.
  intros Ha Hb. dec_consts. pose proof P36_eq as E36.
  pose proof (quo_raw_bounds a b Ha Hb) as (Ht0 & Ht1 & Ht2). cbv zeta in *.
  unfold dquo. set (t := Z.quot (a * P36) b) in *.
  pose proof (chop_round_bounds t) as Hr. set (q := chop_round t) in *.
  rewrite E36 in Ht2.
  assert (A1 : (t - HALF18) * b <= q * P18 * b) by (apply Z.mul_le_mono_nonneg_r; lia).
  lia.
Qed.

(* the measure: E n bounds the distance to floor(sqrt X) from which n further tests certainly end the loop *)
Fixpoint E (n : nat) : Z :=
  match n with
  | O => -1
  | S O => 1
  | S (S O) => 4
  | S ((S (S _)) as m) => 2 * E m - 2
  end.

Lemma E_SSS n : E (S (S (S n))) = 2 * E (S (S n)) - 2.
Proof. reflexivity. Qed.

Lemma E_299 : 2 * (100 * P18 * P18) + P18 <= 2 * E 299.
Proof. vm_compute. discriminate. Qed.

Section Newton.
  (* d: the argument; X = d * P18; s = floor (sqrt X) *)
  Variables d s : Z.
  Hypothesis Hd : 0 <= d.
  Hypothesis Hs0 : 11 <= s.
  Hypothesis Hs1 : s * s <= d * P18.
  Hypothesis Hs2 : d * P18 < (s + 1) * (s + 1).

  Definition good (r : Z) : Prop :=
    0 < r /\
    2 * (r * r) - r - 3 <= 2 * (d * P18) /\
    2 * (d * P18) * P18 <= (2 * (r * r) + 3 * r + 1) * P18 + 2 * (r + 1).

  (* one iteration *)
  Definition nstep (g : Z) : Z := g + Z.shiftr (dquo d g - g) 1.

  Lemma nstep_half g : 2 * nstep g <= g + dquo d g <= 2 * nstep g + 1.
  Proof.
    unfold nstep. rewrite Z.shiftr_div_pow2 by lia. change (2 ^ 1) with 2.
    pose proof (Z.div_mod (dquo d g - g) 2 ltac:(lia)). pose proof (Z.mod_pos_bound (dquo d g - g) 2 ltac:(lia)). lia.
  Qed.

  (* every iterate is at least floor(sqrt X): AM-GM with the rounding of Quo and of the halving *)
  Lemma step_lower g : 0 < g -> s <= nstep g.
  Proof.
    intros Hg. pose proof P18_ge_1000.
    pose proof (nstep_half g) as [_ Hh]. pose proof (dquo_lower_half d g Hd Hg) as B2.
    pose proof (dquo_nonneg d g Hd ltac:(lia)) as Hq.
    destruct (Z.le_gt_cases s (nstep g)) as [|Hlt]; [assumption|exfalso].
    apply (ar_lower P18 g (dquo d g) (d * P18) s); try assumption; lia.
  Qed.

  (* the result of an iteration that passes the delta test *)
  Lemma step_exit_good g : 0 < g -> Z.abs (nstep g - g) <= 1 -> good (nstep g).
  Proof.
    intros Hg Hab. pose proof P18_ge_1000.
    pose proof (nstep_half g) as [Hh1 Hh2].
    pose proof (dquo_upper_half d g Hd Hg) as B1. pose proof (dquo_lower_half d g Hd Hg) as B2.
    pose proof (step_lower g Hg) as Hlow.
    assert (Hcase : nstep g = g - 1 \/ nstep g = g \/ nstep g = g + 1) by lia.
    unfold good. split; [lia|]. split.
    - apply (ar_exit_U g (dquo d g)); try assumption; lia.
    - apply (ar_exit_L P18 g (dquo d g)); try assumption; lia.
  Qed.

  (* progress towards s *)
  Lemma step_progress g : s <= g ->
    2 * (nstep g - s) <= (g - s) + 2 /\ (g - s <= 4 -> nstep g - s <= 1).
  Proof.
    intros Hg. assert (Hg0 : 0 < g) by lia.
    pose proof (nstep_half g) as [Hh1 _]. pose proof (dquo_upper_half d g Hd Hg0) as B1.
    apply (ar_progress g (dquo d g) (nstep g) (d * P18) s); assumption.
  Qed.

  Lemma step_E n g : s <= g -> g - s <= E (S n) ->
    1 < Z.abs (nstep g - g) -> nstep g - s <= E n.
  Proof.
    intros Hg He Hab. pose proof (step_progress g Hg) as [P1 P2]. pose proof (step_lower g ltac:(lia)) as Hl.
    destruct n as [|[|n]].
    - (* distance <= 1: the step passes the delta test *)
      change (E 1) with 1 in He. specialize (P2 ltac:(lia)). lia.
    - change (E 2) with 4 in He. change (E 1) with 1. apply P2. exact He.
    - rewrite E_SSS in He. lia.
  Qed.

  Lemma dsqrt_loop_S f g delta :
    dsqrt_loop (S f) d g delta =
    if Z.abs delta >? 1
    then dsqrt_loop f d (g + Z.shiftr (dquo d (if g =? 0 then 1 else g) - g) 1)
                    (Z.shiftr (dquo d (if g =? 0 then 1 else g) - g) 1)
    else g.
  Proof. reflexivity. Qed.

  Lemma dsqrt_loop_stop f g delta : Z.abs delta <= 1 -> dsqrt_loop f d g delta = g.
  Proof.
    intros H. destruct f; [reflexivity|]. rewrite dsqrt_loop_S.
    destruct (Z.gtb_spec (Z.abs delta) 1); [lia|reflexivity].
  Qed.

  Lemma loop_good n : forall (fuel : nat) g delta, (n <= fuel)%nat ->
    s <= g -> (Z.abs delta <= 1 -> good g) -> (1 < Z.abs delta -> g - s <= E n) ->
    good (dsqrt_loop fuel d g delta).
  Proof.
    induction n as [|n IH]; intros fuel g delta Hf Hg Hstop Hm.
    - change (E 0) with (-1) in Hm.
      destruct (Z.le_gt_cases (Z.abs delta) 1) as [Hle|Hgt]; [|specialize (Hm Hgt); lia].
      rewrite dsqrt_loop_stop by assumption. auto.
    - destruct fuel as [|f]; [lia|]. rewrite dsqrt_loop_S.
      destruct (Z.gtb_spec (Z.abs delta) 1) as [Hgt|Hle]; [|auto].
      destruct (Z.eqb_spec g 0) as [|_]; [lia|].
      fold (nstep g).
      replace (Z.shiftr (dquo d g - g) 1) with (nstep g - g) by (unfold nstep; lia).
      apply IH.
      + lia.
      + apply step_lower; lia.
      + intros Hab. apply step_exit_good; [lia|assumption].
      + intros Hab. apply step_E; [assumption|auto|assumption].
  Qed.

  (* the whole call from the start value 1 (= P18) *)
  Lemma dsqrt_nn_good : d <> 0 -> 2 * d + P18 <= 2 * E 299 -> good (dsqrt_nn d).
  Proof.
    intros Hnz Hbig. pose proof P18_ge_1000 as HP.
    unfold dsqrt_nn. destruct (Z.eqb_spec d 0) as [|_]; [contradiction|]. cbn [orb].
    destruct (Z.eqb_spec d P18) as [->|Hne].
    - unfold good. split; [lia|]. split; [|lia].
      assert (0 <= P18 * P18) by (apply Z.mul_nonneg_nonneg; lia). lia.
    - change 300%nat with (S 299). rewrite dsqrt_loop_S.
      destruct (Z.gtb_spec (Z.abs P18) 1) as [_|]; [|lia].
      destruct (Z.eqb_spec P18 0) as [|_]; [lia|].
      fold (nstep P18).
      replace (Z.shiftr (dquo d P18 - P18) 1) with (nstep P18 - P18) by (unfold nstep; lia).
      apply (loop_good 299); [lia| | |].
      + apply step_lower; lia.
      + intros Hab. apply step_exit_good; [lia|assumption].
      + intros _. pose proof (nstep_half P18) as [Hh _].
        pose proof (dquo_upper_half d P18 Hd ltac:(lia)) as B1.
        assert (A1 : 2 * dquo d P18 <= 2 * d + 1).
        { assert (P18 * (2 * dquo d P18) <= P18 * (2 * d + 1)) by lia.
          apply Z.mul_le_mono_pos_l in H; lia. }
        lia.
  Qed.
End Newton.

(* ---------- the call utils.DecApproxSqrt on a positive argument up to 10^20 ---------- *)
Definition SqrtMax : Z := 100 * P18 * P18.             (* = MaxPoolPrice = 10^20 *)

Lemma dsqrt_good d : 0 < d -> d <= SqrtMax -> good d (dsqrt d).
Proof.
  intros Hd Hmax. pose proof P18_ge_1000 as HP. unfold SqrtMax in Hmax.
  unfold dsqrt. destruct (Z.ltb_spec d 0) as [|_]; [lia|].
  assert (HX : 1000 <= d * P18).
  { assert (1 * P18 <= d * P18) by (apply Z.mul_le_mono_nonneg_r; lia). lia. }
  pose proof (Z.sqrt_spec (d * P18) ltac:(lia)) as [S1 S2]. pose proof (Z.sqrt_nonneg (d * P18)) as S0.
  unfold Z.succ in S2.
  apply (dsqrt_nn_good d (Z.sqrt (d * P18))); try assumption; try lia.
  - apply (ar_s_big (d * P18)); assumption.
  - pose proof E_299. lia.
Qed.

(* (1) positivity *)
Lemma dsqrt_pos d : 0 < d -> d <= SqrtMax -> 0 < dsqrt d.
Proof. intros H1 H2. apply (dsqrt_good d H1 H2). Qed.

(* bounded error, as integer inequalities: r = dsqrt d is floor(sqrt(d * 10^18)) or that plus one *)
Lemma dsqrt_error d : 0 < d -> d <= SqrtMax ->
  let r := dsqrt d in
  (r - 1) * (r - 1) <= d * P18 < (r + 1) * (r + 1).
Proof.
  intros H1 H2 r. pose proof P18_ge_1000 as HP.
  destruct (dsqrt_good d H1 H2) as (R0 & U & L). fold r in R0, U, L.
  split.
  - assert (0 <= d * P18) by (apply Z.mul_nonneg_nonneg; lia).
    assert (Hr : r = 1 \/ 2 <= r) by lia. destruct Hr as [Hr|Hr]; [rewrite Hr; lia|lia].
  - (* 2 X P <= (2 r^2 + 3 r + 1) P + 2 (r + 1) and 2 (r + 1) < (r + 1) P *)
    destruct (Z.lt_ge_cases (d * P18) ((r + 1) * (r + 1))) as [|Hge]; [assumption|exfalso].
    assert (A1 : (r + 1) * (r + 1) * P18 <= d * P18 * P18) by (apply Z.mul_le_mono_nonneg_r; lia).
    assert (A2 : 2 * (r + 1) < (r + 1) * P18).
    { assert (2 * (r + 1) < P18 * (r + 1)) by (apply Z.mul_lt_mono_pos_r; lia). lia. }
    lia.
Qed.

(* (2) exact weak monotonicity *)
Lemma dsqrt_mono x y : 0 < x -> x <= y -> y <= SqrtMax -> dsqrt x <= dsqrt y.
Proof.
  intros Hx Hxy Hy. pose proof P18_ge_1000 as HP.
  destruct (Z.eq_dec x y) as [->|Hne]; [lia|].
  destruct (dsqrt_good x Hx ltac:(lia)) as (Rx & Ux & _).
  destruct (dsqrt_good y ltac:(lia) Hy) as (Ry & Uy & Ly).
  apply (ar_mono P18 (x * P18) (y * P18)); try assumption.
  - assert ((x + 1) * P18 <= y * P18) by (apply Z.mul_le_mono_nonneg_r; lia). lia.
  - apply (ar_bound P18 y); assumption.
Qed.

(* ---------- ValidateRangedPoolParams implies the order of the three roots ---------- *)
Lemma MaxPoolPrice_eq : MaxPoolPrice = SqrtMax.
Proof. vm_compute. reflexivity. Qed.
Lemma MinPoolPrice_eq : MinPoolPrice = 1000.
Proof. reflexivity. Qed.

Lemma validate_ranged_ok minP maxP initP : validate_ranged minP maxP initP = Ok tt ->
  MinPoolPrice <= minP /\ minP <= initP /\ initP <= maxP /\ minP < maxP /\ maxP <= MaxPoolPrice.
Proof.
  unfold validate_ranged.
  destruct (Z.gtb_spec initP 0); cbn [negb]; [|discriminate].
  destruct (Z.ltb_spec minP MinPoolPrice); [discriminate|].
  destruct (Z.gtb_spec maxP 0); cbn [negb]; [|discriminate].
  destruct (Z.gtb_spec maxP MaxPoolPrice); [discriminate|].
  destruct (Z.gtb_spec maxP minP); cbn [negb]; [|discriminate].
  destruct (ob _ _); [|discriminate].
  destruct (_ <? MinGapRatio); [discriminate|].
  destruct (Z.ltb_spec initP minP); [discriminate|].
  destruct (Z.gtb_spec initP maxP); [discriminate|].
  intros _. lia.
Qed.

Lemma validate_ranged_roots_ok minP maxP initP :
  validate_ranged minP maxP initP = Ok tt -> ranged_roots_ok minP maxP initP = true.
Proof.
  intros H. apply validate_ranged_ok in H as (H1 & H2 & H3 & H4 & H5).
  rewrite MinPoolPrice_eq in H1. rewrite MaxPoolPrice_eq in H5.
  unfold ranged_roots_ok, sqrt_d, chk_dec.
  destruct (fits_dec (dsqrt initP)); [|reflexivity].
  destruct (fits_dec (dsqrt minP)); [|reflexivity].
  destruct (fits_dec (dsqrt maxP)); [|reflexivity].
  pose proof (dsqrt_pos minP ltac:(lia) ltac:(lia)).
  pose proof (dsqrt_mono minP initP ltac:(lia) H2 ltac:(lia)).
  pose proof (dsqrt_mono initP maxP ltac:(lia) H3 H5).
  lia.
Qed.

(* amm.CreateRangedPool never accepts more of either coin than was offered: unconditional *)
Lemma create_ranged_amounts_bounded_all x y minP maxP initP ax ay :
  0 <= x -> 0 <= y ->
  create_ranged_amounts x y minP maxP initP = Ok (ax, ay) ->
  0 <= ax <= x /\ 0 <= ay <= y.
Proof.
  intros Hx Hy H. apply (create_ranged_amounts_bounded x y minP maxP initP ax ay Hx Hy); [|exact H].
  unfold create_ranged_amounts in H.
  destruct (negb (x >? 0) && negb (y >? 0)); [discriminate|].
  destruct (validate_ranged minP maxP initP) as [[]| |] eqn:V; cbn [obind] in H; try discriminate.
  apply validate_ranged_roots_ok; exact V.
Qed.
