(* Proofs about Model/Liquidity.v, part 7: the market-making index is complete.  In every reachable
   state every LIVE market-making order is listed in its owner's index for its pair; hence cancelling
   or replacing market-making orders (which cancels every listed order) cancels EVERY previously placed
   live market-making order of that owner in that pair.  Instance of the generic sweep, on top of the
   escrow invariant (unique order keys, fresh order ids). *)
From Comdex Require Import Lib.Base Lib.DecArith Lib.DecFacts Model.Liquidity Proofs.LiquidityProofs
  Proofs.LiquiditySweep Proofs.LiquidityProofs2 Proofs.LiquidityEffects Proofs.LiquidityLists Proofs.LiquidityEscrow
  Proofs.LiquidityReach Proofs.LiquidityMMCancel Proofs.LiquidityOrderThms.
From Coq Require Import ZifyBool Lia.

Definition indexed (s : state) (e : entry) : Prop :=
  exists ix, find_mm (o_app (fst e)) (o_owner (fst e)) (o_pair (fst e)) (mmidx s) = Some ix /\ In (o_id (fst e)) (mi_ids ix).

Record MInv (s : state) : Prop := {
  mv_live : forall e, In e (orders s) -> o_type (fst e) = 3 -> is_live (o_status (fst e)) = true -> indexed s e;
  mv_ids : forall a o p ix pr, find_mm a o p (mmidx s) = Some ix -> find_pair a p (pairs s) = Some pr ->
                               forall id, In id (mi_ids ix) -> id <= p_last_order pr;
  mv_pair : forall a o p ix, find_mm a o p (mmidx s) = Some ix -> find_pair a p (pairs s) <> None;
  mv_range : forall e, In e (orders s) -> is_live (o_status (fst e)) = true \/ is_term (o_status (fst e)) = true }.

Definition OM (ap : list (Z * params)) (s : state) : Prop := OInv ap s /\ MInv s.

(* ---------------- frames ---------------- *)
Definition MFrame (s s' : state) : Prop := orders s' = orders s /\ mmidx s' = mmidx s /\ pairs s' = pairs s.
Lemma minv_frame s s' : MFrame s s' -> MInv s -> MInv s'.
Proof.
  intros (A & B & C) [H1 H2 H3 H4]. constructor; unfold indexed in *; rewrite ?A, ?B, ?C; assumption.
Qed.
Lemma escframe_mframe s s' : EscFrame s s' -> mmidx s' = mmidx s -> MFrame s s'.
Proof. intros (_ & B & C & _) M. repeat split; assumption. Qed.

Lemma find_mm_cons_del a o p x l a' o' p' :
  mi_app x = a -> mi_owner x = o -> mi_pair x = p ->
  find_mm a' o' p' (x :: del_mm a o p l) =
  if (a =? a') && (o =? o') && (p =? p') then Some x else find_mm a' o' p' l.
Proof.
  intros Xa Xo Xp. cbn [find_mm]. rewrite Xa, Xo, Xp.
  destruct ((a =? a') && (o =? o') && (p =? p')) eqn:E; [reflexivity|].
  unfold del_mm. induction l as [|y r IH]; cbn [filter find_mm]; [reflexivity|].
  destruct ((mi_app y =? a) && (mi_owner y =? o) && (mi_pair y =? p)) eqn:Ey; cbn [negb].
  - rewrite IH. destruct ((mi_app y =? a') && (mi_owner y =? o') && (mi_pair y =? p')) eqn:Ey'; [lia|reflexivity].
  - cbn [find_mm]. rewrite IH. reflexivity.
Qed.
Lemma find_mm_del_other a o p l a' o' p' : (a =? a') && (o =? o') && (p =? p') = false ->
  find_mm a' o' p' (del_mm a o p l) = find_mm a' o' p' l.
Proof.
  intros E. unfold del_mm. induction l as [|y r IH]; cbn [filter find_mm]; [reflexivity|].
  destruct ((mi_app y =? a) && (mi_owner y =? o) && (mi_pair y =? p)) eqn:Ey; cbn [negb].
  - rewrite IH. destruct ((mi_app y =? a') && (mi_owner y =? o') && (mi_pair y =? p')) eqn:Ey'; [lia|reflexivity].
  - cbn [find_mm]. rewrite IH. reflexivity.
Qed.

Lemma find_order_ins k (e : entry) st : find_order k (ins_order e st) = if k3_eqb (ekey e) k then Some e else find_order k st.
Proof.
  induction st as [|x r IH]; cbn [ins_order find_order]; [reflexivity|].
  destruct (k3_eqb (ekey x) (ekey e)) eqn:E1.
  - cbn [find_order]. destruct (k3_eqb (ekey e) k) eqn:E2; [reflexivity|].
    destruct (k3_eqb (ekey x) k) eqn:E3; [apply k3_eqb_eq in E1, E3; rewrite <- E1, E3, k3_eqb_refl in E2; discriminate|reflexivity].
  - destruct (k3_ltb (ekey e) (ekey x)); cbn [find_order].
    + reflexivity.
    + rewrite IH. destruct (k3_eqb (ekey x) k) eqn:E3; [|reflexivity].
      destruct (k3_eqb (ekey e) k) eqn:E2; [apply k3_eqb_eq in E2, E3; rewrite E2, <- E3, k3_eqb_refl in E1; discriminate|reflexivity].
Qed.

(* with unique keys a stored entry is the one its key finds *)
Lemma nodup_find (st : list entry) e : NoDup (map ekey st) -> In e st -> find_order (ekey e) st = Some e.
Proof.
  induction st as [|x r IH]; intros Hnd []; cbn [find_order].
  - subst. rewrite k3_eqb_refl. reflexivity.
  - inversion Hnd as [|? ? Hx Hr]; subst. destruct (k3_eqb (ekey x) (ekey e)) eqn:E; [|exact (IH Hr H)].
    apply k3_eqb_eq in E. exfalso. apply Hx. rewrite E. apply in_map. exact H.
Qed.

(* ---------------- market-making placement: who and which ids ---------------- *)
Lemma mm_place_last_ge app owner now life pr buy ticks : forall id st st' ids last,
  mm_place app owner now life pr buy ticks id st = (st', ids, last) -> id <= last.
Proof.
  induction ticks as [|[[price amt] off] r IH]; intros id st st' ids last H; cbn [mm_place] in H.
  - injection H as _ _ <-. lia.
  - destruct (mm_place app owner now life pr buy r (id + 1) _) as [[st1 ids1] last1] eqn:E. injection H as _ _ <-.
    specialize (IH _ _ _ _ _ E). lia.
Qed.

Lemma mm_place_who app owner now life pr buy ticks : forall id st st' ids last,
  mm_place app owner now life pr buy ticks id st = (st', ids, last) ->
  (forall x, In x st' -> In x st \/ (o_app (fst x) = app /\ o_pair (fst x) = p_id pr /\ o_owner (fst x) = owner /\ o_status (fst x) = 1 /\ In (o_id (fst x)) ids)) /\
  (forall j, In j ids -> id < j <= last) /\
  (forall k, snd k <= id \/ (fst (fst k) <> app \/ snd (fst k) <> p_id pr) -> find_order k st' = find_order k st).
Proof.
  induction ticks as [|[[price amt] off] r IH]; intros id st st' ids last H; cbn [mm_place] in H.
  - injection H as <- <- <-. split; [auto|]. split; [intros j []|auto].
  - set (o := mkOrder app (p_id pr) (id + 1) owner buy 3 (if buy then p_quote pr else p_base pr)
                      (if buy then p_base pr else p_quote pr) off off 0 price amt amt (p_batch pr) (now + life) 1) in *.
    destruct (mm_place app owner now life pr buy r (id + 1) (ins_order (o, new_ghost off) st)) as [[st1 ids1] last1] eqn:E.
    injection H as <- <- <-. destruct (IH _ _ _ _ _ E) as (I1 & I2 & I3). split; [|split].
    + intros x Hx. destruct (I1 x Hx) as [Hx'|(A & B & C & S & D)]; [|right; repeat split; try assumption; right; exact D].
      destruct (in_ins _ _ _ Hx') as [->|Hx'']; [|left; exact Hx'']. right. cbn. repeat split; try reflexivity. left. reflexivity.
    + intros j [<-|Hj]; [|specialize (I2 j Hj); lia].
      pose proof (mm_place_last_ge _ _ _ _ _ _ _ _ _ _ _ _ E). lia.
    + intros k Hk. rewrite I3 by (destruct Hk; [left; lia|right; assumption]). rewrite find_order_ins.
      destruct (k3_eqb (ekey (o, new_ghost off)) k) eqn:Ek; [|reflexivity]. apply k3_eqb_eq in Ek. subst k. cbn in Hk. lia.
Qed.

Section Leaves.
Variable ap : list (Z * params).

(* an updated entry with the same key, owner and type keeps its index membership *)
Lemma indexed_upd s s' (e e' : entry) : mmidx s' = mmidx s ->
  o_app (fst e') = o_app (fst e) -> o_owner (fst e') = o_owner (fst e) -> o_pair (fst e') = o_pair (fst e) ->
  o_id (fst e') = o_id (fst e) -> indexed s e -> indexed s' e'.
Proof. intros M A B C D (ix & H1 & H2). exists ix. rewrite M, A, B, C, D. auto. Qed.

Lemma om_finish s e st s' :
  OM ap s -> find_order (ekey e) (orders s) = Some e -> is_term st = true -> finish_entry s e st = Ok s' -> OM ap s'.
Proof.
  intros [HO HM] Hf Ht H. split; [eapply oi_finish; eauto|].
  destruct (finish_entry_eff _ _ _ _ H) as [[_ ->]|(El & rate & e' & refund & fee & l & Er & Ec & _ & _ & _ & ->)]; [exact HM|].
  pose proof (finish_calc_status rate e st El) as Hst. rewrite Ec in Hst. cbn [fst] in Hst.
  destruct HM as [H1 H2 H3 H4]. constructor; unfold indexed; proj_cbn.
  - intros x Hx Hty Hl. destruct (in_upd _ _ _ _ Hx) as [->|Hx']; [|apply H1; assumption].
    rewrite Hst in Hl. rewrite (term_not_live _ Ht) in Hl. discriminate.
  - exact H2.
  - exact H3.
  - intros x Hx. destruct (in_upd _ _ _ _ Hx) as [->|Hx']; [right; rewrite Hst; exact Ht|apply H4; exact Hx'].
Qed.

Lemma om_place s m typ pr price offer fee now s' P :
  OM ap s -> get_params s (m_app m) = Some P -> find_pair (m_app m) (m_pair m) (pairs s) = Some pr ->
  fee = fee_amt (pr_fee_rate P) offer -> typ = 1 \/ typ = 2 ->
  place s m typ pr price offer fee now = Ok s' -> OM ap s'.
Proof.
  intros [HO HM] HP Hpr Hfee Hty H. split; [eapply oi_place; eauto|].
  destruct (place_eff _ _ _ _ _ _ _ _ _ H) as (l & _ & _ & _ & ->).
  destruct (find_pair_in _ _ _ _ Hpr) as (_ & Pa & Pi).
  destruct HM as [H1 H2 H3 H4]. constructor; unfold indexed; proj_cbn.
  - intros x Hx Hx3 Hl. destruct (in_ins _ _ _ Hx) as [->|Hx']; [cbn in Hx3; lia|apply H1; assumption].
  - intros a o p ix pr0 Hix Hp id Hid. rewrite find_pair_ins in Hp. cbn [p_app p_id] in Hp.
    destruct ((p_app pr =? a) && (p_id pr =? p)) eqn:E; [|eapply H2; eauto].
    injection Hp as <-. cbn [p_last_order]. assert (id <= p_last_order pr); [|lia].
    apply (H2 a o p ix pr Hix); [|exact Hid]. replace a with (m_app m) by lia. replace p with (m_pair m) by lia. exact Hpr.
  - intros a o p ix Hix. rewrite find_pair_ins. destruct (_ && _); [discriminate|eapply H3; eauto].
  - intros x Hx. destruct (in_ins _ _ _ Hx) as [->|Hx']; [left; reflexivity|apply H4; exact Hx'].
Qed.

Lemma om_drop_mm s app owner pair :
  OM ap s -> (forall ix, find_mm app owner pair (mmidx s) = Some ix -> forall id, In id (mi_ids ix) -> nonlive_at (app, pair, id) s) ->
  OM ap (drop_mm s app owner pair).
Proof.
  intros [HO HM] Hnl. split.
  { eapply oinv_frame; [|exact HO]. unfold EscFrame. proj_cbn. repeat (split; [reflexivity|]). reflexivity. }
  destruct HM as [H1 H2 H3 H4]. constructor; unfold indexed; proj_cbn.
  - intros x Hx Hx3 Hl. destruct (H1 x Hx Hx3 Hl) as (ix & Hix & Hid).
    destruct ((app =? o_app (fst x)) && (owner =? o_owner (fst x)) && (pair =? o_pair (fst x))) eqn:E.
    + exfalso. replace (o_app (fst x)) with app in Hix by lia. replace (o_owner (fst x)) with owner in Hix by lia.
      replace (o_pair (fst x)) with pair in Hix by lia. specialize (Hnl ix Hix _ Hid). unfold nonlive_at in Hnl.
      pose proof (nodup_find _ x (oi_nodup _ _ HO) Hx) as Hfx. unfold ekey, okey in Hfx.
      replace (o_app (fst x)) with app in Hfx by lia. replace (o_pair (fst x)) with pair in Hfx by lia.
      rewrite Hfx in Hnl. congruence.
    + exists ix. rewrite find_mm_del_other by exact E. auto.
  - intros a o p ix pr Hix Hp id Hid.
    destruct ((app =? a) && (owner =? o) && (pair =? p)) eqn:E.
    + replace a with app in Hix by lia. replace o with owner in Hix by lia. replace p with pair in Hix by lia.
      rewrite find_mm_del in Hix. discriminate.
    + rewrite find_mm_del_other in Hix by exact E. eapply H2; eauto.
  - intros a o p ix Hix. destruct ((app =? a) && (owner =? o) && (pair =? p)) eqn:E.
    + replace a with app in Hix by lia. replace o with owner in Hix by lia. replace p with pair in Hix by lia.
      rewrite find_mm_del in Hix. discriminate.
    + rewrite find_mm_del_other in Hix by exact E. eapply H3; eauto.
  - exact H4.
Qed.

Lemma om_mm_tail s m pr bt st now s' P :
  OM ap s -> get_params s (mm_app m) = Some P -> find_pair (mm_app m) (mm_pair m) (pairs s) = Some pr ->
  find_mm (mm_app m) (mm_owner m) (p_id pr) (mmidx s) = None ->
  existsb (fun t : Z * Z * Z => snd t <? 0) (bt ++ st) = false ->
  mm_tail s m pr bt st now = Ok s' -> OM ap s'.
Proof.
  intros [HO HM] HP Hpr Hnone Eneg H. split; [eapply oi_mm_tail; eauto|].
  destruct (find_pair_in _ _ _ _ Hpr) as (_ & Pa & Pi).
  unfold mm_tail, obind in H.
  destruct (ssend s _ _ _ _) as [s2| |] eqn:E2; try discriminate.
  destruct (ssend s2 _ _ _ _) as [s3| |] eqn:E3; try discriminate.
  apply ssend_inv in E2. destruct E2 as (l2 & Hl2 & ->). apply ssend_inv in E3. destruct E3 as (l3 & Hl3 & ->).
  proj_cbn.
  destruct (mm_place _ _ _ _ pr true bt _ (orders s)) as [[st1 ids1] last1] eqn:M1.
  destruct (mm_place _ _ _ _ pr false st last1 st1) as [[st2 ids2] last2] eqn:M2.
  injection H as <-.
  destruct (mm_place_who _ _ _ _ _ _ _ _ _ _ _ _ M1) as (A1 & A2 & _).
  destruct (mm_place_who _ _ _ _ _ _ _ _ _ _ _ _ M2) as (B1 & B2 & _).
  assert (Hlast : p_last_order pr <= last1 <= last2).
  { rewrite existsb_app in Eneg. apply orb_false_iff in Eneg. destruct Eneg as [N1 N2].
    assert (Hid0 : forall k, In k (map ekey (orders s)) -> fst (fst k) = mm_app m -> snd (fst k) = p_id pr -> snd k <= p_last_order pr).
    { intros k Hk Ka Kp. apply in_map_iff in Hk. destruct Hk as (x & <- & Hx). unfold ekey, okey in *. cbn [fst snd] in *.
      apply (oi_id _ _ HO x pr Hx). rewrite Ka, Kp, Pi. exact Hpr. }
    destruct (mm_place_law ap _ _ _ _ _ _ _ _ _ _ _ _ M1 N1 (oi_nodup _ _ HO) Hid0) as (C1 & C2 & C3 & _).
    destruct (mm_place_law ap _ _ _ _ _ _ _ _ _ _ _ _ M2 N2 C1 C3) as (_ & D2 & _). lia. }
  set (nix := mkMM (mm_app m) (mm_owner m) (p_id pr) (ids1 ++ ids2)).
  destruct HM as [H1 H2 H3 H4]. constructor; unfold indexed; proj_cbn.
  - intros x Hx Hx3 Hl.
    assert (Hcase : In x (orders s) \/ (o_app (fst x) = mm_app m /\ o_pair (fst x) = p_id pr /\ o_owner (fst x) = mm_owner m /\ In (o_id (fst x)) (ids1 ++ ids2))).
    { destruct (B1 x Hx) as [Hx1|(A & B & C & _ & D)]; [|right; repeat split; try assumption; apply in_or_app; right; exact D].
      destruct (A1 x Hx1) as [Hx0|(A & B & C & _ & D)]; [left; exact Hx0|right; repeat split; try assumption; apply in_or_app; left; exact D]. }
    rewrite (find_mm_cons_del (mm_app m) (mm_owner m) (p_id pr) nix) by reflexivity.
    destruct Hcase as [Hx0|(Xa & Xp & Xo & Xi)].
    + destruct (H1 x Hx0 Hx3 Hl) as (ix & Hix & Hid).
      destruct ((mm_app m =? o_app (fst x)) && (mm_owner m =? o_owner (fst x)) && (p_id pr =? o_pair (fst x))) eqn:E; [|exists ix; auto].
      exfalso. replace (o_app (fst x)) with (mm_app m) in Hix by lia. replace (o_owner (fst x)) with (mm_owner m) in Hix by lia.
      replace (o_pair (fst x)) with (p_id pr) in Hix by lia. congruence.
    + rewrite Xa, Xp, Xo, !Z.eqb_refl. cbn [andb]. exists nix. split; [reflexivity|exact Xi].
  - intros a o p ix pr0 Hix Hp id Hid. rewrite find_pair_ins in Hp. cbn [p_app p_id] in Hp.
    rewrite (find_mm_cons_del (mm_app m) (mm_owner m) (p_id pr) nix) in Hix by reflexivity.
    destruct ((mm_app m =? a) && (mm_owner m =? o) && (p_id pr =? p)) eqn:E.
    + injection Hix as <-. cbn [nix mi_ids] in Hid.
      replace ((p_app pr =? a) && (p_id pr =? p)) with true in Hp by lia. injection Hp as <-. cbn [p_last_order].
      apply in_app_or in Hid. destruct Hid as [Hid|Hid]; [specialize (A2 id Hid)|specialize (B2 id Hid)]; lia.
    + destruct ((p_app pr =? a) && (p_id pr =? p)) eqn:E2; [|eapply H2; eauto].
      injection Hp as <-. cbn [p_last_order]. assert (id <= p_last_order pr); [|lia].
      apply (H2 a o p ix pr Hix); [|exact Hid]. replace a with (mm_app m) by lia. replace p with (mm_pair m) by lia. exact Hpr.
  - intros a o p ix Hix. rewrite find_pair_ins. cbn [p_app p_id]. destruct ((p_app pr =? a) && (p_id pr =? p)) eqn:E2; [discriminate|].
    rewrite (find_mm_cons_del (mm_app m) (mm_owner m) (p_id pr) nix) in Hix by reflexivity.
    destruct ((mm_app m =? a) && (mm_owner m =? o) && (p_id pr =? p)) eqn:E; [lia|eapply H3; eauto].
  - intros x Hx. destruct (B1 x Hx) as [Hx1|(_ & _ & _ & S & _)]; [destruct (A1 x Hx1) as [Hx0|(_ & _ & _ & S & _)]|];
      [apply H4; exact Hx0|left; rewrite S; reflexivity|left; rewrite S; reflexivity].
Qed.

Lemma om_fill_book s k o g matched paid recv :
  OM ap s -> find_order k (orders s) = Some (o, g) -> is_live (o_status o) = true ->
  0 <= o_rem o - paid -> 0 <= paid -> 0 <= recv -> OM ap (fill_book s k o g matched paid recv).
Proof.
  intros [HO HM] Hf Hl Hp Hp0 Hr0. split; [eapply oi_fill_book; eauto|].
  destruct (find_order_in _ _ _ Hf) as [Hin _]. destruct k as [[a0 p0] i0]. unfold fill_book.
  destruct HM as [H1 H2 H3 H4]. constructor; proj_cbn; try assumption.
  - intros x Hx Hx3 Hlx. destruct (in_upd _ _ _ _ Hx) as [->|Hx']; [|apply H1; assumption].
    apply (indexed_upd s _ (o, g)); try reflexivity. apply H1; [exact Hin|exact Hx3|exact Hl].
  - intros x Hx. destruct (in_upd _ _ _ _ Hx) as [->|Hx']; [left; exact Hl|apply H4; exact Hx'].
Qed.
Lemma om_mark_status s k o g st :
  OM ap s -> find_order k (orders s) = Some (o, g) -> is_term (o_status o) = false -> st = 2 \/ st = 3 ->
  OM ap (mark_status s k o g st).
Proof.
  intros [HO HM] Hf Hl Hst. assert (Ht : is_term st = false) by (destruct Hst as [-> | ->]; reflexivity).
  split; [eapply oi_mark_status; eauto|].
  destruct (find_order_in _ _ _ Hf) as [Hin _].
  destruct HM as [H1 H2 H3 H4].
  assert (Hlive : is_live (o_status o) = true). { destruct (H4 (o, g) Hin) as [L|T]; [exact L|cbn in T; congruence]. }
  constructor; proj_cbn; try assumption.
  - intros x Hx Hx3 Hlx. destruct (in_upd _ _ _ _ Hx) as [->|Hx']; [|apply H1; assumption].
    apply (indexed_upd s _ (o, g)); try reflexivity. apply H1; [exact Hin|exact Hx3|exact Hlive].
  - intros x Hx. destruct (in_upd _ _ _ _ Hx) as [->|Hx']; [left; destruct Hst as [-> | ->]; reflexivity|apply H4; exact Hx'].
Qed.

Lemma om_frame s s' : EscFrame s s' -> mmidx s' = mmidx s -> OM ap s -> OM ap s'.
Proof. intros F M [HO HM]. split; [eapply oinv_frame; eauto|eapply minv_frame; [apply escframe_mframe; eauto|exact HM]]. Qed.

Lemma om_esc_in s app pair from d x s' : OM ap s -> is_outside from = true -> esc_in s app pair from d x = Ok s' -> OM ap s'.
Proof.
  intros [HO HM] Hf H. split; [eapply oi_esc_in; eauto|]. destruct (esc_in_eff _ _ _ _ _ _ _ H) as (l & _ & _ & ->).
  eapply minv_frame; [|exact HM]. repeat split; reflexivity.
Qed.
Lemma om_esc_out s app pair to d x s' : OM ap s -> is_outside to = true -> esc_out s app pair to d x = Ok s' -> OM ap s'.
Proof.
  intros [HO HM] Hf H. split; [eapply oi_esc_out; eauto|]. destruct (esc_out_eff _ _ _ _ _ _ _ H) as (l & _ & _ & ->).
  eapply minv_frame; [|exact HM]. repeat split; reflexivity.
Qed.
Lemma om_set_pair_after s pr env : OM ap s -> find_pair (p_app pr) (p_id pr) (pairs s) = Some pr -> OM ap (set_pair_after s pr env).
Proof.
  intros [HO HM] Hpr. split; [eapply oi_set_pair_after; eauto|].
  destruct HM as [H1 H2 H3 H4]. constructor; unfold indexed; proj_cbn; try assumption.
  - intros a o p ix pr0 Hix Hp id Hid. rewrite find_pair_ins in Hp. cbn [p_app p_id] in Hp.
    destruct ((p_app pr =? a) && (p_id pr =? p)) eqn:E; [|eapply H2; eauto].
    injection Hp as <-. cbn [p_last_order]. apply (H2 a o p ix pr Hix); [|exact Hid].
    replace a with (p_app pr) by lia. replace p with (p_id pr) by lia. exact Hpr.
  - intros a o p ix Hix. rewrite find_pair_ins. destruct (_ && _); [discriminate|eapply H3; eauto].
Qed.
Lemma om_begin_app s app : OM ap s -> OM ap (begin_app app s).
Proof.
  intros [HO HM]. split; [apply oi_begin_app; exact HO|]. unfold begin_app.
  destruct HM as [H1 H2 H3 H4]. constructor; unfold indexed; proj_cbn; try assumption.
  - intros x Hx. apply filter_In in Hx. apply H1, Hx.
  - intros x Hx. apply filter_In in Hx. apply H4, Hx.
Qed.
Lemma om_create_pair s app c b q s' : OM ap s -> create_pair s app c b q = Ok s' -> OM ap s'.
Proof.
  intros [HO HM] H. split; [eapply oi_create_pair; eauto|].
  unfold create_pair in H. destruct (b =? q); [discriminate|].
  destruct (get_params s app) as [P|]; [|discriminate].
  repeat match type of H with (if ?c then _ else _) = _ => destruct c; [discriminate|] end.
  unfold obind in H. destruct (ssend s _ _ _ _) as [s1| |] eqn:E1; try discriminate. injection H as <-. sends. proj_cbn.
  set (id := match aget (last_pair s) app with Some i => i | None => 0 end + 1) in *.
  assert (Hid : id = cnt (last_pair s) app + 1) by reflexivity.
  assert (Hnew : forall a p, (app =? a) && (id =? p) = true -> find_pair a p (pairs s) = None).
  { intros a p E. destruct (find_pair a p (pairs s)) as [pr|] eqn:Ef; [|reflexivity].
    pose proof (oi_pcnt _ _ HO a p pr Ef). replace a with app in * by lia. lia. }
  destruct HM as [H1 H2 H3 H4]. constructor; unfold indexed; proj_cbn; try assumption.
  - intros a o p ix pr0 Hix Hp. rewrite find_pair_ins in Hp. cbn [p_app p_id] in Hp.
    destruct ((app =? a) && (id =? p)) eqn:E; [|eapply H2; eauto].
    exfalso. apply (H3 a o p ix Hix). apply Hnew, E.
  - intros a o p ix Hix. rewrite find_pair_ins. destruct (_ && _); [discriminate|eapply H3; eauto].
Qed.

Theorem om_run ops s : Forall (fun o => is_addapp o = false) ops -> OM ap s -> OM ap (fold_left apply_op ops s).
Proof.
  intros Ho. apply (sw_run (OM ap)); try assumption.
  - exact om_finish.
  - exact om_place.
  - exact om_drop_mm.
  - exact om_mm_tail.
  - exact om_fill_book.
  - exact om_mark_status.
  - exact om_esc_in.
  - exact om_esc_out.
  - intros s0 pr HI. eapply om_frame; [| |exact HI]; [unfold EscFrame; proj_cbn; repeat (split; [reflexivity|]); reflexivity|reflexivity].
  - exact om_set_pair_after.
  - exact om_begin_app.
  - exact om_create_pair.
  - intros s0 P a c pr rg ax ay ps s' HI _ _ H. pose proof (fr_new_pool _ _ _ _ _ _ _ _ _ _ H) as F. eapply om_frame; [exact F| |exact HI].
    unfold new_pool, obind in H. inv_ok H; try subst s'; sends; reflexivity.
  - intros s0 a o p x y s' r HI H. pose proof (fr_deposit_req _ _ _ _ _ _ _ _ H) as F. eapply om_frame; [exact F| |exact HI].
    unfold deposit_req, obind in H. inv_ok H; try subst s'; sends; reflexivity.
  - intros s0 a o p pc s' r HI H. pose proof (fr_withdraw_req _ _ _ _ _ _ _ H) as F. eapply om_frame; [exact F| |exact HI].
    unfold withdraw_req, obind in H. inv_ok H; try subst s'; sends; reflexivity.
  - intros s0 r s' HI _ _ H. pose proof (fr_fail_dep _ _ _ H) as F. eapply om_frame; [exact F| |exact HI].
    unfold fail_dep, obind in H. inv_ok H; try subst s'; sends; reflexivity.
  - intros s0 r s' HI _ _ H. pose proof (fr_fail_wd _ _ _ H) as F. eapply om_frame; [exact F| |exact HI].
    unfold fail_wd, obind in H. inv_ok H; try subst s'; sends; reflexivity.
  - intros s0 pl a i HI _. eapply om_frame; [| |exact HI]; [unfold EscFrame; proj_cbn; repeat (split; [reflexivity|]); reflexivity|reflexivity].
  - intros s0 r pl pr ax ay pc s' HI _ _ _ _ _ _ _ _ _ H. pose proof (fr_do_deposit _ _ _ _ _ _ _ H) as F. eapply om_frame; [exact F| |exact HI].
    unfold do_deposit, obind in H. inv_ok H; try subst s'; sends; reflexivity.
  - intros s0 r pl pr x y s' HI _ _ _ _ H. pose proof (fr_do_withdraw _ _ _ _ _ _ _ H) as F. eapply om_frame; [exact F| |exact HI].
    unfold do_withdraw, obind in H. inv_ok H; try subst s'; sends; reflexivity.
  - intros s0 a o p amt now s' HI H. pose proof (fr_farm _ _ _ _ _ _ _ H) as F. eapply om_frame; [exact F| |exact HI].
    unfold farm, obind in H. inv_ok H; try subst s'; sends; reflexivity.
  - intros s0 a o p amt s' HI H. pose proof (fr_unfarm _ _ _ _ _ _ H) as F. eapply om_frame; [exact F| |exact HI].
    unfold unfarm, obind in H. inv_ok H; try subst s'; sends; reflexivity.
  - intros s0 now app HI. eapply om_frame; [apply fr_process_queued| |exact HI].
    unfold process_queued. destruct (get_params s0 app); [|reflexivity].
    apply (fold_left_inv (fun t => mmidx t = mmidx s0)); [|reflexivity]. intros t q Ht. unfold process_qf.
    destruct (filter _ (q_coins q)); exact Ht.
  - intros s0 d HI. eapply om_frame; [| |exact HI]; [unfold EscFrame; proj_cbn; repeat (split; [reflexivity|]); reflexivity|reflexivity].
  - intros s0 w d amt HI. eapply om_frame; [| |exact HI]; [|reflexivity]. unfold EscFrame. proj_cbn. repeat (split; [reflexivity|]).
    intros. cbn [ladd acct_eqb andb]. reflexivity.
Qed.
End Leaves.

(* ---------------- reachable states ---------------- *)
Lemma fresh_minv s : Fresh s -> MInv s.
Proof.
  intros F. constructor; unfold indexed; rewrite ?(fr_orders _ F), ?(fr_mmidx _ F).
  - intros e [].
  - intros a o p ix pr H. discriminate.
  - intros a o p ix H. discriminate.
  - intros e [].
Qed.

Theorem reach_minv setup ops : hist_ok setup ops -> MInv (reach setup ops).
Proof.
  intros [Hs Ho]. pose proof (fresh_run setup Hs init fresh_init) as F.
  exact (proj2 (om_run _ ops _ Ho (conj (fresh_oinv _ F) (fresh_minv _ F)))).
Qed.

(* every LIVE market-making order of the owner in the pair is cancelled by MsgCancelMMOrder *)
Theorem mm_cancel_complete setup ops app owner pair s' e : hist_ok setup ops ->
  let s := reach setup ops in
  cancel_mm s app owner pair = Ok s' ->
  In e (orders s) -> o_type (fst e) = 3 -> is_live (o_status (fst e)) = true ->
  o_app (fst e) = app -> o_owner (fst e) = owner -> o_pair (fst e) = pair ->
  nonlive_at (ekey e) s'.
Proof.
  intros Hh s H Hin Hty Hl Ea Eo Ep. pose proof (reach_minv setup ops Hh) as HM. fold s in HM.
  destruct (mv_live _ HM e Hin Hty Hl) as (ix & Hix & Hid). rewrite Ea, Eo, Ep in Hix.
  destruct (mm_cancel_all _ _ _ _ _ _ H Hix) as [A _]. unfold ekey, okey. rewrite Ea, Ep. apply A, Hid.
Qed.

(* ... and by a replacing MsgMMOrder, in the state AFTER the new orders were placed *)
Theorem mm_replace_complete setup ops m now s' e : hist_ok setup ops ->
  let s := reach setup ops in
  mm_order s m now = Ok s' ->
  In e (orders s) -> o_type (fst e) = 3 -> is_live (o_status (fst e)) = true ->
  o_app (fst e) = mm_app m -> o_owner (fst e) = mm_owner m -> o_pair (fst e) = mm_pair m ->
  nonlive_at (ekey e) s'.
Proof.
  intros Hh s H Hin Hty Hl Ea Eo Ep. pose proof (reach_minv setup ops Hh) as HM. fold s in HM.
  pose proof (reach_oinv setup ops Hh) as HO. fold s in HO.
  destruct (mv_live _ HM e Hin Hty Hl) as (ix & Hix & Hid). rewrite Ea, Eo, Ep in Hix.
  destruct (mm_replace_cancels _ _ _ _ H) as (pr & s1 & bt & st & Hpr & Hc & Hn & Ht).
  specialize (Hn ix Hix _ Hid).
  destruct (find_pair_in _ _ _ _ Hpr) as (_ & Pa & Pi).
  assert (Hle : o_id (fst e) <= p_last_order pr).
  { apply (oi_id _ _ HO e pr Hin). rewrite Ea, Ep. exact Hpr. }
  (* the placement only adds keys with larger ids *)
  unfold mm_tail, obind in Ht.
  destruct (ssend s1 _ _ _ _) as [s2| |] eqn:E2; try discriminate.
  destruct (ssend s2 _ _ _ _) as [s3| |] eqn:E3; try discriminate.
  apply ssend_inv in E2. destruct E2 as (l2 & Hl2 & ->). apply ssend_inv in E3. destruct E3 as (l3 & Hl3 & ->). proj_cbn.
  destruct (mm_place _ _ _ _ pr true bt _ (orders s1)) as [[st1 ids1] last1] eqn:M1.
  destruct (mm_place _ _ _ _ pr false st last1 st1) as [[st2 ids2] last2] eqn:M2. injection Ht as <-.
  destruct (mm_place_who _ _ _ _ _ _ _ _ _ _ _ _ M1) as (_ & _ & A3).
  destruct (mm_place_who _ _ _ _ _ _ _ _ _ _ _ _ M2) as (_ & _ & B3).
  pose proof (mm_place_last_ge _ _ _ _ _ _ _ _ _ _ _ _ M1) as L1.
  unfold nonlive_at in *. proj_cbn. unfold ekey, okey. rewrite Ea, Ep.
  rewrite B3 by (left; cbn; lia). rewrite A3 by (left; cbn; lia). exact Hn.
Qed.
