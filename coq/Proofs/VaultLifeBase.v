(* Groundwork for the life-cycle invariants (Model/VaultLife.v):
   - [beffect]: the part of a step's [effect] (Proofs/VaultProofs.v) that the C01 invariant depends on -
     the single record touched, the moves of the published totals and the custody row of the ledger;
     [beffect_inv01] re-proves the preservation of [Inv01] from it (same argument as VaultInv.effect_inv01);
   - [shift]: the books seen through offsets.  While seized vaults await their auction the published totals
     exceed the sums over the open vaults by the collateral / principal of the locked vaults; the shifted
     state subtracts those offsets, so that "[Inv01] of the shifted state" is exactly the C01 identity of the
     property text, and every successful vault message (an [effect]) acts on the shifted state as the same
     record change. *)
From Comdex Require Import Lib.Base Lib.DecArith Lib.DecFacts Lib.Atomic Model.Vault Proofs.VaultProofs Proofs.VaultExec Proofs.VaultHandlers Proofs.VaultInv.
From Coq Require Import ZifyBool Sorted.

Record beffect (c : cfg) (s s' : state) (bc : bchange) : Prop := mkBE {
  be_pre : bc_pre c s bc;
  be_wf : bc_wf bc;
  be_vaults : vaults s' = bc_vaults bc (vaults s);
  be_svaults : svaults s' = bc_svaults bc (svaults s);
  be_vlen : vlen s' = match bc with BNew _ => vlen s + 1
                                 | BDel _ => if vlen s =? 0 then two64 - 1 else vlen s - 1
                                 | _ => vlen s end;
  be_vid : vid s' = match bc with BNew v => v_id v | _ => vid s end;
  be_sid : sid s' = match bc with SNew x => sv_id x | _ => sid s end;
  be_coll : forall a p, pcoll s' a p = pcoll s a p + (if touched bc a p then bc_din bc else 0);
  be_mint : forall a p, pmint s' a p = pmint s a p + (if touched bc a p then bc_dout bc else 0);
  be_ids : forall a p, pids s' a p = if touched bc a p then bc_ids bc (pids s a p) else pids s a p;
  be_cust : forall d, bal s' VAULT d - unsol s' d =
                      bal s VAULT d - unsol s d + (if denom_in c (bc_pair bc) =? d then bc_din bc else 0)
}.

Lemma effect_beffect c s s' from bc fee : from <> VAULT -> effect c s s' from bc fee -> beffect c s s' bc.
Proof.
  intros Hf E. constructor; try apply E.
  intros d. rewrite (ef_bal _ _ _ _ _ _ E), (ef_unsol _ _ _ _ _ _ E).
  unfold xfer, at2. rewrite VAULT_COLL, Z.eqb_refl. destruct (Z.eqb_spec VAULT from); [congruence|]. cbn [andb].
  rewrite (Z.eqb_sym d). destruct (_ =? d); lia.
Qed.

Lemma beffect_sums c s s' bc : Inv01 c s -> beffect c s s' bc ->
  (forall d, coll_sum c s' d = coll_sum c s d + (if denom_in c (bc_pair bc) =? d then bc_din bc else 0)) /\
  (forall d, debt_sum c s' d = debt_sum c s d + (if denom_out c (bc_pair bc) =? d then bc_dout bc else 0)) /\
  (forall a p, prod_coll_sum s' a p = prod_coll_sum s a p + (if touched bc a p then bc_din bc else 0)) /\
  (forall a p, prod_mint_sum s' a p = prod_mint_sum s a p + (if touched bc a p then bc_dout bc else 0)).
Proof.
  intros I E. pose proof (be_pre _ _ _ _ E) as Hpre.
  pose proof (be_vaults _ _ _ _ E) as Hv. pose proof (be_svaults _ _ _ _ E) as Hx.
  repeat split.
  - intros d. unfold coll_sum. rewrite Hv, Hx, (bc_wsum c s bc _ _ I Hpre).
    rewrite (delta_in (fun _ p => denom_in c p =? d) c s bc Hpre). reflexivity.
  - intros d. unfold debt_sum. rewrite Hv, Hx, (bc_wsum c s bc _ _ I Hpre).
    rewrite (delta_out (fun _ p => denom_out c p =? d) c s bc Hpre). reflexivity.
  - intros a p. unfold prod_coll_sum. rewrite Hv, Hx, (bc_wsum c s bc _ _ I Hpre).
    unfold inprod, sinprod. rewrite (delta_in (fun x y => (x =? a) && (y =? p)) c s bc Hpre).
    rewrite (touched_alt bc a p). unfold touched. destruct bc; cbn [bc_app bc_pair bc_din];
      rewrite ?(Z.eqb_sym a), ?(Z.eqb_sym p); try (destruct (_ && _); reflexivity).
  - intros a p. unfold prod_mint_sum. rewrite Hv, Hx, (bc_wsum c s bc _ _ I Hpre).
    unfold inprod, sinprod. rewrite (delta_out (fun x y => (x =? a) && (y =? p)) c s bc Hpre).
    rewrite (touched_alt bc a p). unfold touched. destruct bc; cbn [bc_app bc_pair bc_dout];
      rewrite ?(Z.eqb_sym a), ?(Z.eqb_sym p); try (destruct (_ && _); reflexivity).
Qed.

Theorem beffect_inv01 c s s' bc : Inv01 c s -> beffect c s s' bc -> Inv01 c s'.
Proof.
  intros I E. destruct (beffect_sums c s s' bc I E) as (Sc & _ & Spc & Spm).
  pose proof (be_pre _ _ _ _ E) as Hpre. pose proof (be_wf _ _ _ _ E) as Hwf.
  pose proof (be_vaults _ _ _ _ E) as Hv. pose proof (be_svaults _ _ _ _ E) as Hx.
  constructor.
  - (* custody *)
    intros d. pose proof (be_cust _ _ _ _ E d) as Hc. rewrite Sc. pose proof (i_custody _ _ I d). lia.
  - (* count *)
    rewrite (be_vlen _ _ _ _ E), Hv, (i_count _ _ I).
    destruct bc as [|v0 v1|v|v0|x0 x1|x]; cbn [bc_vaults bc_pre] in *; try reflexivity.
    + destruct Hpre as (Hf & Hid & _). unfold put_v. symmetry. apply (gput_found_len v_id _ v1 v0). rewrite Hid. exact Hf.
    + destruct Hpre as (Hid & _). unfold put_v. rewrite gput_new by (apply fresh_v; [apply (i_vid _ _ I)|exact Hid]).
      rewrite zlen_app. reflexivity.
    + pose proof (gdel_len v_id _ _ _ Hpre) as Hl. unfold del_v.
      destruct (Z.eqb_spec (zlen (vaults s)) 0); [|lia]. unfold zlen in *. lia.
  - (* products *)
    intros a p. destruct (i_prod _ _ I a p) as (P1 & P2 & P3).
    rewrite (be_coll _ _ _ _ E), (be_mint _ _ _ _ E), (be_ids _ _ _ _ E), Spc, Spm.
    rewrite (bc_prod_ids c s s' bc a p I Hpre Hv Hx), P1, P2, P3. repeat split; reflexivity.
  - (* vault ids ascending *)
    rewrite Hv. destruct bc as [|v0 v1|v|v0|x0 x1|x]; cbn [bc_vaults bc_pre] in *; try apply (i_sorted_v _ _ I).
    + destruct Hpre as (Hf & Hid & _). unfold put_v. rewrite (gput_found_keys v_id _ v1 v0) by (rewrite Hid; exact Hf). apply (i_sorted_v _ _ I).
    + destruct Hpre as (Hid & _). unfold put_v. rewrite gput_new by (apply fresh_v; [apply (i_vid _ _ I)|exact Hid]).
      rewrite map_app. cbn [map]. apply sorted_snoc; [apply (i_sorted_v _ _ I)|].
      pose proof (i_vid _ _ I) as HF. rewrite Forall_forall in *. intros k Hk. apply in_map_iff in Hk. destruct Hk as (w & <- & Hw).
      specialize (HF _ Hw). lia.
    + apply gdel_sorted. apply (i_sorted_v _ _ I).
  - (* stable vault ids ascending *)
    rewrite Hx. destruct bc as [|v0 v1|v|v0|x0 x1|x]; cbn [bc_svaults bc_pre] in *; try apply (i_sorted_sv _ _ I).
    + destruct Hpre as (Hf & Hid & _). unfold put_sv. rewrite (gput_found_keys sv_id _ x1 x0) by (rewrite Hid; exact Hf). apply (i_sorted_sv _ _ I).
    + destruct Hpre as (Hid & _). unfold put_sv. rewrite gput_new by (apply fresh_sv; [apply (i_sid _ _ I)|exact Hid]).
      rewrite map_app. cbn [map]. apply sorted_snoc; [apply (i_sorted_sv _ _ I)|].
      pose proof (i_sid _ _ I) as HF. rewrite Forall_forall in *. intros k Hk. apply in_map_iff in Hk. destruct Hk as (w & <- & Hw).
      specialize (HF _ Hw). lia.
  - (* ids below the counter *)
    rewrite Hv, (be_vid _ _ _ _ E). pose proof (i_vid _ _ I) as HF. rewrite Forall_forall in *. intros w Hw.
    destruct bc as [|v0 v1|v|v0|x0 x1|x]; cbn [bc_vaults bc_pre] in *; try (apply HF; exact Hw).
    + destruct Hpre as (Hf & Hid & _). apply (gput_in v_id) in Hw. destruct Hw as [->|Hw]; [|apply HF; exact Hw].
      rewrite Hid. apply (gfind_some v_id) in Hf. destruct Hf as [Hin _]. apply HF; exact Hin.
    + destruct Hpre as (Hid & _). apply (gput_in v_id) in Hw. destruct Hw as [->|Hw]; [lia|]. specialize (HF _ Hw). lia.
    + apply (gdel_in v_id) in Hw. apply HF; exact Hw.
  - rewrite Hx, (be_sid _ _ _ _ E). pose proof (i_sid _ _ I) as HF. rewrite Forall_forall in *. intros w Hw.
    destruct bc as [|v0 v1|v|v0|x0 x1|x]; cbn [bc_svaults bc_pre] in *; try (apply HF; exact Hw).
    + destruct Hpre as (Hf & Hid & _). apply (gput_in sv_id) in Hw. destruct Hw as [->|Hw]; [|apply HF; exact Hw].
      rewrite Hid. apply (gfind_some sv_id) in Hf. destruct Hf as [Hin _]. apply HF; exact Hin.
    + destruct Hpre as (Hid & _). apply (gput_in sv_id) in Hw. destruct Hw as [->|Hw]; [lia|]. specialize (HF _ Hw). lia.
  - (* CDP products *)
    rewrite Hv. intros w Hw. pose proof (i_kind_v _ _ I) as HK.
    destruct bc as [|v0 v1|v|v0|x0 x1|x]; cbn [bc_vaults bc_pre] in *; try (apply HK; exact Hw).
    + destruct Hpre as (Hf & _ & _ & Hp). apply (gput_in v_id) in Hw. destruct Hw as [->|Hw]; [|apply HK; exact Hw].
      rewrite Hp. apply (gfind_some v_id) in Hf. destruct Hf as [Hin _]. apply HK; exact Hin.
    + destruct Hpre as (_ & Hk). apply (gput_in v_id) in Hw. destruct Hw as [->|Hw]; [exact Hk|apply HK; exact Hw].
    + apply (gdel_in v_id) in Hw. apply HK; exact Hw.
  - rewrite Hx. intros w Hw. pose proof (i_kind_sv _ _ I) as HK.
    destruct bc as [|v0 v1|v|v0|x0 x1|x]; cbn [bc_svaults bc_pre] in *; try (apply HK; exact Hw).
    + destruct Hpre as (Hf & _ & _ & Hp). apply (gput_in sv_id) in Hw. destruct Hw as [->|Hw]; [|apply HK; exact Hw].
      rewrite Hp. apply (gfind_some sv_id) in Hf. destruct Hf as [Hin _]. apply HK; exact Hin.
    + destruct Hpre as (_ & Hk). apply (gput_in sv_id) in Hw. destruct Hw as [->|Hw]; [exact Hk|apply HK; exact Hw].
  - (* amounts never negative *)
    unfold VWf. rewrite Hv. intros w Hw. pose proof (i_wf _ _ I) as HW. unfold VWf in HW.
    destruct bc as [|v0 v1|v|v0|x0 x1|x]; cbn [bc_vaults bc_wf] in *; try (apply HW; exact Hw).
    + apply (gput_in v_id) in Hw. destruct Hw as [->|Hw]; [exact Hwf|apply HW; exact Hw].
    + apply (gput_in v_id) in Hw. destruct Hw as [->|Hw]; [exact Hwf|apply HW; exact Hw].
    + apply (gdel_in v_id) in Hw. apply HW; exact Hw.
Qed.

(* ---------- the books seen through offsets ---------- *)
Definition shift (s : state) (oc : Z -> Z) (opc opm : Z -> Z -> Z) : state :=
  set_prods (set_bal s (fun a x => if a =? VAULT then bal s a x - oc x else bal s a x))
            (fun a p => Some (mkP (pcoll s a p - opc a p) (pmint s a p - opm a p) (pids s a p))).

Lemma shift_vaults s oc opc opm : vaults (shift s oc opc opm) = vaults s. Proof. reflexivity. Qed.
Lemma shift_svaults s oc opc opm : svaults (shift s oc opc opm) = svaults s. Proof. reflexivity. Qed.
Lemma shift_vlen s oc opc opm : vlen (shift s oc opc opm) = vlen s. Proof. reflexivity. Qed.
Lemma shift_vid s oc opc opm : vid (shift s oc opc opm) = vid s. Proof. reflexivity. Qed.
Lemma shift_sid s oc opc opm : sid (shift s oc opc opm) = sid s. Proof. reflexivity. Qed.
Lemma shift_unsol s oc opc opm : unsol (shift s oc opc opm) = unsol s. Proof. reflexivity. Qed.
Lemma shift_cust s oc opc opm d : bal (shift s oc opc opm) VAULT d = bal s VAULT d - oc d. Proof. reflexivity. Qed.
Lemma shift_pcoll s oc opc opm a p : pcoll (shift s oc opc opm) a p = pcoll s a p - opc a p. Proof. reflexivity. Qed.
Lemma shift_pmint s oc opc opm a p : pmint (shift s oc opc opm) a p = pmint s a p - opm a p. Proof. reflexivity. Qed.
Lemma shift_pids s oc opc opm a p : pids (shift s oc opc opm) a p = pids s a p. Proof. reflexivity. Qed.
Lemma shift_pre c s oc opc opm bc : bc_pre c (shift s oc opc opm) bc = bc_pre c s bc. Proof. destruct bc; reflexivity. Qed.
Lemma shift_coll_sum c s oc opc opm d : coll_sum c (shift s oc opc opm) d = coll_sum c s d. Proof. reflexivity. Qed.
Lemma shift_debt_sum c s oc opc opm d : debt_sum c (shift s oc opc opm) d = debt_sum c s d. Proof. reflexivity. Qed.
Lemma shift_prod_coll_sum s oc opc opm a p : prod_coll_sum (shift s oc opc opm) a p = prod_coll_sum s a p. Proof. reflexivity. Qed.
Lemma shift_prod_mint_sum s oc opc opm a p : prod_mint_sum (shift s oc opc opm) a p = prod_mint_sum s a p. Proof. reflexivity. Qed.
Lemma shift_prod_ids s oc opc opm a p : prod_ids (shift s oc opc opm) a p = prod_ids s a p. Proof. reflexivity. Qed.

(* a record change of the real books with moves of the totals [dc], [dm] is the same record change of the
   shifted books when the offsets move by the difference *)
Lemma beffect_shift c s s' bc oc opc opm oc' opc' opm' :
  bc_pre c s bc -> bc_wf bc ->
  vaults s' = bc_vaults bc (vaults s) -> svaults s' = bc_svaults bc (svaults s) ->
  vlen s' = match bc with BNew _ => vlen s + 1 | BDel _ => if vlen s =? 0 then two64 - 1 else vlen s - 1 | _ => vlen s end ->
  vid s' = match bc with BNew v => v_id v | _ => vid s end ->
  sid s' = match bc with SNew x => sv_id x | _ => sid s end ->
  (forall a p, pcoll s' a p - opc' a p = pcoll s a p - opc a p + (if touched bc a p then bc_din bc else 0)) ->
  (forall a p, pmint s' a p - opm' a p = pmint s a p - opm a p + (if touched bc a p then bc_dout bc else 0)) ->
  (forall a p, pids s' a p = if touched bc a p then bc_ids bc (pids s a p) else pids s a p) ->
  (forall d, bal s' VAULT d - oc' d - unsol s' d = bal s VAULT d - oc d - unsol s d + (if denom_in c (bc_pair bc) =? d then bc_din bc else 0)) ->
  beffect c (shift s oc opc opm) (shift s' oc' opc' opm') bc.
Proof.
  intros Hpre Hwf Hv Hx Hl Hi Hsi Hc Hm Hids Hb.
  constructor; rewrite ?shift_pre, ?shift_vaults, ?shift_svaults, ?shift_vlen, ?shift_vid, ?shift_sid; try assumption;
    intros; rewrite ?shift_pcoll, ?shift_pmint, ?shift_pids, ?shift_cust, ?shift_unsol; auto.
Qed.

(* a successful vault message acts on the shifted books as on the real ones *)
Lemma effect_shift c s s' from bc fee oc opc opm : from <> VAULT -> effect c s s' from bc fee ->
  beffect c (shift s oc opc opm) (shift s' oc opc opm) bc.
Proof.
  intros Hf E. pose proof (effect_beffect c s s' from bc fee Hf E) as B.
  apply beffect_shift; try apply B.
  - intros a p. rewrite (be_coll _ _ _ _ B). lia.
  - intros a p. rewrite (be_mint _ _ _ _ B). lia.
  - intros d. pose proof (be_cust _ _ _ _ B d). lia.
Qed.

(* what the shifted invariant says about the real books *)
Lemma shift_prods_exist c s oc opc opm : Inv01 c (shift s oc opc opm) -> ProdsExist s.
Proof.
  intros I. split.
  - intros v Hin. destruct (i_prod _ _ I (v_app v) (v_pair v)) as (_ & _ & P3). rewrite shift_pids, shift_prod_ids in P3.
    unfold pfound. unfold pids in P3. destruct (prods s (v_app v) (v_pair v)); [reflexivity|exfalso].
    assert (Hi : In (v_id v) (prod_ids s (v_app v) (v_pair v))).
    { unfold prod_ids. apply in_or_app. left. apply in_map. apply filter_In. split; [exact Hin|].
      unfold inprod. rewrite !Z.eqb_refl. reflexivity. }
    rewrite <- P3 in Hi. destruct Hi.
  - intros x Hin. destruct (i_prod _ _ I (sv_app x) (sv_pair x)) as (_ & _ & P3). rewrite shift_pids, shift_prod_ids in P3.
    unfold pfound. unfold pids in P3. destruct (prods s (sv_app x) (sv_pair x)); [reflexivity|exfalso].
    assert (Hi : In (sv_id x) (prod_ids s (sv_app x) (sv_pair x))).
    { unfold prod_ids. apply in_or_app. right. apply in_map. apply filter_In. split; [exact Hin|].
      unfold sinprod. rewrite !Z.eqb_refl. reflexivity. }
    rewrite <- P3 in Hi. destruct Hi.
Qed.

Lemma shift_wf c s oc opc opm : Inv01 c (shift s oc opc opm) -> VWf s.
Proof. intros I. exact (i_wf _ _ I). Qed.

(* an environment change or a transfer that does not touch the books *)
Lemma shift_env c s s' oc opc opm : Inv01 c (shift s oc opc opm) ->
  vaults s' = vaults s -> svaults s' = svaults s -> prods s' = prods s -> vlen s' = vlen s -> vid s' = vid s -> sid s' = sid s ->
  (forall d, bal s' VAULT d - unsol s' d = bal s VAULT d - unsol s d) -> Inv01 c (shift s' oc opc opm).
Proof.
  intros I Hv Hx Hp Hl Hi Hsi Hb.
  apply (beffect_inv01 c _ _ BNone I). apply beffect_shift; cbn [bc_pre bc_wf bc_vaults bc_svaults touched bc_din bc_dout bc_ids]; try assumption; try exact Logic.I.
  - intros a p. unfold pcoll. rewrite Hp. lia.
  - intros a p. unfold pmint. rewrite Hp. lia.
  - intros a p. unfold pids. rewrite Hp. reflexivity.
  - intros d. specialize (Hb d). destruct (_ =? d); lia.
Qed.
