(* C08 proofs, part 1: finite maps, sums over id ranges, and how the book sums of Model/Lend.v
   move under the elementary changes of the books (a lend / borrow record rewritten, created,
   deleted). *)
From Comdex Require Import Lib.Base Lib.DecArith Model.Lend.
From Coq Require Import ZifyBool.

(* ---------- finite maps ---------- *)
Lemma peqb_eq a b : peqb a b = true <-> a = b.
Proof.
  unfold peqb. destruct a as [a1 a2], b as [b1 b2]; cbn. split.
  - intros H. apply andb_prop in H as [H1 H2]. f_equal; lia.
  - intros H. injection H as -> ->. rewrite !Z.eqb_refl. reflexivity.
Qed.
Lemma peqb_refl a : peqb a a = true. Proof. apply peqb_eq. reflexivity. Qed.
Lemma peqb_sym a b : peqb a b = peqb b a.
Proof. unfold peqb. rewrite (Z.eqb_sym (fst a)), (Z.eqb_sym (snd a)). reflexivity. Qed.

Section FMapFacts.
  Context {K A : Type} (keqb : K -> K -> bool).
  Hypothesis keqb_eq : forall a b, keqb a b = true <-> a = b.

  Lemma keqb_refl a : keqb a a = true. Proof. apply keqb_eq. reflexivity. Qed.
  Lemma keqb_neq a b : a <> b -> keqb a b = false.
  Proof. intros H. destruct (keqb a b) eqn:E; [|reflexivity]. apply keqb_eq in E. contradiction. Qed.

  Lemma fget_fset (m : list (K * A)) k v k' :
    fget keqb (fset keqb m k v) k' = if keqb k k' then Some v else fget keqb m k'.
  Proof.
    induction m as [|[k0 v0] r IH]; cbn.
    - destruct (keqb k k'); reflexivity.
    - destruct (keqb k0 k) eqn:E0; cbn.
      + apply keqb_eq in E0. subst k0. destruct (keqb k k'); reflexivity.
      + rewrite IH. destruct (keqb k0 k') eqn:E1; [|reflexivity].
        apply keqb_eq in E1. subst k0. destruct (keqb k k') eqn:E2; [|reflexivity].
        apply keqb_eq in E2. subst k'. rewrite keqb_refl in E0. discriminate.
  Qed.

  Lemma fget_fdel (m : list (K * A)) k k' :
    fget keqb (fdel keqb m k) k' = if keqb k k' then None else fget keqb m k'.
  Proof.
    induction m as [|[k0 v0] r IH]; cbn.
    - destruct (keqb k k'); reflexivity.
    - destruct (keqb k0 k) eqn:E0; cbn.
      + apply keqb_eq in E0. subst k0. rewrite IH. destruct (keqb k k'); reflexivity.
      + rewrite IH. destruct (keqb k0 k') eqn:E1; [|reflexivity].
        apply keqb_eq in E1. subst k0. rewrite (keqb_neq k k'); [reflexivity|].
        intros ->. rewrite keqb_refl in E0. discriminate.
  Qed.

  Lemma fset_fset (m : list (K * A)) k a b : fset keqb (fset keqb m k a) k b = fset keqb m k b.
  Proof.
    induction m as [|[k0 v0] r IH]; cbn.
    - rewrite keqb_refl. reflexivity.
    - destruct (keqb k0 k) eqn:E0; cbn.
      + rewrite keqb_refl. reflexivity.
      + rewrite E0, IH. reflexivity.
  Qed.
  Lemma fdel_fset (m : list (K * A)) k a : fdel keqb (fset keqb m k a) k = fdel keqb m k.
  Proof.
    induction m as [|[k0 v0] r IH]; cbn.
    - rewrite keqb_refl. reflexivity.
    - destruct (keqb k0 k) eqn:E0; cbn.
      + rewrite keqb_refl. reflexivity.
      + rewrite E0, IH. reflexivity.
  Qed.

  Lemma fget_in (m : list (K * A)) k v : fget keqb m k = Some v -> In (k, v) m.
  Proof.
    induction m as [|[k0 v0] r IH]; cbn; [discriminate|].
    destruct (keqb k0 k) eqn:E.
    - apply keqb_eq in E. subst. intros H. injection H as ->. left. reflexivity.
    - intros H. right. apply IH. exact H.
  Qed.
End FMapFacts.

Lemma zeqb_eq a b : (a =? b) = true <-> a = b. Proof. apply Z.eqb_eq. Qed.

Lemma zget_zset {A} (m : list (Z * A)) k v k' : zget (zset m k v) k' = if k =? k' then Some v else zget m k'.
Proof. apply (fget_fset Z.eqb zeqb_eq). Qed.
Lemma zget_zdel {A} (m : list (Z * A)) k k' : zget (zdel m k) k' = if k =? k' then None else zget m k'.
Proof. apply (fget_fdel Z.eqb zeqb_eq). Qed.
Lemma zset_zset {A} (m : list (Z * A)) k a b : zset (zset m k a) k b = zset m k b.
Proof. apply (fset_fset Z.eqb zeqb_eq). Qed.
Lemma zdel_zset {A} (m : list (Z * A)) k a : zdel (zset m k a) k = zdel m k.
Proof. apply (fdel_fset Z.eqb zeqb_eq). Qed.
Lemma pget_pset {A} (m : list ((Z * Z) * A)) k v k' : pget (pset m k v) k' = if peqb k k' then Some v else pget m k'.
Proof. apply (fget_fset peqb peqb_eq). Qed.
Lemma zget_zset_same {A} (m : list (Z * A)) k v : zget (zset m k v) k = Some v.
Proof. rewrite zget_zset, Z.eqb_refl. reflexivity. Qed.
Lemma zget_zset_other {A} (m : list (Z * A)) k v k' : k <> k' -> zget (zset m k v) k' = zget m k'.
Proof. intros. rewrite zget_zset. destruct (Z.eqb_spec k k'); [contradiction|reflexivity]. Qed.

(* ---------- sums over 1..n ---------- *)
Lemma sumz_ext f g n : (forall i, 1 <= i <= Z.of_nat n -> f i = g i) -> sumz f n = sumz g n.
Proof.
  induction n as [|n IH]; intros H; [reflexivity|].
  cbn [sumz]. rewrite IH, H; [reflexivity|lia|intros; apply H; lia].
Qed.

Lemma sumz_upd f g n k : 1 <= k <= Z.of_nat n -> (forall i, i <> k -> g i = f i) ->
  sumz g n = sumz f n + (g k - f k).
Proof.
  induction n as [|n IH]; intros Hk H; [lia|].
  cbn [sumz]. destruct (Z.eq_dec k (Z.of_nat (S n))) as [->|Hne].
  - rewrite (sumz_ext g f n); [lia|]. intros i Hi. apply H. lia.
  - rewrite IH by (try lia; assumption). rewrite (H (Z.of_nat (S n))) by lia. lia.
Qed.

Lemma sumz_zero f n : (forall i, 1 <= i <= Z.of_nat n -> f i = 0) -> sumz f n = 0.
Proof.
  induction n as [|n IH]; intros H; [reflexivity|].
  cbn [sumz]. rewrite IH, H; [reflexivity|lia|intros; apply H; lia].
Qed.

Lemma zseq_S n : zseq (S n) = zseq n ++ [Z.of_nat (S n)].
Proof. unfold zseq. rewrite seq_S, map_app. reflexivity. Qed.
Lemma in_zseq n i : In i (zseq n) <-> 1 <= i <= Z.of_nat n.
Proof.
  unfold zseq. rewrite in_map_iff. split.
  - intros (x & <- & Hx). apply in_seq in Hx. lia.
  - intros H. exists (Z.to_nat i). split; [lia|]. apply in_seq. lia.
Qed.
Lemma filter_ext_zseq (p q : Z -> bool) n :
  (forall i, 1 <= i <= Z.of_nat n -> p i = q i) -> filter p (zseq n) = filter q (zseq n).
Proof. intros H. apply filter_ext_in. intros i Hi. apply H. apply in_zseq. exact Hi. Qed.

(* ascending lists and remove_sorted *)
Inductive asc : list Z -> Prop :=
| asc_nil : asc []
| asc_cons x r : asc r -> (forall y, In y r -> x < y) -> asc (x :: r).

Lemma asc_filter p l : asc l -> asc (filter p l).
Proof.
  induction 1 as [|x r Hr IH Hx]; cbn; [constructor|].
  destruct (p x); [|exact IH]. constructor; [exact IH|].
  intros y Hy. apply Hx. apply filter_In in Hy. tauto.
Qed.
Lemma asc_zseq n : asc (zseq n).
Proof.
  induction n as [|n IH]; [constructor|]. rewrite zseq_S.
  assert (G : forall l x, asc l -> (forall y, In y l -> y < x) -> asc (l ++ [x])).
  { induction l as [|a r IHr]; intros x Ha Hlt; cbn.
    - constructor; [constructor|]. intros y [].
    - inversion Ha as [|? ? Hr Hx]; subst. constructor.
      + apply IHr; [exact Hr|]. intros y Hy. apply Hlt. right. exact Hy.
      + intros y Hy. apply in_app_or in Hy as [Hy|[<-|[]]]; [apply Hx; exact Hy|]. apply Hlt. left. reflexivity. }
  apply G; [exact IH|]. intros y Hy. apply in_zseq in Hy. lia.
Qed.
Lemma filter_all {A} (p : A -> bool) l : (forall y, In y l -> p y = true) -> filter p l = l.
Proof.
  induction l as [|x r IH]; intros H; cbn; [reflexivity|].
  rewrite (H x) by (left; reflexivity). f_equal. apply IH. intros y Hy. apply H. right. exact Hy.
Qed.
Lemma remove_sorted_filter id l : asc l -> remove_sorted id l = filter (fun x => negb (x =? id)) l.
Proof.
  induction 1 as [|x r Hr IH Hx]; cbn; [reflexivity|].
  destruct (Z.geb_spec x id) as [Hge|Hlt].
  - destruct (Z.eqb_spec x id) as [->|Hne]; cbn.
    + (* everything after is larger *)
      symmetry. apply filter_all. intros y Hy. specialize (Hx y Hy). lia.
    + f_equal. symmetry. apply filter_all. intros y Hy. specialize (Hx y Hy). lia.
  - destruct (Z.eqb_spec x id); [lia|]. cbn. f_equal. exact IH.
Qed.

(* ---------- how the book sums move ---------- *)
Lemma filter_and {A} (p q : A -> bool) l : filter (fun x => p x && q x) l = filter q (filter p l).
Proof.
  induction l as [|x r IH]; cbn; [reflexivity|].
  destruct (p x); cbn; [destruct (q x); cbn; rewrite IH; reflexivity|exact IH].
Qed.

Section Measures.
  Variable cfg : config.

  (* a lend record rewritten in place *)
  Lemma lend_sum_upd L B nl nb k i l l' :
    zget L i = Some l -> lkey l' = lkey l -> 1 <= i <= Z.of_nat nl ->
    lend_sum (zset L i l') B nl nb k
    = lend_sum L B nl nb k + (if peqb (lkey l) k then l_avail l' - l_avail l else 0).
  Proof.
    intros Hg Hk Hi. unfold lend_sum.
    rewrite (sumz_upd (lterm L B nb k) (lterm (zset L i l') B nb k) nl i Hi).
    - unfold lterm. rewrite zget_zset_same, Hg, Hk. destruct (peqb (lkey l) k); lia.
    - intros i' Hne. unfold lterm. rewrite zget_zset_other by congruence. reflexivity.
  Qed.

  Lemma lids_upd L nl k i l l' :
    zget L i = Some l -> lkey l' = lkey l ->
    filter (l_in_key (zset L i l') k) (zseq nl) = filter (l_in_key L k) (zseq nl).
  Proof.
    intros Hg Hk. apply filter_ext_zseq. intros i' _. unfold l_in_key. rewrite zget_zset.
    destruct (Z.eqb_spec i i') as [<-|]; [rewrite Hg, Hk|]; reflexivity.
  Qed.

  (* a new lend record under the next id *)
  Lemma lend_sum_new L B nl nb k l :
    pledged B nb (Z.of_nat (S nl)) = 0 ->
    lend_sum (zset L (Z.of_nat (S nl)) l) B (S nl) nb k
    = lend_sum L B nl nb k + (if peqb (lkey l) k then l_avail l else 0).
  Proof.
    intros Hp. unfold lend_sum. cbn [sumz].
    rewrite (sumz_ext (lterm (zset L (Z.of_nat (S nl)) l) B nb k) (lterm L B nb k) nl).
    - f_equal. unfold lterm. rewrite zget_zset_same, Hp. destruct (peqb (lkey l) k); lia.
    - intros i Hi. unfold lterm. rewrite zget_zset_other by lia. reflexivity.
  Qed.

  Lemma lids_new L nl k l :
    zget L (Z.of_nat (S nl)) = None ->
    filter (l_in_key (zset L (Z.of_nat (S nl)) l) k) (zseq (S nl))
    = filter (l_in_key L k) (zseq nl) ++ (if peqb (lkey l) k then [Z.of_nat (S nl)] else []).
  Proof.
    intros Hn. rewrite zseq_S, filter_app. f_equal.
    - apply filter_ext_zseq. intros i Hi. unfold l_in_key. rewrite zget_zset_other by lia. reflexivity.
    - cbn. unfold l_in_key. rewrite zget_zset_same. destruct (peqb (lkey l) k); reflexivity.
  Qed.

  (* a lend record deleted *)
  Lemma lend_sum_del L B nl nb k i l :
    zget L i = Some l -> pledged B nb i = 0 -> 1 <= i <= Z.of_nat nl ->
    lend_sum (zdel L i) B nl nb k = lend_sum L B nl nb k - (if peqb (lkey l) k then l_avail l else 0).
  Proof.
    intros Hg Hp Hi. unfold lend_sum.
    rewrite (sumz_upd (lterm L B nb k) (lterm (zdel L i) B nb k) nl i Hi).
    - unfold lterm. rewrite zget_zdel, Z.eqb_refl, Hg, Hp. destruct (peqb (lkey l) k); lia.
    - intros i' Hne. unfold lterm. rewrite zget_zdel. destruct (Z.eqb_spec i i'); [congruence|reflexivity].
  Qed.

  Lemma lids_del L nl k i l :
    zget L i = Some l ->
    filter (l_in_key (zdel L i) k) (zseq nl)
    = if peqb (lkey l) k then remove_sorted i (filter (l_in_key L k) (zseq nl)) else filter (l_in_key L k) (zseq nl).
  Proof.
    intros Hg.
    assert (E : filter (l_in_key (zdel L i) k) (zseq nl)
                = filter (fun x => negb (x =? i)) (filter (l_in_key L k) (zseq nl))).
    { rewrite <- filter_and. apply filter_ext. intros x. unfold l_in_key. rewrite zget_zdel.
      rewrite (Z.eqb_sym x i). destruct (i =? x); cbn; [rewrite andb_false_r|rewrite andb_true_r]; reflexivity. }
    rewrite E. destruct (peqb (lkey l) k) eqn:Ek.
    - symmetry. apply remove_sorted_filter. apply asc_filter. apply asc_zseq.
    - apply filter_all. intros y Hy. apply filter_In in Hy as [_ Hy].
      destruct (Z.eqb_spec y i) as [->|]; [|reflexivity].
      unfold l_in_key in Hy. rewrite Hg, Ek in Hy. discriminate.
  Qed.

  (* the pledged sums shift at one lend id *)
  Lemma lend_sum_shift L B B' nl nb nb' k i0 d :
    (forall i, pledged B' nb' i = pledged B nb i + (if i0 =? i then d else 0)) ->
    (forall l, zget L i0 = Some l -> 1 <= i0 <= Z.of_nat nl) ->
    lend_sum L B' nl nb' k
    = lend_sum L B nl nb k + (match zget L i0 with Some l => if peqb (lkey l) k then d else 0 | None => 0 end).
  Proof.
    intros Hp Hwf. unfold lend_sum. destruct (zget L i0) as [l|] eqn:Hg.
    - rewrite (sumz_upd (lterm L B nb k) (lterm L B' nb' k) nl i0 (Hwf l eq_refl)).
      + unfold lterm. rewrite Hg, Hp, Z.eqb_refl. destruct (peqb (lkey l) k); lia.
      + intros i Hne. unfold lterm. rewrite Hp. destruct (Z.eqb_spec i0 i); [congruence|].
        destruct (zget L i); [|reflexivity]. destruct (peqb _ _); lia.
    - rewrite Z.add_0_r. apply sumz_ext. intros i _. unfold lterm. rewrite Hp.
      destruct (Z.eqb_spec i0 i) as [<-|]; [rewrite Hg; reflexivity|].
      destruct (zget L i); [|reflexivity]. destruct (peqb _ _); lia.
  Qed.

  Definition bdelta (b : borrowpos) (d : Z) : Z := if negb (b_liq b) then d else 0.

  (* a borrow record rewritten in place (same lend, same liquidation flag) *)
  Lemma pledged_upd B nb j b b' i :
    zget B j = Some b -> b_lend b' = b_lend b -> b_liq b' = b_liq b -> 1 <= j <= Z.of_nat nb ->
    pledged (zset B j b') nb i = pledged B nb i + (if b_lend b =? i then bdelta b (b_in b' - b_in b) else 0).
  Proof.
    intros Hg Hl Hq Hj. unfold pledged.
    rewrite (sumz_upd (bterm B i) (bterm (zset B j b') i) nb j Hj).
    - unfold bterm, bdelta. rewrite zget_zset_same, Hg, Hl, Hq.
      destruct (b_lend b =? i); destruct (b_liq b); cbn; lia.
    - intros j' Hne. unfold bterm. rewrite zget_zset_other by congruence. reflexivity.
  Qed.

  Lemma pledged_new B nb b i :
    pledged (zset B (Z.of_nat (S nb)) b) (S nb) i = pledged B nb i + (if b_lend b =? i then bdelta b (b_in b) else 0).
  Proof.
    unfold pledged. cbn [sumz].
    rewrite (sumz_ext (bterm (zset B (Z.of_nat (S nb)) b) i) (bterm B i) nb).
    - f_equal. unfold bterm, bdelta. rewrite zget_zset_same. destruct (b_lend b =? i); destruct (b_liq b); reflexivity.
    - intros j Hj. unfold bterm. rewrite zget_zset_other by lia. reflexivity.
  Qed.

  Lemma pledged_del B nb j b i :
    zget B j = Some b -> 1 <= j <= Z.of_nat nb ->
    pledged (zdel B j) nb i = pledged B nb i + (if b_lend b =? i then bdelta b (- b_in b) else 0).
  Proof.
    intros Hg Hj. unfold pledged.
    rewrite (sumz_upd (bterm B i) (bterm (zdel B j) i) nb j Hj).
    - unfold bterm, bdelta. rewrite zget_zdel, Z.eqb_refl, Hg.
      destruct (b_lend b =? i); destruct (b_liq b); cbn; lia.
    - intros j' Hne. unfold bterm. rewrite zget_zdel. destruct (Z.eqb_spec j j'); [congruence|reflexivity].
  Qed.

  (* a borrow record flagged as handed over to an auction: its collateral leaves the pledged sum *)
  Lemma pledged_flag B nb j b b' i :
    zget B j = Some b -> b_liq b' = true -> 1 <= j <= Z.of_nat nb ->
    pledged (zset B j b') nb i = pledged B nb i + (if b_lend b =? i then bdelta b (- b_in b) else 0).
  Proof.
    intros Hg Hq Hj. unfold pledged.
    rewrite (sumz_upd (bterm B i) (bterm (zset B j b') i) nb j Hj).
    - unfold bterm, bdelta. rewrite zget_zset_same, Hg, Hq. rewrite andb_false_r.
      destruct (b_lend b =? i); destruct (b_liq b); cbn; lia.
    - intros j' Hne. unfold bterm. rewrite zget_zset_other by congruence. reflexivity.
  Qed.

  Definition okey (b : borrowpos) (k : Z * Z) : bool :=
    match bkey cfg b with Some k' => peqb k' k | None => false end.
  Definition odelta (b : borrowpos) (stable : bool) (k : Z * Z) (d : Z) : Z :=
    if okey b k && negb (b_liq b) && Bool.eqb (b_stable b) stable then d else 0.

  Lemma bor_sum_upd B nb j b b' stable k :
    zget B j = Some b -> b_pair b' = b_pair b -> b_liq b' = b_liq b -> b_stable b' = b_stable b -> 1 <= j <= Z.of_nat nb ->
    bor_sum cfg (zset B j b') nb stable k = bor_sum cfg B nb stable k + odelta b stable k (b_out b' - b_out b).
  Proof.
    intros Hg Hp Hq Hs Hj. unfold bor_sum.
    rewrite (sumz_upd (oterm cfg B stable k) (oterm cfg (zset B j b') stable k) nb j Hj).
    - unfold oterm, odelta, okey, b_in_key, bkey. rewrite zget_zset_same, Hg, Hp, Hq, Hs.
      destruct (zget (c_pairs cfg) (b_pair b)) as [pr|]; cbn; [|lia].
      destruct (peqb _ k); destruct (b_liq b); destruct (Bool.eqb _ _); cbn; lia.
    - intros j' Hne. unfold oterm, b_in_key. rewrite zget_zset_other by congruence. reflexivity.
  Qed.

  Lemma bor_sum_new B nb b stable k :
    bor_sum cfg (zset B (Z.of_nat (S nb)) b) (S nb) stable k = bor_sum cfg B nb stable k + odelta b stable k (b_out b).
  Proof.
    unfold bor_sum. cbn [sumz].
    rewrite (sumz_ext (oterm cfg (zset B (Z.of_nat (S nb)) b) stable k) (oterm cfg B stable k) nb).
    - f_equal. unfold oterm, odelta, okey, b_in_key. rewrite zget_zset_same.
      destruct (bkey cfg b); cbn; [|reflexivity]. destruct (peqb _ k); destruct (b_liq b); destruct (Bool.eqb _ _); reflexivity.
    - intros j Hj. unfold oterm, b_in_key. rewrite zget_zset_other by lia. reflexivity.
  Qed.

  Lemma bor_sum_del B nb j b stable k :
    zget B j = Some b -> 1 <= j <= Z.of_nat nb ->
    bor_sum cfg (zdel B j) nb stable k = bor_sum cfg B nb stable k + odelta b stable k (- b_out b).
  Proof.
    intros Hg Hj. unfold bor_sum.
    rewrite (sumz_upd (oterm cfg B stable k) (oterm cfg (zdel B j) stable k) nb j Hj).
    - unfold oterm, odelta, okey, b_in_key. rewrite zget_zdel, Z.eqb_refl, Hg.
      destruct (bkey cfg b); cbn; [|lia]. destruct (peqb _ k); destruct (b_liq b); destruct (Bool.eqb _ _); cbn; lia.
    - intros j' Hne. unfold oterm, b_in_key. rewrite zget_zdel. destruct (Z.eqb_spec j j'); [congruence|reflexivity].
  Qed.

  Lemma bor_sum_flag B nb j b b' stable k :
    zget B j = Some b -> b_liq b' = true -> 1 <= j <= Z.of_nat nb ->
    bor_sum cfg (zset B j b') nb stable k = bor_sum cfg B nb stable k + odelta b stable k (- b_out b).
  Proof.
    intros Hg Hq Hj. unfold bor_sum.
    rewrite (sumz_upd (oterm cfg B stable k) (oterm cfg (zset B j b') stable k) nb j Hj).
    - unfold oterm, odelta, okey, b_in_key. rewrite zget_zset_same, Hg, Hq. rewrite andb_false_r. cbn [andb].
      destruct (bkey cfg b); cbn; [|lia]. destruct (peqb _ k); destruct (b_liq b); destruct (Bool.eqb _ _); cbn; lia.
    - intros j' Hne. unfold oterm, b_in_key. rewrite zget_zset_other by congruence. reflexivity.
  Qed.

  Lemma bids_upd B nb k j b b' :
    zget B j = Some b -> b_pair b' = b_pair b ->
    filter (b_in_key cfg (zset B j b') k) (zseq nb) = filter (b_in_key cfg B k) (zseq nb).
  Proof.
    intros Hg Hp. apply filter_ext_zseq. intros j' _. unfold b_in_key, bkey. rewrite zget_zset.
    destruct (Z.eqb_spec j j') as [<-|]; [rewrite Hg, Hp|]; reflexivity.
  Qed.

  Lemma bids_new B nb k b :
    filter (b_in_key cfg (zset B (Z.of_nat (S nb)) b) k) (zseq (S nb))
    = filter (b_in_key cfg B k) (zseq nb) ++ (if okey b k then [Z.of_nat (S nb)] else []).
  Proof.
    rewrite zseq_S, filter_app. f_equal.
    - apply filter_ext_zseq. intros j Hj. unfold b_in_key. rewrite zget_zset_other by lia. reflexivity.
    - cbn. unfold b_in_key, okey. rewrite zget_zset_same. destruct (bkey cfg b) as [k'|]; [destruct (peqb k' k)|]; reflexivity.
  Qed.

  Lemma bids_del B nb k j b :
    zget B j = Some b ->
    filter (b_in_key cfg (zdel B j) k) (zseq nb)
    = if okey b k then remove_sorted j (filter (b_in_key cfg B k) (zseq nb)) else filter (b_in_key cfg B k) (zseq nb).
  Proof.
    intros Hg.
    assert (E : filter (b_in_key cfg (zdel B j) k) (zseq nb)
                = filter (fun x => negb (x =? j)) (filter (b_in_key cfg B k) (zseq nb))).
    { rewrite <- filter_and. apply filter_ext. intros x. unfold b_in_key. rewrite zget_zdel.
      rewrite (Z.eqb_sym x j). destruct (j =? x); cbn; [rewrite andb_false_r|rewrite andb_true_r]; reflexivity. }
    rewrite E. destruct (okey b k) eqn:Ek.
    - symmetry. apply remove_sorted_filter. apply asc_filter. apply asc_zseq.
    - apply filter_all. intros y Hy. apply filter_In in Hy as [_ Hy].
      destruct (Z.eqb_spec y j) as [->|]; [|reflexivity].
      unfold b_in_key in Hy. unfold okey in Ek. rewrite Hg, Ek in Hy. discriminate.
  Qed.
  Lemma bdelta_0 b : bdelta b 0 = 0. Proof. unfold bdelta. destruct (negb _); reflexivity. Qed.
  Lemma odelta_0 b st k : odelta b st k 0 = 0. Proof. unfold odelta. destruct (_ && _); reflexivity. Qed.
End Measures.
