(* C13, collector half: for every op of Model/Locker.v the per-op table (what the op does to the
   net-fee book and to the collector's coin balance), net fees never negative, the backing
   invariant outside the known-finding classes, lifted to every finite history. *)
From Comdex Require Import Lib.Base Lib.DecArith Model.Collector Model.Locker
  Proofs.CollectorProofs Proofs.LockerProofs Proofs.C13Locker.
From Coq Require Import ZifyBool.

(* ---- one book entry [k] moves by [dl], the collector balance of denom [dn] by [db] ---- *)
Definition CEff (c c' : cstate) (k : key) (dl dn db : Z) : Prop :=
  (forall a d, nf_val c' a d = nf_val c a d + (if keq (a, d) k then dl else 0)) /\
  (forall d, cbal c' d = cbal c d + (if d =? dn then db else 0)) /\
  (NfNonneg c -> NfNonneg c').

Lemma ceff_refl c k dn : CEff c c k 0 dn 0.
Proof. repeat split; auto; intros; [destruct (keq _ _)|destruct (_ =? _)]; lia. Qed.

Lemma ceff_trans c1 c2 c3 k dl1 dl2 dn db1 db2 :
  CEff c1 c2 k dl1 dn db1 -> CEff c2 c3 k dl2 dn db2 -> CEff c1 c3 k (dl1 + dl2) dn (db1 + db2).
Proof.
  intros (A1 & A2 & A3) (B1 & B2 & B3). repeat split; auto.
  - intros a d. rewrite B1, A1. destruct (keq _ _); lia.
  - intros d. rewrite B2, A2. destruct (_ =? _); lia.
Qed.

Lemma ceff_eq c c' k dl dn db dl' db' : CEff c c' k dl dn db -> dl = dl' -> db = db' -> CEff c c' k dl' dn db'.
Proof. intros H -> ->. exact H. Qed.

Lemma ceff_same c c' k dn : nf c' = nf c -> bnk c' = bnk c -> CEff c c' k 0 dn 0.
Proof.
  intros E1 E2. repeat split.
  - intros a d. unfold nf_val. rewrite E1. destruct (keq _ _); lia.
  - intros d. unfold cbal. rewrite E2. destruct (_ =? _); lia.
  - intros H. exact (nfnonneg_same _ _ H E1).
Qed.

(* the zero effect can be re-labelled *)
Lemma ceff_zero c c' k dn k' dn' : CEff c c' k 0 dn 0 -> CEff c c' k' 0 dn' 0.
Proof.
  intros (A1 & A2 & A3). repeat split; auto.
  - intros a d. rewrite A1. destruct (keq (a, d) k), (keq (a, d) k'); lia.
  - intros d. rewrite A2. destruct (d =? dn), (d =? dn'); lia.
Qed.

Lemma ceff_csend c from to d amt c' k :
  csend c from to d amt = Ok c' ->
  CEff c c' k 0 d ((if to =? A_COLLECTOR then amt else 0) - (if from =? A_COLLECTOR then amt else 0)).
Proof.
  intros H. destruct (csend_spec _ _ _ _ _ _ H) as (Ha & Hnf & _). repeat split.
  - intros a d'. unfold nf_val. rewrite Hnf. destruct (keq _ _); lia.
  - intros d'. rewrite (cbal_csend _ _ _ _ _ _ d' H). destruct (to =? A_COLLECTOR), (from =? A_COLLECTOR), (d' =? d); cbn [andb]; lia.
  - intros Hn. exact (nfnonneg_same _ _ Hn Hnf).
Qed.

Lemma ceff_csend_other c from to d amt c' k dn :
  from <> A_COLLECTOR -> to <> A_COLLECTOR -> csend c from to d amt = Ok c' -> CEff c c' k 0 dn 0.
Proof.
  intros Hf Ht H. pose proof (ceff_csend _ _ _ _ _ _ k H) as E.
  destruct (Z.eqb_spec to A_COLLECTOR); [contradiction|]. destruct (Z.eqb_spec from A_COLLECTOR); [contradiction|].
  eapply ceff_zero. exact E.
Qed.

Lemma ceff_csend_other' c from to d amt c' k dn :
  csend c from to d amt = Ok c' -> from <> A_COLLECTOR -> to <> A_COLLECTOR -> CEff c c' k 0 dn 0.
Proof. intros H Hf Ht. exact (ceff_csend_other _ _ _ _ _ _ k dn Hf Ht H). Qed.

Lemma keq_pair a d app asset : keq (a, d) (app, asset) = (a =? app) && (d =? asset).
Proof. reflexivity. Qed.

Lemma ceff_set_net_fee c app asset fee c' dn : set_net_fee c app asset fee = Ok c' -> CEff c c' (app, asset) fee dn 0.
Proof.
  intros H. destruct (set_net_fee_spec _ _ _ _ _ H) as (Hf & Hnf & Hb & _). repeat split.
  - intros a d. rewrite (nf_val_upd c c' app asset _ a d Hnf), keq_pair.
    destruct ((a =? app) && (d =? asset)) eqn:E; [|lia]. apply andb_true_iff in E. destruct E as (->%Z.eqb_eq & ->%Z.eqb_eq). lia.
  - intros d. unfold cbal. rewrite Hb. destruct (_ =? _); lia.
  - intros Hn. exact (set_net_fee_nonneg _ _ _ _ _ H Hn).
Qed.

Lemma ceff_decrease c app asset amt c' dn : decrease_net_fee c app asset amt = Ok c' -> CEff c c' (app, asset) (- amt) dn 0.
Proof.
  intros H. destruct (decrease_net_fee_spec _ _ _ _ _ H) as (Hle & _ & Hnf & Hb & _). repeat split.
  - intros a d. rewrite (nf_val_upd c c' app asset _ a d Hnf), keq_pair.
    destruct ((a =? app) && (d =? asset)) eqn:E; [|lia]. apply andb_true_iff in E. destruct E as (->%Z.eqb_eq & ->%Z.eqb_eq). lia.
  - intros d. unfold cbal. rewrite Hb. destruct (_ =? _); lia.
  - intros Hn. exact (decrease_net_fee_nonneg _ _ _ _ _ H Hn).
Qed.

Lemma ceff_mapping c app asset f c' k dn : set_auction_mapping c app asset f = Ok c' -> CEff c c' k 0 dn 0.
Proof. intros H. destruct (set_auction_mapping_spec _ _ _ _ _ H) as (Hnf & Hb & _). apply ceff_same; assumption. Qed.

Lemma ceff_get_amount c app asset amt c' :
  get_amount_from_collector c app asset amt = Ok c' -> CEff c c' (app, asset) (- amt) asset (- amt).
Proof.
  unfold get_amount_from_collector. destruct (nf c (app, asset)); [|discriminate].
  destruct (amt <? 0); [discriminate|]. destruct (negb (z - amt >? 0)); [discriminate|].
  intros H. apply obind_ok in H. destruct H as (c1 & H1 & H2).
  eapply ceff_eq; [eapply ceff_trans; [exact (ceff_csend _ _ _ _ _ _ (app, asset) H1)|exact (ceff_decrease _ _ _ _ _ asset H2)]| |].
  - lia.
  - cbn; lia.
Qed.

Lemma ceff_surplus_fund c app asset u denom amt c' : 0 <= u ->
  surplus_fund c app asset (user u) denom amt = Ok c' -> CEff c c' (app, asset) (- amt) denom (- amt).
Proof.
  intros Hu. unfold surplus_fund. intros H. apply obind_ok in H. destruct H as (c1 & H1 & H2).
  eapply ceff_eq; [eapply ceff_trans; [exact (ceff_csend _ _ _ _ _ _ (app, asset) H1)|exact (ceff_decrease _ _ _ _ _ denom H2)]| |].
  - lia.
  - rewrite (user_not_collector u Hu). cbn; lia.
Qed.

(* ---- state level ---- *)
Definition SEff (s s' : state) (k : key) (dl dn db : Z) : Prop := CEff (cs s) (cs s') k dl dn db.

Lemma seff_lift s r s' k dl dn db :
  lift s r = Ok s' -> (forall c, r = Ok c -> CEff (cs s) c k dl dn db) -> SEff s s' k dl dn db.
Proof. intros H Hc. apply lift_ok in H. destruct H as (c & -> & ->). apply Hc. reflexivity. Qed.

(* coins in from the outside account, then booked *)
Lemma seff_in_and_book s coin_asset amt app book_asset fee s' :
  obind (lift s (csend (cs s) A_EXT A_COLLECTOR coin_asset amt)) (fun s1 => lift s1 (set_net_fee (cs s1) app book_asset fee)) = Ok s' ->
  SEff s s' (app, book_asset) fee coin_asset amt.
Proof.
  intros H. apply obind_ok in H. destruct H as (s1 & H1 & H2).
  eapply ceff_eq; [eapply ceff_trans|..].
  - eapply seff_lift; [exact H1|]. intros c Hc. exact (ceff_csend _ _ _ _ _ _ (app, book_asset) Hc).
  - eapply seff_lift; [exact H2|]. intros c Hc. exact (ceff_set_net_fee _ _ _ _ _ coin_asset Hc).
  - lia.
  - cbn; lia.
Qed.

Lemma seff_penalty s app book_asset coin_asset amt s' :
  obind (if amt >? 0 then lift s (csend (cs s) A_EXT A_COLLECTOR coin_asset amt) else Ok s)
        (fun s1 => lift s1 (set_net_fee (cs s1) app book_asset amt)) = Ok s' ->
  SEff s s' (app, book_asset) amt coin_asset amt.
Proof.
  destruct (amt >? 0) eqn:G; [apply seff_in_and_book|].
  cbn [obind]. intros H. apply lift_ok in H. destruct H as (c & H & ->). unfold SEff. cbn [cs set_cs].
  destruct (set_net_fee_spec _ _ _ _ _ H) as (Hf & _). assert (amt = 0) by lia. subst amt.
  exact (ceff_set_net_fee _ _ _ _ _ coin_asset H).
Qed.

Lemma seff_mapping s app asset f s' k dn : lift s (set_auction_mapping (cs s) app asset f) = Ok s' -> SEff s s' k 0 dn 0.
Proof. intros H. eapply seff_lift; [exact H|]. intros c Hc. exact (ceff_mapping _ _ _ _ _ k dn Hc). Qed.

(* rewards.CalculateLockerRewards *)
Lemma calc_rewards_seff s app asset lid rw s1 ld :
  calc_rewards s app asset lid rw = Ok s1 -> find_locker (lockers s) lid = Some ld -> l_asset ld = asset ->
  SEff s s1 (app, asset) (- credited s app asset lid rw) asset (- credited s app asset lid rw).
Proof.
  intros H F Hd. destruct (calc_rewards_shape _ _ _ _ _ _ H) as ([(Hr & E1 & _)|(Hr & ld' & lk & c2 & c3 & F' & K & D & S & E1 & _)] & _).
  - unfold SEff. rewrite E1, Hr. exact (ceff_refl _ _ _).
  - rewrite F in F'. injection F' as <-. rewrite Hd in D. unfold SEff. rewrite E1.
    eapply ceff_eq; [eapply ceff_trans; [exact (ceff_decrease _ _ _ _ _ asset D)|exact (ceff_csend _ _ _ _ _ _ (app, asset) S)]| |].
    + lia.
    + cbn; lia.
Qed.

Lemma started_refl s app asset : started s s app asset = false.
Proof. unfold started. destruct (af_active _); reflexivity. Qed.

Lemma mapping_flags c app asset f c' :
  set_auction_mapping c app asset f = Ok c' -> af_surplus f && af_debt f = false /\ amp c' (app, asset) = Some f.
Proof.
  intros H. pose proof (set_auction_mapping_spec _ _ _ _ _ H) as (_ & _ & _ & _ & _ & _ & _ & Ha). revert H. unfold set_auction_mapping.
  destruct (negb (has_app c app)); [discriminate|]. destruct (negb (has_asset c asset)); [discriminate|].
  destruct (af_surplus f && af_distributor f); [discriminate|]. destruct (af_surplus f && af_debt f); [discriminate|].
  intros _. split; [reflexivity|]. rewrite Ha. apply kupd_same.
Qed.

(* ---- the per-op table ---- *)
Definition EffOk (s s' : state) (o : op) : Prop :=
  (forall a d, nf_val (cs s') a d = nf_val (cs s) a d + nf_delta_of s s' o (a, d)) /\
  (forall d, cbal (cs s') d = cbal (cs s) d + (if d =? fst (coin_delta_of s s' o) then snd (coin_delta_of s s' o) else 0)) /\
  (NfNonneg (cs s) -> NfNonneg (cs s')).

Lemma effok_of_seff s s' o app asset dl dn db :
  SEff s s' (app, asset) dl dn db ->
  (forall k, nf_delta_of s s' o k = at_key app asset k dl) ->
  (forall d, (if d =? fst (coin_delta_of s s' o) then snd (coin_delta_of s s' o) else 0) = (if d =? dn then db else 0)) ->
  EffOk s s' o.
Proof.
  intros (A1 & A2 & A3) Hk Hd. repeat split; auto.
  - intros a d. rewrite A1, Hk. unfold at_key. reflexivity.
  - intros d. rewrite A2, Hd. reflexivity.
Qed.

Lemma effok_zero s s' o :
  SEff s s' (0, 0) 0 0 0 -> (forall k, nf_delta_of s s' o k = 0) -> coin_delta_of s s' o = (0, 0) -> EffOk s s' o.
Proof.
  intros H Hk Hc. eapply effok_of_seff; [exact H| |].
  - intros k. rewrite Hk. unfold at_key. destruct (keq _ _); reflexivity.
  - intros d. rewrite Hc. reflexivity.
Qed.

Lemma at_key_same app asset k v : at_key app asset k v = at_key app asset k v. Proof. reflexivity. Qed.

Lemma cs_upd_amount s app asset amt b : cs (upd_amount s app asset amt b) = cs s.
Proof. unfold upd_amount. destruct (lks s (app, asset)); reflexivity. Qed.

Lemma step_effok s o s' :
  valid_op o = true -> is_multi o = false -> step s o = Ok s' -> EffOk s s' o.
Proof.
  intros Hv Hup. destruct o; cbn [step]; try discriminate Hup.
  - (* create *)
    assert (Hu : 0 <= u) by (cbn in Hv; lia). unfold msg_create.
    destruct (amt <=? 0) eqn:E0; [discriminate|]. destruct (esm_on (cs s) app); [discriminate|]. destruct (brk_on (cs s) app); [discriminate|].
    destruct (negb (has_asset (cs s) asset)); [discriminate|]. destruct (negb (has_app (cs s) app)); [discriminate|].
    destruct (negb (umap s u (app, asset) =? 0)); [discriminate|]. destruct (clk (cs s) (app, asset)); [|discriminate].
    destruct (negb (lwl s (app, asset))); [discriminate|]. destruct (lks s (app, asset)) as [lk|] eqn:K; [|discriminate].
    assert ((amt >? 0) = true) as -> by lia.
    destruct (csend (cs s) (user u) A_LOCKER asset amt) as [c2| |] eqn:S; cbn [lift obind]; try discriminate.
    intros H; injection H as <-. apply effok_zero; [|reflexivity|reflexivity].
    unfold SEff. cbn [cs set_lks set_umap set_next set_lockers set_cs].
    eapply ceff_csend_other'; [exact S| |discriminate]. pose proof (user_not_collector u Hu). lia.
  - (* deposit *)
    assert (Hu : 0 <= u) by (cbn in Hv; lia). unfold msg_deposit.
    destruct ((lid <=? 0) || (amt <=? 0)) eqn:E0; [discriminate|]. destruct (esm_on (cs s) app); [discriminate|]. destruct (brk_on (cs s) app); [discriminate|].
    destruct (locker_checks s u app asset lid) as [ld0| |] eqn:C; cbn [obind]; try discriminate.
    destruct (calc_rewards s app asset lid rw) as [s1| |] eqn:R; cbn [obind]; try discriminate.
    destruct (locker_checks_spec _ _ _ _ _ _ C) as (F & Hd & Ho & Ha & Hk).
    assert ((amt >? 0) = true) as -> by lia.
    destruct (csend (cs s1) (user u) A_LOCKER asset amt) as [c2| |] eqn:S; cbn [lift obind]; try discriminate.
    intros H; injection H as <-.
    eapply effok_of_seff with (app := app) (asset := asset) (dl := - credited s app asset lid rw) (dn := asset) (db := - credited s app asset lid rw).
    + unfold SEff. rewrite cs_upd_amount. cbn [cs set_lockers set_cs].
      eapply ceff_eq; [eapply ceff_trans; [exact (calc_rewards_seff _ _ _ _ _ _ _ R F Hd)|
        eapply ceff_csend_other'; [exact S|pose proof (user_not_collector u Hu); lia|discriminate]]|lia|lia].
    + reflexivity.
    + reflexivity.
  - (* withdraw *)
    assert (Hu : 0 <= u) by (cbn in Hv; lia). unfold msg_withdraw.
    destruct ((lid <=? 0) || (amt <=? 0)) eqn:E0; [discriminate|].
    destruct (locker_checks s u app asset lid) as [ld0| |] eqn:C; cbn [obind]; try discriminate.
    destruct (l_net ld0 <? amt); [discriminate|].
    destruct (calc_rewards s app asset lid rw) as [s1| |] eqn:R; cbn [obind]; try discriminate.
    destruct (locker_checks_spec _ _ _ _ _ _ C) as (F & Hd & Ho & Ha & Hk).
    assert ((amt >? 0) = true) as -> by lia.
    destruct (csend (cs s1) A_LOCKER (user u) asset amt) as [c2| |] eqn:S; cbn [lift obind]; try discriminate.
    intros H; injection H as <-.
    eapply effok_of_seff with (app := app) (asset := asset) (dl := - credited s app asset lid rw) (dn := asset) (db := - credited s app asset lid rw).
    + unfold SEff. rewrite cs_upd_amount. cbn [cs set_lockers set_cs].
      eapply ceff_eq; [eapply ceff_trans; [exact (calc_rewards_seff _ _ _ _ _ _ _ R F Hd)|
        eapply ceff_csend_other'; [exact S|discriminate|pose proof (user_not_collector u Hu); lia]]|lia|lia].
    + reflexivity.
    + reflexivity.
  - (* close *)
    assert (Hu : 0 <= u) by (cbn in Hv; lia). unfold msg_close.
    destruct (lid <=? 0) eqn:E0; [discriminate|].
    destruct (locker_checks s u app asset lid) as [ld0| |] eqn:C; cbn [obind]; try discriminate.
    destruct (calc_rewards s app asset lid rw) as [s1| |] eqn:R; cbn [obind]; try discriminate.
    destruct (locker_checks_spec _ _ _ _ _ _ C) as (F & Hd & Ho & Ha & Hk).
    intros H. apply obind_ok in H. destruct H as (s2 & H1 & H2). injection H2 as <-.
    assert (E12 : SEff s1 s2 (app, asset) 0 asset 0).
    { destruct (l_net (reread s1 lid ld0) >? 0).
      - eapply seff_lift; [exact H1|]. intros c Hc. eapply ceff_csend_other'; [exact Hc|discriminate|]. pose proof (user_not_collector u Hu). lia.
      - injection H1 as <-. exact (ceff_refl _ _ _). }
    eapply effok_of_seff with (app := app) (asset := asset) (dl := - credited s app asset lid rw) (dn := asset) (db := - credited s app asset lid rw).
    + unfold SEff. cbn [cs set_trk set_lockers].
      match goal with |- CEff _ (cs ?X) _ _ _ _ => assert (Hcs : cs X = cs s2) end.
      { destruct (lks (upd_amount s2 app asset (l_net (reread s1 lid ld0)) false) (app, asset)) as [lk'|];
          [match goal with |- context [if ?b then _ else _] => destruct b end|]; cbn [cs set_lks set_umap]; apply cs_upd_amount. }
      rewrite Hcs.
      eapply ceff_eq; [eapply ceff_trans; [exact (calc_rewards_seff _ _ _ _ _ _ _ R F Hd)|exact E12]|lia|lia].
    + reflexivity.
    + reflexivity.
  - (* reward calc *)
    unfold msg_reward_calc. destruct (lid <=? 0); [discriminate|]. destruct (negb (has_app (cs s) app)); [discriminate|].
    destruct (find_locker (lockers s) lid) as [ld|] eqn:F; [|discriminate].
    destruct (negb (l_app ld =? app)); [discriminate|]. intros R.
    eapply effok_of_seff with (app := app) (asset := l_asset ld) (dl := - credited s app (l_asset ld) lid rw) (dn := l_asset ld).
    + exact (calc_rewards_seff _ _ _ _ _ _ _ R F eq_refl).
    + intros k. cbn [nf_delta_of nf_delta_spec]. rewrite F. reflexivity.
    + intros d. cbn [coin_delta_of]. rewrite F. reflexivity.
  - (* add lookup *)
    unfold add_lookup. destruct (negb (has_asset (cs s) asset)); [discriminate|]. destruct (negb (has_asset (cs s) secondary)); [discriminate|].
    destruct (asset =? secondary); [discriminate|]. destruct (adm s (app, asset)); [discriminate|].
    intros H; injection H as <-. apply effok_zero; [|reflexivity|reflexivity]. apply ceff_same; reflexivity.
  - (* whitelist locker *)
    unfold whitelist_locker. destruct (esm_on (cs s) app); [discriminate|]. destruct (brk_on (cs s) app); [discriminate|].
    destruct (negb (has_app (cs s) app)); [discriminate|]. destruct (negb (has_asset (cs s) asset)); [discriminate|].
    destruct (lwl s (app, asset)); [discriminate|]. intros H; injection H as <-.
    apply effok_zero; [|reflexivity|reflexivity]. apply ceff_same; reflexivity.
  - (* whitelist reward *)
    unfold whitelist_reward. destruct (brk_on (cs s) app); [discriminate|]. destruct (esm_on (cs s) app); [discriminate|].
    destruct (negb (lwl s (app, asset))); [discriminate|]. intros H; injection H as <-.
    apply effok_zero; [|reflexivity|reflexivity]. apply ceff_same; reflexivity.
  - (* flags *)
    unfold set_flags. destruct (surplus && distributor); [discriminate|]. destruct (surplus && debt); [discriminate|].
    intros H; injection H as <-. apply effok_zero; [|reflexivity|reflexivity]. apply ceff_same; reflexivity.
  - intros H; injection H as <-. apply effok_zero; [|reflexivity|reflexivity]. apply ceff_same; reflexivity.
  - intros H; injection H as <-. apply effok_zero; [|reflexivity|reflexivity]. apply ceff_same; reflexivity.
  - (* fee in *)
    unfold fee_in. destruct ((amt =? 0) && negb uncond) eqn:E0.
    + intros H; injection H as <-. assert (amt = 0) by lia. subst amt.
      eapply effok_of_seff with (app := app) (asset := asset) (dl := 0) (dn := asset) (db := 0); [exact (ceff_refl _ _ _)|reflexivity|reflexivity].
    + intros H. eapply effok_of_seff with (app := app) (asset := asset) (dl := amt) (dn := asset) (db := amt); [|reflexivity|reflexivity].
      apply obind_ok in H. destruct H as (s1 & H1 & H2).
      eapply ceff_eq; [eapply ceff_trans|..].
      * eapply seff_lift; [exact H1|]. intros c Hc. exact (ceff_csend _ _ _ _ _ _ (app, asset) Hc).
      * eapply seff_lift; [exact H2|]. intros c. unfold update_collector. destruct (negb (has_asset (cs s1) asset)); [discriminate|].
        intros Hc. exact (ceff_set_net_fee _ _ _ _ _ asset Hc).
      * lia.
      * cbn; lia.
  - (* get amount *)
    intros H. eapply effok_of_seff with (app := app) (asset := asset) (dl := - amt) (dn := asset) (db := - amt); [|reflexivity|reflexivity].
    eapply seff_lift; [exact H|]. intros c Hc. exact (ceff_get_amount _ _ _ _ _ Hc).
  - (* decrease *)
    intros H. eapply effok_of_seff with (app := app) (asset := asset) (dl := - amt) (dn := asset) (db := 0); [|reflexivity|reflexivity].
    eapply seff_lift; [exact H|]. intros c Hc. exact (ceff_decrease _ _ _ _ _ asset Hc).
  - (* surplus fund *)
    assert (Hu : 0 <= u) by (cbn in Hv; lia).
    intros H. eapply effok_of_seff with (app := app) (asset := asset) (dl := - amt) (dn := denom) (db := - amt); [|reflexivity|reflexivity].
    eapply seff_lift; [exact H|]. intros c Hc. exact (ceff_surplus_fund _ _ _ _ _ _ _ Hu Hc).
  - (* v1 surplus start *)
    unfold v1_surplus_start.
    assert (Hnone : Ok s = Ok s' -> EffOk s s' (V1SurplusStart app asset)).
    { intros H; injection H as <-.
      eapply effok_of_seff with (app := app) (asset := asset) (dl := 0) (dn := asset) (db := 0); [exact (ceff_refl _ _ _)| |];
        cbn [nf_delta_of coin_delta_of fst snd]; rewrite started_refl; reflexivity. }
    destruct (af_surplus (flags_of s app asset) && negb (af_active (flags_of s app asset)) && negb (brk_on (cs s) app) && negb (esm_on (cs s) app)) eqn:G;
      [|exact Hnone].
    destruct (clk (cs s) (app, asset)) as [cl|] eqn:CL; [|exact Hnone].
    destruct (nf (cs s) (app, asset)) as [x|]; [|exact Hnone].
    destruct (x >=? cl_surplus_thr cl + cl_lot cl); [|exact Hnone].
    destruct (negb (has_asset (cs s) (cl_asset cl) && has_asset (cs s) (cl_secondary cl))); [exact Hnone|].
    intros H. apply obind_ok in H. destruct H as (s1 & H1 & H2).
    assert (Hst : started s s' app asset = true).
    { unfold started. apply lift_ok in H2. destruct H2 as (c & H2 & ->). destruct (mapping_flags _ _ _ _ _ H2) as (_ & Ha).
      unfold flags_of at 2. cbn [cs set_cs]. rewrite Ha. cbn. destruct (af_active (flags_of s app asset)); [|reflexivity].
      exfalso. cbn in G. rewrite ?andb_false_r in G. cbn in G. discriminate G. }
    eapply effok_of_seff with (app := app) (asset := asset) (dl := - cl_lot cl) (dn := asset) (db := - cl_lot cl).
    + eapply ceff_eq; [eapply ceff_trans|..].
      * eapply seff_lift; [exact H1|]. intros c Hc. exact (ceff_get_amount _ _ _ _ _ Hc).
      * exact (seff_mapping _ _ _ _ _ (app, asset) asset H2).
      * lia.
      * lia.
    + intros k. cbn [nf_delta_of]. rewrite Hst. unfold lot_of. rewrite CL. reflexivity.
    + intros d. cbn [coin_delta_of fst snd]. rewrite Hst. unfold lot_of. rewrite CL. reflexivity.
  - (* v1 surplus close *)
    unfold v1_surplus_close. intros H. apply obind_ok in H. destruct H as (s2 & H1 & H2).
    eapply effok_of_seff with (app := app) (asset := asset) (dl := if bidder && negb esm then 0 else lot) (dn := asset)
                              (db := if bidder && negb esm then 0 else lot).
    + assert (E1 : SEff s s2 (app, asset) (if bidder && negb esm then 0 else lot) asset (if bidder && negb esm then 0 else lot)).
      { destruct (bidder && negb esm); [injection H1 as <-; exact (ceff_refl _ _ _)|exact (seff_in_and_book _ _ _ _ _ _ _ H1)]. }
      eapply ceff_eq; [exact (ceff_trans _ _ _ _ _ _ _ _ _ E1 (seff_mapping _ _ _ _ _ (app, asset) asset H2))|lia|lia].
    + intros k. cbn [nf_delta_of nf_delta_spec]. destruct (bidder && negb esm); [|reflexivity]. unfold at_key. destruct (keq _ _); reflexivity.
    + reflexivity.
  - (* v1 debt start *)
    unfold v1_debt_start.
    assert (Hnone : Ok s = Ok s' -> EffOk s s' (V1DebtStart app asset)).
    { intros H; injection H as <-. apply effok_zero; [exact (ceff_refl _ _ _)|reflexivity|reflexivity]. }
    destruct (af_debt (flags_of s app asset) && negb (af_active (flags_of s app asset)) && negb (brk_on (cs s) app) && negb (esm_on (cs s) app));
      [|exact Hnone].
    destruct (clk (cs s) (app, asset)) as [cl|]; [|exact Hnone].
    destruct (nf (cs s) (app, asset)) as [x|]; [|exact Hnone].
    destruct (x <=? cl_debt_thr cl - cl_lot cl); [|exact Hnone].
    destruct (negb (has_asset (cs s) (cl_asset cl) && has_asset (cs s) (cl_secondary cl))); [exact Hnone|].
    intros H. apply effok_zero; [exact (seff_mapping _ _ _ _ _ (0, 0) 0 H)|reflexivity|reflexivity].
  - (* v1 debt close *)
    unfold v1_debt_close. intros H. apply obind_ok in H. destruct H as (s2 & H1 & H2).
    eapply effok_of_seff with (app := app) (asset := asset) (dl := if esm then 0 else if bids then amt else 0) (dn := asset)
                              (db := if esm then 0 else if bids then amt else 0).
    + assert (E1 : SEff s s2 (app, asset) (if esm then 0 else if bids then amt else 0) asset (if esm then 0 else if bids then amt else 0)).
      { destruct esm; [injection H1 as <-; exact (ceff_refl _ _ _)|].
        destruct bids; [exact (seff_in_and_book _ _ _ _ _ _ _ H1)|injection H1 as <-; exact (ceff_refl _ _ _)]. }
      eapply ceff_eq; [exact (ceff_trans _ _ _ _ _ _ _ _ _ E1 (seff_mapping _ _ _ _ _ (app, asset) asset H2))|lia|lia].
    + intros k. cbn [nf_delta_of nf_delta_spec]. destruct esm; [unfold at_key; destruct (keq _ _); reflexivity|].
      destruct bids; [reflexivity|unfold at_key; destruct (keq _ _); reflexivity].
    + reflexivity.
  - (* v1 penalty *)
    intros H. eapply effok_of_seff with (app := app) (asset := asset) (dl := amt) (dn := asset) (db := amt); [|reflexivity|reflexivity].
    exact (seff_penalty _ _ _ _ _ _ H).
  - (* v2 check stats *)
    unfold v2_check_stats.
    assert (Hnone : Ok s = Ok s' -> EffOk s s' (V2CheckStats app asset)).
    { intros H; injection H as <-.
      eapply effok_of_seff with (app := app) (asset := asset) (dl := 0) (dn := asset) (db := 0); [exact (ceff_refl _ _ _)| |];
        cbn [nf_delta_of coin_delta_of fst snd]; rewrite started_refl; reflexivity. }
    destruct (af_active (flags_of s app asset) || brk_on (cs s) app) eqn:G; [exact Hnone|].
    destruct (clk (cs s) (app, asset)) as [cl|] eqn:CL; [|exact Hnone].
    destruct (nf (cs s) (app, asset)) as [x|]; [|exact Hnone].
    intros H. apply obind_ok in H. destruct H as (s1 & H1 & H2).
    assert (Hact : af_active (flags_of s app asset) = false) by (destruct (af_active _); [discriminate|reflexivity]).
    destruct ((x <=? cl_debt_thr cl - cl_lot cl) && af_debt (flags_of s app asset)) eqn:GD.
    + (* debt start: then the surplus branch is impossible *)
      destruct (negb (has_asset (cs s) (cl_asset cl) && has_asset (cs s) (cl_secondary cl))); [discriminate|].
      apply lift_ok in H1. destruct H1 as (c1 & H1 & ->). destruct (mapping_flags _ _ _ _ _ H1) as (Hsd & Ha1).
      cbn [af_surplus af_debt with_active] in Hsd.
      assert (Hsur : af_surplus (flags_of s app asset) = false).
      { apply andb_true_iff in GD. destruct GD as (_ & GD). rewrite GD, andb_true_r in Hsd. exact Hsd. }
      rewrite Hsur, andb_false_r in H2. injection H2 as <-.
      eapply effok_of_seff with (app := app) (asset := asset) (dl := 0) (dn := asset) (db := 0).
      * unfold SEff. cbn [cs set_cs]. exact (ceff_mapping _ _ _ _ _ (app, asset) asset H1).
      * intros k. cbn [nf_delta_of]. rewrite Hsur, andb_false_r. reflexivity.
      * intros d. cbn [coin_delta_of fst snd]. rewrite Hsur, andb_false_r. reflexivity.
    + injection H1 as <-.
      destruct ((x >=? cl_surplus_thr cl + cl_lot cl) && af_surplus (flags_of s app asset)) eqn:GS; [|exact (Hnone H2)].
      destruct (negb (has_asset (cs s) (cl_asset cl) && has_asset (cs s) (cl_secondary cl))); [discriminate|].
      apply obind_ok in H2. destruct H2 as (s2 & H2 & H3).
      assert (Hsur : af_surplus (flags_of s app asset) = true) by (apply andb_true_iff in GS; tauto).
      assert (Hst : started s s' app asset = true).
      { unfold started. apply lift_ok in H3. destruct H3 as (c & H3 & ->). destruct (mapping_flags _ _ _ _ _ H3) as (_ & Ha).
        unfold flags_of at 2. cbn [cs set_cs]. rewrite Ha. cbn. rewrite Hact. reflexivity. }
      eapply effok_of_seff with (app := app) (asset := asset) (dl := - cl_lot cl) (dn := asset) (db := - cl_lot cl).
      * eapply ceff_eq; [eapply ceff_trans|..].
        -- eapply seff_lift; [exact H2|]. intros c Hc. exact (ceff_get_amount _ _ _ _ _ Hc).
        -- exact (seff_mapping _ _ _ _ _ (app, asset) asset H3).
        -- lia.
        -- lia.
      * intros k. cbn [nf_delta_of]. rewrite Hst, Hsur. unfold lot_of. rewrite CL. reflexivity.
      * intros d. cbn [coin_delta_of fst snd]. rewrite Hst, Hsur. unfold lot_of. rewrite CL. reflexivity.
  - (* v2 surplus close: nothing of the collector moves *)
    unfold v2_surplus_close. intros H.
    eapply effok_of_seff with (app := app) (asset := asset) (dl := 0) (dn := asset) (db := 0).
    + destruct (amp (cs s) (app, asset)); [|discriminate]. exact (seff_mapping _ _ _ _ _ (app, asset) asset H).
    + intros k. cbn [nf_delta_of nf_delta_spec]. unfold at_key. destruct (keq _ _); reflexivity.
    + reflexivity.
  - (* v2 debt close *)
    unfold v2_debt_close. intros H. apply obind_ok in H. destruct H as (s1 & H1 & H2).
    apply obind_ok in H2. destruct H2 as (s2 & H2 & H3).
    eapply effok_of_seff with (app := app) (asset := asset) (dl := debt_amt) (dn := debt_denom) (db := debt_amt); [|reflexivity|reflexivity].
    eapply ceff_eq; [eapply ceff_trans; [eapply ceff_trans|]|..].
    + eapply seff_lift; [exact H1|]. intros c Hc. exact (ceff_csend _ _ _ _ _ _ (app, asset) Hc).
    + eapply seff_lift; [exact H2|]. intros c Hc. exact (ceff_set_net_fee _ _ _ _ _ debt_denom Hc).
    + destruct (amp (cs s2) (app, asset)); [|discriminate]. exact (seff_mapping _ _ _ _ _ (app, asset) debt_denom H3).
    + lia.
    + cbn; lia.
  - (* v2 penalty *)
    intros H. eapply effok_of_seff with (app := app) (asset := debt_asset) (dl := amt) (dn := debt_asset) (db := amt); [|reflexivity|reflexivity].
    exact (seff_penalty _ _ _ _ _ _ H).
  - (* v2 TriggerEsm *)
    unfold v2_trigger_esm. destruct (collected <? 0); [discriminate|].
    fold (esm_xfer collected fee). destruct (esm_xfer collected fee <? 0); [discriminate|]. intros H.
    eapply effok_of_seff with (app := app) (asset := debt_asset) (dl := esm_xfer collected fee) (dn := debt_asset) (db := esm_xfer collected fee);
      [|reflexivity|reflexivity].
    exact (seff_penalty _ _ _ _ _ _ H).
  - (* collector MsgDeposit + Refund *)
    assert (Hu : 0 <= u) by (cbn in Hv; lia). unfold msg_cdeposit.
    destruct (amt <=? 0); [discriminate|]. destruct (app =? 0); [discriminate|]. destruct done; [discriminate|].
    destruct (negb (has_asset (cs s) d)); [discriminate|].
    destruct (Z.eqb_spec d 3) as [->|]; [|discriminate]. destruct (Z.eqb_spec app 2) as [->|]; [|discriminate]. cbn [negb].
    intros H. apply obind_ok in H. destruct H as (s1 & H1 & H2). apply obind_ok in H2. destruct H2 as (s2 & H2 & H3).
    destruct (bnk (cs s2) (A_COLLECTOR, 3) >? INT64_MAX); [discriminate|]. destruct (bnk (cs s2) (A_COLLECTOR, 3) <? REFUND_TOTAL); [discriminate|].
    apply obind_ok in H3. destruct H3 as (s3 & H3 & H4).
    eapply effok_of_seff with (app := 2) (asset := 3) (dl := amt - REFUND_TOTAL) (dn := 3) (db := amt - REFUND_TOTAL); [|reflexivity|reflexivity].
    eapply ceff_eq; [eapply ceff_trans; [eapply ceff_trans; [eapply ceff_trans|]|]|..].
    + eapply seff_lift; [exact H1|]. intros c Hc. exact (ceff_csend _ _ _ _ _ _ (2, 3) Hc).
    + eapply seff_lift; [exact H2|]. intros c Hc. exact (ceff_set_net_fee _ _ _ _ _ 3 Hc).
    + eapply seff_lift; [exact H3|]. intros c Hc. exact (ceff_csend _ _ _ _ _ _ (2, 3) Hc).
    + eapply seff_lift; [exact H4|]. intros c Hc. exact (ceff_decrease _ _ _ _ _ 3 Hc).
    + lia.
    + rewrite (user_not_collector u Hu), Z.eqb_refl. change (A_EXT =? A_COLLECTOR) with false. cbv iota. lia.
Qed.

(* ------------------------------------------------------------------------------------ *)
(* from the table to the invariants                                                      *)

Lemma backed_upd' c c' app asset dl :
  NfNonneg c -> Backed c ->
  (forall a d, nf_val c' a d = nf_val c a d + (if keq (a, d) (app, asset) then dl else 0)) ->
  0 <= nf_val c app asset + dl ->
  (forall d, cbal c d + (if d =? asset then dl else 0) <= cbal c' d) ->
  Backed c'.
Proof.
  intros Hn Hb Hval Hv Hbal d l Hnd.
  specialize (Hbal d). unfold nf_total.
  destruct (Z.eqb_spec d asset) as [Heq|Hne].
  - subst d. rewrite (sum_over_bump l (fun a => nf_val c a asset) (fun a => nf_val c' a asset) app dl Hnd).
    2:{ intros a. rewrite Hval, keq_pair, Z.eqb_refl, andb_true_r. reflexivity. }
    destruct (existsb (Z.eqb app) l) eqn:E.
    + pose proof (Hb asset l Hnd) as H1. unfold nf_total in H1. lia.
    + pose proof (Hb asset l Hnd) as H1. unfold nf_total in H1.
      destruct (Z_le_gt_dec 0 dl); [lia|].
      assert (Hnd' : NoDup (app :: l)) by (constructor; [apply existsb_false_notin; exact E|exact Hnd]).
      pose proof (Hb asset (app :: l) Hnd') as H2. unfold nf_total in H2. cbn [sum_over] in H2. lia.
  - rewrite (sum_over_ext l (fun a => nf_val c' a d) (fun a => nf_val c a d)).
    + pose proof (Hb d l Hnd) as H1. unfold nf_total in H1. lia.
    + intros a _. rewrite Hval, keq_pair. destruct (Z.eqb_spec d asset); [contradiction|]. rewrite andb_false_r. lia.
Qed.

Lemma ceff_backed c c' app asset dl db :
  NfNonneg c -> Backed c -> CEff c c' (app, asset) dl asset db -> dl <= db -> Backed c'.
Proof.
  intros Hn Hb (A1 & A2 & A3) Hle. apply (backed_upd' c c' app asset dl Hn Hb A1).
  - pose proof (nf_val_nonneg c' app asset (A3 Hn)) as H. rewrite A1, keq_refl in H. exact H.
  - intros d. rewrite A2. destruct (d =? asset); lia.
Qed.

(* ---- the savings-rate change ---- *)
Lemma iter_one_nonneg s app asset lid rw :
  NfNonneg (cs s) ->
  match iter_one s app asset lid rw with IterGo s' | IterStop s' => NfNonneg (cs s') | IterPanic => True end.
Proof.
  intros Hn. unfold iter_one. destruct (find_locker (lockers s) lid) as [ld|]; [|exact I].
  destruct (rw =? -2); [exact I|]. destruct (rw <? 0); [exact Hn|].
  destruct (tracker_after s lid app rw >=? P18); [|exact Hn].
  cbn [cs set_trk]. destruct (decrease_net_fee (cs s) app (l_asset ld) _) as [c2| |] eqn:D; [|exact Hn|exact I].
  pose proof (decrease_net_fee_nonneg _ _ _ _ _ D Hn) as Hn2.
  cbn [cs set_cs set_trk].
  match goal with |- context [if ?b then _ else _] => destruct b end.
  - destruct (csend c2 A_COLLECTOR A_LOCKER asset _) as [c3| |] eqn:S; [|exact Hn2|exact I].
    rewrite cs_upd_amount. cbn [cs set_lockers set_cs]. destruct (csend_spec _ _ _ _ _ _ S) as (_ & Hnf & _). exact (nfnonneg_same _ _ Hn2 Hnf).
  - rewrite cs_upd_amount. exact Hn2.
Qed.

Lemma iter_rewards_nonneg ids : forall s app asset rws s',
  NfNonneg (cs s) -> iter_rewards s app asset ids rws = Ok s' -> NfNonneg (cs s').
Proof.
  induction ids as [|lid ids IH]; intros s app asset rws s' Hn; cbn [iter_rewards].
  - intros H; injection H as <-. exact Hn.
  - destruct rws as [|rw rws]; [intros H; injection H as <-; exact Hn|].
    pose proof (iter_one_nonneg s app asset lid rw Hn) as H1.
    destruct (iter_one s app asset lid rw) as [s1|s1|]; [apply IH; exact H1|intros H; injection H as <-; exact H1|discriminate].
Qed.

Lemma update_lookup_mid s app asset lsr sthr dthr lot dlot rws s' :
  update_lookup s app asset lsr sthr dthr lot dlot rws = Ok s' ->
  exists s1, nf (cs s') = nf (cs s1) /\ bnk (cs s') = bnk (cs s1) /\ lockers s' = lockers s1 /\ lks s' = lks s1 /\
             (s1 = s \/ iter_rewards s app asset (match lks s (app, asset) with Some lk => lk_ids lk | None => [] end) rws = Ok s1).
Proof.
  unfold update_lookup. destruct (clk (cs s) (app, asset)) as [cl|].
  2:{ intros H; injection H as <-. exists s. repeat split; auto. }
  intros H. apply obind_ok in H. destruct H as (s1 & H1 & H2). injection H2 as <-. exists s1. repeat split; auto.
  destruct (rwl s (cl_app cl, cl_asset cl)); [|injection H1 as <-; auto].
  destruct (lsr =? 0); [auto|]. destruct (cl_lsr cl =? 0); [injection H1 as <-; auto|].
  destruct ((cl_lsr cl >? 0) && (lsr >? 0)); [auto|injection H1 as <-; auto].
Qed.

Lemma update_lookup_nonneg s app asset lsr sthr dthr lot dlot rws s' :
  NfNonneg (cs s) -> update_lookup s app asset lsr sthr dthr lot dlot rws = Ok s' -> NfNonneg (cs s').
Proof.
  intros Hn H. destruct (update_lookup_mid _ _ _ _ _ _ _ _ _ _ H) as (s1 & E1 & _ & _ & _ & [->|Hit]).
  - exact (nfnonneg_same _ _ Hn E1).
  - exact (nfnonneg_same _ _ (iter_rewards_nonneg _ _ _ _ _ _ Hn Hit) E1).
Qed.

(* one locker of the lookup, in a state whose books are backed: the reward is both booked and paid *)
Lemma iter_one_eff s app asset lid rw :
  LInv s -> NfNonneg (cs s) -> Backed (cs s) ->
  (forall x, find_locker (lockers s) lid = Some x -> l_app x = app /\ l_asset x = asset) ->
  match iter_one s app asset lid rw with
  | IterGo s' | IterStop s' =>
      exists r, 0 <= r /\ SEff s s' (app, asset) (- r) asset (- r) /\
                fsum (mt app asset) (lockers s') = fsum (mt app asset) (lockers s) + r
  | IterPanic => True
  end.
Proof.
  intros HI Hn Hb Hm. unfold iter_one.
  destruct (find_locker (lockers s) lid) as [ld|] eqn:F; [|exact I].
  destruct (Hm ld eq_refl) as (Ha & Hd).
  destruct (rw =? -2); [exact I|].
  assert (Hzero : forall s', cs s' = cs s -> lockers s' = lockers s ->
            exists r, 0 <= r /\ SEff s s' (app, asset) (- r) asset (- r) /\ fsum (mt app asset) (lockers s') = fsum (mt app asset) (lockers s) + r).
  { intros s' E1 E2. exists 0. split; [lia|]. split; [unfold SEff; rewrite E1; exact (ceff_refl _ _ _)|rewrite E2; lia]. }
  destruct (rw <? 0); [apply Hzero; reflexivity|].
  destruct (tracker_after s lid app rw >=? P18) eqn:ET; [|apply Hzero; reflexivity].
  set (r := dtrunc_int (tracker_after s lid app rw)).
  assert (Hr : 1 <= r) by (apply trunc_pos; lia).
  cbn [cs set_trk].
  destruct (decrease_net_fee (cs s) app (l_asset ld) r) as [c2| |] eqn:D; [|apply Hzero; reflexivity|exact I].
  assert ((r >? 0) = true) as -> by lia.
  cbn [cs set_cs set_trk].
  destruct (decrease_net_fee_spec _ _ _ _ _ D) as (Hle & _ & Hnf2 & Hb2 & _).
  destruct (csend c2 A_COLLECTOR A_LOCKER asset r) as [c3| |] eqn:S; [| |exact I].
  2:{ (* impossible: the collector holds at least the book entry *)
      exfalso. revert S. unfold csend, bsend. assert ((r <? 0) = false) as -> by lia. assert ((r =? 0) = false) as -> by lia.
      change (A_COLLECTOR =? A_EXT) with false. cbn [orb]. rewrite Hb2.
      assert (Hc : r <= bnk (cs s) (A_COLLECTOR, asset)).
      { pose proof (Hb asset [app] ltac:(constructor; [intros []|constructor])) as H1. unfold nf_total in H1. cbn [sum_over] in H1.
        unfold cbal in H1. rewrite Hd in Hle. lia. }
      assert ((r <=? bnk (cs s) (A_COLLECTOR, asset)) = true) as -> by lia. discriminate. }
  exists r. split; [lia|]. split.
  - unfold SEff. rewrite cs_upd_amount. cbn [cs set_lockers set_cs]. rewrite Hd in D.
    eapply ceff_eq; [exact (ceff_trans _ _ _ _ _ _ _ _ _ (ceff_decrease _ _ _ _ _ asset D) (ceff_csend _ _ _ _ _ _ (app, asset) S))|lia|cbn; lia].
  - assert (Hl : lockers (upd_amount (set_lockers (set_cs (set_cs (set_trk s (kupd (trk s) (lid, app) (Some (tracker_after s lid app rw - dec_of_int r)))) c2) c3)
                   (put_locker (lockers s) (with_net ld (l_net ld + r) (l_ret ld + r)))) app asset r true)
                = put_locker (lockers s) (with_net ld (l_net ld + r) (l_ret ld + r))).
    { unfold upd_amount. cbn [lks set_lockers set_cs set_trk]. destruct (lks s (app, asset)); reflexivity. }
    cbn [lockers set_cs set_trk] in Hl |- *. rewrite Hl.
    destruct (find_some _ _ _ F) as (_ & Hid).
    assert (Hfv : find_locker (lockers s) (l_id (with_net ld (l_net ld + r) (l_ret ld + r))) = Some ld) by (cbn [l_id with_net]; rewrite Hid; exact F).
    destruct (put_found _ _ _ Hfv) as (_ & Hsum & _). rewrite Hsum, mt_with_net.
    assert (mt app asset ld = true) as -> by (apply mt_true; auto). cbn [l_net with_net]. lia.
Qed.

Definition CInv (s : state) : Prop := LInv s /\ NfNonneg (cs s) /\ Backed (cs s).

Lemma iter_rewards_eff ids : forall s app asset rws s',
  CInv s -> ids_ok s app asset ids -> iter_rewards s app asset ids rws = Ok s' ->
  CInv s' /\ exists r, 0 <= r /\ SEff s s' (app, asset) (- r) asset (- r) /\
                       fsum (mt app asset) (lockers s') = fsum (mt app asset) (lockers s) + r.
Proof.
  induction ids as [|lid ids IH]; intros s app asset rws s' HC Hok; cbn [iter_rewards].
  - intros H; injection H as <-. split; [exact HC|]. exists 0. split; [lia|]. split; [exact (ceff_refl _ _ _)|lia].
  - destruct rws as [|rw rws].
    { intros H; injection H as <-. split; [exact HC|]. exists 0. split; [lia|]. split; [exact (ceff_refl _ _ _)|lia]. }
    destruct HC as (HI & Hn & Hb).
    assert (Hm : forall x, find_locker (lockers s) lid = Some x -> l_app x = app /\ l_asset x = asset)
      by (intros x Hx; exact (Hok lid x (or_introl eq_refl) Hx)).
    pose proof (iter_one_linv s app asset lid rw HI Hm) as H1.
    pose proof (iter_one_eff s app asset lid rw HI Hn Hb Hm) as H2.
    destruct (iter_one s app asset lid rw) as [s1|s1|]; [| |discriminate].
    + destruct H1 as (HI1 & Hpres). destruct H2 as (r1 & Hr1 & E1 & F1).
      assert (HC1 : CInv s1).
      { split; [exact HI1|]. split; [exact (proj2 (proj2 E1) Hn)|]. exact (ceff_backed _ _ _ _ _ _ Hn Hb E1 ltac:(lia)). }
      intros Hit. destruct (IH s1 app asset rws s' HC1) as (HC' & r2 & Hr2 & E2 & F2); [|exact Hit|].
      { intros id x Hin Hf. destruct (Hpres id x Hf) as (x0 & Hf0 & -> & ->). apply (Hok id x0); [right; exact Hin|exact Hf0]. }
      split; [exact HC'|]. exists (r1 + r2). split; [lia|]. split; [|lia].
      eapply ceff_eq; [exact (ceff_trans _ _ _ _ _ _ _ _ _ E1 E2)|lia|lia].
    + destruct H1 as (HI1 & _). destruct H2 as (r1 & Hr1 & E1 & F1). intros H; injection H as <-.
      split; [|exists r1; auto].
      split; [exact HI1|]. split; [exact (proj2 (proj2 E1) Hn)|]. exact (ceff_backed _ _ _ _ _ _ Hn Hb E1 ltac:(lia)).
Qed.

(* the savings-rate change in a backed state: net fees of (app, asset) fall by exactly what its
   lockers are credited, and exactly that many coins leave the collector *)
Lemma update_lookup_eff s app asset lsr sthr dthr lot dlot rws s' :
  CInv s -> update_lookup s app asset lsr sthr dthr lot dlot rws = Ok s' ->
  exists r, 0 <= r /\ SEff s s' (app, asset) (- r) asset (- r) /\
            net_sum (lockers_of s' app asset) = net_sum (lockers_of s app asset) + r.
Proof.
  intros HC H. destruct (update_lookup_mid _ _ _ _ _ _ _ _ _ _ H) as (s1 & E1 & E2 & E3 & _ & Hcase).
  assert (Hre : forall r, SEff s s1 (app, asset) (- r) asset (- r) -> SEff s s' (app, asset) (- r) asset (- r)).
  { intros r E. eapply ceff_eq; [exact (ceff_trans _ _ _ _ _ _ _ _ _ E (ceff_same _ _ (app, asset) asset E1 E2))|lia|lia]. }
  rewrite !lockers_of_fsum, E3. destruct Hcase as [->|Hit].
  - exists 0. split; [lia|]. split; [apply Hre; exact (ceff_refl _ _ _)|lia].
  - assert (Hok : ids_ok s app asset (match lks s (app, asset) with Some lk => lk_ids lk | None => [] end)).
    { destruct HC as (HI & _). intros id x Hin Hf. destruct (lks s (app, asset)) as [lk|] eqn:K; [|destruct Hin].
      exact (li_ids s HI _ _ _ _ _ K Hin Hf). }
    destruct (iter_rewards_eff _ _ _ _ _ _ HC Hok Hit) as (_ & r & Hr & E & F).
    exists r. split; [exact Hr|]. split; [apply Hre; exact E|exact F].
Qed.

(* ---- esm SetUpDebtRedemptionForCollector ---- *)
Definition EsmEff (c c' : cstate) (app : Z) (l : list (Z * Z)) : Prop :=
  (forall a d, nf_val c' a d = if (a =? app) && esm_has1 l d then 0 else nf_val c a d) /\
  (forall d, cbal c' d = cbal c d - (nf_val c app d - nf_val c' app d)).

Lemma esm_has1_cons asset cls r d : esm_has1 ((asset, cls) :: r) d = ((asset =? d) && (cls =? 1)) || esm_has1 r d.
Proof. reflexivity. Qed.

(* a skipped record: nothing moves; if the record is listed as a debt asset its entry is 0 already *)
Lemma esm_eff_skip c c' app asset cls r :
  (cls =? 1 = true -> nf_val c app asset = 0) -> EsmEff c c' app r -> EsmEff c c' app ((asset, cls) :: r).
Proof.
  intros Hz (A1 & A2). split; [|exact A2]. intros a d. rewrite A1, esm_has1_cons.
  destruct (a =? app) eqn:Ea; cbn [andb]; [|reflexivity]. apply Z.eqb_eq in Ea. subst a.
  destruct (esm_has1 r d); [rewrite orb_true_r; reflexivity|]. rewrite orb_false_r.
  destruct (Z.eqb_spec asset d) as [->|]; cbn [andb]; [|reflexivity].
  destruct (cls =? 1); [|reflexivity]. cbn [andb]. rewrite Hz; reflexivity.
Qed.

Lemma esm_loop_eff l : forall c app c',
  NfNonneg c -> Backed c -> esm_redeem_loop c app l = Ok c' -> NfNonneg c' /\ Backed c' /\ EsmEff c c' app l.
Proof.
  induction l as [|[asset cls] r IH]; intros c app c' Hn Hb; cbn [esm_redeem_loop].
  - intros H; injection H as <-. split; [exact Hn|]. split; [exact Hb|]. split; [intros a d; cbn; rewrite andb_false_r; reflexivity|intros d; lia].
  - destruct (nf c (app, asset)) as [x|] eqn:N.
    2:{ intros H. destruct (IH _ _ _ Hn Hb H) as (A & B & E). split; [exact A|]. split; [exact B|].
        apply esm_eff_skip; [|exact E]. intros _. unfold nf_val. rewrite N. reflexivity. }
    destruct ((cls =? 0) || (x =? 0)) eqn:G.
    { intros H. destruct (IH _ _ _ Hn Hb H) as (A & B & E). split; [exact A|]. split; [exact B|].
      apply esm_eff_skip; [|exact E]. intros Hc. unfold nf_val. rewrite N. lia. }
    destruct (cls =? 3); [discriminate|]. destruct (cls =? 1) eqn:C1; cbn [negb]; [|discriminate].
    destruct (csend c A_COLLECTOR A_EXT asset x) as [c1| |] eqn:S; try discriminate.
    destruct (csend_spec _ _ _ _ _ _ S) as (_ & Hnf1 & _).
    destruct (decrease_net_fee c1 app asset x) as [c2| |] eqn:D.
    2:{ exfalso. revert D. unfold decrease_net_fee. rewrite Hnf1, N. replace (x - x <? 0) with false by lia. discriminate. }
    2:{ exfalso. revert D. unfold decrease_net_fee. rewrite Hnf1, N. replace (x - x <? 0) with false by lia. discriminate. }
    assert (E12 : CEff c c2 (app, asset) (- x) asset (- x)).
    { eapply ceff_eq; [exact (ceff_trans _ _ _ _ _ _ _ _ _ (ceff_csend _ _ _ _ _ _ (app, asset) S) (ceff_decrease _ _ _ _ _ asset D))|lia|cbn; lia]. }
    assert (Hn2 : NfNonneg c2) by exact (proj2 (proj2 E12) Hn).
    assert (Hb2 : Backed c2) by exact (ceff_backed _ _ _ _ _ _ Hn Hb E12 ltac:(lia)).
    intros H. destruct (IH _ _ _ Hn2 Hb2 H) as (A & B & (E1 & E2)). split; [exact A|]. split; [exact B|].
    destruct E12 as (F1 & F2 & _).
    assert (Hx : nf_val c app asset = x) by (unfold nf_val; rewrite N; reflexivity).
    split.
    + intros a d. rewrite E1, F1, esm_has1_cons, keq_pair, C1, andb_true_r.
      destruct (a =? app) eqn:Ea; cbn [andb]; [|lia]. apply Z.eqb_eq in Ea. subst a.
      destruct (esm_has1 r d); [rewrite orb_true_r; reflexivity|]. rewrite orb_false_r.
      destruct (Z.eqb_spec asset d) as [->|Hne].
      * rewrite Z.eqb_refl. lia.
      * destruct (Z.eqb_spec d asset); [congruence|]. lia.
    + intros d. rewrite E2, F2. specialize (F1 app d). rewrite keq_pair, Z.eqb_refl in F1. cbn [andb] in F1. rewrite F1.
      destruct (d =? asset); lia.
Qed.

Lemma esm_redeem_eff s app st l s' :
  NfNonneg (cs s) -> Backed (cs s) -> esm_redeem s app st l = Ok s' ->
  NfNonneg (cs s') /\ Backed (cs s') /\ EsmEff (cs s) (cs s') app l.
Proof.
  intros Hn Hb. unfold esm_redeem. destruct (negb st); [discriminate|]. intros H.
  apply lift_ok in H. destruct H as (c & H & ->). cbn [cs set_cs]. exact (esm_loop_eff _ _ _ _ Hn Hb H).
Qed.

(* nothing but NfNonneg is needed for non-negativity: re-prove it without the backing *)
Lemma esm_loop_nonneg l : forall c app c', NfNonneg c -> esm_redeem_loop c app l = Ok c' -> NfNonneg c'.
Proof.
  induction l as [|[asset cls] r IH]; intros c app c' Hn; cbn [esm_redeem_loop].
  - intros H; injection H as <-. exact Hn.
  - destruct (nf c (app, asset)) as [x|]; [|apply IH; exact Hn].
    destruct ((cls =? 0) || (x =? 0)); [apply IH; exact Hn|]. destruct (cls =? 3); [discriminate|]. destruct (negb (cls =? 1)); [discriminate|].
    destruct (csend c A_COLLECTOR A_EXT asset x) as [c1| |] eqn:S; try discriminate.
    destruct (csend_spec _ _ _ _ _ _ S) as (_ & Hnf1 & _). pose proof (nfnonneg_same _ _ Hn Hnf1) as Hn1.
    destruct (decrease_net_fee c1 app asset x) as [c2| |] eqn:D; try discriminate.
    + apply IH. exact (decrease_net_fee_nonneg _ _ _ _ _ D Hn1).
    + intros H; injection H as <-. exact Hn1.
Qed.

Lemma esm_redeem_nonneg s app st l s' : NfNonneg (cs s) -> esm_redeem s app st l = Ok s' -> NfNonneg (cs s').
Proof.
  intros Hn. unfold esm_redeem. destruct (negb st); [discriminate|]. intros H.
  apply lift_ok in H. destruct H as (c & H & ->). cbn [cs set_cs]. exact (esm_loop_nonneg _ _ _ _ Hn H).
Qed.

(* ---- every op keeps "net fees never negative" ---- *)
Lemma step_nonneg s o s' : valid_op o = true -> NfNonneg (cs s) -> step s o = Ok s' -> NfNonneg (cs s').
Proof.
  intros Hv Hn H. destruct (is_multi o) eqn:U.
  - destruct o; try discriminate U; [exact (update_lookup_nonneg _ _ _ _ _ _ _ _ _ _ Hn H)|exact (esm_redeem_nonneg _ _ _ _ _ Hn H)].
  - exact (proj2 (proj2 (step_effok s o s' Hv U H)) Hn).
Qed.

(* ---- outside the known-finding classes book and coins move together ---- *)
Lemma csend_amount_nonneg c from to d amt c' : csend c from to d amt = Ok c' -> 0 <= amt.
Proof. intros H. exact (proj1 (csend_spec _ _ _ _ _ _ H)). Qed.

Definition Moves (s s' : state) (o : op) (app asset dl db : Z) : Prop :=
  (forall k, nf_delta_of s s' o k = at_key app asset k dl) /\
  (forall d, (if d =? fst (coin_delta_of s s' o) then snd (coin_delta_of s s' o) else 0) = (if d =? asset then db else 0)) /\
  dl <= db /\ (book_only o = false -> dl = db) /\ (dl <> 0 -> op_key s o = Some (app, asset)).

Lemma at_key_zero a1 d1 a2 d2 k : at_key a1 d1 k 0 = at_key a2 d2 k 0.
Proof. unfold at_key. destruct (keq _ _), (keq _ _); reflexivity. Qed.

Lemma step_moves s o s' :
  valid_op o = true -> kf_C13_any o = false -> is_multi o = false -> step s o = Ok s' ->
  exists app asset dl db, Moves s s' o app asset dl db.
Proof.
  intros Hv Hk Hu H. unfold Moves.
  destruct o; try discriminate Hu; cbn [nf_delta_of nf_delta_spec coin_delta_of fst snd book_only op_key].
  all: try (exists 0, 0, 0, 0; repeat split; try lia; try reflexivity; intros k; unfold at_key; destruct (keq _ _); reflexivity).
  - exists app, asset, (- credited s app asset lid rw), (- credited s app asset lid rw). repeat split; try lia; reflexivity.
  - exists app, asset, (- credited s app asset lid rw), (- credited s app asset lid rw). repeat split; try lia; reflexivity.
  - exists app, asset, (- credited s app asset lid rw), (- credited s app asset lid rw). repeat split; try lia; reflexivity.
  - destruct (find_locker (lockers s) lid) as [ld|].
    + exists app, (l_asset ld), (- credited s app (l_asset ld) lid rw), (- credited s app (l_asset ld) lid rw). repeat split; try lia; reflexivity.
    + exists 0, 0, 0, 0. repeat split; try lia; try reflexivity. intros k; unfold at_key; destruct (keq _ _); reflexivity.
  - exists app, asset, amt, amt. repeat split; try lia; reflexivity.
  - exists app, asset, (- amt), (- amt). repeat split; try lia; reflexivity.
  - exists app, asset, (- amt), 0. cbn in Hv. repeat split; try lia; try reflexivity; try discriminate.
  - cbn in Hv. assert (denom = asset) by lia. subst denom.
    exists app, asset, (- amt), (- amt). repeat split; try lia; reflexivity.
  - exists app, asset, (if started s s' app asset then - lot_of s app asset else 0), (if started s s' app asset then - lot_of s app asset else 0).
    repeat split; try lia; reflexivity.
  - exists app, asset, (if bidder && negb esm then 0 else lot), (if bidder && negb esm then 0 else lot).
    repeat split; try lia; try reflexivity. intros k. destruct (bidder && negb esm); [|reflexivity]. unfold at_key. destruct (keq _ _); reflexivity.
  - exists app, asset, (if esm then 0 else if bids then amt else 0), (if esm then 0 else if bids then amt else 0).
    repeat split; try lia; try reflexivity. intros k. destruct esm; [unfold at_key; destruct (keq _ _); reflexivity|].
    destruct bids; [reflexivity|unfold at_key; destruct (keq _ _); reflexivity].
  - exists app, asset, amt, amt. repeat split; try lia; reflexivity.
  - exists app, asset, (if started s s' app asset && af_surplus (flags_of s app asset) then - lot_of s app asset else 0),
      (if started s s' app asset && af_surplus (flags_of s app asset) then - lot_of s app asset else 0).
    repeat split; try lia; reflexivity.
  - (* v2 surplus close *)
    exists app, asset, 0, 0. repeat split; try lia; try reflexivity. intros k; unfold at_key; destruct (keq _ _); reflexivity.
  - (* v2 debt close: DebtToken is in the denom of the collector asset (valid_op); its amount is booked *)
    cbn in Hv. assert (debt_denom = asset) as -> by lia.
    exists app, asset, debt_amt, debt_amt. repeat split; try lia; reflexivity.
  - exists app, debt_asset, amt, amt. repeat split; try lia; reflexivity.
  - exists app, debt_asset, (esm_xfer collected fee), (esm_xfer collected fee). repeat split; try lia; reflexivity.
  - exists app, d, (amt - REFUND_TOTAL), (amt - REFUND_TOTAL). repeat split; try lia; reflexivity.
Qed.

Lemma step_backed s o s' :
  valid_op o = true -> kf_C13_any o = false -> CInv s -> step s o = Ok s' -> Backed (cs s').
Proof.
  intros Hv Hk (HI & Hn & Hb) H. destruct (is_multi o) eqn:U.
  - destruct o; try discriminate U; cbn [step] in H.
    + destruct (update_lookup_eff _ _ _ _ _ _ _ _ _ _ (conj HI (conj Hn Hb)) H) as (r & Hr & E & _).
      exact (ceff_backed _ _ _ _ _ _ Hn Hb E ltac:(lia)).
    + exact (proj1 (proj2 (esm_redeem_eff _ _ _ _ _ Hn Hb H))).
  - destruct (step_effok s o s' Hv U H) as (A1 & A2 & A3).
    destruct (step_moves s o s' Hv Hk U H) as (app & asset & dl & db & M1 & M2 & M3 & _).
    apply (ceff_backed (cs s) (cs s') app asset dl db Hn Hb); [|exact M3].
    repeat split; [|intros d; rewrite A2, M2; reflexivity|exact A3].
    intros a d. rewrite A1, M1. reflexivity.
Qed.

Lemma step_cinv s o s' :
  valid_op o = true -> kf_C13_any o = false -> CInv s -> step s o = Ok s' -> CInv s'.
Proof.
  intros Hv Hk HC H. split; [exact (step_linv _ _ _ (proj1 HC) Hv H)|].
  split; [exact (step_nonneg _ _ _ Hv (proj1 (proj2 HC)) H)|exact (step_backed _ _ _ Hv Hk HC H)].
Qed.

(* ---- histories ---- *)
Definition kf_free (o : op) : bool := negb (kf_C13_any o).

Lemma run_cinv ops : forall s, CInv s -> forallb valid_op ops = true -> CInv (run s ops).
Proof.
  induction ops as [|o ops IH]; intros s HC Hv; [exact HC|].
  cbn [forallb] in Hv. apply andb_true_iff in Hv. destruct Hv as (Hv1 & Hv2).
  unfold run. cbn [fold_left]. apply IH; [|exact Hv2].
  unfold apply_step. destruct (step s o) as [s'| |] eqn:E; [|exact HC|exact HC].
  exact (step_cinv s o s' Hv1 eq_refl HC E).
Qed.

Lemma run_nonneg ops : forall s, NfNonneg (cs s) -> forallb valid_op ops = true -> NfNonneg (cs (run s ops)).
Proof.
  induction ops as [|o ops IH]; intros s Hn Hv; [exact Hn|].
  cbn in Hv. apply andb_true_iff in Hv. destruct Hv as (Hv1 & Hv2).
  unfold run. cbn [fold_left]. apply IH; [|exact Hv2].
  unfold apply_step. destruct (step s o) as [s'| |] eqn:E; [|exact Hn|exact Hn]. exact (step_nonneg _ _ _ Hv1 Hn E).
Qed.

Lemma genesis_nf assets apps funds : nf (cs (genesis assets apps funds)) = fun _ => None.
Proof.
  unfold genesis. assert (H : nf (cs (init_state assets apps)) = fun _ => None) by reflexivity. revert H. generalize (init_state assets apps).
  induction funds as [|[[u d] amt] r IH]; intros s H; [exact H|]. cbn [fold_left]. apply IH. exact H.
Qed.

Lemma genesis_cbal assets apps funds d : forallb valid_fund funds = true -> cbal (cs (genesis assets apps funds)) d = 0.
Proof.
  unfold genesis. assert (H : cbal (cs (init_state assets apps)) d = 0) by reflexivity. revert H. generalize (init_state assets apps).
  induction funds as [|[[u d'] amt] r IH]; intros s H Hv; [exact H|]. cbn [fold_left].
  cbn in Hv. apply andb_true_iff in Hv. destruct Hv as (Hv1 & Hv2). apply IH; [|exact Hv2].
  unfold fund_user, cbal. cbn [cs set_cs bnk set_bnk]. unfold kupd, keq. cbn [fst snd].
  assert (Hu : 0 <= u) by lia. rewrite (Z.eqb_sym A_COLLECTOR (user u)), (user_not_collector u Hu). cbn [andb]. exact H.
Qed.

Lemma genesis_cinv assets apps funds : forallb valid_fund funds = true -> CInv (genesis assets apps funds).
Proof.
  intros Hv. split; [exact (genesis_linv assets apps funds Hv)|]. split.
  - intros k x. rewrite genesis_nf. discriminate.
  - intros d l Hnd. rewrite (genesis_cbal assets apps funds d Hv). unfold nf_total.
    assert (forall a, nf_val (cs (genesis assets apps funds)) a d = 0) as Hz by (intros a; unfold nf_val; rewrite genesis_nf; reflexivity).
    clear Hnd. induction l as [|a r IH]; cbn; [lia|]. rewrite Hz. lia.
Qed.

(* ---- the executable predicates ---- *)
Lemma nonneg_holds la ld s : NfNonneg (cs s) -> holds_C13_nonneg la ld s = true.
Proof.
  intros Hn. unfold holds_C13_nonneg. apply forallb_forall. intros d _. apply forallb_forall. intros a _.
  pose proof (nf_val_nonneg (cs s) a d Hn). lia.
Qed.

Lemma backed_holds la ld s : Backed (cs s) -> NoDup la -> holds_C13_backed la ld s = true.
Proof.
  intros Hb Hnd. unfold holds_C13_backed. apply forallb_forall. intros d _. pose proof (Hb d la Hnd) as H. unfold cbal in H. lia.
Qed.

Lemma delta_holds keys s o s' :
  valid_op o = true -> is_multi o = false -> step s o = Ok s' -> holds_C13_delta keys s o s' = true.
Proof.
  intros Hv U H. destruct (step_effok s o s' Hv U H) as (A1 & _).
  unfold holds_C13_delta. apply forallb_forall. intros [a d] _. cbn [fst snd]. specialize (A1 a d).
  destruct o; try discriminate U; cbn [nf_delta_of] in A1; lia.
Qed.

Lemma delta_holds_upd keys s app asset lsr sthr dthr lot dlot rws s' :
  CInv s -> step s (UpdLookup app asset lsr sthr dthr lot dlot rws) = Ok s' ->
  holds_C13_delta keys s (UpdLookup app asset lsr sthr dthr lot dlot rws) s' = true.
Proof.
  intros HC H. cbn [step] in H. destruct (update_lookup_eff _ _ _ _ _ _ _ _ _ _ HC H) as (r & Hr & (A1 & _) & F).
  unfold holds_C13_delta. apply forallb_forall. intros [a d] _. cbn [fst snd]. rewrite A1, F. unfold at_key.
  destruct (keq (a, d) (app, asset)); lia.
Qed.

Lemma delta_holds_esm keys s app st l s' :
  CInv s -> step s (EsmRedeem app st l) = Ok s' -> holds_C13_delta keys s (EsmRedeem app st l) s' = true.
Proof.
  intros (_ & Hn & Hb) H. cbn [step] in H. destruct (esm_redeem_eff _ _ _ _ _ Hn Hb H) as (_ & _ & (A1 & _)).
  unfold holds_C13_delta. apply forallb_forall. intros [a d] _. cbn [fst snd]. rewrite A1.
  destruct ((a =? app) && esm_has1 l d); lia.
Qed.

Lemma nf_total_moves c c' la d app asset dl :
  NoDup la -> (forall a d, nf_val c' a d = nf_val c a d + (if keq (a, d) (app, asset) then dl else 0)) ->
  nf_total c' la d = nf_total c la d + (if (d =? asset) && existsb (Z.eqb app) la then dl else 0).
Proof.
  intros Hnd Hval. unfold nf_total.
  rewrite (sum_over_bump la (fun a => nf_val c a d) (fun a => nf_val c' a d) app (if d =? asset then dl else 0) Hnd).
  - destruct (d =? asset), (existsb (Z.eqb app) la); cbn [andb]; lia.
  - intros a. rewrite Hval, keq_pair. destruct (a =? app), (d =? asset); cbn [andb]; lia.
Qed.

Definition key_in (la : list Z) (s : state) (o : op) : bool :=
  match op_key s o with Some (a, _) => existsb (Z.eqb a) la | None => true end.

Lemma flow_holds la ld s o s' :
  valid_op o = true -> kf_C13_any o = false -> CInv s -> NoDup la -> key_in la s o = true ->
  step s o = Ok s' -> holds_C13_flow la ld s o s' = true.
Proof.
  intros Hv Hk HC Hnd Hin H. unfold holds_C13_flow. apply forallb_forall. intros d _.
  destruct (is_multi o) eqn:U.
  - destruct o; try discriminate U; cbn [step] in H.
    + destruct (update_lookup_eff _ _ _ _ _ _ _ _ _ _ HC H) as (r & Hr & (A1 & A2 & _) & _).
      fold (cbal (cs s') d). fold (cbal (cs s) d). rewrite A2, (nf_total_moves _ _ la d app asset (- r) Hnd A1).
      unfold key_in in Hin. cbn [op_key] in Hin. rewrite Hin, andb_true_r. destruct (d =? asset); lia.
    + destruct HC as (_ & Hn & Hb). destruct (esm_redeem_eff _ _ _ _ _ Hn Hb H) as (_ & _ & (A1 & A2)).
      fold (cbal (cs s') d). fold (cbal (cs s) d). rewrite A2. unfold nf_total.
      rewrite (sum_over_bump la (fun a => nf_val (cs s) a d) (fun a => nf_val (cs s') a d) app (nf_val (cs s') app d - nf_val (cs s) app d) Hnd).
      * unfold key_in in Hin. cbn [op_key] in Hin. rewrite Hin. lia.
      * intros a. destruct (Z.eqb_spec a app) as [->|Hne]; [lia|]. rewrite A1. destruct (Z.eqb_spec a app); [contradiction|]. cbn [andb]. lia.
  - destruct (step_effok s o s' Hv U H) as (A1 & A2 & _).
    destruct (step_moves s o s' Hv Hk U H) as (app & asset & dl & db & M1 & M2 & M3 & M4 & M5).
    assert (Hval : forall a d, nf_val (cs s') a d = nf_val (cs s) a d + (if keq (a, d) (app, asset) then dl else 0))
      by (intros a d'; rewrite A1, M1; reflexivity).
    assert (Hdn : nf_total (cs s') la d - nf_total (cs s) la d = if d =? asset then dl else 0).
    { rewrite (nf_total_moves _ _ la d app asset dl Hnd Hval).
      destruct (Z.eq_dec dl 0) as [->|Hne]; [destruct ((d =? asset) && _), (d =? asset); lia|].
      unfold key_in in Hin. rewrite (M5 Hne) in Hin. rewrite Hin, andb_true_r. lia. }
    assert (Hdb : bnk (cs s') (A_COLLECTOR, d) - bnk (cs s) (A_COLLECTOR, d) = if d =? asset then db else 0).
    { fold (cbal (cs s') d). fold (cbal (cs s) d). rewrite A2, M2. lia. }
    rewrite Hdn, Hdb.
    destruct o; try discriminate U; try (cbn [book_only] in M4; rewrite (M4 eq_refl); destruct (d =? asset); lia).
    destruct (d =? asset); lia.
Qed.

(* ---- what a withdrawal / close pays, spelled out ---- *)
Lemma step_pay_withdraw s u app asset lid amt rw s' :
  LInv s -> 0 <= u -> step s (LWithdraw u app asset lid amt rw) = Ok s' ->
  bnk (cs s') (user u, asset) = bnk (cs s) (user u, asset) + amt.
Proof.
  intros HI Hu H. assert (Hv : valid_op (LWithdraw u app asset lid amt rw) = true) by (cbn; lia).
  pose proof (step_pay _ _ _ HI Hv H) as P. unfold holds_C13_pay in P. cbn [pay_spec] in P. lia.
Qed.

Lemma step_pay_close s u app asset lid rw s' :
  LInv s -> 0 <= u -> step s (LClose u app asset lid rw) = Ok s' ->
  exists ld, find_locker (lockers s) lid = Some ld /\ find_locker (lockers s') lid = None /\
             bnk (cs s') (user u, asset) = bnk (cs s) (user u, asset) + l_net ld + credited s app asset lid rw.
Proof.
  intros HI Hu H. assert (Hv : valid_op (LClose u app asset lid rw) = true) by (cbn; lia).
  pose proof (step_pay _ _ _ HI Hv H) as P. unfold holds_C13_pay in P. cbn [pay_spec] in P.
  cbn [step] in H. unfold msg_close in H. destruct (lid <=? 0); [discriminate|].
  destruct (locker_checks s u app asset lid) as [ld0| |] eqn:C; cbn [obind] in H; try discriminate.
  destruct (locker_checks_spec _ _ _ _ _ _ C) as (F & Hd & Ho & Ha & Hk). rewrite F in P. exists ld0. split; [exact F|]. split; [|lia].
  destruct (calc_rewards s app asset lid rw) as [s1| |] eqn:R; cbn [obind] in H; try discriminate.
  destruct (calc_rewards_locker _ _ _ _ _ _ _ R F) as (ld1 & F1 & Hid1 & _).
  assert (HI1 : LInv s1).
  { eapply calc_rewards_linv; eauto. intros ld Hf. rewrite F in Hf. injection Hf as <-. auto. }
  unfold reread in H. rewrite F1 in H. apply obind_ok in H. destruct H as (s2 & H1 & H2). injection H2 as <-.
  assert (L2 : lockers s2 = lockers s1).
  { destruct (l_net ld1 >? 0); [apply lift_ok in H1; destruct H1 as (c & _ & ->); reflexivity|injection H1 as <-; reflexivity]. }
  cbn [lockers set_trk set_lockers].
  match goal with |- find_locker (del_locker (lockers ?X) _) _ = None => assert (Hl : lockers X = lockers s1) end.
  { destruct (lks (upd_amount s2 app asset (l_net ld1) false) (app, asset)) as [lk'|];
      [match goal with |- context [if ?b then _ else _] => destruct b end|]; cbn [lockers set_lks set_umap];
      unfold upd_amount; destruct (lks s2 (app, asset)); cbn [lockers set_lks]; exact L2. }
  rewrite Hl, (find_del _ _ _ (li_nodup s1 HI1)), Hid1, Z.eqb_refl. reflexivity.
Qed.

(* ------------------------------------------------------------------------------------ *)
(* a concrete world: assets 1..3, apps 1..2, two funded users; used by the non-vacuity
   examples and the refutation witnesses                                                  *)
Definition ex_assets (a : Z) : bool := (1 <=? a) && (a <=? 3).
Definition ex_apps (a : Z) : bool := (1 <=? a) && (a <=? 2).
Definition ex_genesis : state := genesis ex_assets ex_apps [(0, 2, 5000000); (1, 2, 7000000); (1, 3, 900)].

(* lookup + whitelists for (app 1, asset 2) with a savings rate, two lockers, a fee paid in, a
   reward paid (tracker input 3.5 -> 3 credited), a withdrawal, a close, a generation-1 surplus
   auction started and closed without bidder, a debt cover *)
Definition ex_ops : list op :=
  [ AddLookup 1 2 3 100000000000000000 1000 500 500 500; WlLocker 1 2; WlReward 1 2; SetFlags 1 2 true false false;
    LCreate 0 1 2 1000000; LCreate 1 1 2 2500000; LDeposit 0 1 2 1 500 0;
    FeeIn 1 2 40000 false; LRewardCalc 1 1 3500000000000000000;
    LWithdraw 1 1 2 2 300000 2000000000000000000; V1SurplusStart 1 2; V1SurplusClose 1 2 500 false false;
    GetAmount 1 2 100; LClose 0 1 2 1 0; UpdLookup 1 2 50000000000000000 1000 500 500 500 [4200000000000000000] ].

(* the witnesses of the three former known-finding classes (all repaired) *)
Definition ex_kf1_ops : list op := [ V2Penalty 1 2 3 120000 ].
Definition ex_kf2_ops : list op :=
  [ AddLookup 1 2 3 0 1000 500 500 500; SetFlags 1 2 true false false; FeeIn 1 2 2000 false; V2CheckStats 1 2; V2SurplusClose 1 2 500 ].
Definition ex_kf3_ops : list op := [ SetFlags 1 2 false true false; V2DebtClose 1 2 700 2 500 ].

(* the ESM / refund paths: a TriggerEsm with more collected than the penalty (1200 of 5000 go to the
   collector), one with less (all 700), the collector MsgDeposit + Refund in its own configuration
   (app 2, asset 3), then the emergency redemption of both apps' books *)
Definition ex_genesis2 : state := genesis ex_assets ex_apps [(0, 3, 30000000000)].
Definition ex_ops2 : list op :=
  [ V2TriggerEsm 1 3 5000 1200; V2TriggerEsm 1 3 700 1200; CDeposit 0 2 3 25000000000 false;
    FeeIn 1 2 900 false; EsmRedeem 1 true [(2, 0); (3, 1)]; EsmRedeem 2 true [(3, 1)] ].

(* the former witness of C13-F1 (repaired): the penalty is booked where its coins are *)
Lemma kf1_regression :
  forallb valid_op ex_kf1_ops = true /\ forallb kf_free ex_kf1_ops = true /\
  holds_C13_backed [1; 2] [1; 2; 3] (run ex_genesis ex_kf1_ops) = true /\
  holds_C13_flow [1; 2] [1; 2; 3] ex_genesis (V2Penalty 1 2 3 120000) (run ex_genesis ex_kf1_ops) = true /\
  nf_val (cs (run ex_genesis ex_kf1_ops)) 1 3 = 120000 /\ nf_val (cs (run ex_genesis ex_kf1_ops)) 1 2 = 0.
Proof. vm_compute. repeat split. Qed.

(* the former witness of C13-F2 (repaired): the start takes the lot (500) out of coins and books, the close
   moves neither: 1500 coins against 1500 on the books *)
Lemma kf2_regression :
  forallb valid_op ex_kf2_ops = true /\
  holds_C13_backed [1; 2] [1; 2; 3] (run ex_genesis ex_kf2_ops) = true /\
  holds_C13_flow [1; 2] [1; 2; 3] (run ex_genesis (removelast ex_kf2_ops)) (V2SurplusClose 1 2 500) (run ex_genesis ex_kf2_ops) = true /\
  nf_val (cs (run ex_genesis ex_kf2_ops)) 1 2 = 1500 /\ bnk (cs (run ex_genesis ex_kf2_ops)) (A_COLLECTOR, 2) = 1500.
Proof. vm_compute. repeat split. Qed.

(* the former witness of C13-F3 (repaired): DebtToken.Amount = 500 is booked for the 500 that arrive *)
Lemma kf3_regression :
  forallb valid_op ex_kf3_ops = true /\ forallb kf_free ex_kf3_ops = true /\
  holds_C13_backed [1; 2] [1; 2; 3] (run ex_genesis ex_kf3_ops) = true /\
  holds_C13_flow [1; 2] [1; 2; 3] (run ex_genesis (removelast ex_kf3_ops)) (V2DebtClose 1 2 700 2 500) (run ex_genesis ex_kf3_ops) = true /\
  nf_val (cs (run ex_genesis ex_kf3_ops)) 1 2 = 500 /\ bnk (cs (run ex_genesis ex_kf3_ops)) (A_COLLECTOR, 2) = 500.
Proof. vm_compute. repeat split. Qed.

(* the former consequence of C13-F2 for the savings-rate change (repaired): after a generation-2 surplus
   auction and a debt cover that leaves 502 coins for 502 on the books, collector.LockerIterateRewards
   lowers the books by the reward (3), pays it and credits the locker (before the fix: 2 coins against
   1002 on the books, books lowered, nothing paid, `continue`) *)
Definition ex_kf2_rate_ops : list op :=
  [ AddLookup 1 2 3 100000000000000000 1000 500 500 500; WlLocker 1 2; WlReward 1 2; SetFlags 1 2 true false false;
    LCreate 0 1 2 1000000; FeeIn 1 2 2000 false; V2CheckStats 1 2; V2SurplusClose 1 2 500; GetAmount 1 2 998;
    UpdLookup 1 2 50000000000000000 1000 500 500 500 [3500000000000000000] ].

Lemma kf2_rate_change_regression :
  let s := run ex_genesis (removelast ex_kf2_rate_ops) in let s' := run ex_genesis ex_kf2_rate_ops in
  forallb valid_op ex_kf2_rate_ops = true /\
  bnk (cs s) (A_COLLECTOR, 2) = 502 /\ nf_val (cs s) 1 2 = 502 /\
  nf_val (cs s') 1 2 = 499 /\ bnk (cs s') (A_COLLECTOR, 2) = 499 /\
  net_sum (lockers_of s' 1 2) = net_sum (lockers_of s 1 2) + 3 /\
  holds_C13_flow [1; 2] [1; 2; 3] s (UpdLookup 1 2 50000000000000000 1000 500 500 500 [3500000000000000000]) s' = true.
Proof. vm_compute. repeat split. Qed.

(* no class is left: every history is outside *)
Lemma kf_free_all ops : forallb kf_free ops = true.
Proof. induction ops as [|o ops IH]; [reflexivity|]. cbn [forallb]. rewrite IH. reflexivity. Qed.
