(* C13, collector half: for every op of Model/Locker.v the per-op table (what the op does to the
   net-fee book and to the collector's coin balance), net fees never negative, the backing
   invariant outside the known-finding classes, lifted to every finite history. *)
From Comdex Require Import Lib.Base Lib.DecArith Model.Collector Model.Locker
  Proofs.CollectorProofs Proofs.LockerProofs Proofs.C13Locker.
From Coq Require Import ZifyBool.

(* ---- one book entry [k] moves by [dl], the collector balance of denom [dn] by [db] ---- *)
Definition CEff (c c' : cstate) (k : key) (dl dn db : Z) : Prop :=
  (forall a d, nf_val c' a d = nf_val c a d + (if keq (a, d) k then dl else 0)) /\
  (forall d, cbal c' d = cbal c d + (if d =? dn then db else 0)) /\
  (NfNonneg c -> NfNonneg c').

Lemma ceff_refl c k dn : CEff c c k 0 dn 0.
Proof. repeat split; auto; intros; [destruct (keq _ _)|destruct (_ =? _)]; lia. Qed.

Lemma ceff_trans c1 c2 c3 k dl1 dl2 dn db1 db2 :
  CEff c1 c2 k dl1 dn db1 -> CEff c2 c3 k dl2 dn db2 -> CEff c1 c3 k (dl1 + dl2) dn (db1 + db2).
Proof.
  intros (A1 & A2 & A3) (B1 & B2 & B3). repeat split; auto.
  - intros a d. rewrite B1, A1. destruct (keq _ _); lia.
  - intros d. rewrite B2, A2. destruct (_ =? _); lia.
Qed.

Lemma ceff_eq c c' k dl dn db dl' db' : CEff c c' k dl dn db -> dl = dl' -> db = db' -> CEff c c' k dl' dn db'.
Proof. intros H -> ->. exact H. Qed.

Lemma ceff_same c c' k dn : nf c' = nf c -> bnk c' = bnk c -> CEff c c' k 0 dn 0.
Proof.
  intros E1 E2. repeat split.
  - intros a d. unfold nf_val. rewrite E1. destruct (keq _ _); lia.
  - intros d. unfold cbal. rewrite E2. destruct (_ =? _); lia.
  - intros H. exact (nfnonneg_same _ _ H E1).
Qed.

(* the zero effect can be re-labelled *)
Lemma ceff_zero c c' k dn k' dn' : CEff c c' k 0 dn 0 -> CEff c c' k' 0 dn' 0.
Proof.
  intros (A1 & A2 & A3). repeat split; auto.
  - intros a d. rewrite A1. destruct (keq (a, d) k), (keq (a, d) k'); lia.
  - intros d. rewrite A2. destruct (d =? dn), (d =? dn'); lia.
Qed.

Lemma ceff_csend c from to d amt c' k :
  csend c from to d amt = Ok c' ->
  CEff c c' k 0 d ((if to =? A_COLLECTOR then amt else 0) - (if from =? A_COLLECTOR then amt else 0)).
Proof.
  intros H. destruct (csend_spec _ _ _ _ _ _ H) as (Ha & Hnf & _). repeat split.
  - intros a d'. unfold nf_val. rewrite Hnf. destruct (keq _ _); lia.
  - intros d'. rewrite (cbal_csend _ _ _ _ _ _ d' H). destruct (to =? A_COLLECTOR), (from =? A_COLLECTOR), (d' =? d); cbn [andb]; lia.
  - intros Hn. exact (nfnonneg_same _ _ Hn Hnf).
Qed.

Lemma ceff_csend_other c from to d amt c' k dn :
  from <> A_COLLECTOR -> to <> A_COLLECTOR -> csend c from to d amt = Ok c' -> CEff c c' k 0 dn 0.
Proof.
  intros Hf Ht H. pose proof (ceff_csend _ _ _ _ _ _ k H) as E.
  destruct (Z.eqb_spec to A_COLLECTOR); [contradiction|]. destruct (Z.eqb_spec from A_COLLECTOR); [contradiction|].
  eapply ceff_zero. exact E.
Qed.

Lemma ceff_csend_other' c from to d amt c' k dn :
  csend c from to d amt = Ok c' -> from <> A_COLLECTOR -> to <> A_COLLECTOR -> CEff c c' k 0 dn 0.
Proof. intros H Hf Ht. exact (ceff_csend_other _ _ _ _ _ _ k dn Hf Ht H). Qed.

Lemma keq_pair a d app asset : keq (a, d) (app, asset) = (a =? app) && (d =? asset).
Proof. reflexivity. Qed.

Lemma ceff_set_net_fee c app asset fee c' dn : set_net_fee c app asset fee = Ok c' -> CEff c c' (app, asset) fee dn 0.
Proof.
  intros H. destruct (set_net_fee_spec _ _ _ _ _ H) as (Hf & Hnf & Hb & _). repeat split.
  - intros a d. rewrite (nf_val_upd c c' app asset _ a d Hnf), keq_pair.
    destruct ((a =? app) && (d =? asset)) eqn:E; [|lia]. apply andb_true_iff in E. destruct E as (->%Z.eqb_eq & ->%Z.eqb_eq). lia.
  - intros d. unfold cbal. rewrite Hb. destruct (_ =? _); lia.
  - intros Hn. exact (set_net_fee_nonneg _ _ _ _ _ H Hn).
Qed.

Lemma ceff_decrease c app asset amt c' dn : decrease_net_fee c app asset amt = Ok c' -> CEff c c' (app, asset) (- amt) dn 0.
Proof.
  intros H. destruct (decrease_net_fee_spec _ _ _ _ _ H) as (Hle & _ & Hnf & Hb & _). repeat split.
  - intros a d. rewrite (nf_val_upd c c' app asset _ a d Hnf), keq_pair.
    destruct ((a =? app) && (d =? asset)) eqn:E; [|lia]. apply andb_true_iff in E. destruct E as (->%Z.eqb_eq & ->%Z.eqb_eq). lia.
  - intros d. unfold cbal. rewrite Hb. destruct (_ =? _); lia.
  - intros Hn. exact (decrease_net_fee_nonneg _ _ _ _ _ H Hn).
Qed.

Lemma ceff_mapping c app asset f c' k dn : set_auction_mapping c app asset f = Ok c' -> CEff c c' k 0 dn 0.
Proof. intros H. destruct (set_auction_mapping_spec _ _ _ _ _ H) as (Hnf & Hb & _). apply ceff_same; assumption. Qed.

Lemma ceff_get_amount c app asset amt c' :
  get_amount_from_collector c app asset amt = Ok c' -> CEff c c' (app, asset) (- amt) asset (- amt).
Proof.
  unfold get_amount_from_collector. destruct (nf c (app, asset)); [|discriminate].
  destruct (amt <? 0); [discriminate|]. destruct (negb (z - amt >? 0)); [discriminate|].
  intros H. apply obind_ok in H. destruct H as (c1 & H1 & H2).
  eapply ceff_eq; [eapply ceff_trans; [exact (ceff_csend _ _ _ _ _ _ (app, asset) H1)|exact (ceff_decrease _ _ _ _ _ asset H2)]| |].
  - lia.
  - cbn; lia.
Qed.

Lemma ceff_surplus_fund c app asset u denom amt c' : 0 <= u ->
  surplus_fund c app asset (user u) denom amt = Ok c' -> CEff c c' (app, asset) (- amt) denom (- amt).
Proof.
  intros Hu. unfold surplus_fund. intros H. apply obind_ok in H. destruct H as (c1 & H1 & H2).
  eapply ceff_eq; [eapply ceff_trans; [exact (ceff_csend _ _ _ _ _ _ (app, asset) H1)|exact (ceff_decrease _ _ _ _ _ denom H2)]| |].
  - lia.
  - rewrite (user_not_collector u Hu). cbn; lia.
Qed.

(* ---- state level ---- *)
Definition SEff (s s' : state) (k : key) (dl dn db : Z) : Prop := CEff (cs s) (cs s') k dl dn db.

Lemma seff_lift s r s' k dl dn db :
  lift s r = Ok s' -> (forall c, r = Ok c -> CEff (cs s) c k dl dn db) -> SEff s s' k dl dn db.
Proof. intros H Hc. apply lift_ok in H. destruct H as (c & -> & ->). apply Hc. reflexivity. Qed.

(* coins in from the outside account, then booked *)
Lemma seff_in_and_book s coin_asset amt app book_asset fee s' :
  obind (lift s (csend (cs s) A_EXT A_COLLECTOR coin_asset amt)) (fun s1 => lift s1 (set_net_fee (cs s1) app book_asset fee)) = Ok s' ->
  SEff s s' (app, book_asset) fee coin_asset amt.
Proof.
  intros H. apply obind_ok in H. destruct H as (s1 & H1 & H2).
  eapply ceff_eq; [eapply ceff_trans|..].
  - eapply seff_lift; [exact H1|]. intros c Hc. exact (ceff_csend _ _ _ _ _ _ (app, book_asset) Hc).
  - eapply seff_lift; [exact H2|]. intros c Hc. exact (ceff_set_net_fee _ _ _ _ _ coin_asset Hc).
  - lia.
  - cbn; lia.
Qed.

Lemma seff_penalty s app book_asset coin_asset amt s' :
  obind (if amt >? 0 then lift s (csend (cs s) A_EXT A_COLLECTOR coin_asset amt) else Ok s)
        (fun s1 => lift s1 (set_net_fee (cs s1) app book_asset amt)) = Ok s' ->
  SEff s s' (app, book_asset) amt coin_asset amt.
Proof.
  destruct (amt >? 0) eqn:G; [apply seff_in_and_book|].
  cbn [obind]. intros H. apply lift_ok in H. destruct H as (c & H & ->). unfold SEff. cbn [cs set_cs].
  destruct (set_net_fee_spec _ _ _ _ _ H) as (Hf & _). assert (amt = 0) by lia. subst amt.
  exact (ceff_set_net_fee _ _ _ _ _ coin_asset H).
Qed.

Lemma seff_mapping s app asset f s' k dn : lift s (set_auction_mapping (cs s) app asset f) = Ok s' -> SEff s s' k 0 dn 0.
Proof. intros H. eapply seff_lift; [exact H|]. intros c Hc. exact (ceff_mapping _ _ _ _ _ k dn Hc). Qed.

(* rewards.CalculateLockerRewards *)
Lemma calc_rewards_seff s app asset lid rw s1 ld :
  calc_rewards s app asset lid rw = Ok s1 -> find_locker (lockers s) lid = Some ld -> l_asset ld = asset ->
  SEff s s1 (app, asset) (- credited s app asset lid rw) asset (- credited s app asset lid rw).
Proof.
  intros H F Hd. destruct (calc_rewards_shape _ _ _ _ _ _ H) as ([(Hr & E1 & _)|(Hr & ld' & lk & c2 & c3 & F' & K & D & S & E1 & _)] & _).
  - unfold SEff. rewrite E1, Hr. exact (ceff_refl _ _ _).
  - rewrite F in F'. injection F' as <-. rewrite Hd in D. unfold SEff. rewrite E1.
    eapply ceff_eq; [eapply ceff_trans; [exact (ceff_decrease _ _ _ _ _ asset D)|exact (ceff_csend _ _ _ _ _ _ (app, asset) S)]| |].
    + lia.
    + cbn; lia.
Qed.

Lemma started_refl s app asset : started s s app asset = false.
Proof. unfold started. destruct (af_active _); reflexivity. Qed.

Lemma mapping_flags c app asset f c' :
  set_auction_mapping c app asset f = Ok c' -> af_surplus f && af_debt f = false /\ amp c' (app, asset) = Some f.
Proof.
  intros H. pose proof (set_auction_mapping_spec _ _ _ _ _ H) as (_ & _ & _ & _ & _ & _ & _ & Ha). revert H. unfold set_auction_mapping.
  destruct (negb (has_app c app)); [discriminate|]. destruct (negb (has_asset c asset)); [discriminate|].
  destruct (af_surplus f && af_distributor f); [discriminate|]. destruct (af_surplus f && af_debt f); [discriminate|].
  intros _. split; [reflexivity|]. rewrite Ha. apply kupd_same.
Qed.

(* ---- the per-op table ---- *)
Definition EffOk (s s' : state) (o : op) : Prop :=
  (forall a d, nf_val (cs s') a d = nf_val (cs s) a d + nf_delta_of s s' o (a, d)) /\
  (forall d, cbal (cs s') d = cbal (cs s) d + (if d =? fst (coin_delta_of s s' o) then snd (coin_delta_of s s' o) else 0)) /\
  (NfNonneg (cs s) -> NfNonneg (cs s')).

Lemma effok_of_seff s s' o app asset dl dn db :
  SEff s s' (app, asset) dl dn db ->
  (forall k, nf_delta_of s s' o k = at_key app asset k dl) ->
  (forall d, (if d =? fst (coin_delta_of s s' o) then snd (coin_delta_of s s' o) else 0) = (if d =? dn then db else 0)) ->
  EffOk s s' o.
Proof.
  intros (A1 & A2 & A3) Hk Hd. repeat split; auto.
  - intros a d. rewrite A1, Hk. unfold at_key. reflexivity.
  - intros d. rewrite A2, Hd. reflexivity.
Qed.

Lemma effok_zero s s' o :
  SEff s s' (0, 0) 0 0 0 -> (forall k, nf_delta_of s s' o k = 0) -> coin_delta_of s s' o = (0, 0) -> EffOk s s' o.
Proof.
  intros H Hk Hc. eapply effok_of_seff; [exact H| |].
  - intros k. rewrite Hk. unfold at_key. destruct (keq _ _); reflexivity.
  - intros d. rewrite Hc. reflexivity.
Qed.

Lemma at_key_same app asset k v : at_key app asset k v = at_key app asset k v. Proof. reflexivity. Qed.

Lemma cs_upd_amount s app asset amt b : cs (upd_amount s app asset amt b) = cs s.
Proof. unfold upd_amount. destruct (lks s (app, asset)); reflexivity. Qed.

Lemma step_effok s o s' :
  valid_op o = true -> is_upd_lookup o = false -> step s o = Ok s' -> EffOk s s' o.
Proof.
  intros Hv Hup. destruct o; cbn [step]; try discriminate Hup.
  - (* create *)
    assert (Hu : 0 <= u) by (cbn in Hv; lia). unfold msg_create.
    destruct (amt <=? 0) eqn:E0; [discriminate|]. destruct (esm_on (cs s) app); [discriminate|]. destruct (brk_on (cs s) app); [discriminate|].
    destruct (negb (has_asset (cs s) asset)); [discriminate|]. destruct (negb (has_app (cs s) app)); [discriminate|].
    destruct (negb (umap s u (app, asset) =? 0)); [discriminate|]. destruct (clk (cs s) (app, asset)); [|discriminate].
    destruct (negb (lwl s (app, asset))); [discriminate|]. destruct (lks s (app, asset)) as [lk|] eqn:K; [|discriminate].
    assert ((amt >? 0) = true) as -> by lia.
    destruct (csend (cs s) (user u) A_LOCKER asset amt) as [c2| |] eqn:S; cbn [lift obind]; try discriminate.
    intros H; injection H as <-. apply effok_zero; [|reflexivity|reflexivity].
    unfold SEff. cbn [cs set_lks set_umap set_next set_lockers set_cs].
    eapply ceff_csend_other'; [exact S| |discriminate]. pose proof (user_not_collector u Hu). lia.
  - (* deposit *)
    assert (Hu : 0 <= u) by (cbn in Hv; lia). unfold msg_deposit.
    destruct ((lid <=? 0) || (amt <=? 0)) eqn:E0; [discriminate|]. destruct (esm_on (cs s) app); [discriminate|]. destruct (brk_on (cs s) app); [discriminate|].
    destruct (locker_checks s u app asset lid) as [ld0| |] eqn:C; cbn [obind]; try discriminate.
    destruct (calc_rewards s app asset lid rw) as [s1| |] eqn:R; cbn [obind]; try discriminate.
    destruct (locker_checks_spec _ _ _ _ _ _ C) as (F & Hd & Ho & Ha & Hk).
    assert ((amt >? 0) = true) as -> by lia.
    destruct (csend (cs s1) (user u) A_LOCKER asset amt) as [c2| |] eqn:S; cbn [lift obind]; try discriminate.
    intros H; injection H as <-.
    eapply effok_of_seff with (app := app) (asset := asset) (dl := - credited s app asset lid rw) (dn := asset) (db := - credited s app asset lid rw).
    + unfold SEff. rewrite cs_upd_amount. cbn [cs set_lockers set_cs].
      eapply ceff_eq; [eapply ceff_trans; [exact (calc_rewards_seff _ _ _ _ _ _ _ R F Hd)|
        eapply ceff_csend_other'; [exact S|pose proof (user_not_collector u Hu); lia|discriminate]]|lia|lia].
    + reflexivity.
    + reflexivity.
  - (* withdraw *)
    assert (Hu : 0 <= u) by (cbn in Hv; lia). unfold msg_withdraw.
    destruct ((lid <=? 0) || (amt <=? 0)) eqn:E0; [discriminate|].
    destruct (locker_checks s u app asset lid) as [ld0| |] eqn:C; cbn [obind]; try discriminate.
    destruct (l_net ld0 <? amt); [discriminate|].
    destruct (calc_rewards s app asset lid rw) as [s1| |] eqn:R; cbn [obind]; try discriminate.
    destruct (locker_checks_spec _ _ _ _ _ _ C) as (F & Hd & Ho & Ha & Hk).
    assert ((amt >? 0) = true) as -> by lia.
    destruct (csend (cs s1) A_LOCKER (user u) asset amt) as [c2| |] eqn:S; cbn [lift obind]; try discriminate.
    intros H; injection H as <-.
    eapply effok_of_seff with (app := app) (asset := asset) (dl := - credited s app asset lid rw) (dn := asset) (db := - credited s app asset lid rw).
    + unfold SEff. rewrite cs_upd_amount. cbn [cs set_lockers set_cs].
      eapply ceff_eq; [eapply ceff_trans; [exact (calc_rewards_seff _ _ _ _ _ _ _ R F Hd)|
        eapply ceff_csend_other'; [exact S|discriminate|pose proof (user_not_collector u Hu); lia]]|lia|lia].
    + reflexivity.
    + reflexivity.
  - (* close *)
    assert (Hu : 0 <= u) by (cbn in Hv; lia). unfold msg_close.
    destruct (lid <=? 0) eqn:E0; [discriminate|].
    destruct (locker_checks s u app asset lid) as [ld0| |] eqn:C; cbn [obind]; try discriminate.
    destruct (calc_rewards s app asset lid rw) as [s1| |] eqn:R; cbn [obind]; try discriminate.
    destruct (locker_checks_spec _ _ _ _ _ _ C) as (F & Hd & Ho & Ha & Hk).
    intros H. apply obind_ok in H. destruct H as (s2 & H1 & H2). injection H2 as <-.
    assert (E12 : SEff s1 s2 (app, asset) 0 asset 0).
    { destruct (l_net (reread s1 lid ld0) >? 0).
      - eapply seff_lift; [exact H1|]. intros c Hc. eapply ceff_csend_other'; [exact Hc|discriminate|]. pose proof (user_not_collector u Hu). lia.
      - injection H1 as <-. exact (ceff_refl _ _ _). }
    eapply effok_of_seff with (app := app) (asset := asset) (dl := - credited s app asset lid rw) (dn := asset) (db := - credited s app asset lid rw).
    + unfold SEff. cbn [cs set_trk set_lockers].
      match goal with |- CEff _ (cs ?X) _ _ _ _ => assert (Hcs : cs X = cs s2) end.
      { destruct (lks (upd_amount s2 app asset (l_net (reread s1 lid ld0)) false) (app, asset)) as [lk'|];
          [match goal with |- context [if ?b then _ else _] => destruct b end|]; cbn [cs set_lks set_umap]; apply cs_upd_amount. }
      rewrite Hcs.
      eapply ceff_eq; [eapply ceff_trans; [exact (calc_rewards_seff _ _ _ _ _ _ _ R F Hd)|exact E12]|lia|lia].
    + reflexivity.
    + reflexivity.
  - (* reward calc *)
    unfold msg_reward_calc. destruct (lid <=? 0); [discriminate|]. destruct (negb (has_app (cs s) app)); [discriminate|].
    destruct (find_locker (lockers s) lid) as [ld|] eqn:F; [|discriminate].
    destruct (negb (l_app ld =? app)); [discriminate|]. intros R.
    eapply effok_of_seff with (app := app) (asset := l_asset ld) (dl := - credited s app (l_asset ld) lid rw) (dn := l_asset ld).
    + exact (calc_rewards_seff _ _ _ _ _ _ _ R F eq_refl).
    + intros k. cbn [nf_delta_of nf_delta_spec]. rewrite F. reflexivity.
    + intros d. cbn [coin_delta_of]. rewrite F. reflexivity.
  - (* add lookup *)
    unfold add_lookup. destruct (negb (has_asset (cs s) asset)); [discriminate|]. destruct (negb (has_asset (cs s) secondary)); [discriminate|].
    destruct (asset =? secondary); [discriminate|]. destruct (adm s (app, asset)); [discriminate|].
    intros H; injection H as <-. apply effok_zero; [|reflexivity|reflexivity]. apply ceff_same; reflexivity.
  - (* whitelist locker *)
    unfold whitelist_locker. destruct (esm_on (cs s) app); [discriminate|]. destruct (brk_on (cs s) app); [discriminate|].
    destruct (negb (has_app (cs s) app)); [discriminate|]. destruct (negb (has_asset (cs s) asset)); [discriminate|].
    destruct (lwl s (app, asset)); [discriminate|]. intros H; injection H as <-.
    apply effok_zero; [|reflexivity|reflexivity]. apply ceff_same; reflexivity.
  - (* whitelist reward *)
    unfold whitelist_reward. destruct (brk_on (cs s) app); [discriminate|]. destruct (esm_on (cs s) app); [discriminate|].
    destruct (negb (lwl s (app, asset))); [discriminate|]. intros H; injection H as <-.
    apply effok_zero; [|reflexivity|reflexivity]. apply ceff_same; reflexivity.
  - (* flags *)
    unfold set_flags. destruct (surplus && distributor); [discriminate|]. destruct (surplus && debt); [discriminate|].
    intros H; injection H as <-. apply effok_zero; [|reflexivity|reflexivity]. apply ceff_same; reflexivity.
  - intros H; injection H as <-. apply effok_zero; [|reflexivity|reflexivity]. apply ceff_same; reflexivity.
  - intros H; injection H as <-. apply effok_zero; [|reflexivity|reflexivity]. apply ceff_same; reflexivity.
  - (* fee in *)
    unfold fee_in. destruct ((amt =? 0) && negb uncond) eqn:E0.
    + intros H; injection H as <-. assert (amt = 0) by lia. subst amt.
      eapply effok_of_seff with (app := app) (asset := asset) (dl := 0) (dn := asset) (db := 0); [exact (ceff_refl _ _ _)|reflexivity|reflexivity].
    + intros H. eapply effok_of_seff with (app := app) (asset := asset) (dl := amt) (dn := asset) (db := amt); [|reflexivity|reflexivity].
      apply obind_ok in H. destruct H as (s1 & H1 & H2).
      eapply ceff_eq; [eapply ceff_trans|..].
      * eapply seff_lift; [exact H1|]. intros c Hc. exact (ceff_csend _ _ _ _ _ _ (app, asset) Hc).
      * eapply seff_lift; [exact H2|]. intros c. unfold update_collector. destruct (negb (has_asset (cs s1) asset)); [discriminate|].
        intros Hc. exact (ceff_set_net_fee _ _ _ _ _ asset Hc).
      * lia.
      * cbn; lia.
  - (* get amount *)
    intros H. eapply effok_of_seff with (app := app) (asset := asset) (dl := - amt) (dn := asset) (db := - amt); [|reflexivity|reflexivity].
    eapply seff_lift; [exact H|]. intros c Hc. exact (ceff_get_amount _ _ _ _ _ Hc).
  - (* decrease *)
    intros H. eapply effok_of_seff with (app := app) (asset := asset) (dl := - amt) (dn := asset) (db := 0); [|reflexivity|reflexivity].
    eapply seff_lift; [exact H|]. intros c Hc. exact (ceff_decrease _ _ _ _ _ asset Hc).
  - (* surplus fund *)
    assert (Hu : 0 <= u) by (cbn in Hv; lia).
    intros H. eapply effok_of_seff with (app := app) (asset := asset) (dl := - amt) (dn := denom) (db := - amt); [|reflexivity|reflexivity].
    eapply seff_lift; [exact H|]. intros c Hc. exact (ceff_surplus_fund _ _ _ _ _ _ _ Hu Hc).
  - (* v1 surplus start *)
    unfold v1_surplus_start.
    assert (Hnone : Ok s = Ok s' -> EffOk s s' (V1SurplusStart app asset)).
    { intros H; injection H as <-.
      eapply effok_of_seff with (app := app) (asset := asset) (dl := 0) (dn := asset) (db := 0); [exact (ceff_refl _ _ _)| |];
        cbn [nf_delta_of coin_delta_of fst snd]; rewrite started_refl; reflexivity. }
    destruct (af_surplus (flags_of s app asset) && negb (af_active (flags_of s app asset)) && negb (brk_on (cs s) app) && negb (esm_on (cs s) app)) eqn:G;
      [|exact Hnone].
    destruct (clk (cs s) (app, asset)) as [cl|] eqn:CL; [|exact Hnone].
    destruct (nf (cs s) (app, asset)) as [x|]; [|exact Hnone].
    destruct (x >=? cl_surplus_thr cl + cl_lot cl); [|exact Hnone].
    destruct (negb (has_asset (cs s) (cl_asset cl) && has_asset (cs s) (cl_secondary cl))); [exact Hnone|].
    intros H. apply obind_ok in H. destruct H as (s1 & H1 & H2).
    assert (Hst : started s s' app asset = true).
    { unfold started. apply lift_ok in H2. destruct H2 as (c & H2 & ->). destruct (mapping_flags _ _ _ _ _ H2) as (_ & Ha).
      unfold flags_of at 2. cbn [cs set_cs]. rewrite Ha. cbn. destruct (af_active (flags_of s app asset)); [|reflexivity].
      exfalso. cbn in G. rewrite ?andb_false_r in G. cbn in G. discriminate G. }
    eapply effok_of_seff with (app := app) (asset := asset) (dl := - cl_lot cl) (dn := asset) (db := - cl_lot cl).
    + eapply ceff_eq; [eapply ceff_trans|..].
      * eapply seff_lift; [exact H1|]. intros c Hc. exact (ceff_get_amount _ _ _ _ _ Hc).
      * exact (seff_mapping _ _ _ _ _ (app, asset) asset H2).
      * lia.
      * lia.
    + intros k. cbn [nf_delta_of]. rewrite Hst. unfold lot_of. rewrite CL. reflexivity.
    + intros d. cbn [coin_delta_of fst snd]. rewrite Hst. unfold lot_of. rewrite CL. reflexivity.
  - (* v1 surplus close *)
    unfold v1_surplus_close. intros H. apply obind_ok in H. destruct H as (s2 & H1 & H2).
    eapply effok_of_seff with (app := app) (asset := asset) (dl := if bidder && negb esm then 0 else lot) (dn := asset)
                              (db := if bidder && negb esm then 0 else lot).
    + assert (E1 : SEff s s2 (app, asset) (if bidder && negb esm then 0 else lot) asset (if bidder && negb esm then 0 else lot)).
      { destruct (bidder && negb esm); [injection H1 as <-; exact (ceff_refl _ _ _)|exact (seff_in_and_book _ _ _ _ _ _ _ H1)]. }
      eapply ceff_eq; [exact (ceff_trans _ _ _ _ _ _ _ _ _ E1 (seff_mapping _ _ _ _ _ (app, asset) asset H2))|lia|lia].
    + intros k. cbn [nf_delta_of nf_delta_spec]. destruct (bidder && negb esm); [|reflexivity]. unfold at_key. destruct (keq _ _); reflexivity.
    + reflexivity.
  - (* v1 debt start *)
    unfold v1_debt_start.
    assert (Hnone : Ok s = Ok s' -> EffOk s s' (V1DebtStart app asset)).
    { intros H; injection H as <-. apply effok_zero; [exact (ceff_refl _ _ _)|reflexivity|reflexivity]. }
    destruct (af_debt (flags_of s app asset) && negb (af_active (flags_of s app asset)) && negb (brk_on (cs s) app) && negb (esm_on (cs s) app));
      [|exact Hnone].
    destruct (clk (cs s) (app, asset)) as [cl|]; [|exact Hnone].
    destruct (nf (cs s) (app, asset)) as [x|]; [|exact Hnone].
    destruct (x <=? cl_debt_thr cl - cl_lot cl); [|exact Hnone].
    destruct (negb (has_asset (cs s) (cl_asset cl) && has_asset (cs s) (cl_secondary cl))); [exact Hnone|].
    intros H. apply effok_zero; [exact (seff_mapping _ _ _ _ _ (0, 0) 0 H)|reflexivity|reflexivity].
  - (* v1 debt close *)
    unfold v1_debt_close. intros H. apply obind_ok in H. destruct H as (s2 & H1 & H2).
    eapply effok_of_seff with (app := app) (asset := asset) (dl := if esm then 0 else if bids then amt else 0) (dn := asset)
                              (db := if esm then 0 else if bids then amt else 0).
    + assert (E1 : SEff s s2 (app, asset) (if esm then 0 else if bids then amt else 0) asset (if esm then 0 else if bids then amt else 0)).
      { destruct esm; [injection H1 as <-; exact (ceff_refl _ _ _)|].
        destruct bids; [exact (seff_in_and_book _ _ _ _ _ _ _ H1)|injection H1 as <-; exact (ceff_refl _ _ _)]. }
      eapply ceff_eq; [exact (ceff_trans _ _ _ _ _ _ _ _ _ E1 (seff_mapping _ _ _ _ _ (app, asset) asset H2))|lia|lia].
    + intros k. cbn [nf_delta_of nf_delta_spec]. destruct esm; [unfold at_key; destruct (keq _ _); reflexivity|].
      destruct bids; [reflexivity|unfold at_key; destruct (keq _ _); reflexivity].
    + reflexivity.
  - (* v1 penalty *)
    intros H. eapply effok_of_seff with (app := app) (asset := asset) (dl := amt) (dn := asset) (db := amt); [|reflexivity|reflexivity].
    exact (seff_penalty _ _ _ _ _ _ H).
  - (* v2 check stats *)
    unfold v2_check_stats.
    assert (Hnone : Ok s = Ok s' -> EffOk s s' (V2CheckStats app asset)).
    { intros H; injection H as <-.
      eapply effok_of_seff with (app := app) (asset := asset) (dl := 0) (dn := asset) (db := 0); [exact (ceff_refl _ _ _)| |];
        cbn [nf_delta_of coin_delta_of fst snd]; rewrite started_refl; reflexivity. }
    destruct (af_active (flags_of s app asset) || brk_on (cs s) app) eqn:G; [exact Hnone|].
    destruct (clk (cs s) (app, asset)) as [cl|] eqn:CL; [|exact Hnone].
    destruct (nf (cs s) (app, asset)) as [x|]; [|exact Hnone].
    intros H. apply obind_ok in H. destruct H as (s1 & H1 & H2).
    assert (Hact : af_active (flags_of s app asset) = false) by (destruct (af_active _); [discriminate|reflexivity]).
    destruct ((x <=? cl_debt_thr cl - cl_lot cl) && af_debt (flags_of s app asset)) eqn:GD.
    + (* debt start: then the surplus branch is impossible *)
      apply lift_ok in H1. destruct H1 as (c1 & H1 & ->). destruct (mapping_flags _ _ _ _ _ H1) as (Hsd & Ha1).
      cbn [af_surplus af_debt with_active] in Hsd.
      assert (Hsur : af_surplus (flags_of s app asset) = false).
      { apply andb_true_iff in GD. destruct GD as (_ & GD). rewrite GD, andb_true_r in Hsd. exact Hsd. }
      rewrite Hsur, andb_false_r in H2. injection H2 as <-.
      eapply effok_of_seff with (app := app) (asset := asset) (dl := 0) (dn := asset) (db := 0).
      * unfold SEff. cbn [cs set_cs]. exact (ceff_mapping _ _ _ _ _ (app, asset) asset H1).
      * intros k. cbn [nf_delta_of]. rewrite Hsur, andb_false_r. reflexivity.
      * intros d. cbn [coin_delta_of fst snd]. rewrite Hsur, andb_false_r. reflexivity.
    + injection H1 as <-.
      destruct ((x >=? cl_surplus_thr cl + cl_lot cl) && af_surplus (flags_of s app asset)) eqn:GS; [|exact (Hnone H2)].
      apply obind_ok in H2. destruct H2 as (s2 & H2 & H3).
      assert (Hsur : af_surplus (flags_of s app asset) = true) by (apply andb_true_iff in GS; tauto).
      assert (Hst : started s s' app asset = true).
      { unfold started. apply lift_ok in H3. destruct H3 as (c & H3 & ->). destruct (mapping_flags _ _ _ _ _ H3) as (_ & Ha).
        unfold flags_of at 2. cbn [cs set_cs]. rewrite Ha. cbn. rewrite Hact. reflexivity. }
      eapply effok_of_seff with (app := app) (asset := asset) (dl := - cl_lot cl) (dn := asset) (db := - cl_lot cl).
      * eapply ceff_eq; [eapply ceff_trans|..].
        -- eapply seff_lift; [exact H2|]. intros c Hc. exact (ceff_get_amount _ _ _ _ _ Hc).
        -- exact (seff_mapping _ _ _ _ _ (app, asset) asset H3).
        -- lia.
        -- lia.
      * intros k. cbn [nf_delta_of]. rewrite Hst, Hsur. unfold lot_of. rewrite CL. reflexivity.
      * intros d. cbn [coin_delta_of fst snd]. rewrite Hst, Hsur. unfold lot_of. rewrite CL. reflexivity.
  - (* v2 surplus close *)
    unfold v2_surplus_close. intros H. apply obind_ok in H. destruct H as (s1 & H1 & H2).
    apply obind_ok in H2. destruct H2 as (s2 & H2 & H3).
    eapply effok_of_seff with (app := app) (asset := asset) (dl := lot) (dn := asset) (db := - lot); [|reflexivity|reflexivity].
    eapply ceff_eq; [eapply ceff_trans; [eapply ceff_trans|]|..].
    + eapply seff_lift; [exact H1|]. intros c Hc. exact (ceff_csend _ _ _ _ _ _ (app, asset) Hc).
    + eapply seff_lift; [exact H2|]. intros c Hc. exact (ceff_set_net_fee _ _ _ _ _ asset Hc).
    + destruct (amp (cs s2) (app, asset)); [|discriminate]. exact (seff_mapping _ _ _ _ _ (app, asset) asset H3).
    + lia.
    + cbn; lia.
  - (* v2 debt close *)
    unfold v2_debt_close. intros H. apply obind_ok in H. destruct H as (s1 & H1 & H2).
    apply obind_ok in H2. destruct H2 as (s2 & H2 & H3).
    eapply effok_of_seff with (app := app) (asset := asset) (dl := coll_amt) (dn := debt_denom) (db := debt_amt); [|reflexivity|reflexivity].
    eapply ceff_eq; [eapply ceff_trans; [eapply ceff_trans|]|..].
    + eapply seff_lift; [exact H1|]. intros c Hc. exact (ceff_csend _ _ _ _ _ _ (app, asset) Hc).
    + eapply seff_lift; [exact H2|]. intros c Hc. exact (ceff_set_net_fee _ _ _ _ _ debt_denom Hc).
    + destruct (amp (cs s2) (app, asset)); [|discriminate]. exact (seff_mapping _ _ _ _ _ (app, asset) debt_denom H3).
    + lia.
    + cbn; lia.
  - (* v2 penalty *)
    intros H. eapply effok_of_seff with (app := app) (asset := coll_asset) (dl := amt) (dn := debt_asset) (db := amt); [|reflexivity|reflexivity].
    exact (seff_penalty _ _ _ _ _ _ H).
Qed.
