(* C08 proofs, part 4: the borrow-side handlers of Model/Lend.v preserve the invariant of the books
   and the side invariant, and leave the oracle prices alone. *)
From Comdex Require Import Lib.Base Lib.DecArith Model.Lend Proofs.LendProofs Proofs.LendProofsInv Proofs.LendProofsSide Proofs.LendProofsSteps.
From Coq Require Import ZifyBool.

Ltac fin H := injection H as <-; unfold Good, GoodB; cbn [lends borrows sstats lctr bctr prices bnk with_bank with_books].
Ltac spec_ubs :=
  match goal with H : upd_borrow_stats _ _ _ _ = Ok _ |- _ =>
    let s := fresh "s" in let Hs := fresh "Hs" in apply upd_borrow_stats_spec in H as (s & Hs & ->) end.
Ltac spec_uls :=
  match goal with H : upd_lend_stats _ _ _ = Ok _ |- _ =>
    let s := fresh "s" in let Hs := fresh "Hs" in apply upd_lend_stats_spec in H as (s & Hs & ->) end.
Ltac simp_pget :=
  repeat match goal with H : pget (pset _ ?k _) ?k = Some _ |- _ => rewrite pget_pset_same in H; injection H as <- end.
(* IterateBorrow ran: the record read back is the iterated one; the invariants hold after it *)
Ltac use_iter cfg HG HI1 HS1 :=
  match goal with H : iterate_borrow _ _ _ = Ok _ |- _ =>
    destruct (iterate_borrow_good cfg _ _ _ _ HG H) as ((HI1 & HS1) & _); unfold Inv in HI1;
    let b0 := fresh "b0" in let Hb0 := fresh "Hb0" in
    apply iterate_borrow_spec in H as (b0 & Hb0 & ->);
    cbn [lends borrows sstats lctr bctr bnk prices with_books] in *;
    repeat match goal with
           | G : zget (zset _ ?j _) ?j = Some _ |- _ => rewrite zget_zset_same in G; injection G as <-
           | G1 : zget ?B ?j = Some ?x, G2 : zget ?B ?j = Some ?y |- _ => rewrite G1 in G2; injection G2 as <-
           end
  end.
Ltac side_pos HS :=
  repeat match goal with
         | G : zget _ ?j = Some ?b, Hq : b_liq ?b = false |- _ =>
           lazymatch goal with
           | _ : 0 < b_in b |- _ => fail
           | _ => pose proof (proj1 (HS j b G Hq))
           end
         end.
Ltac side_solve :=
  lazymatch goal with
  | |- Side _ _ (zset _ _ _) =>
      eapply S_bor_upd; [side_solve | first [apply zget_zset_same | eassumption] | reflexivity | reflexivity | reflexivity
                        | intros _; cbn [iter_b upd_borrow b_in]; lia]
  | |- Side _ _ (zdel _ _) => eapply S_bor_del; side_solve
  | |- Side _ (zset _ _ _) _ => eapply S_lend_upd; [side_solve | eassumption | reflexivity]
  | |- Side _ _ _ => assumption
  end.

Ltac stat_tac :=
  cbn [iter_b upd_borrow b_stable]; unfold stat_out;
  match goal with |- context [b_stable ?b] => destruct (b_stable b) end;
  cbn [s_lend s_bor s_sbor s_tia s_lids s_bids set_s_lend set_s_bor set_s_sbor set_s_tia set_s_lids set_s_bids];
  repeat split; lia.

Ltac tia_cases :=
  match goal with Hs : pget (if ?c then _ else _) _ = Some _ |- _ => let Em := fresh "Em" in destruct c eqn:Em end.

(* the TotalInterestAccumulated update that precedes the book update *)
Ltac tia_inv HI1 E16 HI2 :=
  match goal with |- context [pset ?S ?k (set_s_tia ?s ?v)] =>
    assert (HI2 := T_stats _ _ _ _ _ _ HI1 k s (set_s_tia s v) (pset S k (set_s_tia s v)) E16
                           (conj eq_refl (conj eq_refl (conj eq_refl eq_refl))) eq_refl (fun k' => pget_pset S k (set_s_tia s v) k'))
  end.

Ltac tia_inv2 HI1 HI2 :=
  match goal with |- context [pset ?S ?k (set_s_tia ?s ?v)] =>
    match goal with E16 : pget S k = Some s |- _ =>
    assert (HI2 := T_stats _ _ _ _ _ _ HI1 k s (set_s_tia s v) (pset S k (set_s_tia s v)) E16
                           (conj eq_refl (conj eq_refl (conj eq_refl eq_refl))) eq_refl (fun k' => pget_pset S k (set_s_tia s v) k'))
    end
  end.

Section Steps2.
  Variable cfg : config.

  Lemma deposit_borrow_good st bid user denom amt e st' :
    Good cfg st -> 0 < amt -> deposit_borrow_asset cfg st bid user denom amt e = Ok st' ->
    Good cfg st' /\ prices st' = prices st.
  Proof.
    intros HG Hamt H. pose proof (deposit_borrow_inv _ _ _ _ _ _ _ _ (Good_Inv _ _ HG) H) as HI'.
    pose proof HG as (HI & HS).
    unfold deposit_borrow_asset in H. destr_all H; use_iter cfg HG HI1 HS1; side_pos HS; fin H;
      (split; [split; [exact HI'|]|reflexivity]); cbn [lends borrows with_bank with_books]; side_solve.
  Qed.

  Lemma bkey_of b pr : zget (c_pairs cfg) (b_pair b) = Some pr -> bkey cfg b = Some (pr_out_pool pr, pr_out pr).
  Proof. intros H. unfold bkey. rewrite H. reflexivity. Qed.

  Lemma draw_good st bid user denom amt e st' :
    Good cfg st -> draw_asset cfg st bid user denom amt e = Ok st' -> Good cfg st' /\ prices st' = prices st.
  Proof.
    intros HG H. pose proof HG as (HI & HS).
    unfold draw_asset in H. destr_all H. use_iter cfg HG HI1 HS1. side_pos HS. spec_ubs. fin H.
    split; [split|reflexivity]; [|side_solve].
    match goal with Hb : zget (borrows st) bid = Some ?b |- _ =>
      eapply (T_out cfg _ _ _ _ _ HI1 bid (iter_b b e) _ (pr_out_pool p, pr_out p) s _ _ amt) end;
      try (intros k; apply pget_pset); try apply zget_zset_same; try reflexivity; try eassumption.
    - apply bkey_of. exact E1.
    - stat_tac.
    - stat_tac.
  Qed.

  Lemma close_borrow_good st user bid e st' :
    Good cfg st -> close_borrow cfg st user bid e = Ok st' -> Good cfg st' /\ prices st' = prices st.
  Proof.
    intros HG H. pose proof HG as (HI & HS).
    unfold close_borrow in H. destr_all H; use_iter cfg HG HI1 HS1; side_pos HS; spec_ubs; tia_cases; simp_pget; fin H;
      (split; [split|reflexivity]); [|side_solve| |side_solve].
    - tia_inv HI1 E17 HI2.
      eapply (T_delborrow cfg _ _ _ _ _ HI2 bid (iter_b b e) l _ (pr_out_pool p, pr_out p)).
      all: try (intros k; apply pget_pset2).
      all: try apply zget_zset_same; try apply pget_pset_same; try reflexivity; try eassumption;
        try (apply bkey_of; exact E1); try stat_tac.
    - rewrite E17 in Hs. injection Hs as <-.
      eapply (T_delborrow cfg _ _ _ _ _ HI1 bid (iter_b b e) l _ (pr_out_pool p, pr_out p) s).
      all: try (intros k; apply pget_pset2).
      all: try apply zget_zset_same; try reflexivity; try eassumption;
        try (apply bkey_of; exact E1); try stat_tac.
  Qed.

  Lemma repay_good st bid user denom pay e st' :
    Good cfg st -> repay_asset cfg st bid user denom pay e = Ok st' -> Good cfg st' /\ prices st' = prices st.
  Proof.
    intros HG H. pose proof HG as (HI & HS).
    unfold repay_asset in H. destr_all H.
    - eapply close_borrow_good; eassumption.
    - use_iter cfg HG HI1 HS1; side_pos HS. fin H. (split; [split|reflexivity]); [|side_solve].
      eapply (T_bmisc cfg _ _ _ _ _ HI1 bid (iter_b b e)); try apply zget_zset_same; reflexivity.
    - use_iter cfg HG HI1 HS1; side_pos HS. fin H. (split; [split|reflexivity]); [|side_solve].
      match goal with |- context [if ?c then pset _ _ _ else _] => destruct c end.
      + tia_inv2 HI1 HI2. eapply (T_bmisc cfg _ _ _ _ _ HI2 bid (iter_b b e)); try apply zget_zset_same; reflexivity.
      + eapply (T_bmisc cfg _ _ _ _ _ HI1 bid (iter_b b e)); try apply zget_zset_same; reflexivity.
    - use_iter cfg HG HI1 HS1; side_pos HS. spec_ubs. tia_cases; simp_pget; fin H; (split; [split|reflexivity]); [|side_solve| |side_solve].
      + tia_inv2 HI1 HI2.
        match goal with |- context [s_sbor _ + ?d] =>
          eapply (T_out cfg _ _ _ _ _ HI2 bid (iter_b b e) _ (pr_out_pool p, pr_out p) _ _ _ d) end.
        all: try (intros k; apply pget_pset).
        all: try apply zget_zset_same; try apply pget_pset_same; try (apply bkey_of; eassumption); try eassumption.
        all: try stat_tac; try reflexivity.
        all: cbn [iter_b upd_borrow b_out]; lia.
      + rewrite E19 in Hs. injection Hs as <-.
        match goal with |- context [s_sbor _ + ?d] =>
          eapply (T_out cfg _ _ _ _ _ HI1 bid (iter_b b e) _ (pr_out_pool p, pr_out p) s _ _ d) end.
        all: try (intros k; apply pget_pset).
        all: try apply zget_zset_same; try (apply bkey_of; eassumption); try eassumption.
        all: try stat_tac; try reflexivity.
        all: cbn [iter_b upd_borrow b_out]; lia.
  Qed.

  Lemma open_borrow_good st bk lid l pr pid stable din ain aout bd brd st' :
    Good cfg st -> zget (lends st) lid = Some l -> zget (c_pairs cfg) pid = Some pr -> l_asset l = pr_in pr -> 0 < ain ->
    open_borrow st bk lid l pr pid stable din ain aout bd brd = Ok st' ->
    Good cfg st' /\ prices st' = prices st.
  Proof.
    intros (HI & HS) Hl Hp Ha Hpos H. unfold Inv in HI. unfold open_borrow in H. destr_all H. spec_ubs. simp_pget. fin H.
    (split; [split|reflexivity]).
    - eapply (T_newborrow cfg _ _ _ _ _ HI lid l _ (mkBorrow (bctr st + 1) lid pid din ain aout bd brd 0 0 stable false)
                          (pr_out_pool pr, pr_out pr)).
      all: try (intros k; apply pget_pset2).
      all: try eassumption.
      all: try (apply bkey_of; exact Hp); try reflexivity.
      unfold stat_out. cbn [b_stable b_out]. destruct stable;
        cbn [s_lend s_bor s_sbor s_tia s_lids s_bids set_s_lend set_s_bor set_s_sbor set_s_tia set_s_lids set_s_bids]; repeat split; lia.
      destruct stable; reflexivity.
    - eapply S_bor_new; [eapply S_lend_upd; [exact HS|exact Hl|reflexivity]|].
      split; [cbn [b_in]; exact Hpos|]. cbn [b_lend b_pair].
      eexists _, pr. rewrite zget_zset_same. repeat split; [exact Hp|cbn [upd_lend l_asset]; exact Ha].
  Qed.

  Lemma borrow_asset_good st user lid pid stable din ain dout aout e1 e2 st' :
    Good cfg st -> 0 < ain -> borrow_asset cfg st user lid pid stable din ain dout aout e1 e2 = Ok st' ->
    Good cfg st' /\ prices st' = prices st.
  Proof.
    intros HG Hpos H. unfold borrow_asset in H. destr_all H.
    - match goal with E : deposit_borrow_asset _ _ _ _ _ _ _ = Ok _ |- _ =>
        destruct (deposit_borrow_good _ _ _ _ _ _ _ HG Hpos E) as (HG1 & HP1) end.
      destruct (draw_good _ _ _ _ _ _ _ HG1 H) as (HG2 & HP2). split; [exact HG2|congruence].
    - eapply open_borrow_good; try eassumption. lia.
    - eapply open_borrow_good; try eassumption. lia.
    - eapply open_borrow_good; try eassumption. lia.
  Qed.
End Steps2.
