(* Tie (C), second part: lemmas about the loop / slice / math-bits vocabulary of Lib/GoSem.v that
   the equivalence theorems Properties/TieC15.v TieC17.v TieC19.v use.  Nothing here mentions a
   generated definition. *)
From Coq Require Import String ZifyBool.
From Comdex Require Import Lib.Base Lib.DecArith Lib.GoSem Proofs.PureFunsLemmas.

(* values of Go's uint64 / int64 *)
Definition u64 (x : Z) : Prop := 0 <= x < two64.
Definition i64 (x : Z) : Prop := - two63 <= x < two63.
Definition u64s (l : list Z) : Prop := Forall u64 l.

(* an option-valued model as an outcome: None = the call panics (run-time error class) *)
Definition pan_of {A} (o : option A) : outcome A := match o with Some v => Ok v | None => Panic end.

Lemma two64_val : two64 = 18446744073709551616. Proof. reflexivity. Qed.
Lemma two63_val : two63 = 9223372036854775808. Proof. reflexivity. Qed.
Lemma two64_two63 : two64 = 2 * two63. Proof. reflexivity. Qed.

Lemma wrap_u64_id x : u64 x -> wrap_u64 x = x.
Proof. unfold u64, wrap_u64; intros; apply Z.mod_small; lia. Qed.

Lemma wrap_i64_id x : i64 x -> wrap_i64 x = x.
Proof.
  unfold i64, wrap_i64; intros H. rewrite two64_two63 in *.
  rewrite Z.mod_small by lia. lia.
Qed.

(* int(u) for a uint64 u >= 2^63 is negative *)
Lemma wrap_i64_high x : two63 <= x < two64 -> wrap_i64 x = x - two64.
Proof.
  unfold wrap_i64; intros H. rewrite two64_two63 in *.
  replace (x + two63) with ((x - two63) + 1 * (2 * two63)) by lia.
  rewrite Z.mod_add by (rewrite two63_val; lia). rewrite Z.mod_small by lia. lia.
Qed.

(* ---------------- lists ---------------- *)
Lemma zlen_nonneg' {A} (l : list A) : 0 <= zlen l. Proof. unfold zlen; lia. Qed.
Lemma zlen_app' {A} (l1 l2 : list A) : zlen (l1 ++ l2) = zlen l1 + zlen l2.
Proof. unfold zlen; rewrite app_length; lia. Qed.
Lemma zlen_cons {A} (x : A) l : zlen (x :: l) = zlen l + 1.
Proof. unfold zlen; cbn [length]; lia. Qed.

Lemma nth_z_some_lt {A} (l : list A) i : (i < length l)%nat -> exists v, nth_z l i = Some v.
Proof.
  revert i; induction l as [|x l IH]; intros i H; cbn [length] in H; [lia|].
  destruct i; cbn [nth_z]; [eauto|]. apply IH; lia.
Qed.
Lemma nth_z_none_ge {A} (l : list A) i : (length l <= i)%nat -> nth_z l i = None.
Proof.
  revert i; induction l as [|x l IH]; intros i H; [destruct i; reflexivity|].
  cbn [length] in H. destruct i; [lia|]. cbn [nth_z]. apply IH; lia.
Qed.
Lemma set_nth_none_ge {A} (l : list A) i v : (length l <= i)%nat -> set_nth l i v = None.
Proof.
  revert i; induction l as [|x l IH]; intros i H; [destruct i; reflexivity|].
  cbn [length] in H. destruct i; [lia|]. cbn [set_nth]. rewrite IH by lia. reflexivity.
Qed.
Lemma set_nth_some_lt {A} (l : list A) i v : (i < length l)%nat -> exists l', set_nth l i v = Some l'.
Proof.
  revert i; induction l as [|x l IH]; intros i H; cbn [length] in H; [lia|].
  destruct i; cbn [set_nth]; [eauto|]. destruct (IH i ltac:(lia)) as [l' ->]. eauto.
Qed.

(* the bounds test in front of g_index / g_set_index only anticipates the None of nth_z / set_nth *)
Lemma g_index_nth s i : 0 <= i ->
  g_index s i = pan_of (nth_z s (Z.to_nat i)).
Proof.
  intros Hi. unfold g_index, zlen. destruct (Z.ltb_spec i 0); [lia|]. cbn [orb].
  destruct (Z.leb_spec (Z.of_nat (length s)) i).
  - rewrite nth_z_none_ge by lia. reflexivity.
  - destruct (nth_z s (Z.to_nat i)); reflexivity.
Qed.
Lemma g_set_index_nth s i v : 0 <= i ->
  g_set_index s i v = pan_of (set_nth s (Z.to_nat i) v).
Proof.
  intros Hi. unfold g_set_index, zlen. destruct (Z.ltb_spec i 0); [lia|]. cbn [orb].
  destruct (Z.leb_spec (Z.of_nat (length s)) i).
  - rewrite set_nth_none_ge by lia. reflexivity.
  - destruct (set_nth s (Z.to_nat i) v); reflexivity.
Qed.

Lemma set_nth_u64s l i v l' : u64s l -> u64 v -> set_nth l i v = Some l' -> u64s l'.
Proof.
  revert i l'; induction l as [|x l IH]; intros i l' Hl Hv H; [destruct i; discriminate|].
  inversion Hl; subst. destruct i; cbn [set_nth] in H.
  - inversion H; subst. constructor; assumption.
  - destruct (set_nth l i v) eqn:E; [|discriminate]. inversion H; subst.
    constructor; [assumption|]. eapply IH; eauto.
Qed.
Lemma u64s_app l1 l2 : u64s l1 -> u64s l2 -> u64s (l1 ++ l2).
Proof. unfold u64s; intros; apply Forall_app; split; assumption. Qed.
Lemma u64s_one v : u64 v -> u64s [v]. Proof. intros; constructor; [assumption|constructor]. Qed.

Lemma zsum_u64s_bound l : u64s l -> 0 <= zsum l <= zlen l * (two64 - 1).
Proof.
  induction 1 as [|x l Hx Hl IH]; [unfold zlen; cbn; lia|].
  rewrite zlen_cons. cbn [zsum]. unfold u64 in Hx. nia.
Qed.
Lemma u64s_firstn k l : u64s l -> u64s (firstn k l).
Proof.
  revert k; induction l as [|x l IH]; intros k H; [destruct k; constructor|].
  inversion H; subst. destruct k; cbn [firstn]; constructor; auto. apply IH; assumption.
Qed.

(* ---------------- the 128-bit accumulation of CalculateTwa ----------------
   body i (hi, lo, carry) = lo, carry = bits.Add64(lo, vs[i], 0); hi += carry *)
Definition acc128_body (vs : list Z) (i : Z) (s : Z * Z * Z) : outcome (Z * Z * Z) :=
  let '(hi, lo, carry) := s in
  obind (g_index vs i) (fun t =>
    let lo_1 := add64_sum lo t 0 in
    let carry_1 := add64_carry lo t 0 in
    let hi_1 := wrap_u64 (hi + carry_1) in
    Ok (hi_1, lo_1, carry_1)).

Lemma add64_split lo t : u64 lo -> u64 t ->
  add64_carry lo t 0 * two64 + add64_sum lo t 0 = lo + t /\
  u64 (add64_sum lo t 0) /\ 0 <= add64_carry lo t 0 <= 1.
Proof.
  unfold u64, add64_carry, add64_sum, wrap_u64; intros Hl Ht.
  rewrite !Z.add_0_r. pose proof (Z.div_mod (lo + t) two64 ltac:(rewrite two64_val; lia)).
  pose proof (Z.mod_pos_bound (lo + t) two64 ltac:(rewrite two64_val; lia)).
  assert (0 <= (lo + t) / two64) by (apply Z.div_pos; rewrite ?two64_val; lia).
  assert ((lo + t) / two64 < 2) by (apply Z.div_lt_upper_bound; rewrite ?two64_val in *; lia).
  repeat split; lia.
Qed.

(* k more iterations from position j, all in range: the pair (hi, lo) gains the k elements *)
Lemma acc128_ok vs : u64s vs -> forall k j hi lo c,
  (j + k <= length vs)%nat -> u64 lo -> 0 <= hi -> hi + Z.of_nat k < two64 ->
  exists hi' lo' c',
    for_loop k (Z.of_nat j) (acc128_body vs) (hi, lo, c) = Ok (hi', lo', c') /\
    hi' * two64 + lo' = hi * two64 + lo + zsum (firstn k (skipn j vs)) /\
    u64 lo' /\ hi <= hi' <= hi + Z.of_nat k.
Proof.
  intros Hvs. induction k as [|k IH]; intros j hi lo c Hj Hlo Hhi Hb.
  - exists hi, lo, c. cbn [for_loop firstn zsum]. repeat split; try lia; apply Hlo.
  - cbn [for_loop]. unfold acc128_body at 1.
    rewrite g_index_nth by lia. rewrite Nat2Z.id.
    destruct (nth_z_some_lt vs j ltac:(lia)) as [t Ht]. rewrite Ht. cbn [pan_of obind].
    assert (Hskip : skipn j vs = t :: skipn (S j) vs).
    { clear -Ht. revert j Ht; induction vs as [|x vs IHv]; intros j Ht; [destruct j; discriminate|].
      destruct j; cbn [nth_z] in Ht; [inversion Ht; reflexivity|]. cbn [skipn]. apply IHv; assumption. }
    assert (Htu : u64 t).
    { assert (In t vs). { rewrite <- (firstn_skipn j vs), Hskip. apply in_or_app; right; left; reflexivity. }
      unfold u64s in Hvs. rewrite Forall_forall in Hvs. apply Hvs; assumption. }
    destruct (add64_split lo t Hlo Htu) as (Hsplit & Hlo1 & Hc).
    assert (Hw : wrap_u64 (hi + add64_carry lo t 0) = hi + add64_carry lo t 0).
    { apply wrap_u64_id. unfold u64. lia. }
    rewrite Hw.
    replace (Z.of_nat j + 1) with (Z.of_nat (S j)) by lia.
    destruct (IH (S j) (hi + add64_carry lo t 0) (add64_sum lo t 0) (add64_carry lo t 0))
      as (hi' & lo' & c' & Hrun & Hsum & Hlo' & Hhi'); try lia; try assumption.
    exists hi', lo', c'. rewrite Hrun. split; [reflexivity|].
    rewrite Hskip. cbn [firstn zsum]. repeat split; try lia; apply Hlo'.
Qed.

(* running past the end of the slice: the index expression panics *)
Lemma acc128_panic vs : u64s vs -> forall k j hi lo c,
  (j <= length vs)%nat -> (length vs < j + k)%nat -> u64 lo -> 0 <= hi -> hi + Z.of_nat k < two64 ->
  for_loop k (Z.of_nat j) (acc128_body vs) (hi, lo, c) = Panic.
Proof.
  intros Hvs. induction k as [|k IH]; intros j hi lo c Hj1 Hj2 Hlo Hhi Hb; [lia|].
  cbn [for_loop]. unfold acc128_body at 1. rewrite g_index_nth by lia. rewrite Nat2Z.id.
  destruct (Nat.eq_dec j (length vs)) as [->|Hne].
  - rewrite nth_z_none_ge by lia. reflexivity.
  - destruct (nth_z_some_lt vs j ltac:(lia)) as [t Ht]. rewrite Ht. cbn [pan_of obind].
    assert (Htu : u64 t).
    { assert (In t vs).
      { clear -Ht. revert j Ht; induction vs as [|x vs IHv]; intros j Ht; [destruct j; discriminate|].
        destruct j; cbn [nth_z] in Ht; [inversion Ht; left; reflexivity|]. right. eapply IHv; eauto. }
      unfold u64s in Hvs. rewrite Forall_forall in Hvs. apply Hvs; assumption. }
    destruct (add64_split lo t Hlo Htu) as (Hsplit & Hlo1 & Hc).
    rewrite (wrap_u64_id (hi + add64_carry lo t 0)) by (unfold u64; lia).
    replace (Z.of_nat j + 1) with (Z.of_nat (S j)) by lia.
    apply IH; try lia; assumption.
Qed.

(* the loop followed by bits.Div64(hi, lo, n): the integer mean of the first n elements, a panic
   when the slice is shorter than n or n = 0 *)
Lemma acc128_mean vs n : u64s vs -> 0 <= n < two63 ->
  obind (for_range 0 n (acc128_body vs) (0, 0, 0)) (fun '(hi, lo, _) =>
    obind (g_div64 hi lo n) (fun '(q, _) => Ok q))
  = if n <=? 0 then Panic
    else if zlen vs <? n then Panic
    else Ok (zsum (firstn (Z.to_nat n) vs) / n).
Proof.
  intros Hvs Hn. unfold for_range. rewrite Z.sub_0_r.
  assert (H63 : two63 < two64) by (rewrite two63_val, two64_val; lia).
  destruct (Z.leb_spec n 0).
  - assert (n = 0) by lia; subst. cbn. reflexivity.
  - destruct (Z.ltb_spec (zlen vs) n) as [Hs|Hs]; unfold zlen in Hs.
    + change 0 with (Z.of_nat 0) at 1.
      rewrite (acc128_panic vs Hvs (Z.to_nat n) 0 0 0 0); try lia; [reflexivity|unfold u64; lia].
    + change 0 with (Z.of_nat 0) at 1.
      destruct (acc128_ok vs Hvs (Z.to_nat n) 0%nat 0 0 0) as (hi & lo & c & Hrun & Hsum & Hlo & Hhi);
        try lia; [unfold u64; lia|].
      rewrite Hrun. cbn [obind]. cbn [skipn] in Hsum.
      pose proof (zsum_u64s_bound _ (u64s_firstn (Z.to_nat n) vs Hvs)) as Hb.
      assert (Hl : zlen (firstn (Z.to_nat n) vs) = n).
      { unfold zlen. rewrite firstn_length. lia. }
      rewrite Hl in Hb. unfold u64 in Hlo.
      assert (Hhin : hi < n) by nia.
      unfold g_div64. destruct (Z.eqb_spec n 0); [lia|]. destruct (Z.leb_spec n hi); [lia|].
      cbn [obind]. replace (hi * two64 + lo) with (zsum (firstn (Z.to_nat n) vs)) by lia. reflexivity.
Qed.

(* int(n) < 0 for n >= 2^63: the loop body never runs and Div64(0, 0, n) = 0 *)
Lemma acc128_large vs n : two63 <= n < two64 ->
  obind (for_range 0 (wrap_i64 n) (acc128_body vs) (0, 0, 0)) (fun '(hi, lo, _) =>
    obind (g_div64 hi lo n) (fun '(q, _) => Ok q)) = Ok 0.
Proof.
  intros Hn. rewrite wrap_i64_high by assumption. unfold for_range.
  replace (Z.to_nat (n - two64 - 0)) with 0%nat by lia. cbn [for_loop obind].
  unfold g_div64. rewrite two63_val in Hn.
  destruct (Z.eqb_spec n 0); [lia|]. destruct (Z.leb_spec n 0); [lia|]. reflexivity.
Qed.

(* ---------------- appending in a counted loop ---------------- *)
Lemma for_loop_app_const (v : Z) : forall k i acc,
  for_loop k i (fun _ s => Ok (s ++ [v])) acc = Ok (acc ++ repeat v k).
Proof.
  induction k as [|k IH]; intros i acc; cbn [for_loop repeat obind]; [rewrite app_nil_r; reflexivity|].
  rewrite IH, <- app_assoc. reflexivity.
Qed.

(* ---------------- (value1, value2, error) results: the second value and the error ---------------- *)
Definition snd3 (o : option (Z * Z * Z)) : option (Z * Z) := option_map (fun '(_, tok, e) => (tok, e)) o.

(* ---------------- (value, error) results whose value may be a nil Int / Dec ----------------
   A Go function that returns the literal sdk.Dec{} on some path is regenerated with result type
   outcome (option Z * Z): None = the nil value.  [res_opt] reads it as the models' outcome Z: a non-nil
   error is Err, a nil value with a nil error would panic at its first use. *)
Definition res_opt (o : outcome (option Z * Z)) : outcome Z :=
  match o with
  | Ok (Some v, e) => if e =? 0 then Ok v else Err e
  | Ok (None, e) => if e =? 0 then Panic else Err e
  | Err _ => Panic | Panic => Panic
  end.


(* the caller's  v, err := f(..); if err != nil { return x, err }  *)
Lemma res_of_obind : forall A (m : outcome A) (f : A -> outcome (Z * Z)),
  res_of (obind m f) = match to_option m with Some a => res_of (f a) | None => Panic end.
Proof. destruct m; reflexivity. Qed.

Lemma res_opt_obind_err : forall (m : outcome (Z * Z)) (x : option Z) (k : Z -> outcome (option Z * Z)),
  res_opt (obind m (fun '(v, e) => if negb (e =? 0) then Ok (x, e) else k v))
  = obind (res_of m) (fun v => res_opt (k v)).
Proof.
  intros [[v e]| |] x k; cbn [obind res_of]; try reflexivity.
  destruct (e =? 0) eqn:E; cbn [negb obind]; [reflexivity|]. cbn [res_opt]. rewrite E. destruct x; reflexivity.
Qed.

Lemma res_opt_obind_err_opt : forall (m : outcome (option Z * Z)) (x : option Z) (k : Z -> outcome (option Z * Z)),
  res_opt (obind m (fun '(s, e) => if negb (e =? 0) then Ok (x, e) else obind (lift_pan s) k))
  = obind (res_opt m) (fun v => res_opt (k v)).
Proof.
  intros [[[v|] e]| |] x k; cbn [obind res_opt]; try reflexivity;
    destruct (e =? 0) eqn:E; cbn [negb obind lift_pan res_opt]; try reflexivity; rewrite E; destruct x; reflexivity.
Qed.

Lemma res_of_pair0 : forall (m : outcome (Z * Z)) o, to_option m = pair0 o -> res_of m = pan_of o.
Proof.
  intros [[v e]| |] [w|] H; cbn in H; try discriminate; try reflexivity.
  inversion H; subst. reflexivity.
Qed.

