(* Proofs about Model/Liquidity.v, part 6: the pool-coin supply of a pool changes only by the creation
   of that pool and by deposit / withdrawal requests executed against it - for every operation in
   every state. *)
From Comdex Require Import Lib.Base Lib.DecArith Lib.DecFacts Model.Liquidity Proofs.LiquidityProofs
  Proofs.LiquiditySweep Proofs.LiquidityProofs2 Proofs.LiquidityEffects Proofs.LiquidityLists Proofs.LiquidityCustody
  Proofs.LiquidityFarm Proofs.LiquidityPools Proofs.LiquidityMMCancel.
From Coq Require Import ZifyBool Lia.

(* ---------------- what the leaves do to the supply ---------------- *)
Lemma pframe_sup s s' : PFrame s s' -> sup s' = sup s.
Proof. intros (_ & _ & _ & _ & _ & _ & G & _). exact G. Qed.

Ltac sup_frame H s' := inv_ok H; try subst s'; sends; proj_cbn; reflexivity.
Lemma deposit_req_sup s a o p x y s' r : deposit_req s a o p x y = Ok (s', r) ->
  sup s' = sup s /\ d_app r = a /\ d_pool r = p /\ deps s' = deps s ++ [r] /\ wds s' = wds s.
Proof. unfold deposit_req, obind. intros H. inv_ok H; subst s' r; sends; proj_cbn. repeat split; reflexivity. Qed.
Lemma withdraw_req_sup s a o p pc s' r : withdraw_req s a o p pc = Ok (s', r) ->
  sup s' = sup s /\ w_app r = a /\ w_pool r = p /\ wds s' = wds s ++ [r] /\ deps s' = deps s.
Proof. unfold withdraw_req, obind. intros H. inv_ok H; subst s' r; sends; proj_cbn. repeat split; reflexivity. Qed.
Lemma fail_dep_sup s r s' : fail_dep s r = Ok s' -> sup s' = sup s.
Proof. unfold fail_dep, obind. intros H. sup_frame H s'. Qed.
Lemma fail_wd_sup s r s' : fail_wd s r = Ok s' -> sup s' = sup s.
Proof. unfold fail_wd, obind. intros H. sup_frame H s'. Qed.
Lemma do_deposit_sup s r pr ax ay pc s' : do_deposit s r pr ax ay pc = Ok s' -> sup s' = fadd2 (sup s) (d_app r) (d_pool r) pc.
Proof. unfold do_deposit, obind. intros H. sup_frame H s'. Qed.
Lemma do_withdraw_sup s r pl pr x y s' : do_withdraw s r pl pr x y = Ok s' -> sup s' = fadd2 (sup s) (w_app r) (w_pool r) (- w_pc r).
Proof. unfold do_withdraw, obind. intros H. inv_ok H; try subst s'; sends; proj_cbn; reflexivity. Qed.
Lemma new_pool_sup s P app c pr rg ax ay ps s' : new_pool s P app c pr rg ax ay ps = Ok s' ->
  sup s' = fadd2 (sup s) app (cnt (last_pool s) app + 1) (Z.max ps (pr_min_pc P)).
Proof. unfold new_pool, obind. intros H. inv_ok H; try subst s'; sends; proj_cbn; unfold cnt; rewrite ?E2; reflexivity. Qed.

Lemma fadd2_other f a p x a' p' : fadd2 f a p x a' p' <> f a' p' -> a = a' /\ p = p'.
Proof. unfold fadd2. destruct ((a =? a') && (p =? p')) eqn:E; [lia|congruence]. Qed.

Lemma exec_deposit_sup s r ax ay pc s' : exec_deposit s r ax ay pc = Ok s' ->
  forall a i, sup s' a i <> sup s a i -> d_app r = a /\ d_pool r = i.
Proof.
  unfold exec_deposit. intros H a i Hne.
  destruct (find_pool (d_app r) (d_pool r) (pools s)) as [pl|]; [|discriminate].
  destruct (pool_pair s pl) as [pr|]; [|discriminate].
  destruct (pl_disabled pl); [apply fail_dep_sup in H; congruence|].
  destruct (pool_depleted s pr pl); [apply fail_dep_sup in H; cbn in H; congruence|].
  destruct (pc =? 0); [apply fail_dep_sup in H; congruence|].
  destruct (_ || _); [discriminate|]. apply do_deposit_sup in H. rewrite H in Hne. exact (fadd2_other _ _ _ _ _ _ Hne).
Qed.
Lemma exec_withdraw_sup s r x y s' : exec_withdraw s r x y = Ok s' ->
  forall a i, sup s' a i <> sup s a i -> w_app r = a /\ w_pool r = i.
Proof.
  unfold exec_withdraw. intros H a i Hne.
  destruct (negb (has_app s (w_app r))); [discriminate|].
  destruct (find_pool (w_app r) (w_pool r) (pools s)) as [pl|]; [|discriminate].
  destruct (pool_pair s pl) as [pr|]; [|discriminate].
  destruct (pl_disabled pl); [apply fail_wd_sup in H; congruence|].
  destruct (pool_depleted s pr pl); [apply fail_wd_sup in H; cbn in H; congruence|].
  destruct ((x =? 0) && (y =? 0)); [apply fail_wd_sup in H; congruence|].
  apply do_withdraw_sup in H. rewrite H in Hne. exact (fadd2_other _ _ _ _ _ _ Hne).
Qed.

(* ---------------- order-side handlers leave every supply alone ---------------- *)
Section SupEq.
Variables (s0 : state) (a i : Z).
Definition SE (t : state) : Prop := sup t a i = sup s0 a i.
Lemma se_pframe t t' : PFrame t t' -> SE t -> SE t'.
Proof. intros F H. unfold SE. rewrite (pframe_sup _ _ F). exact H. Qed.
Lemma se_finish t e st t' : SE t -> find_order (ekey e) (orders t) = Some e -> is_term st = true -> finish_entry t e st = Ok t' -> SE t'.
Proof. intros H _ _ E. eapply se_pframe; [eapply pf_finish; eauto|exact H]. Qed.
Lemma se_place t m typ pr price offer fee now t' P :
  SE t -> get_params t (m_app m) = Some P -> find_pair (m_app m) (m_pair m) (pairs t) = Some pr ->
  fee = fee_amt (pr_fee_rate P) offer -> typ = 1 \/ typ = 2 -> place t m typ pr price offer fee now = Ok t' -> SE t'.
Proof. intros H _ _ _ _ E. eapply se_pframe; [eapply pf_place; eauto|exact H]. Qed.
Lemma se_drop_mm t app owner pair : SE t ->
  (forall ix, find_mm app owner pair (mmidx t) = Some ix -> forall id, In id (mi_ids ix) -> nonlive_at (app, pair, id) t) ->
  SE (drop_mm t app owner pair).
Proof. intros H _. exact H. Qed.
Lemma se_mm_tail t m pr bt st now t' P :
  SE t -> get_params t (mm_app m) = Some P -> find_pair (mm_app m) (mm_pair m) (pairs t) = Some pr ->
  find_mm (mm_app m) (mm_owner m) (p_id pr) (mmidx t) = None ->
  existsb (fun x : Z * Z * Z => snd x <? 0) (bt ++ st) = false -> mm_tail t m pr bt st now = Ok t' -> SE t'.
Proof. intros H _ _ _ _ E. eapply se_pframe; [eapply pf_mm_tail; eauto|exact H]. Qed.
End SupEq.

(* ---------------- the end block ---------------- *)
Definition cause_end (s : state) (a i : Z) : Prop :=
  (exists r, In r (deps s) /\ d_status r = 1 /\ d_app r = a /\ d_pool r = i) \/
  (exists r, In r (wds s) /\ w_status r = 1 /\ w_app r = a /\ w_pool r = i).
Definition pend_sub (s t : state) : Prop :=
  (forall r, In r (deps t) -> d_status r = 1 -> In r (deps s)) /\ (forall r, In r (wds t) -> w_status r = 1 -> In r (wds s)).
Definition IEnd (s : state) (a i : Z) (t : state) : Prop := pend_sub s t /\ (sup t a i = sup s a i \/ cause_end s a i).

Lemma iend_frame s a i t t' : deps t' = deps t -> wds t' = wds t -> sup t' = sup t -> IEnd s a i t -> IEnd s a i t'.
Proof. intros D W S [[P1 P2] H]. unfold IEnd, pend_sub. rewrite D, W, S. auto. Qed.
Lemma iend_pframe s a i t t' : PFrame t t' -> IEnd s a i t -> IEnd s a i t'.
Proof. intros (_ & _ & _ & D & W & _ & S & _). apply iend_frame; assumption. Qed.

Lemma in_put_dep_pending t r' z : In z (deps (put_dep t r')) -> d_status z = 1 -> d_status r' <> 1 -> In z (deps t).
Proof.
  unfold put_dep. proj_cbn. intros Hz Hst Hr. apply in_map_iff in Hz. destruct Hz as (y & Hy & Hy2).
  destruct (dep_eqb y r'); [congruence|]. subst y. exact Hy2.
Qed.
Lemma in_put_wd_pending t r' z : In z (wds (put_wd t r')) -> w_status z = 1 -> w_status r' <> 1 -> In z (wds t).
Proof.
  unfold put_wd. proj_cbn. intros Hz Hst Hr. apply in_map_iff in Hz. destruct Hz as (y & Hy & Hy2).
  destruct (wd_eqb y r'); [congruence|]. subst y. exact Hy2.
Qed.

Lemma iend_fail_dep s a i t r t' : IEnd s a i t -> fail_dep t r = Ok t' -> IEnd s a i t'.
Proof.
  intros [[P1 P2] H] E. pose proof (fail_dep_sup _ _ _ E) as S. unfold fail_dep, obind in E. inv_ok E; subst t'; sends.
  split; [split|rewrite S; exact H].
  - intros z Hz Hst. apply P1; [|exact Hst]. apply in_put_dep_pending in Hz; [exact Hz|exact Hst|cbn; lia].
  - intros z Hz Hst. apply P2; [exact Hz|exact Hst].
Qed.
Lemma iend_fail_wd s a i t r t' : IEnd s a i t -> fail_wd t r = Ok t' -> IEnd s a i t'.
Proof.
  intros [[P1 P2] H] E. pose proof (fail_wd_sup _ _ _ E) as S. unfold fail_wd, obind in E. inv_ok E; subst t'; sends.
  split; [split|rewrite S; exact H].
  - intros z Hz Hst. apply P1; [exact Hz|exact Hst].
  - intros z Hz Hst. apply P2; [|exact Hst]. apply in_put_wd_pending in Hz; [exact Hz|exact Hst|cbn; lia].
Qed.
Lemma iend_do_deposit s a i t r pr ax ay pc t' :
  IEnd s a i t -> In r (deps t) -> d_status r = 1 -> do_deposit t r pr ax ay pc = Ok t' -> IEnd s a i t'.
Proof.
  intros [[P1 P2] H] Hin Hst E. pose proof (do_deposit_sup _ _ _ _ _ _ _ E) as S.
  unfold do_deposit, obind in E. inv_ok E; subst t'; sends.
  split; [split|].
  - intros z Hz Hz1. apply P1; [|exact Hz1]. apply in_put_dep_pending in Hz; [exact Hz|exact Hz1|cbn; lia].
  - intros z Hz Hz1. apply P2; [exact Hz|exact Hz1].
  - rewrite S. unfold fadd2. destruct ((d_app r =? a) && (d_pool r =? i)) eqn:Ek; [|exact H].
    right. left. exists r. repeat split; [apply P1; assumption|exact Hst|lia|lia].
Qed.
Lemma iend_do_withdraw s a i t r pl pr x y t' :
  IEnd s a i t -> In r (wds t) -> w_status r = 1 -> do_withdraw t r pl pr x y = Ok t' -> IEnd s a i t'.
Proof.
  intros [[P1 P2] H] Hin Hst E. pose proof (do_withdraw_sup _ _ _ _ _ _ _ E) as S.
  unfold do_withdraw, obind in E. inv_ok E; subst t'; sends.
  all: (split; [split|]);
    [ intros z Hz Hz1; apply P1; [exact Hz|exact Hz1]
    | intros z Hz Hz1; apply P2; [|exact Hz1]; apply in_put_wd_pending in Hz; [exact Hz|exact Hz1|cbn; lia]
    | rewrite S; unfold fadd2; destruct ((w_app r =? a) && (w_pool r =? i)) eqn:Ek; [|exact H];
      right; right; exists r; repeat split; [apply P2; assumption|exact Hst|lia|lia] ].
Qed.

Theorem end_block_sup s h now envs a i :
  sup (end_block h now envs s) a i <> sup s a i -> cause_end s a i.
Proof.
  intros Hne.
  assert (HI : IEnd s a i (end_block h now envs s)).
  { apply (sw_end_block (IEnd s a i)).
    - intros t e st t' H _ _ E. eapply iend_pframe; [eapply pf_finish; eauto|exact H].
    - intros t k o g m p r H _ _ _ _ _. eapply iend_frame; [| | |exact H]; destruct k as [[? ?] ?]; reflexivity.
    - intros t k o g st H _ _ _. eapply iend_frame; [| | |exact H]; reflexivity.
    - intros t app pair from d x t' H Hf E. eapply iend_pframe; [eapply pf_esc_in; eauto|exact H].
    - intros t app pair to d x t' H Hf E. eapply iend_pframe; [eapply pf_esc_out; eauto|exact H].
    - intros t pr H. eapply iend_frame; [| | |exact H]; reflexivity.
    - intros t pr env H _. eapply iend_frame; [| | |exact H]; reflexivity.
    - intros t r t' H _ _ E. eapply iend_fail_dep; eauto.
    - intros t r t' H _ _ E. eapply iend_fail_wd; eauto.
    - intros t pl a0 i0 H _. eapply iend_frame; [| | |exact H]; reflexivity.
    - intros t r pl pr ax ay pc t' H Hin Hst _ _ _ _ _ _ _ E. eapply iend_do_deposit; eauto.
    - intros t r pl pr x y t' H Hin Hst _ _ E. eapply iend_do_withdraw; eauto.
    - intros t now0 app H. eapply iend_pframe; [eapply pf_process_queued|exact H].
    - split; [split; auto|left; reflexivity]. }
  destruct HI as [_ [Heq|Hc]]; [contradiction|exact Hc].
Qed.

(* ---------------- every operation ---------------- *)
Definition sup_cause (s : state) (o : op) (a i : Z) : Prop :=
  match o with
  | OCreatePool app _ _ _ _ _ _ => app = a /\ i = cnt (last_pool s) app + 1
  | OCreateRanged app _ _ _ _ _ _ _ _ => app = a /\ i = cnt (last_pool s) app + 1
  | ODepositAndFarm app _ pid _ _ _ _ _ => app = a /\ pid = i
  | OUnfarmAndWithdraw app _ pid _ _ _ _ => app = a /\ pid = i
  | OEnd _ _ _ => cause_end s a i
  | _ => False
  end.

Lemma begin_block_sup s : sup (begin_block s) = sup s.
Proof. unfold begin_block. apply (fold_left_inv (fun t => sup t = sup s)); [|reflexivity]. intros t x H. exact H. Qed.

Ltac se_leaf s a i :=
  first [ exact (se_finish s a i) | exact (se_place s a i) | exact (se_drop_mm s a i) | exact (se_mm_tail s a i) | reflexivity ].

Theorem step_supply s o a i : sup (apply_op s o) a i <> sup s a i -> sup_cause s o a i.
Proof.
  unfold apply_op. destruct (step s o) as [s'| |] eqn:E; cbn [atomic]; intros Hne; try congruence.
  destruct o; cbn [step sup_cause] in *.
  - destruct (has_app s app); [discriminate|]. injection E as <-. apply Hne. reflexivity.
  - injection E as <-. apply Hne. reflexivity.
  - injection E as <-. apply Hne. reflexivity.
  - apply Hne. rewrite (pframe_sup _ _ (pf_create_pair _ _ _ _ _ _ E)). reflexivity.
  - unfold create_pool in E. destruct (_ || _); [discriminate|]. destruct (get_params s app) as [P|]; [|discriminate].
    destruct (find_pair app pair (pairs s)) as [pr|]; [|discriminate]. inv_ok E.
    apply new_pool_sup in E. rewrite E in Hne. destruct (fadd2_other _ _ _ _ _ _ Hne). split; congruence.
  - unfold create_ranged in E. destruct (_ || _); [discriminate|]. destruct (get_params s app) as [P|]; [|discriminate].
    destruct (find_pair app pair (pairs s)) as [pr|]; [|discriminate]. inv_ok E.
    apply new_pool_sup in E. rewrite E in Hne. destruct (fadd2_other _ _ _ _ _ _ Hne). split; congruence.
  - apply Hne. apply (sw_limit_order (SE s a i)) with (s := s) (m := m) (now := now); [se_leaf s a i|reflexivity|exact E].
  - apply Hne. apply (sw_market_order (SE s a i)) with (s := s) (m := m) (now := now); [se_leaf s a i|reflexivity|exact E].
  - apply Hne. apply (sw_mm_order (SE s a i)) with (s := s) (m := m) (now := now); try se_leaf s a i. exact E.
  - apply Hne. apply (sw_cancel_order (SE s a i)) with (s := s) (app := app) (owner := owner) (pair := pair) (id := id); try se_leaf s a i. exact E.
  - apply Hne. apply (sw_cancel_all (SE s a i)) with (s := s) (app := app) (owner := owner) (pids := pids); try se_leaf s a i. exact E.
  - apply Hne. apply (sw_cancel_mm (SE s a i)) with (s := s) (app := app) (owner := owner) (pair := pair); try se_leaf s a i. exact E.
  - unfold obind in E. destruct (deposit_msg s app owner pid cs) as [[s1 r]| |] eqn:E1; try discriminate. injection E as <-.
    destruct (deposit_msg_inv _ _ _ _ _ _ _ E1) as (x & y & E1').
    destruct (deposit_req_sup _ _ _ _ _ _ _ _ E1') as (S & _). apply Hne. rewrite S. reflexivity.
  - unfold obind in E. destruct (withdraw_msg s app owner pid dn pc) as [[s1 r]| |] eqn:E1; try discriminate. injection E as <-.
    apply withdraw_msg_inv in E1.
    destruct (withdraw_req_sup _ _ _ _ _ _ _ E1) as (S & _). apply Hne. rewrite S. reflexivity.
  - apply farm_msg_inv in E. apply Hne. rewrite (pframe_sup _ _ (pf_farm _ _ _ _ _ _ _ E)). reflexivity.
  - apply unfarm_msg_inv in E. apply Hne. rewrite (pframe_sup _ _ (pf_unfarm _ _ _ _ _ _ E)). reflexivity.
  - destruct (deposit_and_farm_msg_inv _ _ _ _ _ _ _ _ _ _ E) as (x & y & E'). clear E. rename E' into E.
    unfold deposit_and_farm, obind in E.
    destruct (deposit_req s app owner pid x y) as [[s1 r]| |] eqn:E1; try discriminate.
    destruct (exec_deposit s1 r ax ay pc) as [s2| |] eqn:E2; try discriminate.
    destruct (find _ (deps s2)); [|discriminate]. destruct (_ || _); [discriminate|].
    destruct (deposit_req_sup _ _ _ _ _ _ _ _ E1) as (S1 & Ra & Rp & _).
    rewrite (pframe_sup _ _ (pf_farm _ _ _ _ _ _ _ E)) in Hne. rewrite <- S1 in Hne.
    destruct (exec_deposit_sup _ _ _ _ _ _ E2 a i Hne). split; congruence.
  - apply unfarm_and_withdraw_msg_inv in E.
    unfold unfarm_and_withdraw, obind in E. destruct (_ || _); [discriminate|].
    destruct (unfarm s app owner pid pc) as [s1| |] eqn:E1; try discriminate.
    destruct (withdraw_req s1 app owner pid pc) as [[s2 r]| |] eqn:E2; try discriminate.
    destruct (withdraw_req_sup _ _ _ _ _ _ _ E2) as (S2 & Ra & Rp & _).
    pose proof (pframe_sup _ _ (pf_unfarm _ _ _ _ _ _ E1)) as S1. rewrite <- S1, <- S2 in Hne.
    destruct (exec_withdraw_sup _ _ _ _ _ E a i Hne). split; congruence.
  - injection E as <-. apply Hne. rewrite begin_block_sup. reflexivity.
  - injection E as <-. apply end_block_sup in Hne. exact Hne.
Qed.
