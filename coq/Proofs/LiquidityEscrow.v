(* Proofs about Model/Liquidity.v, part 3: the pair escrows.  In every reachable state
     balance(escrow of pair p, denom d) = sum over the STORED orders of p offering d of their escrow share
                                          + net of the recorded fills / pool legs / dust of p in d
   where the share of a live order is its remaining offer coin + unreleased fee reserve and the share
   of a terminated order is 0.  Instance of the generic sweep. *)
From Comdex Require Import Lib.Base Lib.DecArith Lib.DecFacts Model.Liquidity Proofs.LiquidityProofs
  Proofs.LiquiditySweep Proofs.LiquidityProofs2 Proofs.LiquidityEffects Proofs.LiquidityLists.
From Coq Require Import ZifyBool Lia.

Definition share (ap : list (Z * params)) (a p d : Z) (e : entry) : Z :=
  if (o_app (fst e) =? a) && (o_pair (fst e) =? p) && (o_odenom (fst e) =? d)
  then escrow_share (rate_of ap (o_app (fst e))) (fst e) else 0.
Definition osum (ap : list (Z * params)) (a p d : Z) (st : list entry) : Z := zsum (map (share ap a p d) st).

Record OInv (ap : list (Z * params)) (s : state) : Prop := {
  oi_si : SI ap s;
  oi_nodup : NoDup (map ekey (orders s));
  oi_id : forall e pr, In e (orders s) -> find_pair (o_app (fst e)) (o_pair (fst e)) (pairs s) = Some pr ->
                       o_id (fst e) <= p_last_order pr;
  oi_pcnt : forall a i pr, find_pair a i (pairs s) = Some pr -> i <= cnt (last_pair s) a;
  oi_opair : forall e, In e (orders s) -> o_pair (fst e) <= cnt (last_pair s) (o_app (fst e));
  oi_rem : forall e, In e (orders s) -> 0 <= o_rem (fst e) <= o_offer (fst e);
  oi_app : forall e, In e (orders s) -> get_params s (o_app (fst e)) <> None;
  oi_pair : forall e, In e (orders s) -> find_pair (o_app (fst e)) (o_pair (fst e)) (pairs s) <> None;
  oi_esc : forall a p d, led s (Escrow a p) d = owed s a p d + surplus s a p d;
  oi_owed : forall a p d, owed s a p d = osum ap a p d (orders s) }.

(* ---------------- transitions that do not touch the order side ---------------- *)
Definition EscFrame (s s' : state) : Prop :=
  apps s' = apps s /\ orders s' = orders s /\ pairs s' = pairs s /\ last_pair s' = last_pair s /\
  owed s' = owed s /\ surplus s' = surplus s /\ forall a p d, led s' (Escrow a p) d = led s (Escrow a p) d.

Lemma oinv_frame ap s s' : EscFrame s s' -> OInv ap s -> OInv ap s'.
Proof.
  intros (A & B & C & D & E & F & G) HI. destruct HI as [[HA HS] H2 H3 H4 H5 H6 Ha Hp' H7 H8].
  constructor; try (rewrite ?B, ?C, ?D; assumption).
  - split; [congruence|rewrite B; exact HS].
  - intros e He. unfold get_params. rewrite A. rewrite B in He. apply (Ha e He).
  - intros a p d. rewrite G, E, F. apply H7.
  - intros a p d. rewrite E, B. apply H8.
Qed.

Lemma send_escrow_frame l a b d x l' : send l a b d x = Ok l' -> is_escrow a = false -> is_escrow b = false ->
  forall a' p' d', l' (Escrow a' p') d' = l (Escrow a' p') d'.
Proof.
  intros H Ha Hb a' p' d'. destruct (send_eff _ _ _ _ _ _ H) as (_ & _ & R). rewrite R. unfold at_.
  destruct a; try discriminate; destruct b; try discriminate; cbn [acct_eqb andb]; lia.
Qed.

(* rewrite the final ledger at an escrow account back to the initial one *)
Ltac esc_led :=
  repeat first
    [ match goal with
      | Hl : send ?l0 _ _ _ _ = Ok ?l |- context [?l (Escrow _ _) _] =>
        rewrite (send_escrow_frame _ _ _ _ _ _ Hl eq_refl eq_refl)
      end
    | progress cbn [ladd acct_eqb andb] ];
  try reflexivity.
Ltac esc_frame H s' :=
  inv_ok H; try subst s'; sends; proj_cbn; unfold EscFrame; proj_cbn;
  repeat (split; [reflexivity|]); intros; esc_led.

Lemma fr_new_pool s P a c pr rg ax ay ps s' : new_pool s P a c pr rg ax ay ps = Ok s' -> EscFrame s s'.
Proof. unfold new_pool, obind. intros H. esc_frame H s'. Qed.
Lemma fr_deposit_req s a o p x y s' r : deposit_req s a o p x y = Ok (s', r) -> EscFrame s s'.
Proof. unfold deposit_req, obind. intros H. esc_frame H s'. Qed.
Lemma fr_withdraw_req s a o p pc s' r : withdraw_req s a o p pc = Ok (s', r) -> EscFrame s s'.
Proof. unfold withdraw_req, obind. intros H. esc_frame H s'. Qed.
Lemma fr_fail_dep s r s' : fail_dep s r = Ok s' -> EscFrame s s'.
Proof. unfold fail_dep, obind. intros H. esc_frame H s'. Qed.
Lemma fr_fail_wd s r s' : fail_wd s r = Ok s' -> EscFrame s s'.
Proof. unfold fail_wd, obind. intros H. esc_frame H s'. Qed.
Lemma fr_do_deposit s r pr ax ay pc s' : do_deposit s r pr ax ay pc = Ok s' -> EscFrame s s'.
Proof. unfold do_deposit, obind. intros H. esc_frame H s'. Qed.
Lemma fr_do_withdraw s r pl pr x y s' : do_withdraw s r pl pr x y = Ok s' -> EscFrame s s'.
Proof. unfold do_withdraw, obind. intros H. esc_frame H s'. Qed.
Lemma fr_farm s a o p amt now s' : farm s a o p amt now = Ok s' -> EscFrame s s'.
Proof. unfold farm, obind. intros H. esc_frame H s'. Qed.
Lemma fr_unfarm s a o p amt s' : unfarm s a o p amt = Ok s' -> EscFrame s s'.
Proof. unfold unfarm, obind. intros H. esc_frame H s'. Qed.
Lemma fr_refl s : EscFrame s s.
Proof. unfold EscFrame. repeat (split; [reflexivity|]). reflexivity. Qed.
Lemma fr_trans s1 s2 s3 : EscFrame s1 s2 -> EscFrame s2 s3 -> EscFrame s1 s3.
Proof.
  intros (A1 & B1 & C1 & D1 & E1 & F1 & G1) (A2 & B2 & C2 & D2 & E2 & F2 & G2).
  unfold EscFrame. repeat (split; [congruence|]). intros. rewrite G2. apply G1.
Qed.
Lemma fr_process_queued s now app : EscFrame s (process_queued now app s).
Proof.
  unfold process_queued. destruct (get_params s app); [|apply fr_refl].
  generalize (filter (fun q => q_app q =? app) (qfs s)). intros l. revert s.
  induction l as [|q r IH]; intros s; cbn [fold_left]; [apply fr_refl|].
  eapply fr_trans; [|apply IH]. unfold process_qf. destruct (filter _ (q_coins q)); [apply fr_refl|].
  unfold EscFrame. proj_cbn. repeat (split; [reflexivity|]). reflexivity.
Qed.

(* ---------------- facts about one order's share ---------------- *)
Lemma key_fields (e e' : entry) : ekey e' = ekey e ->
  o_app (fst e') = o_app (fst e) /\ o_pair (fst e') = o_pair (fst e) /\ o_id (fst e') = o_id (fst e).
Proof. unfold ekey, okey. intros H. injection H as -> -> ->. auto. Qed.

Lemma share_rate s (e : entry) rate : fin_rate s e = Some rate ->
  escrow_share (rate_of (apps s) (o_app (fst e))) (fst e) = escrow_share rate (fst e).
Proof.
  unfold fin_rate, escrow_share, fee_reserve. destruct (o_type (fst e) =? 3) eqn:Ety; [reflexivity|].
  unfold get_params, rate_of. destruct (aget (apps s) (o_app (fst e))); cbn; [|discriminate]. intros [= <-]. reflexivity.
Qed.

Lemma share_term ap a p d (e : entry) : is_term (o_status (fst e)) = true -> share ap a p d e = 0.
Proof. unfold share, escrow_share. intros ->. destruct (_ && _); reflexivity. Qed.

Lemma at_escrow a p d a' p' d' x : at_ (Escrow a p) d (Escrow a' p') d' x = if (a =? a') && (p =? p') && (d =? d') then x else 0.
Proof. reflexivity. Qed.
Lemma at_other c a' p' d d' x : is_escrow c = false -> at_ c d (Escrow a' p') d' x = 0.
Proof. destruct c; try discriminate; reflexivity. Qed.

Section Leaves.
Variable ap : list (Z * params).

(* ---------------- FinishOrder ---------------- *)
Lemma oi_finish s e st s' :
  OInv ap s -> find_order (ekey e) (orders s) = Some e -> is_term st = true -> finish_entry s e st = Ok s' -> OInv ap s'.
Proof.
  intros HI Hf Ht H. pose proof (si_finish ap s e st s' (oi_si _ _ HI) Hf Ht H) as HSI.
  destruct (finish_entry_eff _ _ _ _ H) as [[_ ->]|(El & rate & e' & refund & fee & l & Er & Ec & R0 & F0 & Hl & ->)]; [exact HI|].
  destruct (find_order_in _ _ _ Hf) as [Hin _].
  pose proof (finish_calc_key rate e st) as Hk. rewrite Ec in Hk. cbn [fst] in Hk.
  destruct (key_fields _ _ Hk) as (Ka & Kp & Ki).
  pose proof (finish_calc_status rate e st El) as Hst. rewrite Ec in Hst. cbn [fst] in Hst.
  destruct HI as [[HA HS] H2 H3 H4 H5 H6 Ha Hp' H7 H8].
  pose proof (proj1 (Forall_forall _ _) HS e Hin) as He. cbn beta in He. rewrite <- HA in He.
  pose proof (finish_calc_law rate e st (finish_rate s e rate Er e He eq_refl) El Ht) as L. rewrite Ec in L. cbn [fst snd] in L.
  destruct L as (_ & Lsum & _ & _).
  assert (Hod : o_odenom (fst e') = o_odenom (fst e) /\ o_rem (fst e') = o_rem (fst e) /\ o_offer (fst e') = o_offer (fst e)).
  { revert Ec. unfold finish_calc. destruct e as [o g]. cbn [fst] in *. rewrite El.
    destruct (o_type o =? 3); [intros [= <- _ _]; cbn; auto|].
    destruct (o_rem o >? 0); [destruct (o_rem o =? o_offer o)|]; intros [= <- _ _]; cbn; auto. }
  destruct Hod as (Kd & Kr & Ko).
  constructor; proj_cbn.
  - exact HSI.
  - rewrite map_ekey_upd; [exact H2|exact Hk].
  - intros x pr Hx Hp. destruct (in_upd _ _ _ _ Hx) as [->|Hx']; [|eapply H3; eauto].
    rewrite Ka, Kp in Hp. rewrite Ki. eapply H3; eauto.
  - exact H4.
  - intros x Hx. destruct (in_upd _ _ _ _ Hx) as [->|Hx']; [|apply H5; exact Hx'].
    rewrite Ka, Kp. apply H5; exact Hin.
  - intros x Hx. destruct (in_upd _ _ _ _ Hx) as [->|Hx']; [|apply H6; exact Hx'].
    rewrite Kr, Ko. apply H6; exact Hin.
  - intros x Hx. unfold get_params. proj_cbn. destruct (in_upd _ _ _ _ Hx) as [->|Hx']; [rewrite Ka|]; apply Ha; assumption.
  - intros x Hx. destruct (in_upd _ _ _ _ Hx) as [->|Hx']; [rewrite Ka, Kp|]; apply Hp'; assumption.
  - intros a p d. rewrite Hl. rewrite at_other by reflexivity. rewrite at_other by reflexivity. rewrite at_escrow.
    unfold fadd3. rewrite H7. destruct ((o_app (fst e) =? a) && (o_pair (fst e) =? p) && (o_odenom (fst e) =? d)); lia.
  - intros a p d. unfold osum. rewrite (zsum_upd (share ap a p d) (ekey e) e e' (orders s) H2 Hf Hk).
    fold (osum ap a p d (orders s)). rewrite <- H8.
    rewrite (share_term ap a p d e') by (rewrite Hst; exact Ht).
    unfold fadd3, share. rewrite <- HA at 1. rewrite (share_rate s e rate Er), Lsum.
    destruct ((o_app (fst e) =? a) && (o_pair (fst e) =? p) && (o_odenom (fst e) =? d)); lia.
Qed.

(* ---------------- placement ---------------- *)
Lemma fresh_key s a pid pr id :
  OInv ap s -> find_pair a pid (pairs s) = Some pr -> p_last_order pr < id -> ~ In (a, pid, id) (map ekey (orders s)).
Proof.
  intros HI Hp Hlt Hin. apply in_map_iff in Hin. destruct Hin as (x & Hk & Hx).
  unfold ekey, okey in Hk. injection Hk as K1 K2 K3.
  pose proof (oi_id _ _ HI x pr Hx) as B. rewrite K1, K2 in B. specialize (B Hp). lia.
Qed.

Lemma fee_amt_nonneg rate x : 0 <= rate -> 0 <= x -> 0 <= fee_amt rate x.
Proof.
  intros Hr Hx. unfold fee_amt. apply dtrunc_int_bounds. unfold dmul_trunc.
  apply chop_trunc_bounds. unfold dec_of_int. pose proof P18_pos. nia.
Qed.

Lemma oi_place s m typ pr price offer fee now s' P :
  OInv ap s -> get_params s (m_app m) = Some P -> find_pair (m_app m) (m_pair m) (pairs s) = Some pr ->
  fee = fee_amt (pr_fee_rate P) offer -> typ = 1 \/ typ = 2 ->
  place s m typ pr price offer fee now = Ok s' -> OInv ap s'.
Proof.
  intros HI HP Hpr Hfee Hty H. pose proof (si_place ap s m typ pr price offer fee now s' P (oi_si _ _ HI) HP Hpr Hfee Hty H) as HSI.
  destruct (place_eff _ _ _ _ _ _ _ _ _ H) as (l & O0 & O1 & Hl & ->).
  destruct (find_pair_in _ _ _ _ Hpr) as (_ & Pa & Pi).
  assert (Hfresh : ~ In (m_app m, p_id pr, p_last_order pr + 1) (map ekey (orders s))).
  { rewrite Pi. eapply fresh_key; eauto. lia. }
  destruct HI as [[HA HS] H2 H3 H4 H5 H6 Ha Hp' H7 H8].
  set (newo := mkOrder (m_app m) (p_id pr) (p_last_order pr + 1) (m_owner m) (m_buy m) typ (m_odenom m) (m_ddenom m)
                       offer offer 0 price (m_amt m) (m_amt m) (p_batch pr) (now + m_life m) 1) in *.
  constructor; proj_cbn.
  - exact HSI.
  - apply nodup_ins; [exact Hfresh|exact H2].
  - intros x pr0 Hx Hp. rewrite find_pair_ins in Hp. cbn [p_app p_id] in Hp.
    destruct (in_ins _ _ _ Hx) as [->|Hx'].
    + cbn [fst newo o_app o_pair o_id] in *. rewrite Pa, Z.eqb_refl, Z.eqb_refl in Hp. cbn in Hp. injection Hp as <-. cbn. lia.
    + destruct ((p_app pr =? o_app (fst x)) && (p_id pr =? o_pair (fst x))) eqn:E.
      * injection Hp as <-. cbn [p_last_order]. assert (o_id (fst x) <= p_last_order pr); [|lia].
        apply (H3 x pr Hx'). replace (o_app (fst x)) with (m_app m) by lia. replace (o_pair (fst x)) with (m_pair m) by lia. exact Hpr.
      * eapply H3; eauto.
  - intros a i pr0 Hp. rewrite find_pair_ins in Hp. cbn [p_app p_id] in Hp.
    destruct ((p_app pr =? a) && (p_id pr =? i)) eqn:E; [|eapply H4; eauto].
    apply (H4 a i pr). replace a with (m_app m) by lia. replace i with (m_pair m) by lia. exact Hpr.
  - intros x Hx. destruct (in_ins _ _ _ Hx) as [->|Hx']; [|apply H5; exact Hx'].
    cbn [fst newo o_app o_pair]. rewrite Pi. eapply H4; eauto.
  - intros x Hx. destruct (in_ins _ _ _ Hx) as [->|Hx']; [|apply H6; exact Hx']. cbn. lia.
  - intros x Hx. unfold get_params. proj_cbn. destruct (in_ins _ _ _ Hx) as [->|Hx']; [|apply Ha; exact Hx'].
    cbn [fst newo o_app]. unfold get_params in HP. rewrite HP. discriminate.
  - intros x Hx. rewrite find_pair_ins. cbn [p_app p_id]. destruct (_ && _); [discriminate|].
    destruct (in_ins _ _ _ Hx) as [->|Hx']; [|apply Hp'; exact Hx']. cbn [fst newo o_app o_pair]. rewrite Pi, Hpr. discriminate.
  - intros a p d. rewrite Hl. rewrite at_escrow. rewrite at_other by reflexivity.
    unfold fadd3. rewrite H7. destruct ((m_app m =? a) && (m_pair m =? p) && (m_odenom m =? d)); lia.
  - intros a p d. unfold osum. rewrite zsum_ins by exact Hfresh. fold (osum ap a p d (orders s)). rewrite <- H8.
    unfold fadd3, share. cbn [fst newo o_app o_pair o_odenom]. rewrite Pi.
    destruct ((m_app m =? a) && (m_pair m =? p) && (m_odenom m =? d)); [|lia].
    unfold escrow_share, fee_reserve. cbn [o_status o_rem o_type o_offer is_term]. cbn.
    assert (rate_of ap (m_app m) = pr_fee_rate P) as ->. { rewrite <- HA. unfold rate_of. unfold get_params in HP. rewrite HP. reflexivity. }
    destruct Hty as [-> | ->]; cbn; lia.
Qed.

(* ---------------- market-making placement ---------------- *)
Definition tick_denom (pr : pair) (buy : bool) : Z := if buy then p_quote pr else p_base pr.

Lemma mm_place_law app owner now life pr buy ticks : forall id st st' ids last,
  mm_place app owner now life pr buy ticks id st = (st', ids, last) ->
  existsb (fun t : Z * Z * Z => snd t <? 0) ticks = false ->
  NoDup (map ekey st) -> (forall k, In k (map ekey st) -> fst (fst k) = app -> snd (fst k) = p_id pr -> snd k <= id) ->
  NoDup (map ekey st') /\ id <= last /\
  (forall k, In k (map ekey st') -> fst (fst k) = app -> snd (fst k) = p_id pr -> snd k <= last) /\
  (forall x, In x st' -> In x st \/ (o_app (fst x) = app /\ o_pair (fst x) = p_id pr /\ id < o_id (fst x) <= last /\
                                      0 <= o_rem (fst x) /\ o_rem (fst x) = o_offer (fst x))) /\
  (forall a p d, osum ap a p d st' = osum ap a p d st +
                 if (app =? a) && (p_id pr =? p) && (tick_denom pr buy =? d) then sum_offer ticks else 0).
Proof.
  induction ticks as [|[[price amt] off] r IH]; intros id st st' ids last H Hn Hnd Hid; cbn [mm_place] in H.
  - injection H as <- <- <-. repeat split; try assumption; try lia.
    + intros x Hx. left. exact Hx.
    + intros a p d. unfold sum_offer. cbn. destruct (_ && _); lia.
  - cbn [existsb snd] in Hn. apply orb_false_iff in Hn. destruct Hn as [Hoff Hr].
    set (o := mkOrder app (p_id pr) (id + 1) owner buy 3 (if buy then p_quote pr else p_base pr)
                      (if buy then p_base pr else p_quote pr) off off 0 price amt amt (p_batch pr) (now + life) 1) in *.
    destruct (mm_place app owner now life pr buy r (id + 1) (ins_order (o, new_ghost off) st)) as [[st1 ids1] last1] eqn:E.
    injection H as <- <- <-.
    assert (Hfresh : ~ In (ekey (o, new_ghost off)) (map ekey st)).
    { intros Hi. specialize (Hid _ Hi eq_refl eq_refl). cbn in Hid. lia. }
    specialize (IH (id + 1) _ _ _ _ E Hr (nodup_ins _ _ Hfresh Hnd)).
    destruct IH as (I1 & I2 & I3 & I4 & I5).
    { intros k Hk Ha Hp. destruct (in_ins_keys _ _ _ Hk) as [->|Hk']; [cbn; lia|]. specialize (Hid _ Hk' Ha Hp). lia. }
    repeat split; try assumption; try lia.
    + intros x Hx. destruct (I4 x Hx) as [Hx'|Hx']; [|right; intuition lia].
      destruct (in_ins _ _ _ Hx') as [->|Hx'']; [|left; exact Hx''].
      right. cbn. repeat split; lia.
    + intros a p d. rewrite I5. unfold osum at 1. rewrite zsum_ins by exact Hfresh. fold (osum ap a p d st).
      unfold sum_offer. cbn [map zsum snd]. unfold share. cbn [fst o o_app o_pair o_odenom]. unfold tick_denom.
      destruct ((app =? a) && (p_id pr =? p) && ((if buy then p_quote pr else p_base pr) =? d)); [|lia].
      unfold escrow_share, fee_reserve. cbn. lia.
Qed.

Lemma oi_mm_tail s m pr bt st now s' P :
  OInv ap s -> get_params s (mm_app m) = Some P -> find_pair (mm_app m) (mm_pair m) (pairs s) = Some pr ->
  existsb (fun t : Z * Z * Z => snd t <? 0) (bt ++ st) = false ->
  mm_tail s m pr bt st now = Ok s' -> OInv ap s'.
Proof.
  intros HI HP Hpr Eneg H. pose proof (si_mm_tail ap s m pr bt st now s' (oi_si _ _ HI) Eneg H) as HSI.
  destruct (find_pair_in _ _ _ _ Hpr) as (_ & Pa & Pi).
  unfold mm_tail, obind in H.
  destruct (ssend s _ _ _ _) as [s2| |] eqn:E2; try discriminate.
  destruct (ssend s2 _ _ _ _) as [s3| |] eqn:E3; try discriminate.
  apply ssend_inv in E2. destruct E2 as (l2 & Hl2 & ->). apply ssend_inv in E3. destruct E3 as (l3 & Hl3 & ->).
  proj_cbn.
  destruct (mm_place _ _ _ _ pr true bt _ (orders s)) as [[st1 ids1] last1] eqn:M1.
  destruct (mm_place _ _ _ _ pr false st last1 st1) as [[st2 ids2] last2] eqn:M2.
  injection H as <-.
  rewrite existsb_app in Eneg. apply orb_false_iff in Eneg. destruct Eneg as [N1 N2].
  destruct HI as [[HA HS] H2 H3 H4 H5 H6 Ha Hp' H7 H8].
  assert (Hid0 : forall k, In k (map ekey (orders s)) -> fst (fst k) = mm_app m -> snd (fst k) = p_id pr -> snd k <= p_last_order pr).
  { intros k Hk Ka Kp. apply in_map_iff in Hk. destruct Hk as (x & <- & Hx). unfold ekey, okey in *. cbn [fst snd] in *.
    apply (H3 x pr Hx). rewrite Ka, Kp, Pi. exact Hpr. }
  destruct (mm_place_law _ _ _ _ _ _ _ _ _ _ _ _ M1 N1 H2 Hid0) as (A1 & A2 & A3 & A4 & A5).
  destruct (mm_place_law _ _ _ _ _ _ _ _ _ _ _ _ M2 N2 A1 A3) as (B1 & B2 & B3 & B4 & B5).
  destruct (send_eff _ _ _ _ _ _ Hl2) as (S20 & _ & S2). destruct (send_eff _ _ _ _ _ _ Hl3) as (S30 & _ & S3).
  assert (Hnew : forall x, In x st2 -> In x (orders s) \/
            (o_app (fst x) = mm_app m /\ o_pair (fst x) = p_id pr /\ p_last_order pr < o_id (fst x) <= last2 /\
             0 <= o_rem (fst x) /\ o_rem (fst x) = o_offer (fst x))).
  { intros x Hx. destruct (B4 x Hx) as [Hx1|Hx1]; [|right; intuition lia].
    destruct (A4 x Hx1) as [Hx0|Hx0]; [left; exact Hx0|right; intuition lia]. }
  constructor; proj_cbn.
  - exact HSI.
  - exact B1.
  - intros x pr0 Hx Hp. rewrite find_pair_ins in Hp. cbn [p_app p_id] in Hp.
    destruct ((p_app pr =? o_app (fst x)) && (p_id pr =? o_pair (fst x))) eqn:E.
    + injection Hp as <-. cbn [p_last_order]. destruct (Hnew x Hx) as [Hx0|Hx0]; [|lia].
      assert (o_id (fst x) <= p_last_order pr); [|lia].
      apply (H3 x pr Hx0). replace (o_app (fst x)) with (mm_app m) by lia. replace (o_pair (fst x)) with (mm_pair m) by lia. exact Hpr.
    + destruct (Hnew x Hx) as [Hx0|Hx0]; [eapply H3; eauto|]. lia.
  - intros a i pr0 Hp. rewrite find_pair_ins in Hp. cbn [p_app p_id] in Hp.
    destruct ((p_app pr =? a) && (p_id pr =? i)) eqn:E; [|eapply H4; eauto].
    apply (H4 a i pr). replace a with (mm_app m) by lia. replace i with (mm_pair m) by lia. exact Hpr.
  - intros x Hx. destruct (Hnew x Hx) as [Hx0|(Xa & Xp & _)]; [apply H5; exact Hx0|].
    rewrite Xa, Xp, Pi. eapply H4; eauto.
  - intros x Hx. destruct (Hnew x Hx) as [Hx0|Hx0]; [apply H6; exact Hx0|]. lia.
  - intros x Hx. unfold get_params. proj_cbn. destruct (Hnew x Hx) as [Hx0|(Xa & _)]; [apply Ha; exact Hx0|].
    rewrite Xa. unfold get_params in HP. rewrite HP. discriminate.
  - intros x Hx. rewrite find_pair_ins. cbn [p_app p_id]. destruct (_ && _); [discriminate|].
    destruct (Hnew x Hx) as [Hx0|(Xa & Xp & _)]; [apply Hp'; exact Hx0|]. rewrite Xa, Xp, Pi, Hpr. discriminate.
  - intros a p d. rewrite S3, S2. rewrite !at_escrow. rewrite !at_other by reflexivity.
    unfold fadd3. rewrite H7.
    destruct ((mm_app m =? a) && (p_id pr =? p) && (p_quote pr =? d)), ((mm_app m =? a) && (p_id pr =? p) && (p_base pr =? d)); lia.
  - intros a p d. rewrite B5, A5. fold (osum ap a p d (orders s)). rewrite <- H8. unfold fadd3, tick_denom.
    destruct ((mm_app m =? a) && (p_id pr =? p) && (p_quote pr =? d)), ((mm_app m =? a) && (p_id pr =? p) && (p_base pr =? d)); lia.
Qed.

(* ---------------- fills ---------------- *)
Lemma oi_fill_book s k o g matched paid recv :
  OInv ap s -> find_order k (orders s) = Some (o, g) -> is_live (o_status o) = true ->
  0 <= o_rem o - paid -> 0 <= paid -> 0 <= recv -> OInv ap (fill_book s k o g matched paid recv).
Proof.
  intros HI Hf Hl Hp Hp0 Hr0. pose proof (si_fill_book ap s k o g matched paid recv (oi_si _ _ HI) Hf Hl Hp Hp0 Hr0) as HSI.
  destruct (find_order_in _ _ _ Hf) as [Hin Hk]. destruct k as [[a0 p0] i0].
  unfold ekey, okey in Hk. cbn [fst] in Hk. injection Hk as Ka Kp Ki.
  destruct HI as [[HA HS] H2 H3 H4 H5 H6 Ha Hp' H7 H8]. unfold fill_book in *.
  set (e' := (set_fill o matched paid recv (o_status o), fill_ghost g matched paid recv)) in *.
  assert (Hk' : ekey e' = (a0, p0, i0)). { unfold ekey, okey, e'. cbn. congruence. }
  constructor; proj_cbn.
  - exact HSI.
  - rewrite map_ekey_upd; [exact H2|exact Hk'].
  - intros x pr Hx Hpr. destruct (in_upd _ _ _ _ Hx) as [->|Hx']; [|eapply H3; eauto]. apply (H3 (o, g) pr Hin Hpr).
  - exact H4.
  - intros x Hx. destruct (in_upd _ _ _ _ Hx) as [->|Hx']; [|apply H5; exact Hx']. apply (H5 (o, g) Hin).
  - intros x Hx. destruct (in_upd _ _ _ _ Hx) as [->|Hx']; [|apply H6; exact Hx']. specialize (H6 (o, g) Hin). cbn in *. lia.
  - intros x Hx. unfold get_params. proj_cbn. destruct (in_upd _ _ _ _ Hx) as [->|Hx']; [|apply Ha; exact Hx']. apply (Ha (o, g) Hin).
  - intros x Hx. destruct (in_upd _ _ _ _ Hx) as [->|Hx']; [|apply Hp'; exact Hx']. apply (Hp' (o, g) Hin).
  - intros a p d. unfold fadd3. rewrite H7. destruct ((a0 =? a) && (p0 =? p) && (o_odenom o =? d)); lia.
  - intros a p d. unfold osum. rewrite (zsum_upd (share ap a p d) (a0, p0, i0) (o, g) e' (orders s) H2 Hf Hk').
    fold (osum ap a p d (orders s)). rewrite <- H8. unfold fadd3, share, e'. cbn [fst set_fill o_app o_pair o_odenom].
    rewrite Ka, Kp. destruct ((a0 =? a) && (p0 =? p) && (o_odenom o =? d)); [|lia].
    unfold escrow_share, fee_reserve. cbn [set_fill o_status o_rem o_type o_offer]. rewrite (live_not_term _ Hl). lia.
Qed.

Lemma oi_mark_status s k o g st :
  OInv ap s -> find_order k (orders s) = Some (o, g) -> is_term (o_status o) = false -> is_term st = false ->
  OInv ap (mark_status s k o g st).
Proof.
  intros HI Hf Hl Ht. pose proof (si_mark_status ap s k o g st (oi_si _ _ HI) Hf Hl Ht) as HSI.
  destruct (find_order_in _ _ _ Hf) as [Hin Hk].
  destruct HI as [[HA HS] H2 H3 H4 H5 H6 Ha Hp' H7 H8].
  set (e' := (set_status o st, g)) in *.
  assert (Hk' : ekey e' = k). { rewrite <- Hk. reflexivity. }
  constructor; proj_cbn; fold e'.
  - exact HSI.
  - rewrite map_ekey_upd; [exact H2|exact Hk'].
  - intros x pr Hx Hpr. destruct (in_upd _ _ _ _ Hx) as [->|Hx']; [|eapply H3; eauto]. apply (H3 (o, g) pr Hin Hpr).
  - exact H4.
  - intros x Hx. destruct (in_upd _ _ _ _ Hx) as [->|Hx']; [|apply H5; exact Hx']. apply (H5 (o, g) Hin).
  - intros x Hx. destruct (in_upd _ _ _ _ Hx) as [->|Hx']; [|apply H6; exact Hx']. apply (H6 (o, g) Hin).
  - intros x Hx. unfold get_params. proj_cbn. destruct (in_upd _ _ _ _ Hx) as [->|Hx']; [|apply Ha; exact Hx']. apply (Ha (o, g) Hin).
  - intros x Hx. destruct (in_upd _ _ _ _ Hx) as [->|Hx']; [|apply Hp'; exact Hx']. apply (Hp' (o, g) Hin).
  - exact H7.
  - intros a p d. unfold osum. rewrite (zsum_upd (share ap a p d) k (o, g) e' (orders s) H2 Hf Hk').
    fold (osum ap a p d (orders s)). rewrite <- H8. unfold share, e'. cbn [fst set_status o_app o_pair o_odenom].
    unfold escrow_share, fee_reserve. cbn [set_status o_status o_rem o_type o_offer]. rewrite Hl, Ht. lia.
Qed.

Lemma outside_not_escrow c : is_outside c = true -> is_escrow c = false.
Proof. destruct c; try discriminate; reflexivity. Qed.
Lemma oi_esc_in s app pair from d x s' : OInv ap s -> is_outside from = true -> esc_in s app pair from d x = Ok s' -> OInv ap s'.
Proof.
  intros HI Hfr H. apply outside_not_escrow in Hfr. destruct (esc_in_eff _ _ _ _ _ _ _ H) as (l & X0 & Hl & ->).
  destruct HI as [[HA HS] H2 H3 H4 H5 H6 Ha Hp' H7 H8]. constructor; proj_cbn; try assumption; [split; assumption|].
  intros a p d'. rewrite Hl, at_escrow, (at_other from) by exact Hfr. unfold fadd3. rewrite H7.
  destruct ((app =? a) && (pair =? p) && (d =? d')); lia.
Qed.
Lemma oi_esc_out s app pair to d x s' : OInv ap s -> is_outside to = true -> esc_out s app pair to d x = Ok s' -> OInv ap s'.
Proof.
  intros HI Hto H. apply outside_not_escrow in Hto. destruct (esc_out_eff _ _ _ _ _ _ _ H) as (l & X0 & Hl & ->).
  destruct HI as [[HA HS] H2 H3 H4 H5 H6 Ha Hp' H7 H8]. constructor; proj_cbn; try assumption; [split; assumption|].
  intros a p d'. rewrite Hl, at_escrow, (at_other to) by exact Hto. unfold fadd3. rewrite H7.
  destruct ((app =? a) && (pair =? p) && (d =? d')); lia.
Qed.

Lemma oi_set_pair_after s pr env :
  OInv ap s -> find_pair (p_app pr) (p_id pr) (pairs s) = Some pr -> OInv ap (set_pair_after s pr env).
Proof.
  intros HI Hpr. destruct HI as [[HA HS] H2 H3 H4 H5 H6 Ha Hp' H7 H8]. constructor; proj_cbn; try assumption; [split; assumption| | |].
  - intros x pr0 Hx Hp. rewrite find_pair_ins in Hp. cbn [p_app p_id] in Hp.
    destruct ((p_app pr =? o_app (fst x)) && (p_id pr =? o_pair (fst x))) eqn:E; [|eapply H3; eauto].
    injection Hp as <-. cbn [p_last_order]. apply (H3 x pr Hx).
    replace (o_app (fst x)) with (p_app pr) by lia. replace (o_pair (fst x)) with (p_id pr) by lia. exact Hpr.
  - intros a i pr0 Hp. rewrite find_pair_ins in Hp. cbn [p_app p_id] in Hp.
    destruct ((p_app pr =? a) && (p_id pr =? i)) eqn:E; [|eapply H4; eauto].
    apply (H4 a i pr). replace a with (p_app pr) by lia. replace i with (p_id pr) by lia. exact Hpr.
  - intros x Hx. rewrite find_pair_ins. destruct (_ && _); [discriminate|apply Hp'; exact Hx].
Qed.

Lemma oi_begin_app s app : OInv ap s -> OInv ap (begin_app app s).
Proof.
  intros HI. pose proof (si_begin_app ap s app (oi_si _ _ HI)) as HSI.
  destruct HI as [[HA HS] H2 H3 H4 H5 H6 Ha Hp' H7 H8]. unfold begin_app in *. constructor; proj_cbn; try assumption.
  - apply nodup_filter_keys, H2.
  - intros x pr Hx. apply filter_In in Hx. apply H3, Hx.
  - intros x Hx. apply filter_In in Hx. apply H5, Hx.
  - intros x Hx. apply filter_In in Hx. apply H6, Hx.
  - intros x Hx. apply filter_In in Hx. apply Ha, Hx.
  - intros x Hx. apply filter_In in Hx. apply Hp', Hx.
  - intros a p d. rewrite H8. unfold osum. symmetry. apply zsum_filter_zero.
    intros x _ Hx. apply share_term. apply negb_false_iff in Hx. apply andb_true_iff in Hx. apply Hx.
Qed.

Lemma oi_create_pair s app c b q s' : OInv ap s -> create_pair s app c b q = Ok s' -> OInv ap s'.
Proof.
  intros HI H. unfold create_pair in H. destruct (b =? q); [discriminate|].
  destruct (get_params s app) as [P|]; [|discriminate].
  repeat match type of H with (if ?c then _ else _) = _ => destruct c; [discriminate|] end.
  unfold obind in H. destruct (ssend s _ _ _ _) as [s1| |] eqn:E1; try discriminate. injection H as <-. sends.
  destruct HI as [[HA HS] H2 H3 H4 H5 H6 Ha Hp' H7 H8]. proj_cbn.
  set (id := match aget (last_pair s) app with Some i => i | None => 0 end + 1) in *.
  assert (Hid : id = cnt (last_pair s) app + 1) by reflexivity.
  constructor; proj_cbn; try assumption; [split; assumption| | | | |].
  - intros x pr Hx Hp. rewrite find_pair_ins in Hp. cbn [p_app p_id] in Hp.
    destruct ((app =? o_app (fst x)) && (id =? o_pair (fst x))) eqn:Ek; [|eapply H3; eauto].
    specialize (H5 x Hx). replace (o_app (fst x)) with app in H5 by lia. lia.
  - intros a i pr Hp. rewrite find_pair_ins in Hp. cbn [p_app p_id] in Hp. rewrite cnt_aset.
    destruct ((app =? a) && (id =? i)) eqn:Ek.
    + destruct (app =? a); lia.
    + specialize (H4 a i pr Hp). destruct (app =? a) eqn:Ea; [|exact H4]. replace a with app in H4 by lia. lia.
  - intros x Hx. rewrite cnt_aset. specialize (H5 x Hx). destruct (app =? o_app (fst x)) eqn:Ea; [|exact H5].
    replace (o_app (fst x)) with app in H5 by lia. lia.
  - intros x Hx. rewrite find_pair_ins. destruct (_ && _); [discriminate|apply Hp'; exact Hx].
  - intros a p d. rewrite (send_escrow_frame _ _ _ _ _ _ Hl eq_refl eq_refl). apply H7.
Qed.

Theorem oi_run ops s : Forall (fun o => is_addapp o = false) ops -> OInv ap s -> OInv ap (fold_left apply_op ops s).
Proof.
  intros Ho. apply (sw_run (OInv ap)); try assumption.
  - exact oi_finish.
  - exact oi_place.
  - intros s0 a o p HI _. eapply oinv_frame; [|exact HI]. unfold EscFrame. proj_cbn. repeat (split; [reflexivity|]). reflexivity.
  - intros; eapply oi_mm_tail; eauto.
  - exact oi_fill_book.
  - intros s0 k o g st HI Hf Hl [-> | ->]; apply oi_mark_status; auto.
  - exact oi_esc_in.
  - exact oi_esc_out.
  - intros s0 pr HI. eapply oinv_frame; [|exact HI]. unfold EscFrame. proj_cbn. repeat (split; [reflexivity|]). reflexivity.
  - exact oi_set_pair_after.
  - exact oi_begin_app.
  - exact oi_create_pair.
  - intros; eapply oinv_frame; [eapply fr_new_pool; eauto|assumption].
  - intros; eapply oinv_frame; [eapply fr_deposit_req; eauto|assumption].
  - intros; eapply oinv_frame; [eapply fr_withdraw_req; eauto|assumption].
  - intros; eapply oinv_frame; [eapply fr_fail_dep; eauto|assumption].
  - intros; eapply oinv_frame; [eapply fr_fail_wd; eauto|assumption].
  - intros s0 pl a i HI _. eapply oinv_frame; [|exact HI]. unfold EscFrame. proj_cbn. repeat (split; [reflexivity|]). reflexivity.
  - intros; eapply oinv_frame; [eapply fr_do_deposit; eauto|assumption].
  - intros; eapply oinv_frame; [eapply fr_do_withdraw; eauto|assumption].
  - intros; eapply oinv_frame; [eapply fr_farm; eauto|assumption].
  - intros; eapply oinv_frame; [eapply fr_unfarm; eauto|assumption].
  - intros; eapply oinv_frame; [eapply fr_process_queued|assumption].
  - intros s0 d HI. eapply oinv_frame; [|exact HI]. unfold EscFrame. proj_cbn. repeat (split; [reflexivity|]). reflexivity.
  - intros s0 w d amt HI. eapply oinv_frame; [|exact HI]. unfold EscFrame. proj_cbn. repeat (split; [reflexivity|]).
    intros. cbn [ladd acct_eqb andb]. reflexivity.
Qed.
End Leaves.
