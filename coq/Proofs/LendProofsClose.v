(* C08 proofs, part 4c: the life of a handed-over position and the funding messages.
   - the close of the generation-2 auction (liquidationsV2 MsgCloseDutchAuctionForBorrow) deletes the flagged
     borrow record, its id in the published borrow ids and in the user mapping: the book invariant and the side
     invariant are kept for EVERY environment input (target debt, owner, returned collateral);
   - market bids that do not close, MsgFundModuleAccounts, MsgFundReserveAccounts leave the books alone;
   - MsgRepayWithdraw = CloseBorrow ; WithdrawAsset. *)
From Comdex Require Import Lib.Base Lib.DecArith Model.Lend Proofs.LendProofs Proofs.LendProofsInv Proofs.LendProofsSide
     Proofs.LendProofsSteps Proofs.LendProofsSteps2.
From Coq Require Import ZifyBool.

(* --- a flagged borrow record is deleted; its id leaves the published borrow ids of its pool-asset --- *)
Lemma T_delliq cfg L B S nl nb j b S' :
  InvB cfg L B S nl nb ->
  zget B j = Some b -> b_liq b = true ->
  (forall k s', pget S' k = Some s' ->
     exists s, pget S k = Some s /\ s_lend s' = s_lend s /\ s_bor s' = s_bor s /\ s_sbor s' = s_sbor s /\ s_lids s' = s_lids s /\
               s_bids s' = if okey cfg b k then remove_sorted j (s_bids s) else s_bids s) ->
  InvB cfg L (zdel B j) S' nl nb.
Proof.
  intros (Hnl & Hnb & Hwl & Hwb & HSI) Hg Hq HS. destruct (Hwb j b Hg) as (Hj & _).
  split; [exact Hnl|]. split; [exact Hnb|]. split; [exact Hwl|]. split.
  - intros j' y. rewrite zget_zdel. destruct (Z.eqb_spec j j') as [|Hne]; [discriminate|]. apply Hwb.
  - intros k y Hget. destruct (HS k y Hget) as (s & Hs & E1 & E2 & E3 & E4 & E5).
    destruct (HSI _ _ Hs) as (A1 & A2 & A3 & A4 & A5). unfold stat_ok.
    rewrite (lend_sum_shift L B (zdel B j) (Z.to_nat nl) (Z.to_nat nb) (Z.to_nat nb) k (b_lend b) (bdelta b (- b_in b))).
    2:{ intros i. rewrite (pledged_del B (Z.to_nat nb) j b i Hg) by lia. reflexivity. }
    2:{ intros l Hl. apply Hwl in Hl. lia. }
    rewrite !(bor_sum_del cfg B (Z.to_nat nb) j b _ k Hg) by lia.
    rewrite (bids_del cfg B (Z.to_nat nb) k j b Hg).
    unfold bdelta, odelta. rewrite Hq. cbn [negb]. rewrite !andb_false_r. cbn [andb].
    assert (Z0 : (match zget L (b_lend b) with Some l => if peqb (lkey l) k then 0 else 0 | None => 0 end) = 0).
    { destruct (zget L (b_lend b)) as [lx|]; [destruct (peqb (lkey lx) k)|]; reflexivity. }
    rewrite Z0. destruct (okey cfg b k); repeat split; congruence || lia.
Qed.

(* --- the user mapping of a lend position loses an id that no open position carries --- *)
Lemma T_lbids cfg L B S nl nb i l l' j :
  InvB cfg L B S nl nb ->
  zget L i = Some l -> lkey l' = lkey l -> l_avail l' = l_avail l -> l_bids l' = remove_sorted j (l_bids l) ->
  (forall y, zget B j = Some y -> b_liq y = true) ->
  InvB cfg (zset L i l') B S nl nb.
Proof.
  intros (Hnl & Hnb & Hwl & Hwb & HSI) Hg Hk Ha Hb Hj. assert (Hi := Hwl i l Hg).
  split; [exact Hnl|]. split; [exact Hnb|]. split; [|split].
  - intros i' x. rewrite zget_zset. destruct (Z.eqb_spec i i'); [intros _; lia|apply Hwl].
  - intros j' y Hy. destruct (Hwb j' y Hy) as (Hr & Hex). split; [exact Hr|]. intros Hq0. destruct (Hex Hq0) as (l0 & Hl0 & Hin).
    rewrite zget_zset. destruct (Z.eqb_spec i (b_lend y)) as [Heq|].
    + exists l'. split; [reflexivity|]. rewrite Hb. rewrite <- Heq, Hg in Hl0. injection Hl0 as ->.
      apply In_remove_sorted_other; [exact Hin|]. intros ->. rewrite (Hj y Hy) in Hq0. discriminate.
    + exists l0. split; assumption.
  - intros k x Hget. destruct (HSI _ _ Hget) as (A1 & A2 & A3 & A4 & A5). unfold stat_ok.
    rewrite (lend_sum_upd L B _ _ _ i l l' Hg Hk) by lia.
    rewrite (lids_upd L _ _ i l l' Hg Hk). destruct (peqb (lkey l) k); repeat split; congruence || lia.
Qed.

Section Close.
  Variable cfg : config.

  Lemma auc_bid_good st bid d st' : Good cfg st -> auc_bid st bid d = Ok st' -> Good cfg st' /\ prices st' = prices st.
  Proof. intros HG H. unfold auc_bid in H. destr_all H. injection H as <-. split; [exact HG|reflexivity]. Qed.

  Lemma fund_mod_good st user poolid asset denom amt st' :
    Good cfg st -> fund_mod cfg st user poolid asset denom amt = Ok st' -> Good cfg st' /\ prices st' = prices st.
  Proof. intros HG H. unfold fund_mod in H. destr_all H. injection H as <-. split; [exact HG|reflexivity]. Qed.

  Lemma fund_reserve_good st user asset denom amt st' :
    Good cfg st -> fund_reserve cfg st user asset denom amt = Ok st' -> Good cfg st' /\ prices st' = prices st.
  Proof. intros HG H. unfold fund_reserve in H. destr_all H. injection H as <-. split; [exact HG|reflexivity]. Qed.

  Lemma repay_withdraw_good st user bid e ipb st' :
    Good cfg st -> repay_withdraw cfg st user bid e ipb = Ok st' -> Good cfg st' /\ prices st' = prices st.
  Proof.
    intros HG H. unfold repay_withdraw in H.
    destruct (close_borrow cfg st user bid e) as [st1|c|] eqn:E1; cbn [obind] in H; try discriminate.
    destruct (close_borrow_good cfg _ _ _ _ _ HG E1) as (HG1 & HP1). destr_all H.
    destruct (withdraw_good cfg _ _ _ _ _ _ _ HG1 H) as (HG2 & HP2). split; [exact HG2|congruence].
  Qed.

  (* the stats after the close: TotalInterestAccumulated may have moved, the id is gone from the borrow ids of
     the position's pool-asset *)
  Lemma close_stats_spec (S S0 : list ((Z * Z) * stats)) k tomint j :
    (if tomint >? 0 then match pget S k with None => Panic | Some s0 => Ok (pset S k (set_s_tia s0 (s_tia s0 + tomint))) end
     else Ok S) = Ok S0 ->
    forall k' s', pget (match pget S0 k with
                        | Some s1 => pset S0 k (set_s_bids s1 (remove_sorted j (s_bids s1)))
                        | None => S0 end) k' = Some s' ->
    exists s, pget S k' = Some s /\ s_lend s' = s_lend s /\ s_bor s' = s_bor s /\ s_sbor s' = s_sbor s /\ s_lids s' = s_lids s /\
              s_bids s' = if peqb k k' then remove_sorted j (s_bids s) else s_bids s.
  Proof.
    intros H0 k' s' H.
    assert (HS0 : forall k1, pget S0 k1 = pget S k1 \/
                   exists s0, pget S k = Some s0 /\ pget S0 k1 = if peqb k k1 then Some (set_s_tia s0 (s_tia s0 + tomint)) else pget S k1).
    { intros k1. destruct (tomint >? 0).
      - destruct (pget S k) as [s0|] eqn:E; [|discriminate]. injection H0 as <-. right. exists s0. split; [reflexivity|apply pget_pset].
      - injection H0 as <-. left. reflexivity. }
    destruct (pget S0 k) as [s1|] eqn:E1.
    - rewrite pget_pset in H. destruct (peqb k k') eqn:Ek.
      + apply peqb_eq in Ek. subst k'. injection H as <-.
        destruct (HS0 k) as [HA|(s0 & Hs0 & HA)]; rewrite E1 in HA.
        * exists s1. rewrite <- HA. repeat split.
        * rewrite peqb_refl in HA. injection HA as ->. exists s0. repeat split; assumption.
      + destruct (HS0 k') as [HA|(s0 & Hs0 & HA)].
        * rewrite HA in H. exists s'. repeat split; assumption.
        * rewrite Ek in HA. rewrite HA in H. exists s'. repeat split; assumption.
    - destruct (HS0 k') as [HA|(s0 & Hs0 & HA)].
      + rewrite HA in H. exists s'. destruct (peqb k k') eqn:Ek.
        * apply peqb_eq in Ek. subst k'. rewrite H in HA. rewrite E1 in HA. discriminate.
        * repeat split; assumption.
      + destruct (HS0 k) as [HB|(s0' & _ & HB)]; [rewrite E1 in HB; rewrite Hs0 in HB; discriminate|].
        rewrite peqb_refl, E1 in HB. discriminate.
  Qed.

  (* the close keeps the invariants whatever the environment supplies *)
  Lemma auc_close_good st bid target owner back st' :
    Good cfg st -> auc_close cfg st bid target owner back = Ok st' -> Good cfg st' /\ prices st' = prices st.
  Proof.
    intros HG H. pose proof HG as (HI & HS). unfold Inv in HI. unfold auc_close in H.
    destruct (zget (borrows st) bid) as [b|] eqn:Eb; [|discriminate].
    destruct (b_liq b) eqn:Eq; cbn [negb orb] in H; [|discriminate].
    destruct (existsb (Z.eqb bid) (v1 st)) eqn:Ev1; [discriminate|].
    destruct (zget (c_pairs cfg) (b_pair b)) as [pr|] eqn:Ep; [|discriminate].
    destruct (zget (c_pools cfg) (pr_out_pool pr)) as [pout|] eqn:Epo; [|discriminate].
    cbv zeta in H.
    destruct (send (bnk st) AUCTION owner (pr_in pr) back) as [b0| |]; cbn [obind] in H; try discriminate.
    destruct (credit b0 (p_mod pout) (pr_out pr) target) as [b1| |]; cbn [obind] in H; try discriminate.
    destruct (close_penalty cfg pr b) as [pen| |]; cbn [obind] in H; try discriminate.
    destruct (send b1 (p_mod pout) RESERVE (pr_out pr) pen) as [b2| |]; cbn [obind] in H; try discriminate.
    match type of H with obind ?x _ = _ => destruct x as [b3| |]; cbn [obind] in H; try discriminate end.
    match type of H with obind ?x _ = _ => destruct x as [b4| |]; cbn [obind] in H; try discriminate end.
    match type of H with obind ?x _ = _ => destruct x as [S0| |] eqn:ES0; cbn [obind] in H; try discriminate end.
    match type of H with obind ?x _ = _ => destruct x as [b5| |]; cbn [obind] in H; try discriminate end.
    injection H as <-. unfold Good, GoodB. cbn [lends borrows sstats lctr bctr prices with_bank with_books].
    split; [|reflexivity].
    pose proof (close_stats_spec _ _ _ _ bid ES0) as HSt.
    assert (Hok : forall k', okey cfg b k' = peqb (pr_out_pool pr, pr_out pr) k').
    { intros k'. unfold okey. rewrite (bkey_of cfg b pr Ep). reflexivity. }
    assert (HI1 : InvB cfg (lends st) (zdel (borrows st) bid)
                       (match pget S0 (pr_out_pool pr, pr_out pr) with
                        | Some s1 => pset S0 (pr_out_pool pr, pr_out pr) (set_s_bids s1 (remove_sorted bid (s_bids s1)))
                        | None => S0 end) (lctr st) (bctr st)).
    { apply (T_delliq cfg _ _ _ _ _ bid b _ HI Eb Eq). intros k' s' Hk'. destruct (HSt k' s' Hk') as (s & A & B1 & B2 & B3 & B4 & B5).
      exists s. rewrite Hok. repeat split; assumption. }
    assert (HS1 : Side cfg (lends st) (zdel (borrows st) bid)) by (apply S_bor_del; exact HS).
    destruct (zget (lends st) (b_lend b)) as [l|] eqn:El.
    - split.
      + eapply (T_lbids cfg _ _ _ _ _ (b_lend b) l _ bid HI1 El); try reflexivity.
        intros y. rewrite zget_zdel, Z.eqb_refl. discriminate.
      + eapply S_lend_upd; [exact HS1|exact El|reflexivity].
    - split; assumption.
  Qed.

  (* after a successful close the position is gone: from the records, from the published ids of its pool-asset
     and from the user mapping of the lend position it hung on *)
  Lemma auc_close_gone st bid target owner back st' :
    auc_close cfg st bid target owner back = Ok st' ->
    zget (borrows st') bid = None /\
    (forall l', zget (lends st') (match zget (borrows st) bid with Some b => b_lend b | None => 0 end) = Some l' ->
                exists l, zget (lends st) (match zget (borrows st) bid with Some b => b_lend b | None => 0 end) = Some l /\
                          l_bids l' = remove_sorted bid (l_bids l) /\ l_avail l' = l_avail l /\ l_in l' = l_in l).
  Proof.
    intros H. unfold auc_close in H.
    destruct (zget (borrows st) bid) as [b|] eqn:Eb; [|discriminate].
    destruct (b_liq b) eqn:Eq; cbn [negb orb] in H; [|discriminate].
    destruct (existsb (Z.eqb bid) (v1 st)) eqn:Ev1; [discriminate|].
    destruct (zget (c_pairs cfg) (b_pair b)) as [pr|] eqn:Ep; [|discriminate].
    destruct (zget (c_pools cfg) (pr_out_pool pr)) as [pout|] eqn:Epo; [|discriminate].
    cbv zeta in H.
    repeat match type of H with obind ?x _ = _ => destruct x; cbn [obind] in H; try discriminate end.
    injection H as <-. cbn [lends borrows with_bank with_books]. split.
    - rewrite zget_zdel, Z.eqb_refl. reflexivity.
    - intros l'. destruct (zget (lends st) (b_lend b)) as [l|] eqn:El.
      + rewrite zget_zset_same. intros E. injection E as <-. exists l. repeat split.
      + rewrite El. discriminate.
  Qed.

  (* market bids that do not close and the two funding messages move coins only: every record of the books stays *)
  Definition coins_only (o : op) : bool :=
    match o with OAucBid _ _ | OFundMod _ _ _ _ _ | OFundReserve _ _ _ _ => true | _ => false end.
  Lemma coins_only_books st o st' : coins_only o = true -> step cfg st o = Ok st' ->
    lends st' = lends st /\ borrows st' = borrows st /\ sstats st' = sstats st /\ lctr st' = lctr st /\ bctr st' = bctr st /\
    prices st' = prices st.
  Proof.
    intros Ho H. destruct o; try discriminate Ho; cbn [step] in H.
    - unfold auc_bid in H. destr_all H. injection H as <-. repeat split.
    - destruct (_ || _); [discriminate|]. unfold fund_mod in H. destr_all H. injection H as <-. repeat split.
    - destruct (_ || _); [discriminate|]. unfold fund_reserve in H. destr_all H. injection H as <-. repeat split.
  Qed.

  (* finding C10-F7 seen from the lend books: a cross-pool position whose lend record the hand-over deleted can
     never be closed - every closing bid panics, whatever the auction supplies *)
  Lemma auc_close_stuck st bid b target owner back :
    zget (borrows st) bid = Some b -> b_liq b = true -> 0 < b_brd b -> zget (lends st) (b_lend b) = None ->
    forall st', auc_close cfg st bid target owner back <> Ok st'.
  Proof.
    intros Eb Eq Hbrd El st' H. unfold auc_close in H. rewrite Eb, Eq in H. cbn [negb orb] in H.
    destruct (existsb (Z.eqb bid) (v1 st)) eqn:Ev1; [discriminate|].
    destruct (zget (c_pairs cfg) (b_pair b)) as [pr|] eqn:Ep; [|discriminate].
    destruct (zget (c_pools cfg) (pr_out_pool pr)) as [pout|] eqn:Epo; [|discriminate].
    cbv zeta in H. rewrite El in H.
    assert (Hb : (b_brd b >? 0) = true) by lia. rewrite Hb in H.
    repeat match type of H with obind ?x _ = _ => destruct x; cbn [obind] in H; try discriminate end.
  Qed.
End Close.
