(* Proofs about Model/Liquidity.v, part 3: custody (C04) - farming queue arithmetic. *)
From Comdex Require Import Lib.Base Lib.DecArith Lib.DecFacts Model.Liquidity.
From Coq Require Import ZifyBool Lia.

Definition qsum (q : list (Z * Z)) : Z := zsum (map fst q).

(* the LIFO consumption loop of Unfarm (rewards.go:427-441): what leaves the queue plus what is left
   over for the active farmer is exactly the requested amount; nothing goes negative *)
Lemma unfarm_queue_law rq : forall amt, 0 <= amt -> Forall (fun c => 0 <= fst c) rq ->
  let r := unfarm_queue rq amt in
  qsum (fst r) + (amt - snd r) = qsum rq /\ 0 <= snd r <= amt /\ Forall (fun c => 0 <= fst c) (fst r) /\
  (snd r > 0 -> qsum (fst r) = 0).
Proof.
  induction rq as [|[a t] r IH]; intros amt Ha Hq; cbn [unfarm_queue].
  - cbn. repeat split; try lia. constructor.
  - inversion Hq as [|? ? Hq1 Hq2]; subst. cbn [fst] in Hq1.
    destruct (a >=? amt) eqn:E.
    + cbn [fst snd qsum map zsum]. unfold qsum in *. repeat split; try lia. constructor; [cbn; lia|assumption].
    + specialize (IH (amt - a) ltac:(lia) Hq2). destruct (unfarm_queue r (amt - a)) as [r' lft].
      cbn [fst snd] in *. unfold qsum in *. cbn [map zsum fst]. destruct IH as (I1 & I2 & I3 & I4).
      repeat split; try lia. constructor; [cbn; lia|assumption].
Qed.

