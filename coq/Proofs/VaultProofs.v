(* Facts about Model/Vault.v used by all three properties: the keyed record lists, the bisection
   of DeleteAddressFromAppExtendedPairVaultMapping, and the *effect* of every message handler
   (which single record it touches, how the published product totals move with it, how custody
   and supply move with it), obtained by symbolic execution of the handler once. *)
From Comdex Require Import Lib.Base Lib.DecArith Lib.DecFacts Lib.Atomic Model.Vault.
From Coq Require Import ZifyBool Sorted.

(* ---------- sums ---------- *)
Lemma zsum_app l1 l2 : zsum (l1 ++ l2) = zsum l1 + zsum l2.
Proof. induction l1 as [|x l1 IH]; cbn [zsum app]; lia. Qed.

Lemma wsum_app {A} (w : A -> Z) l1 l2 : wsum w (l1 ++ l2) = wsum w l1 + wsum w l2.
Proof. unfold wsum. rewrite map_app, zsum_app. reflexivity. Qed.

Lemma wsum_cons {A} (w : A -> Z) x l : wsum w (x :: l) = w x + wsum w l.
Proof. reflexivity. Qed.

Lemma wsum_nil {A} (w : A -> Z) : wsum w [] = 0.
Proof. reflexivity. Qed.

Lemma wsum_filter_nil {A} (P : A -> bool) (f : A -> Z) l :
  filter P l = [] -> wsum (fun v => if P v then f v else 0) l = 0.
Proof.
  induction l as [|x l IH]; cbn [filter]; intros H; [reflexivity|].
  rewrite wsum_cons. destruct (P x); [discriminate|]. rewrite IH by assumption. lia.
Qed.

(* ---------- keyed record lists ---------- *)
Section KVFacts.
  Context {A : Type} (key : A -> Z).

  Lemma gfind_some l id v : gfind key l id = Some v -> In v l /\ key v = id.
  Proof.
    induction l as [|w l IH]; cbn [gfind]; [discriminate|].
    destruct (Z.eqb_spec (key w) id) as [E|E]; intros H.
    - injection H as <-. split; [left; reflexivity|exact E].
    - destruct (IH H). split; [right|]; assumption.
  Qed.

  Lemma gfind_none l id : gfind key l id = None -> forall v, In v l -> key v <> id.
  Proof.
    induction l as [|w l IH]; cbn [gfind]; intros H v Hin; [destruct Hin|].
    destruct (Z.eqb_spec (key w) id) as [E|E]; [discriminate|].
    destruct Hin as [<-|Hin]; [exact E|apply IH; assumption].
  Qed.

  Lemma gfind_notin l id : ~ In id (map key l) -> gfind key l id = None.
  Proof.
    induction l as [|w l IH]; cbn [gfind map]; intros H; [reflexivity|].
    destruct (Z.eqb_spec (key w) id) as [E|E]; [exfalso; apply H; left; exact E|].
    apply IH. intros Hin; apply H; right; exact Hin.
  Qed.

  Lemma gput_found_wsum (w : A -> Z) l v v0 :
    gfind key l (key v) = Some v0 -> wsum w (gput key l v) = wsum w l - w v0 + w v.
  Proof.
    induction l as [|x l IH]; cbn [gfind gput]; [discriminate|].
    destruct (Z.eqb_spec (key x) (key v)) as [E|E]; intros H.
    - injection H as <-. rewrite !wsum_cons. lia.
    - rewrite !wsum_cons, IH by assumption. lia.
  Qed.

  Lemma gput_new l v : gfind key l (key v) = None -> gput key l v = l ++ [v].
  Proof.
    induction l as [|x l IH]; cbn [gfind gput app]; [reflexivity|].
    destruct (Z.eqb_spec (key x) (key v)) as [E|E]; [discriminate|]. intros H. rewrite IH by assumption. reflexivity.
  Qed.

  Lemma gput_found_keys l v v0 : gfind key l (key v) = Some v0 -> map key (gput key l v) = map key l.
  Proof.
    induction l as [|x l IH]; cbn [gfind gput]; [discriminate|].
    destruct (Z.eqb_spec (key x) (key v)) as [E|E]; intros H; cbn [map].
    - rewrite E. reflexivity.
    - rewrite IH by assumption. reflexivity.
  Qed.

  Lemma gput_found_filter (P : A -> bool) l v v0 :
    gfind key l (key v) = Some v0 -> P v = P v0 ->
    map key (filter P (gput key l v)) = map key (filter P l).
  Proof.
    induction l as [|x l IH]; cbn [gfind gput]; [discriminate|].
    destruct (Z.eqb_spec (key x) (key v)) as [E|E]; intros H HP; cbn [filter].
    - injection H as <-. rewrite HP. destruct (P x); cbn [map]; [rewrite E|]; reflexivity.
    - destruct (P x); cbn [map]; rewrite IH by assumption; reflexivity.
  Qed.

  Lemma gput_in l v x : In x (gput key l v) -> x = v \/ In x l.
  Proof.
    induction l as [|y l IH]; cbn [gput]; intros H.
    - destruct H as [<-|[]]. left; reflexivity.
    - destruct (key y =? key v).
      + destruct H as [<-|H]; [left; reflexivity|right; right; exact H].
      + destruct H as [<-|H]; [right; left; reflexivity|]. destruct (IH H); [left|right; right]; assumption.
  Qed.

  Lemma gfind_gput_same l v : gfind key (gput key l v) (key v) = Some v.
  Proof.
    induction l as [|y l IH]; cbn [gput gfind].
    - rewrite Z.eqb_refl. reflexivity.
    - destruct (Z.eqb_spec (key y) (key v)) as [E|E]; cbn [gfind].
      + rewrite Z.eqb_refl. reflexivity.
      + destruct (Z.eqb_spec (key y) (key v)); [contradiction|]. exact IH.
  Qed.

  Lemma gput_gput l v1 v2 : key v1 = key v2 -> gput key (gput key l v1) v2 = gput key l v2.
  Proof.
    intros E. induction l as [|y l IH]; cbn [gput].
    - destruct (Z.eqb_spec (key v1) (key v2)); [reflexivity|contradiction].
    - destruct (Z.eqb_spec (key y) (key v1)) as [E1|E1]; destruct (Z.eqb_spec (key y) (key v2)) as [E2|E2]; try lia; cbn [gput].
      + destruct (Z.eqb_spec (key v1) (key v2)); [reflexivity|contradiction].
      + destruct (Z.eqb_spec (key y) (key v2)); [contradiction|]. rewrite IH. reflexivity.
  Qed.

  Lemma gdel_wsum (w : A -> Z) l id v0 : gfind key l id = Some v0 -> wsum w (gdel key l id) = wsum w l - w v0.
  Proof.
    induction l as [|x l IH]; cbn [gfind gdel]; [discriminate|].
    destruct (Z.eqb_spec (key x) id) as [E|E]; intros H.
    - injection H as <-. rewrite wsum_cons. lia.
    - rewrite !wsum_cons, IH by assumption. lia.
  Qed.

  Lemma gdel_len l id v0 : gfind key l id = Some v0 -> zlen l = zlen (gdel key l id) + 1.
  Proof.
    unfold zlen. induction l as [|x l IH]; cbn [gfind gdel]; [discriminate|].
    destruct (Z.eqb_spec (key x) id) as [E|E]; intros H; cbn [length]; [lia|].
    specialize (IH H). lia.
  Qed.

  Lemma gdel_in l id x : In x (gdel key l id) -> In x l.
  Proof.
    induction l as [|y l IH]; cbn [gdel]; [tauto|].
    destruct (key y =? id); intros H; [right; exact H|].
    destruct H as [<-|H]; [left; reflexivity|right; apply IH; exact H].
  Qed.

  Lemma gdel_filter_out (P : A -> bool) l id v0 :
    gfind key l id = Some v0 -> P v0 = false -> filter P (gdel key l id) = filter P l.
  Proof.
    induction l as [|x l IH]; cbn [gfind gdel]; [discriminate|].
    destruct (Z.eqb_spec (key x) id) as [E|E]; intros H HP; cbn [filter].
    - injection H as <-. rewrite HP. reflexivity.
    - rewrite IH by assumption. reflexivity.
  Qed.

  Lemma filter_ne_notin (l : list Z) id : ~ In id l -> filter (fun k => negb (k =? id)) l = l.
  Proof.
    induction l as [|x l IH]; cbn [filter]; intros H; [reflexivity|].
    destruct (Z.eqb_spec x id) as [E|E]; [exfalso; apply H; left; exact E|]. cbn [negb].
    rewrite IH; [reflexivity|]. intros Hin; apply H; right; exact Hin.
  Qed.

  Lemma gdel_filter_in (P : A -> bool) l id v0 :
    NoDup (map key l) -> gfind key l id = Some v0 ->
    map key (filter P (gdel key l id)) = filter (fun k => negb (k =? id)) (map key (filter P l)).
  Proof.
    induction l as [|x l IH]; cbn [gfind gdel map]; [discriminate|].
    intros Hnd H. inversion Hnd as [|? ? Hx Hnd']; subst.
    destruct (Z.eqb_spec (key x) id) as [E|E]; cbn [filter].
    - (* x is removed; id does not occur in the rest *)
      assert (Hni : ~ In id (map key (filter P l))).
      { intros Hin. apply Hx. rewrite E. apply in_map_iff in Hin. destruct Hin as (y & Hy & Hyin).
        apply filter_In in Hyin. apply in_map_iff. exists y. tauto. }
      destruct (P x); cbn [map filter].
      + destruct (Z.eqb_spec (key x) id); [|contradiction]. cbn [negb]. rewrite filter_ne_notin by exact Hni. reflexivity.
      + rewrite filter_ne_notin by exact Hni. reflexivity.
    - destruct (P x); cbn [map filter].
      + destruct (Z.eqb_spec (key x) id); [contradiction|]. cbn [negb]. rewrite IH by assumption. reflexivity.
      + apply IH; assumption.
  Qed.

  Lemma gdel_sorted l id : StronglySorted Z.lt (map key l) -> StronglySorted Z.lt (map key (gdel key l id)).
  Proof.
    induction l as [|x l IH]; cbn [gdel map]; intros H; [constructor|].
    inversion H as [|? ? Hs Hf]; subst.
    destruct (key x =? id); [exact Hs|]. cbn [map]. constructor; [apply IH; exact Hs|].
    rewrite Forall_forall in *. intros k Hk. apply Hf. apply in_map_iff in Hk. destruct Hk as (y & <- & Hy).
    apply in_map. apply gdel_in in Hy. exact Hy.
  Qed.
End KVFacts.

Lemma sorted_nodup l : StronglySorted Z.lt l -> NoDup l.
Proof.
  induction 1 as [|x l Hs IH Hf]; constructor; [|exact IH].
  intros Hin. rewrite Forall_forall in Hf. specialize (Hf x Hin). lia.
Qed.

Lemma sorted_snoc l x : StronglySorted Z.lt l -> Forall (fun k => k < x) l -> StronglySorted Z.lt (l ++ [x]).
Proof.
  induction 1 as [|y l Hs IH Hf]; intros Hb; cbn [app].
  - constructor; constructor.
  - inversion Hb; subst. constructor; [apply IH; assumption|].
    apply Forall_app. split; [exact Hf|]. constructor; [assumption|constructor].
Qed.

Lemma sorted_filter_map {A} (key : A -> Z) (P : A -> bool) l :
  StronglySorted Z.lt (map key l) -> StronglySorted Z.lt (map key (filter P l)).
Proof.
  induction l as [|x l IH]; cbn [map filter]; intros H; [constructor|].
  inversion H as [|? ? Hs Hf]; subst. destruct (P x); [|apply IH; exact Hs].
  cbn [map]. constructor; [apply IH; exact Hs|].
  rewrite Forall_forall in *. intros k Hk. apply Hf. apply in_map_iff in Hk. destruct Hk as (y & <- & Hy).
  apply in_map. apply filter_In in Hy. tauto.
Qed.

Lemma sorted_ascending l : StronglySorted Z.lt l -> ascending l = true.
Proof.
  induction 1 as [|x l Hs IH Hf]; [reflexivity|].
  destruct l as [|y r]; [reflexivity|]. cbn [ascending] in *. rewrite IH.
  inversion Hf; subst. destruct (Z.ltb_spec x y); [reflexivity|lia].
Qed.

Lemma list_eqb_refl l : list_eqb l l = true.
Proof. induction l as [|x l IH]; cbn [list_eqb]; [reflexivity|]. rewrite Z.eqb_refl, IH. reflexivity. Qed.

(* ---------- sort.Search on an ascending slice ---------- *)
(* the lower bound: how many elements are below v *)
Fixpoint lb (l : list Z) (v : Z) : nat :=
  match l with [] => O | x :: r => if x <? v then S (lb r v) else O end.

Lemma lb_le_len l v : (lb l v <= length l)%nat.
Proof. induction l as [|x l IH]; cbn [lb length]; [lia|]. destruct (x <? v); lia. Qed.

Lemma lb_nth l v : StronglySorted Z.lt l -> forall h x, nth_z l h = Some x ->
  (x >= v -> (lb l v <= h)%nat) /\ (x < v -> (h < lb l v)%nat).
Proof.
  induction 1 as [|y l Hs IH Hf]; intros h x Hn; [destruct h; discriminate|].
  cbn [lb]. destruct h as [|h]; cbn [nth_z] in Hn.
  - injection Hn as <-. destruct (Z.ltb_spec y v); split; intros; lia.
  - destruct (IH h x Hn) as [I1 I2].
    assert (Hyx : y < x).
    { rewrite Forall_forall in Hf. apply Hf. clear -Hn. revert h Hn. induction l as [|z l IHl]; intros h Hn; [destruct h; discriminate|].
      destruct h; cbn [nth_z] in Hn; [injection Hn as <-; left; reflexivity|right; eapply IHl; exact Hn]. }
    destruct (Z.ltb_spec y v); split; intros Hc; try lia;
      try (specialize (I1 ltac:(lia)); lia); try (specialize (I2 ltac:(lia)); lia).
Qed.

Lemma nth_z_lt {A} (l : list A) h : (h < length l)%nat -> exists x, nth_z l h = Some x.
Proof.
  revert h; induction l as [|y l IH]; intros h Hh; cbn [length] in Hh; [lia|].
  destruct h; cbn [nth_z]; [eexists; reflexivity|apply IH; lia].
Qed.

Lemma bsearch_lb l v : StronglySorted Z.lt l -> forall fuel i j,
  0 <= i -> i <= Z.of_nat (lb l v) <= j -> j <= zlen l -> (Z.to_nat (j - i) < fuel)%nat ->
  bsearch fuel l v i j = Z.of_nat (lb l v).
Proof.
  intros Hs. induction fuel as [|f IH]; intros i j Hi Hb Hj Hf; [lia|].
  cbn [bsearch]. destruct (Z.ltb_spec i j) as [Hlt|Hge]; [|lia].
  assert (Hh : i <= (i + j) / 2 < j).
  { pose proof (Z.div_mod (i + j) 2 ltac:(lia)). pose proof (Z.mod_pos_bound (i + j) 2 ltac:(lia)). lia. }
  destruct (nth_z_lt l (Z.to_nat ((i + j) / 2)) ltac:(unfold zlen in Hj; lia)) as (x & Hx).
  rewrite Hx. destruct (lb_nth l v Hs _ x Hx) as [L1 L2].
  destruct (Z.geb_spec x v) as [Hxv|Hxv].
  - apply IH; lia.
  - apply IH; lia.
Qed.

Lemma lb_all_ge l v : Forall (fun k => v <= k) l -> lb l v = O.
Proof. destruct 1 as [|x l Hx]; cbn [lb]; [reflexivity|]. destruct (Z.ltb_spec x v); [lia|reflexivity]. Qed.

Lemma del_id_sorted l v : StronglySorted Z.lt l -> del_id l v = filter (fun k => negb (k =? v)) l.
Proof.
  intros Hs. unfold del_id.
  rewrite (bsearch_lb l v Hs) by (pose proof (lb_le_len l v); unfold zlen; lia).
  rewrite Nat2Z.id. unfold zlen.
  induction Hs as [|y l Hs IH Hf]; [reflexivity|].
  cbn [lb]. destruct (Z.ltb_spec y v) as [Hyv|Hyv].
  - (* y < v stays; recurse *)
    cbn [length nth_z firstn skipn filter app]. destruct (Z.eqb_spec y v); [lia|]. cbn [negb].
    rewrite <- IH.
    replace (Z.of_nat (S (lb l v)) <? Z.of_nat (S (length l))) with (Z.of_nat (lb l v) <? Z.of_nat (length l))
      by (destruct (Z.ltb_spec (Z.of_nat (lb l v)) (Z.of_nat (length l))); destruct (Z.ltb_spec (Z.of_nat (S (lb l v))) (Z.of_nat (S (length l)))); lia).
    destruct ((Z.of_nat (lb l v) <? Z.of_nat (length l)) && _); reflexivity.
  - (* v <= y: the bound is 0; every later element is above v *)
    assert (Hni : ~ In v l) by (intros Hin; rewrite Forall_forall in Hf; specialize (Hf v Hin); lia).
    cbn [length nth_z firstn skipn app filter]. rewrite (filter_ne_notin l v Hni).
    replace (Z.of_nat 0 <? Z.of_nat (S (length l))) with true by (symmetry; apply Z.ltb_lt; lia). cbn [andb].
    destruct (Z.eqb_spec y v); reflexivity.
Qed.

(* ---------- projections of the per-product record ---------- *)
Definition pfound (s : state) a p := match prods s a p with Some _ => true | None => false end.
Definition pcoll (s : state) a p := match prods s a p with Some x => p_coll x | None => 0 end.
Definition pmint (s : state) a p := match prods s a p with Some x => p_mint x | None => 0 end.
Definition pids (s : state) a p := match prods s a p with Some x => p_ids x | None => [] end.

(* ---------- the configuration: what x/asset accepts for an extended pair ---------- *)
(* WasmAddExtendedPairsVaultRecords (x/asset/keeper/pairs_vault.go:154-164) rejects a draw-down fee
   outside [0,1) and a closing fee outside [0,1); extended pair ids are unique keys; a pair's two assets differ (AddPairsRecords) *)
Definition ep_ok (e : epair) : Prop := 0 <= ep_ddf e < P18 /\ ep_in e <> ep_out e /\ 0 <= ep_closing e.
Definition cfg_ok (c : cfg) : Prop :=
  NoDup (map ep_id (epairs c)) /\ forall e, In e (epairs c) -> ep_ok e.

(* ---------- the single record an operation touches ---------- *)
Inductive bchange :=
| BNone
| BUpd (v0 v1 : vault)      (* the vault v0 is rewritten as v1 (same id, owner, app, pair) *)
| BNew (nv : vault)         (* a vault is created *)
| BDel (v0 : vault)         (* a vault is deleted *)
| SUpd (x0 x1 : svault)     (* a stable-mint vault is rewritten *)
| SNew (nx : svault).       (* a stable-mint vault is created *)

Definition bc_app bc := match bc with BNone => 0 | BUpd v _ | BNew v | BDel v => v_app v | SUpd x _ | SNew x => sv_app x end.
Definition bc_pair bc := match bc with BNone => 0 | BUpd v _ | BNew v | BDel v => v_pair v | SUpd x _ | SNew x => sv_pair x end.
Definition touched bc (a p : Z) : bool :=
  match bc with BNone => false | _ => (a =? bc_app bc) && (p =? bc_pair bc) end.
Definition creates bc : bool := match bc with BNew _ | SNew _ => true | _ => false end.
Definition bc_din bc := match bc with
  | BNone => 0 | BUpd v0 v1 => v_in v1 - v_in v0 | BNew v => v_in v | BDel v => - v_in v
  | SUpd x0 x1 => sv_in x1 - sv_in x0 | SNew x => sv_in x end.
Definition bc_dout bc := match bc with
  | BNone => 0 | BUpd v0 v1 => v_out v1 - v_out v0 | BNew v => v_out v | BDel v => - v_out v
  | SUpd x0 x1 => sv_out x1 - sv_out x0 | SNew x => sv_out x end.
Definition bc_vaults bc (l : list vault) := match bc with
  | BUpd _ v1 => put_v l v1 | BNew v => put_v l v | BDel v0 => del_v l (v_id v0) | _ => l end.
Definition bc_svaults bc (l : list svault) := match bc with
  | SUpd _ x1 => put_sv l x1 | SNew x => put_sv l x | _ => l end.
Definition bc_ids bc (ids : list Z) := match bc with
  | BNew v => ids ++ [v_id v] | SNew x => ids ++ [sv_id x] | BDel v0 => del_id ids (v_id v0) | _ => ids end.

(* amounts of a vault record are never negative *)
Definition wfv (v : vault) : Prop := 0 <= v_in v /\ 0 <= v_out v /\ 0 <= v_int v /\ 0 <= v_fee v.
Definition VWf (s : state) : Prop := forall v, In v (vaults s) -> wfv v.
Definition bc_wf bc : Prop := match bc with BUpd _ v1 => wfv v1 | BNew v => wfv v | _ => True end.

(* what the record [bc] has to satisfy before the operation *)
Definition bc_pre (c : cfg) (s : state) bc : Prop :=
  match bc with
  | BNone => True
  | BUpd v0 v1 => find_v (vaults s) (v_id v0) = Some v0 /\ v_id v1 = v_id v0 /\ v_app v1 = v_app v0 /\ v_pair v1 = v_pair v0
  | BNew v => v_id v = vid s + 1 /\ exists ep, get_ep c (v_pair v) = Some ep /\ ep_stable ep = false
  | BDel v0 => find_v (vaults s) (v_id v0) = Some v0
  | SUpd x0 x1 => find_sv (svaults s) (sv_id x0) = Some x0 /\ sv_id x1 = sv_id x0 /\ sv_app x1 = sv_app x0 /\ sv_pair x1 = sv_pair x0
  | SNew x => sv_id x = sid s + 1 /\ exists ep, get_ep c (sv_pair x) = Some ep /\ ep_stable ep = true
  end.

(* the effect of a successful message of sender [from]: books, environment, and the complete
   ledger: collateral moves between the sender and custody exactly as the touched record's
   AmountIn, the sender's debt-denom balance moves as the record's AmountOut less [fee], the
   collector receives [fee], supply moves as the record's AmountOut *)
Record effect (c : cfg) (s s' : state) (from : Z) (bc : bchange) (fee : Z) : Prop := mkEffect {
  ef_pre : bc_pre c s bc;
  ef_wf : bc_wf bc;
  ef_vaults : vaults s' = bc_vaults bc (vaults s);
  ef_svaults : svaults s' = bc_svaults bc (svaults s);
  ef_vlen : vlen s' = match bc with BNew _ => vlen s + 1
                                 | BDel _ => if vlen s =? 0 then two64 - 1 else vlen s - 1
                                 | _ => vlen s end;
  ef_vid : vid s' = match bc with BNew v => v_id v | _ => vid s end;
  ef_sid : sid s' = match bc with SNew x => sv_id x | _ => sid s end;
  ef_found : forall a p, pfound s' a p = pfound s a p || (touched bc a p && creates bc);
  ef_coll : forall a p, pcoll s' a p = pcoll s a p + (if touched bc a p then bc_din bc else 0);
  ef_mint : forall a p, pmint s' a p = pmint s a p + (if touched bc a p then bc_dout bc else 0);
  ef_ids : forall a p, pids s' a p = if touched bc a p then bc_ids bc (pids s a p) else pids s a p;
  ef_fee : 0 <= fee;
  ef_bal : forall a x, bal s' a x = bal s a x
             + xfer from VAULT (denom_in c (bc_pair bc)) (bc_din bc) a x
             + at2 from (denom_out c (bc_pair bc)) (bc_dout bc - fee) a x
             + at2 COLL (denom_out c (bc_pair bc)) fee a x;
  ef_sup : forall d, sup s' d = sup s d + at1 (denom_out c (bc_pair bc)) (bc_dout bc) d;
  ef_unsol : unsol s' = unsol s;
  ef_env : now s' = now s /\ price s' = price s /\ esm s' = esm s /\ snap s' = snap s /\ brk s' = brk s;
  (* the owner -> vault lookup: written when a vault is created (MsgCreate) and cleared when it is closed *)
  ef_umap : umap s' = match bc with
                      | BNew v => upd3 (umap s) from (v_app v) (v_pair v) (Some (v_id v))
                      | BDel v => upd3 (umap s) from (v_app v) (v_pair v) None
                      | _ => umap s end
}.

(* ---------- projections of a product map, and how the updaters move them ---------- *)
Definition ffound (f : Z -> Z -> option prod) a p := match f a p with Some _ => true | None => false end.
Definition fcoll (f : Z -> Z -> option prod) a p := match f a p with Some x => p_coll x | None => 0 end.
Definition fmint (f : Z -> Z -> option prod) a p := match f a p with Some x => p_mint x | None => 0 end.
Definition fids (f : Z -> Z -> option prod) a p := match f a p with Some x => p_ids x | None => [] end.

Lemma pfound_f s a p : pfound s a p = ffound (prods s) a p. Proof. reflexivity. Qed.
Lemma pcoll_f s a p : pcoll s a p = fcoll (prods s) a p. Proof. reflexivity. Qed.
Lemma pmint_f s a p : pmint s a p = fmint (prods s) a p. Proof. reflexivity. Qed.
Lemma pids_f s a p : pids s a p = fids (prods s) a p. Proof. reflexivity. Qed.

Lemma upd2_same {A} (f : Z -> Z -> A) a p v : upd2 f a p v a p = v.
Proof. unfold upd2. rewrite !Z.eqb_refl. reflexivity. Qed.

Lemma ffound_upd2 f a0 p0 x a p : ffound (upd2 f a0 p0 (Some x)) a p = ((a =? a0) && (p =? p0)) || ffound f a p.
Proof. unfold ffound, upd2. destruct ((a =? a0) && (p =? p0)); reflexivity. Qed.
Lemma fcoll_upd2 f a0 p0 x a p : fcoll (upd2 f a0 p0 (Some x)) a p = if (a =? a0) && (p =? p0) then p_coll x else fcoll f a p.
Proof. unfold fcoll, upd2. destruct ((a =? a0) && (p =? p0)); reflexivity. Qed.
Lemma fmint_upd2 f a0 p0 x a p : fmint (upd2 f a0 p0 (Some x)) a p = if (a =? a0) && (p =? p0) then p_mint x else fmint f a p.
Proof. unfold fmint, upd2. destruct ((a =? a0) && (p =? p0)); reflexivity. Qed.
Lemma fids_upd2 f a0 p0 x a p : fids (upd2 f a0 p0 (Some x)) a p = if (a =? a0) && (p =? p0) then p_ids x else fids f a p.
Proof. unfold fids, upd2. destruct ((a =? a0) && (p =? p0)); reflexivity. Qed.

Lemma upd_coll_some s a p amt add pr : prods s a p = Some pr ->
  upd_coll s a p amt add = set_prods s (upd2 (prods s) a p (Some (mkP (if add then p_coll pr + amt else p_coll pr - amt) (p_mint pr) (p_ids pr)))).
Proof. intros H. unfold upd_coll. rewrite H. reflexivity. Qed.
Lemma upd_mint_some s a p amt add pr : prods s a p = Some pr ->
  upd_mint s a p amt add = set_prods s (upd2 (prods s) a p (Some (mkP (p_coll pr) (if add then p_mint pr + amt else p_mint pr - amt) (p_ids pr)))).
Proof. intros H. unfold upd_mint. rewrite H. reflexivity. Qed.
Lemma prod_del_id_some s a p id pr : prods s a p = Some pr ->
  prod_del_id s a p id = set_prods s (upd2 (prods s) a p (Some (mkP (p_coll pr) (p_mint pr) (del_id (p_ids pr) id)))).
Proof. intros H. unfold prod_del_id. rewrite H. reflexivity. Qed.
Lemma ensure_prod_some s a p pr : prods s a p = Some pr -> ensure_prod s a p = s.
Proof. intros H. unfold ensure_prod. rewrite H. reflexivity. Qed.
Lemma ensure_prod_none s a p : prods s a p = None -> ensure_prod s a p = set_prods s (upd2 (prods s) a p (Some prod0)).
Proof. intros H. unfold ensure_prod. rewrite H. reflexivity. Qed.

Lemma find_put_same l v id : v_id v = id -> find_v (put_v l v) id = Some v.
Proof. intros <-. apply gfind_gput_same. Qed.
Lemma put_put l v1 v2 : v_id v1 = v_id v2 -> put_v (put_v l v1) v2 = put_v l v2.
Proof. apply gput_gput. Qed.
Lemma find_v_id l id v : find_v l id = Some v -> v_id v = id.
Proof. intros H. apply (gfind_some v_id) in H. tauto. Qed.
Lemma find_sv_id l id v : find_sv l id = Some v -> sv_id v = id.
Proof. intros H. apply (gfind_some sv_id) in H. tauto. Qed.
Lemma get_ep_id c id ep : get_ep c id = Some ep -> ep_id ep = id.
Proof. unfold get_ep. intros H. apply find_some in H. destruct H as [_ H]. apply Z.eqb_eq in H. exact H. Qed.

Lemma accrue_inv s id ie s1 v0 : accrue s id ie = Ok s1 -> find_v (vaults s) id = Some v0 ->
  0 <= ie /\ s1 = set_vaults s (put_v (vaults s) (with_int v0 (v_int v0 + ie))).
Proof.
  unfold accrue. intros H Hf. rewrite Hf in H.
  destruct (Z.eqb_spec ie (-2)); [discriminate|]. destruct (Z.ltb_spec ie 0); [discriminate|].
  injection H as <-. split; [lia|reflexivity].
Qed.

(* the products of the open records exist (a consequence of the C01 invariant) *)
Definition ProdsExist (s : state) : Prop :=
  (forall v, In v (vaults s) -> pfound s (v_app v) (v_pair v) = true) /\
  (forall x, In x (svaults s) -> pfound s (sv_app x) (sv_pair x) = true).

(* ---------- a rejected message changes nothing (baseapp's cache context) ---------- *)
Lemma step_ok c s o s' : run c s o = Ok s' -> step c s o = s'.
Proof. intros H. unfold step, apply, uow. rewrite H. reflexivity. Qed.

Lemma step_rejected c s o : is_ok (run c s o) = false -> step c s o = s.
Proof. unfold step, apply, uow. destruct (run c s o); [discriminate|reflexivity|reflexivity]. Qed.

Lemma step_cases c s o : (exists s', run c s o = Ok s' /\ step c s o = s') \/ (is_ok (run c s o) = false /\ step c s o = s).
Proof.
  destruct (run c s o) as [s'| |] eqn:E.
  - left. exists s'. split; [reflexivity|apply step_ok; exact E].
  - right. split; [reflexivity|apply step_rejected; rewrite E; reflexivity].
  - right. split; [reflexivity|apply step_rejected; rewrite E; reflexivity].
Qed.
