(* C10, bid clauses of the generation-2 Dutch auction: amounts of one bid, totals over any history. *)
From Comdex Require Import Lib.Base Lib.DecArith Lib.DecFacts Model.DutchV2 Proofs.DutchProofsPrice.
From Coq Require Import ZifyBool.

(* ---------- outcome monad inversion ---------- *)
Lemma obind_ok {A B} (m : outcome A) (f : A -> outcome B) v :
  obind m f = Ok v -> exists x, m = Ok x /\ f x = Ok v.
Proof. destruct m; cbn; try discriminate. intros H. eauto. Qed.

Lemma opanic_ok {A} (x : option A) v : opanic x = Ok v -> x = Some v.
Proof. destruct x; cbn; congruence. Qed.

Lemma oerr_ok {A} c (x : option A) v : oerr c x = Ok v -> x = Some v.
Proof. destruct x; cbn; congruence. Qed.

(* ---------- conv ---------- *)
Lemma conv_c_some d1 r1 a d2 r2 v : conv_c d1 r1 a d2 r2 = Some v ->
  v = conv d1 r1 a d2 r2 /\ d1 <> 0 /\ r2 <> 0.
Proof.
  unfold conv_c, conv. destruct (Z.eqb_spec d1 0); [discriminate|]. destruct (Z.eqb_spec r2 0); [discriminate|].
  cbn [orb]. destruct (_ && _); [|discriminate]. intros [= <-]. auto.
Qed.

Lemma conv_eq d1 r1 a d2 r2 :
  conv d1 r1 a d2 r2 = dtrunc_int (dquo (dquo (a * r1) (dec_of_int d1)) r2 * d2).
Proof. unfold conv. rewrite dmul_int_exact, dmul_int_exact_r. reflexivity. Qed.

Lemma conv_nonneg d1 r1 a d2 r2 : 0 < d1 -> 0 <= r1 -> 0 <= a -> 0 <= d2 -> 0 < r2 ->
  0 <= conv d1 r1 a d2 r2.
Proof.
  intros. rewrite conv_eq. dec_consts.
  assert (0 <= dquo (a * r1) (dec_of_int d1)) by (apply dquo_nonneg; [nia | unfold dec_of_int; nia]).
  assert (0 <= dquo (dquo (a * r1) (dec_of_int d1)) r2) by (apply dquo_nonneg; lia).
  apply dtrunc_int_bounds. nia.
Qed.

Lemma dquo_zero b : dquo 0 b = 0.
Proof.
  unfold dquo. rewrite Z.mul_0_l. change (Z.quot 0 b) with 0. change 0 with (0 * P18) at 1. apply chop_round_exact.
Qed.

Lemma conv_zero d1 r1 d2 r2 : conv d1 r1 0 d2 r2 = 0.
Proof.
  rewrite conv_eq. rewrite Z.mul_0_l. reflexivity.
Qed.

(* ---------- one bid: the amounts ---------- *)
Definition dp_of (lk : locked) (twa : Z) : Z :=
  if l_cmst lk then dec_of_int 1000000 else dec_of_int (wrap64 twa).

Lemma dp_nonneg lk twa : 0 <= twa < 9223372036854775808 -> 0 <= dp_of lk twa.
Proof.
  intros. unfold dp_of, wrap64, dec_of_int. dec_consts.
  destruct (l_cmst lk); [lia|]. destruct (Z.ltb_spec twa 9223372036854775808); nia.
Qed.

Record good_auction (cf : acfg) (lk : locked) (a : auction) : Prop := {
  ga_debt : 0 <= a_debt a;
  ga_coll : 0 <= a_coll a;
  ga_bonus : a_bonus a = l_bonus lk;
  ga_price : 0 <= a_price a;
  ga_init : 0 <= a_init a;
  ga_end : a_end a = a_start a + c_dur cf
}.

Record good_cfg (cf : acfg) (lk : locked) : Prop := {
  gc_dd : 0 < c_dd cf;
  gc_dc : 0 < c_dc cf;
  gc_prem : 0 <= c_premium cf;
  gc_disc : 0 <= c_disc cf <= P18;
  gc_dur : 0 <= c_dur cf;
  gc_bonus : 0 <= l_bonus lk
}.

(* everything the property needs to know about a successful bid, ledger aside *)
Lemma place_bid_amounts_gen auto cf lk a s who amt0 wd twa s' a' r :
  good_cfg cf lk -> good_auction cf lk a -> 0 <= twa < 9223372036854775808 ->
  place_bid_gen auto cf lk a s who amt0 wd twa = Ok (s', a', r) ->
  0 <= r_paid r <= a_debt a /\ 0 <= r_recv r <= a_coll a /\
  match a' with
  | Some b => r_closed r = false /\ 0 < r_paid r /\
              a_debt b = a_debt a - r_paid r /\ 0 < a_debt b /\ a_coll b = a_coll a - r_recv r /\
              a_bonus b = a_bonus a /\ a_price b = a_price a /\ a_init b = a_init a /\
              a_start b = a_start a /\ a_end b = a_end a /\
              r_recv r = conv (c_dd cf) (dp_of lk twa) (r_paid r) (c_dc cf) (a_price a)
  | None => r_closed r = true /\
            (r_exh r = false -> r_paid r = a_debt a /\
               r_recv r = conv (c_dd cf) (dp_of lk twa) (a_debt a) (c_dc cf) (a_price a) + r_bonus r) /\
            (r_exh r = true -> r_recv r = a_coll a /\
               r_paid r = conv (c_dc cf) (a_price a) (a_coll a - r_bonus r) (c_dd cf) (dp_of lk twa) /\
               r_topup r = a_debt a - r_paid r /\ 0 <= r_topup r) /\
            r_bonus r = conv (c_dd cf) (dp_of lk twa) (a_bonus a) (c_dc cf) (a_price a)
  end.
Proof.
  intros GC GA Htwa H. destruct GC, GA. pose proof (dp_nonneg lk twa Htwa) as Hdp.
  unfold place_bid_gen in H. fold (dp_of lk twa) in H.
  destruct (Z.leb_spec amt0 0); [discriminate|]. destruct wd; [discriminate|].
  set (full := amt0 >=? a_debt a) in *. set (amt := if full then a_debt a else amt0) in *.
  apply obind_ok in H as (q & Hq & H). apply opanic_ok, conv_c_some in Hq as (Hq & _ & Hpr).
  apply obind_ok in H as (qb & Hqb & H). apply opanic_ok, conv_c_some in Hqb as (Hqb & _ & _).
  assert (Hprice : 0 < a_price a) by lia.
  assert (Hqb0 : 0 <= qb) by (rewrite Hqb; apply conv_nonneg; lia).
  assert (Hamt : 0 <= amt <= a_debt a /\ (full = false -> amt = amt0 /\ 0 < amt < a_debt a) /\ (full = true -> amt = a_debt a))
    by (unfold amt, full; destruct (Z.geb_spec amt0 (a_debt a)); lia).
  destruct Hamt as (Hamt & Hnf & Hf).
  assert (Hq0 : 0 <= q) by (rewrite Hq; apply conv_nonneg; lia).
  set (exh := negb (q + qb <=? a_coll a)) in *.
  destruct (full || exh) eqn:Hbr.
  - (* closing *)
    apply obind_ok in H as ([[[amt1 tot1] s1] topup] & Hx & H).
    apply obind_ok in H as (L2 & _ & H). apply obind_ok in H as (L3 & _ & H).
    apply obind_ok in H as (L4 & _ & H). apply obind_ok in H as (L5 & _ & H).
    destruct ((tot1 <? 0) || (amt1 <? 0)) eqn:Hneg; [discriminate|].
    apply obind_ok in H as ([[L6 xf] nf] & _ & H). injection H as <- <- <-. cbn.
    destruct exh eqn:Hexh.
    + apply obind_ok in Hx as (dal & Hdal & Hx). apply opanic_ok, conv_c_some in Hdal as (Hdal & _ & _).
      destruct (Z.ltb_spec dal 0); [discriminate|]. destruct (Z.ltb_spec (a_debt a - dal) 0); [discriminate|].
      destruct (rsv s) as [rv|]; [|discriminate].
      destruct (Z.ltb_spec (rv - (a_debt a - dal)) 0); [discriminate|].
      apply obind_ok in Hx as (L1 & _ & Hx). injection Hx as <- <- <- <-.
      repeat split; try lia; try congruence.
    + injection Hx as <- <- <- <-. unfold exh in Hexh.
      destruct (Z.leb_spec (q + qb) (a_coll a)); [|discriminate].
      assert (Hft : full = true) by (destruct full; [reflexivity|discriminate]).
      pose proof (Hf Hft) as Ha. rewrite Ha in Hq.
      repeat split; try lia; try congruence.
  - (* partial *)
    destruct full eqn:Hfull; [discriminate|]. cbn [orb] in Hbr. unfold exh in Hbr.
    destruct (Z.leb_spec (q + qb) (a_coll a)); [|discriminate].
    destruct (Hnf eq_refl) as (-> & Hlt).
    apply obind_ok in H as (q' & Hq' & H). apply opanic_ok, conv_c_some in Hq' as (Hq' & _ & _).
    apply obind_ok in H as (usd & _ & H).
    destruct (negb (usd >? dec_of_int (c_minusd cf))); [discriminate|].
    apply obind_ok in H as (ratio & Hr & H). apply opanic_ok in Hr. unfold iquo_c in Hr.
    destruct (Z.eqb_spec (a_debt a) 0); [discriminate|]. injection Hr as <-.
    rewrite Z.quot_small in H by lia. rewrite Z.mul_0_r in H.
    destruct (Z.gtb_spec 0 (a_bonus a)); [lia|].
    apply obind_ok in H as (qb' & Hqb' & H). apply opanic_ok, conv_c_some in Hqb' as (Hqb' & _ & _).
    rewrite conv_zero in Hqb'. subst qb'.
    apply obind_ok in H as (L2 & _ & H). apply obind_ok in H as (L3 & _ & H).
    destruct ((q' + 0 <? 0) || (amt0 <? 0)) eqn:Hneg; [discriminate|].
    injection H as <- <- <-. cbn. rewrite Z.add_0_r. subst q'. rewrite <- Hq.
    repeat split; try lia.
Qed.

Lemma place_bid_amounts cf lk a s who amt0 wd twa s' a' r :
  good_cfg cf lk -> good_auction cf lk a -> 0 <= twa < 9223372036854775808 ->
  place_bid_core cf lk a s who amt0 wd twa = Ok (s', a', r) ->
  0 <= r_paid r <= a_debt a /\ 0 <= r_recv r <= a_coll a /\
  match a' with
  | Some b => r_closed r = false /\ 0 < r_paid r /\
              a_debt b = a_debt a - r_paid r /\ 0 < a_debt b /\ a_coll b = a_coll a - r_recv r /\
              a_bonus b = a_bonus a /\ a_price b = a_price a /\ a_init b = a_init a /\
              a_start b = a_start a /\ a_end b = a_end a /\
              r_recv r = conv (c_dd cf) (dp_of lk twa) (r_paid r) (c_dc cf) (a_price a)
  | None => r_closed r = true /\
            (r_exh r = false -> r_paid r = a_debt a /\
               r_recv r = conv (c_dd cf) (dp_of lk twa) (a_debt a) (c_dc cf) (a_price a) + r_bonus r) /\
            (r_exh r = true -> r_recv r = a_coll a /\
               r_paid r = conv (c_dc cf) (a_price a) (a_coll a - r_bonus r) (c_dd cf) (dp_of lk twa) /\
               r_topup r = a_debt a - r_paid r /\ 0 <= r_topup r) /\
            r_bonus r = conv (c_dd cf) (dp_of lk twa) (a_bonus a) (c_dc cf) (a_price a)
  end.
Proof. exact (place_bid_amounts_gen false cf lk a s who amt0 wd twa s' a' r). Qed.

(* a successful PlaceDutchAuctionBid is a successful core bid *)
Lemma place_bid_a_ok auto cf lk a s who amt0 wd dact twa x :
  place_bid_a auto cf lk a s who amt0 wd dact twa = Ok x ->
  dact = true /\ wd = false /\ 0 < amt0 /\ place_bid_gen auto cf lk a s who amt0 wd twa = Ok x.
Proof.
  unfold place_bid_a. destruct (Z.leb_spec amt0 0) as [|Hpos]; [discriminate|]. destruct wd; [discriminate|].
  destruct dact; cbn [negb]; [|discriminate]. intros E. repeat split; auto.
Qed.

(* ---------- block ticks keep the record well-formed ---------- *)
Lemma initial_price_nonneg prem tc ip : 0 <= prem -> 0 <= tc -> initial_price prem tc = Some ip -> 0 <= ip.
Proof.
  unfold initial_price, int64_c, dmul_c, chk_dec. intros Hp Ht.
  destruct (_ && _); [|discriminate]. destruct (fits_dec _); [|discriminate]. intros [= <-].
  dec_consts. apply dmul_nonneg; [lia | unfold dec_of_int; nia].
Qed.

Lemma posted_nonneg init disc dur t p :
  0 <= init -> 0 <= disc <= P18 -> 0 <= dur -> t <= dur ->
  posted_price init disc dur t = Some p -> 0 <= p.
Proof.
  intros Hi Hd Hdur Ht E. apply posted_some in E as (tau & Htau & Hn & ->).
  pose proof (tau_of_some _ _ _ _ Htau) as (Hden & _).
  assert (He : 0 <= end_price init disc <= init).
  { unfold end_price. split; [apply dmul_nonneg; lia|].
    rewrite <- (dmul_one init) at 2. apply dmul_mono_r; lia. }
  assert (Hlt : 0 <= end_price init disc < init) by lia.
  pose proof (tau_ge_dur _ _ _ _ Hlt Hdur Htau).
  apply price_at_nonneg; lia.
Qed.

Definition tick_in_ok (pc : option Z) : Prop := forall t, pc = Some t -> 0 <= t.

Lemma tick_good cf lk now pc pd a :
  good_cfg cf lk -> good_auction cf lk a -> tick_in_ok pc ->
  good_auction cf lk (tick cf lk now pc pd a).
Proof.
  intros GC GA Hpc. unfold tick. destruct (tick_raw cf lk now pc pd a) as [a'| |] eqn:E; try assumption.
  destruct GC, GA. unfold tick_raw in E. destruct (Z.gtb_spec now (a_end a)).
  - unfold restart in E. destruct pc as [tc|]; [|discriminate]. destruct pd; [|discriminate].
    destruct (initial_price _ _) as [ip|] eqn:Ei; [|discriminate]. injection E as <-.
    pose proof (initial_price_nonneg _ _ _ gc_prem0 (Hpc tc eq_refl) Ei).
    constructor; cbn; lia.
  - unfold update_price in E. destruct pc as [tc|]; [|discriminate]. destruct pd; [|discriminate].
    destruct (posted_price _ _ _ _) as [p|] eqn:Ep; [|discriminate]. injection E as <-.
    assert (Hel : now - a_start a <= c_dur cf) by lia.
    pose proof (posted_nonneg _ _ _ _ _ ga_init0 gc_disc0 gc_dur0 Hel Ep).
    constructor; cbn; lia.
Qed.

Lemma activate_good cf lk now pc pd a :
  good_cfg cf lk -> 0 <= l_target lk -> 0 <= l_coll lk -> tick_in_ok pc ->
  activate cf lk now pc pd = Ok a ->
  good_auction cf lk a /\ a_debt a = l_target lk /\ a_coll a = l_coll lk /\ a_price a = a_init a /\ a_start a = now.
Proof.
  intros GC Ht Hc Hpc E. destruct GC. unfold activate in E.
  destruct pc as [tc|]; [|discriminate]. destruct pd; [|discriminate].
  destruct (initial_price _ _) as [ip|] eqn:Ei; [|discriminate]. injection E as <-.
  pose proof (initial_price_nonneg _ _ _ gc_prem0 (Hpc tc eq_refl) Ei).
  split; [constructor; cbn; lia | cbn; auto].
Qed.

(* ---------- totals over any history of bids and ticks ---------- *)
Definition op_ok (o : op) : Prop :=
  match o with
  | Bid _ _ _ twa => 0 <= twa < 9223372036854775808
  | Tick _ pc _ => tick_in_ok pc
  | Deposit _ _ _ _ => True
  | Fill _ twa _ => 0 <= twa < 9223372036854775808
  end.

(* the totals of one auction: what the bidders paid (market bids: coins; fills: charged to limit bids) and
   received so far, the reserve transfers, and the record *)
Definition InvA (cf : acfg) (lk : locked) (p rc t : Z) (oa : option auction) : Prop :=
  0 <= p /\ 0 <= rc /\ 0 <= t /\
  match oa with
  | Some a => good_auction cf lk a /\ p + a_debt a = l_target lk /\ rc + a_coll a = l_coll lk /\ t = 0
  | None => p <= l_target lk /\ rc <= l_coll lk /\ p + t = l_target lk
  end.

Definition Inv (cf : acfg) (lk : locked) (f : life) : Prop := InvA cf lk (f_paid f) (f_recv f) (f_top f) (f_a f).

(* the reserve is only touched in the collateral-exhausted branch, and that branch closes *)
Lemma topup_zero_gen auto cf lk a s who amt wd twa s' a' r :
  place_bid_gen auto cf lk a s who amt wd twa = Ok (s', a', r) ->
  (r_exh r = false -> r_topup r = 0 /\ rsv s' = rsv s) /\ (forall b, a' = Some b -> r_exh r = false).
Proof.
  intros E. unfold place_bid_gen in E.
  destruct (amt <=? 0); [discriminate|]. destruct wd; [discriminate|].
  apply obind_ok in E as (q & _ & E). apply obind_ok in E as (qb & _ & E).
  destruct (_ || _).
  - apply obind_ok in E as ([[[? ?] ?] ?] & Hxx & E).
    apply obind_ok in E as (? & _ & E). apply obind_ok in E as (? & _ & E).
    apply obind_ok in E as (? & _ & E). apply obind_ok in E as (? & _ & E).
    destruct ((_ <? 0) || (_ <? 0)); [discriminate|]. apply obind_ok in E as ([[? ?] ?] & _ & E).
    injection E as <- <- <-. cbn. split; [|discriminate].
    intros Hx. rewrite Hx in Hxx. injection Hxx as _ _ <- <-. auto.
  - apply obind_ok in E as (? & _ & E). apply obind_ok in E as (? & _ & E).
    destruct (negb (_ >? dec_of_int _)); [discriminate|]. apply obind_ok in E as (? & _ & E).
    apply obind_ok in E as (? & _ & E). apply obind_ok in E as (? & _ & E). apply obind_ok in E as (? & _ & E).
    destruct ((_ <? 0) || (_ <? 0)); [discriminate|]. injection E as <- <- <-. cbn. auto.
Qed.

Lemma topup_zero cf lk a s who amt wd twa s' a' r :
  place_bid_core cf lk a s who amt wd twa = Ok (s', a', r) ->
  (r_exh r = false -> r_topup r = 0 /\ rsv s' = rsv s) /\ (forall b, a' = Some b -> r_exh r = false).
Proof. exact (topup_zero_gen false cf lk a s who amt wd twa s' a' r). Qed.

(* one successful bid, market or automatic, moves the totals by its amounts *)
Lemma bid_invA auto cf lk p rc t a s who amt wd twa s' a' r :
  good_cfg cf lk -> 0 <= twa < 9223372036854775808 -> InvA cf lk p rc t (Some a) ->
  place_bid_gen auto cf lk a s who amt wd twa = Ok (s', a', r) ->
  InvA cf lk (p + r_paid r) (rc + r_recv r) (t + r_topup r) a'.
Proof.
  intros GC Ho (Hp & Hr & Ht & GA & Hd & Hc & Ht0) E.
  pose proof (place_bid_amounts_gen _ _ _ _ _ _ _ _ _ _ _ _ GC GA Ho E) as (Hpaid & Hrecv & Hrest).
  pose proof (topup_zero_gen _ _ _ _ _ _ _ _ _ _ _ _ E) as (Hz & Hpart).
  unfold InvA. destruct a' as [b|].
  - destruct Hrest as (_ & _ & Hdb & Hdb0 & Hcb & Hbb & Hpb & Hib & Hsb & Heb & _).
    destruct (Hz (Hpart b eq_refl)) as (Hz1 & _). destruct GA.
    repeat split; lia.
  - destruct Hrest as (_ & Hne & He & _).
    destruct (r_exh r) eqn:Hx.
    + destruct (He eq_refl) as (_ & _ & Hsh & Htp). repeat split; lia.
    + destruct (Hne eq_refl) as (Hpd & _). destruct (Hz eq_refl) as (Hz1 & _). repeat split; lia.
Qed.

Lemma log_paid_cons e log : log_paid (e :: log) = r_paid (fb_res e) + log_paid log. Proof. reflexivity. Qed.
Lemma log_recv_cons e log : log_recv (e :: log) = r_recv (fb_res e) + log_recv log. Proof. reflexivity. Qed.
Lemma log_top_cons e log : log_top (e :: log) = r_topup (fb_res e) + log_top log. Proof. reflexivity. Qed.
Lemma log_charged_cons w e log :
  log_charged w (e :: log) = (if fb_who e =? w then r_paid (fb_res e) else 0) + log_charged w log.
Proof. reflexivity. Qed.

(* the loop of a fill: every limit bid is an automatic bid on the auction as the previous one left it *)
Lemma fill_loop_invA cf lk prem twa dact : 0 <= twa < 9223372036854775808 -> good_cfg cf lk ->
  forall order a s bk pool p rc t s' a' bk' pool' log,
  InvA cf lk p rc t (Some a) ->
  fill_loop cf lk prem order twa dact a s bk pool = Ok (s', a', bk', pool', log) ->
  InvA cf lk (p + log_paid log) (rc + log_recv log) (t + log_top log) a'.
Proof.
  intros Ho GC. induction order as [|w rest IH]; intros a s bk pool p rc t s' a' bk' pool' log HI E; cbn [fill_loop] in E.
  - injection E as <- <- <- <- <-. cbn. replace (p + 0) with p by lia. replace (rc + 0) with rc by lia.
    replace (t + 0) with t by lia. exact HI.
  - destruct (bk prem w <=? 0); [exact (IH _ _ _ _ _ _ _ _ _ _ _ _ HI E)|].
    apply obind_ok in E as ([[s1 a1] r] & E1 & E). apply place_bid_a_ok in E1 as (_ & _ & _ & E1).
    destruct (r_paid r >? bk prem w); [discriminate|].
    pose proof (bid_invA _ _ _ _ _ _ _ _ _ _ _ _ _ _ _ GC Ho HI E1) as HI1.
    destruct a1 as [b|].
    + apply obind_ok in E as ([[[[s2 a2] bk2] pool2] log2] & E2 & E). injection E as <- <- <- <- <-.
      pose proof (IH _ _ _ _ _ _ _ _ _ _ _ _ HI1 E2) as HI2.
      rewrite log_paid_cons, log_recv_cons, log_top_cons, !Z.add_assoc. exact HI2.
    + injection E as <- <- <- <- <-.
      rewrite log_paid_cons, log_recv_cons, log_top_cons, !Z.add_assoc. cbn [fb_res log_paid log_recv log_top fold_right].
      rewrite !Z.add_0_r. exact HI1.
Qed.

Lemma fill_closure_cases cf lk order twa dact a s bk pool x :
  fill_closure cf lk order twa dact a s bk pool = Ok x ->
  x = (s, Some a, bk, pool, []) \/
  exists prem, premium_of a = Ok (Some prem) /\ 0 <= prem /\ fill_loop cf lk prem order twa dact a s bk pool = Ok x.
Proof.
  unfold fill_closure. intros E. apply obind_ok in E as (op & Ep & E). destruct op as [prem|].
  - destruct (Z.ltb_spec prem 0); [discriminate|]. destruct (negb _).
    + injection E as <-. left. reflexivity.
    + right. exists prem. auto.
  - injection E as <-. left. reflexivity.
Qed.

Lemma fill_closure_invA cf lk order twa dact a s bk pool p rc t s' a' bk' pool' log :
  0 <= twa < 9223372036854775808 -> good_cfg cf lk -> InvA cf lk p rc t (Some a) ->
  fill_closure cf lk order twa dact a s bk pool = Ok (s', a', bk', pool', log) ->
  InvA cf lk (p + log_paid log) (rc + log_recv log) (t + log_top log) a'.
Proof.
  intros Ho GC HI E. apply fill_closure_cases in E as [E|(prem & _ & _ & E)].
  - injection E as -> -> -> -> ->. cbn. replace (p + 0) with p by lia. replace (rc + 0) with rc by lia.
    replace (t + 0) with t by lia. exact HI.
  - exact (fill_loop_invA cf lk prem twa dact Ho GC _ _ _ _ _ _ _ _ _ _ _ _ _ HI E).
Qed.

Lemma step_inv cf lk f o : good_cfg cf lk -> op_ok o -> Inv cf lk f -> Inv cf lk (step cf lk f o).
Proof.
  intros GC Ho HIf. unfold step.
  destruct o as [who amt wd twa | now pc pd | who prem amt wd | order twa dact].
  - destruct (f_a f) as [a|] eqn:Ea; [|exact HIf].
    destruct (place_bid_core cf lk a (f_s f) who amt wd twa) as [[[s' a'] r]| |] eqn:E; try exact HIf.
    unfold Inv in *. rewrite Ea in HIf. cbn. exact (bid_invA _ _ _ _ _ _ _ _ _ _ _ _ _ _ _ GC Ho HIf E).
  - destruct (f_a f) as [a|] eqn:Ea; [|exact HIf].
    unfold Inv in *. rewrite Ea in HIf. destruct HIf as (Hp & Hr & Ht & GA & Hd & Hc & Ht0). cbn.
    pose proof (tick_amounts cf lk now pc pd a) as (T1 & T2 & T3).
    pose proof (tick_good cf lk now pc pd a GC GA Ho) as GT.
    unfold InvA. split; [lia|]. split; [lia|]. split; [lia|]. split; [exact GT|]. lia.
  - destruct (deposit _ _ _ _ _ _ _) as [[[s' bk'] pool']| |]; exact HIf.
  - destruct (f_a f) as [a|] eqn:Ea; [|exact HIf].
    destruct (fill_closure cf lk order twa dact a (f_s f) (f_book f) (f_pool f)) as [[[[[s' a'] bk'] pool'] log]| |] eqn:E;
      try exact HIf.
    unfold Inv in *. rewrite Ea in HIf. cbn. exact (fill_closure_invA _ _ _ _ _ _ _ _ _ _ _ _ _ _ _ _ _ Ho GC HIf E).
Qed.

Lemma run_inv cf lk ops : good_cfg cf lk -> Forall op_ok ops -> forall f, Inv cf lk f -> Inv cf lk (run cf lk f ops).
Proof.
  intros GC H. induction H as [|o ops Ho _ IH]; intros f HI; [exact HI|].
  cbn. apply IH. apply step_inv; assumption.
Qed.

Lemma totals cf lk now pc pd a0 s bk pool ops :
  good_cfg cf lk -> 0 <= l_target lk -> 0 <= l_coll lk -> tick_in_ok pc ->
  activate cf lk now pc pd = Ok a0 -> Forall op_ok ops ->
  let f := run cf lk (mkLife s (Some a0) 0 0 0 bk pool) ops in
  0 <= f_paid f <= l_target lk /\ 0 <= f_recv f <= l_coll lk /\
  match f_a f with
  | Some a => f_paid f + a_debt a = l_target lk /\ f_recv f + a_coll a = l_coll lk /\ 0 <= a_debt a /\ 0 <= a_coll a /\
              f_top f = 0
  | None => f_paid f + f_top f = l_target lk /\ 0 <= f_top f
  end.
Proof.
  intros GC Ht Hc Hpc Ea Hops f.
  destruct (activate_good _ _ _ _ _ _ GC Ht Hc Hpc Ea) as (GA & Hd & Hcl & _).
  assert (HI : Inv cf lk (mkLife s (Some a0) 0 0 0 bk pool)) by (unfold Inv, InvA; cbn; split; [lia|]; split; [lia|]; split; [lia|]; split; [exact GA|]; lia).
  pose proof (run_inv cf lk ops GC Hops _ HI) as (Hp & Hr & Htp & HF). fold f in Hp, Hr, Htp, HF.
  destruct (f_a f) as [a|].
  - destruct HF as (GA' & H1 & H2 & H3). destruct GA'. repeat split; lia.
  - destruct HF as (H1 & H2 & H3). repeat split; lia.
Qed.
