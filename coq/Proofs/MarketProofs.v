(* Proofs about Model/Market.v: the window is a ring over the accepted positive samples,
   the pipeline never indexes outside the window for n >= 2, activation needs a full window,
   the published average is the integer mean of the last n samples (absent uint64 wrap). *)
From Comdex Require Import Lib.Base Model.Market.
From Coq Require Import ZifyBool.

(* ---------- list facts ---------- *)
Lemma zsum_app l1 l2 : zsum (l1 ++ l2) = zsum l1 + zsum l2.
Proof. induction l1 as [|x l1 IH]; cbn [zsum app]; lia. Qed.

Lemma zsum_rev l : zsum (rev l) = zsum l.
Proof. induction l as [|x l IH]; cbn [zsum rev]; [reflexivity|]. rewrite zsum_app; cbn [zsum]; lia. Qed.

Lemma zlen_app {A} (l1 l2 : list A) : zlen (l1 ++ l2) = zlen l1 + zlen l2.
Proof. unfold zlen; rewrite app_length; lia. Qed.

Lemma zlen_nonneg {A} (l : list A) : 0 <= zlen l.
Proof. unfold zlen; lia. Qed.

Lemma set_nth_spec {A} (l : list A) i v :
  (i < length l)%nat -> set_nth l i v = Some (firstn i l ++ v :: skipn (S i) l).
Proof.
  revert i; induction l as [|x l IH]; intros i Hi; cbn [length] in Hi; [lia|].
  destruct i as [|i]; cbn [set_nth firstn skipn app]; [reflexivity|].
  rewrite IH by lia. reflexivity.
Qed.

Lemma set_nth_none {A} (l : list A) i v : (length l <= i)%nat -> set_nth l i v = None.
Proof.
  revert i; induction l as [|x l IH]; intros i Hi; [destruct i; reflexivity|].
  cbn [length] in Hi. destruct i as [|i]; [lia|]. cbn [set_nth]. rewrite IH by lia. reflexivity.
Qed.

Lemma firstn_all' {A} (l : list A) n : (length l <= n)%nat -> firstn n l = l.
Proof. intros; apply firstn_all2; assumption. Qed.

(* all elements positive *)
Definition allpos (l : list Z) : Prop := Forall (fun x => 0 < x) l.

(* ---------- the ring invariant ---------- *)
(* [h] = accepted positive samples since the last reset, most recent first *)
Definition Ring (n : Z) (h : list Z) (tw : twa) : Prop :=
  (zlen h < n /\ vals tw = rev h /\ idx tw = zlen h /\ active tw = false)
  \/
  (zlen h >= n /\ zlen (vals tw) = n /\ 0 <= idx tw < n /\
   skipn (Z.to_nat (idx tw)) (vals tw) ++ firstn (Z.to_nat (idx tw)) (vals tw)
     = rev (firstn (Z.to_nat n) h)).

Definition Inv17 (n : Z) (g : ghost) (t : option twa) : Prop :=
  match t with
  | None => g_exists g = false
  | Some tw => g_exists g = true /\ disc tw = g_disc g /\ Ring n (g_hist g) tw
  end.

Lemma ring_sum n h tw :
  Ring n h tw -> zlen h >= n -> zsum (firstn (Z.to_nat n) (vals tw)) = zsum (firstn (Z.to_nat n) h).
Proof.
  intros [[Hlt _]|(Hge & Hlen & Hidx & Hrot)] Hn; [lia|].
  rewrite (firstn_all' (vals tw)) by (unfold zlen in Hlen; lia).
  rewrite <- (zsum_rev (firstn _ h)), <- Hrot, zsum_app.
  pose proof (firstn_skipn (Z.to_nat (idx tw)) (vals tw)) as Hfs.
  rewrite <- Hfs at 1. rewrite zsum_app. lia.
Qed.

Lemma firstn_S_snoc {A} (d : A) (l : list A) k :
  (S k <= length l)%nat -> firstn (S k) l = firstn k l ++ [nth k l d].
Proof.
  revert k; induction l as [|x l IH]; intros k Hk; cbn [length] in Hk; [lia|].
  destruct k as [|k]; [reflexivity|].
  change (firstn (S (S k)) (x :: l)) with (x :: firstn (S k) l).
  rewrite IH by lia. reflexivity.
Qed.

Lemma skipn_cons_nth {A} (d : A) (l : list A) i :
  (i < length l)%nat -> skipn i l = nth i l d :: skipn (S i) l.
Proof.
  revert i; induction l as [|x l IH]; intros i Hi; cbn [length] in Hi; [lia|].
  destruct i as [|i]; [reflexivity|]. cbn [skipn nth]. rewrite IH by lia. reflexivity.
Qed.

(* nat-level ring rotation: the heart of the refinement *)
Lemma ring_rotate_nat (vals h : list Z) (i k : nat) (r : Z) :
  length vals = S k -> (i < S k)%nat -> (S k <= length h)%nat ->
  skipn i vals ++ firstn i vals = rev (firstn (S k) h) ->
  let vs := firstn i vals ++ r :: skipn (S i) vals in
  let i' := if (S i <? S k)%nat then S i else O in
  length vs = S k /\
  skipn i' vs ++ firstn i' vs = rev (firstn (S k) (r :: h)).
Proof.
  intros Hlen Hi Hh Hrot vs i'.
  assert (Hlvs : length vs = S k).
  { unfold vs. rewrite app_length, firstn_length. cbn [length]. rewrite skipn_length. lia. }
  split; [exact Hlvs|].
  rewrite (skipn_cons_nth 0 vals i) in Hrot by lia.
  rewrite (firstn_S_snoc 0 h k) in Hrot by lia.
  rewrite rev_app_distr in Hrot.
  assert (Hsklen : length (skipn (S i) vals) = (k - i)%nat) by (rewrite skipn_length; lia).
  assert (Hfl : length (firstn i vals) = i) by (rewrite firstn_length; lia).
  remember (skipn (S i) vals) as sk eqn:Hsk.
  remember (firstn i vals) as fi eqn:Hfi.
  remember (rev (firstn k h)) as w eqn:Hw.
  cbn [rev app] in Hrot. injection Hrot as _ Hrot.
  change (firstn (S k) (r :: h)) with (r :: firstn k h). cbn [rev]. rewrite <- Hw, <- Hrot.
  unfold i'. destruct (Nat.ltb_spec (S i) (S k)) as [Hlt|Hge].
  - (* no wrap *)
    unfold vs.
    replace (skipn (S i) (fi ++ r :: sk)) with sk.
    2:{ rewrite skipn_app, Hfl. rewrite (skipn_all2 fi) by lia.
        replace (S i - i)%nat with 1%nat by lia. reflexivity. }
    replace (firstn (S i) (fi ++ r :: sk)) with (fi ++ [r]).
    2:{ rewrite firstn_app, Hfl. rewrite (firstn_all2 fi) by lia.
        replace (S i - i)%nat with 1%nat by lia. reflexivity. }
    rewrite app_assoc. reflexivity.
  - (* wrap: i = k, sk = [] *)
    assert (Hnil : sk = []) by (destruct sk; [reflexivity|cbn [length] in Hsklen; lia]).
    change (skipn 0 vs) with vs. change (firstn 0 vs) with (@nil Z). rewrite app_nil_r. unfold vs.
    rewrite Hnil. reflexivity.
Qed.

Lemma ring_replace n h tw r :
  1 <= n -> zlen h >= n -> zlen (vals tw) = n -> 0 <= idx tw < n ->
  skipn (Z.to_nat (idx tw)) (vals tw) ++ firstn (Z.to_nat (idx tw)) (vals tw)
     = rev (firstn (Z.to_nat n) h) ->
  exists vs, set_nth (vals tw) (Z.to_nat (idx tw)) r = Some vs /\ zlen vs = n /\
    0 <= wrap_idx (idx tw + 1) n < n /\
    skipn (Z.to_nat (wrap_idx (idx tw + 1) n)) vs ++ firstn (Z.to_nat (wrap_idx (idx tw + 1) n)) vs
      = rev (firstn (Z.to_nat n) (r :: h)).
Proof.
  intros Hn Hh Hlen Hidx Hrot.
  set (i := Z.to_nat (idx tw)) in *.
  assert (Hk : Z.to_nat n = S (Z.to_nat n - 1)) by lia.
  set (k := (Z.to_nat n - 1)%nat) in *.
  unfold zlen in Hlen, Hh.
  rewrite Hk in Hrot.
  destruct (ring_rotate_nat (vals tw) h i k r) as [Hl Hr]; try lia; [exact Hrot|].
  exists (firstn i (vals tw) ++ r :: skipn (S i) (vals tw)).
  split; [apply set_nth_spec; lia|].
  split; [unfold zlen; lia|].
  unfold wrap_idx.
  destruct (Z.geb_spec (idx tw + 1) n) as [Hge|Hlt].
  - split; [lia|].
    destruct (Nat.ltb_spec (S i) (S k)) as [Hc|Hc]; [lia|].
    rewrite Hk. exact Hr.
  - split; [lia|].
    destruct (Nat.ltb_spec (S i) (S k)) as [Hc|Hc]; [|lia].
    replace (Z.to_nat (idx tw + 1)) with (S i) by lia. rewrite Hk. exact Hr.
Qed.

Lemma calc_twa_full vs n : 1 <= n -> zlen vs = n ->
  calc_twa vs n = Some (zsum (firstn (Z.to_nat n) vs) / n).
Proof.
  intros Hn Hl. unfold calc_twa.
  destruct (Z.leb_spec n 0); [lia|]. destruct (Z.ltb_spec (zlen vs) n); [lia|]. reflexivity.
Qed.

Lemma ring_empty n a d : 1 <= n -> Ring n [] (mkTwa [] 0 a false d).
Proof. intros; left; cbn; unfold zlen; cbn; repeat split; lia. Qed.

(* the second half of UpdatePriceList on a positive sample *)
Lemma tail_inv n r tw h :
  1 <= n -> r > 0 -> Ring n h tw ->
  exists tw', update_tail n r (Some tw) = Ok (Some tw') /\ Ring n (r :: h) tw' /\
              disc tw' = disc tw /\
              (active tw' = true ->
               avg tw' = (zsum (firstn (Z.to_nat n) (r :: h))) / n).
Proof.
  intros Hn Hr HR. unfold update_tail.
  destruct (Z.gtb_spec r 0) as [_|]; [|lia].
  assert (Hfull : forall tw0, zlen (r :: h) >= n -> Ring n (r :: h) tw0 ->
             (zsum (firstn (Z.to_nat n) (vals tw0))) / n
             = (zsum (firstn (Z.to_nat n) (r :: h))) / n).
  { intros tw0 Hge HR0. rewrite (ring_sum n (r :: h) tw0 HR0 Hge). reflexivity. }
  destruct HR as [(Hlt & Hv & Hi & Ha)|(Hge & Hlen & Hidx & Hrot)].
  - (* window not yet full: append *)
    rewrite Ha.
    assert (Hzl : zlen (vals tw) = zlen h) by (rewrite Hv; unfold zlen; rewrite rev_length; reflexivity).
    destruct (Z.geb_spec (zlen (vals tw)) n) as [|_]; [lia|].
    assert (Hvs : vals tw ++ [r] = rev (r :: h)) by (rewrite Hv; reflexivity).
    assert (Hzr : zlen (r :: h) = zlen h + 1) by (unfold zlen; cbn [length]; lia).
    destruct (Z.geb_spec (idx tw + 1) n) as [Hfullnow|Hnot].
    + assert (Hln : zlen (vals tw ++ [r]) = n) by (rewrite zlen_app; unfold zlen at 2; cbn [length]; lia).
      rewrite (calc_twa_full _ n) by (lia || exact Hln).
      eexists; split; [reflexivity|].
      assert (HRn : Ring n (r :: h) (mkTwa (vals tw ++ [r]) 0
                       (zsum (firstn (Z.to_nat n) (vals tw ++ [r])) / n) true (disc tw))).
      { right. cbn [vals idx]. repeat split; try lia.
        change (Z.to_nat 0) with O. cbn [skipn firstn]. rewrite app_nil_r, Hvs.
        rewrite firstn_all2; [reflexivity|]. unfold zlen in *; lia. }
      split; [exact HRn|]. split; [reflexivity|]. intros _. cbn [avg].
      apply (Hfull _ ltac:(lia) HRn).
    + eexists; split; [reflexivity|]. split.
      * left. cbn [vals idx active]. repeat split; try lia. exact Hvs.
      * split; [reflexivity|]. cbn [active]. discriminate.
  - (* full window: replace the slot under the index, active or not *)
    destruct (ring_replace n h tw r ltac:(lia) Hge Hlen Hidx Hrot) as (vs & Hset & Hlvs & Hi' & Hrot').
    assert (HRn : forall a b, Ring n (r :: h) (mkTwa vs (wrap_idx (idx tw + 1) n) a b (disc tw))).
    { intros a b. right. cbn [vals idx]. repeat split; try lia; try exact Hrot'.
      unfold zlen in *; cbn [length]; lia. }
    assert (Hzr : zlen (r :: h) >= n) by (unfold zlen in *; cbn [length]; lia).
    destruct (active tw).
    + rewrite Hset, (calc_twa_full vs n) by (lia || exact Hlvs).
      eexists; split; [reflexivity|]. split; [apply HRn|]. split; [reflexivity|].
      intros _. cbn [avg]. apply (Hfull _ Hzr (HRn 0 true)).
    + destruct (Z.geb_spec (zlen (vals tw)) n) as [_|]; [|lia].
      rewrite Hset, (calc_twa_full vs n) by (lia || exact Hlvs).
      eexists; split; [reflexivity|]. split; [apply HRn|]. split; [reflexivity|].
      intros _. cbn [avg]. apply (Hfull _ Hzr (HRn 0 true)).
Qed.

(* the first sample of a fresh record *)
Lemma tail_none n r : 1 <= n -> r > 0 ->
  exists tw', update_tail n r None = Ok (Some tw') /\ Ring n [r] tw' /\ disc tw' = -1 /\
              (active tw' = true -> avg tw' = zsum (firstn (Z.to_nat n) [r]) / n).
Proof.
  intros Hn Hr. unfold update_tail. destruct (Z.gtb_spec r 0) as [_|]; [|lia].
  destruct (Z.geb_spec 1 n) as [H1|H1].
  - assert (n = 1) by lia. subst n.
    rewrite (calc_twa_full [r] 1) by (lia || reflexivity).
    eexists; split; [reflexivity|]. split.
    + right. cbn [vals idx]. unfold zlen; cbn [length]. repeat split; try lia.
    + split; [reflexivity|]. intros _. reflexivity.
  - eexists; split; [reflexivity|]. split.
    + left. cbn [vals idx active rev app]. unfold zlen; cbn [length]. repeat split; lia.
    + split; [reflexivity|]. cbn [active]. discriminate.
Qed.

Lemma tail_zero n r tw : r <= 0 -> update_tail n r (Some tw) = Ok (Some tw).
Proof. intros; unfold update_tail. destruct (Z.gtb_spec r 0); [lia|reflexivity]. Qed.

Lemma ring_deactivate n h tw d :
  Ring n h tw -> Ring n h (mkTwa (vals tw) (idx tw) (avg tw) false d).
Proof.
  intros [(H1 & H2 & H3 & H4)|(H1 & H2 & H3 & H4)]; [left|right]; cbn [vals idx active]; auto.
Qed.

Lemma ring_redisc n h tw d :
  Ring n h tw -> Ring n h (mkTwa (vals tw) (idx tw) (avg tw) (active tw) d).
Proof.
  intros [(H1 & H2 & H3 & H4)|(H1 & H2 & H3 & H4)]; [left|right]; cbn [vals idx active]; auto.
Qed.

(* one step of the per-asset pipeline preserves the invariant and does not panic *)
Theorem mstep_inv n gap g t o :
  1 <= n -> Inv17 n g t ->
  exists t', mstep n gap t o = Ok t' /\ Inv17 n (ghost_step gap g o) t'.
Proof.
  intros Hn HI. destruct o as [h r| |]; cbn [mstep ghost_step].
  - (* Sample *)
    destruct t as [tw|]; cbn [Inv17] in HI.
    + destruct HI as (He & Hd & HR). rewrite He. unfold update. rewrite <- Hd.
      destruct ((r <=? 0) && (disc tw <? 0)) eqn:E1.
      { eexists; split; [reflexivity|]. cbn [Inv17 g_exists g_disc g_hist disc]. repeat split.
        apply ring_deactivate; exact HR. }
      destruct ((r >? 0) && (disc tw >? 0)) eqn:E2.
      { assert (Hr : r > 0) by lia.
        destruct (Z.ltb_spec (h - disc tw) gap) as [Hg|Hg].
        - destruct (tail_inv n r (mkTwa (vals tw) (idx tw) (avg tw) (active tw) (-1)) (g_hist g) Hn ltac:(lia)
                      (ring_redisc _ _ _ _ HR)) as (tw' & Ht & HR' & Hd' & _).
          exists (Some tw'); split; [exact Ht|]. cbn [Inv17 g_exists g_disc g_hist]. repeat split; assumption.
        - destruct (tail_inv n r (mkTwa [] 0 (avg tw) false (-1)) [] Hn ltac:(lia) (ring_empty n _ _ ltac:(lia)))
            as (tw' & Ht & HR' & Hd' & _).
          exists (Some tw'); split; [exact Ht|]. cbn [Inv17 g_exists g_disc g_hist]. repeat split; assumption. }
      destruct (Z.gtb_spec r 0) as [Hr|Hr].
      * destruct (tail_inv n r tw (g_hist g) Hn ltac:(lia) HR) as (tw' & Ht & HR' & Hd' & _).
        exists (Some tw'); split; [exact Ht|]. cbn [Inv17 g_exists g_disc g_hist]. repeat split; try assumption;
        congruence.
      * rewrite tail_zero by lia. eexists; split; [reflexivity|]. cbn [Inv17]. repeat split; assumption.
    + rewrite HI. unfold update.
      destruct (Z.gtb_spec r 0) as [Hr|Hr].
      * destruct (tail_none n r Hn ltac:(lia)) as (tw' & Ht & HR' & Hd' & _).
        exists (Some tw'); split; [exact Ht|]. cbn [Inv17 g_exists g_disc g_hist]. repeat split; assumption.
      * unfold update_tail. destruct (Z.gtb_spec r 0); [lia|]. eexists; split; [reflexivity|]. exact HI.
  - (* DiscardReset *)
    destruct t as [tw|]; cbn [option_map Inv17] in *.
    + destruct HI as (He & Hd & HR). eexists; split; [reflexivity|].
      cbn [Inv17 g_exists g_disc g_hist discard_reset disc]. repeat split; try assumption.
      apply ring_empty; lia.
    + eexists; split; [reflexivity|]. exact HI.
  - (* Invalidate *)
    destruct t as [tw|]; cbn [option_map Inv17] in *.
    + destruct HI as (He & Hd & HR). eexists; split; [reflexivity|].
      cbn [Inv17 invalidate disc]. repeat split; try assumption. apply ring_deactivate; exact HR.
    + eexists; split; [reflexivity|]. exact HI.
Qed.

Definition ghost_run (gap : Z) (g : ghost) (ops : list mop) : ghost := fold_left (ghost_step gap) ops g.

(* every finite history: no panic, invariant at the end *)
Theorem mrun_inv n gap ops : forall g t,
  1 <= n -> Inv17 n g t ->
  exists t', mrun n gap t ops = Ok t' /\ Inv17 n (ghost_run gap g ops) t'.
Proof.
  induction ops as [|o ops IH]; intros g t Hn HI; cbn [mrun ghost_run fold_left].
  - exists t; split; [reflexivity|exact HI].
  - destruct (mstep_inv n gap g t o Hn HI) as (t1 & Hs & HI1). rewrite Hs. cbn [obind].
    apply IH; assumption.
Qed.

Lemma inv_init n : Inv17 n ghost0 None.
Proof. reflexivity. Qed.

(* activation needs a full window of positive samples since the last reset *)
Lemma inv_activation n g tw : Inv17 n g (Some tw) -> active tw = true -> zlen (g_hist g) >= n.
Proof.
  intros (_ & _ & [(H1 & H2 & H3 & H4)|(H1 & _)]) Ha; [congruence|exact H1].
Qed.

Lemma inv_index n g tw : 1 <= n -> Inv17 n g (Some tw) ->
  zlen (vals tw) <= n /\ 0 <= idx tw /\ (active tw = true -> zlen (vals tw) = n /\ idx tw < n).
Proof.
  intros Hn (_ & _ & [(H1 & H2 & H3 & H4)|(H1 & H2 & H3 & H4)]).
  - assert (zlen (vals tw) = zlen (g_hist g)) by (rewrite H2; unfold zlen; rewrite rev_length; reflexivity).
    pose proof (zlen_nonneg (g_hist g)). repeat split; try lia; congruence.
  - repeat split; lia.
Qed.

(* the ghost history holds positive samples only *)
Lemma ghost_pos gap g o : Forall (fun x => x > 0) (g_hist g) ->
  Forall (fun x => x > 0) (g_hist (ghost_step gap g o)).
Proof.
  intros H. destruct o as [h r| |]; cbn [ghost_step g_hist]; [|constructor|exact H].
  assert (Hc : r > 0 -> Forall (fun x => x > 0) (r :: g_hist g)) by (intros; constructor; auto).
  assert (Hc1 : r > 0 -> Forall (fun x => x > 0) [r]) by (intros; constructor; auto).
  destruct (g_exists g).
  - destruct ((r <=? 0) && (g_disc g <? 0)) eqn:E1; [exact H|].
    destruct ((r >? 0) && (g_disc g >? 0)) eqn:E2.
    + destruct (h - g_disc g <? gap); cbn [g_hist]; [apply Hc|apply Hc1]; lia.
    + destruct (Z.gtb_spec r 0); cbn [g_hist]; [apply Hc; lia|exact H].
  - destruct (Z.gtb_spec r 0); cbn [g_hist]; [apply Hc1; lia|exact H].
Qed.

(* the mean: a positive sample that leaves the record active publishes the integer mean of the
   last n accepted samples (modulo the uint64 wrap of the sum, which the code has) *)
Theorem sample_mean n gap g t h r t' tw' :
  1 <= n -> Inv17 n g t -> r > 0 ->
  mstep n gap t (Sample h r) = Ok t' -> t' = Some tw' -> active tw' = true ->
  avg tw' = (zsum (firstn (Z.to_nat n) (g_hist (ghost_step gap g (Sample h r))))) / n.
Proof.
  intros Hn HI Hr Hs -> Ha. cbn [mstep ghost_step] in *.
  destruct t as [tw|]; cbn [Inv17] in HI.
  - destruct HI as (He & Hd & HR). rewrite He. unfold update in Hs. rewrite <- Hd.
    destruct ((r <=? 0) && (disc tw <? 0)) eqn:E1; [lia|].
    destruct ((r >? 0) && (disc tw >? 0)) eqn:E2.
    + destruct (Z.ltb_spec (h - disc tw) gap) as [Hg|Hg].
      * destruct (tail_inv n r (mkTwa (vals tw) (idx tw) (avg tw) (active tw) (-1)) (g_hist g) Hn ltac:(lia)
                    (ring_redisc _ _ _ _ HR)) as (tw1 & Ht & _ & _ & Hav).
        rewrite Ht in Hs. injection Hs as <-. cbn [g_hist]. auto.
      * destruct (tail_inv n r (mkTwa [] 0 (avg tw) false (-1)) [] Hn ltac:(lia) (ring_empty n _ _ ltac:(lia)))
          as (tw1 & Ht & _ & _ & Hav).
        rewrite Ht in Hs. injection Hs as <-. cbn [g_hist]. auto.
    + destruct (Z.gtb_spec r 0) as [_|]; [|lia].
      destruct (tail_inv n r tw (g_hist g) Hn ltac:(lia) HR) as (tw1 & Ht & _ & _ & Hav).
      rewrite Ht in Hs. injection Hs as <-. cbn [g_hist]. auto.
  - rewrite HI. unfold update in Hs.
    destruct (tail_none n r Hn Hr) as (tw1 & Ht & _ & _ & Hav).
    rewrite Ht in Hs. injection Hs as <-. destruct (Z.gtb_spec r 0) as [_|]; [|lia]. cbn [g_hist]. auto.
Qed.

(* a zero sample deactivates; heights are positive on a real chain *)
Definition DiscOk (tw : twa) : Prop := disc tw < 0 \/ (0 < disc tw /\ active tw = false).

Lemma zero_deactivates n gap h tw :
  DiscOk tw -> exists tw', update n gap h 0 (Some tw) = Ok (Some tw') /\ active tw' = false /\
                           vals tw' = vals tw /\ idx tw' = idx tw.
Proof.
  intros HD. unfold update. cbn [Z.leb Z.gtb Z.compare andb].
  destruct (Z.ltb_spec (disc tw) 0) as [Hl|Hl].
  - eexists; split; [reflexivity|]. cbn; auto.
  - destruct HD as [|[_ Ha]]; [lia|]. rewrite tail_zero by lia.
    eexists; split; [reflexivity|]. auto.
Qed.

Lemma update_tail_disc n r t t' tw' :
  update_tail n r t = Ok t' -> t' = Some tw' ->
  match t with Some tw => disc tw' = disc tw | None => disc tw' = -1 end.
Proof.
  intros H ->. unfold update_tail in H. destruct t as [tw|].
  - destruct (r >? 0); [|injection H as <-; reflexivity].
    destruct (active tw).
    + destruct (set_nth _ _ _); [|discriminate]. destruct (calc_twa _ _); [|discriminate].
      injection H as <-; reflexivity.
    + destruct (zlen (vals tw) >=? n).
      * destruct (set_nth _ _ _); [|discriminate]. destruct (calc_twa _ _); [|discriminate].
        injection H as <-; reflexivity.
      * destruct (idx tw + 1 >=? n).
        -- destruct (calc_twa _ _); [|discriminate]. injection H as <-; reflexivity.
        -- injection H as <-; reflexivity.
  - destruct (r >? 0); [|discriminate].
    destruct (1 >=? n).
    + destruct (calc_twa _ _); [|discriminate]. injection H as <-; reflexivity.
    + injection H as <-; reflexivity.
Qed.

Lemma mstep_discok n gap t o t' :
  (match o with Sample h _ => 0 < h | _ => True end) ->
  (match t with Some tw => DiscOk tw | None => True end) ->
  mstep n gap t o = Ok t' ->
  match t' with Some tw => DiscOk tw | None => True end.
Proof.
  intros Hh HD Hs. destruct o as [h r| |]; cbn [mstep] in Hs.
  - destruct t' as [tw'|]; [|exact I].
    destruct t as [tw|]; unfold update in Hs.
    + destruct ((r <=? 0) && (disc tw <? 0)) eqn:E1.
      { injection Hs as <-. right. cbn. split; [lia|reflexivity]. }
      destruct ((r >? 0) && (disc tw >? 0)) eqn:E2.
      { destruct (h - disc tw <? gap);
          pose proof (update_tail_disc _ _ _ _ _ Hs eq_refl) as Hd; cbn [disc] in Hd; left; lia. }
      destruct (Z.gtb_spec r 0) as [Hr|Hr].
      * pose proof (update_tail_disc _ _ _ _ _ Hs eq_refl) as Hd. cbn in Hd.
        destruct HD as [Hl|[Hp _]]; [left; lia|lia].
      * rewrite tail_zero in Hs by lia. injection Hs as <-. exact HD.
    + pose proof (update_tail_disc _ _ _ _ _ Hs eq_refl) as Hd. cbn in Hd. left; lia.
  - injection Hs as <-. destruct t as [tw|]; cbn [option_map]; [|exact I].
    unfold DiscOk in *; cbn [discard_reset disc active]. destruct HD as [|[? _]]; [left|right]; auto.
  - injection Hs as <-. destruct t as [tw|]; cbn [option_map]; [|exact I].
    unfold DiscOk in *; cbn [invalidate disc active]. destruct HD as [|[? _]]; [left|right]; auto.
Qed.

Lemma ghost_run_pos gap ops : forall g, Forall (fun x => x > 0) (g_hist g) ->
  Forall (fun x => x > 0) (g_hist (ghost_run gap g ops)).
Proof.
  unfold ghost_run. induction ops as [|o ops IH]; intros g H0; cbn [fold_left]; [exact H0|].
  apply IH. apply ghost_pos. exact H0.
Qed.

Lemma zsum_firstn_nonneg l : Forall (fun x => x > 0) l -> forall k, 0 <= zsum (firstn k l).
Proof.
  induction 1 as [|x l Hx Hl IH]; intros k; destruct k; cbn [firstn zsum]; try lia.
  specialize (IH k). lia.
Qed.
