(* Proofs about Model/Liquidity.v: the custody clauses of C04 in every reachable state, in terms of the
   extracted predicates the runner evaluates on the implementation's observations. *)
From Comdex Require Import Lib.Base Lib.DecArith Lib.DecFacts Model.Liquidity Proofs.LiquidityProofs
  Proofs.LiquiditySweep Proofs.LiquidityProofs2 Proofs.LiquidityEffects Proofs.LiquidityLists Proofs.LiquidityEscrow
  Proofs.LiquidityReach Proofs.LiquidityCustody Proofs.LiquidityFarm Proofs.LiquidityPools Proofs.LiquiditySupply.
From Coq Require Import ZifyBool Lia.

Lemma fresh_finv s : Fresh s -> FInv s.
Proof.
  intros [H1 H2 H3 H4 H5 H6 H7 H8 H9 H10 H11 H12 H13 H14 H15 H16]. constructor; unfold queued, active; rewrite ?H9, ?H10.
  - intros d. rewrite H11, H16 by reflexivity. reflexivity.
  - intros d. rewrite H16. reflexivity.
  - constructor.
  - constructor.
  - intros q [].
Qed.
Lemma fresh_pinv s : Fresh s -> min_pc_ok (apps s) -> PInv s.
Proof.
  intros [H1 H2 H3 H4 H5 H6 H7 H8 H9 H10 H11 H12 H13 H14 H15 H16] Hm.
  constructor; unfold pending; rewrite ?H5, ?H6, ?H7, ?H8.
  - exact Hm.
  - intros d. rewrite H11, H15 by reflexivity. reflexivity.
  - intros d. rewrite H15. reflexivity.
  - constructor.
  - constructor.
  - intros r pl [].
  - intros r pl [].
  - intros a i pl Hp. discriminate.
  - intros r [].
  - intros r [].
  - intros a i pl Hp. discriminate.
  - intros a i. rewrite H12. lia.
  - intros a i _. apply H12.
Qed.

Theorem reach_finv setup ops : hist_ok setup ops -> FInv (reach setup ops).
Proof. intros [Hs Ho]. apply fi_run; [exact Ho|]. apply fresh_finv, fresh_run; [exact Hs|exact fresh_init]. Qed.

Theorem reach_pinv setup ops : hist_ok setup ops -> min_pc_ok (apps (reach setup ops)) -> PInv (reach setup ops).
Proof.
  intros Hh Hm. rewrite (reach_apps setup ops Hh) in Hm. destruct Hh as [Hs Ho].
  apply pi_run; [exact Ho|]. apply fresh_pinv; [apply fresh_run; [exact Hs|exact fresh_init]|exact Hm].
Qed.

Theorem global_escrow_backed setup ops d : hist_ok setup ops -> min_pc_ok (apps (reach setup ops)) ->
  let s := reach setup ops in
  led s GlobalEscrow d = pending d s /\ holds_C04_escrow (led s GlobalEscrow d) (pending d s) = true.
Proof.
  intros Hh Hm s. pose proof (reach_pinv setup ops Hh Hm) as HI. fold s in HI.
  assert (E : led s GlobalEscrow d = pending d s) by (rewrite (pi_led _ HI), (pi_sum _ HI); reflexivity).
  split; [exact E|]. unfold holds_C04_escrow. rewrite E. apply Z.leb_refl.
Qed.

Theorem farmed_exact setup ops d : hist_ok setup ops ->
  let s := reach setup ops in
  holds_C04_farmed (led s Module d) (queued d s) (active d s) = true.
Proof.
  intros Hh s. pose proof (reach_finv setup ops Hh) as HI. fold s in HI.
  unfold holds_C04_farmed. rewrite (fi_led _ HI), (fi_sum _ HI). apply Z.eqb_refl.
Qed.

Theorem zero_supply_disabled setup ops a i pl : hist_ok setup ops -> min_pc_ok (apps (reach setup ops)) ->
  let s := reach setup ops in
  find_pool a i (pools s) = Some pl -> holds_C04_disabled (sup s a i) (pl_disabled pl) = true.
Proof.
  intros Hh Hm s Hp. pose proof (reach_pinv setup ops Hh Hm) as HI. fold s in HI.
  unfold holds_C04_disabled. destruct (sup s a i =? 0) eqn:E; [|reflexivity].
  rewrite (pi_dis _ HI a i pl Hp ltac:(lia)). reflexivity.
Qed.
