(* C10, close completeness of the generation-2 Dutch auction: where the closing bid sends the
   proceeds, per initiator type, and that nothing attributable to the auction stays in custody.
   (Model = the code after fixes/C10-F2 and fixes/C10-F3.) *)
From Comdex Require Import Lib.Base Lib.DecArith Lib.DecFacts Model.DutchV2 Proofs.DutchProofsPrice Proofs.DutchProofsBid.
From Coq Require Import ZifyBool.

Definition delta (k f t x : Z) : Z := (if k =? t then x else 0) - (if k =? f then x else 0).

Lemma send_delta L f t x L' : send L f t x = Some L' -> forall k, L' k = L k + delta k f t x.
Proof.
  unfold send, upd, delta. destruct (Z.ltb_spec (L f) x); [discriminate|]. intros [= <-] k.
  destruct (Z.eqb_spec k t); destruct (Z.eqb_spec k f); destruct (Z.eqb_spec t f); subst; lia.
Qed.

Lemma delta_zero k f t : delta k f t 0 = 0.
Proof. unfold delta. destruct (k =? t); destruct (k =? f); lia. Qed.

(* a send guarded by "amount > 0", for an amount known to be >= 0, is just the transfer *)
Lemma gsend_delta e L f t x L' : 0 <= x ->
  (if x >? 0 then oerr e (send L f t x) else Ok L) = Ok L' -> forall k, L' k = L k + delta k f t x.
Proof.
  intros Hx H k. destruct (Z.gtb_spec x 0).
  - apply oerr_ok in H. apply send_delta with (k := k) in H. exact H.
  - injection H as <-. assert (x = 0) by lia. subst x. rewrite delta_zero. lia.
Qed.

Lemma ext_incentive_nonneg cf lk : 0 <= ext_incentive cf lk.
Proof. unfold ext_incentive. destruct (Z.gtb_spec (keeper_incentive cf (l_fee lk)) 0); lia. Qed.

(* the settlement step *)
Lemma settle_spec cf lk L xf nf L' xf' nf' : 0 <= l_fee lk ->
  settle cf lk L xf nf = Ok (L', xf', nf') ->
  exists ki pen, 0 <= ki /\ 0 <= pen /\ ki + pen = l_fee lk /\
  (l_init lk = 0 -> l_intk lk = false -> ki = 0) /\
  forall k,
    (l_init lk = 2 -> ki = ext_incentive cf lk /\ xf' = xf + pen /\ nf' = nf /\
                      L' k = L k + delta k AUC_D INI_D ki + delta k AUC_D INI_D (l_target lk - l_fee lk)) /\
    (l_init lk = 0 -> xf' = xf /\ nf' = nf + pen /\ L' k = L k + delta k AUC_D KEE_D ki + delta k AUC_D COL_D pen) /\
    (l_init lk <> 2 -> l_init lk <> 0 -> xf' = xf /\ nf' = nf /\ L' k = L k + delta k AUC_D POOL_D (l_target lk)).
Proof.
  intros Hfee H. unfold settle in H.
  destruct (Z.eqb_spec (l_init lk) 2) as [E2|E2].
  - destruct (Z.ltb_spec (l_target lk - l_fee lk) 0); [discriminate|].
    apply obind_ok in H as ([L1 pen] & H1 & H). apply obind_ok in H as (L2 & HL2 & H). injection H as <- <- <-.
    apply oerr_ok in HL2.
    assert (Hk : 0 <= pen /\ ext_incentive cf lk + pen = l_fee lk /\
                 forall k, L1 k = L k + delta k AUC_D INI_D (ext_incentive cf lk)).
    { unfold ext_incentive. destruct (Z.gtb_spec (keeper_incentive cf (l_fee lk)) 0).
      - destruct (Z.ltb_spec (l_fee lk - keeper_incentive cf (l_fee lk)) 0); [discriminate|].
        apply obind_ok in H1 as (Lx & Hs & H1). injection H1 as <- <-. apply oerr_ok in Hs.
        repeat split; try lia. intros k. apply send_delta with (k := k) in Hs. exact Hs.
      - injection H1 as <- <-. repeat split; try lia. intros k. rewrite delta_zero. lia. }
    destruct Hk as (Hpen & Hsum & HL1). pose proof (ext_incentive_nonneg cf lk).
    exists (ext_incentive cf lk), pen. split; [lia|]. split; [lia|]. split; [lia|]. split; [intros; lia|]. intros k.
    split; [intros _|split; intros; lia]. split; [reflexivity|]. split; [reflexivity|]. split; [reflexivity|].
    apply send_delta with (k := k) in HL2. rewrite HL2, HL1. lia.
  - destruct (Z.eqb_spec (l_init lk) 0) as [E0|E0].
    + apply obind_ok in H as ([L1 pen] & H1 & H). apply obind_ok in H as (L2 & H2 & H).
      destruct (Z.ltb_spec pen 0); [discriminate|]. injection H as <- <- <-.
      assert (Hk : exists ki, 0 <= ki /\ ki + pen = l_fee lk /\ (l_intk lk = false -> ki = 0) /\
                              forall k, L1 k = L k + delta k AUC_D KEE_D ki).
      { destruct (l_intk lk).
        - destruct (Z.gtb_spec (keeper_incentive cf (l_fee lk)) 0).
          + destruct (Z.ltb_spec (l_fee lk - keeper_incentive cf (l_fee lk)) 0); [discriminate|].
            apply obind_ok in H1 as (Lx & Hs & H1). injection H1 as <- <-. apply oerr_ok in Hs.
            exists (keeper_incentive cf (l_fee lk)). repeat split; try lia; try discriminate. intros k. apply send_delta with (k := k) in Hs. exact Hs.
          + injection H1 as <- <-. exists 0. repeat split; try lia. intros k. rewrite delta_zero. lia.
        - injection H1 as <- <-. exists 0. repeat split; try lia. intros k. rewrite delta_zero. lia. }
      destruct Hk as (ki & Hki & Hsum & Hnk & HL1).
      exists ki, pen. split; [lia|]. split; [lia|]. split; [lia|]. split; [intros _; exact Hnk|]. intros k.
      split; [intros; lia|]. split; [intros _|intros; lia]. split; [reflexivity|]. split; [reflexivity|].
      assert (Hp0 : 0 <= pen) by lia.
      rewrite (gsend_delta _ _ _ _ _ _ Hp0 H2 k), HL1. lia.
    + apply obind_ok in H as (L1 & H1 & H). destruct (l_stuck lk); [discriminate|]. injection H as <- <- <-. apply oerr_ok in H1.
      exists 0, (l_fee lk). split; [lia|]. split; [lia|]. split; [lia|]. split; [intros; lia|]. intros k.
      split; [intros; lia|]. split; [intros; lia|]. intros _ _. split; [reflexivity|]. split; [reflexivity|].
      apply send_delta with (k := k) in H1. exact H1.
Qed.

(* the bidder's payment step *)
Lemma pay_delta auto L who x L' : 0 <= x -> pay auto L who x = Ok L' ->
  forall k, L' k = L k + (if auto then 0 else delta k (BID_D who) AUC_D x).
Proof.
  intros Hx H k. unfold pay in H. destruct auto.
  - injection H as <-. lia.
  - exact (gsend_delta _ _ _ _ _ _ Hx H k).
Qed.

(* the closing bid: every account, as a sum of transfers *)
Lemma close_ledger_gen auto cf lk a s who amt0 wd twa s' r :
  good_cfg cf lk -> good_auction cf lk a -> 0 <= twa < 9223372036854775808 -> 0 <= l_fee lk ->
  place_bid_gen auto cf lk a s who amt0 wd twa = Ok (s', None, r) ->
  exists ki pen, 0 <= ki /\ 0 <= pen /\ ki + pen = l_fee lk /\ (l_init lk = 0 -> l_intk lk = false -> ki = 0) /\
  forall k,
    led s' k = led s k
      + delta k LIQ_D AUC_D (r_topup r)
      + (if auto then 0 else delta k (BID_D who) AUC_D (r_paid r))
      + delta k AUC_C (BID_C who) (r_recv r)
      + (if l_init lk =? 0 then delta k AUC_D BRN_D (l_target lk - l_fee lk) else 0)
      + delta k AUC_C OWN_C (a_coll a - r_recv r)
      + (if l_init lk =? 2 then delta k AUC_D INI_D ki + delta k AUC_D INI_D (l_target lk - l_fee lk)
         else if l_init lk =? 0 then delta k AUC_D KEE_D ki + delta k AUC_D COL_D pen
         else delta k AUC_D POOL_D (l_target lk)) /\
    xfee s' = xfee s + (if l_init lk =? 2 then pen else 0) /\
    nfee s' = nfee s + (if l_init lk =? 0 then pen else 0) /\
    (l_init lk = 2 -> ki = ext_incentive cf lk).
Proof.
  intros GC GA Htwa Hfee H.
  pose proof (place_bid_amounts_gen _ _ _ _ _ _ _ _ _ _ _ _ GC GA Htwa H) as (Hpaid & Hrecv & _ & Hne & He & _).
  unfold place_bid_gen in H.
  destruct (Z.leb_spec amt0 0); [discriminate|]. destruct wd; [discriminate|].
  apply obind_ok in H as (q & _ & H). apply obind_ok in H as (qb & _ & H).
  set (exh := negb (q + qb <=? a_coll a)) in *.
  destruct (_ || exh) eqn:Hbr.
  2:{ apply obind_ok in H as (? & _ & H). apply obind_ok in H as (? & _ & H).
      destruct (negb (_ >? dec_of_int _)); [discriminate|]. apply obind_ok in H as (? & _ & H).
      apply obind_ok in H as (? & _ & H). apply obind_ok in H as (? & _ & H). apply obind_ok in H as (? & _ & H).
      destruct ((_ <? 0) || (_ <? 0)); discriminate. }
  apply obind_ok in H as ([[[amt1 tot1] s1] topup] & Hx & H).
  apply obind_ok in H as (L2 & H2 & H). apply obind_ok in H as (L3 & H3 & H).
  apply obind_ok in H as (L4 & H4 & H). apply obind_ok in H as (L5 & H5 & H).
  destruct ((tot1 <? 0) || (amt1 <? 0)) eqn:Hneg; [discriminate|].
  apply obind_ok in H as ([[L6 xf] nf] & H6 & H). injection H as <- <-.
  cbn [led xfee nfee rsv r_paid r_recv r_topup r_closed r_exh r_bonus] in *.
  (* the reserve step *)
  assert (H1 : xfee s1 = xfee s /\ nfee s1 = nfee s /\ forall k, led s1 k = led s k + delta k LIQ_D AUC_D topup).
  { destruct exh.
    - apply obind_ok in Hx as (dal & _ & Hx).
      destruct (dal <? 0); [discriminate|]. destruct (a_debt a - dal <? 0); [discriminate|].
      destruct (rsv s) as [rv|]; [|discriminate].
      destruct (rv - (a_debt a - dal) <? 0); [discriminate|].
      apply obind_ok in Hx as (L1 & HL1 & Hx). injection Hx as _ _ <- <-. cbn. split; [reflexivity|]. split; [reflexivity|]. intros k.
      destruct (_ >? 0) eqn:Hg.
      + apply oerr_ok in HL1. apply send_delta with (k := k) in HL1. exact HL1.
      + injection HL1 as <-. assert (a_debt a - dal = 0) by lia. replace (a_debt a - dal) with 0. rewrite delta_zero. lia.
    - injection Hx as _ _ <- <-. split; [reflexivity|]. split; [reflexivity|]. intros k. rewrite delta_zero. lia. }
  destruct H1 as (Hxf1 & Hnf1 & H1).
  destruct (settle_spec _ _ _ _ _ _ _ _ Hfee H6) as (ki & pen & Hki & Hpen & Hsum & Hnk & H6').
  exists ki, pen. split; [lia|]. split; [lia|]. split; [lia|]. split; [exact Hnk|]. intros k.
  specialize (H6' k) as (S2 & S0 & S1).
  assert (Ha1 : 0 <= amt1) by lia. assert (Ht1 : 0 <= tot1) by lia. assert (Ho1 : 0 <= a_coll a - tot1) by lia.
  pose proof (pay_delta _ _ _ _ _ Ha1 H2 k) as E2.
  pose proof (gsend_delta _ _ _ _ _ _ Ht1 H3 k) as E3.
  pose proof (gsend_delta _ _ _ _ _ _ Ho1 H5 k) as E5.
  assert (E4 : L4 k = L3 k + (if l_init lk =? 0 then delta k AUC_D BRN_D (l_target lk - l_fee lk) else 0)).
  { destruct (l_init lk =? 0).
    - destruct (Z.ltb_spec (l_target lk - l_fee lk) 0) as [|Hb0]; [discriminate|].
      exact (gsend_delta _ _ _ _ _ _ Hb0 H4 k).
    - injection H4 as <-. lia. }
  rewrite Hxf1, Hnf1 in *.
  destruct (Z.eqb_spec (l_init lk) 2) as [I2|I2].
  - destruct (S2 I2) as (K0 & Hx2 & Hn2 & HL6).
    assert (I0 : (l_init lk =? 0) = false) by lia.
    split; [|split; [lia|split; [rewrite I0; lia|auto]]].
    rewrite HL6, E5, E4, E3, E2, H1. lia.
  - destruct (Z.eqb_spec (l_init lk) 0) as [I0|I0].
    + destruct (S0 I0) as (Hx2 & Hn2 & HL6). split; [|split; [lia|split; [lia|intros; lia]]].
      rewrite HL6, E5, E4, E3, E2, H1. lia.
    + destruct (S1 I2 I0) as (Hx2 & Hn2 & HL6). split; [|split; [lia|split; [lia|intros; lia]]].
      rewrite HL6, E5, E4, E3, E2, H1. lia.
Qed.

Ltac eqbs := repeat match goal with |- context [?a =? ?b] => destruct (Z.eqb_spec a b); try lia end.

(* the app reserve: touched only by the collateral-exhausted close, debited exactly the shortfall,
   and only when it covers it (repaired WithdrawAppReserveFundsFn) *)
Lemma reserve_spec_gen auto cf lk a s who amt wd twa s' a' r :
  place_bid_gen auto cf lk a s who amt wd twa = Ok (s', a', r) ->
  (r_exh r = false -> r_topup r = 0 /\ rsv s' = rsv s) /\
  (r_exh r = true -> exists rv, rsv s = Some rv /\ rsv s' = Some (rv - r_topup r) /\ 0 <= rv - r_topup r).
Proof.
  intros E. split; [exact (proj1 (topup_zero_gen _ _ _ _ _ _ _ _ _ _ _ _ E))|].
  unfold place_bid_gen in E.
  destruct (amt <=? 0); [discriminate|]. destruct wd; [discriminate|].
  apply obind_ok in E as (q & _ & E). apply obind_ok in E as (qb & _ & E).
  destruct (_ || _).
  - apply obind_ok in E as ([[[? ?] ?] ?] & Hxx & E).
    apply obind_ok in E as (? & _ & E). apply obind_ok in E as (? & _ & E).
    apply obind_ok in E as (? & _ & E). apply obind_ok in E as (? & _ & E).
    destruct ((_ <? 0) || (_ <? 0)); [discriminate|]. apply obind_ok in E as ([[? ?] ?] & _ & E).
    injection E as <- <- <-. cbn. intros Hx. rewrite Hx in Hxx.
    apply obind_ok in Hxx as (dal & _ & Hxx).
    destruct (dal <? 0); [discriminate|]. destruct (a_debt a - dal <? 0); [discriminate|].
    destruct (rsv s) as [rv|]; [|discriminate].
    destruct (Z.ltb_spec (rv - (a_debt a - dal)) 0); [discriminate|].
    apply obind_ok in Hxx as (L1 & _ & Hxx). injection Hxx as _ _ <- <-. cbn.
    exists rv. repeat split; lia.
  - apply obind_ok in E as (? & _ & E). apply obind_ok in E as (? & _ & E).
    destruct (negb (_ >? dec_of_int _)); [discriminate|]. apply obind_ok in E as (? & _ & E).
    apply obind_ok in E as (? & _ & E). apply obind_ok in E as (? & _ & E). apply obind_ok in E as (? & _ & E).
    destruct ((_ <? 0) || (_ <? 0)); [discriminate|]. injection E as <- <- <-. cbn. discriminate.
Qed.

Lemma reserve_spec cf lk a s who amt wd twa s' a' r :
  place_bid_core cf lk a s who amt wd twa = Ok (s', a', r) ->
  (r_exh r = false -> r_topup r = 0 /\ rsv s' = rsv s) /\
  (r_exh r = true -> exists rv, rsv s = Some rv /\ rsv s' = Some (rv - r_topup r) /\ 0 <= rv - r_topup r).
Proof. exact (reserve_spec_gen false cf lk a s who amt wd twa s' a' r). Qed.

(* a collateral-exhausted close against a reserve that does not cover the shortfall is not a
   successful bid (so, by [step], nothing changes) *)
Lemma short_reserve_fails cf lk a s who amt wd twa s' a' r rv :
  place_bid_core cf lk a s who amt wd twa = Ok (s', a', r) -> r_exh r = true -> rsv s = Some rv -> r_topup r <= rv.
Proof.
  intros E Hx Hr. destruct (proj2 (reserve_spec _ _ _ _ _ _ _ _ _ _ _ E) Hx) as (rv' & Hr' & _ & H).
  rewrite Hr in Hr'. injection Hr' as <-. lia.
Qed.

(* close completeness: the closing bid removes from the auction account exactly what this auction
   held (its remaining collateral; the debt collected so far), and the proceeds go to the listed
   destinations.  An automatic bid brings no coins: what it bids is taken from the limit-bid pool that
   the auction account already holds, so the account's debt balance falls by that much more. *)
Lemma close_complete_gen auto cf lk a s who amt0 wd twa s' r :
  good_cfg cf lk -> good_auction cf lk a -> 0 <= twa < 9223372036854775808 -> 0 <= l_fee lk -> 0 <= who ->
  place_bid_gen auto cf lk a s who amt0 wd twa = Ok (s', None, r) ->
  r_paid r + r_topup r = a_debt a /\
  led s' AUC_C = led s AUC_C - a_coll a /\
  led s' AUC_D - xfee s' = led s AUC_D - xfee s - (l_target lk - a_debt a) - (if auto then r_paid r else 0) /\
  led s' OWN_C + led s' (BID_C who) = led s OWN_C + led s (BID_C who) + a_coll a /\
  led s' (BID_D who) = led s (BID_D who) - (if auto then 0 else r_paid r) /\
  led s' LIQ_D = led s LIQ_D - r_topup r /\
  (l_init lk = 0 -> led s' BRN_D = led s BRN_D + (l_target lk - l_fee lk) /\
                    led s' COL_D + led s' KEE_D = led s COL_D + led s KEE_D + l_fee lk /\ xfee s' = xfee s /\
                    0 <= led s' COL_D - led s COL_D /\ 0 <= led s' KEE_D - led s KEE_D /\
                    nfee s' - nfee s = led s' COL_D - led s COL_D /\
                    (l_intk lk = false -> led s' KEE_D = led s KEE_D)) /\
  (l_init lk = 2 -> led s' INI_D = led s INI_D + (l_target lk - l_fee lk) + ext_incentive cf lk /\
                    xfee s' = xfee s + (l_fee lk - ext_incentive cf lk) /\ 0 <= ext_incentive cf lk <= l_fee lk /\
                    led s' COL_D = led s COL_D /\ nfee s' = nfee s) /\
  (l_init lk <> 0 -> l_init lk <> 2 -> led s' POOL_D = led s POOL_D + l_target lk /\ xfee s' = xfee s /\
                    led s' COL_D = led s COL_D /\ nfee s' = nfee s).
Proof.
  intros GC GA Htwa Hfee Hwho H.
  pose proof (place_bid_amounts_gen _ _ _ _ _ _ _ _ _ _ _ _ GC GA Htwa H) as (Hpaid & Hrecv & _ & Hne & He & _).
  assert (Hsum : r_paid r + r_topup r = a_debt a).
  { destruct (r_exh r) eqn:Hx.
    - destruct (He eq_refl) as (_ & _ & Hsh & Htp). lia.
    - destruct (Hne eq_refl) as (Hp & _). destruct (proj1 (topup_zero_gen _ _ _ _ _ _ _ _ _ _ _ _ H) Hx). lia. }
  destruct (close_ledger_gen _ _ _ _ _ _ _ _ _ _ _ GC GA Htwa Hfee H) as (ki & pen & Hki & Hpen & Hkp & Hnk & HL).
  split; [exact Hsum|].
  pose proof (HL AUC_C) as (EC & Hxf & Hnf & Hk2). pose proof (HL AUC_D) as (ED & _).
  pose proof (HL OWN_C) as (EO & _). pose proof (HL (BID_C who)) as (EB & _). pose proof (HL (BID_D who)) as (EBD & _).
  pose proof (HL BRN_D) as (EBr & _). pose proof (HL COL_D) as (ECo & _). pose proof (HL KEE_D) as (EK & _).
  pose proof (HL INI_D) as (EI & _). pose proof (HL POOL_D) as (EP & _). pose proof (HL LIQ_D) as (EL & _).
  clear HL. unfold delta, AUC_C, AUC_D, OWN_C, COL_D, KEE_D, INI_D, NUL_D, LIQ_D, BRN_D, POOL_D, BID_C, BID_D in *.
  split. { clear - EC Hwho. revert EC. destruct auto; eqbs. }
  split. { clear - ED Hxf Hwho Hsum Hkp. revert ED Hxf. destruct auto; eqbs. }
  split. { clear - EO EB Hwho. revert EO EB. destruct auto; eqbs. }
  split. { clear - EBD Hwho. revert EBD. destruct auto; eqbs. }
  split. { clear - EL Hwho. revert EL. destruct auto; eqbs. }
  split. { intros I0. specialize (Hnk I0). clear - EBr ECo EK Hxf Hnf Hwho Hkp Hki Hpen Hnk I0. revert EBr ECo EK Hxf Hnf Hnk. rewrite I0.
           destruct auto; eqbs; intros; repeat split; try lia; intros Hf; specialize (Hnk Hf); lia. }
  split. { intros I2. rewrite <- (Hk2 I2). clear - EI ECo Hxf Hnf Hwho I2 Hkp Hki Hpen. revert EI ECo Hxf Hnf. rewrite I2. destruct auto; eqbs. }
  intros I0 I2. clear - EP ECo Hxf Hnf Hwho I0 I2. revert EP ECo Hxf Hnf. destruct auto; eqbs.
Qed.

Lemma close_complete cf lk a s who amt0 wd twa s' r :
  good_cfg cf lk -> good_auction cf lk a -> 0 <= twa < 9223372036854775808 -> 0 <= l_fee lk -> 0 <= who ->
  place_bid_core cf lk a s who amt0 wd twa = Ok (s', None, r) ->
  r_paid r + r_topup r = a_debt a /\
  led s' AUC_C = led s AUC_C - a_coll a /\
  led s' AUC_D - xfee s' = led s AUC_D - xfee s - (l_target lk - a_debt a) /\
  led s' OWN_C + led s' (BID_C who) = led s OWN_C + led s (BID_C who) + a_coll a /\
  led s' LIQ_D = led s LIQ_D - r_topup r /\
  (l_init lk = 0 -> led s' BRN_D = led s BRN_D + (l_target lk - l_fee lk) /\
                    led s' COL_D + led s' KEE_D = led s COL_D + led s KEE_D + l_fee lk /\ xfee s' = xfee s) /\
  (l_init lk = 2 -> led s' INI_D = led s INI_D + (l_target lk - l_fee lk) + ext_incentive cf lk /\
                    xfee s' = xfee s + (l_fee lk - ext_incentive cf lk) /\ 0 <= ext_incentive cf lk <= l_fee lk) /\
  (l_init lk <> 0 -> l_init lk <> 2 -> led s' POOL_D = led s POOL_D + l_target lk /\ xfee s' = xfee s).
Proof.
  intros GC GA Htwa Hfee Hwho H.
  destruct (close_complete_gen false _ _ _ _ _ _ _ _ _ _ GC GA Htwa Hfee Hwho H) as (H1 & H2 & H3 & H4 & _ & H5 & H6 & H7 & H8).
  split; [exact H1|]. split; [exact H2|]. split; [cbn [negb] in H3; lia|]. split; [exact H4|]. split; [exact H5|].
  split; [intros I0; destruct (H6 I0) as (A & B & C & _); auto|].
  split; [intros I2; destruct (H7 I2) as (A & B & C & _); auto|].
  intros I0 I2. destruct (H8 I0 I2) as (A & B & _). auto.
Qed.

(* a partial bid: only the bidder and the auction account move; reserve and fee books untouched *)
Lemma partial_ledger_gen auto cf lk a s who amt0 wd twa s' b r :
  good_cfg cf lk -> good_auction cf lk a -> 0 <= twa < 9223372036854775808 ->
  place_bid_gen auto cf lk a s who amt0 wd twa = Ok (s', Some b, r) ->
  xfee s' = xfee s /\ rsv s' = rsv s /\ nfee s' = nfee s /\
  forall k, led s' k = led s k + (if auto then 0 else delta k (BID_D who) AUC_D (r_paid r)) + delta k AUC_C (BID_C who) (r_recv r).
Proof.
  intros GC GA Htwa H.
  pose proof (place_bid_amounts_gen _ _ _ _ _ _ _ _ _ _ _ _ GC GA Htwa H) as (Hpaid & Hrecv & _).
  unfold place_bid_gen in H.
  destruct (Z.leb_spec amt0 0); [discriminate|]. destruct wd; [discriminate|].
  apply obind_ok in H as (q & _ & H). apply obind_ok in H as (qb & _ & H).
  destruct (_ || _) eqn:Hbr.
  { apply obind_ok in H as ([[[? ?] ?] ?] & _ & H).
    apply obind_ok in H as (? & _ & H). apply obind_ok in H as (? & _ & H).
    apply obind_ok in H as (? & _ & H). apply obind_ok in H as (? & _ & H).
    destruct ((_ <? 0) || (_ <? 0)); [discriminate|]. apply obind_ok in H as ([[? ?] ?] & _ & H). discriminate. }
  apply obind_ok in H as (q' & _ & H). apply obind_ok in H as (usd & _ & H).
  destruct (negb (_ >? dec_of_int _)); [discriminate|]. apply obind_ok in H as (ratio & _ & H).
  apply obind_ok in H as (qb' & _ & H). apply obind_ok in H as (L2 & H2 & H). apply obind_ok in H as (L3 & H3 & H).
  destruct ((_ <? 0) || (_ <? 0)); [discriminate|]. injection H as <- _ <-.
  cbn [led xfee nfee rsv r_paid r_recv r_topup r_closed r_exh r_bonus] in *.
  split; [reflexivity|]. split; [reflexivity|]. split; [reflexivity|]. intros k.
  rewrite (gsend_delta _ _ _ _ _ _ (proj1 Hrecv) H3 k), (pay_delta _ _ _ _ _ (proj1 Hpaid) H2 k). lia.
Qed.

Lemma partial_ledger cf lk a s who amt0 wd twa s' b r :
  good_cfg cf lk -> good_auction cf lk a -> 0 <= twa < 9223372036854775808 ->
  place_bid_core cf lk a s who amt0 wd twa = Ok (s', Some b, r) ->
  xfee s' = xfee s /\ rsv s' = rsv s /\
  forall k, led s' k = led s k + delta k (BID_D who) AUC_D (r_paid r) + delta k AUC_C (BID_C who) (r_recv r).
Proof.
  intros GC GA Htwa H. destruct (partial_ledger_gen false _ _ _ _ _ _ _ _ _ _ _ GC GA Htwa H) as (A & B & _ & C). auto.
Qed.

(* the reserve record stays non-negative and backed by the liquidation module's balance *)
Lemma reserve_backed_gen auto cf lk a s who amt0 wd twa s' a' r rv :
  good_cfg cf lk -> good_auction cf lk a -> 0 <= twa < 9223372036854775808 -> 0 <= l_fee lk -> 0 <= who ->
  place_bid_gen auto cf lk a s who amt0 wd twa = Ok (s', a', r) ->
  rsv s = Some rv -> 0 <= rv <= led s LIQ_D ->
  exists rv', rsv s' = Some rv' /\ 0 <= rv' <= led s' LIQ_D /\ rv - rv' = led s LIQ_D - led s' LIQ_D.
Proof.
  intros GC GA Htwa Hfee Hwho H Hr Hb.
  destruct (reserve_spec_gen _ _ _ _ _ _ _ _ _ _ _ _ H) as (Hn & Hx).
  destruct a' as [b|].
  - destruct (partial_ledger_gen _ _ _ _ _ _ _ _ _ _ _ _ GC GA Htwa H) as (_ & Hrs & _ & HL).
    exists rv. rewrite Hrs. split; [exact Hr|]. specialize (HL LIQ_D).
    unfold delta, LIQ_D, AUC_C, AUC_D, BID_C, BID_D in *. revert HL. destruct auto; eqbs.
  - destruct (close_complete_gen _ _ _ _ _ _ _ _ _ _ _ GC GA Htwa Hfee Hwho H) as (_ & _ & _ & _ & _ & HL & _).
    destruct (r_exh r) eqn:E.
    + destruct (Hx eq_refl) as (rv0 & Hr0 & Hr' & Hge). rewrite Hr in Hr0. injection Hr0 as <-.
      exists (rv - r_topup r). split; [exact Hr'|]. lia.
    + destruct (Hn eq_refl) as (Ht & Hrs). exists rv. rewrite Hrs. split; [exact Hr|]. lia.
Qed.

Lemma reserve_backed cf lk a s who amt0 wd twa s' a' r rv :
  good_cfg cf lk -> good_auction cf lk a -> 0 <= twa < 9223372036854775808 -> 0 <= l_fee lk -> 0 <= who ->
  place_bid_core cf lk a s who amt0 wd twa = Ok (s', a', r) ->
  rsv s = Some rv -> 0 <= rv <= led s LIQ_D ->
  exists rv', rsv s' = Some rv' /\ 0 <= rv' <= led s' LIQ_D /\ rv - rv' = led s LIQ_D - led s' LIQ_D.
Proof. exact (reserve_backed_gen false cf lk a s who amt0 wd twa s' a' r rv). Qed.

(* ------------------------------------------------------------------------------------------ *)
(* regression witnesses of the two repaired defects (the states of the harness corpus cases)   *)

(* C10-F2 (harness corpus case 1 = seed 1 case 92 of the first build): external auction, 4889641
   collateral left against 9143315 debt, reserve 1000, closing bid at a price where the collateral
   covers only 8703243 *)
Definition w_cf : acfg := mkCfg 1500000000000000000 650000000000000000 1000 0 0 1000000 1000000.
Definition w_lk : locked := mkLk 4890000 9144300 831300 831300 2 false false false.
Definition w_au : auction := mkAu 4889641 9143315 831300 1949947497374868743437172 3000000000000000000000000
                                  2380000000000000000000000 1000000000000000000000000 0 1000.
Definition w_led (liq : Z) : ledger := fun k => if k =? 0 then 4889641 else if k =? 1 then 985 else if k =? 7 then liq
                                      else if k =? 11 then 4611686018427387798 else 0.
Definition w_s (reserve : Z) : bstate := mkS (w_led reserve) (Some reserve) 0 0.
Definition nobook : book := fun _ _ => 0.

(* before the repair this bid succeeded with nothing transferred, reserve record -439072 and the
   auction account 440072 short; now it is rejected and the life is unchanged *)
Lemma reserve_short_rejected :
  place_bid_core w_cf w_lk w_au (w_s 1000) 0 27429945 false 1000000 = Err 3 /\
  forall p rc t, step w_cf w_lk (mkLife (w_s 1000) (Some w_au) p rc t nobook 0) (Bid 0 27429945 false 1000000)
                 = mkLife (w_s 1000) (Some w_au) p rc t nobook 0.
Proof.
  assert (E : place_bid_core w_cf w_lk w_au (w_s 1000) 0 27429945 false 1000000 = Err 3) by (vm_compute; reflexivity).
  split; [exact E|]. intros. unfold step. cbn [f_a f_s]. rewrite E. reflexivity.
Qed.

(* with a reserve that covers the shortfall (440072) the same bid closes and everything is backed *)
Lemma reserve_covered_closes :
  exists s' r, place_bid_core w_cf w_lk w_au (w_s 440072) 0 27429945 false 1000000 = Ok (s', None, r) /\
    r_exh r = true /\ r_paid r = 8703243 /\ r_topup r = 440072 /\ rsv s' = Some 0 /\ led s' LIQ_D = 0 /\
    led s' INI_D = 8313000 /\ xfee s' = 831300 /\ led s' AUC_D = 831300 /\ led s' AUC_C = 0.
Proof.
  destruct (place_bid_core w_cf w_lk w_au (w_s 440072) 0 27429945 false 1000000) as [[[s' [a'|]] r]| |] eqn:E;
    vm_compute in E; try discriminate.
  exists s', r. split; [reflexivity|]. injection E as <- <-. vm_compute. repeat split; reflexivity.
Qed.

(* C10-F3 (harness corpus case 0 = seed 1 case 0 of the first build): external auction of an app
   with KeeeperIncentive 0.1; before the repair every closing bid panicked *)
Definition x_cf : acfg := mkCfg 1500000000000000000 700000000000000000 3600 1000000 100000000000000000 1000000 1000000.
Definition x_lk : locked := mkLk 568000 493592 44872 0 2 false false false.
Definition x_au : auction := mkAu 568000 493592 0 1500000000000000000000000 1500000000000000000000000
                                  1000000000000000000000000 1000000000000000000000000 7201 10801.
Definition x_led : ledger := fun k => if k =? 0 then 568000 else if k =? 7 then 1125899906842624
                                      else if k =? 11 then 4611686018427387904 else 0.
Definition x_s : bstate := mkS x_led (Some 1125899906842624) 0 0.

Lemma external_closes :
  exists s' r, place_bid_core x_cf x_lk x_au x_s 0 493593 false 1000000 = Ok (s', None, r) /\
    ext_incentive x_cf x_lk = 4487 /\ r_paid r = 493592 /\ r_recv r = 329061 /\
    led s' INI_D = 448720 + 4487 /\ xfee s' = 40385 /\ led s' AUC_D = 40385 /\ led s' AUC_C = 0 /\
    led s' OWN_C = 238939 /\ led s' NUL_D = 0.
Proof.
  destruct (place_bid_core x_cf x_lk x_au x_s 0 493593 false 1000000) as [[[s' [a'|]] r]| |] eqn:E;
    vm_compute in E; try discriminate.
  exists s', r. split; [reflexivity|]. injection E as <- <-. vm_compute. repeat split; reflexivity.
Qed.
