(* C08 proofs, part 8: the per-message rules for [step], the executable hypotheses, reachability. *)
From Comdex Require Import Lib.Base Lib.DecArith Lib.DecFacts Model.Lend Proofs.LendProofs Proofs.LendProofsInv Proofs.LendProofsSide
     Proofs.LendProofsSteps Proofs.LendProofsSteps2 Proofs.LendProofsHist Proofs.LendProofsLtv Proofs.LendProofsRules.
From Coq Require Import ZifyBool.

Section Main.
  Variable cfg : config.

  (* BorrowAlternate = (lend or deposit) then BorrowAsset on the resulting state *)
  Lemma borrow_alternate_decomp st user asset poolid din ain pid stable dout aout app ipb e1 e2 st' :
    Good cfg st ->
    borrow_alternate cfg st user asset poolid din ain pid stable dout aout app ipb e1 e2 = Ok st' ->
    exists st1 lid cden, Good cfg st1 /\ prices st1 = prices st /\
                         borrow_asset cfg st1 user lid pid stable cden ain dout aout e1 e2 = Ok st'.
  Proof.
    intros HG H. unfold borrow_alternate in H. destr_all H.
    - match goal with E : deposit_asset _ _ _ _ _ _ _ = Ok _ |- _ =>
        destruct (deposit_good _ _ _ _ _ _ _ _ HG E) as (HG1 & HP1) end.
      eexists _, _, _. split; [exact HG1|]. split; [exact HP1|exact H].
    - spec_uls. simp_pget.
      match type of H with borrow_asset _ ?st1 _ _ _ _ _ _ _ _ _ _ = _ =>
        assert (HG1 : Good cfg st1) end.
      { destruct HG as (HI & HS). unfold Inv in HI. split; cbn [lends borrows sstats lctr bctr].
        - eapply (T_newlend cfg _ _ _ _ _ HI (mkLend (lctr st + 1) user poolid asset ain ain app 0 0 []));
            try (intros k; apply pget_pset2); try eassumption; try reflexivity.
        - eapply S_lend_new; [exact HS|]. eapply unref_fresh; [exact HI|lia]. }
      eexists _, _, _. split; [exact HG1|]. split; [|exact H]. reflexivity.
  Qed.

  Lemma step_ltv st o st' :
    cfg_wf cfg -> Good cfg st -> PricesOk (prices st) -> step cfg st o = Ok st' -> ltv_rule cfg st o st'.
  Proof.
    intros Hwf HG HP H. destruct o; cbn [ltv_rule]; try exact I; cbn [step] in H;
      match type of H with (if ?c then _ else _) = _ => destruct c eqn:Ec; [discriminate|] end.
    - unfold borrow_rule. eapply borrow_asset_ltv; try eassumption. lia.
    - eapply draw_ltv; eassumption.
    - destruct (borrow_alternate_decomp _ _ _ _ _ _ _ _ _ _ _ _ _ _ _ HG H) as (st1 & lid & cden & HG1 & HP1 & Hb).
      exists st1. split; [exact HP1|]. unfold borrow_rule. eapply borrow_asset_ltv; try eassumption; [rewrite HP1; exact HP|lia].
  Qed.

  Lemma step_pool st o st' :
    cfg_wf cfg -> Good cfg st -> step cfg st o = Ok st' -> pool_rule cfg st o.
  Proof.
    intros Hwf HG H. destruct o; cbn [pool_rule]; try exact I; cbn [step] in H;
      match type of H with (if ?c then _ else _) = _ => destruct c eqn:Ec; [discriminate|] end.
    - unfold borrow_pool_rule. eapply borrow_asset_pool; eassumption.
    - eapply draw_pool; eassumption.
    - destruct (borrow_alternate_decomp _ _ _ _ _ _ _ _ _ _ _ _ _ _ _ HG H) as (st1 & lid & cden & HG1 & HP1 & Hb).
      exists st1, cden. unfold borrow_pool_rule. eapply borrow_asset_pool; eassumption.
  Qed.

  Lemma step_pledged st o st' : Good cfg st -> step cfg st o = Ok st' -> pledged_rule cfg st o st'.
  Proof.
    intros HG H. pose proof (Good_Inv _ _ HG) as HI. destruct o; cbn [pledged_rule]; try exact I; cbn [step] in H;
      match type of H with (if ?c then _ else _) = _ => destruct c eqn:Ec; [discriminate|] end.
    - eapply withdraw_pledged; eassumption.
    - destruct (zget (lends st) lid) as [l0|] eqn:El.
      + destruct (close_lend_pledged cfg _ _ _ _ _ (l_avail l0) HI H) as (A & B). split; assumption.
      + unfold close_lend in H. rewrite El in H. discriminate.
    - unfold repay_withdraw in H.
      destruct (close_borrow cfg st user bid e) as [st1|c|] eqn:E1; cbn [obind] in H; try discriminate.
      destruct (close_borrow_good cfg _ _ _ _ _ HG E1) as (HG1 & _).
      destruct (zget (borrows st) bid) as [b0|] eqn:Eb; [|discriminate].
      destruct (zget (lends st1) (b_lend b0)) as [l|] eqn:El; [|discriminate].
      exists st1, b0. split; [reflexivity|]. split; [reflexivity|]. split.
      + clear - E1. unfold close_borrow in E1. destr_all E1. injection E1 as <-. cbn [borrows with_bank with_books].
        rewrite zget_zdel, Z.eqb_refl. reflexivity.
      + eapply withdraw_pledged; [exact (Good_Inv _ _ HG1)|exact H].
  Qed.

  Lemma side_no_mismatch st j : Side cfg (lends st) (borrows st) -> mismatched_lend cfg st j = false.
  Proof.
    intros HS. unfold mismatched_lend. destruct (zget (borrows st) j) as [b|] eqn:E; [|reflexivity].
    destruct (b_liq b) eqn:Hq; [reflexivity|].
    destruct (HS j b E Hq) as (_ & l & pr & Hl & Hp & Ha). rewrite Hp, Hl, Ha, Z.eqb_refl. reflexivity.
  Qed.
End Main.

(* ---------- the boolean forms of the hypotheses are sound ---------- *)
Lemma empty_booksb_ok st : empty_booksb st = true -> empty_books st.
Proof.
  unfold empty_booksb. intros H. repeat (apply andb_prop in H; destruct H as [H ?]).
  unfold empty_books.
  split; [destruct (lends st); [reflexivity|cbn in *; congruence]|].
  split; [destruct (borrows st); [reflexivity|cbn in *; congruence]|].
  split; [lia|]. split; [lia|].
  intros k s Hg. apply (fget_in peqb peqb_eq) in Hg.
  match goal with F : forallb _ (sstats st) = true |- _ => rewrite forallb_forall in F; specialize (F _ Hg); cbn [snd] in F end.
  repeat (match goal with F : _ && _ = true |- _ => apply andb_prop in F; destruct F end).
  split; [lia|]. split; [lia|]. split; [lia|].
  split; [destruct (s_lids s); [reflexivity|cbn in *; congruence]|destruct (s_bids s); [reflexivity|cbn in *; congruence]].
Qed.

Lemma cfg_wfb_ok cfg : cfg_wfb cfg = true -> cfg_wf cfg.
Proof.
  unfold cfg_wfb. intros H. apply andb_prop in H as (H1 & H2). rewrite forallb_forall in H1, H2. split.
  - intros id a Hg. apply (fget_in Z.eqb zeqb_eq) in Hg. specialize (H1 _ Hg). cbn [fst snd] in H1. lia.
  - intros id r Hg. apply (fget_in Z.eqb zeqb_eq) in Hg. specialize (H2 _ Hg). cbn [fst snd] in H2. lia.
Qed.

Lemma prices_okb_ok P : prices_okb P = true -> PricesOk P.
Proof.
  unfold prices_okb. intros H a p Hg. rewrite forallb_forall in H. apply (fget_in Z.eqb zeqb_eq) in Hg.
  specialize (H _ Hg). cbn [snd] in H. lia.
Qed.

Lemma op_saneb_ok ops : forallb op_saneb ops = true -> Forall op_sane ops.
Proof.
  intros H. apply Forall_forall. intros o Ho. rewrite forallb_forall in H. specialize (H o Ho).
  destruct o; cbn; try exact I. destruct p; [cbn in H; lia|exact I].
Qed.

(* every state reached from empty books under unsigned oracle prices, outside known-finding class 2 *)
Lemma reach_good cfg st0 ops :
  empty_books st0 -> clean cfg st0 ops -> PricesOk (prices st0) -> Forall op_sane ops ->
  Good cfg (run cfg st0 ops) /\ PricesOk (prices (run cfg st0 ops)).
Proof. intros H0 Hc HP Hs. apply run_good_prices; [apply init_good; exact H0|exact Hc|exact HP|exact Hs]. Qed.
