(* C18 (iii) with the leading special cases of math.Pow modelled exactly (Model/Pow.v):
   - zero over zero time and zero at rate zero need NO hypothesis on math.Pow;
   - pow x y >= 1 (H1) is DERIVED from monotonicity and pow x 0 = 1;
   - the only hypothesis left for non-negativity and monotonicity is monotonicity of math.Pow on
     the operand box [1, 11] x [0, 100] that CalculationOfRewards can reach for rates in [0, 10]
     and at most 100 years;
   - monotonicity in the principal alone needs only pow x y >= 1 at that one point. *)
From Comdex Require Import Lib.Base Lib.DecArith Lib.DecFacts Lib.F64 Model.Accrual Model.Pow Proofs.AccrualProofs.
From Coq Require Import ZifyBool.

Definition PowMonoBox (pow : Z -> Z -> Z) : Prop :=
  forall x x' y y', F_ONE <= x -> x <= x' -> x' <= POW_XMAX -> 0 <= y -> y <= y' -> y' <= POW_YMAX ->
    pow x y <= pow x' y'.

Lemma go_pow_zero core x : go_pow core x 0 = F_ONE.
Proof. unfold go_pow. reflexivity. Qed.
Lemma go_pow_one_base core y : go_pow core F_ONE y = F_ONE.
Proof. unfold go_pow. rewrite Z.eqb_refl, orb_true_r. reflexivity. Qed.
Lemma go_pow_one_exp core x : go_pow core x F_ONE = x.
Proof.
  unfold go_pow. pose proof F_ONE_pos. destruct (Z.eqb_spec F_ONE 0); [lia|]. cbn [orb].
  destruct (Z.eqb_spec x F_ONE); [congruence|]. rewrite Z.eqb_refl. reflexivity.
Qed.

(* H1 on the box from monotonicity and the exact value at y = 0 *)
Lemma box_ge_one pow : (forall x, pow x 0 = F_ONE) -> PowMonoBox pow ->
  forall x y, F_ONE <= x -> x <= POW_XMAX -> 0 <= y -> y <= POW_YMAX -> F_ONE <= pow x y.
Proof.
  intros H2 M x y Hx Hx' Hy Hy'. rewrite <- (H2 x). apply M; lia.
Qed.

Definition LSR_MAX : Z := 10 * P18.
Definition SECS_MAX : Z := 100 * SECONDS_PER_YEAR.

Lemma to64_11 : to64 (11 * P18f) = 11 * F_ONE. Proof. vm_compute. reflexivity. Qed.
Lemma to64_100 : to64 (100 * P18f) = 100 * F_ONE. Proof. vm_compute. reflexivity. Qed.

Lemma cmp_x_le lsr : lsr <= LSR_MAX -> cmp_x lsr <= POW_XMAX.
Proof.
  intros H. unfold cmp_x, POW_XMAX. rewrite <- to64_11. apply to64_mono.
  unfold LSR_MAX in H. change P18f with P18. lia.
Qed.
Lemma cmp_y_le secs : 0 <= secs -> secs <= SECS_MAX -> cmp_y secs <= POW_YMAX.
Proof.
  intros H0 H. unfold cmp_y, POW_YMAX. rewrite <- to64_100. apply to64_mono.
  change P18f with P18. rewrite years_div by lia. unfold SECS_MAX in H. pose proof SPY_pos. dec_consts.
  apply Z.div_le_upper_bound; [lia|]. nia.
Qed.

Section Box.
  Variable core : Z -> Z -> Z.
  Let pow := go_pow core.

  Lemma cmp_zero_time_go amt lsr : cmp_new pow amt lsr 0 = 0.
  Proof. apply cmp_zero_time. intros x. apply go_pow_zero. Qed.

  (* at rate zero x = float(1.0) = 1 and math.Pow returns 1 whatever the time *)
  Lemma cmp_zero_rate_go amt secs : cmp_new pow amt 0 secs = 0.
  Proof.
    unfold cmp_new, cmp_x. rewrite Z.add_0_r. change P18 with P18f. rewrite to64_one.
    unfold pow. rewrite go_pow_one_base. unfold cmp_after_pow, sub64.
    rewrite Z.sub_diag, rnd64_zero by apply F_ONE_pos. unfold mul64. rewrite Z.mul_0_l.
    rewrite rnd64_zero; [reflexivity|]. pose proof F_ONE_pos; nia.
  Qed.

  Hypothesis M : PowMonoBox pow.

  Lemma pow_ge_one_box lsr secs : 0 <= lsr -> lsr <= LSR_MAX -> 0 <= secs -> secs <= SECS_MAX ->
    F_ONE <= pow (cmp_x lsr) (cmp_y secs).
  Proof.
    intros. apply (box_ge_one pow); [intros x; apply go_pow_zero|exact M| | | |].
    - apply cmp_x_ge; lia.
    - apply cmp_x_le; lia.
    - apply cmp_y_ge; lia.
    - apply cmp_y_le; lia.
  Qed.

  Lemma cmp_nonneg_box amt lsr secs : 0 <= amt -> 0 <= lsr -> lsr <= LSR_MAX -> 0 <= secs -> secs <= SECS_MAX ->
    0 <= cmp_new pow amt lsr secs.
  Proof.
    intros. unfold cmp_new. apply after_pow_nonneg; [|apply cmp_amtf_ge; lia]. apply pow_ge_one_box; lia.
  Qed.

  Lemma cmp_monotone_box amt amt' lsr lsr' secs secs' :
    0 <= amt -> amt <= amt' -> 0 <= lsr -> lsr <= lsr' -> lsr' <= LSR_MAX -> 0 <= secs -> secs <= secs' -> secs' <= SECS_MAX ->
    cmp_new pow amt lsr secs <= cmp_new pow amt' lsr' secs'.
  Proof.
    intros. unfold cmp_new. apply after_pow_mono.
    - apply pow_ge_one_box; lia.
    - apply M.
      + apply cmp_x_ge; lia.
      + unfold cmp_x. apply to64_mono. lia.
      + apply cmp_x_le; lia.
      + apply cmp_y_ge; lia.
      + unfold cmp_y. apply to64_mono. apply years_mono; lia.
      + apply cmp_y_le; lia.
    - apply cmp_amtf_ge; lia.
    - unfold cmp_amtf. apply to64_mono. dec_consts. unfold dec_of_int. nia.
  Qed.
End Box.

(* monotone in the principal for ANY pow, given only that its value at the one operand point is >= 1 *)
Lemma cmp_monotone_principal pow amt amt' lsr secs :
  F_ONE <= pow (cmp_x lsr) (cmp_y secs) -> 0 <= amt -> amt <= amt' ->
  cmp_new pow amt lsr secs <= cmp_new pow amt' lsr secs.
Proof.
  intros Hf Ha Haa. unfold cmp_new. apply after_pow_mono; try lia.
  - apply cmp_amtf_ge; lia.
  - unfold cmp_amtf. apply to64_mono. dec_consts. unfold dec_of_int. nia.
Qed.
