(* C18: proofs about Model/AccrualPair.v - over every history of {later block, vault create, interest
   calculation, vault touch, fee update} every accrual is made at the fee in force over a period in which
   that fee was in force and which was not charged before (repaired start-of-period rule: no class is excluded). *)
From Comdex Require Import Lib.Base Lib.DecArith Model.AccrualSites Model.AccrualPair.
Require Import List ZArith Bool Lia.
Import ListNotations.
Local Open Scope Z_scope.

Section PairProofs.
Variable calc : Z -> Z -> Z -> Z -> outcome Z.

Definition active (s : pstate) : bool := ps_wl s && negb (ps_stable s).

Definition vinv (s : pstate) (v : pvault) : Prop :=
  pv_cov v <= ps_now s /\ pv_bt v <= ps_now s /\
  (ps_fee s <> 0 ->
   pv_cov v <= eff_bt s v /\ ps_tchg s <= eff_bt s v /\ eff_bt s v <= ps_now s).

Definition PInv (s : pstate) : Prop :=
  1 <= ps_h s /\ 0 <= ps_fee s /\
  (ps_intr s = false -> active s = true ->
   ps_pbt s <= ps_now s /\ ps_tchg s <= ps_now s /\ Forall (vinv s) (ps_vaults s)).

Lemma pinit_inv : forall now h wl st fee, 1 <= h -> 0 <= fee -> PInv (pinit now h wl st fee).
Proof. intros. unfold PInv, pinit; cbn. repeat split; try lia. constructor. Qed.

(* ---- the accrual function's call inside the two sites ---- *)
Lemma float_site_ok : forall now bt p r tr rec res,
  float_site_with calc now bt p r tr rec = Ok res ->
  exists x pd t', res = Updated x pd t' (rec + pd) /\ calc now bt p r = Ok x.
Proof.
  intros now bt p r tr rec res H. unfold float_site_with in H.
  destruct (calc now bt p r) as [x| |] eqn:E; try discriminate.
  destruct (site_carry tr x) as [pd t'] eqn:C. inversion H; subst. eauto.
Qed.

Lemma sweep_spec : forall vs now h lsr cbt ct i vs' cs,
  sweep calc now h lsr cbt ct i vs = Some (vs', cs, false) ->
  Forall (fun v' => pv_bt v' = now /\ pv_cov v' = now /\ pv_bh v' = (if ct then h else 0)) vs' /\
  Forall (fun c => In (ch_pre c) vs /\ ch_from c = (if (pv_bh (ch_pre c) =? 0) || (pv_bt (ch_pre c) <? cbt) then cbt else pv_bt (ch_pre c)) /\
                   ch_princ c = pv_debt (ch_pre c) /\ ch_rate c = lsr /\
                   calc now (ch_from c) (ch_princ c) lsr = Ok (ch_amt c)) cs.
Proof.
  induction vs as [|v tl IH]; intros now h lsr cbt ct i vs' cs H; cbn [sweep] in H.
  - inversion H; subst. split; constructor.
  - destruct (vault_iterate_one_with calc now lsr cbt (pv_bh v) (pv_bt v) (pv_debt v) (pv_tracker v) (pv_intacc v)) as [res| |] eqn:E;
      try discriminate.
    unfold vault_iterate_one_with in E. apply float_site_ok in E as (x & pd & t' & -> & Ec).
    destruct (sweep calc now h lsr cbt ct (i + 1) tl) as [[[tl' cs'] intr]|] eqn:ES; try discriminate.
    inversion H; subst. apply IH in ES as (A & B). split.
    + constructor; [cbn; auto|assumption].
    + constructor.
      * cbn. repeat split; auto.
      * eapply Forall_impl; [|exact B]. cbn. intros c (I & R). split; [right; exact I|exact R].
Qed.

Lemma sweep_length_intr : forall vs now h lsr cbt ct i vs' cs intr,
  sweep calc now h lsr cbt ct i vs = Some (vs', cs, intr) -> length vs' = length vs.
Proof.
  induction vs as [|v tl IH]; intros now h lsr cbt ct i vs' cs intr H; cbn [sweep] in H.
  - inversion H; reflexivity.
  - destruct (vault_iterate_one_with calc now lsr cbt (pv_bh v) (pv_bt v) (pv_debt v) (pv_tracker v) (pv_intacc v)) as [[|x pd t' r']| |];
      try discriminate.
    + destruct (sweep calc now h lsr cbt ct (i + 1) tl) as [[[tl' cs'] intr']|] eqn:ES; try discriminate.
      inversion H; subst. cbn. f_equal. eapply IH; eauto.
    + inversion H; reflexivity.
Qed.

(* ---- CalculateVaultInterest on one vault ---- *)
Lemma calc_vault_spec : forall s i v v' cs,
  calc_vault calc s i v = Ok (v', cs) ->
  (v' = v /\ cs = []) \/
  (active s = true /\ ps_fee s <> 0 /\
   pv_bh v' = ps_h s /\ pv_bt v' = ps_now s /\ pv_cov v' = ps_now s /\ pv_debt v' = pv_debt v /\
   exists x, cs = [mkCh (Z.of_nat i) v (eff_bt s v) (pv_debt v + pv_intacc v) (ps_fee s) x] /\
             calc (ps_now s) (eff_bt s v) (pv_debt v + pv_intacc v) (ps_fee s) = Ok x).
Proof.
  intros s i v v' cs H. unfold calc_vault in H.
  destruct (vault_interest_with calc (ps_now s) (site_of s v)) as [[|x pd t' r']| |] eqn:E; try discriminate.
  - inversion H; subst. left; auto.
  - inversion H; subst; clear H. right. unfold vault_interest_with in E. cbn [site_of vs_app_ok vs_pair_found vs_fee vs_stable_mint vs_pair_bt vs_bh vs_bt vs_debt vs_tracker vs_intacc] in E.
    destruct (ps_wl s) eqn:W; cbn [negb] in E; try discriminate.
    destruct (ps_fee s =? 0) eqn:F; cbn [orb] in E; try discriminate.
    destruct (ps_stable s) eqn:St; try discriminate.
    apply float_site_ok in E as (x' & pd' & t'' & Eq & Ec). inversion Eq; subst.
    unfold active. rewrite W, St. cbn. repeat split; try lia.
    exists x'. split; [reflexivity|exact Ec].
Qed.

Lemma Forall_set_nth : forall {A} (P : A -> Prop) l n x, Forall P l -> P x -> Forall P (set_nth n x l).
Proof.
  intros A P l. induction l as [|a tl IH]; intros n x Hl Hx; [destruct n; constructor|].
  inversion Hl; subst. destruct n; cbn; constructor; auto.
Qed.

Lemma nth_error_Forall : forall {A} (P : A -> Prop) l n x, Forall P l -> nth_error l n = Some x -> P x.
Proof. intros A P l n x H E. rewrite Forall_forall in H. apply H. eapply nth_error_In; eauto. Qed.

Definition legit_or_kf (s : pstate) (c : charge) : Prop := charge_legit calc s c.

(* the interruption flag only rises *)
Lemma pstep_intr : forall s o s' cs, pstep calc s o = Ok (s', cs) -> ps_intr s' = false -> ps_intr s = false.
Proof.
  intros s o s' cs H I. destruct o as [dt dh|d|i|i dl|f]; cbn [pstep] in H.
  - inversion H; subst; exact I.
  - inversion H; subst; exact I.
  - destruct (nth_error (ps_vaults s) i); try discriminate.
    destruct (calc_vault calc s i p) as [[v' c']| |]; try discriminate. inversion H; subst; exact I.
  - destruct (nth_error (ps_vaults s) i); try discriminate.
    destruct (calc_vault calc s i p) as [[v' c']| |]; try discriminate. inversion H; subst; exact I.
  - unfold set_fee in H.
    destruct (ps_wl s && negb (ps_stable s)).
    + destruct (f =? 0).
      * destruct (sweep calc (ps_now s) (ps_h s) (ps_fee s) (ps_pbt s) false 0 (ps_vaults s)) as [[[vs c'] intr]|]; try discriminate.
        inversion H; subst. cbn in I. apply orb_false_elim in I. tauto.
      * destruct (ps_fee s =? 0); [inversion H; subst; exact I|].
        destruct ((0 <? ps_fee s) && (0 <? f)).
        -- destruct (sweep calc (ps_now s) (ps_h s) (ps_fee s) (ps_pbt s) true 0 (ps_vaults s)) as [[[vs c'] intr]|]; try discriminate.
           inversion H; subst. cbn in I. apply orb_false_elim in I. tauto.
        -- inversion H; subst; exact I.
    + inversion H; subst; exact I.
Qed.

Lemma eff_bt_now : forall s v, pv_bt v <= ps_now s -> ps_pbt s = ps_now s -> eff_bt s v = ps_now s.
Proof.
  intros s v Hb Hp. unfold eff_bt. rewrite Hp. destruct (pv_bh v =? 0); cbn [orb]; [reflexivity|].
  destruct (Z.ltb_spec (pv_bt v) (ps_now s)); [reflexivity|lia].
Qed.

Lemma vinv_stamped : forall s s' v, ps_now s' = ps_now s -> 1 <= ps_h s ->
  pv_bh v = ps_h s -> pv_bt v = ps_now s -> pv_cov v = ps_now s -> ps_tchg s' <= ps_now s -> ps_pbt s' <= ps_now s -> vinv s' v.
Proof.
  intros s s' v Hn Hh Hb Ht Hc Hg Hp. unfold vinv, eff_bt. rewrite Hn.
  replace (pv_bh v =? 0) with false by (symmetry; apply Z.eqb_neq; lia). cbn [orb].
  destruct (Z.ltb_spec (pv_bt v) (ps_pbt s')); [lia|]. repeat split; lia.
Qed.

(* one step: the invariant is kept and every accrual of the step is legitimate *)
Lemma pstep_inv : forall s o s' cs,
  PInv s -> pop_wf o -> pstep calc s o = Ok (s', cs) ->
  PInv s' /\ (ps_intr s' = false -> Forall (legit_or_kf s) cs).
Proof.
  intros s o s' cs (Hh & Hf & HI) W H.
  assert (Hpre : ps_intr s' = false -> ps_intr s = false) by (eapply pstep_intr; eauto).
  destruct o as [dt dh|d|i|i dl|f]; cbn [pstep] in H; cbn [pop_wf] in W.
  - (* later block *)
    inversion H; subst; clear H. split; [|constructor].
    unfold PInv; cbn. split; [lia|split; [lia|]]. intros I A. destruct (HI I A) as (P1 & P2 & P3). split; [lia|split; [lia|]].
    eapply Forall_impl; [|exact P3]. unfold vinv, eff_bt; cbn. intros v (V1 & V2 & V3). split; [lia|]. split; [lia|].
    intros F. destruct (V3 F) as (? & ? & ?). repeat split; lia.
  - (* MsgCreate *)
    inversion H; subst; clear H. split; [|constructor].
    unfold PInv, with_vaults; cbn. split; [lia|split; [lia|]]. intros I A. destruct (HI I A) as (P1 & P2 & P3). split; [lia|split; [lia|]].
    apply Forall_app. split.
    + eapply Forall_impl; [|exact P3]. unfold vinv, eff_bt; cbn. tauto.
    + constructor; [|constructor]. unfold vinv; cbn. split; [lia|split; [lia|]]. intros F.
      unfold eff_bt; cbn. destruct (ps_fee s =? 0) eqn:F0; [apply Z.eqb_eq in F0; contradiction|].
      replace (ps_h s =? 0) with false by (symmetry; apply Z.eqb_neq; lia). cbn [orb].
      destruct (Z.ltb_spec (ps_now s) (ps_pbt s)); [lia|]. repeat split; lia.
  - (* MsgVaultInterestCalc *)
    destruct (nth_error (ps_vaults s) i) as [v|] eqn:N; try discriminate.
    destruct (calc_vault calc s i v) as [[v' c']| |] eqn:C; try discriminate. inversion H; subst; clear H.
    apply calc_vault_spec in C as [(-> & ->)|(A & F & B1 & B2 & B3 & B5 & x & -> & Ec)].
    + split; [|constructor]. unfold PInv, with_vaults; cbn. split; [lia|split; [lia|]]. intros I Ac. destruct (HI I Ac) as (P1 & P2 & P3).
      split; [lia|split; [lia|]]. apply Forall_set_nth; [exact P3|]. eapply nth_error_Forall; eauto.
    + split.
      * unfold PInv, with_vaults; cbn. split; [lia|split; [lia|]]. intros I Ac. destruct (HI I Ac) as (P1 & P2 & P3).
        split; [lia|split; [lia|]]. apply Forall_set_nth.
        -- eapply Forall_impl; [|exact P3]. unfold vinv, eff_bt; cbn. tauto.
        -- eapply (vinv_stamped s); cbn; auto.
      * intros I. constructor; [|constructor]. unfold legit_or_kf.
        destruct (HI (Hpre I) A) as (P1 & P2 & P3). pose proof (nth_error_Forall _ _ _ _ P3 N) as (V1 & V2 & V3).
        destruct (V3 F) as (Q1 & Q2 & Q3).
        unfold charge_legit; cbn. split; [reflexivity|]. split; [right; split; lia|]. split; [right; reflexivity|exact Ec].
  - (* a vault message: interest, then the stamp *)
    destruct (nth_error (ps_vaults s) i) as [v|] eqn:N; try discriminate.
    destruct (calc_vault calc s i v) as [[v' c']| |] eqn:C; try discriminate. inversion H; subst; clear H.
    split.
    + unfold PInv; cbn. split; [lia|split; [lia|]]. intros I Ac. destruct (HI I Ac) as (P1 & P2 & P3).
      split; [lia|split; [lia|]]. apply Forall_set_nth.
      * eapply Forall_impl; [|exact P3]. unfold vinv, eff_bt; cbn. tauto.
      * eapply (vinv_stamped s); cbn; auto.
    + intros I. apply calc_vault_spec in C as [(-> & ->)|(A & F & B1 & B2 & B3 & B5 & x & -> & Ec)]; [constructor|].
      constructor; [|constructor]. unfold legit_or_kf. cbn in I.
      destruct (HI I A) as (P1 & P2 & P3). pose proof (nth_error_Forall _ _ _ _ P3 N) as (V1 & V2 & V3).
      destruct (V3 F) as (Q1 & Q2 & Q3).
      unfold charge_legit; cbn. split; [reflexivity|]. split; [right; split; lia|]. split; [right; reflexivity|exact Ec].
  - (* WasmUpdatePairsVault *)
    unfold set_fee in H. fold (active s) in H.
    remember (if f =? ps_fee s then ps_tchg s else ps_now s) as tc eqn:Etc.
    assert (Tc : tc <= ps_now s \/ (ps_intr s = false -> active s = true -> False)).
    { destruct (ps_intr s) eqn:I; [right; discriminate|]. destruct (active s) eqn:A; [|right; discriminate].
      left. destruct (HI eq_refl eq_refl) as (P1 & P2 & P3). subst tc. destruct (f =? ps_fee s); lia. }
    assert (Tn0 : ps_fee s = 0 -> f <> 0 -> tc = ps_now s).
    { intros Z0 NZ. subst tc. replace (f =? ps_fee s) with false by (symmetry; apply Z.eqb_neq; lia). reflexivity. }
    clear Etc.
    destruct (active s) eqn:A.
    + destruct (f =? 0) eqn:F0.
      * (* switched off (or zero -> zero): sweep, the pair takes height 0 *)
        destruct (sweep calc (ps_now s) (ps_h s) (ps_fee s) (ps_pbt s) false 0 (ps_vaults s)) as [[[vs c'] intr]|] eqn:S; try discriminate.
        inversion H; subst; clear H. apply Z.eqb_eq in F0; subst f.
        split.
        -- unfold PInv; cbn. split; [lia|split; [lia|]]. intros I _. apply orb_false_elim in I as (I1 & I2). subst intr.
           destruct Tc as [Tc|Tc]; [|exfalso; auto]. apply sweep_spec in S as (SA & _). split; [lia|split; [lia|]].
           eapply Forall_impl; [|exact SA]. unfold vinv; cbn. intros v (E1 & E2 & E4). split; [lia|split; [lia|]]. intros X; contradiction.
        -- cbn. intros I. apply orb_false_elim in I as (I1 & I2). subst intr. apply sweep_spec in S as (_ & SB).
           destruct (HI I1 eq_refl) as (P1 & P2 & P3).
           eapply Forall_impl; [|exact SB]. cbn. intros c (In1 & E1 & E2 & E3 & E4). unfold legit_or_kf.
           unfold charge_legit. rewrite E3. split; [reflexivity|]. split; [|split; [left; exact E2|exact E4]].
           destruct (Z.eq_dec (ps_fee s) 0) as [Z0|NZ]; [left; exact Z0|right].
           rewrite Forall_forall in P3. destruct (P3 _ In1) as (V1 & V2 & V3).
           destruct (V3 NZ) as (Q1 & Q2 & Q3). unfold eff_bt in *. rewrite E1. split; lia.
      * destruct (ps_fee s =? 0) eqn:FZ.
        -- (* switched on: no vault visited *)
           inversion H; subst; clear H. split; [|constructor]. apply Z.eqb_eq in FZ. apply Z.eqb_neq in F0.
           unfold PInv; cbn. split; [lia|split; [lia|]]. intros I _.
           destruct Tc as [Tc|Tc]; [|exfalso; auto]. destruct (HI I eq_refl) as (P1 & P2 & P3). split; [lia|split; [lia|]].
           assert (Tn : tc = ps_now s) by (apply Tn0; lia).
           eapply Forall_impl; [|exact P3]. unfold vinv. cbn [ps_now ps_fee ps_tchg]. intros v (V1 & V2 & V3).
           split; [lia|split; [lia|]]. intros _. rewrite eff_bt_now; cbn; [lia|exact V2|reflexivity].
        -- destruct ((0 <? ps_fee s) && (0 <? f)) eqn:PP.
           ++ (* non-zero -> non-zero (or the same fee): sweep, the pair takes the block height *)
              destruct (sweep calc (ps_now s) (ps_h s) (ps_fee s) (ps_pbt s) true 0 (ps_vaults s)) as [[[vs c'] intr]|] eqn:S; try discriminate.
              inversion H; subst; clear H. apply Z.eqb_neq in FZ.
              split.
              ** unfold PInv; cbn. split; [lia|split; [lia|]]. intros I _. apply orb_false_elim in I as (I1 & I2). subst intr.
                 destruct Tc as [Tc|Tc]; [|exfalso; auto]. apply sweep_spec in S as (SA & _). split; [lia|split; [lia|]].
                 eapply Forall_impl; [|exact SA]. unfold vinv. cbn [ps_now ps_fee ps_tchg]. intros v (E1 & E2 & E4).
                 split; [lia|split; [lia|]]. intros _. rewrite eff_bt_now; cbn; [lia|lia|reflexivity].
              ** cbn. intros I. apply orb_false_elim in I as (I1 & I2). subst intr. apply sweep_spec in S as (_ & SB).
                 destruct (HI I1 eq_refl) as (P1 & P2 & P3).
                 eapply Forall_impl; [|exact SB]. cbn. intros c (In1 & E1 & E2 & E3 & E4). unfold legit_or_kf.
                 unfold charge_legit. rewrite E3. split; [reflexivity|]. split; [right|split; [left; exact E2|exact E4]].
                 rewrite Forall_forall in P3. destruct (P3 _ In1) as (V1 & V2 & V3).
                 destruct (V3 FZ) as (Q1 & Q2 & Q3). unfold eff_bt in *. rewrite E1. split; lia.
           ++ exfalso. apply Z.eqb_neq in FZ. apply Z.eqb_neq in F0. apply andb_false_iff in PP as [PP|PP]; apply Z.ltb_ge in PP; lia.
    + (* app not whitelisted / stable-mint pair: only the fee is stored *)
      inversion H; subst; clear H. split; [|constructor]. unfold PInv; cbn. split; [lia|split; [lia|]].
      intros _ Ac. unfold active in *; cbn in Ac. congruence.
Qed.

Lemma pstep_total_inv : forall s o s' cs, PInv s -> pop_wf o -> pstep_total calc s o = (s', cs) ->
  PInv s' /\ (ps_intr s' = false -> ps_intr s = false /\ Forall (legit_or_kf s) cs).
Proof.
  intros s o s' cs I W H. unfold pstep_total in H. destruct (pstep calc s o) as [[s1 c1]| |] eqn:E.
  - inversion H; subst. destruct (pstep_inv _ _ _ _ I W E) as (A & B). split; [exact A|]. intros J. split; [eapply pstep_intr; eauto|auto].
  - inversion H; subst. split; [exact I|]. intros J; split; [exact J|constructor].
  - inversion H; subst. split; [exact I|]. intros J; split; [exact J|constructor].
Qed.

Lemma prun_intr : forall ops s, Forall pop_wf ops -> ps_intr (fst (prun calc s ops)) = false -> ps_intr s = false.
Proof.
  induction ops as [|o tl IH]; intros s W H; cbn in *; [exact H|].
  destruct (pstep_total calc s o) as [s' cs] eqn:E. destruct (prun calc s' tl) as [sf lg] eqn:R. cbn in H.
  inversion W; subst. assert (ps_intr s' = false) by (apply IH; [assumption|rewrite R; exact H]).
  unfold pstep_total in E. destruct (pstep calc s o) as [[s1 c1]| |] eqn:E1; inversion E; subst; auto.
  eapply pstep_intr; eauto.
Qed.

(* every history *)
Theorem prun_legit : forall ops s, PInv s -> Forall pop_wf ops ->
  ps_intr (fst (prun calc s ops)) = false ->
  Forall (fun e => Forall (legit_or_kf (fst e)) (snd e)) (snd (prun calc s ops)).
Proof.
  induction ops as [|o tl IH]; intros s I W H; cbn in *; [constructor|].
  destruct (pstep_total calc s o) as [s' cs] eqn:E. destruct (prun calc s' tl) as [sf lg] eqn:R. cbn in *.
  inversion W; subst. destruct (pstep_total_inv _ _ _ _ I H2 E) as (I' & L).
  assert (J : ps_intr s' = false) by (eapply (prun_intr tl); [assumption|rewrite R; exact H]).
  constructor.
  - cbn. apply L; exact J.
  - specialize (IH s' I' H3). rewrite R in IH. apply IH. exact H.
Qed.

(* ---- from a legitimate accrual to the executable bound, under the laws of the accrual function ---- *)
Hypothesis calc_zero_time : forall t p r x, calc t t p r = Ok x -> x = 0.
Hypothesis calc_zero_rate : forall now bt p x, calc now bt p 0 = Ok x -> x = 0.
Hypothesis calc_nonneg : forall now bt p r x, calc now bt p r = Ok x -> 0 <= x.
Hypothesis calc_mono : forall now bt bt' p p' r x b, bt' <= bt -> bt <= now -> p <= p' ->
  calc now bt p r = Ok x -> calc now bt' p' r = Ok b -> x <= b.

Lemma legit_zero_fee : forall s c, charge_legit calc s c -> ps_fee s = 0 -> ch_amt c = 0.
Proof. intros s c (R & _ & _ & E) Z0. rewrite R, Z0 in E. eapply calc_zero_rate; eauto. Qed.

Lemma legit_zero_time : forall s c, charge_legit calc s c -> ps_fee s <> 0 ->
  ps_now s <= Z.max (pv_cov (ch_pre c)) (ps_tchg s) -> ch_amt c = 0.
Proof.
  intros s c (R & [Z0|(A & B)] & _ & E) NZ T; [contradiction|].
  assert (ch_from c = ps_now s) by lia. rewrite H in E. eapply calc_zero_time; eauto.
Qed.

Lemma legit_holds : forall s c, charge_legit calc s c -> 0 <= pv_intacc (ch_pre c) ->
  holds_C18_pair_charge calc (ps_now s) (ps_fee s) (ps_tchg s) (pv_cov (ch_pre c))
    (pv_debt (ch_pre c) + pv_intacc (ch_pre c)) (ch_amt c) = true.
Proof.
  intros s c L Hi. unfold holds_C18_pair_charge.
  pose proof L as (R & D & P & E).
  assert (0 <= ch_amt c) by (eapply calc_nonneg; eauto).
  apply andb_true_intro. split; [apply Z.leb_le; assumption|].
  destruct (ps_fee s =? 0) eqn:F0; cbn [orb].
  - apply Z.eqb_eq in F0. apply Z.eqb_eq. eapply legit_zero_fee; eauto.
  - apply Z.eqb_neq in F0.
    destruct (ps_now s <=? Z.max (pv_cov (ch_pre c)) (ps_tchg s)) eqn:T.
    + apply Z.leb_le in T. apply Z.eqb_eq. eapply legit_zero_time; eauto.
    + destruct (calc (ps_now s) (Z.max (pv_cov (ch_pre c)) (ps_tchg s)) (pv_debt (ch_pre c) + pv_intacc (ch_pre c)) (ps_fee s)) as [b| |] eqn:B; auto.
      apply Z.leb_le. destruct D as [Z0|(D1 & D2)]; [contradiction|].
      rewrite R in E. eapply (calc_mono _ _ _ _ _ _ _ _ D1 D2); [|exact E|exact B]. destruct P as [-> | ->]; lia.
Qed.

End PairProofs.
