(* Proofs about Model/Liquidity.v, part 2: the per-order accounting invariant [EInv] holds for every
   stored order in every state reachable by any finite history of operations (any ENV inputs).
   Instance of the generic sweep (LiquiditySweep.v). *)
From Comdex Require Import Lib.Base Lib.DecArith Lib.DecFacts Model.Liquidity Proofs.LiquidityProofs Proofs.LiquiditySweep.
From Coq Require Import ZifyBool Lia.

Definition rate_of (ap : list (Z * params)) (a : Z) : Z :=
  match aget ap a with Some P => pr_fee_rate P | None => 0 end.
Definition SInvL (ap : list (Z * params)) (st : list entry) : Prop :=
  Forall (fun e => EInv (rate_of ap (o_app (fst e))) e) st.
Definition SInv (s : state) : Prop := SInvL (apps s) (orders s).
(* the sweep instance: the registered apps are fixed at [ap] *)
Definition SI (ap : list (Z * params)) (s : state) : Prop := apps s = ap /\ SInvL ap (orders s).

Lemma Forall_upd (P : entry -> Prop) k e' st :
  Forall P st -> P e' -> Forall P (upd_order k (fun _ => e') st).
Proof.
  intros H He. unfold upd_order. apply Forall_forall. intros x Hx. apply in_map_iff in Hx.
  destruct Hx as (y & <- & Hy). destruct (k3_eqb (ekey y) k); [assumption|].
  eapply Forall_forall in H; eauto.
Qed.
Lemma Forall_ins (P : entry -> Prop) e st : Forall P st -> P e -> Forall P (ins_order e st).
Proof.
  intros H He. induction st as [|x r IH]; cbn [ins_order]; [constructor; auto|].
  inversion H; subst. destruct (k3_eqb (ekey x) (ekey e)); [constructor; auto|].
  destruct (k3_ltb (ekey e) (ekey x)); constructor; auto.
Qed.

Lemma fee_reserve_non_mm rate o : o_type o <> 3 -> fee_reserve rate o = fee_amt rate (o_offer o).
Proof. unfold fee_reserve. intros. destruct (o_type o =? 3) eqn:E; [lia|reflexivity]. Qed.

(* the rate FinishOrder reads is the rate of the invariant, or the order is market-making *)
Lemma finish_rate s (e : entry) rate :
  (if o_type (fst e) =? 3 then Some 0 else option_map pr_fee_rate (get_params s (o_app (fst e)))) = Some rate ->
  forall x, EInv (rate_of (apps s) (o_app (fst e))) x -> o_type (fst x) = o_type (fst e) -> EInv rate x.
Proof.
  intros Er x Hx Hty. destruct (o_type (fst e) =? 3) eqn:Ety.
  - injection Er as <-. revert Hx. unfold EInv, fee_reserve. rewrite Hty, Ety. auto.
  - unfold get_params in Er. unfold rate_of in Hx. destruct (aget (apps s) (o_app (fst e))); cbn in Er; [|discriminate].
    injection Er as <-. exact Hx.
Qed.
Lemma finish_rate_back s (e : entry) rate :
  (if o_type (fst e) =? 3 then Some 0 else option_map pr_fee_rate (get_params s (o_app (fst e)))) = Some rate ->
  forall x, EInv rate x -> o_type (fst x) = o_type (fst e) -> EInv (rate_of (apps s) (o_app (fst e))) x.
Proof.
  intros Er x Hx Hty. destruct (o_type (fst e) =? 3) eqn:Ety.
  - injection Er as <-. revert Hx. unfold EInv, fee_reserve. rewrite Hty, Ety. auto.
  - unfold get_params in Er. unfold rate_of. destruct (aget (apps s) (o_app (fst e))); cbn in Er; [|discriminate].
    injection Er as <-. exact Hx.
Qed.
Lemma finish_calc_type rate e st : o_type (fst (fst (fst (finish_calc rate e st)))) = o_type (fst e).
Proof.
  destruct e as [o g]. unfold finish_calc. cbn [fst].
  destruct (is_term (o_status o)); [reflexivity|]. destruct (o_type o =? 3); [reflexivity|].
  destruct (o_rem o >? 0); [destruct (o_rem o =? o_offer o)|]; reflexivity.
Qed.

Section Leaves.
Variable ap : list (Z * params).

Lemma si_finish s e st s' :
  SI ap s -> find_order (ekey e) (orders s) = Some e -> is_term st = true -> finish_entry s e st = Ok s' -> SI ap s'.
Proof.
  intros [HA HS] Hf Ht H. destruct (find_order_in _ _ _ Hf) as [Hin _]. unfold finish_entry in H.
  destruct (is_term (o_status (fst e))) eqn:El; [injection H as <-; split; assumption|].
  destruct (if o_type (fst e) =? 3 then Some 0 else option_map pr_fee_rate (get_params s (o_app (fst e)))) as [rate|] eqn:Er;
    [|discriminate].
  destruct (finish_calc rate e st) as [[e' refund] fee] eqn:Ec.
  unfold obind in H. inv_ok H; subst s'; sends. split; [exact HA|]. proj_cbn.
  apply Forall_upd; [exact HS|].
  pose proof (proj1 (Forall_forall _ _) HS e Hin) as He. cbn beta in He. rewrite <- HA in He.
  pose proof (finish_calc_law rate e st (finish_rate s e rate Er e He eq_refl) El Ht) as L. rewrite Ec in L. cbn [fst snd] in L.
  destruct L as (L1 & _ & _ & Lk).
  assert (o_app (fst e') = o_app (fst e)) as Happ. { unfold ekey, okey in Lk. congruence. }
  rewrite Happ, <- HA. apply (finish_rate_back s e rate Er); [exact L1|].
  pose proof (finish_calc_type rate e st) as T. rewrite Ec in T. exact T.
Qed.

Lemma si_place s m typ pr price offer fee now s' P :
  SI ap s -> get_params s (m_app m) = Some P -> find_pair (m_app m) (m_pair m) (pairs s) = Some pr ->
  fee = fee_amt (pr_fee_rate P) offer -> typ = 1 \/ typ = 2 ->
  place s m typ pr price offer fee now = Ok s' -> SI ap s'.
Proof.
  intros [HA HS] HP _ Hfee Hty H. unfold place, obind in H.
  destruct (offer <? 0) eqn:Hoff; [discriminate|]. inv_ok H; subst s'; sends.
  split; [exact HA|]. proj_cbn. apply Forall_ins; [exact HS|]. cbn [fst o_app].
  subst fee. rewrite <- HA.
  assert (rate_of (apps s) (m_app m) = pr_fee_rate P) as ->. { unfold rate_of. unfold get_params in HP. rewrite HP. reflexivity. }
  match goal with |- EInv ?r (?o, _) => replace (fee_amt r offer) with (fee_reserve r o) by (rewrite fee_reserve_non_mm; [reflexivity|cbn; lia]) end.
  apply new_order_law. lia.
Qed.

Lemma mm_place_inv app owner now life pr buy ticks : forall id st,
  SInvL ap st -> existsb (fun t : Z * Z * Z => snd t <? 0) ticks = false ->
  SInvL ap (fst (fst (mm_place app owner now life pr buy ticks id st))).
Proof.
  induction ticks as [|[[price amt] off] r IH]; intros id st HS Hn; cbn [mm_place]; [exact HS|].
  cbn [existsb snd] in Hn. apply orb_false_iff in Hn. destruct Hn as [Hoff Hr].
  specialize (IH (id + 1)
    (ins_order (mkOrder app (p_id pr) (id + 1) owner buy 3 (if buy then p_quote pr else p_base pr)
                        (if buy then p_base pr else p_quote pr) off off 0 price amt amt (p_batch pr) (now + life) 1, new_ghost off) st)).
  destruct (mm_place app owner now life pr buy r (id + 1) _) as [[st' ids] last] eqn:E. cbn [fst].
  cbn [fst] in IH. apply IH; [|assumption].
  apply Forall_ins; [assumption|]. cbn [fst o_app].
  match goal with |- EInv ?rt (?o, _) => replace (new_ghost off) with (new_ghost (off + fee_reserve rt o)) by (unfold fee_reserve; cbn; f_equal; lia) end.
  apply new_order_law. lia.
Qed.

Lemma si_mm_tail s m pr bt st now s' :
  SI ap s ->
  existsb (fun t : Z * Z * Z => snd t <? 0) (bt ++ st) = false ->
  mm_tail s m pr bt st now = Ok s' -> SI ap s'.
Proof.
  intros [HA HS] Eneg H. unfold mm_tail, obind in H.
  destruct (ssend s _ _ _ _) as [s2| |] eqn:E2; try discriminate.
  destruct (ssend s2 _ _ _ _) as [s3| |] eqn:E3; try discriminate.
  destruct (mm_place _ _ _ _ pr true bt _ (orders s3)) as [[st1 ids1] last1] eqn:M1.
  destruct (mm_place _ _ _ _ pr false st last1 st1) as [[st2 ids2] last2] eqn:M2.
  injection H as <-. sends. proj_cbn. split; [exact HA|].
  rewrite existsb_app in Eneg. apply orb_false_iff in Eneg. destruct Eneg as [N1 N2].
  pose proof (mm_place_inv (mm_app m) (mm_owner m) now (mm_life m) pr true bt (p_last_order pr) (orders s) HS N1) as I1.
  rewrite M1 in I1. cbn [fst] in I1.
  pose proof (mm_place_inv (mm_app m) (mm_owner m) now (mm_life m) pr false st last1 st1 I1 N2) as I2.
  rewrite M2 in I2. exact I2.
Qed.

Lemma si_fill_book s k o g matched paid recv :
  SI ap s -> find_order k (orders s) = Some (o, g) -> is_live (o_status o) = true ->
  0 <= o_rem o - paid -> 0 <= paid -> 0 <= recv -> SI ap (fill_book s k o g matched paid recv).
Proof.
  intros [HA HS] Hf Hl Hp _ _. destruct k as [[a p] i]. unfold fill_book. proj_cbn. split; [exact HA|].
  destruct (find_order_in _ _ _ Hf) as [Hin _].
  apply Forall_upd; [exact HS|]. pose proof (proj1 (Forall_forall _ _) HS _ Hin) as He. cbn [fst] in He |- *.
  replace (o_app (set_fill o matched paid recv (o_status o))) with (o_app o) by reflexivity.
  unfold fill_ghost. apply fill_law; try assumption; apply live_not_term, Hl.
Qed.

Lemma si_mark_status s k o g st :
  SI ap s -> find_order k (orders s) = Some (o, g) -> is_term (o_status o) = false -> is_term st = false ->
  SI ap (mark_status s k o g st).
Proof.
  intros [HA HS] Hf Hl Ht. proj_cbn. split; [exact HA|]. destruct (find_order_in _ _ _ Hf) as [Hin _].
  apply Forall_upd; [exact HS|]. pose proof (proj1 (Forall_forall _ _) HS _ Hin) as He. cbn [fst] in He |- *.
  replace (o_app (set_status o st)) with (o_app o) by reflexivity. apply set_status_law; assumption.
Qed.

Lemma si_begin_app s app : SI ap s -> SI ap (begin_app app s).
Proof.
  intros [HA HS]. unfold begin_app. proj_cbn. split; [exact HA|].
  apply Forall_forall. intros e He. apply filter_In in He. destruct He as [He _].
  eapply Forall_forall in HS; eauto.
Qed.

(* everything else leaves [apps] and [orders] alone *)
Ltac si_frame H s' := inv_ok H; try subst s'; sends; proj_cbn; assumption.

Lemma si_esc_in s a p f d x s' : SI ap s -> is_outside f = true -> esc_in s a p f d x = Ok s' -> SI ap s'.
Proof. unfold SI, esc_in, obind. intros HI _ H. si_frame H s'. Qed.
Lemma si_esc_out s a p t d x s' : SI ap s -> is_outside t = true -> esc_out s a p t d x = Ok s' -> SI ap s'.
Proof. unfold SI, esc_out, obind. intros HI _ H. si_frame H s'. Qed.
Lemma si_create_pair s a c b q s' : SI ap s -> create_pair s a c b q = Ok s' -> SI ap s'.
Proof. unfold SI, create_pair, obind. intros HI H. si_frame H s'. Qed.
Lemma si_new_pool s P a c pr rg ax ay ps s' : SI ap s -> new_pool s P a c pr rg ax ay ps = Ok s' -> SI ap s'.
Proof. unfold SI, new_pool, obind. intros HI H. si_frame H s'. Qed.
Lemma si_deposit_req s a o p x y s' r : SI ap s -> deposit_req s a o p x y = Ok (s', r) -> SI ap s'.
Proof. unfold SI, deposit_req, obind. intros HI H. si_frame H s'. Qed.
Lemma si_withdraw_req s a o p pc s' r : SI ap s -> withdraw_req s a o p pc = Ok (s', r) -> SI ap s'.
Proof. unfold SI, withdraw_req, obind. intros HI H. si_frame H s'. Qed.
Lemma si_fail_dep s r s' : SI ap s -> fail_dep s r = Ok s' -> SI ap s'.
Proof. unfold SI, fail_dep, obind. intros HI H. si_frame H s'. Qed.
Lemma si_fail_wd s r s' : SI ap s -> fail_wd s r = Ok s' -> SI ap s'.
Proof. unfold SI, fail_wd, obind. intros HI H. si_frame H s'. Qed.
Lemma si_do_deposit s r pr ax ay pc s' : SI ap s -> do_deposit s r pr ax ay pc = Ok s' -> SI ap s'.
Proof. unfold SI, do_deposit, obind. intros HI H. si_frame H s'. Qed.
Lemma si_do_withdraw s r pl pr x y s' : SI ap s -> do_withdraw s r pl pr x y = Ok s' -> SI ap s'.
Proof. unfold SI, do_withdraw, obind. intros HI H. si_frame H s'. Qed.
Lemma si_farm s a o p amt now s' : SI ap s -> farm s a o p amt now = Ok s' -> SI ap s'.
Proof. unfold SI, farm, obind. intros HI H. si_frame H s'. Qed.
Lemma si_unfarm s a o p amt s' : SI ap s -> unfarm s a o p amt = Ok s' -> SI ap s'.
Proof. unfold SI, unfarm, obind. intros HI H. si_frame H s'. Qed.
Lemma si_process_queued s now app : SI ap s -> SI ap (process_queued now app s).
Proof.
  unfold process_queued. intros HI. destruct (get_params s app); [|exact HI].
  revert HI. apply fold_left_inv. intros s0 q HI. unfold process_qf.
  destruct (filter _ (q_coins q)); [exact HI|]. exact HI.
Qed.

Theorem si_run ops s : Forall (fun o => is_addapp o = false) ops -> SI ap s -> SI ap (fold_left apply_op ops s).
Proof.
  intros Ho. apply (sw_run (SI ap)); try assumption.
  - exact si_finish.
  - exact si_place.
  - intros; assumption.
  - intros; eapply si_mm_tail; eauto.
  - exact si_fill_book.
  - intros s0 k o g st HI Hf Hl [-> | ->]; apply si_mark_status; auto.
  - exact si_esc_in.
  - exact si_esc_out.
  - intros; assumption.
  - intros; assumption.
  - exact si_begin_app.
  - exact si_create_pair.
  - intros; eapply si_new_pool; eauto.
  - exact si_deposit_req.
  - exact si_withdraw_req.
  - intros; eapply si_fail_dep; eauto.
  - intros; eapply si_fail_wd; eauto.
  - intros; assumption.
  - intros; eapply si_do_deposit; eauto.
  - intros; eapply si_do_withdraw; eauto.
  - exact si_farm.
  - exact si_unfarm.
  - exact si_process_queued.
  - intros; assumption.
  - intros; assumption.
Qed.
End Leaves.

(* ---------------- the setup prefix leaves the stores empty ---------------- *)
Lemma setup_no_orders s o : is_setup o = true -> orders s = [] -> orders (apply_op s o) = [].
Proof.
  destruct o; cbn [is_setup]; try discriminate; intros _ H; unfold apply_op; cbn [step].
  - destruct (has_app s app); cbn; assumption.
  - cbn. assumption.
  - cbn. assumption.
Qed.

(* every state reachable by a setup prefix (app / asset registrations, funding) followed by ANY finite
   history of the other operations, with ANY ENV inputs, satisfies the per-order invariant *)
Theorem run_sinv setup ops :
  Forall (fun o => is_setup o = true) setup -> Forall (fun o => is_addapp o = false) ops ->
  SInv (fold_left apply_op ops (fold_left apply_op setup init)).
Proof.
  intros Hs Ho.
  assert (H0 : orders (fold_left apply_op setup init) = []).
  { assert (G : forall s, orders s = [] -> orders (fold_left apply_op setup s) = []).
    { induction Hs as [|o r Ho' _ IH]; intros s Hs0; cbn [fold_left]; [assumption|]. apply IH. apply setup_no_orders; assumption. }
    apply G. reflexivity. }
  set (s0 := fold_left apply_op setup init) in *.
  assert (S0 : SI (apps s0) s0). { split; [reflexivity|]. unfold SInvL. rewrite H0. constructor. }
  destruct (si_run (apps s0) ops s0 Ho S0) as [HA HS]. unfold SInv. rewrite HA. exact HS.
Qed.
