(* Proofs about Model/Liquidity.v, part 2: the per-order invariant holds for every stored order in
   every state reachable by any finite history of operations (any ENV inputs). *)
From Comdex Require Import Lib.Base Lib.DecArith Lib.DecFacts Model.Liquidity Proofs.LiquidityProofs.
From Coq Require Import ZifyBool Lia.

Definition rate_of (ap : list (Z * params)) (a : Z) : Z :=
  match aget ap a with Some P => pr_fee_rate P | None => 0 end.
Definition SInvL (ap : list (Z * params)) (st : list entry) : Prop :=
  Forall (fun e => EInv (rate_of ap (o_app (fst e))) e) st.
Definition SInv (s : state) : Prop := SInvL (apps s) (orders s).

(* the relation every successful transition satisfies *)
Definition R (s s' : state) : Prop := apps s' = apps s /\ (SInv s -> SInv s').
Definition keepo (s s' : state) : Prop := apps s' = apps s /\ orders s' = orders s.

Lemma R_refl s : R s s. Proof. split; auto. Qed.
Lemma R_trans s1 s2 s3 : R s1 s2 -> R s2 s3 -> R s1 s3.
Proof. intros [A1 B1] [A2 B2]. split; [congruence|auto]. Qed.
Lemma keepo_R s s' : keepo s s' -> R s s'.
Proof. intros [A B]. split; [assumption|]. unfold SInv. rewrite A, B. auto. Qed.
Lemma keepo_refl s : keepo s s. Proof. split; auto. Qed.
Lemma keepo_trans s1 s2 s3 : keepo s1 s2 -> keepo s2 s3 -> keepo s1 s3.
Proof. intros [A1 B1] [A2 B2]. split; congruence. Qed.

(* generic inversion of [f ... = Ok s'] into its success path *)
Ltac inv_ok H :=
  repeat first
    [ discriminate H
    | progress (match type of H with
                | context [match ?x with _ => _ end] => let E := fresh "E" in destruct x eqn:E
                end) ];
  try (injection H as H).

(* ---------------- store primitives ---------------- *)
Lemma find_order_in k st e : find_order k st = Some e -> In e st /\ k3_eqb (ekey e) k = true.
Proof.
  induction st as [|x r IH]; cbn [find_order]; [discriminate|]. destruct (k3_eqb (ekey x) k) eqn:E.
  - intros H. injection H as H. subst x. split; [left; reflexivity|assumption].
  - intros H. destruct (IH H). split; [right; assumption|assumption].
Qed.

Lemma Forall_upd (P : entry -> Prop) k e' st :
  Forall P st -> P e' -> Forall P (upd_order k (fun _ => e') st).
Proof.
  intros H He. unfold upd_order. apply Forall_forall. intros x Hx. apply in_map_iff in Hx.
  destruct Hx as (y & <- & Hy). destruct (k3_eqb (ekey y) k); [assumption|].
  eapply Forall_forall in H; eauto.
Qed.

Lemma Forall_ins (P : entry -> Prop) e st : Forall P st -> P e -> Forall P (ins_order e st).
Proof.
  intros H He. induction st as [|x r IH]; cbn [ins_order]; [constructor; auto|].
  inversion H; subst. destruct (k3_eqb (ekey x) (ekey e)); [constructor; auto|].
  destruct (k3_ltb (ekey e) (ekey x)); constructor; auto.
Qed.

Lemma k3_eqb_app e k a p i : k3_eqb (ekey e) k = true -> k = (a, p, i) -> o_app (fst e) = a.
Proof. unfold ekey, okey, k3_eqb. intros H ->. lia. Qed.

(* ---------------- ssend and the pure setters ---------------- *)
Lemma ssend_keepo s a b d x s' : ssend s a b d x = Ok s' -> keepo s s'.
Proof. unfold ssend. intros H. destruct (send (led s) a b d x); try discriminate. injection H as <-. split; reflexivity. Qed.

Lemma fold_m_R {A} (f : state -> A -> outcome state) l :
  (forall s x s', f s x = Ok s' -> R s s') -> forall s s', fold_m f l s = Ok s' -> R s s'.
Proof.
  intros Hf. induction l as [|x r IH]; cbn; intros s s' H.
  - injection H as <-. apply R_refl.
  - destruct (f s x) eqn:E; cbn in H; try discriminate. eapply R_trans; [eapply Hf; eauto|eauto].
Qed.
Lemma fold_m_keepo {A} (f : state -> A -> outcome state) l :
  (forall s x s', f s x = Ok s' -> keepo s s') -> forall s s', fold_m f l s = Ok s' -> keepo s s'.
Proof.
  intros Hf. induction l as [|x r IH]; cbn; intros s s' H.
  - injection H as <-. apply keepo_refl.
  - destruct (f s x) eqn:E; cbn in H; try discriminate. eapply keepo_trans; [eapply Hf; eauto|eauto].
Qed.

(* ---------------- FinishOrder on a stored order ---------------- *)
Lemma finish_entry_R s e st s' :
  In e (orders s) -> is_term st = true -> finish_entry s e st = Ok s' -> R s s'.
Proof.
  intros Hin Ht H. unfold finish_entry in H.
  destruct (is_term (o_status (fst e))) eqn:El; [injection H as <-; apply R_refl|].
  destruct (if o_type (fst e) =? 3 then Some 0 else option_map pr_fee_rate (get_params s (o_app (fst e)))) as [rate|] eqn:Er;
    [|discriminate].
  destruct (finish_calc rate e st) as [[e' refund] fee] eqn:Ec.
  unfold obind in H.
  destruct (ssend s _ _ _ refund) as [s1| |] eqn:E1; try discriminate.
  destruct (ssend s1 _ _ _ fee) as [s2| |] eqn:E2; try discriminate.
  injection H as <-.
  destruct (ssend_keepo _ _ _ _ _ _ E1) as [A1 B1]. destruct (ssend_keepo _ _ _ _ _ _ E2) as [A2 B2].
  split; [cbn; congruence|]. unfold SInv. cbn [apps orders set_owed set_orders]. rewrite A2, A1, B2, B1.
  intros HS. apply Forall_upd; [assumption|].
  pose proof (proj1 (Forall_forall _ _) HS e Hin) as He. cbn beta in He.
  (* the rate the code uses is the rate of the invariant, or the order is market-making (rate irrelevant) *)
  assert (Hrate : EInv rate e).
  { destruct (o_type (fst e) =? 3) eqn:Ety.
    - injection Er as <-. revert He. unfold EInv, fee_reserve. rewrite Ety. auto.
    - unfold get_params in Er. unfold rate_of in He. destruct (aget (apps s) (o_app (fst e))); cbn in Er; [|discriminate].
      injection Er as <-. exact He. }
  pose proof (finish_calc_law rate e st Hrate El Ht) as L. rewrite Ec in L. cbn [fst snd] in L.
  destruct L as (L1 & _ & _ & Lk).
  assert (o_app (fst e') = o_app (fst e)) as Happ. { unfold ekey, okey in Lk. congruence. }
  rewrite Happ.
  destruct (o_type (fst e) =? 3) eqn:Ety.
  - assert (o_type (fst e') = o_type (fst e)) as Hty.
    { revert Ec. unfold finish_calc. destruct e as [o g]. cbn [fst] in *. rewrite El, Ety.
      destruct (o_rem o >? 0); intros [= <- _ _]; reflexivity. }
    revert L1. unfold EInv, fee_reserve. rewrite Hty, Ety. auto.
  - unfold get_params in Er. unfold rate_of. destruct (aget (apps s) (o_app (fst e))); cbn in Er; [|discriminate].
    injection Er as <-. exact L1.
Qed.

Lemma finish_at_R s k st s' : is_term st = true -> finish_at s k st = Ok s' -> R s s'.
Proof.
  unfold finish_at. intros Ht H. destruct (find_order k (orders s)) eqn:E; [|injection H as <-; apply R_refl].
  eapply finish_entry_R; eauto. apply (find_order_in _ _ _ E).
Qed.

(* ---------------- placement ---------------- *)
Lemma fee_reserve_non_mm rate o : o_type o <> 3 -> fee_reserve rate o = fee_amt rate (o_offer o).
Proof. unfold fee_reserve. intros. destruct (o_type o =? 3) eqn:E; [lia|reflexivity]. Qed.

Lemma place_R s m typ pr price offer fee now s' P :
  get_params s (m_app m) = Some P -> fee = fee_amt (pr_fee_rate P) offer -> typ <> 3 ->
  place s m typ pr price offer fee now = Ok s' -> R s s'.
Proof.
  intros HP Hfee Hty H. unfold place, obind in H.
  destruct (offer <? 0) eqn:Hoff; [discriminate|].
  destruct (ssend s _ _ _ _) as [s1| |] eqn:E1; try discriminate. injection H as <-.
  destruct (ssend_keepo _ _ _ _ _ _ E1) as [A1 B1].
  split; [cbn; congruence|]. unfold SInv. cbn [apps orders set_owed set_orders set_pairs]. rewrite A1, B1.
  intros HS. apply Forall_ins; [assumption|]. cbn [fst o_app].
  assert (rate_of (apps s) (m_app m) = pr_fee_rate P) as ->. { unfold rate_of. unfold get_params in HP. rewrite HP. reflexivity. }
  subst fee.
  match goal with |- EInv ?r (?o, _) => replace (fee_amt r offer) with (fee_reserve r o) by (rewrite fee_reserve_non_mm; [reflexivity|cbn; assumption]) end.
  apply new_order_law. lia.
Qed.

Lemma limit_order_R s m now s' : limit_order s m now = Ok s' -> R s s'.
Proof.
  intros H. unfold limit_order in H.
  destruct (negb (vb_limit m)) eqn:Evb; [discriminate|].
  destruct (get_params s (m_app m)) as [P|] eqn:EP; [|discriminate].
  inv_ok H; (eapply (place_R s m 1 _ _ _ _ now s' P EP eq_refl); [discriminate|eassumption]).
Qed.

Lemma market_order_R s m now s' : market_order s m now = Ok s' -> R s s'.
Proof.
  intros H. unfold market_order in H.
  destruct (negb (vb_market m)) eqn:Evb; [discriminate|].
  destruct (get_params s (m_app m)) as [P|] eqn:EP; [|discriminate].
  inv_ok H; (eapply (place_R s m 2 _ _ _ _ now s' P EP eq_refl); [discriminate|eassumption]).
Qed.

(* ---------------- cancellation ---------------- *)
Lemma cancel_order_R s app owner pair id s' : cancel_order s app owner pair id = Ok s' -> R s s'.
Proof.
  intros H. unfold cancel_order in H.
  destruct (find_order (app, pair, id) (orders s)) eqn:Ef; inv_ok H; try discriminate.
  all: try (eapply (finish_entry_R _ _ 5 _); [apply (find_order_in _ _ _ Ef)|reflexivity|eassumption]).
Qed.

Lemma cancel_all_R s app owner pids s' : cancel_all s app owner pids = Ok s' -> R s s'.
Proof.
  intros H. unfold cancel_all in H.
  repeat match type of H with (if ?c then _ else _) = _ => destruct c; [discriminate|] end.
  revert H. apply fold_m_R. clear. intros s k s' H.
  destruct (find_order k (orders s)) eqn:Ef; [|injection H as <-; apply R_refl].
  inv_ok H; try (subst; apply R_refl); try (eapply (finish_entry_R _ _ 5 _); [apply (find_order_in _ _ _ Ef)|reflexivity|eassumption]).
Qed.

Lemma set_mmidx_R s v : R s (set_mmidx s v). Proof. apply keepo_R. split; reflexivity. Qed.

Lemma cancel_mm_inner_R s app owner pr skip s' : cancel_mm_inner s app owner pr skip = Ok s' -> R s s'.
Proof.
  intros H. unfold cancel_mm_inner in H. destruct (find_mm app owner (p_id pr) (mmidx s)) as [ix|].
  - unfold obind in H. destruct (fold_m _ (mi_ids ix) s) as [s1| |] eqn:Ef; try discriminate. injection H as <-.
    eapply R_trans; [|apply set_mmidx_R]. revert Ef. apply fold_m_R. clear. intros s id s' H.
    destruct (find_order (p_id pr, app, id) (orders s)) eqn:Ef; [|injection H as <-; apply R_refl].
    inv_ok H; try (subst; apply R_refl); try (eapply (finish_entry_R _ _ 5 _); [apply (find_order_in _ _ _ Ef)|reflexivity|eassumption]).
  - destruct skip; [injection H as <-; apply R_refl|discriminate].
Qed.

Lemma cancel_mm_R s app owner pair s' : cancel_mm s app owner pair = Ok s' -> R s s'.
Proof.
  unfold cancel_mm. intros H. destruct (pair =? 0); [discriminate|].
  destruct (find_pair app pair (pairs s)); [|discriminate]. eapply cancel_mm_inner_R; eauto.
Qed.

(* ---------------- market-making orders ---------------- *)
Lemma mm_place_inv ap app owner now life pr buy ticks : forall id st,
  SInvL ap st -> existsb (fun t : Z * Z * Z => snd t <? 0) ticks = false ->
  SInvL ap (fst (fst (mm_place app owner now life pr buy ticks id st))).
Proof.
  induction ticks as [|[[price amt] off] r IH]; intros id st HS Hn; cbn [mm_place]; [exact HS|].
  cbn [existsb snd] in Hn. apply orb_false_iff in Hn. destruct Hn as [Hoff Hr].
  specialize (IH (id + 1)
    (ins_order (mkOrder app (p_id pr) (id + 1) owner buy 3 (if buy then p_quote pr else p_base pr)
                        (if buy then p_base pr else p_quote pr) off off 0 price amt amt (p_batch pr) (now + life) 1, new_ghost off) st)).
  destruct (mm_place app owner now life pr buy r (id + 1) _) as [[st' ids] last] eqn:E. cbn [fst].
  cbn [fst] in IH. apply IH; [|assumption].
  apply Forall_ins; [assumption|]. cbn [fst o_app].
  match goal with |- EInv ?rt (?o, _) => replace (new_ghost off) with (new_ghost (off + fee_reserve rt o)) by (unfold fee_reserve; cbn; f_equal; lia) end.
  apply new_order_law. lia.
Qed.

Lemma mm_order_R s m now s' : mm_order s m now = Ok s' -> R s s'.
Proof.
  intros H. unfold mm_order in H.
  destruct (negb (vb_mm m)); [discriminate|].
  destruct (get_params s (mm_app m)) as [P|]; [|discriminate].
  repeat match type of H with (if ?c then _ else _) = _ => destruct c; [discriminate|] end.
  destruct (find_pair (mm_app m) (mm_pair m) (pairs s)) as [pr|]; [|discriminate].
  destruct (match p_last_price pr with Some lp => _ | None => _ end) as [lo hi].
  repeat match type of H with (if ?c then _ else _) = _ => destruct c; [discriminate|] end.
  destruct (if mm_buy_amt m >? 0 then _ else Some []) as [bt|]; [|discriminate].
  destruct (if mm_sell_amt m >? 0 then _ else Some []) as [stt|]; [|discriminate].
  destruct (existsb _ (bt ++ stt)) eqn:Eneg; [discriminate|].
  repeat match type of H with (if ?c then _ else _) = _ => destruct c; [discriminate|] end.
  unfold obind in H.
  destruct (cancel_mm_inner s _ _ pr true) as [s1| |] eqn:E1; try discriminate.
  destruct (ssend s1 _ _ _ _) as [s2| |] eqn:E2; try discriminate.
  destruct (ssend s2 _ _ _ _) as [s3| |] eqn:E3; try discriminate.
  destruct (mm_place _ _ _ _ pr true bt _ (orders s3)) as [[st1 ids1] last1] eqn:M1.
  destruct (mm_place _ _ _ _ pr false stt last1 st1) as [[st2 ids2] last2] eqn:M2.
  injection H as <-.
  pose proof (cancel_mm_inner_R _ _ _ _ _ _ E1) as R1.
  pose proof (keepo_R _ _ (ssend_keepo _ _ _ _ _ _ E2)) as R2.
  pose proof (keepo_R _ _ (ssend_keepo _ _ _ _ _ _ E3)) as R3.
  eapply R_trans; [exact R1|]. eapply R_trans; [exact R2|]. eapply R_trans; [exact R3|].
  split; [reflexivity|]. unfold SInv. cbn [apps orders set_mmidx set_owed set_pairs set_orders].
  intros HS. rewrite existsb_app in Eneg. apply orb_false_iff in Eneg. destruct Eneg as [N1 N2].
  pose proof (mm_place_inv (apps s3) (mm_app m) (mm_owner m) now (mm_life m) pr true bt (p_last_order pr) (orders s3) HS N1) as I1.
  rewrite M1 in I1. cbn [fst] in I1.
  pose proof (mm_place_inv (apps s3) (mm_app m) (mm_owner m) now (mm_life m) pr false stt last1 st1 I1 N2) as I2.
  rewrite M2 in I2. exact I2.
Qed.

(* ---------------- batch execution ---------------- *)
Lemma set_surplus_owed_keepo s v w : keepo s (set_surplus (set_owed s v) w). Proof. split; reflexivity. Qed.

Lemma apply_fill_R s app pair f s' : apply_fill s app pair f = Ok s' -> R s s'.
Proof.
  destruct f as [[[id matched] paid] recv]. unfold apply_fill. intros H.
  destruct (find_order (app, pair, id) (orders s)) as [[o g]|] eqn:Ef; [|discriminate].
  destruct (negb (is_live (o_status o))) eqn:El; [discriminate|].
  destruct ((o_rem o - paid <? 0) || (paid <? 0) || (recv <? 0)) eqn:Eg; [discriminate|].
  assert (Hlt : is_term (o_status o) = false).
  { unfold is_live, is_term in *. destruct (o_status o =? 1) eqn:?, (o_status o =? 2) eqn:?, (o_status o =? 3) eqn:?; cbn in El; try discriminate; lia. }
  destruct (find_order_in _ _ _ Ef) as [Hin Hk].
  assert (Happ : o_app o = app). { unfold ekey, okey, k3_eqb in Hk. cbn [fst] in Hk. lia. }
  set (o1 := set_fill o matched paid recv (o_status o)) in *.
  set (g1 := mkGhost (g_taken g) (g_ret_offer g) (g_ret_fee g) (g_recv g + recv) (g_fee_fwd g) ((matched, paid, recv) :: g_fills g)) in *.
  set (s1 := set_orders s (upd_order (app, pair, id) (fun _ => (o1, g1)) (orders s))) in *.
  set (s2 := set_surplus (set_owed s1 _) _) in *.
  assert (R12 : R s s2).
  { split; [reflexivity|]. unfold SInv. cbn [apps orders s2 s1 set_surplus set_owed set_orders]. intros HS.
    apply Forall_upd; [assumption|]. pose proof (proj1 (Forall_forall _ _) HS _ Hin) as He. cbn [fst] in He |- *.
    unfold o1 at 1. cbn [set_fill o_app]. apply fill_law; try assumption. lia. }
  unfold obind in H.
  destruct (if o_open o1 =? 0 then _ else _) as [s3| |] eqn:E3; try discriminate.
  eapply R_trans; [exact R12|]. eapply R_trans; [|eapply keepo_R, ssend_keepo; exact H].
  destruct (o_open o1 =? 0).
  - eapply (finish_entry_R _ _ 4 _); [|reflexivity|exact E3].
    cbn [orders s2 s1 set_surplus set_owed set_orders]. unfold upd_order. apply in_map_iff. exists (o, g). rewrite Hk. auto.
  - injection E3 as <-. split; [reflexivity|]. unfold SInv. cbn [apps orders set_orders]. intros HS.
    apply Forall_upd; [assumption|].
    assert (Hin1 : In (o1, g1) (orders s2)).
    { cbn [orders s2 s1 set_surplus set_owed set_orders]. unfold upd_order. apply in_map_iff. exists (o, g). rewrite Hk. auto. }
    pose proof (proj1 (Forall_forall _ _) HS _ Hin1) as He. cbn [fst] in He |- *.
    replace (o_app (set_status o1 3)) with (o_app o1) by reflexivity.
    apply set_status_law; [exact He| |reflexivity]. unfold o1. cbn [set_fill o_status]. exact Hlt.
Qed.

Lemma apply_pool_flow_keepo c app pr s f s' : apply_pool_flow c app pr s f = Ok s' -> keepo s s'.
Proof.
  destruct f as [[pid dq] db]. unfold apply_pool_flow, obind. intros H.
  inv_ok H; subst.
  all: repeat match goal with E : context [match _ with _ => _ end] |- _ => inv_ok E end; subst.
  all: repeat match goal with E : ssend _ _ _ _ _ = Ok _ |- _ => apply ssend_keepo in E; destruct E as [? ?] end.
  all: split; simpl in *; congruence.
Qed.

Lemma execute_matching_R now s pr env s' : execute_matching now s pr env = Ok s' -> R s s'.
Proof.
  unfold execute_matching, obind. intros H.
  destruct (fold_m _ (map ekey _) s) as [s1| |] eqn:E1; try discriminate.
  match type of H with match ?x with _ => _ end = _ => destruct x as [s3| |] eqn:E3; try discriminate end.
  injection H as <-.
  assert (R1 : R s s1).
  { revert E1. apply fold_m_R. clear. intros s k s' H.
    destruct (find_order k (orders s)) as [[o g]|] eqn:Ef; [|injection H as <-; apply R_refl].
    destruct (find_order_in _ _ _ Ef) as [Hin Hk].
    destruct (is_live (o_status o)) eqn:El.
    - destruct (negb (o_status o =? 1) && (o_expire o <=? now)).
      + eapply (finish_entry_R _ _ 6 _); [exact Hin|reflexivity|exact H].
      + destruct (o_status o =? 1) eqn:E1; [|injection H as <-; apply R_refl].
        injection H as <-. split; [reflexivity|]. unfold SInv. cbn [apps orders set_orders]. intros HS.
        apply Forall_upd; [assumption|]. pose proof (proj1 (Forall_forall _ _) HS _ Hin) as He. cbn [fst] in He |- *.
        replace (o_app (set_status o 2)) with (o_app o) by reflexivity.
        apply set_status_law; [exact He| |reflexivity]. unfold is_term. lia.
    - destruct (o_status o =? 5); [injection H as <-; apply R_refl|discriminate]. }
  eapply R_trans; [exact R1|].
  set (s2 := set_pools s1 _) in *.
  assert (R2 : R s1 s2) by (apply keepo_R; split; reflexivity).
  eapply R_trans; [exact R2|].
  assert (R3 : R s2 s3).
  { destruct (b_matched env); [|injection E3 as <-; apply R_refl].
    destruct (fold_m (apply_pool_flow true (p_app pr) pr) (b_pools env) _) as [a| |] eqn:Ea; try discriminate.
    destruct (fold_m _ (b_fills env) a) as [b| |] eqn:Eb; try discriminate.
    destruct (fold_m (apply_pool_flow false (p_app pr) pr) (b_pools env) b) as [c| |] eqn:Ec; try discriminate.
    destruct (ssend c _ _ _ _) as [d| |] eqn:Ed; try discriminate. injection E3 as <-.
    eapply R_trans; [apply keepo_R; eapply fold_m_keepo; [|exact Ea]; intros; eapply apply_pool_flow_keepo; eauto|].
    eapply R_trans; [eapply fold_m_R; [|exact Eb]; intros ? ? ? HH; cbv beta in HH; eapply apply_fill_R; exact HH|].
    eapply R_trans; [apply keepo_R; eapply fold_m_keepo; [|exact Ec]; intros; eapply apply_pool_flow_keepo; eauto|].
    eapply R_trans; [apply keepo_R; eapply ssend_keepo; exact Ed|]. apply keepo_R; split; reflexivity. }
  eapply R_trans; [exact R3|]. apply keepo_R; split; reflexivity.
Qed.

Lemma sweep_orders_R now app s s' : sweep_orders now app s = Ok s' -> R s s'.
Proof.
  unfold sweep_orders. apply fold_m_R. clear. intros s k s' H.
  destruct (find_order k (orders s)) as [[o g]|] eqn:Ef; [|injection H as <-; apply R_refl].
  destruct (find_order_in _ _ _ Ef) as [Hin Hk].
  destruct (is_live (o_status o) && (o_expire o <=? now)); [eapply (finish_entry_R _ _ 6 _); [exact Hin|reflexivity|exact H]|].
  destruct (too_small (o_open o) (o_price o)); [eapply (finish_entry_R _ _ 6 _); [exact Hin|reflexivity|exact H]|].
  injection H as <-; apply R_refl.
Qed.

(* ---------------- custody operations do not touch the order store ---------------- *)
Ltac sends :=
  repeat match goal with E : ssend _ _ _ _ _ = Ok _ |- _ => apply ssend_keepo in E; destruct E as [? ?] end.
Ltac keepo_tac H := inv_ok H; subst; sends; try (split; simpl in *; congruence).

Lemma create_pair_keepo s a c b q s' : create_pair s a c b q = Ok s' -> keepo s s'.
Proof. unfold create_pair, obind. intros H. keepo_tac H. Qed.
Lemma new_pool_keepo s P a c pr rg ax ay ps s' : new_pool s P a c pr rg ax ay ps = Ok s' -> keepo s s'.
Proof. unfold new_pool, obind, mint. intros H. keepo_tac H. Qed.
Lemma create_pool_keepo s a c p x y ok ps s' : create_pool s a c p x y ok ps = Ok s' -> keepo s s'.
Proof. unfold create_pool. intros H. inv_ok H; try (eapply new_pool_keepo; eassumption). Qed.
Lemma create_ranged_keepo s a c p x y ok ax ay ps s' : create_ranged s a c p x y ok ax ay ps = Ok s' -> keepo s s'.
Proof. unfold create_ranged. intros H. inv_ok H; try (eapply new_pool_keepo; eassumption). Qed.
Lemma deposit_req_keepo s a o p x y s' r : deposit_req s a o p x y = Ok (s', r) -> keepo s s'.
Proof. unfold deposit_req, obind. intros H. keepo_tac H. Qed.
Lemma withdraw_req_keepo s a o p pc s' r : withdraw_req s a o p pc = Ok (s', r) -> keepo s s'.
Proof. unfold withdraw_req, obind. intros H. keepo_tac H. Qed.
Lemma fail_dep_keepo s pr r s' : fail_dep s pr r = Ok s' -> keepo s s'.
Proof. unfold fail_dep, obind, put_dep. intros H. keepo_tac H. Qed.
Lemma fail_wd_keepo s r s' : fail_wd s r = Ok s' -> keepo s s'.
Proof. unfold fail_wd, obind, put_wd. intros H. keepo_tac H. Qed.
Lemma exec_deposit_keepo s r ax ay pc s' : exec_deposit s r ax ay pc = Ok s' -> keepo s s'.
Proof.
  unfold exec_deposit, obind, put_dep, mint. intros H.
  inv_ok H; subst; sends;
    try (match goal with E : fail_dep _ _ _ = Ok _ |- _ => apply fail_dep_keepo in E; destruct E end);
    split; simpl in *; congruence.
Qed.
Lemma exec_withdraw_keepo s r x y s' : exec_withdraw s r x y = Ok s' -> keepo s s'.
Proof.
  unfold exec_withdraw, obind, put_wd. intros H.
  inv_ok H; subst; sends;
    try (match goal with E : fail_wd _ _ = Ok _ |- _ => apply fail_wd_keepo in E; destruct E end);
    split; simpl in *; congruence.
Qed.
Lemma farm_keepo s a o p amt now s' : farm s a o p amt now = Ok s' -> keepo s s'.
Proof. unfold farm, obind. intros H. keepo_tac H. Qed.
Lemma unfarm_keepo s a o p amt s' : unfarm s a o p amt = Ok s' -> keepo s s'.
Proof. unfold unfarm, obind. intros H. keepo_tac H. Qed.
Lemma deposit_and_farm_keepo s a o p x y now ax ay pc s' : deposit_and_farm s a o p x y now ax ay pc = Ok s' -> keepo s s'.
Proof.
  unfold deposit_and_farm, obind. intros H.
  destruct (deposit_req s a o p x y) as [[s1 r]| |] eqn:E1; try discriminate.
  destruct (exec_deposit s1 r ax ay pc) as [s2| |] eqn:E2; try discriminate.
  destruct (find _ (deps s2)); [|discriminate]. destruct (_ || _); [discriminate|].
  eapply keepo_trans; [eapply deposit_req_keepo; eauto|]. eapply keepo_trans; [eapply exec_deposit_keepo; eauto|].
  eapply farm_keepo; eauto.
Qed.
Lemma unfarm_and_withdraw_keepo s a o p pc x y s' : unfarm_and_withdraw s a o p pc x y = Ok s' -> keepo s s'.
Proof.
  unfold unfarm_and_withdraw, obind. intros H. destruct (_ || _); [discriminate|].
  destruct (unfarm s a o p pc) as [s1| |] eqn:E1; try discriminate.
  destruct (withdraw_req s1 a o p pc) as [[s2 r]| |] eqn:E2; try discriminate.
  eapply keepo_trans; [eapply unfarm_keepo; eauto|]. eapply keepo_trans; [eapply withdraw_req_keepo; eauto|].
  eapply exec_withdraw_keepo; eauto.
Qed.

Lemma process_queued_keepo now app s : keepo s (process_queued now app s).
Proof.
  unfold process_queued. destruct (get_params s app); [|apply keepo_refl].
  generalize (filter (fun q => q_app q =? app) (qfs s)). intros l. revert s.
  induction l as [|q r IH]; intros s; cbn [fold_left]; [apply keepo_refl|].
  eapply keepo_trans; [|apply IH]. unfold process_qf. destruct (filter _ (q_coins q)); [apply keepo_refl|split; reflexivity].
Qed.

(* ---------------- block hooks ---------------- *)
Lemma end_app_R now s env s' : end_app now s env = Ok s' -> R s s'.
Proof.
  unfold end_app, obind. intros H.
  destruct (fold_m _ (filter _ (pairs s)) s) as [s1| |] eqn:E1; try discriminate.
  destruct (sweep_orders now (e_app env) s1) as [s2| |] eqn:E2; try discriminate.
  destruct (fold_m _ (filter _ (deps s2)) s2) as [s3| |] eqn:E3; try discriminate.
  destruct (fold_m _ (filter _ (wds s3)) s3) as [s4| |] eqn:E4; try discriminate.
  injection H as <-.
  eapply R_trans; [eapply fold_m_R; [|exact E1]; intros ? ? ? HH; cbv beta in HH; eapply execute_matching_R; exact HH|].
  eapply R_trans; [eapply sweep_orders_R; exact E2|].
  eapply R_trans; [apply keepo_R; eapply fold_m_keepo; [|exact E3]; intros s0 r s0' HH; cbv beta in HH;
                   destruct (d_status r =? 1); [|injection HH as <-; apply keepo_refl];
                   destruct (find_dep_env _ _ _) as [[? ?] ?]; eapply exec_deposit_keepo; exact HH|].
  eapply R_trans; [apply keepo_R; eapply fold_m_keepo; [|exact E4]; intros s0 r s0' HH; cbv beta in HH;
                   destruct (w_status r =? 1); [|injection HH as <-; apply keepo_refl];
                   destruct (find_wd_env _ _ _) as [? ?]; eapply exec_withdraw_keepo; exact HH|].
  apply keepo_R, process_queued_keepo.
Qed.

Lemma atomic_R s r : (forall s', r = Ok s' -> R s s') -> R s (atomic s r).
Proof. intros H. destruct r; cbn; [apply H; reflexivity|apply R_refl|apply R_refl]. Qed.

Lemma fold_left_R {A} (f : state -> A -> state) l : (forall s x, R s (f s x)) -> forall s, R s (fold_left f l s).
Proof. intros Hf. induction l as [|x r IH]; intros s; cbn; [apply R_refl|]. eapply R_trans; [apply Hf|apply IH]. Qed.

Lemma end_block_R h now envs s : R s (end_block h now envs s).
Proof.
  unfold end_block. apply fold_left_R. intros s0 [app P].
  destruct (pr_batch P =? 0); [apply R_refl|]. destruct (h mod pr_batch P =? 0); [|apply R_refl].
  apply atomic_R. intros s' H. eapply end_app_R; eauto.
Qed.

Lemma begin_block_R s : R s (begin_block s).
Proof.
  unfold begin_block. apply fold_left_R. intros s0 [app P]. cbn [fst]. unfold begin_app.
  split; [reflexivity|]. unfold SInv, SInvL. cbn [apps orders set_orders set_wds set_deps]. intros HS.
  apply Forall_forall. intros e He. apply filter_In in He. destruct He as [He _].
  eapply Forall_forall in HS; eauto.
Qed.

(* registering a NEW app leaves every existing app's parameters alone *)
Lemma aget_aset_other {A} (l : list (Z * A)) k v k' : k <> k' -> aget (aset l k v) k' = aget l k'.
Proof.
  intros Hk. induction l as [|[a w] r IH]; cbn.
  - destruct (k =? k') eqn:E; [lia|reflexivity].
  - destruct (a =? k) eqn:E1.
    + cbn. destruct (k =? k') eqn:E2; [lia|]. destruct (a =? k') eqn:E3; [lia|reflexivity].
    + destruct (k <? a) eqn:E2; cbn.
      * destruct (k =? k') eqn:E3; [lia|]. reflexivity.
      * destruct (a =? k'); [reflexivity|exact IH].
Qed.

(* ---------------- every operation; histories ---------------- *)
Definition is_addapp (o : op) : bool := match o with OAddApp _ _ => true | _ => false end.
Definition is_setup (o : op) : bool := match o with OAddApp _ _ | OAddAsset _ | OFund _ _ _ => true | _ => false end.

Lemma step_R s o s' : is_addapp o = false -> step s o = Ok s' -> R s s'.
Proof.
  destruct o; cbn [is_addapp step]; intros Hn H; try discriminate.
  - injection H as <-. apply keepo_R; split; reflexivity.
  - injection H as <-. apply keepo_R; split; reflexivity.
  - apply keepo_R. eapply create_pair_keepo; eauto.
  - apply keepo_R. eapply create_pool_keepo; eauto.
  - apply keepo_R. eapply create_ranged_keepo; eauto.
  - eapply limit_order_R; eauto.
  - eapply market_order_R; eauto.
  - eapply mm_order_R; eauto.
  - eapply cancel_order_R; eauto.
  - eapply cancel_all_R; eauto.
  - eapply cancel_mm_R; eauto.
  - unfold obind in H. destruct (deposit_req s app owner pid x y) as [[s1 r]| |] eqn:E; try discriminate.
    injection H as <-. apply keepo_R. eapply deposit_req_keepo; eauto.
  - unfold obind in H. destruct (withdraw_req s app owner pid pc) as [[s1 r]| |] eqn:E; try discriminate.
    injection H as <-. apply keepo_R. eapply withdraw_req_keepo; eauto.
  - apply keepo_R. eapply farm_keepo; eauto.
  - apply keepo_R. eapply unfarm_keepo; eauto.
  - apply keepo_R. eapply deposit_and_farm_keepo; eauto.
  - apply keepo_R. eapply unfarm_and_withdraw_keepo; eauto.
  - injection H as <-. apply begin_block_R.
  - injection H as <-. apply end_block_R.
Qed.

Lemma apply_op_R s o : is_addapp o = false -> R s (apply_op s o).
Proof. intros Hn. unfold apply_op. apply atomic_R. intros s' H. eapply step_R; eauto. Qed.

Lemma setup_no_orders s o : is_setup o = true -> orders s = [] -> orders (apply_op s o) = [].
Proof.
  destruct o; cbn [is_setup]; try discriminate; intros _ H; unfold apply_op; cbn [step].
  - destruct (has_app s app); cbn; assumption.
  - cbn. assumption.
  - cbn. assumption.
Qed.

(* every state reachable by a setup prefix (app / asset registrations, funding) followed by ANY finite
   history of the other operations, with ANY ENV inputs, satisfies the per-order invariant *)
Theorem run_sinv setup ops :
  Forall (fun o => is_setup o = true) setup -> Forall (fun o => is_addapp o = false) ops ->
  SInv (fold_left apply_op ops (fold_left apply_op setup init)).
Proof.
  intros Hs Ho.
  assert (H0 : orders (fold_left apply_op setup init) = []).
  { assert (G : forall s, orders s = [] -> orders (fold_left apply_op setup s) = []).
    { induction Hs as [|o r Ho' _ IH]; intros s Hs0; cbn [fold_left]; [assumption|]. apply IH. apply setup_no_orders; assumption. }
    apply G. reflexivity. }
  assert (S0 : SInv (fold_left apply_op setup init)). { unfold SInv, SInvL. rewrite H0. constructor. }
  revert S0. generalize (fold_left apply_op setup init). induction Ho as [|o r Hn _ IH]; intros s HS; cbn [fold_left]; [assumption|].
  apply IH. apply (apply_op_R s o Hn). assumption.
Qed.
