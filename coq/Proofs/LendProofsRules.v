(* C08 proofs, part 7: the pool holds the loan; Withdraw / CloseLend never release pledged
   collateral; the oracle prices stay unsigned along a history. *)
From Comdex Require Import Lib.Base Lib.DecArith Lib.DecFacts Model.Lend Proofs.LendProofs Proofs.LendProofsInv Proofs.LendProofsSide
     Proofs.LendProofsSteps Proofs.LendProofsSteps2 Proofs.LendProofsHist Proofs.LendProofsLtv.
From Coq Require Import ZifyBool.

Section Rules.
  Variable cfg : config.

  (* ---------- the pool held the coins before the release ---------- *)
  Lemma draw_pool st bid user denom amt e st' :
    draw_asset cfg st bid user denom amt e = Ok st' ->
    exists b0, zget (borrows st) bid = Some b0 /\ holds_C08_pool cfg st (b_pair b0) amt = true.
  Proof.
    intros H. unfold draw_asset in H. destr_all H.
    match goal with Hi : iterate_borrow _ _ _ = Ok _ |- _ => apply iterate_borrow_spec in Hi as (b1 & Hb1 & ->) end.
    cbn [bnk with_books] in *. eexists. split; [reflexivity|].
    unfold holds_C08_pool. rewrite E1, E2. apply Z.leb_le. lia.
  Qed.

  Lemma borrow_asset_pool st user lid pid stable din ain dout aout e1 e2 st' :
    cfg_wf cfg -> borrow_asset cfg st user lid pid stable din ain dout aout e1 e2 = Ok st' ->
    if has_borrow_for_pair st user pid
    then exists bid st1 b0, borrow_id_for_pair st user pid = Some bid /\ deposit_borrow_asset cfg st bid user din ain e1 = Ok st1 /\
                            zget (borrows st1) bid = Some b0 /\ holds_C08_pool cfg st1 (b_pair b0) aout = true
    else holds_C08_pool cfg st pid aout = true.
  Proof.
    intros (Hwa & _) H. unfold borrow_asset in H. destr_all H.
    - destruct (draw_pool _ _ _ _ _ _ _ H) as (b0 & Hb0 & Hp). eexists _, _, b0. repeat split; eassumption.
    - unfold holds_C08_pool. rewrite E3, E18. destruct (Hwa _ _ E6) as (_ & Hid). apply Z.leb_le. replace (pr_out p) with dout by lia. lia.
    - unfold holds_C08_pool. rewrite E3, E18. destruct (Hwa _ _ E6) as (_ & Hid). apply Z.leb_le. replace (pr_out p) with dout by lia. lia.
    - unfold holds_C08_pool. rewrite E3, E18. destruct (Hwa _ _ E6) as (_ & Hid). apply Z.leb_le. replace (pr_out p) with dout by lia. lia.
  Qed.

  (* ---------- IterateLends: what it does to the position and what it leaves alone ---------- *)
  Lemma iterate_lends_spec st lid ipb st1 :
    iterate_lends cfg st lid ipb = Ok st1 ->
    exists l l1 n, zget (lends st) lid = Some l /\ zget (lends st1) lid = Some l1 /\
      l_avail l1 = l_avail l + n /\ l_rewards l1 = l_rewards l + n /\ l_bids l1 = l_bids l /\ l_in l1 = l_in l /\
      borrows st1 = borrows st /\ bctr st1 = bctr st /\ lctr st1 = lctr st.
  Proof.
    intros H. unfold iterate_lends in H. destr_all H; injection H as <-; cbn [lends borrows bctr lctr with_bank with_books];
      rewrite zget_zset_same; eexists _, _, _; (split; [reflexivity|]); (split; [reflexivity|]); cbn [upd_lend l_avail l_rewards l_bids l_in].
    - repeat split.
    - repeat split.
    - instantiate (1 := 0). repeat split; lia.
  Qed.

  Lemma pledged_zero_nobids st lid l : Inv cfg st -> zget (lends st) lid = Some l -> l_bids l = [] ->
    pledged (borrows st) (nborrows st) lid = 0.
  Proof.
    intros HI Hl Hb. unfold pledged. apply sumz_zero. intros j _. unfold bterm.
    destruct (zget (borrows st) j) as [b|] eqn:Ej; [|reflexivity].
    destruct (b_liq b) eqn:Hq; [rewrite andb_false_r; reflexivity|].
    destruct (Z.eqb_spec (b_lend b) lid) as [E|]; [|reflexivity].
    exfalso. exact (unref_nobids _ _ _ _ _ _ _ _ HI Hl Hb j b Ej Hq E).
  Qed.

  Lemma pledged_same B nb B' nb' n :
    B' = B -> nb' = nb -> forallb (fun i => pledged B' nb' i =? pledged B nb i) (zseq n) = true.
  Proof. intros -> ->. apply forallb_forall. intros i _. apply Z.eqb_refl. Qed.

  Lemma close_lend_pledged st user lid ipb st' amt :
    Inv cfg st -> close_lend cfg st user lid ipb = Ok st' ->
    holds_C08_pledged st st' lid amt = true /\ zget (lends st') lid = None.
  Proof.
    intros HI H. unfold close_lend in H. destr_all H.
    match goal with Hi : iterate_lends _ _ _ _ = Ok _ |- _ =>
      destruct (iterate_lends_spec _ _ _ _ Hi) as (lA & lB & nA & Hl0 & Hl1 & Ha & Hr & Hb & Hin & EB & Ec & El) end.
    match goal with Hn : negb (is_nil (l_bids ?l)) = false |- _ =>
      assert (Hnb : l_bids l = []) by (destruct (l_bids l); [reflexivity|discriminate]) end.
    injection H as <-. cbn [lends with_bank with_books]. rewrite zget_zdel, Z.eqb_refl. split; [|reflexivity].
    unfold holds_C08_pledged, nborrows. cbn [borrows bctr with_bank with_books]. apply andb_true_intro. split.
    - apply pledged_same; congruence.
    - cbn [lends with_bank with_books]. rewrite Hl0, zget_zdel, Z.eqb_refl. apply Z.eqb_eq.
      fold (nborrows st). eapply pledged_zero_nobids; [exact HI|exact Hl0|]. congruence.
  Qed.

  Lemma withdraw_pledged st user lid denom amt ipb st' :
    Inv cfg st -> withdraw_asset cfg st user lid denom amt ipb = Ok st' -> holds_C08_pledged st st' lid amt = true.
  Proof.
    intros HI H. unfold withdraw_asset in H. destr_all H.
    - eapply close_lend_pledged; eassumption.
    - match goal with Hi : iterate_lends _ _ _ _ = Ok _ |- _ =>
        destruct (iterate_lends_spec _ _ _ _ Hi) as (lA & lB & nA & Hl0 & Hl1 & Ha & Hr & Hb & Hin & EB & Ec & El) end.
      injection H as <-. unfold holds_C08_pledged, nborrows. cbn [borrows bctr lends with_bank with_books]. apply andb_true_intro. split.
      + apply pledged_same; congruence.
      + rewrite Hl0, zget_zset_same. cbn [upd_lend l_avail l_rewards].
        match goal with G1 : zget (lends ?s) lid = Some ?x, G2 : zget (lends ?s) lid = Some ?y |- _ => rewrite G1 in G2; injection G2 as <- end.
        apply andb_true_intro. split; lia.
  Qed.

  (* ---------- oracle prices ---------- *)
  Definition op_sane (o : op) : Prop := match o with OSetPrice _ (Some p) => 0 <= p | _ => True end.

  Lemma step_prices_ok st o st' :
    Good cfg st -> kf_books st o = false -> PricesOk (prices st) -> op_sane o -> step cfg st o = Ok st' -> PricesOk (prices st').
  Proof.
    intros HG Hkf HP Hs H. destruct (is_setprice o) eqn:Eo.
    - destruct o; try discriminate. cbn [step] in H. injection H as <-. cbn [prices]. intros a q.
      destruct p as [v|].
      + rewrite zget_zset. destruct (asset =? a); [|apply HP]. intros E. injection E as <-. exact Hs.
      + rewrite zget_zdel. destruct (asset =? a); [discriminate|apply HP].
    - destruct (step_good cfg _ _ _ HG Hkf H) as (_ & Hf). rewrite (Hf Eo). exact HP.
  Qed.

  Lemma run_good_prices ops : forall st,
    Good cfg st -> clean cfg st ops -> PricesOk (prices st) -> Forall op_sane ops ->
    Good cfg (run cfg st ops) /\ PricesOk (prices (run cfg st ops)).
  Proof.
    induction ops as [|o r IH]; intros st HG Hc HP Hs; [split; assumption|]. destruct Hc as (Hk & Hc).
    inversion Hs as [|? ? Ho Hr]; subst. cbn [run fold_left]. apply IH; [apply apply_op_good; assumption|exact Hc| |exact Hr].
    unfold apply_op. destruct (step cfg st o) as [st'|c|] eqn:E; try exact HP.
    exact (step_prices_ok _ _ _ HG Hk HP Ho E).
  Qed.
End Rules.
