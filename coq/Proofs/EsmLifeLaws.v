(* The laws of the esm steps that the runner evaluates on the implementation's observations:
   - the pro-rata bound of a collateral payout (pure Dec arithmetic of CalculateCollateral);
   - the law of a successful MsgCollateralRedemption ([holds_C02_redeem]): exact burn, every record pays
     what it loses, out of the esm account, to the sender, within the pro-rata bound;
   - the rounding of SetUpShareCalculation ([share_ok]). *)
From Comdex Require Import Lib.Base Lib.DecArith Lib.DecFacts Lib.Atomic Model.Vault Model.VaultLife Model.EsmLife
  Proofs.VaultProofs Proofs.VaultExec Proofs.VaultRisk Proofs.VaultInv Proofs.VaultLifeInv Proofs.EsmLifeBase Proofs.EsmLifeInv Proofs.EsmLifeSteps.
From Coq Require Import ZifyBool.

Theorem payout_prorata amt tw dec_d w share rate dec_c q : 0 <= amt -> 0 <= tw -> 0 < dec_d -> 0 <= share -> 0 < rate -> 0 <= dec_c ->
  total_value amt tw dec_d = Ok w -> payout w share rate dec_c = Some q ->
  0 <= q /\ q * dec_d * rate * P18 * P18 <= amt * tw * share * dec_c * P18 + dec_d * dec_c * (share + HALF18 + rate * P18).
Proof.
  intros Hamt Htw Hdd Hsh Hrate Hdc Hw Hp.
  destruct (total_value_spec _ _ _ _ Hw Hamt Htw Hdd) as [Ew Bw].
  assert (Hw0 : 0 <= w).
  { rewrite Ew. pose proof P18_pos. apply dquo_nonneg; nia. }
  unfold payout, dmul_c, dquo_c, dtrunc_int_c, chk_dec, chk_int in Hp.
  destruct (fits_dec (dmul w share)); [|discriminate Hp].
  pose proof P18_pos as HP.
  destruct (dec_of_int rate =? 0) eqn:Er; [discriminate Hp|].
  destruct (fits_dec (dquo (dmul w share) (dec_of_int rate))); [|discriminate Hp].
  destruct (fits_dec (dmul (dquo (dmul w share) (dec_of_int rate)) (dec_of_int dec_c))); [|discriminate Hp].
  destruct (fits_int _); [|discriminate Hp]. injection Hp as <-.
  set (ts := dmul w share). set (cq := dquo ts (dec_of_int rate)).
  assert (Hts0 : 0 <= ts) by (apply dmul_nonneg; assumption).
  pose proof (dmul_bounds w share) as Bts. fold ts in Bts.
  assert (Hb : 0 < dec_of_int rate) by (unfold dec_of_int; nia).
  pose proof (dquo_bounds ts (dec_of_int rate) Hts0 Hb) as Bcq. fold cq in Bcq. unfold dec_of_int in Bcq.
  assert (Hcq0 : 0 <= cq) by (apply dquo_nonneg; assumption).
  rewrite dmul_int_exact_r.
  assert (Hc2 : 0 <= cq * dec_c) by nia.
  destruct (dtrunc_int_bounds (cq * dec_c) Hc2) as (Hq0 & Hq1 & _).
  set (q := dtrunc_int (cq * dec_c)) in *.
  split; [exact Hq0|].
  pose proof P18_half as Hh.
  assert (S1 : q * P18 * rate <= cq * dec_c * rate) by nia.
  assert (S2 : cq * rate <= ts + rate) by nia.
  assert (S3 : q * P18 * rate <= (ts + rate) * dec_c) by nia.
  assert (S4 : q * P18 * rate * P18 <= (w * share + HALF18 + rate * P18) * dec_c) by nia.
  assert (S5 : w * dec_d <= amt * tw * P18 + dec_d) by lia.
  assert (S6 : q * P18 * rate * P18 * dec_d <= (w * dec_d * share + (HALF18 + rate * P18) * dec_d) * dec_c) by nia.
  assert (S7 : w * dec_d * share <= (amt * tw * P18 + dec_d) * share) by nia.
  nia.
Qed.

(* with token decimals up to 10^18, a share of at most 1 and a rate of at least 1 the rounding is below three base units:
   q <= amt * tw * share * dec_c / (dec_d * rate * 10^18) + 3 *)
Corollary payout_prorata_3 amt tw dec_d w share rate dec_c q : 0 <= amt -> 0 <= tw -> 0 < dec_d -> 0 <= share <= P18 -> 1 <= rate -> 0 <= dec_c <= P18 ->
  total_value amt tw dec_d = Ok w -> payout w share rate dec_c = Some q ->
  q * dec_d * rate * P18 <= amt * tw * share * dec_c + 3 * dec_d * rate * P18.
Proof.
  intros Hamt Htw Hdd Hsh Hrate Hdc Hw Hp.
  destruct (payout_prorata amt tw dec_d w share rate dec_c q Hamt Htw Hdd (proj1 Hsh) ltac:(lia) (proj1 Hdc) Hw Hp) as [Hq B].
  pose proof P18_pos as HP. pose proof P18_half as Hh.
  assert (A0 : P18 <= rate * P18) by nia.
  assert (A1 : share + HALF18 + rate * P18 <= 3 * rate * P18) by lia.
  assert (A2 : dec_c * (share + HALF18 + rate * P18) <= P18 * (3 * rate * P18)) by (apply Z.mul_le_mono_nonneg; lia).
  assert (S1 : dec_d * (dec_c * (share + HALF18 + rate * P18)) <= dec_d * (P18 * (3 * rate * P18))) by (apply Z.mul_le_mono_nonneg_l; lia).
  assert (S2 : q * dec_d * rate * P18 * P18 <= (amt * tw * share * dec_c + 3 * dec_d * rate * P18) * P18) by lia.
  apply (Zmult_le_reg_r _ _ P18); lia.
Qed.

(* ---------- the law of a redemption ---------- *)
Lemma wsum_select (f : arec -> Z) l w : NoDup (map rkey l) -> (forall r0, In r0 l -> ar_app r0 = ar_app w) -> In w l ->
  wsum (fun r0 => if ar_asset r0 =? ar_asset w then f r0 else 0) l = f w.
Proof.
  induction l as [|y l IH]; intros Hnd Happ Hin; [destruct Hin|].
  inversion Hnd as [|? ? Hny Hnd']; subst. rewrite wsum_cons.
  assert (Z0 : forall l0, (forall r0, In r0 l0 -> rkey r0 <> rkey w) -> (forall r0, In r0 l0 -> ar_app r0 = ar_app w) ->
               wsum (fun r0 => if ar_asset r0 =? ar_asset w then f r0 else 0) l0 = 0).
  { induction l0 as [|z l0 IH0]; intros Hk Ha; [reflexivity|]. rewrite wsum_cons, IH0; [|intros r0 Hr0; apply Hk; right; exact Hr0|intros r0 Hr0; apply Ha; right; exact Hr0].
    destruct (Z.eqb_spec (ar_asset z) (ar_asset w)) as [E|E]; [|lia]. exfalso. apply (Hk z (or_introl eq_refl)). unfold rkey. rewrite E, (Ha z (or_introl eq_refl)). reflexivity. }
  destruct Hin as [->|Hin].
  - rewrite Z.eqb_refl, Z0; [lia| |intros r0 Hr0; apply Happ; right; exact Hr0].
    intros r0 Hr0 E. apply Hny. rewrite <- E. apply in_map. exact Hr0.
  - rewrite (IH Hnd' (fun r0 Hr0 => Happ r0 (or_intror Hr0)) Hin).
    destruct (Z.eqb_spec (ar_asset y) (ar_asset w)) as [E|E]; [|lia]. exfalso. apply Hny.
    assert (Ek : rkey y = rkey w) by (unfold rkey; rewrite E, (Happ y (or_introl eq_refl)); reflexivity). rewrite Ek. apply in_map. exact Hin.
Qed.

Theorem redeem_law c lc ec e from app denom amt e' denoms : from <> VAULT -> from <> ESMA -> InvE c e ->
  redeem lc ec e from app denom amt = Ok e' -> holds_C02_redeem lc ec denoms e from app denom amt e' = true.
Proof.
  intros Hfv Hfe I H.
  destruct (redeem_spec lc ec e from app denom amt e' Hfe (ie_nodup _ _ I) (ie_nonneg _ _ I) H) as (r & tw & dec & w & R).
  pose proof (ie_nodup _ _ I) as Hnd.
  assert (Hndl : NoDup (map rkey (app_recs (recs e) app))) by (apply nodup_filter_keys; exact Hnd).
  assert (Happ : forall r0, In r0 (app_recs (recs e) app) -> ar_app r0 = app /\ In r0 (recs e)).
  { intros r0 Hr0. unfold app_recs in Hr0. apply filter_In in Hr0. destruct Hr0 as [H1 H2]. apply Z.eqb_eq in H2. split; assumption. }
  destruct (find_rec_some _ _ _ _ (re_find _ _ _ _ _ _ _ _ _ _ _ _ R)) as (Hrin & Hra & Hrx).
  assert (Hrl : In r (app_recs (recs e) app)) by (unfold app_recs; apply filter_In; split; [exact Hrin|rewrite Hra; apply Z.eqb_refl]).
  (* a record of the app with the debt denom is the debt record itself *)
  assert (Hsame : forall r0, In r0 (app_recs (recs e) app) -> ar_asset r0 = denom -> r0 = r).
  { intros r0 Hr0 E0. destruct (Happ r0 Hr0) as [A0 In0]. pose proof (find_rec_in _ r0 Hnd In0) as F0. rewrite A0, E0, (re_find _ _ _ _ _ _ _ _ _ _ _ _ R) in F0. congruence. }
  assert (Hp0 : forall d, d = denom -> epaid e' d - epaid e d = 0).
  { intros d ->. rewrite (re_paid _ _ _ _ _ _ _ _ _ _ _ _ R denom).
    assert (Z0 : forall l0, (forall r0, In r0 l0 -> In r0 (app_recs (recs e) app)) ->
                 wsum (fun r0 => if ar_asset r0 =? denom then pay_of lc ec (vs (el e)) app w r0 else 0) l0 = 0).
    { induction l0 as [|z l0 IH0]; intros Hs; [reflexivity|]. rewrite wsum_cons, IH0 by (intros r0 Hr0; apply Hs; right; exact Hr0).
      destruct (Z.eqb_spec (ar_asset z) denom) as [E|E]; [|lia]. rewrite (Hsame z (Hs z (or_introl eq_refl)) E).
      unfold pay_of. rewrite (re_side _ _ _ _ _ _ _ _ _ _ _ _ R). reflexivity. }
    apply Z0. auto. }
  destruct (re_rec_d _ _ _ _ _ _ _ _ _ _ _ _ R) as (rd & Frd & Ard).
  unfold holds_C02_redeem. cbv zeta. rewrite (re_find _ _ _ _ _ _ _ _ _ _ _ _ R), Frd, (re_dec _ _ _ _ _ _ _ _ _ _ _ _ R), (re_side _ _ _ _ _ _ _ _ _ _ _ _ R), (re_tw _ _ _ _ _ _ _ _ _ _ _ _ R).
  cbn [negb andb].
  replace (ar_amt r - ar_amt rd =? amt) with true by (symmetry; apply Z.eqb_eq; lia). cbn [andb].
  replace (forallb _ denoms) with true.
  2:{ symmetry. apply forallb_forall. intros d _. rewrite (re_sup _ _ _ _ _ _ _ _ _ _ _ _ R d). unfold at1. apply Z.eqb_eq. destruct (d =? denom); lia. }
  cbn [andb].
  replace (bal (vs (el e)) from denom - bal (vs (el e')) from denom =? amt) with true.
  2:{ symmetry. apply Z.eqb_eq. rewrite (re_bal_from _ _ _ _ _ _ _ _ _ _ _ _ R denom), (Hp0 denom eq_refl). unfold at1. rewrite Z.eqb_refl. lia. }
  replace (bal (vs (el e')) ESMA denom =? bal (vs (el e)) ESMA denom) with true.
  2:{ symmetry. apply Z.eqb_eq. rewrite (re_bal_esma _ _ _ _ _ _ _ _ _ _ _ _ R denom), (Hp0 denom eq_refl). lia. }
  cbn [andb]. apply forallb_forall. intros x Hx. destruct (ar_coll x) eqn:Cx; [|reflexivity].
  destruct (Happ x Hx) as [Ax Inx].
  assert (Hne : ar_asset x <> denom) by (intros E; rewrite (Hsame x Hx E), (re_side _ _ _ _ _ _ _ _ _ _ _ _ R) in Cx; discriminate Cx).
  assert (Hk : rkey x <> (app, denom)) by (unfold rkey; intros E; apply Hne; congruence).
  destruct (re_recs _ _ _ _ _ _ _ _ _ _ _ _ R x Hx Hk) as (x' & Fx' & Ax').
  destruct (re_pay _ _ _ _ _ _ _ _ _ _ _ _ R x Hx) as (dec_c & Edc & Pp).
  rewrite Ax in Fx'. rewrite Fx', Edc.
  assert (Hq : ar_amt x - ar_amt x' = pay_of lc ec (vs (el e)) app w x) by lia. rewrite Hq.
  set (q := pay_of lc ec (vs (el e)) app w x) in *.
  assert (Hsel : epaid e' (ar_asset x) - epaid e (ar_asset x) = q).
  { rewrite (re_paid _ _ _ _ _ _ _ _ _ _ _ _ R (ar_asset x)). apply (wsum_select (pay_of lc ec (vs (el e)) app w) _ x Hndl); [|exact Hx].
    intros r0 Hr0. rewrite (proj1 (Happ r0 Hr0)). symmetry. exact Ax. }
  pose proof (re_pay_nonneg _ _ _ _ _ _ _ _ _ _ _ _ R x Hx) as Hq0. fold q in Hq0.
  rewrite !andb_true_iff. repeat split.
  - apply Z.leb_le. exact Hq0.
  - apply Z.eqb_eq. rewrite (re_bal_from _ _ _ _ _ _ _ _ _ _ _ _ R (ar_asset x)), Hsel. unfold at1. destruct (Z.eqb_spec (ar_asset x) denom); [contradiction|]. lia.
  - apply Z.eqb_eq. rewrite (re_bal_esma _ _ _ _ _ _ _ _ _ _ _ _ R (ar_asset x)), Hsel. lia.
  - destruct (ar_amt x =? 0) eqn:Cz.
    + assert (q = 0) by (unfold q, pay_of; rewrite Cx, Cz; reflexivity). destruct (rate_of lc (vs (el e)) app (ar_asset x)); [rewrite H0; reflexivity|apply Z.eqb_eq; exact H0].
    + assert (Ht : ar_coll x && negb false = true) by (rewrite Cx; reflexivity).
      destruct (Pp Ht) as (rate & Er & Ep). rewrite Er.
      destruct (Z.eqb_spec q 0) as [|Hqn]; [reflexivity|]. cbn [orb].
      destruct (prorata_params (ar_share x) rate dec_c dec) eqn:Pm; [|reflexivity]. cbn [negb orb].
      unfold prorata_params in Pm. rewrite !andb_true_iff in Pm. destruct Pm as [[[P1 P2] P3] P4].
      pose proof (re_tw _ _ _ _ _ _ _ _ _ _ _ _ R) as Htw. unfold uint64_c in Htw. destruct ((0 <=? dtrunc_int (ar_worth r)) && _) eqn:Ct; [|discriminate Htw].
      injection Htw as Htw. apply andb_true_iff in Ct. destruct Ct as [Ct _].
      destruct (payout_prorata amt tw dec w (ar_share x) rate dec_c q) as [_ B]; try lia.
      * pose proof (re_pos _ _ _ _ _ _ _ _ _ _ _ _ R). lia.
      * exact (re_w _ _ _ _ _ _ _ _ _ _ _ _ R).
      * exact Ep.
      * unfold prorata_ok. apply Z.leb_le. exact B.
Qed.

(* ---------- the rounding of the share calculation ---------- *)
Lemma dquo_share_ok v total : 0 <= v -> 0 < total -> share_ok v total (dquo v total) = true.
Proof.
  intros Hv Ht. unfold share_ok. pose proof (dquo_bounds v total Hv Ht). apply Z.leb_le. lia.
Qed.

Theorem share_one_law lc ec s app ct dt r r' v dec rate : share_one lc ec s app (Some (ct, dt)) r = Ok r' ->
  ec_dec ec (ar_asset r) = Some dec -> rate_of lc s app (ar_asset r) = Some rate -> total_value (ar_amt r) rate dec = Ok v ->
  0 <= v -> 0 < (if ar_coll r then ct else dt) ->
  share_ok v (if ar_coll r then ct else dt) (ar_share r') = true /\ ar_amt r' = ar_amt r /\ ar_coll r' = ar_coll r.
Proof.
  intros H Ed Er Ev Hv Ht. unfold share_one in H. rewrite Ed, Er, Ev in H. cbn [obind] in H.
  destruct (ar_coll r) eqn:Cc.
  - unfold dquo_c, chk_dec in H. destruct (ct =? 0); [discriminate H|]. destruct (fits_dec _); [|discriminate H]. injection H as <-.
    cbn [ar_share ar_amt ar_coll]. split; [apply dquo_share_ok; assumption|split; reflexivity].
  - destruct (dquo_c v dt) as [sh|] eqn:Q; [|discriminate H]. do 3 exec1 H. injection H as <-.
    cbn [ar_share ar_amt ar_coll]. unfold dquo_c, chk_dec in Q. destruct (dt =? 0); [discriminate Q|]. destruct (fits_dec _); [|discriminate Q]. injection Q as <-.
    split; [apply dquo_share_ok; assumption|split; reflexivity].
Qed.
