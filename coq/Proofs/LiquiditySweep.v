(* Proofs about Model/Liquidity.v: the generic sweep.  For ANY state predicate [I] that is preserved by
   the leaf transitions of the model (FinishOrder on a stored order, placement, one fill's bookkeeping,
   coins entering / leaving an escrow, the request / farming primitives ...), [I] is preserved by every
   compound handler, by the block hooks and hence by every finite history of operations.  The
   invariants of C04 / C07 are instances (LiquidityProofs2.v, LiquidityEscrow.v, LiquidityFarm.v,
   LiquidityPools.v, LiquidityMM.v). *)
From Comdex Require Import Lib.Base Lib.DecArith Model.Liquidity Proofs.LiquidityProofs.
From Comdex Require Export Proofs.LiquidityBase.
From Comdex Require Import Proofs.LiquidityEffects Proofs.LiquidityMMCancel.
From Coq Require Import ZifyBool Lia.

(* ---------------- frame: what leaves [pairs] and [apps] alone ---------------- *)
Definition keepp (s s' : state) : Prop := pairs s' = pairs s /\ apps s' = apps s.
Lemma keepp_refl s : keepp s s. Proof. split; reflexivity. Qed.
Lemma keepp_trans s1 s2 s3 : keepp s1 s2 -> keepp s2 s3 -> keepp s1 s3.
Proof. intros [A1 B1] [A2 B2]. split; congruence. Qed.
Lemma fold_m_keepp {A} (f : state -> A -> outcome state) l :
  (forall s x s', f s x = Ok s' -> keepp s s') -> forall s s', fold_m f l s = Ok s' -> keepp s s'.
Proof.
  intros Hf. induction l as [|x r IH]; cbn [fold_m]; intros s s' H.
  - injection H as <-. apply keepp_refl.
  - unfold obind in H. destruct (f s x) eqn:E; try discriminate. eapply keepp_trans; [eapply Hf; eauto|eauto].
Qed.

Lemma finish_entry_keepp s e st s' : finish_entry s e st = Ok s' -> keepp s s'.
Proof. unfold finish_entry, obind. intros H. inv_ok H; subst; sends; split; reflexivity. Qed.
Lemma esc_in_keepp s a p f d x s' : esc_in s a p f d x = Ok s' -> keepp s s'.
Proof. unfold esc_in, obind. intros H. inv_ok H; subst; sends; split; reflexivity. Qed.
Lemma esc_out_keepp s a p t d x s' : esc_out s a p t d x = Ok s' -> keepp s s'.
Proof. unfold esc_out, obind. intros H. inv_ok H; subst; sends; split; reflexivity. Qed.
Lemma fill_book_keepp s k o g m p r : keepp s (fill_book s k o g m p r).
Proof. destruct k as [[a pp] i]. split; reflexivity. Qed.
Lemma apply_fill_keepp s app pair f s' : apply_fill s app pair f = Ok s' -> keepp s s'.
Proof.
  destruct f as [[[id matched] paid] recv]. unfold apply_fill, obind. intros H.
  destruct (find_order (app, pair, id) (orders s)) as [[o g]|]; [|discriminate].
  destruct (negb (is_live (o_status o))); [discriminate|].
  destruct ((o_rem o - paid <? 0) || (paid <? 0) || (recv <? 0)); [discriminate|].
  match type of H with match ?x with _ => _ end = _ => destruct x as [s3| |] eqn:E3; try discriminate end.
  eapply keepp_trans; [apply (fill_book_keepp s (app, pair, id) o g matched paid recv)|].
  eapply keepp_trans; [|eapply esc_out_keepp; exact H].
  destruct (o_open _ =? 0); [eapply finish_entry_keepp; exact E3|]. injection E3 as <-. split; reflexivity.
Qed.
Lemma apply_pool_flow_keepp c app pr s f s' : apply_pool_flow c app pr s f = Ok s' -> keepp s s'.
Proof.
  destruct f as [[pid dq] db]. unfold apply_pool_flow, obind. intros H.
  assert (G : forall s d x s', (if x <? 0 then if c then esc_in s app (p_id pr) (Reserve app pid) d (- x) else Ok s
                                else if c then Ok s else esc_out s app (p_id pr) (Reserve app pid) d x) = Ok s' -> keepp s s').
  { intros s0 d x s0' H0. destruct (x <? 0), c; try (injection H0 as <-; apply keepp_refl);
      [eapply esc_in_keepp|eapply esc_out_keepp]; eauto. }
  match type of H with match ?x with _ => _ end = _ => destruct x as [s1| |] eqn:E1; try discriminate end.
  eapply keepp_trans; [eapply G; exact E1|eapply G; exact H].
Qed.
Lemma cancel_mm_inner_keepp s app owner pr skip s' : cancel_mm_inner s app owner pr skip = Ok s' -> keepp s s'.
Proof.
  unfold cancel_mm_inner, obind. intros H. destruct (find_mm app owner (p_id pr) (mmidx s)) as [ix|].
  - destruct (fold_m _ (mi_ids ix) s) as [s1| |] eqn:Ef; try discriminate. injection H as <-.
    eapply keepp_trans; [|split; reflexivity]. revert Ef. apply fold_m_keepp. clear. intros s id s' H.
    destruct (find_order _ (orders s)); [|injection H as <-; apply keepp_refl].
    inv_ok H; subst; try apply keepp_refl; eapply finish_entry_keepp; eauto.
  - destruct skip; [injection H as <-; apply keepp_refl|discriminate].
Qed.

(* ====================================================================================== *)
Section Sweep.
Variable I : state -> Prop.

(* ---- the leaves, order side ---- *)
Hypothesis H_finish : forall s e st s',
  I s -> find_order (ekey e) (orders s) = Some e -> is_term st = true -> finish_entry s e st = Ok s' -> I s'.
Hypothesis H_place : forall s m typ pr price offer fee now s' P,
  I s -> get_params s (m_app m) = Some P -> find_pair (m_app m) (m_pair m) (pairs s) = Some pr ->
  fee = fee_amt (pr_fee_rate P) offer -> typ = 1 \/ typ = 2 ->
  place s m typ pr price offer fee now = Ok s' -> I s'.
Hypothesis H_drop_mm : forall s app owner pair,
  I s -> (forall ix, find_mm app owner pair (mmidx s) = Some ix -> forall id, In id (mi_ids ix) -> nonlive_at (app, pair, id) s) ->
  I (drop_mm s app owner pair).
Hypothesis H_mm_tail : forall s m pr bt st now s' P,
  I s -> get_params s (mm_app m) = Some P -> find_pair (mm_app m) (mm_pair m) (pairs s) = Some pr ->
  find_mm (mm_app m) (mm_owner m) (p_id pr) (mmidx s) = None ->
  existsb (fun t : Z * Z * Z => snd t <? 0) (bt ++ st) = false ->
  mm_tail s m pr bt st now = Ok s' -> I s'.
Hypothesis H_fill_book : forall s k o g matched paid recv,
  I s -> find_order k (orders s) = Some (o, g) -> is_live (o_status o) = true ->
  0 <= o_rem o - paid -> 0 <= paid -> 0 <= recv -> I (fill_book s k o g matched paid recv).
Hypothesis H_mark_status : forall s k o g st,
  I s -> find_order k (orders s) = Some (o, g) -> is_term (o_status o) = false -> st = 2 \/ st = 3 ->
  I (mark_status s k o g st).
Hypothesis H_esc_in : forall s app pair from d x s',
  I s -> is_outside from = true -> esc_in s app pair from d x = Ok s' -> I s'.
Hypothesis H_esc_out : forall s app pair to d x s',
  I s -> is_outside to = true -> esc_out s app pair to d x = Ok s' -> I s'.
Hypothesis H_disable_depleted : forall s pr, I s -> I (disable_depleted s pr).
Hypothesis H_set_pair_after : forall s pr env,
  I s -> find_pair (p_app pr) (p_id pr) (pairs s) = Some pr -> I (set_pair_after s pr env).
Hypothesis H_begin_app : forall s app, I s -> I (begin_app app s).
(* ---- the leaves, custody side ---- *)
Hypothesis H_create_pair : forall s app c b q s', I s -> create_pair s app c b q = Ok s' -> I s'.
Hypothesis H_new_pool : forall s P app c pr rg ax ay ps s',
  I s -> get_params s app = Some P -> (exists pid, find_pair app pid (pairs s) = Some pr) ->
  new_pool s P app c pr rg ax ay ps = Ok s' -> I s'.
Hypothesis H_deposit_req : forall s a o p x y s' r, I s -> deposit_req s a o p x y = Ok (s', r) -> I s'.
Hypothesis H_withdraw_req : forall s a o p pc s' r, I s -> withdraw_req s a o p pc = Ok (s', r) -> I s'.
Hypothesis H_fail_dep : forall s r s', I s -> In r (deps s) -> d_status r = 1 -> fail_dep s r = Ok s' -> I s'.
Hypothesis H_fail_wd : forall s r s', I s -> In r (wds s) -> w_status r = 1 -> fail_wd s r = Ok s' -> I s'.
Hypothesis H_disable_pool : forall s pl a i, I s -> find_pool a i (pools s) = Some pl -> I (disable_pool s pl).
Hypothesis H_do_deposit : forall s r pl pr ax ay pc s',
  I s -> In r (deps s) -> d_status r = 1 -> find_pool (d_app r) (d_pool r) (pools s) = Some pl -> pool_pair s pl = Some pr ->
  0 < pc -> 0 <= ax -> 0 <= ay -> ax <= d_x r -> ay <= d_y r ->
  do_deposit s r pr ax ay pc = Ok s' -> I s'.
Hypothesis H_do_withdraw : forall s r pl pr x y s',
  I s -> In r (wds s) -> w_status r = 1 -> find_pool (w_app r) (w_pool r) (pools s) = Some pl -> pool_pair s pl = Some pr ->
  do_withdraw s r pl pr x y = Ok s' -> I s'.
Hypothesis H_farm : forall s a o p amt now s', I s -> farm s a o p amt now = Ok s' -> I s'.
Hypothesis H_unfarm : forall s a o p amt s', I s -> unfarm s a o p amt = Ok s' -> I s'.
Hypothesis H_process_queued : forall s now app, I s -> I (process_queued now app s).
Hypothesis H_add_asset : forall s d, I s -> I (set_assets s (d :: assets s)).
Hypothesis H_fund : forall s who d amt, I s -> I (set_led s (ladd (led s) (User who) d amt)).

(* ---- placement ---- *)
Lemma sw_limit_order s m now s' : I s -> limit_order s m now = Ok s' -> I s'.
Proof.
  intros HI H. unfold limit_order in H.
  destruct (negb (vb_limit m)); [discriminate|].
  destruct (get_params s (m_app m)) as [P|] eqn:EP; [|discriminate].
  destruct (led s (User (m_owner m)) (m_odenom m) <? m_oamt m); [discriminate|].
  destruct (m_life m >? pr_max_life P); [discriminate|].
  destruct (find_pair (m_app m) (m_pair m) (pairs s)) as [pr|] eqn:Epr; [|discriminate].
  inv_ok H; (eapply (H_place s m 1 pr _ _ _ now s' P HI EP Epr eq_refl); [left; reflexivity|eassumption]).
Qed.
Lemma sw_market_order s m now s' : I s -> market_order s m now = Ok s' -> I s'.
Proof.
  intros HI H. unfold market_order in H.
  destruct (negb (vb_market m)); [discriminate|].
  destruct (get_params s (m_app m)) as [P|] eqn:EP; [|discriminate].
  destruct (led s (User (m_owner m)) (m_odenom m) <? m_oamt m); [discriminate|].
  destruct (m_life m >? pr_max_life P); [discriminate|].
  destruct (find_pair (m_app m) (m_pair m) (pairs s)) as [pr|] eqn:Epr; [|discriminate].
  inv_ok H; (eapply (H_place s m 2 pr _ _ _ now s' P HI EP Epr eq_refl); [right; reflexivity|eassumption]).
Qed.

(* ---- cancellation ---- *)
Lemma sw_cancel_order s app owner pair id s' : I s -> cancel_order s app owner pair id = Ok s' -> I s'.
Proof.
  intros HI H. unfold cancel_order in H.
  destruct (find_order (app, pair, id) (orders s)) as [e|] eqn:Ef; inv_ok H; try discriminate.
  all: eapply (H_finish s e 5 s' HI); [eapply find_order_self; exact Ef|reflexivity|eassumption].
Qed.

Lemma sw_cancel_all s app owner pids s' : I s -> cancel_all s app owner pids = Ok s' -> I s'.
Proof.
  intros HI H. unfold cancel_all in H.
  repeat match type of H with (if ?c then _ else _) = _ => destruct c; [discriminate|] end.
  revert HI H. apply fold_m_inv. clear s s'. intros s k s' HI H.
  destruct (find_order k (orders s)) as [e|] eqn:Ef; [|injection H as <-; exact HI].
  inv_ok H; subst; try exact HI.
  all: eapply (H_finish _ e 5 _ HI); [eapply find_order_self; exact Ef|reflexivity|eassumption].
Qed.

Lemma sw_cancel_mm_inner s app owner pr skip s' : I s -> cancel_mm_inner s app owner pr skip = Ok s' -> I s'.
Proof.
  intros HI H. unfold cancel_mm_inner, obind in H. destruct (find_mm app owner (p_id pr) (mmidx s)) as [ix|] eqn:Eix.
  - destruct (fold_m _ (mi_ids ix) s) as [s1| |] eqn:Ef; try discriminate. injection H as <-.
    destruct (cancel_fold_nonlive _ _ _ _ _ Ef) as (N1 & _ & Hmm).
    apply H_drop_mm.
    + revert HI Ef. apply fold_m_inv. clear s s1 Eix N1 Hmm. intros s id s' HI H.
      destruct (find_order (app, p_id pr, id) (orders s)) as [e|] eqn:Ef; [|injection H as <-; exact HI].
      inv_ok H; subst; try exact HI.
      eapply (H_finish _ e 5 _ HI); [eapply find_order_self; exact Ef|reflexivity|eassumption].
    + intros ix' Hix' id Hid. rewrite Hmm, Eix in Hix'. injection Hix' as <-. apply N1, Hid.
  - destruct skip; [injection H as <-; exact HI|discriminate].
Qed.
Lemma sw_cancel_mm s app owner pair s' : I s -> cancel_mm s app owner pair = Ok s' -> I s'.
Proof.
  unfold cancel_mm. intros HI H. destruct (pair =? 0); [discriminate|].
  destruct (find_pair app pair (pairs s)); [|discriminate]. eapply sw_cancel_mm_inner; eauto.
Qed.

Lemma sw_mm_order s m now s' : I s -> mm_order s m now = Ok s' -> I s'.
Proof.
  intros HI H. unfold mm_order in H.
  destruct (negb (vb_mm m)); [discriminate|].
  destruct (get_params s (mm_app m)) as [P|] eqn:EP; [|discriminate].
  repeat match type of H with (if ?c then _ else _) = _ => destruct c; [discriminate|] end.
  destruct (find_pair (mm_app m) (mm_pair m) (pairs s)) as [pr|] eqn:Epr; [|discriminate].
  destruct (match p_last_price pr with Some lp => _ | None => _ end) as [lo hi].
  repeat match type of H with (if ?c then _ else _) = _ => destruct c; [discriminate|] end.
  destruct (if mm_buy_amt m >? 0 then _ else Some []) as [bt|]; [|discriminate].
  destruct (if mm_sell_amt m >? 0 then _ else Some []) as [stt|]; [|discriminate].
  destruct (existsb _ (bt ++ stt)) eqn:Eneg; [discriminate|].
  repeat match type of H with (if ?c then _ else _) = _ => destruct c; [discriminate|] end.
  unfold obind in H.
  destruct (cancel_mm_inner s _ _ pr true) as [s1| |] eqn:E1; try discriminate.
  destruct (cancel_mm_inner_keepp _ _ _ _ _ _ E1) as [Kp Ka].
  eapply (H_mm_tail s1 m pr bt stt now s' P); [eapply sw_cancel_mm_inner; eauto| | | |exact Eneg|exact H].
  - unfold get_params in *. rewrite Ka. exact EP.
  - rewrite Kp. exact Epr.
  - clear H. unfold cancel_mm_inner, obind in E1.
    destruct (find_mm (mm_app m) (mm_owner m) (p_id pr) (mmidx s)) as [ix|] eqn:Eix.
    + destruct (fold_m _ (mi_ids ix) s) as [t| |]; try discriminate. injection E1 as <-. unfold drop_mm. cbn [mmidx set_mmidx]. apply find_mm_del.
    + injection E1 as <-. exact Eix.
Qed.

(* ---- batch execution ---- *)
Lemma live_not_term st : is_live st = true -> is_term st = false.
Proof. unfold is_live, is_term. lia. Qed.

Lemma sw_apply_fill s app pair f s' : I s -> apply_fill s app pair f = Ok s' -> I s'.
Proof.
  destruct f as [[[id matched] paid] recv]. unfold apply_fill, obind. intros HI H.
  destruct (find_order (app, pair, id) (orders s)) as [[o g]|] eqn:Ef; [|discriminate].
  destruct (negb (is_live (o_status o))) eqn:El; [discriminate|]. apply negb_false_iff in El.
  destruct ((o_rem o - paid <? 0) || (paid <? 0) || (recv <? 0)) eqn:Eg; [discriminate|].
  pose proof (H_fill_book s (app, pair, id) o g matched paid recv HI Ef El ltac:(lia) ltac:(lia) ltac:(lia)) as HI2.
  set (s2 := fill_book s (app, pair, id) o g matched paid recv) in *.
  set (o1 := set_fill o matched paid recv (o_status o)) in *.
  set (g1 := fill_ghost g matched paid recv) in *.
  assert (Ef2 : find_order (app, pair, id) (orders s2) = Some (o1, g1)).
  { unfold s2, fill_book. cbn [orders set_surplus set_owed set_orders].
    apply (find_order_upd _ _ _ _ Ef). unfold ekey, okey, o1. cbn [fst set_fill o_app o_pair o_id].
    destruct (find_order_in _ _ _ Ef) as [_ Hk]. exact Hk. }
  match type of H with match ?x with _ => _ end = _ => destruct x as [s3| |] eqn:E3; try discriminate end.
  refine (H_esc_out s3 app pair (User (o_owner o)) (o_ddenom o) recv s' _ eq_refl H).
  destruct (o_open o1 =? 0).
  - eapply (H_finish s2 (o1, g1) 4 s3 HI2); [eapply find_order_self; exact Ef2|reflexivity|exact E3].
  - injection E3 as <-. apply (H_mark_status s2 _ o1 g1 3 HI2 Ef2); [|right; reflexivity].
    unfold o1. cbn [set_fill o_status]. apply live_not_term, El.
Qed.

Lemma sw_apply_pool_flow c app pr s f s' : I s -> apply_pool_flow c app pr s f = Ok s' -> I s'.
Proof.
  destruct f as [[pid dq] db]. unfold apply_pool_flow, obind. intros HI H.
  assert (G : forall s d x s', I s ->
               (if x <? 0 then if c then esc_in s app (p_id pr) (Reserve app pid) d (- x) else Ok s
                else if c then Ok s else esc_out s app (p_id pr) (Reserve app pid) d x) = Ok s' -> I s').
  { intros s0 d x s0' HI0 H0. destruct (x <? 0), c; try (injection H0 as <-; exact HI0);
      [refine (H_esc_in s0 _ _ (Reserve _ _) _ _ s0' HI0 eq_refl H0)|refine (H_esc_out s0 _ _ (Reserve _ _) _ _ s0' HI0 eq_refl H0)]. }
  match type of H with match ?x with _ => _ end = _ => destruct x as [s1| |] eqn:E1; try discriminate end.
  eapply G; [eapply G; [exact HI|exact E1]|exact H].
Qed.

Lemma sw_execute_matching now s pr env s' :
  I s -> find_pair (p_app pr) (p_id pr) (pairs s) = Some pr -> execute_matching now s pr env = Ok s' -> I s'.
Proof.
  unfold execute_matching, obind. intros HI Hpr H.
  destruct (fold_m _ (map ekey _) s) as [s1| |] eqn:E1; try discriminate.
  match type of H with match ?x with _ => _ end = _ => destruct x as [s3| |] eqn:E3; try discriminate end.
  injection H as <-.
  (* first loop *)
  assert (L1 : forall s k s', I s /\ keepp s s ->
            match find_order k (orders s) with
            | None => Ok s
            | Some (o, g) =>
              if is_live (o_status o) then
                if negb (o_status o =? 1) && (o_expire o <=? now) then finish_entry s (o, g) 6
                else if o_status o =? 1 then Ok (mark_status s k o g 2) else Ok s
              else if o_status o =? 5 then Ok s else Err 14
            end = Ok s' -> I s' /\ keepp s s').
  { clear HI Hpr E1 E3. clear s s1 s3. intros s k s' [HI _] H.
    destruct (find_order k (orders s)) as [[o g]|] eqn:Ef; [|injection H as <-; split; [exact HI|apply keepp_refl]].
    destruct (is_live (o_status o)) eqn:El.
    - destruct (negb (o_status o =? 1) && (o_expire o <=? now)).
      + split; [eapply (H_finish s (o, g) 6 s' HI); [eapply find_order_self; exact Ef|reflexivity|exact H]
               |eapply finish_entry_keepp; exact H].
      + destruct (o_status o =? 1); injection H as <-; [|split; [exact HI|apply keepp_refl]].
        split; [apply (H_mark_status s k o g 2 HI Ef); [apply live_not_term, El|left; reflexivity]|split; reflexivity].
    - destruct (o_status o =? 5); [injection H as <-; split; [exact HI|apply keepp_refl]|discriminate]. }
  assert (R1 : I s1 /\ keepp s s1).
  { assert (G : forall l s0 s0', I s0 /\ keepp s s0 -> fold_m (fun s k => match find_order k (orders s) with
            | None => Ok s
            | Some (o, g) =>
              if is_live (o_status o) then
                if negb (o_status o =? 1) && (o_expire o <=? now) then finish_entry s (o, g) 6
                else if o_status o =? 1 then Ok (mark_status s k o g 2) else Ok s
              else if o_status o =? 5 then Ok s else Err 14
            end) l s0 = Ok s0' -> I s0' /\ keepp s s0').
    { induction l as [|k r IH]; cbn [fold_m]; intros s0 s0' [HI0 K0] H0.
      - injection H0 as <-. split; assumption.
      - unfold obind in H0. match type of H0 with match ?x with _ => _ end = _ => destruct x as [sa| |] eqn:Ea; try discriminate end.
        destruct (L1 s0 k sa (conj HI0 (keepp_refl _)) Ea) as [HIa Ka].
        apply (IH sa s0'); [split; [exact HIa|eapply keepp_trans; eauto]|exact H0]. }
    eapply G; [split; [exact HI|apply keepp_refl]|exact E1]. }
  destruct R1 as [HI1 K1].
  pose proof (H_disable_depleted s1 pr HI1) as HI2.
  set (s2 := disable_depleted s1 pr) in *.
  assert (K2 : keepp s s2). { eapply keepp_trans; [exact K1|split; reflexivity]. }
  assert (R3 : I s3 /\ keepp s s3).
  { destruct (b_matched env); [|injection E3 as <-; split; assumption].
    destruct (fold_m (apply_pool_flow true (p_app pr) pr) (b_pools env) s2) as [a| |] eqn:Ea; try discriminate.
    destruct (fold_m _ (b_fills env) a) as [b| |] eqn:Eb; try discriminate.
    destruct (fold_m (apply_pool_flow false (p_app pr) pr) (b_pools env) b) as [c| |] eqn:Ec; try discriminate.
    split.
    - refine (H_esc_out c _ _ (Dust _) _ _ s3 _ eq_refl E3).
      apply (fold_m_inv' I _ _ _ _ Ec); [|intros t0 x0 t0' HP HH; exact (sw_apply_pool_flow _ _ _ _ _ _ HP HH)].
      apply (fold_m_inv' I _ _ _ _ Eb); [|intros t0 x0 t0' HP HH; exact (sw_apply_fill _ _ _ _ _ HP HH)].
      apply (fold_m_inv' I _ _ _ _ Ea); [exact HI2|intros t0 x0 t0' HP HH; exact (sw_apply_pool_flow _ _ _ _ _ _ HP HH)].
    - eapply keepp_trans; [exact K2|].
      eapply keepp_trans; [eapply fold_m_keepp; [|exact Ea]; intros; eapply apply_pool_flow_keepp; eauto|].
      eapply keepp_trans; [eapply fold_m_keepp; [|exact Eb]; intros ? ? ? HH; cbv beta in HH; eapply apply_fill_keepp; eauto|].
      eapply keepp_trans; [eapply fold_m_keepp; [|exact Ec]; intros; eapply apply_pool_flow_keepp; eauto|].
      eapply esc_out_keepp; exact E3. }
  destruct R3 as [HI3 [K3 _]]. apply H_set_pair_after; [exact HI3|]. rewrite K3. exact Hpr.
Qed.

Lemma sw_sweep_orders now app s s' : I s -> sweep_orders now app s = Ok s' -> I s'.
Proof.
  unfold sweep_orders. apply fold_m_inv. clear s s'. intros s k s' HI H.
  destruct (find_order k (orders s)) as [[o g]|] eqn:Ef; [|injection H as <-; exact HI].
  destruct (is_live (o_status o) && (o_expire o <=? now));
    [eapply (H_finish s (o, g) 6 s' HI); [eapply find_order_self; exact Ef|reflexivity|exact H]|].
  destruct (too_small (o_open o) (o_price o));
    [eapply (H_finish s (o, g) 6 s' HI); [eapply find_order_self; exact Ef|reflexivity|exact H]|].
  injection H as <-; exact HI.
Qed.

(* ---- pools, requests, farming ---- *)
Lemma sw_create_pool s a c p x y ok ps s' : I s -> create_pool s a c p x y ok ps = Ok s' -> I s'.
Proof.
  unfold create_pool. intros HI H. destruct (_ || _); [discriminate|].
  destruct (get_params s a) as [P|] eqn:EP; [|discriminate].
  destruct (find_pair a p (pairs s)) as [pr|] eqn:Epr; [|discriminate].
  inv_ok H; eapply (H_new_pool s P a c pr false x y ps s' HI EP); eauto.
Qed.
Lemma sw_create_ranged s a c p x y ok ax ay ps s' : I s -> create_ranged s a c p x y ok ax ay ps = Ok s' -> I s'.
Proof.
  unfold create_ranged. intros HI H. destruct (_ || _); [discriminate|].
  destruct (get_params s a) as [P|] eqn:EP; [|discriminate].
  destruct (find_pair a p (pairs s)) as [pr|] eqn:Epr; [|discriminate].
  inv_ok H; eapply (H_new_pool s P a c pr true ax ay ps s' HI EP); eauto.
Qed.

Lemma sw_exec_deposit s r ax ay pc s' :
  I s -> In r (deps s) -> d_status r = 1 -> exec_deposit s r ax ay pc = Ok s' -> I s'.
Proof.
  unfold exec_deposit. intros HI Hin Hst H.
  destruct (find_pool (d_app r) (d_pool r) (pools s)) as [pl|] eqn:Epl; [|discriminate].
  destruct (pool_pair s pl) as [pr|] eqn:Epr; [|discriminate].
  destruct (pl_disabled pl); [eapply H_fail_dep; eauto|].
  destruct (pool_depleted s pr pl).
  { eapply (H_fail_dep (disable_pool s pl)); [eapply H_disable_pool; eauto|exact Hin|exact Hst|exact H]. }
  destruct (pc =? 0) eqn:Epc; [eapply H_fail_dep; eauto|].
  destruct ((pc <? 0) || (ax <? 0) || (ay <? 0) || (d_x r - ax <? 0) || (d_y r - ay <? 0)) eqn:Eg; [discriminate|].
  eapply (H_do_deposit s r pl pr ax ay pc s' HI Hin Hst Epl Epr); try lia. exact H.
Qed.

Lemma sw_exec_withdraw s r x y s' :
  I s -> In r (wds s) -> w_status r = 1 -> exec_withdraw s r x y = Ok s' -> I s'.
Proof.
  unfold exec_withdraw. intros HI Hin Hst H.
  destruct (negb (has_app s (w_app r))); [discriminate|].
  destruct (find_pool (w_app r) (w_pool r) (pools s)) as [pl|] eqn:Epl; [|discriminate].
  destruct (pool_pair s pl) as [pr|] eqn:Epr; [|discriminate].
  destruct (pl_disabled pl); [eapply H_fail_wd; eauto|].
  destruct (pool_depleted s pr pl).
  { eapply (H_fail_wd (disable_pool s pl)); [eapply H_disable_pool; eauto|exact Hin|exact Hst|exact H]. }
  destruct ((x =? 0) && (y =? 0)); [eapply H_fail_wd; eauto|].
  eapply (H_do_withdraw s r pl pr x y s' HI Hin Hst Epl Epr). exact H.
Qed.

Lemma deposit_req_new s a o p x y s' r : deposit_req s a o p x y = Ok (s', r) -> In r (deps s') /\ d_status r = 1.
Proof.
  unfold deposit_req, obind. intros H. inv_ok H; subst.
  cbn [deps set_deps]. split; [apply in_or_app; right; left; reflexivity|reflexivity].
Qed.
Lemma withdraw_req_new s a o p pc s' r : withdraw_req s a o p pc = Ok (s', r) -> In r (wds s') /\ w_status r = 1.
Proof.
  unfold withdraw_req, obind. intros H. inv_ok H; subst.
  cbn [wds set_wds]. split; [apply in_or_app; right; left; reflexivity|reflexivity].
Qed.

Lemma sw_deposit_and_farm s a o p x y now ax ay pc s' : I s -> deposit_and_farm s a o p x y now ax ay pc = Ok s' -> I s'.
Proof.
  unfold deposit_and_farm, obind. intros HI H.
  destruct (deposit_req s a o p x y) as [[s1 r]| |] eqn:E1; try discriminate.
  destruct (exec_deposit s1 r ax ay pc) as [s2| |] eqn:E2; try discriminate.
  destruct (find _ (deps s2)); [|discriminate]. destruct (_ || _); [discriminate|].
  destruct (deposit_req_new _ _ _ _ _ _ _ _ E1) as [Hin Hst].
  eapply H_farm; [|exact H]. eapply sw_exec_deposit; [eapply H_deposit_req; eauto|exact Hin|exact Hst|exact E2].
Qed.
Lemma sw_unfarm_and_withdraw s a o p pc x y s' : I s -> unfarm_and_withdraw s a o p pc x y = Ok s' -> I s'.
Proof.
  unfold unfarm_and_withdraw, obind. intros HI H. destruct (_ || _); [discriminate|].
  destruct (unfarm s a o p pc) as [s1| |] eqn:E1; try discriminate.
  destruct (withdraw_req s1 a o p pc) as [[s2 r]| |] eqn:E2; try discriminate.
  destruct (withdraw_req_new _ _ _ _ _ _ _ E2) as [Hin Hst].
  eapply sw_exec_withdraw; [eapply H_withdraw_req; [eapply H_unfarm; eauto|exact E2]|exact Hin|exact Hst|exact H].
Qed.

(* ---- block hooks ---- *)
Lemma sw_end_app now s env s' : I s -> end_app now s env = Ok s' -> I s'.
Proof.
  unfold end_app, obind. intros HI H.
  destruct (fold_m _ (map pkey _) s) as [s1| |] eqn:E1; try discriminate.
  destruct (sweep_orders now (e_app env) s1) as [s2| |] eqn:E2; try discriminate.
  destruct (fold_m _ (map dkey _) s2) as [s3| |] eqn:E3; try discriminate.
  destruct (fold_m _ (map wkey _) s3) as [s4| |] eqn:E4; try discriminate.
  injection H as <-. apply H_process_queued.
  apply (fold_m_inv' I _ _ _ _ E4); cycle 1.
  { intros s0 k s0' HI0 HH. cbv beta in HH. destruct (find_wd k (wds s0)) as [r|] eqn:Ef; [|injection HH as <-; exact HI0].
    destruct (w_status r =? 1) eqn:Est; [|injection HH as <-; exact HI0].
    destruct (find_wd_env _ _ _) as [x y]. eapply sw_exec_withdraw; [exact HI0|apply (find_wd_in _ _ _ Ef)|lia|exact HH]. }
  apply (fold_m_inv' I _ _ _ _ E3); cycle 1.
  { intros s0 k s0' HI0 HH. cbv beta in HH. destruct (find_dep k (deps s0)) as [r|] eqn:Ef; [|injection HH as <-; exact HI0].
    destruct (d_status r =? 1) eqn:Est; [|injection HH as <-; exact HI0].
    destruct (find_dep_env _ _ _) as [[ax ay] pc]. eapply sw_exec_deposit; [exact HI0|apply (find_dep_in _ _ _ Ef)|lia|exact HH]. }
  eapply sw_sweep_orders; [|exact E2].
  apply (fold_m_inv' I _ _ _ _ E1); [exact HI|].
  intros s0 k s0' HI0 HH. cbv beta in HH. destruct (find_pair (fst k) (snd k) (pairs s0)) as [pr|] eqn:Ef; [|injection HH as <-; exact HI0].
  eapply sw_execute_matching; [exact HI0| |exact HH].
  destruct (find_pair_in _ _ _ _ Ef) as (_ & -> & ->). exact Ef.
Qed.

Lemma sw_atomic s r : I s -> (forall s', r = Ok s' -> I s') -> I (atomic s r).
Proof. intros HI H. destruct r; cbn; [apply H; reflexivity|exact HI|exact HI]. Qed.

Lemma sw_end_block h now envs s : I s -> I (end_block h now envs s).
Proof.
  unfold end_block. apply fold_left_inv. intros s0 [app P] HI.
  destruct (pr_batch P =? 0); [exact HI|]. destruct (h mod pr_batch P =? 0); [|exact HI].
  apply sw_atomic; [exact HI|]. intros s' H. eapply sw_end_app; eauto.
Qed.
Lemma sw_begin_block s : I s -> I (begin_block s).
Proof. unfold begin_block. apply fold_left_inv. intros s0 [app P] HI. cbn [fst]. apply H_begin_app, HI. Qed.

(* ---- every operation; histories ---- *)
Definition is_addapp (o : op) : bool := match o with OAddApp _ _ => true | _ => false end.

Lemma sw_step s o s' : is_addapp o = false -> I s -> step s o = Ok s' -> I s'.
Proof.
  destruct o; cbn [is_addapp step]; intros Hn HI H; try discriminate.
  - injection H as <-. apply H_add_asset, HI.
  - injection H as <-. apply H_fund, HI.
  - eapply H_create_pair; eauto.
  - eapply sw_create_pool; eauto.
  - eapply sw_create_ranged; eauto.
  - eapply sw_limit_order; eauto.
  - eapply sw_market_order; eauto.
  - eapply sw_mm_order; eauto.
  - eapply sw_cancel_order; eauto.
  - eapply sw_cancel_all; eauto.
  - eapply sw_cancel_mm; eauto.
  - unfold obind in H. destruct (deposit_msg s app owner pid cs) as [[s1 r]| |] eqn:E; try discriminate.
    injection H as <-. destruct (deposit_msg_inv _ _ _ _ _ _ _ E) as (x & y & E'). eapply H_deposit_req; eauto.
  - unfold obind in H. destruct (withdraw_msg s app owner pid dn pc) as [[s1 r]| |] eqn:E; try discriminate.
    injection H as <-. apply withdraw_msg_inv in E. eapply H_withdraw_req; eauto.
  - apply farm_msg_inv in H. eapply H_farm; eauto.
  - apply unfarm_msg_inv in H. eapply H_unfarm; eauto.
  - destruct (deposit_and_farm_msg_inv _ _ _ _ _ _ _ _ _ _ H) as (x & y & H'). eapply sw_deposit_and_farm; eauto.
  - apply unfarm_and_withdraw_msg_inv in H. eapply sw_unfarm_and_withdraw; eauto.
  - injection H as <-. apply sw_begin_block, HI.
  - injection H as <-. apply sw_end_block, HI.
Qed.

Lemma sw_apply_op s o : is_addapp o = false -> I s -> I (apply_op s o).
Proof. intros Hn HI. unfold apply_op. apply sw_atomic; [exact HI|]. intros s' H. eapply sw_step; eauto. Qed.

Theorem sw_run ops : Forall (fun o => is_addapp o = false) ops -> forall s, I s -> I (fold_left apply_op ops s).
Proof.
  intros Ho. induction Ho as [|o r Hn _ IH]; intros s HI; cbn [fold_left]; [exact HI|].
  apply IH, sw_apply_op; assumption.
Qed.
End Sweep.

(* ---------------- the setup prefix ---------------- *)
Definition is_setup (o : op) : bool := match o with OAddApp _ _ | OAddAsset _ | OFund _ _ _ => true | _ => false end.
