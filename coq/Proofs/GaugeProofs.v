(* Proofs for Model/Gauge.v (C19). *)
From Comdex Require Import Lib.Base Lib.DecArith Lib.DecFacts Lib.DecFacts3 Lib.F64 Model.Gauge.
From Coq Require Import ZifyBool.

(* ---------------- split ---------------- *)
Lemma zsum_repeat x n : zsum (repeat x n) = Z.of_nat n * x.
Proof. induction n as [|n IH]; [reflexivity|]. cbn [repeat zsum]. rewrite IH. lia. Qed.

Lemma split_loop_len n : forall i zp pp, length (split_loop n i zp pp) = n.
Proof. induction n as [|n IH]; intros; cbn [split_loop length]; [reflexivity|]. rewrite IH. reflexivity. Qed.

Lemma split_loop_elems n : forall i zp pp, Forall (fun x => x = pp \/ x = pp + 1) (split_loop n i zp pp).
Proof.
  induction n as [|n IH]; intros; cbn [split_loop]; constructor; [|apply IH].
  destruct (zp <=? i); auto.
Qed.

Lemma split_loop_sum_hi n : forall i zp pp, zp <= i -> zsum (split_loop n i zp pp) = Z.of_nat n * (pp + 1).
Proof.
  induction n as [|n IH]; intros i zp pp H; cbn [split_loop zsum]; [lia|].
  destruct (Z.leb_spec zp i); [|lia]. rewrite IH by lia. lia.
Qed.

Lemma split_loop_sum n : forall i zp pp, i <= zp -> zp <= i + Z.of_nat n ->
  zsum (split_loop n i zp pp) = Z.of_nat n * pp + (i + Z.of_nat n - zp).
Proof.
  induction n as [|n IH]; intros i zp pp H1 H2; cbn [split_loop zsum]; [lia|].
  destruct (Z.leb_spec zp i).
  - rewrite split_loop_sum_hi by lia. lia.
  - rewrite IH by lia. lia.
Qed.

Lemma repeat_elems (x : Z) n : Forall (fun y => y = x \/ y = x + 1) (repeat x n).
Proof. induction n; cbn; constructor; auto. Qed.

Lemma split_spec total epochs : 1 <= epochs -> epochs <= total ->
  exists sp, split total epochs = Ok sp /\ zsum sp = total /\ zlen sp = epochs /\
             Forall (fun x => x = total / epochs \/ x = total / epochs + 1) sp.
Proof.
  intros He Ht. unfold split. destruct (Z.ltb_spec total epochs); [lia|].
  destruct (Z.eqb_spec epochs 0); [lia|].
  pose proof (Z.div_mod total epochs ltac:(lia)) as Hdm.
  pose proof (Z.mod_pos_bound total epochs ltac:(lia)) as Hmb.
  destruct (Z.eqb_spec (total mod epochs) 0).
  - eexists. split; [reflexivity|]. split; [|split].
    + rewrite zsum_repeat. rewrite Z2Nat.id by lia. nia.
    + unfold zlen. rewrite repeat_length. lia.
    + apply repeat_elems.
  - eexists. split; [reflexivity|]. split; [|split].
    + rewrite split_loop_sum by lia. rewrite Z2Nat.id by lia. nia.
    + unfold zlen. rewrite split_loop_len. lia.
    + apply split_loop_elems.
Qed.

Lemma split_small total epochs : total < epochs -> split total epochs = Ok [].
Proof. intros. unfold split. destruct (Z.ltb_spec total epochs); [reflexivity|lia]. Qed.

Lemma split_zero_epochs total : 0 <= total -> split total 0 = Panic.
Proof. intros. unfold split. destruct (Z.ltb_spec total 0); [lia|]. reflexivity. Qed.

(* SENDS-TRIGGER-HISTORIES: rewritten below *)

(* ---------------- epochs ---------------- *)
(* a tick never moves the epoch start beyond now, and a trigger advances exactly one epoch *)
Lemma epoch_tick_spec now e e' r : 0 < e_dur e -> epoch_tick now e = (e', r) ->
  e_dur e' = e_dur e /\
  match r with
  | TTrigger => e_cur e' = e_cur e + 1 /\ e_cest e' = e_cest e + e_dur e /\ e_cest e' < now
  | TSkipped => e_cur e' = e_cur e /\ e_cest e < e_cest e' <= now /\ now - e_cest e' < e_dur e
  | TFresh => e_cur e' = e_cur e /\ e_fresh e' = false
  | TNothing => e' = e
  end.
Proof.
  intros Hd. unfold epoch_tick.
  destruct (e_fresh e && (e_cur e =? 0)). { intros H; injection H as <- <-. cbn. auto. }
  destruct (Z.ltb_spec (e_cest e + 2 * e_dur e) now).
  { intros H0; injection H0 as <- <-. cbn. split; [reflexivity|]. split; [reflexivity|].
    rewrite Z.quot_div_nonneg by lia.
    pose proof (Z.div_mod (now - e_cest e) (e_dur e) ltac:(lia)).
    pose proof (Z.mod_pos_bound (now - e_cest e) (e_dur e) Hd).
    assert (2 <= (now - e_cest e) / e_dur e) by (apply Z.div_le_lower_bound; lia). nia. }
  destruct (Z.ltb_spec (e_cest e + e_dur e) now).
  { intros H1; injection H1 as <- <-. cbn. repeat split; lia. }
  intros H1; injection H1 as <- <-. auto.
Qed.

(* ---------------- farmer share ---------------- *)
Lemma P18f_eq : P18f = P18. Proof. reflexivity. Qed.
Lemma small_const : P18f * F_P52 < F_ONE. Proof. vm_compute. reflexivity. Qed.

(* int64(floor(float64(v))) <= v * (1 + 2^-53), in units: payout * 10^18 * 2^53 <= v * (2^53 + 1) *)
Lemma floor_to64_le v : 0 <= v -> 0 <= floor64 (to64 v) /\ floor64 (to64 v) * P18 * F_P53 <= v * (F_P53 + 1).
Proof.
  intros Hv. pose proof F_ONE_pos as HF. pose proof F_P53_pos. pose proof P18f_pos. pose proof small_const as Hc.
  rewrite <- P18f_eq. unfold floor64, to64, rnd64. destruct (Z.ltb_spec v 0); [lia|].
  pose proof (rnd64_nn_nonneg v P18f Hv ltac:(lia)) as Hr0.
  pose proof (rnd64_nn_err v P18f Hv ltac:(lia)) as [_ He]. set (r := rnd64_nn v P18f) in *.
  pose proof (Z.div_mod r F_ONE ltac:(lia)). pose proof (Z.mod_pos_bound r F_ONE HF).
  assert (0 <= r / F_ONE) by (apply Z.div_pos; lia). split; [assumption|].
  set (p := r / F_ONE) in *.
  (* p*F_ONE <= r ; (r*P18f - v*F_ONE)*2^53 <= v*F_ONE + P18f*2^52 *)
  assert (Hp : p * F_ONE <= r) by (unfold p; lia).
  assert (0 <= P18f * F_P53) by nia.
  assert (Hq : p * F_ONE * (P18f * F_P53) <= r * (P18f * F_P53)) by (apply Z.mul_le_mono_nonneg_r; assumption).
  assert (p * F_ONE * P18f * F_P53 <= v * F_ONE * (F_P53 + 1) + P18f * F_P52) by lia.
  assert ((p * P18f * F_P53 - v * (F_P53 + 1)) * F_ONE < F_ONE) by nia.
  nia.
Qed.

(* the Dec value of the share: v * total * 10^18 <= s*coins*10^36 + s*total + total/2 *)
Lemma share_dec_le coins total s : 0 <= coins -> 0 < total -> 0 <= s ->
  0 <= share_dec coins total s /\
  share_dec coins total s * P18 * total <= s * (coins * P36 + total) + HALF18 * total.
Proof.
  intros Hc Ht Hs. dec_consts. pose proof P36_eq. unfold share_dec, dec_of_int.
  pose proof (dquo_bounds (coins * P18) total ltac:(nia) Ht) as Bq.
  pose proof (dquo_nonneg (coins * P18) total ltac:(nia) Ht) as Nq.
  set (M := dquo (coins * P18) total) in *.
  pose proof (dmul_bounds s M) as Bm. pose proof (dmul_nonneg s M Hs Nq). set (v := dmul s M) in *.
  split; [assumption|].
  assert (s * (M * total) <= s * (coins * P18 * P18 + total)) by nia. nia.
Qed.

(* general share bound, all inputs *)
Lemma share_general coins total s : 0 <= coins -> 0 < total -> 0 <= s ->
  let p := share_reward coins total s in
  0 <= p /\ p * P36 * total * F_P53 <= (s * (coins * P36 + total) + HALF18 * total) * (F_P53 + 1).
Proof.
  intros Hc Ht Hs. cbv zeta. unfold share_reward.
  pose proof (share_dec_le coins total s Hc Ht Hs) as [V0 V1]. set (v := share_dec coins total s) in *.
  pose proof (floor_to64_le v V0) as [Q0 Q1]. set (p := floor64 (to64 v)) in *.
  split; [assumption|]. dec_consts. pose proof P36_eq. pose proof F_P53_pos.
  assert (p * P18 * F_P53 * (P18 * total) <= v * (F_P53 + 1) * (P18 * total)) by (apply Z.mul_le_mono_nonneg_r; nia).
  assert (v * P18 * total * (F_P53 + 1) <= (s * (coins * P36 + total) + HALF18 * total) * (F_P53 + 1))
    by (apply Z.mul_le_mono_nonneg_r; lia).
  nia.
Qed.

Lemma share_num_fact : (P18 + 600000) * (F_P53 + 1) * 1000000000000 <= P18 * F_P53 * 1000000000001.
Proof. vm_compute. discriminate. Qed.

(* outside the known-finding class (total farmed value <= 400 000 x allocation) and for a farmer
   whose value is at least one unit, the payout is within one part in 10^12 of the pro-rata share *)
Lemma share_bound coins total s : 0 <= coins -> 0 < total -> P18 <= s ->
  kf_C19_1 coins total = false ->
  holds_C19_share coins total s (share_reward coins total s) = true.
Proof.
  intros Hc Ht Hs Hk. dec_consts. pose proof P36_eq as E36. pose proof F_P53_pos.
  pose proof (share_general coins total s Hc Ht ltac:(lia)) as [P0 P1]. cbv zeta in P1.
  set (p := share_reward coins total s) in *.
  unfold kf_C19_1 in Hk. assert (Hk' : total <= coins * 400000 * P18) by lia.
  unfold holds_C19_share. apply andb_true_intro. split; [lia|]. apply Z.leb_le.
  pose proof share_num_fact as NF.
  (* bracket <= s * coins * P18 * (P18 + 600000) *)
  assert (B1 : s * total <= s * (coins * 400000 * P18)) by (apply Z.mul_le_mono_nonneg_l; lia).
  assert (B2 : 2 * (HALF18 * total) <= s * (coins * 400000 * P18)).
  { assert (2 * HALF18 * total <= s * total) by (apply Z.mul_le_mono_nonneg_r; lia).
    lia. }
  assert (B : s * (coins * P36 + total) + HALF18 * total <= s * coins * P18 * (P18 + 600000)) by (rewrite E36; nia).
  assert (C1 : p * P36 * total * F_P53 <= s * coins * P18 * (P18 + 600000) * (F_P53 + 1)).
  { etransitivity; [exact P1|]. apply Z.mul_le_mono_nonneg_r; lia. }
  (* multiply by 10^12 and use the numeric fact *)
  assert (0 <= s * coins) by nia.
  assert (C2 : s * coins * ((P18 + 600000) * (F_P53 + 1) * 1000000000000) <= s * coins * (P18 * F_P53 * 1000000000001))
    by (apply Z.mul_le_mono_nonneg_l; lia).
  rewrite E36 in C1.
  assert (C3 : (p * total * 1000000000000) * (P18 * P18 * F_P53) <= (coins * s * 1000000000001) * (P18 * P18 * F_P53)) by nia.
  assert (0 < P18 * P18 * F_P53) by nia.
  apply (Z.mul_le_mono_pos_r _ _ (P18 * P18 * F_P53)); assumption.
Qed.
