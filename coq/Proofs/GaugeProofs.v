(* Proofs for Model/Gauge.v (C19). *)
From Comdex Require Import Lib.Base Lib.DecArith Lib.DecFacts Lib.DecFacts2 Lib.DecFacts3 Lib.F64 Model.Gauge.
From Coq Require Import ZifyBool.

(* ---------------- split ---------------- *)
Lemma zsum_repeat x n : zsum (repeat x n) = Z.of_nat n * x.
Proof. induction n as [|n IH]; [reflexivity|]. cbn [repeat zsum]. rewrite IH. lia. Qed.

Lemma split_loop_len n : forall i zp pp, length (split_loop n i zp pp) = n.
Proof. induction n as [|n IH]; intros; cbn [split_loop length]; [reflexivity|]. rewrite IH. reflexivity. Qed.

Lemma split_loop_elems n : forall i zp pp, Forall (fun x => x = pp \/ x = pp + 1) (split_loop n i zp pp).
Proof.
  induction n as [|n IH]; intros; cbn [split_loop]; constructor; [|apply IH].
  destruct (zp <=? i); auto.
Qed.

Lemma split_loop_sum_hi n : forall i zp pp, zp <= i -> zsum (split_loop n i zp pp) = Z.of_nat n * (pp + 1).
Proof.
  induction n as [|n IH]; intros i zp pp H; cbn [split_loop zsum]; [lia|].
  destruct (Z.leb_spec zp i); [|lia]. rewrite IH by lia. lia.
Qed.

Lemma split_loop_sum n : forall i zp pp, i <= zp -> zp <= i + Z.of_nat n ->
  zsum (split_loop n i zp pp) = Z.of_nat n * pp + (i + Z.of_nat n - zp).
Proof.
  induction n as [|n IH]; intros i zp pp H1 H2; cbn [split_loop zsum]; [lia|].
  destruct (Z.leb_spec zp i).
  - rewrite split_loop_sum_hi by lia. lia.
  - rewrite IH by lia. lia.
Qed.

Lemma repeat_elems (x : Z) n : Forall (fun y => y = x \/ y = x + 1) (repeat x n).
Proof. induction n; cbn; constructor; auto. Qed.

Lemma split_spec total epochs : 1 <= epochs -> epochs <= total ->
  exists sp, split total epochs = Ok sp /\ zsum sp = total /\ zlen sp = epochs /\
             Forall (fun x => x = total / epochs \/ x = total / epochs + 1) sp.
Proof.
  intros He Ht. unfold split. destruct (Z.ltb_spec total epochs); [lia|].
  destruct (Z.eqb_spec epochs 0); [lia|].
  pose proof (Z.div_mod total epochs ltac:(lia)) as Hdm.
  pose proof (Z.mod_pos_bound total epochs ltac:(lia)) as Hmb.
  destruct (Z.eqb_spec (total mod epochs) 0).
  - eexists. split; [reflexivity|]. split; [|split].
    + rewrite zsum_repeat. rewrite Z2Nat.id by lia. nia.
    + unfold zlen. rewrite repeat_length. lia.
    + apply repeat_elems.
  - eexists. split; [reflexivity|]. split; [|split].
    + rewrite split_loop_sum by lia. rewrite Z2Nat.id by lia. nia.
    + unfold zlen. rewrite split_loop_len. lia.
    + apply split_loop_elems.
Qed.

Lemma split_small total epochs : total < epochs -> split total epochs = Ok [].
Proof. intros. unfold split. destruct (Z.ltb_spec total epochs); [reflexivity|lia]. Qed.

Lemma split_zero_epochs total : 0 <= total -> split total 0 = Panic.
Proof. intros. unfold split. destruct (Z.ltb_spec total 0); [lia|]. reflexivity. Qed.

(* ---------------- sends ---------------- *)
Definition nonneg_pays (l : pays) : Prop := Forall (fun p => 0 <= snd p) l.

Lemma do_sends_spec rewards : forall bal, nonneg_pays rewards ->
  let '(b, ps) := do_sends bal rewards in
  b = bal - pay_total ps /\ 0 <= pay_total ps <= pay_total rewards /\ (0 <= bal -> 0 <= b).
Proof.
  unfold pay_total. induction rewards as [|[a r] rest IH]; intros bal Hr; cbn [do_sends].
  - cbn. lia.
  - inversion Hr as [|? ? Hr0 Hr']; subst. cbn [snd] in Hr0. destruct (Z.leb_spec r bal).
    + specialize (IH (bal - r) Hr'). destruct (do_sends (bal - r) rest) as [b ps].
      destruct IH as (A & B & C). cbn [map snd zsum]. lia.
    + specialize (IH bal Hr'). destruct (do_sends bal rest) as [b ps].
      destruct IH as (A & B & C). cbn [map snd zsum]. lia.
Qed.

Lemma existsb_neg_false (l : pays) : existsb (fun r => snd r <? 0) l = false -> nonneg_pays l.
Proof.
  induction l as [|x l IH]; cbn [existsb]; intros H; constructor.
  - destruct (Z.ltb_spec (snd x) 0); [discriminate|lia].
  - apply IH. destruct (snd x <? 0); [discriminate|exact H].
Qed.

Lemma nonneg_pays_total l : nonneg_pays l -> 0 <= pay_total l.
Proof. unfold pay_total. induction 1; cbn [map zsum]; lia. Qed.

(* BeginRewardDistributions: what is booked is what was calculated (whatever the balance), it fits
   in the coins to distribute, and the receivers get at most that *)
Lemma distribute_spec calc coins bal tot bal' paid :
  distribute calc coins bal = Ok (Some (tot, bal', paid)) ->
  (exists rewards, calc coins = Ok rewards /\ nonneg_pays rewards /\ tot = pay_total rewards) /\
  0 <= pay_total paid <= tot /\ tot <= coins /\ bal' = bal - pay_total paid /\ (0 <= bal -> 0 <= bal').
Proof.
  unfold distribute. destruct (calc coins) as [rewards| |] eqn:Ec; try discriminate.
  destruct (existsb (fun r => snd r <? 0) rewards) eqn:Ex; [discriminate|]. apply existsb_neg_false in Ex.
  destruct (Z.ltb_spec coins (pay_total rewards)); [discriminate|].
  pose proof (do_sends_spec rewards bal Ex) as S. destruct (do_sends bal rewards) as [b ps].
  intros E. injection E as <- <- <-. destruct S as (S1 & S2 & S3).
  split; [exists rewards; auto|]. repeat split; try lia.
Qed.

Lemma distribute_bal_indep calc coins b1 b2 :
  match distribute calc coins b1, distribute calc coins b2 with
  | Ok (Some (t1, _, _)), Ok (Some (t2, _, _)) => t1 = t2
  | Ok None, Ok None => True
  | Err _, Err _ => True
  | Panic, Panic => True
  | _, _ => False
  end.
Proof.
  unfold distribute. destruct (calc coins) as [rewards| |]; auto.
  destruct (existsb _ rewards); auto. destruct (coins <? pay_total rewards); auto.
  destruct (do_sends b1 rewards), (do_sends b2 rewards). reflexivity.
Qed.

(* ---------------- one trigger ---------------- *)
(* what a trigger can do to a (non-swap-fee) gauge: nothing, deactivate, or pay one epoch *)
Lemma trigger_spec now calc bal g g' bal' paid :
  trigger now calc bal g = Ok (g', bal', paid) ->
  g_deposit g' = g_deposit g /\ g_total g' = g_total g /\ g_start g' = g_start g /\
  g_dur g' = g_dur g /\ g_swap g' = g_swap g /\ g_denom g' = g_denom g /\
  let d := g_distributed g' - g_distributed g in
  0 <= pay_total paid <= d /\ bal' = bal - pay_total paid /\ (0 <= bal -> 0 <= bal') /\
  ((g_triggered g' = g_triggered g /\ d = 0 /\ paid = []) \/
   (g_triggered g' = g_triggered g + 1 /\ d <= epoch_allocation g /\
    epoch_allocation g <= g_deposit g - g_distributed g /\ g_active g' = g_active g /\
    g_triggered g <> g_total g /\ g_active g = true /\ g_start g <= now)).
Proof.
  unfold trigger.
  destruct ((now <? g_start g) || negb (g_active g)) eqn:Eg.
  { intros E. injection E as <- <- <-. cbn. repeat split; try lia. left. repeat split; lia. }
  destruct (Z.eqb_spec (g_triggered g) (g_total g)).
  { intros E. injection E as <- <- <-. cbn. repeat split; try lia. left. repeat split; lia. }
  unfold uint64_c. destruct ((0 <=? g_deposit g) && (g_deposit g <? two64)); [|discriminate].
  unfold epoch_allocation.
  destruct (split (g_deposit g) (g_total g)) as [sp| |]; try discriminate.
  destruct (Z.leb_spec (zlen sp) (g_triggered g)).
  { intros E. injection E as <- <- <-. cbn. repeat split; try lia. left. repeat split; lia. }
  destruct (nth_z sp (Z.to_nat (g_triggered g))) as [amount|]; [|discriminate].
  destruct (Z.ltb_spec (g_deposit g - g_distributed g) amount).
  { intros E. injection E as <- <- <-. cbn. repeat split; try lia. left. repeat split; lia. }
  destruct (distribute calc amount bal) as [[[[tot b1] ps]|]| |] eqn:Ed; try discriminate.
  2:{ intros E. injection E as <- <- <-. cbn. repeat split; try lia. left. repeat split; lia. }
  apply distribute_spec in Ed. destruct Ed as (_ & D1 & D2 & D3 & D4).
  intros E. injection E as <- <- <-. cbn.
  apply orb_false_iff in Eg. destruct Eg as [Eg1 Eg2]. apply negb_false_iff in Eg2. apply Z.ltb_ge in Eg1.
  repeat split; try lia; try assumption; try (right; repeat split; try lia; assumption).
Qed.

(* the swap-fee branch: the allocation of the epoch is the deposit the gauge holds.  Three outcomes:
   the distribution fails (nothing happens), the distribution is paid and the fee transfer fails (the
   distribution is booked, the epoch not counted), both succeed *)
Definition g_booked (g : gauge) (tot : Z) : gauge :=
  mkGauge (g_deposit g - tot) (g_distributed g + tot) (g_triggered g) (g_total g) (g_active g) (g_start g)
          (g_dur g) (g_swap g) (g_denom g).

Lemma trigger_swap_spec calc recv bal g g' bal' paid :
  trigger_swap calc recv bal g = Ok (g', bal', paid) ->
  (g' = g /\ bal' = bal /\ paid = []) \/
  (exists tot, is_ok recv = false /\ g' = g_booked g tot /\ 0 <= pay_total paid <= tot /\ tot <= Z.max 0 (g_deposit g) /\
               bal' = bal - pay_total paid /\ (0 <= bal -> 0 <= bal')) \/
  (exists tot r, recv = Ok r /\ g' = g_swap_paid g tot r /\ 0 <= pay_total paid <= tot /\ tot <= Z.max 0 (g_deposit g) /\
                 (tot = 0 \/ 0 < g_deposit g) /\ bal' = bal - pay_total paid + r /\ (0 <= bal -> 0 <= bal' - r)).
Proof.
  unfold trigger_swap.
  destruct (Z.ltb_spec 0 (g_deposit g)) as [Hd|Hd].
  - destruct (distribute calc (g_deposit g) bal) as [[[[tot b1] ps]|]| |] eqn:Ed; try discriminate.
    2:{ intros E. injection E as <- <- <-. left. auto. }
    apply distribute_spec in Ed. destruct Ed as (_ & D1 & D2 & D3 & D4).
    destruct recv as [r| |] eqn:Er; try discriminate.
    + intros E. injection E as <- <- <-. right. right. exists tot, r. repeat split; try lia.
    + intros E. injection E as <- <- <-. right. left. exists tot. repeat split; try lia.
  - destruct recv as [r| |]; try discriminate.
    + intros E. injection E as <- <- <-. right. right. exists 0, r. cbn. repeat split; try lia.
    + intros E. injection E as <- <- <-. right. left. exists 0. cbn. repeat split; try lia.
Qed.

(* ---------------- invariants ---------------- *)
Definition GInv (g : gauge) : Prop :=
  if g_swap g then 0 <= g_deposit g else 0 <= g_distributed g <= g_deposit g.
Definition XInv (x : ext) : Prop := 0 <= x_avail x.
Definition BInv (b : bank) : Prop := forall d, 0 <= b d.

Lemma g_rem_nonneg g : GInv g -> 0 <= g_rem g.
Proof. unfold GInv, g_rem. destruct (g_swap g); lia. Qed.

(* one gauge, one epoch: the remainder falls by at least what leaves the custody account *)
Lemma trigger_any_step now calc recv bal g g' bal' paid :
  trigger_any now calc recv bal g = Ok (g', bal', paid) -> GInv g -> 0 <= bal -> recv_wf recv = true ->
  GInv g' /\ 0 <= bal' /\ g_rem g' - g_rem g <= bal' - bal /\ g_denom g' = g_denom g /\ g_dur g' = g_dur g.
Proof.
  unfold trigger_any, GInv, g_rem. intros E HG Hb Hw. destruct (g_swap g) eqn:Es.
  - apply trigger_swap_spec in E.
    destruct E as [(-> & -> & _)|[(tot & _ & -> & C & D & B & B')|(tot & r & -> & -> & C & D & F & G & G')]].
    + rewrite Es. repeat split; lia.
    + cbn [g_booked g_swap g_deposit g_distributed g_denom g_dur]. rewrite Es. repeat split; lia.
    + cbn [recv_wf] in Hw. apply Z.leb_le in Hw. cbn [g_swap_paid g_swap g_deposit g_distributed g_denom g_dur]. rewrite Es.
      repeat split; lia.
  - apply trigger_spec in E. destruct E as (D1 & D2 & D3 & D4 & D5 & D6 & D7). cbv zeta in D7.
    destruct D7 as (P1 & P2 & P3 & P4). rewrite D5, Es.
    destruct P4 as [(A & B & C)|(A & B & C & D & F)]; repeat split; try lia; auto.
Qed.

(* without any hypothesis on classes: a non-swap-fee gauge never books more than its deposit *)
Definition GInvR (g : gauge) : Prop := g_swap g = false -> 0 <= g_distributed g <= g_deposit g.
Lemma trigger_any_ginvr now calc recv bal g g' bal' paid :
  trigger_any now calc recv bal g = Ok (g', bal', paid) -> GInvR g -> GInvR g' /\ g_swap g' = g_swap g.
Proof.
  unfold trigger_any, GInvR. intros E HG. destruct (g_swap g) eqn:Es.
  - apply trigger_swap_spec in E. destruct E as [(-> & _)|[(tot & _ & -> & _)|(tot & r & _ & -> & _)]].
    + rewrite Es. split; [discriminate|reflexivity].
    + cbn [g_booked g_swap]. rewrite Es. split; [discriminate|reflexivity].
    + cbn [g_swap_paid g_swap]. rewrite Es. split; [discriminate|reflexivity].
  - apply trigger_spec in E. destruct E as (D1 & D2 & D3 & D4 & D5 & D6 & D7). cbv zeta in D7.
    destruct D7 as (P1 & P2 & P3 & P4). rewrite D5, Es. split; [|reflexivity]. intros _. specialize (HG eq_refl).
    destruct P4 as [(A & B & C)|(A & B & C & D & F)]; lia.
Qed.

Lemma owed_g_cons d g gs : owed_g d (g :: gs) = (if g_denom g =? d then g_rem g else 0) + owed_g d gs.
Proof. reflexivity. Qed.
Lemma owed_x_cons d x xs : owed_x d (x :: xs) = (if x_denom x =? d then x_avail x else 0) + owed_x d xs.
Proof. reflexivity. Qed.
Lemma owed_g_app d a b : owed_g d (a ++ b) = owed_g d a + owed_g d b.
Proof. unfold owed_g. rewrite map_app. induction (map _ a) as [|x l IH]; cbn [app zsum]; lia. Qed.
Lemma owed_x_app d a b : owed_x d (a ++ b) = owed_x d a + owed_x d b.
Proof. unfold owed_x. rewrite map_app. induction (map _ a) as [|x l IH]; cbn [app zsum]; lia. Qed.

Lemma recv_wf_hd rv : forallb recv_wf rv = true -> recv_wf (hd_recv rv) = true /\ forallb recv_wf (tl rv) = true.
Proof. destruct rv as [|r rv]; cbn; [auto|]. intros H. apply andb_true_iff in H. exact H. Qed.

Lemma bset_same b d v : bset b d v d = v.
Proof. unfold bset. rewrite Z.eqb_refl. reflexivity. Qed.
Lemma bset_other b d v x : x <> d -> bset b d v x = b x.
Proof. unfold bset. intros H. destruct (Z.eqb_spec x d); [contradiction|reflexivity]. Qed.
Lemma BInv_bset b d v : BInv b -> 0 <= v -> BInv (bset b d v).
Proof. unfold BInv, bset. intros H Hv x. destruct (x =? d); auto. Qed.

(* InitateGaugesForDuration *)
Lemma run_gauges_inv now dur : forall gs fe rv b gs' b' ps,
  run_gauges now dur gs fe rv b = Ok (gs', b', ps) ->
  Forall GInv gs -> BInv b -> forallb recv_wf rv = true ->
  Forall GInv gs' /\ BInv b' /\ (forall d, owed_g d gs' - owed_g d gs <= b' d - b d).
Proof.
  induction gs as [|g rest IH]; intros fe rv b gs' b' ps E HG HB Hw; cbn [run_gauges] in E.
  - injection E as <- <- <-. repeat split; [constructor|assumption|intros; lia].
  - inversion HG as [|? ? Hg Hrest]; subst.
    apply recv_wf_hd in Hw. destruct Hw as [Hw1 Hw2].
    destruct (Z.eqb_spec (g_dur g) dur) as [Hd|Hd].
    + destruct (trigger_any now (farm_calc (hd_farm fe)) (hd_recv rv) (b (g_denom g)) g) as [[[g1 bal1] paid]| |] eqn:Et; try discriminate.
      destruct (run_gauges now dur rest (tl fe) (tl rv) (bset b (g_denom g) bal1)) as [[[gs1 b1] ps1]| |] eqn:Er; try discriminate.
      injection E as <- <- <-.
      pose proof (trigger_any_step _ _ _ _ _ _ _ _ Et Hg (HB _) Hw1) as (T1 & T2 & T3 & T4 & T5).
      specialize (IH _ _ _ _ _ _ Er Hrest (BInv_bset _ _ _ HB T2) Hw2). destruct IH as (I1 & I2 & I3).
      split; [constructor; assumption|]. split; [assumption|]. intros d. rewrite !owed_g_cons, T4. specialize (I3 d).
      destruct (Z.eqb_spec (g_denom g) d) as [He|Hne].
      * subst d. rewrite bset_same in I3. lia.
      * rewrite bset_other in I3 by congruence. lia.
    + destruct (run_gauges now dur rest (tl fe) (tl rv) b) as [[[gs1 b1] ps1]| |] eqn:Er; try discriminate.
      injection E as <- <- <-. specialize (IH _ _ _ _ _ _ Er Hrest HB Hw2). destruct IH as (I1 & I2 & I3).
      split; [constructor; assumption|]. split; [assumption|]. intros d. rewrite !owed_g_cons. specialize (I3 d). lia.
Qed.

Lemma run_gauges_ginvr now dur : forall gs fe rv b gs' b' ps,
  run_gauges now dur gs fe rv b = Ok (gs', b', ps) -> Forall GInvR gs -> Forall GInvR gs'.
Proof.
  induction gs as [|g rest IH]; intros fe rv b gs' b' ps E HG; cbn [run_gauges] in E.
  - injection E as <- <- <-. constructor.
  - inversion HG as [|? ? Hg Hrest]; subst. destruct (g_dur g =? dur).
    + destruct (trigger_any _ _ _ _ g) as [[[g1 bal1] paid]| |] eqn:Et; try discriminate.
      destruct (run_gauges now dur rest _ _ _) as [[[gs1 b1] ps1]| |] eqn:Er; try discriminate.
      injection E as <- <- <-. constructor; [|eapply IH; eassumption].
      exact (proj1 (trigger_any_ginvr _ _ _ _ _ _ _ _ Et Hg)).
    + destruct (run_gauges now dur rest _ _ _) as [[[gs1 b1] ps1]| |] eqn:Er; try discriminate.
      injection E as <- <- <-. constructor; [assumption|eapply IH; eassumption].
Qed.

(* TriggerAndUpdateEpochInfos *)
Lemma run_epochs_inv now : forall es gs fe rv b es' gs' b' ps,
  run_epochs now es gs fe rv b = Ok (es', gs', b', ps) ->
  Forall GInv gs -> BInv b -> forallb recv_wf rv = true ->
  Forall GInv gs' /\ BInv b' /\ (forall d, owed_g d gs' - owed_g d gs <= b' d - b d).
Proof.
  induction es as [|e rest IH]; intros gs fe rv b es' gs' b' ps E HG HB Hw; cbn [run_epochs] in E.
  - injection E as <- <- <- <-. repeat split; [assumption|assumption|intros; lia].
  - destruct (epoch_tick now e) as [e1 r].
    destruct r.
    1,2,4: (destruct (run_epochs now rest gs fe rv b) as [[[[es1 gs2] b2] ps2]| |] eqn:Er; try discriminate;
            injection E as <- <- <- <-; exact (IH _ _ _ _ _ _ _ _ Er HG HB Hw)).
    destruct (run_gauges now (e_dur e) gs fe rv b) as [[[gs1 b1] ps1]| |] eqn:Eg; try discriminate.
    destruct (run_epochs now rest gs1 fe rv b1) as [[[[es1 gs2] b2] ps2]| |] eqn:Er; try discriminate.
    injection E as <- <- <- <-.
    pose proof (run_gauges_inv _ _ _ _ _ _ _ _ _ Eg HG HB Hw) as (G1 & G2 & G3).
    pose proof (IH _ _ _ _ _ _ _ _ Er G1 G2 Hw) as (I1 & I2 & I3).
    split; [assumption|]. split; [assumption|]. intros d. specialize (G3 d). specialize (I3 d). lia.
Qed.

Lemma run_epochs_ginvr now : forall es gs fe rv b es' gs' b' ps,
  run_epochs now es gs fe rv b = Ok (es', gs', b', ps) -> Forall GInvR gs -> Forall GInvR gs'.
Proof.
  induction es as [|e rest IH]; intros gs fe rv b es' gs' b' ps E HG; cbn [run_epochs] in E.
  - injection E as <- <- <- <-. assumption.
  - destruct (epoch_tick now e) as [e1 r]. destruct r.
    1,2,4: (destruct (run_epochs now rest gs fe rv b) as [[[[es1 gs2] b2] ps2]| |] eqn:Er; try discriminate;
            injection E as <- <- <- <-; exact (IH _ _ _ _ _ _ _ _ Er HG)).
    destruct (run_gauges now (e_dur e) gs fe rv b) as [[[gs1 b1] ps1]| |] eqn:Eg; try discriminate.
    destruct (run_epochs now rest gs1 fe rv b1) as [[[[es1 gs2] b2] ps2]| |] eqn:Er; try discriminate.
    injection E as <- <- <- <-. eapply IH; [eassumption|]. eapply run_gauges_ginvr; eassumption.
Qed.

(* ---------------- external programs ---------------- *)
Lemma P18_ge_1000 : 1000 <= P18. Proof. vm_compute. discriminate. Qed.

Lemma ext_loop_spec x now total : forall pop bal tracker b t ps,
  ext_loop x now total pop bal tracker = Ok (b, t, ps) ->
  b = bal - pay_total ps /\ 0 <= pay_total ps <= t - tracker /\ (0 <= bal -> 0 <= b).
Proof.
  unfold pay_total. induction pop as [|[[a net] created] rest IH]; intros bal tracker b t ps E; cbn [ext_loop] in E.
  - injection E as <- <- <-. cbn. lia.
  - destruct (negb (x_count x =? x_days x - 1) && (now - created <? x_minlock x)); [exact (IH _ _ _ _ _ E)|].
    destruct (ext_final _ _ _ _ _) as [f| |]; try discriminate.
    destruct (Z.ltb_spec 0 f); [|exact (IH _ _ _ _ _ E)].
    destruct (Z.leb_spec f bal).
    + destruct (ext_loop x now total rest (bal - f) (tracker + f)) as [[[b1 t1] ps1]| |] eqn:Er; try discriminate.
      injection E as <- <- <-. apply IH in Er. cbn [map snd zsum]. lia.
    + destruct (ext_loop x now total rest bal (tracker + f)) as [[[b1 t1] ps1]| |] eqn:Er; try discriminate.
      injection E as <- <- <-. apply IH in Er. cbn [map snd zsum]. lia.
Qed.

(* one owner (fix C19-F3: multiply, then divide, both truncating): f * 10^18 * total <= er * net *)
Lemma ext_final_bound kind avail dleft total net f : ext_final kind avail dleft total net = Ok f ->
  0 <= net -> 0 <= total -> 0 <= avail -> 0 < dleft ->
  let er := dquo (dec_of_int avail) (dec_of_int dleft) in
  0 < total /\ 0 <= f /\ f * P18 * total <= er * net.
Proof.
  unfold ext_final. intros E Hn Ht Ha Hd.
  destruct (int64_c net) as [n|] eqn:E1; [|discriminate].
  destruct (if kind =? 0 then int64_c total else Some total) as [t|] eqn:E2; [|discriminate].
  destruct (int64_c avail) as [a|] eqn:E3; [|discriminate].
  assert (n = net) by (unfold int64_c in E1; destruct (_ && _); congruence).
  assert (t = total) by (destruct (kind =? 0); [unfold int64_c in E2; destruct (_ && _); congruence|congruence]).
  assert (a = avail) by (unfold int64_c in E3; destruct (_ && _); congruence). subst n t a.
  destruct (Z.eqb_spec total 0); [discriminate|]. injection E as <-. cbv zeta.
  pose proof (dquo_ints_bounds avail dleft Ha Hd) as [R0 _]. cbv zeta in R0.
  set (er := dquo (dec_of_int avail) (dec_of_int dleft)) in *.
  assert (HT : 0 < total) by lia. dec_consts.
  unfold dmul_int, dquo_int, dtrunc_int.
  assert (0 <= er * net) by nia.
  rewrite (Z.quot_div_nonneg (er * net) total) by lia.
  pose proof (Z.div_pos (er * net) total ltac:(lia) HT) as Q0.
  pose proof (Z.div_mod (er * net) total ltac:(lia)). pose proof (Z.mod_pos_bound (er * net) total HT).
  set (q := er * net / total) in *.
  rewrite (Z.quot_div_nonneg q P18) by lia.
  pose proof (Z.div_pos q P18 Q0 ltac:(lia)). pose proof (Z.div_mod q P18 ltac:(lia)). pose proof (Z.mod_pos_bound q P18 ltac:(lia)).
  set (f := q / P18) in *. split; [assumption|]. split; [assumption|].
  assert (f * P18 <= q) by lia. assert (q * total <= er * net) by lia.
  assert (f * P18 * total <= q * total) by (apply Z.mul_le_mono_nonneg_r; lia). lia.
Qed.

(* the loop: what is booked, times 10^18 * total, is at most er * (sum of the owners' balances) *)
Lemma ext_loop_bound x now total : forall pop bal tr b t ps,
  ext_loop x now total pop bal tr = Ok (b, t, ps) ->
  Forall (fun u => 0 <= snd (fst u)) pop -> 0 <= total -> 0 <= x_avail x -> 0 < x_days x - x_count x ->
  let er := dquo (dec_of_int (x_avail x)) (dec_of_int (x_days x - x_count x)) in
  tr <= t /\ (t - tr) * P18 * total <= er * pop_net pop /\ (total = 0 -> t = tr).
Proof.
  intros pop. induction pop as [|[[a net] created] rest IH]; intros bal tr b t ps E Hnn Ht Ha Hd; cbn [ext_loop] in E.
  - injection E as <- <- <-. unfold pop_net. cbn. lia.
  - inversion Hnn as [|? ? Hn Hrest]; subst. cbn [fst snd] in Hn. cbv zeta.
    set (er := dquo (dec_of_int (x_avail x)) (dec_of_int (x_days x - x_count x))).
    assert (Hp : pop_net ((a, net, created) :: rest) = net + pop_net rest) by reflexivity.
    assert (R0 : 0 <= er) by (unfold er; apply dquo_nonneg; unfold dec_of_int; dec_consts; nia).
    assert (Skip : ext_loop x now total rest bal tr = Ok (b, t, ps) ->
              tr <= t /\ (t - tr) * P18 * total <= er * pop_net ((a, net, created) :: rest) /\ (total = 0 -> t = tr)).
    { intros E'. destruct (IH _ _ _ _ _ E' Hrest Ht Ha Hd) as (I1 & I2 & I3). fold er in I2. split; [assumption|].
      split; [|assumption]. rewrite Hp. nia. }
    destruct (negb (x_count x =? x_days x - 1) && (now - created <? x_minlock x)); [exact (Skip E)|].
    destruct (ext_final (x_kind x) (x_avail x) (x_days x - x_count x) total net) as [f| |] eqn:Ef; try discriminate.
    destruct (Z.ltb_spec 0 f); [|exact (Skip E)].
    pose proof (ext_final_bound _ _ _ _ _ _ Ef Hn Ht Ha Hd) as (F0 & F1 & F2). fold er in F2.
    set (p := if f <=? bal then (bal - f, f) else (bal, 0)) in E. destruct p as [bal1 got].
    destruct (ext_loop x now total rest bal1 (tr + f)) as [[[b1 t1] ps1]| |] eqn:Er; try discriminate.
    injection E as <- <- <-. destruct (IH _ _ _ _ _ Er Hrest Ht Ha Hd) as (I1 & I2 & I3). fold er in I2.
    split; [lia|]. split; [rewrite Hp; nia|lia].
Qed.

Lemma xenv_wf_spec e : xenv_wf e = true ->
  Forall (fun u => 0 <= snd (fst u)) (xe_pop e) /\ 0 <= pop_net (xe_pop e) <= xe_total e.
Proof.
  unfold xenv_wf. intros H. apply andb_true_iff in H. destruct H as [H1 H2]. apply Z.leb_le in H2.
  assert (Hnn : Forall (fun u => 0 <= snd (fst u)) (xe_pop e)).
  { apply Forall_forall. intros u Hu. rewrite forallb_forall in H1. specialize (H1 u Hu). lia. }
  split; [assumption|]. split; [|assumption].
  unfold pop_net. clear -Hnn. induction Hnn as [|u l Hu _ IH]; cbn [map zsum]; lia.
Qed.

(* fix C19-F3: a locker / vault program whose population is consistent with the recorded total never
   books more than it has left, whatever the amounts, the number of owners and the days left *)
Lemma ext_tick_wf now e bal x x' bal' paid :
  ext_tick now e bal x = Ok (x', bal', paid) -> xenv_wf e = true -> 0 <= x_avail x ->
  0 <= x_avail x' <= x_avail x /\ 0 <= pay_total paid <= x_avail x - x_avail x' /\ bal' = bal - pay_total paid /\
  (0 <= bal -> 0 <= bal') /\ x_denom x' = x_denom x /\ x_kind x' = x_kind x.
Proof.
  unfold ext_tick. intros E Hwf Ha. apply xenv_wf_spec in Hwf. destruct Hwf as (Hnn & Hs0 & Hs1).
  destruct (negb (x_active x)). { injection E as <- <- <-. cbn. repeat split; lia. }
  destruct (negb (x_next x <? now)). { injection E as <- <- <-. cbn. repeat split; lia. }
  destruct (Z.ltb_spec (x_count x) (x_days x)).
  2:{ injection E as <- <- <-. cbn. repeat split; lia. }
  destruct (ext_loop x now (xe_total e) (xe_pop e) bal 0) as [[[b1 t1] ps1]| |] eqn:El; try discriminate.
  injection E as <- <- <-. cbn [x_avail x_denom x_kind].
  pose proof (ext_loop_spec _ _ _ _ _ _ _ _ _ El) as (S1 & S2 & S3).
  pose proof (ext_loop_bound _ _ _ _ _ _ _ _ _ El Hnn ltac:(lia) Ha ltac:(lia)) as (B0 & B1 & B2). cbv zeta in B1.
  set (D := x_days x - x_count x) in *. set (A := x_avail x) in *. set (T := xe_total e) in *. set (S := pop_net (xe_pop e)) in *.
  assert (HD : 1 <= D) by (unfold D; lia).
  pose proof (dquo_ints_bounds A D Ha ltac:(lia)) as [R0 R1]. cbv zeta in R0, R1.
  set (er := dquo (dec_of_int A) (dec_of_int D)) in *.
  assert (Hle : t1 <= A).
  { destruct (Z.eq_dec T 0) as [HT0|HT0]; [rewrite (B2 HT0); lia|].
    assert (HT : 0 < T) by lia.
    assert (M1 : er * S <= er * T) by (apply Z.mul_le_mono_nonneg_l; lia).
    assert (C1 : t1 * P18 * T <= er * T) by lia.
    assert (C2 : t1 * P18 <= er) by (apply (Z.mul_le_mono_pos_r _ _ T); assumption).
    assert (C3 : t1 * P18 * D <= er * D) by (apply Z.mul_le_mono_nonneg_r; lia).
    clearbody D A T S er. dec_consts. pose proof P18_ge_1000.
    destruct (Z.le_gt_cases t1 A) as [|Hgt]; [assumption|exfalso].
    assert (C4 : (A + 1) * (P18 * D) <= t1 * (P18 * D)) by (apply Z.mul_le_mono_nonneg_r; nia).
    assert (C5 : A * P18 * 1 <= A * P18 * D) by (apply Z.mul_le_mono_nonneg_l; nia).
    assert (C6 : 1000 * D <= P18 * D) by (apply Z.mul_le_mono_nonneg_r; lia).
    lia. }
  repeat split; lia.
Qed.

Lemma ext_tick_step now e bal x x' bal' paid :
  ext_tick now e bal x = Ok (x', bal', paid) -> XInv x -> 0 <= bal -> xenv_wf e = true ->
  XInv x' /\ 0 <= bal' /\ x_avail x' - x_avail x <= bal' - bal /\ x_denom x' = x_denom x /\ x_kind x' = x_kind x.
Proof.
  unfold XInv. intros E HX Hb Hw. pose proof (ext_tick_wf _ _ _ _ _ _ _ E Hw HX) as (A & B & C & D & F & G).
  repeat split; lia.
Qed.

Lemma xenv_wf_hd xe : forallb xenv_wf xe = true -> xenv_wf (hd_xenv xe) = true /\ forallb xenv_wf (tl xe) = true.
Proof. destruct xe as [|r xe]; cbn; [auto|]. intros H. apply andb_true_iff in H. exact H. Qed.

Lemma run_exts_inv kind now : forall xs xe b xs' b' ps,
  run_exts kind now xs xe b = Ok (xs', b', ps) ->
  Forall XInv xs -> BInv b -> forallb xenv_wf xe = true ->
  Forall XInv xs' /\ BInv b' /\ (forall d, owed_x d xs' - owed_x d xs <= b' d - b d).
Proof.
  induction xs as [|x rest IH]; intros xe b xs' b' ps E HX HB Hk; cbn [run_exts] in E.
  - injection E as <- <- <-. repeat split; [constructor|assumption|intros; lia].
  - inversion HX as [|? ? Hx Hrest]; subst. apply xenv_wf_hd in Hk. destruct Hk as [Hk1 Hk2].
    destruct (Z.eqb_spec (x_kind x) kind) as [Hd|Hd].
    + destruct (xe_halt (hd_xenv xe)); [discriminate|].
      destruct (ext_tick now (hd_xenv xe) (b (x_denom x)) x) as [[[x1 bal1] paid]| |] eqn:Et; try discriminate.
      destruct (run_exts kind now rest (tl xe) (bset b (x_denom x) bal1)) as [[[xs1 b1] ps1]| |] eqn:Er; try discriminate.
      injection E as <- <- <-.
      pose proof (ext_tick_step _ _ _ _ _ _ _ Et Hx (HB _) Hk1) as (T1 & T2 & T3 & T4 & T5).
      specialize (IH _ _ _ _ _ Er Hrest (BInv_bset _ _ _ HB T2) Hk2). destruct IH as (I1 & I2 & I3).
      split; [constructor; assumption|]. split; [assumption|]. intros d. rewrite !owed_x_cons, T4. specialize (I3 d).
      destruct (Z.eqb_spec (x_denom x) d) as [He|Hne].
      * subst d. rewrite bset_same in I3. lia.
      * rewrite bset_other in I3 by congruence. lia.
    + destruct (run_exts kind now rest (tl xe) b) as [[[xs1 b1] ps1]| |] eqn:Er; try discriminate.
      injection E as <- <- <-. specialize (IH _ _ _ _ _ Er Hrest HB Hk2). destruct IH as (I1 & I2 & I3).
      split; [constructor; assumption|]. split; [assumption|]. intros d. rewrite !owed_x_cons. specialize (I3 d). lia.
Qed.

(* ---------------- lend programs ---------------- *)
Lemma lend_loop_spec apr : forall arr bal tr,
  let '(b, t, ps) := lend_loop apr arr bal tr in
  b = bal - pay_total ps /\ 0 <= pay_total ps <= t - tr /\ (0 <= bal -> 0 <= b).
Proof.
  unfold pay_total. induction arr as [|[a amt] rest IH]; intros bal tr; cbn [lend_loop].
  - cbn. lia.
  - destruct (Z.ltb_spec 0 (dtrunc_int (dmul amt apr))); [|apply IH].
    set (f := dtrunc_int (dmul amt apr)) in *.
    destruct (Z.leb_spec f bal).
    + specialize (IH (bal - f) (tr + f)). destruct (lend_loop apr rest (bal - f) (tr + f)) as [[b1 t1] ps1].
      cbn [map snd zsum]. lia.
    + specialize (IH bal (tr + f)). destruct (lend_loop apr rest bal (tr + f)) as [[b1 t1] ps1].
      cbn [map snd zsum]. lia.
Qed.

Lemma lend_loop_indep apr : forall arr b1 b2 tr,
  snd (fst (lend_loop apr arr b1 tr)) = snd (fst (lend_loop apr arr b2 tr)).
Proof.
  induction arr as [|[a amt] rest IH]; intros b1 b2 tr; cbn [lend_loop]; [reflexivity|].
  destruct (0 <? dtrunc_int (dmul amt apr)); [|apply IH].
  set (f := dtrunc_int (dmul amt apr)).
  set (p1 := if f <=? b1 then (b1 - f, f) else (b1, 0)). set (p2 := if f <=? b2 then (b2 - f, f) else (b2, 0)).
  destruct p1 as [c1 g1], p2 as [c2 g2]. specialize (IH c1 c2 (tr + f)).
  destruct (lend_loop apr rest c1 (tr + f)) as [[? ?] ?], (lend_loop apr rest c2 (tr + f)) as [[? ?] ?]. exact IH.
Qed.

(* everything but the balance and the receipts is independent of the custody balance *)
Lemma lend_tick_indep now e arr tot b1 b2 x :
  match lend_tick now e arr tot b1 x, lend_tick now e arr tot b2 x with
  | Ok (Some (x1, _, _, a1, t1)), Ok (Some (x2, _, _, a2, t2)) => x1 = x2 /\ a1 = a2 /\ t1 = t2
  | Ok None, Ok None => True
  | Err _, Err _ => True
  | Panic, Panic => True
  | _, _ => False
  end.
Proof.
  unfold lend_tick. destruct (negb (x_active x)); [auto|]. destruct (negb (x_next x <? now)); [auto|].
  destruct (x_count x <? x_days x); [|auto]. destruct (negb (le_ok e)); [auto|].
  destruct (le_price e) as [[twa decimals]|]; [|auto]. destruct (decimals =? 0); [auto|].
  destruct (_ <=? 0); [auto|].
  match goal with |- context [lend_loop ?apr ?arr b1 0] => pose proof (lend_loop_indep apr arr b1 b2 0) as Hi;
    destruct (lend_loop apr arr b1 0) as [[c1 t1] p1], (lend_loop apr arr b2 0) as [[c2 t2] p2] end.
  cbn [fst snd] in Hi. subst t2. auto.
Qed.

Lemma lend_tick_step now e arr tot bal x x' bal' paid arr' tot' :
  lend_tick now e arr tot bal x = Ok (Some (x', bal', paid, arr', tot')) -> XInv x -> 0 <= bal ->
  kf_C19_4 now e arr tot x = false ->
  XInv x' /\ 0 <= bal' /\ x_avail x' - x_avail x <= bal' - bal /\ x_denom x' = x_denom x.
Proof.
  unfold XInv, kf_C19_4. intros E HX Hb Hk.
  pose proof (lend_tick_indep now e arr tot bal 0 x) as Hi. rewrite E in Hi.
  destruct (lend_tick now e arr tot 0 x) as [[[[[[x2 ?] ?] a2] t2]|]| |]; try contradiction.
  destruct Hi as (<- & _ & _). apply Z.ltb_ge in Hk. split; [assumption|].
  revert E. unfold lend_tick.
  destruct (negb (x_active x)). { intros E; injection E as <- <- <- <- <-. repeat split; lia. }
  destruct (negb (x_next x <? now)). { intros E; injection E as <- <- <- <- <-. repeat split; lia. }
  destruct (x_count x <? x_days x).
  2:{ intros E; injection E as <- <- <- <- <-. cbn. repeat split; lia. }
  destruct (negb (le_ok e)); [discriminate|].
  destruct (le_price e) as [[twa decimals]|]. 2:{ intros E; injection E as <- <- <- <- <-. repeat split; lia. }
  destruct (decimals =? 0); [discriminate|].
  destruct (_ <=? 0). { intros E; injection E as <- <- <- <- <-. repeat split; lia. }
  match goal with |- context [lend_loop ?apr ?arr bal 0] => pose proof (lend_loop_spec apr arr bal 0) as Hs;
    destruct (lend_loop apr arr bal 0) as [[c1 t1] p1] end.
  intros E; injection E as <- <- <- <- <-. cbn [x_avail x_denom]. repeat split; lia.
Qed.

Lemma run_lends_inv now : forall xs le arr tot b xs' b' ps,
  run_lends now xs le arr tot b = Ok (xs', b', ps) ->
  Forall XInv xs -> BInv b -> kf4_pass now xs le arr tot = false ->
  Forall XInv xs' /\ BInv b' /\ (forall d, owed_x d xs' - owed_x d xs <= b' d - b d).
Proof.
  induction xs as [|x rest IH]; intros le arr tot b xs' b' ps E HX HB Hk; cbn [run_lends] in E.
  - injection E as <- <- <-. repeat split; [constructor|assumption|intros; lia].
  - inversion HX as [|? ? Hx Hrest]; subst. cbn [kf4_pass] in Hk.
    destruct (Z.eqb_spec (x_kind x) 2) as [Hd|Hd].
    + apply orb_false_iff in Hk. destruct Hk as [Hk1 Hk2].
      destruct (le_halt (hd_lenv le)); [discriminate|].
      pose proof (lend_tick_indep now (hd_lenv le) arr tot (b (x_denom x)) 0 x) as Hi.
      destruct (lend_tick now (hd_lenv le) arr tot (b (x_denom x)) x) as [[[[[[x1 bal1] paid] arr1] tot1]|]| |] eqn:Et; try discriminate.
      2:{ injection E as <- <- <-. repeat split; [assumption|assumption|intros; lia]. }
      destruct (lend_tick now (hd_lenv le) arr tot 0 x) as [[[[[[x2 ?] ?] a2] t2]|]| |]; try contradiction.
      destruct Hi as (_ & <- & <-).
      destruct (run_lends now rest (tl le) arr1 tot1 (bset b (x_denom x) bal1)) as [[[xs1 b1] ps1]| |] eqn:Er; try discriminate.
      injection E as <- <- <-.
      pose proof (lend_tick_step _ _ _ _ _ _ _ _ _ _ _ Et Hx (HB _) Hk1) as (T1 & T2 & T3 & T4).
      specialize (IH _ _ _ _ _ _ _ Er Hrest (BInv_bset _ _ _ HB T2) Hk2). destruct IH as (I1 & I2 & I3).
      split; [constructor; assumption|]. split; [assumption|]. intros d. rewrite !owed_x_cons, T4. specialize (I3 d).
      destruct (Z.eqb_spec (x_denom x) d) as [He|Hne].
      * subst d. rewrite bset_same in I3. lia.
      * rewrite bset_other in I3 by congruence. lia.
    + destruct (run_lends now rest (tl le) arr tot b) as [[[xs1 b1] ps1]| |] eqn:Er; try discriminate.
      injection E as <- <- <-. specialize (IH _ _ _ _ _ _ _ Er Hrest HB Hk). destruct IH as (I1 & I2 & I3).
      split; [constructor; assumption|]. split; [assumption|]. intros d. rewrite !owed_x_cons. specialize (I3 d). lia.
Qed.

(* ---------------- histories ---------------- *)
Definition RInv (s : rstate) : Prop :=
  Forall GInv (r_gauges s) /\ Forall XInv (r_exts s) /\ BInv (r_bal s) /\ forall d, owed d s <= r_bal s d.

(* one of the steps 2-4 of the hook: it keeps its writes (and then the step invariant applies) or it
   is rolled back as a whole *)
Lemma sub_step_cases {A} (r : outcome (A * bank * dpays)) xs b :
  (exists v, r = Ok v /\ sub_step r xs b = v) \/ (is_ok r = false /\ sub_step r xs b = (xs, b, [])).
Proof. destruct r as [v| |]; [left; exists v; auto|right; auto|right; auto]. Qed.

Lemma begin_block_inv now e s s' ps :
  begin_block now e s = Ok (s', ps) -> RInv s -> forallb recv_wf (be_recv e) = true -> forallb xenv_wf (be_ext e) = true ->
  kf4_begin now e s = false -> RInv s'.
Proof.
  unfold begin_block, kf4_begin, RInv, owed. intros E (HG & HX & HB & HO) Hw Hxw K4.
  destruct (run_epochs now (r_epochs s) (r_gauges s) (be_farm e) (be_recv e) (r_bal s)) as [[[[es gs] b1] p1]| |] eqn:E1; try discriminate.
  pose proof (run_epochs_inv _ _ _ _ _ _ _ _ _ _ E1 HG HB Hw) as (A1 & A2 & A3).
  (* step 2: lockers *)
  assert (S2 : let '(xs1, b2, _) := sub_step (run_exts 0 now (r_exts s) (be_ext e) b1) (r_exts s) b1 in
               Forall XInv xs1 /\ BInv b2 /\ (forall d, owed_x d xs1 - owed_x d (r_exts s) <= b2 d - b1 d)).
  { destruct (sub_step_cases (run_exts 0 now (r_exts s) (be_ext e) b1) (r_exts s) b1) as [([[xs1 b2] p2] & Er & ->)|(Ef & ->)].
    - exact (run_exts_inv _ _ _ _ _ _ _ _ Er HX A2 Hxw).
    - repeat split; try assumption. intros; lia. }
  destruct (sub_step (run_exts 0 now (r_exts s) (be_ext e) b1) (r_exts s) b1) as [[xs1 b2] p2]. destruct S2 as (B1 & B2 & B3).
  (* step 3: vaults *)
  assert (S3 : let '(xs2, b3, _) := sub_step (run_exts 1 now xs1 (be_ext e) b2) xs1 b2 in
               Forall XInv xs2 /\ BInv b3 /\ (forall d, owed_x d xs2 - owed_x d xs1 <= b3 d - b2 d)).
  { destruct (sub_step_cases (run_exts 1 now xs1 (be_ext e) b2) xs1 b2) as [([[xs2 b3] p3] & Er & ->)|(Ef & ->)].
    - exact (run_exts_inv _ _ _ _ _ _ _ _ Er B1 B2 Hxw).
    - repeat split; try assumption. intros; lia. }
  destruct (sub_step (run_exts 1 now xs1 (be_ext e) b2) xs1 b2) as [[xs2 b3] p3]. destruct S3 as (C1 & C2 & C3).
  (* step 4: lend programs *)
  assert (S4 : let '(xs3, b4, _) := sub_step (run_lends now xs2 (be_lend e) [] 0 b3) xs2 b3 in
               Forall XInv xs3 /\ BInv b4 /\ (forall d, owed_x d xs3 - owed_x d xs2 <= b4 d - b3 d)).
  { destruct (sub_step_cases (run_lends now xs2 (be_lend e) [] 0 b3) xs2 b3) as [([[xs3 b4] p4] & Er & ->)|(Ef & ->)].
    - rewrite Er in K4. cbn [is_ok andb] in K4. exact (run_lends_inv _ _ _ _ _ _ _ _ _ Er C1 C2 K4).
    - repeat split; try assumption. intros; lia. }
  destruct (sub_step (run_lends now xs2 (be_lend e) [] 0 b3) xs2 b3) as [[xs3 b4] p4]. destruct S4 as (D1 & D2 & D3).
  injection E as <- <-. cbn [r_bal r_gauges r_exts].
  repeat split; try assumption. intros d. specialize (HO d). specialize (A3 d). specialize (B3 d). specialize (C3 d). specialize (D3 d). lia.
Qed.

Lemma rstep_inv s o s' ps : RInv s -> op_wf o = true -> kf_step s o = false -> rstep s o = Ok (s', ps) -> RInv s'.
Proof.
  intros HI Hw Hk. pose proof HI as (HG & HX & HB & HO).
  destruct o as [d dep total start now dur funds meta|d now dur|kind d total days minlock now funds ok|now e|d a]; cbn [rstep].
  - destruct (_ || _) eqn:E; [discriminate|]. intros H. injection H as <- <-.
    repeat (apply orb_false_iff in E; destruct E as [E ?]).
    assert (0 < dep) by lia. unfold RInv, owed. cbn [r_bal r_gauges r_exts]. repeat split.
    + apply Forall_app. split; [assumption|]. constructor; [|constructor]. unfold GInv; cbn; lia.
    + assumption.
    + intros x. unfold bset. specialize (HB x). destruct (Z.eqb_spec x d); [subst x|]; lia.
    + intros x. rewrite owed_g_app, owed_g_cons. replace (owed_g x []) with 0 by reflexivity. cbn [g_denom g_rem g_swap g_deposit g_distributed].
      specialize (HO x). unfold owed in HO. unfold bset. rewrite (Z.eqb_sym d x). destruct (Z.eqb_spec x d); [subst x|]; lia.
  - intros H. injection H as <- <-. unfold RInv, owed. cbn [r_bal r_gauges r_exts]. repeat split; try assumption.
    + apply Forall_app. split; [assumption|]. constructor; [|constructor]. unfold GInv; cbn; lia.
    + intros x. rewrite owed_g_app, owed_g_cons. replace (owed_g x []) with 0 by reflexivity. cbn [g_denom g_rem g_swap g_deposit].
      specialize (HO x). unfold owed in HO. destruct (d =? x); lia.
  - destruct (_ || _) eqn:E; [discriminate|]. intros H. injection H as <- <-.
    repeat (apply orb_false_iff in E; destruct E as [E ?]).
    assert (0 < total) by lia. unfold RInv, owed. cbn [r_bal r_gauges r_exts]. repeat split.
    + assumption.
    + apply Forall_app. split; [assumption|]. constructor; [|constructor]. unfold XInv; cbn; lia.
    + intros x. unfold bset. specialize (HB x). destruct (Z.eqb_spec x d); [subst x|]; lia.
    + intros x. rewrite owed_x_app, owed_x_cons. replace (owed_x x []) with 0 by reflexivity. cbn [x_denom x_avail].
      specialize (HO x). unfold owed in HO. unfold bset. rewrite (Z.eqb_sym d x). destruct (Z.eqb_spec x d); [subst x|]; lia.
  - intros H. cbn [kf_step] in Hk. cbn [op_wf] in Hw. apply andb_true_iff in Hw. destruct Hw as [Hw1 Hw2].
    eapply begin_block_inv; eassumption.
  - destruct (Z.ltb_spec a 0); [discriminate|]. intros H'. injection H' as <- <-.
    unfold RInv, owed. cbn [r_bal r_gauges r_exts]. repeat split; try assumption.
    + intros x. unfold bset. specialize (HB x). destruct (Z.eqb_spec x d); [subst x|]; lia.
    + intros x. specialize (HO x). unfold owed in HO. unfold bset. destruct (Z.eqb_spec x d); [subst x|]; lia.
Qed.

Lemma rapply_inv s o : RInv s -> op_wf o = true -> kf_step s o = false -> RInv (rapply s o).
Proof.
  intros H Hw Hk. unfold rapply. destruct (rstep s o) as [[s' ps]| |] eqn:E; [eapply rstep_inv; eassumption|assumption|assumption].
Qed.

Lemma rrun_inv ops : forall s, RInv s -> forallb op_wf ops = true -> run_clean s ops = true -> RInv (rrun s ops).
Proof.
  induction ops as [|o ops IH]; intros s H Hw Hc; cbn; [assumption|].
  cbn [forallb] in Hw. apply andb_true_iff in Hw. destruct Hw as [Hw1 Hw2].
  cbn [run_clean] in Hc. apply andb_true_iff in Hc. destruct Hc as [Hc1 Hc2]. apply negb_true_iff in Hc1.
  apply IH; [apply rapply_inv; assumption|assumption|assumption].
Qed.

Lemma rinv_init : RInv rinit.
Proof.
  unfold RInv, rinit. cbn [r_gauges r_exts r_bal]. split; [constructor|]. split; [constructor|].
  split; [intros d; lia|]. intros d. unfold owed. cbn. lia.
Qed.

Lemma owed_active_le d gs xs : Forall GInv gs -> Forall XInv xs -> owed_active d gs xs <= owed_g d gs + owed_x d xs.
Proof.
  intros HG HX. unfold owed_active, owed_g, owed_x.
  assert (A : zsum (map (fun g => if (g_denom g =? d) && g_active g then g_rem g else 0) gs) <=
              zsum (map (fun g => if g_denom g =? d then g_rem g else 0) gs)).
  { induction HG as [|g gs Hg _ IH]; cbn [map zsum]; [lia|]. apply g_rem_nonneg in Hg.
    destruct (g_denom g =? d), (g_active g); cbn [andb]; lia. }
  assert (B : zsum (map (fun x => if (x_denom x =? d) && x_active x then x_avail x else 0) xs) <=
              zsum (map (fun x => if x_denom x =? d then x_avail x else 0) xs)).
  { induction HX as [|x xs Hx _ IH]; cbn [map zsum]; [lia|]. unfold XInv in Hx.
    destruct (x_denom x =? d), (x_active x); cbn [andb]; lia. }
  lia.
Qed.

(* custody, every clean history: the predicate the harness evaluates holds on the model *)
Lemma custody_clean ops d : forallb op_wf ops = true -> run_clean rinit ops = true ->
  let s := rrun rinit ops in
  owed d s <= r_bal s d /\ holds_C19_custody d (r_bal s d) (r_gauges s) (r_exts s) = true.
Proof.
  intros Hw Hc. pose proof (rrun_inv ops _ rinv_init Hw Hc) as (HG & HX & HB & HO). cbv zeta.
  split; [apply HO|]. unfold holds_C19_custody. apply andb_true_iff. split.
  - apply forallb_forall. intros x Hin. rewrite Forall_forall in HX. specialize (HX x Hin). unfold XInv in HX.
    apply orb_true_iff. right. apply Z.leb_le. assumption.
  - apply Z.leb_le. specialize (HO d). unfold owed in HO. pose proof (owed_active_le d _ _ HG HX). lia.
Qed.

(* ---------------- histories without lend programs meet no class ---------------- *)
Lemma ext_tick_kind now e bal x x' bal' paid : ext_tick now e bal x = Ok (x', bal', paid) -> x_kind x' = x_kind x.
Proof.
  unfold ext_tick. intros E.
  destruct (negb (x_active x)). { injection E as <- <- <-. reflexivity. }
  destruct (negb (x_next x <? now)). { injection E as <- <- <-. reflexivity. }
  destruct (x_count x <? x_days x).
  2:{ injection E as <- <- <-. reflexivity. }
  destruct (ext_loop x now (xe_total e) (xe_pop e) bal 0) as [[[b1 t1] ps1]| |]; try discriminate.
  injection E as <- <- <-. reflexivity.
Qed.

Lemma run_exts_kinds kind now : forall xs xe b xs' b' ps,
  run_exts kind now xs xe b = Ok (xs', b', ps) -> map x_kind xs' = map x_kind xs.
Proof.
  induction xs as [|x rest IH]; intros xe b xs' b' ps E; cbn [run_exts] in E.
  - injection E as <- <- <-. reflexivity.
  - destruct (x_kind x =? kind).
    + destruct (xe_halt (hd_xenv xe)); [discriminate|].
      destruct (ext_tick now (hd_xenv xe) (b (x_denom x)) x) as [[[x1 bal1] paid]| |] eqn:Et; try discriminate.
      destruct (run_exts kind now rest (tl xe) (bset b (x_denom x) bal1)) as [[[xs1 b1] ps1]| |] eqn:Er; try discriminate.
      injection E as <- <- <-. cbn [map]. rewrite (ext_tick_kind _ _ _ _ _ _ _ Et), (IH _ _ _ _ _ Er). reflexivity.
    + destruct (run_exts kind now rest (tl xe) b) as [[[xs1 b1] ps1]| |] eqn:Er; try discriminate.
      injection E as <- <- <-. cbn [map]. rewrite (IH _ _ _ _ _ Er). reflexivity.
Qed.

Lemma lend_tick_kind now e arr tot bal x x' bal' paid arr' tot' :
  lend_tick now e arr tot bal x = Ok (Some (x', bal', paid, arr', tot')) -> x_kind x' = x_kind x.
Proof.
  unfold lend_tick.
  destruct (negb (x_active x)). { intros E; injection E as <- <- <- <- <-. reflexivity. }
  destruct (negb (x_next x <? now)). { intros E; injection E as <- <- <- <- <-. reflexivity. }
  destruct (x_count x <? x_days x).
  2:{ intros E; injection E as <- <- <- <- <-. reflexivity. }
  destruct (negb (le_ok e)); [discriminate|].
  destruct (le_price e) as [[twa decimals]|]. 2:{ intros E; injection E as <- <- <- <- <-. reflexivity. }
  destruct (decimals =? 0); [discriminate|].
  destruct (_ <=? 0). { intros E; injection E as <- <- <- <- <-. reflexivity. }
  match goal with |- context [lend_loop ?apr ?arr bal 0] => destruct (lend_loop apr arr bal 0) as [[c1 t1] p1] end.
  intros E; injection E as <- <- <- <- <-. reflexivity.
Qed.

Lemma run_lends_kinds now : forall xs le arr tot b xs' b' ps,
  run_lends now xs le arr tot b = Ok (xs', b', ps) -> map x_kind xs' = map x_kind xs.
Proof.
  induction xs as [|x rest IH]; intros le arr tot b xs' b' ps E; cbn [run_lends] in E.
  - injection E as <- <- <-. reflexivity.
  - destruct (x_kind x =? 2).
    + destruct (le_halt (hd_lenv le)); [discriminate|].
      destruct (lend_tick now (hd_lenv le) arr tot (b (x_denom x)) x) as [[[[[[x1 bal1] paid] arr1] tot1]|]| |] eqn:Et; try discriminate.
      2:{ injection E as <- <- <-. reflexivity. }
      destruct (run_lends now rest (tl le) arr1 tot1 (bset b (x_denom x) bal1)) as [[[xs1 b1] ps1]| |] eqn:Er; try discriminate.
      injection E as <- <- <-. cbn [map]. rewrite (lend_tick_kind _ _ _ _ _ _ _ _ _ _ _ Et), (IH _ _ _ _ _ _ _ Er). reflexivity.
    + destruct (run_lends now rest (tl le) arr tot b) as [[[xs1 b1] ps1]| |] eqn:Er; try discriminate.
      injection E as <- <- <-. cbn [map]. rewrite (IH _ _ _ _ _ _ _ Er). reflexivity.
Qed.

Lemma sub_step_kinds (r : outcome (list ext * bank * dpays)) xs b :
  (forall xs' b' ps, r = Ok (xs', b', ps) -> map x_kind xs' = map x_kind xs) ->
  map x_kind (fst (fst (sub_step r xs b))) = map x_kind xs.
Proof. intros H. destruct r as [[[xs' b'] ps]| |]; cbn; [eapply H; reflexivity|reflexivity|reflexivity]. Qed.

Definition NoLend (xs : list ext) : Prop := Forall (fun k => k <> 2) (map x_kind xs).

Lemma kf4_pass_no_lend now : forall xs le arr tot, NoLend xs -> kf4_pass now xs le arr tot = false.
Proof.
  unfold NoLend. induction xs as [|x rest IH]; intros le arr tot H; cbn [kf4_pass]; [reflexivity|].
  cbn [map] in H. inversion H as [|? ? Hk Hrest]; subst.
  destruct (Z.eqb_spec (x_kind x) 2); [contradiction|]. apply IH. assumption.
Qed.

(* the programs a BeginBlocker leaves have the kinds they had *)
Lemma begin_block_kinds now e s s' ps : begin_block now e s = Ok (s', ps) -> map x_kind (r_exts s') = map x_kind (r_exts s).
Proof.
  unfold begin_block. intros E.
  destruct (run_epochs now (r_epochs s) (r_gauges s) (be_farm e) (be_recv e) (r_bal s)) as [[[[es gs] b1] p1]| |]; try discriminate.
  pose proof (sub_step_kinds (run_exts 0 now (r_exts s) (be_ext e) b1) (r_exts s) b1 (run_exts_kinds _ _ _ _ _)) as K1.
  destruct (sub_step (run_exts 0 now (r_exts s) (be_ext e) b1) (r_exts s) b1) as [[xs1 b2] p2]. cbn [fst] in K1.
  pose proof (sub_step_kinds (run_exts 1 now xs1 (be_ext e) b2) xs1 b2 (run_exts_kinds _ _ _ _ _)) as K2.
  destruct (sub_step (run_exts 1 now xs1 (be_ext e) b2) xs1 b2) as [[xs2 b3] p3]. cbn [fst] in K2.
  pose proof (sub_step_kinds (run_lends now xs2 (be_lend e) [] 0 b3) xs2 b3 (run_lends_kinds _ _ _ _ _ _)) as K3.
  destruct (sub_step (run_lends now xs2 (be_lend e) [] 0 b3) xs2 b3) as [[xs3 b4] p4]. cbn [fst] in K3.
  injection E as <- <-. cbn [r_exts]. congruence.
Qed.

Lemma kf4_begin_no_lend now e s : NoLend (r_exts s) -> kf4_begin now e s = false.
Proof.
  unfold kf4_begin. intros H.
  destruct (run_epochs now (r_epochs s) (r_gauges s) (be_farm e) (be_recv e) (r_bal s)) as [[[[es gs] b1] p1]| |]; try reflexivity.
  pose proof (sub_step_kinds (run_exts 0 now (r_exts s) (be_ext e) b1) (r_exts s) b1 (run_exts_kinds _ _ _ _ _)) as K1.
  destruct (sub_step (run_exts 0 now (r_exts s) (be_ext e) b1) (r_exts s) b1) as [[xs1 b2] p2]. cbn [fst] in K1.
  pose proof (sub_step_kinds (run_exts 1 now xs1 (be_ext e) b2) xs1 b2 (run_exts_kinds _ _ _ _ _)) as K2.
  destruct (sub_step (run_exts 1 now xs1 (be_ext e) b2) xs1 b2) as [[xs2 b3] p3]. cbn [fst] in K2.
  rewrite kf4_pass_no_lend; [apply andb_false_r|]. unfold NoLend in *. congruence.
Qed.

Lemma rapply_no_lend s o : NoLend (r_exts s) -> no_lend_op o = true -> NoLend (r_exts (rapply s o)).
Proof.
  intros H Ho. unfold rapply. destruct (rstep s o) as [[s' ps]| |] eqn:E; try assumption.
  destruct o as [d dep total start now dur funds meta|d now dur|kind d total days minlock now funds ok|now e|d a]; cbn [rstep] in E.
  - destruct (_ || _); [discriminate|]. injection E as <- <-. assumption.
  - injection E as <- <-. assumption.
  - destruct (_ || _); [discriminate|]. injection E as <- <-. cbn [r_exts]. unfold NoLend in *. rewrite map_app.
    apply Forall_app. split; [assumption|]. cbn [map x_kind]. constructor; [|constructor].
    cbn [no_lend_op] in Ho. destruct (Z.eqb_spec kind 2); [discriminate|assumption].
  - unfold NoLend in *. rewrite (begin_block_kinds _ _ _ _ _ E). assumption.
  - destruct (a <? 0); [discriminate|]. injection E as <- <-. assumption.
Qed.

Lemma run_clean_no_lend ops : forall s, NoLend (r_exts s) -> forallb no_lend_op ops = true -> run_clean s ops = true.
Proof.
  induction ops as [|o ops IH]; intros s H Hn; cbn [run_clean]; [reflexivity|].
  cbn [forallb] in Hn. apply andb_true_iff in Hn. destruct Hn as [Hn1 Hn2].
  apply andb_true_iff. split; [|apply IH; [apply rapply_no_lend; assumption|assumption]].
  apply negb_true_iff. destruct o; try reflexivity. cbn [kf_step]. apply kf4_begin_no_lend. assumption.
Qed.

(* custody with no class excluded: every history of gauges (incl. swap-fee gauges) and locker / vault programs *)
Lemma custody_no_lend ops d : forallb op_wf ops = true -> forallb no_lend_op ops = true ->
  let s := rrun rinit ops in
  owed d s <= r_bal s d /\ holds_C19_custody d (r_bal s d) (r_gauges s) (r_exts s) = true.
Proof.
  intros Hw Hn. apply custody_clean; [assumption|]. apply run_clean_no_lend; [constructor|assumption].
Qed.

(* cumulative distributed <= deposit for every non-swap-fee gauge, EVERY history (no class excluded) *)
(* the gauges and epochs a BeginBlocker leaves are those of TriggerAndUpdateEpochInfos alone: no
   external program, whatever it does (error, panic, overdraw), touches them or stops the hook *)
Lemma begin_block_gauges now e s :
  match run_epochs now (r_epochs s) (r_gauges s) (be_farm e) (be_recv e) (r_bal s) with
  | Ok (es, gs, _, _) => exists s' ps, begin_block now e s = Ok (s', ps) /\ r_gauges s' = gs /\ r_epochs s' = es
  | Err c => begin_block now e s = Err c
  | Panic => begin_block now e s = Panic
  end.
Proof.
  unfold begin_block.
  destruct (run_epochs now (r_epochs s) (r_gauges s) (be_farm e) (be_recv e) (r_bal s)) as [[[[es gs] b1] p1]| |]; try reflexivity.
  destruct (sub_step (run_exts 0 now (r_exts s) (be_ext e) b1) (r_exts s) b1) as [[xs1 b2] p2].
  destruct (sub_step (run_exts 1 now xs1 (be_ext e) b2) xs1 b2) as [[xs2 b3] p3].
  destruct (sub_step (run_lends now xs2 (be_lend e) [] 0 b3) xs2 b3) as [[xs3 b4] p4].
  eexists _, _. split; [reflexivity|]. split; reflexivity.
Qed.

Lemma begin_block_ginvr now e s s' ps : begin_block now e s = Ok (s', ps) -> Forall GInvR (r_gauges s) -> Forall GInvR (r_gauges s').
Proof.
  intros E HG. pose proof (begin_block_gauges now e s) as Hb.
  destruct (run_epochs now (r_epochs s) (r_gauges s) (be_farm e) (be_recv e) (r_bal s)) as [[[[es gs] b1] p1]| |] eqn:E1;
    [|rewrite Hb in E; discriminate|rewrite Hb in E; discriminate].
  destruct Hb as (s2 & ps2 & Hb & Hg & _). rewrite Hb in E. injection E as <- <-. rewrite Hg.
  eapply run_epochs_ginvr; eassumption.
Qed.

Lemma rapply_ginvr s o : Forall GInvR (r_gauges s) -> Forall GInvR (r_gauges (rapply s o)).
Proof.
  intros HG. unfold rapply. destruct (rstep s o) as [[s' ps]| |] eqn:E; try assumption.
  destruct o as [d dep total start now dur funds meta|d now dur|kind d total days minlock now funds ok|now e|d a]; cbn [rstep] in E.
  - destruct (_ || _) eqn:Ec; [discriminate|]. injection E as <- <-. cbn [r_gauges].
    repeat (apply orb_false_iff in Ec; destruct Ec as [Ec ?]).
    apply Forall_app. split; [assumption|]. constructor; [|constructor]. unfold GInvR; cbn; lia.
  - injection E as <- <-. cbn [r_gauges]. apply Forall_app. split; [assumption|]. constructor; [|constructor]. unfold GInvR; cbn; discriminate.
  - destruct (_ || _); [discriminate|]. injection E as <- <-. assumption.
  - eapply begin_block_ginvr; eassumption.
  - destruct (a <? 0); [discriminate|]. injection E as <- <-. assumption.
Qed.

Lemma rrun_ginvr ops : forall s, Forall GInvR (r_gauges s) -> Forall GInvR (r_gauges (rrun s ops)).
Proof. induction ops as [|o ops IH]; intros s H; cbn; [assumption|]. apply IH. apply rapply_ginvr. assumption. Qed.

(* ---------------- the life of one gauge ---------------- *)
Lemma firstn_snoc {A} (l : list A) : forall n a, nth_z l n = Some a -> firstn (S n) l = firstn n l ++ [a].
Proof.
  induction l as [|x l IH]; intros n a H; [destruct n; discriminate|].
  destruct n as [|n]; cbn [nth_z] in H.
  - injection H as <-. reflexivity.
  - cbn [firstn app]. f_equal. apply IH. exact H.
Qed.

Lemma zsum_app a b : zsum (a ++ b) = zsum a + zsum b.
Proof. induction a as [|x a IH]; cbn [app zsum]; lia. Qed.

Lemma alloc_sum_step sp k a : 0 <= k -> nth_z sp (Z.to_nat k) = Some a -> alloc_sum sp (k + 1) = alloc_sum sp k + a.
Proof.
  intros Hk H. unfold alloc_sum. replace (Z.to_nat (k + 1)) with (S (Z.to_nat k)) by lia.
  rewrite (firstn_snoc _ _ _ H), zsum_app. cbn [zsum]. lia.
Qed.

Lemma alloc_sum_le sp k : Forall (fun x => 0 <= x) sp -> alloc_sum sp k <= zsum sp.
Proof.
  unfold alloc_sum. generalize (Z.to_nat k) as n. intros n H. revert n.
  induction H as [|x l Hx Hl IH]; intros n; [destruct n; cbn; lia|].
  destruct n; cbn [firstn zsum]; [|specialize (IH n); lia].
  assert (0 <= zsum l) by (clear IH; induction Hl; cbn [zsum]; lia). lia.
Qed.

Lemma nth_z_lt {A} (l : list A) : forall n, (n < length l)%nat -> exists a, nth_z l n = Some a.
Proof.
  induction l as [|x l IH]; intros n H; cbn [length] in H; [lia|].
  destruct n; cbn [nth_z]; [eauto|]. apply IH. lia.
Qed.

Definition LInv (dep n bal0 : Z) (sp : list Z) (st : gauge * Z * Z) : Prop :=
  let '(g, bal, acc) := st in
  g_deposit g = dep /\ g_total g = n /\ 0 <= g_triggered g <= n /\
  0 <= acc <= g_distributed g /\ g_distributed g <= alloc_sum sp (g_triggered g) /\ bal = bal0 - acc /\ 0 <= bal.

Lemma life_step_inv dep n bal0 sp st ev : split dep n = Ok sp -> zlen sp = n ->
  LInv dep n bal0 sp st -> LInv dep n bal0 sp (life_step st ev).
Proof.
  intros Hs Hl. destruct st as [[g bal] acc]. unfold LInv, life_step. intros (A & B & C & D & F & G & H).
  destruct (trigger (fst ev) (snd ev) bal g) as [[[g' bal'] paid]| |] eqn:Et; [|repeat split; lia|repeat split; lia].
  apply trigger_spec in Et. destruct Et as (D1 & D2 & D3 & D4 & D5 & D6 & D7). cbv zeta in D7.
  destruct D7 as (P1 & P2 & P3 & P4).
  destruct P4 as [(Q1 & Q2 & Q3)|(Q1 & Q2 & Q3 & Q4 & Q5 & Q6)].
  - rewrite Q1. repeat split; lia.
  - assert (Hlt : (Z.to_nat (g_triggered g) < length sp)%nat) by (unfold zlen in Hl; lia).
    destruct (nth_z_lt sp _ Hlt) as [a Ha].
    assert (Ea : epoch_allocation g = a) by (unfold epoch_allocation; rewrite A, B, Hs, Ha; reflexivity).
    rewrite Q1, (alloc_sum_step sp (g_triggered g) a (proj1 C) Ha). repeat split; lia.
Qed.

Lemma gauge_life dep n start dur denom sp evs bal0 :
  1 <= n -> n <= dep -> split dep n = Ok sp -> 0 <= bal0 ->
  let '(g, bal, acc) := fold_left life_step evs (fresh_gauge dep n start dur denom, bal0, 0) in
  0 <= acc <= g_distributed g /\ g_distributed g <= alloc_sum sp (g_triggered g) /\
  alloc_sum sp (g_triggered g) <= dep /\ 0 <= g_triggered g <= n /\ bal = bal0 - acc /\ g_deposit g = dep.
Proof.
  intros Hn Hd Hs Hb.
  destruct (split_spec dep n Hn Hd) as (sp' & Hs' & Hsum & Hlen & Hel). rewrite Hs in Hs'. injection Hs' as <-.
  assert (Hnn : Forall (fun x => 0 <= x) sp).
  { eapply Forall_impl; [|exact Hel]. cbn. intros x Hx. assert (0 <= dep / n) by (apply Z.div_pos; lia). lia. }
  assert (HI : LInv dep n bal0 sp (fresh_gauge dep n start dur denom, bal0, 0)).
  { unfold LInv, fresh_gauge, alloc_sum. cbn. repeat split; lia. }
  revert HI. generalize (fresh_gauge dep n start dur denom, bal0, 0) as st.
  induction evs as [|ev evs IH]; intros st HI; cbn [fold_left].
  - destruct st as [[g bal] acc]. destruct HI as (A & B & C & D & F & G & H).
    pose proof (alloc_sum_le sp (g_triggered g) Hnn). repeat split; lia.
  - apply IH. apply life_step_inv; assumption.
Qed.

(* an exhausted gauge pays nothing more *)
Lemma trigger_exhausted now calc bal g g' bal' paid : g_triggered g = g_total g ->
  trigger now calc bal g = Ok (g', bal', paid) -> paid = [] /\ bal' = bal /\ g_distributed g' = g_distributed g /\ g_triggered g' = g_triggered g.
Proof.
  intros He Et. apply trigger_spec in Et. destruct Et as (D1 & D2 & D3 & D4 & D5 & D6 & D7). cbv zeta in D7.
  destruct D7 as (P1 & P2 & P3 & P4). destruct P4 as [(Q1 & Q2 & Q3)|(Q1 & Q2 & Q3 & Q4 & Q5 & Q6)]; [|contradiction].
  subst paid. cbn in P2. repeat split; try lia.
Qed.

(* ---------------- epochs ---------------- *)
(* a tick never moves the epoch start beyond now, and a trigger advances exactly one epoch *)
Lemma epoch_tick_spec now e e' r : 0 < e_dur e -> epoch_tick now e = (e', r) ->
  e_dur e' = e_dur e /\
  match r with
  | TTrigger => e_cur e' = e_cur e + 1 /\ e_cest e' = e_cest e + e_dur e /\ e_cest e' < now
  | TSkipped => e_cur e' = e_cur e /\ e_cest e < e_cest e' <= now /\ now - e_cest e' < e_dur e
  | TFresh => e_cur e' = e_cur e /\ e_fresh e' = false
  | TNothing => e' = e
  end.
Proof.
  intros Hd. unfold epoch_tick.
  destruct (e_fresh e && (e_cur e =? 0)). { intros H; injection H as <- <-. cbn. auto. }
  destruct (Z.ltb_spec (e_cest e + 2 * e_dur e) now).
  { intros H0; injection H0 as <- <-. cbn. split; [reflexivity|]. split; [reflexivity|].
    rewrite Z.quot_div_nonneg by lia.
    pose proof (Z.div_mod (now - e_cest e) (e_dur e) ltac:(lia)).
    pose proof (Z.mod_pos_bound (now - e_cest e) (e_dur e) Hd).
    assert (2 <= (now - e_cest e) / e_dur e) by (apply Z.div_le_lower_bound; lia). nia. }
  destruct (Z.ltb_spec (e_cest e + e_dur e) now).
  { intros H1; injection H1 as <- <-. cbn. repeat split; lia. }
  intros H1; injection H1 as <- <-. auto.
Qed.

(* ---------------- farmer share ---------------- *)
Lemma P18f_eq : P18f = P18. Proof. reflexivity. Qed.
Lemma small_const : P18f * F_P52 < F_ONE. Proof. vm_compute. reflexivity. Qed.

(* int64(floor(float64(v))) <= v * (1 + 2^-53), in units: payout * 10^18 * 2^53 <= v * (2^53 + 1) *)
Lemma floor_to64_le v : 0 <= v -> 0 <= floor64 (to64 v) /\ floor64 (to64 v) * P18 * F_P53 <= v * (F_P53 + 1).
Proof.
  intros Hv. pose proof F_ONE_pos as HF. pose proof F_P53_pos. pose proof P18f_pos. pose proof small_const as Hc.
  rewrite <- P18f_eq. unfold floor64, to64, rnd64. destruct (Z.ltb_spec v 0); [lia|].
  pose proof (rnd64_nn_nonneg v P18f Hv ltac:(lia)) as Hr0.
  pose proof (rnd64_nn_err v P18f Hv ltac:(lia)) as [_ He]. set (r := rnd64_nn v P18f) in *.
  pose proof (Z.div_mod r F_ONE ltac:(lia)). pose proof (Z.mod_pos_bound r F_ONE HF).
  assert (0 <= r / F_ONE) by (apply Z.div_pos; lia). split; [assumption|].
  set (p := r / F_ONE) in *.
  (* p*F_ONE <= r ; (r*P18f - v*F_ONE)*2^53 <= v*F_ONE + P18f*2^52 *)
  assert (Hp : p * F_ONE <= r) by (unfold p; lia).
  assert (0 <= P18f * F_P53) by nia.
  assert (Hq : p * F_ONE * (P18f * F_P53) <= r * (P18f * F_P53)) by (apply Z.mul_le_mono_nonneg_r; assumption).
  assert (p * F_ONE * P18f * F_P53 <= v * F_ONE * (F_P53 + 1) + P18f * F_P52) by lia.
  assert ((p * P18f * F_P53 - v * (F_P53 + 1)) * F_ONE < F_ONE) by nia.
  nia.
Qed.

(* the Dec value of the share: v * total * 10^18 <= s*coins*10^36 + s*total + total/2 *)
Lemma share_dec_le coins total s : 0 <= coins -> 0 < total -> 0 <= s ->
  0 <= share_dec coins total s /\
  share_dec coins total s * P18 * total <= s * (coins * P36 + total) + HALF18 * total.
Proof.
  intros Hc Ht Hs. dec_consts. pose proof P36_eq. unfold share_dec, dec_of_int.
  pose proof (dquo_bounds (coins * P18) total ltac:(nia) Ht) as Bq.
  pose proof (dquo_nonneg (coins * P18) total ltac:(nia) Ht) as Nq.
  set (M := dquo (coins * P18) total) in *.
  pose proof (dmul_bounds s M) as Bm. pose proof (dmul_nonneg s M Hs Nq). set (v := dmul s M) in *.
  split; [assumption|].
  assert (s * (M * total) <= s * (coins * P18 * P18 + total)) by nia. nia.
Qed.

(* general share bound, all inputs *)
Lemma share_general coins total s : 0 <= coins -> 0 < total -> 0 <= s ->
  let p := share_reward coins total s in
  0 <= p /\ p * P36 * total * F_P53 <= (s * (coins * P36 + total) + HALF18 * total) * (F_P53 + 1).
Proof.
  intros Hc Ht Hs. cbv zeta. unfold share_reward.
  pose proof (share_dec_le coins total s Hc Ht Hs) as [V0 V1]. set (v := share_dec coins total s) in *.
  pose proof (floor_to64_le v V0) as [Q0 Q1]. set (p := floor64 (to64 v)) in *.
  split; [assumption|]. dec_consts. pose proof P36_eq. pose proof F_P53_pos.
  assert (p * P18 * F_P53 * (P18 * total) <= v * (F_P53 + 1) * (P18 * total)) by (apply Z.mul_le_mono_nonneg_r; nia).
  assert (v * P18 * total * (F_P53 + 1) <= (s * (coins * P36 + total) + HALF18 * total) * (F_P53 + 1))
    by (apply Z.mul_le_mono_nonneg_r; lia).
  nia.
Qed.

Lemma share_num_fact : (P18 + 600000) * (F_P53 + 1) * 1000000000000 <= P18 * F_P53 * 1000000000001.
Proof. vm_compute. discriminate. Qed.

(* outside the known-finding class (total farmed value <= 400 000 x allocation) and for a farmer
   whose value is at least one unit, the payout is within one part in 10^12 of the pro-rata share *)
Lemma share_bound coins total s : 0 <= coins -> 0 < total -> P18 <= s ->
  kf_C19_1 coins total = false ->
  holds_C19_share coins total s (share_reward coins total s) = true.
Proof.
  intros Hc Ht Hs Hk. dec_consts. pose proof P36_eq as E36. pose proof F_P53_pos.
  pose proof (share_general coins total s Hc Ht ltac:(lia)) as [P0 P1]. cbv zeta in P1.
  set (p := share_reward coins total s) in *.
  unfold kf_C19_1 in Hk. assert (Hk' : total <= coins * 400000 * P18) by lia.
  unfold holds_C19_share. apply andb_true_intro. split; [lia|].
  destruct (Z.leb_spec total 0); [lia|]. apply Z.leb_le.
  pose proof share_num_fact as NF.
  (* bracket <= s * coins * P18 * (P18 + 600000) *)
  assert (B1 : s * total <= s * (coins * 400000 * P18)) by (apply Z.mul_le_mono_nonneg_l; lia).
  assert (B2 : 2 * (HALF18 * total) <= s * (coins * 400000 * P18)).
  { assert (2 * HALF18 * total <= s * total) by (apply Z.mul_le_mono_nonneg_r; lia).
    lia. }
  assert (B : s * (coins * P36 + total) + HALF18 * total <= s * coins * P18 * (P18 + 600000)) by (rewrite E36; nia).
  assert (C1 : p * P36 * total * F_P53 <= s * coins * P18 * (P18 + 600000) * (F_P53 + 1)).
  { etransitivity; [exact P1|]. apply Z.mul_le_mono_nonneg_r; lia. }
  (* multiply by 10^12 and use the numeric fact *)
  assert (0 <= s * coins) by nia.
  assert (C2 : s * coins * ((P18 + 600000) * (F_P53 + 1) * 1000000000000) <= s * coins * (P18 * F_P53 * 1000000000001))
    by (apply Z.mul_le_mono_nonneg_l; lia).
  rewrite E36 in C1.
  assert (C3 : (p * total * 1000000000000) * (P18 * P18 * F_P53) <= (coins * s * 1000000000001) * (P18 * P18 * F_P53)) by nia.
  assert (0 < P18 * P18 * F_P53) by nia.
  apply (Z.mul_le_mono_pos_r _ _ (P18 * P18 * F_P53)); assumption.
Qed.

(* every entry of the farming calculation is the share formula applied to an eligible value *)
Lemma collect_in l : forall ps, collect l = Ok ps -> forall p, In p ps -> In (Ok p) l.
Proof.
  induction l as [|o l IH]; intros ps E p Hp; cbn [collect] in E.
  - injection E as <-. contradiction.
  - destruct o as [q| |]; try discriminate. destruct (collect l) as [qs| |]; try discriminate.
    injection E as <-. destruct Hp as [->|Hp]; [left; reflexivity|right; eapply IH; eauto].
Qed.

Lemma farm_calc_share e coins ps : farm_calc e coins = Ok ps -> forall a r, In (a, r) ps ->
  exists s, In (a, s) (eligible e) /\ r = share_reward coins (zsum (map snd (eligible e))) s /\ r < two63.
Proof.
  intros E a r Hin.
  assert (G : forall fs : list (Z * Z), let total := zsum (map snd fs) in
            forall fs', (forall f, In f fs' -> In f fs) ->
            collect (map (fun f => coin_of_float (fst f) (share_reward coins total (snd f))) fs') = Ok ps ->
            exists s, In (a, s) fs /\ r = share_reward coins total s /\ r < two63).
  { intros fs total fs' Hsub Ec. pose proof (collect_in _ _ Ec _ Hin) as Hi. apply in_map_iff in Hi.
    destruct Hi as ([a' s] & Hc & Hf). cbn [fst snd] in Hc. unfold coin_of_float in Hc.
    destruct (Z.leb_spec two63 (share_reward coins total s)); [discriminate|]. injection Hc as -> <-.
    exists s. split; [apply Hsub; assumption|]. split; [reflexivity|assumption]. }
  destruct e as [|fs|fs child]; cbn [farm_calc eligible] in *; [discriminate| |].
  - destruct (zsum (map snd fs) =? 0); [injection E as <-; contradiction|]. eapply G; [|exact E]. auto.
  - set (ms := combine (map fst fs) (min_supplies (map snd fs) child)) in *.
    destruct (zsum (map snd ms) =? 0); [injection E as <-; contradiction|]. eapply G; [|exact E].
    intros f Hf. apply filter_In in Hf. tauto.
Qed.

(* a non-empty result means somebody has an eligible value *)
Lemma farm_calc_total e coins ps : farm_calc e coins = Ok ps -> ps <> [] -> zsum (map snd (eligible e)) <> 0.
Proof.
  intros E Hne. destruct e as [|fs|fs child]; cbn [farm_calc eligible] in *; [discriminate| |].
  - destruct (Z.eqb_spec (zsum (map snd fs)) 0); [injection E as <-; contradiction|assumption].
  - set (ms := combine (map fst fs) (min_supplies (map snd fs) child)) in *.
    destruct (Z.eqb_spec (zsum (map snd ms)) 0); [injection E as <-; contradiction|assumption].
Qed.

(* a farmer without eligible value is paid nothing *)
Lemma share_reward_zero coins total : 0 <= coins -> 0 < total -> share_reward coins total 0 = 0.
Proof.
  intros Hc Ht. pose proof (share_general coins total 0 Hc Ht ltac:(lia)) as [P0 P1]. cbv zeta in P1.
  set (p := share_reward coins total 0) in *. dec_consts. pose proof P36_eq as E36. pose proof F_P53_pos.
  destruct (Z.eq_dec p 0) as [|Hp]; [assumption|exfalso]. assert (1 <= p) by lia.
  assert (A1 : 1 * (P36 * total * F_P53) <= p * (P36 * total * F_P53)) by (apply Z.mul_le_mono_nonneg_r; nia).
  assert (A2 : 2 * HALF18 * (total * (F_P53 + 1)) <= P36 * (total * F_P53)).
  { rewrite E36. assert (F_P53 + 1 <= 2 * F_P53) by lia. assert (2 * HALF18 = P18) by lia.
    assert (P18 * (total * (F_P53 + 1)) <= P18 * (total * (2 * F_P53))) by (apply Z.mul_le_mono_nonneg_l; nia).
    assert (P18 * 2 <= P18 * P18) by (apply Z.mul_le_mono_nonneg_l; lia). nia. }
  nia.
Qed.

Lemma farm_share_bound e coins ps a r : farm_calc e coins = Ok ps -> In (a, r) ps -> 0 <= coins ->
  Forall (fun f => 0 <= snd f) (eligible e) ->
  let total := zsum (map snd (eligible e)) in
  0 < total /\
  exists s, In (a, s) (eligible e) /\ (s = 0 -> r = 0) /\
    (P18 <= s -> kf_C19_1 coins total = false -> holds_C19_share coins total s r = true).
Proof.
  intros E Hin Hc Hnn total.
  assert (Ht : 0 <= total).
  { unfold total. clear -Hnn. induction Hnn as [|f l Hf _ IH]; cbn [map zsum]; lia. }
  assert (Hpos : 0 < total).
  { pose proof (farm_calc_total _ _ _ E) as Hn. fold total in Hn.
    assert (ps <> []) by (intros ->; contradiction). specialize (Hn H). lia. }
  split; [assumption|].
  destruct (farm_calc_share _ _ _ E _ _ Hin) as (s & Hs & -> & _).
  exists s. split; [assumption|]. fold total. split.
  - intros ->. apply share_reward_zero; assumption.
  - intros Hs1 Hk. apply share_bound; assumption.
Qed.

Lemma epoch_cap : forall now calc bal g g' bal' paid,
  trigger now calc bal g = Ok (g', bal', paid) ->
  0 <= pay_total paid <= g_distributed g' - g_distributed g /\
  g_distributed g' - g_distributed g <= (if g_triggered g' =? g_triggered g then 0 else epoch_allocation g) /\
  (g_triggered g' <> g_triggered g ->
     g_triggered g' = g_triggered g + 1 /\ epoch_allocation g <= g_deposit g - g_distributed g /\
     g_triggered g <> g_total g /\ g_active g = true /\ g_start g <= now) /\
  bal' = bal - pay_total paid /\ (0 <= bal -> 0 <= bal') /\ g_deposit g' = g_deposit g /\ g_total g' = g_total g.
Proof.
  intros now calc bal g g' bal' paid E.
  pose proof (trigger_spec _ _ _ _ _ _ _ E) as (D1 & D2 & D3 & D4 & D5 & D6 & D7). cbv zeta in *.
  destruct D7 as (P1 & P2 & P3 & [(A & B & C)|(A & B & C & D & F)]).
  - rewrite A, Z.eqb_refl. repeat split; try lia.
  - destruct (Z.eqb_spec (g_triggered g') (g_triggered g)); [lia|]. repeat split; try lia; tauto.
Qed.

Lemma epoch_cap_swapfee : forall calc recv bal g g' bal' paid,
  g_swap g = true -> 0 <= g_deposit g -> trigger_swap calc recv bal g = Ok (g', bal', paid) ->
  let d := g_distributed g' - g_distributed g in
  0 <= pay_total paid <= d /\ d <= g_deposit g /\ bal' = bal - pay_total paid + (g_deposit g' - (g_deposit g - d)) /\
  ((g' = g /\ paid = []) \/
   (is_ok recv = false /\ g_triggered g' = g_triggered g /\ g_deposit g' = g_deposit g - d) \/
   (exists r, recv = Ok r /\ g_triggered g' = g_triggered g + 1 /\ g_deposit g' = g_deposit g - d + r)).
Proof.
  intros calc recv bal g g' bal' paid Hs Hd E. cbv zeta.
  apply trigger_swap_spec in E.
  destruct E as [(-> & -> & ->)|[(tot & Hr & -> & C & D & B & B')|(tot & r & -> & -> & C & D & F & G & G')]].
  - unfold pay_total. cbn [map zsum]. split; [lia|]. split; [lia|]. split; [lia|]. left. auto.
  - cbn [g_booked g_distributed g_deposit g_triggered]. split; [lia|]. split; [lia|]. split; [lia|].
    right. left. split; [assumption|]. split; [reflexivity|lia].
  - cbn [g_swap_paid g_distributed g_deposit g_triggered]. split; [lia|]. split; [lia|]. split; [lia|].
    right. right. exists r. split; [reflexivity|]. split; [reflexivity|lia].
Qed.

Lemma cumulative_all : forall ops g, In g (r_gauges (rrun rinit ops)) -> g_swap g = false ->
  0 <= g_distributed g <= g_deposit g.
Proof.
  intros ops g Hin Hs. pose proof (rrun_ginvr ops rinit ltac:(constructor)) as HG.
  rewrite Forall_forall in HG. exact (HG g Hin Hs).
Qed.

(* class C19-F4 witness: 1 000 000 of a reward token priced 2.0, one day, one borrower: 2 000 000 are paid *)
Lemma custody_lend_refuted : exists ops d, forallb op_wf ops = true /\ run_clean rinit ops = false /\
  let s := rrun rinit ops in
  r_bal s d < owed_g d (r_gauges s) /\ holds_C19_custody d (r_bal s d) (r_gauges s) (r_exts s) = false.
Proof.
  exists [ExtCreate 2 1 1000000 1 1 0 1000000 true; Create 1 5000000 3 500000 0 86400 5000000 true;
          Begin 90000 (mkBenv4 [FarmErr] [] [] [mkLenv true [(1, 50000000000000000000)] (Some (2000000, 1000000))])], 1.
  vm_compute. repeat split.
Qed.
