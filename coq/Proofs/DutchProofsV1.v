(* C10, generation 1: the price update of x/auction is the same arithmetic as generation 2's, so the
   price clauses carry over. *)
From Comdex Require Import Lib.Base Lib.DecArith Lib.DecFacts Model.DutchV1 Model.DutchV2 Proofs.DutchProofsPrice.

Lemma v1_posted_eq top cusp dur t :
  fits_dec (dmul top cusp) = true ->
  v1_posted_price top (v1_end_price top cusp) dur t = posted_price top cusp dur t.
Proof.
  intros Hf. assert (E : dmul_c top cusp = Some (dmul top cusp)) by (unfold dmul_c, chk_dec; rewrite Hf; reflexivity).
  unfold v1_posted_price, posted_price, tau_of, tau_dec, v1_end_price, v1_price_at_c, price_at_c. rewrite E.
  destruct (dmul_c top (dec_of_int dur)); [|reflexivity].
  destruct (dsub_c top (dmul top cusp)); [|reflexivity].
  destruct (dquo_c z z0); [|reflexivity].
  destruct (int64_c (dtrunc_int z1)); reflexivity.
Qed.

Lemma v1_posted_monotone top cusp dur t1 t2 p1 p2 :
  fits_dec (dmul top cusp) = true ->
  0 <= v1_end_price top cusp < top -> 0 <= dur -> 0 <= t1 -> t1 <= t2 -> t2 <= dur ->
  v1_posted_price top (v1_end_price top cusp) dur t1 = Some p1 ->
  v1_posted_price top (v1_end_price top cusp) dur t2 = Some p2 ->
  p2 <= p1 /\ p1 <= top /\ 0 <= p2.
Proof.
  intros Hf He Hd H0 H12 H2. rewrite !v1_posted_eq by assumption. intros E1 E2.
  destruct (posted_monotone top cusp dur t1 t2 p1 p2 He Hd H0 H12 H2 E1 E2) as (A & B & C & _). auto.
Qed.

Lemma v1_end_price_refuted : exists top cusp dur p,
  0 <= v1_end_price top cusp < top /\ 0 < dur /\
  v1_posted_price top (v1_end_price top cusp) dur dur = Some p /\ p < v1_end_price top cusp.
Proof.
  exists 1200000000000000000000000, 700000000000000000, 10, 836363636363636363636364.
  vm_compute. repeat split; congruence.
Qed.
