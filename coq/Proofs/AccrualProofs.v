(* Proofs for Model/Accrual.v (C18 accrual part). *)
From Comdex Require Import Lib.Base Lib.DecArith Lib.DecFacts Lib.DecFacts3 Lib.F64 Model.Accrual.
From Coq Require Import ZifyBool.

Lemma SPY_pos : 0 < SECONDS_PER_YEAR. Proof. reflexivity. Qed.
Global Opaque SECONDS_PER_YEAR.

(* ---------------- years ---------------- *)
Lemma years_div t : 0 <= t -> years_elapsed t = (t * P18) / SECONDS_PER_YEAR.
Proof.
  intros. pose proof SPY_pos. dec_consts. unfold years_elapsed, dquo_int, dec_of_int.
  apply Z.quot_div_nonneg; nia.
Qed.
Lemma years_nonneg t : 0 <= t -> 0 <= years_elapsed t.
Proof. intros. pose proof SPY_pos. dec_consts. rewrite years_div by lia. apply Z.div_pos; nia. Qed.
Lemma years_zero : years_elapsed 0 = 0.
Proof. unfold years_elapsed, dquo_int, dec_of_int. rewrite Z.mul_0_l. apply Z.quot_0_l. pose proof SPY_pos; lia. Qed.
Lemma years_mono t t' : 0 <= t -> t <= t' -> years_elapsed t <= years_elapsed t'.
Proof. intros. pose proof SPY_pos. dec_consts. rewrite !years_div by lia. apply Z.div_le_mono; nia. Qed.
Lemma years_superadd t1 t2 : 0 <= t1 -> 0 <= t2 ->
  years_elapsed t1 + years_elapsed t2 <= years_elapsed (t1 + t2).
Proof.
  intros. pose proof SPY_pos as HY. dec_consts. rewrite !years_div by lia.
  set (Y := SECONDS_PER_YEAR) in *.
  pose proof (Z.div_mod (t1 * P18) Y ltac:(lia)). pose proof (Z.mod_pos_bound (t1 * P18) Y HY).
  pose proof (Z.div_mod (t2 * P18) Y ltac:(lia)). pose proof (Z.mod_pos_bound (t2 * P18) Y HY).
  apply Z.div_le_lower_bound; [lia|]. nia.
Qed.

(* ---------------- the checked function returns the unchecked values ---------------- *)
Lemma index_accrual_spec amt rate gi secs new igc :
  index_accrual amt rate gi secs = Some (new, igc) ->
  gi <> 0 /\ new = index_new amt rate gi secs /\ igc = index_next rate gi secs.
Proof.
  unfold index_accrual, obind2.
  destruct (dmul_c rate _) as [eff|] eqn:E1; [|discriminate]. apply dmul_c_some in E1.
  destruct (dadd_c P18 eff) as [f1|] eqn:E2; [|discriminate]. apply dadd_c_some in E2.
  destruct (dmul_c gi f1) as [ig|] eqn:E3; [|discriminate]. apply dmul_c_some in E3.
  destruct (dquo_c ig gi) as [f2|] eqn:E4; [|discriminate]. apply dquo_c_some in E4 as [Hgi E4].
  destruct (dmul_c _ f2) as [liab|] eqn:E5; [|discriminate]. apply dmul_c_some in E5.
  destruct (dsub_c liab _) as [nw|] eqn:E6; [|discriminate]. apply dsub_c_some in E6.
  intros H. injection H as <- <-. subst. unfold index_new, index_factor, index_next. auto.
Qed.

Lemma lend_reward_spec now last amt rate gi new igc :
  lend_reward now last amt rate gi = Ok (new, igc) ->
  0 <= lend_secs now last /\ gi <> 0 /\
  new = index_new amt rate gi (lend_secs now last) /\ igc = index_next rate gi (lend_secs now last).
Proof.
  unfold lend_reward. destruct (Z.ltb_spec (lend_secs now last) 0); [discriminate|].
  destruct (index_accrual _ _ _ _) as [[n i]|] eqn:E; [|discriminate].
  intros HH. injection HH as <- <-. apply index_accrual_spec in E. tauto.
Qed.

(* ---------------- the index factor ---------------- *)
Lemma index_new_eq amt rate gi secs :
  index_new amt rate gi secs = amt * (index_factor rate gi secs - P18).
Proof. unfold index_new. rewrite dmul_int_exact. unfold dec_of_int. lia. Qed.

Lemma eff_nonneg rate secs : 0 <= rate -> 0 <= secs -> 0 <= dmul rate (years_elapsed secs).
Proof. intros. apply dmul_nonneg; [lia|apply years_nonneg; lia]. Qed.

Lemma index_next_ge rate gi secs : 0 <= rate -> 0 < gi -> 0 <= secs -> gi <= index_next rate gi secs.
Proof. intros. unfold index_next. apply dmul_ge_r; [lia|]. pose proof (eff_nonneg rate secs ltac:(lia) ltac:(lia)); lia. Qed.

Lemma index_factor_ge_one rate gi secs : 0 <= rate -> 0 < gi -> 0 <= secs ->
  P18 <= index_factor rate gi secs.
Proof. intros. unfold index_factor. apply dquo_ge_one; [lia|]. apply index_next_ge; lia. Qed.

Lemma index_factor_zero rate gi : 0 < gi -> index_factor rate gi 0 = P18.
Proof.
  intros. unfold index_factor. rewrite years_zero, dmul_zero_r, Z.add_0_r, dmul_one. apply dquo_self; lia.
Qed.

Lemma index_factor_mono rate rate' gi secs secs' :
  0 <= rate -> rate <= rate' -> 0 < gi -> 0 <= secs -> secs <= secs' ->
  index_factor rate gi secs <= index_factor rate' gi secs'.
Proof.
  intros. unfold index_factor. dec_consts.
  pose proof (years_nonneg secs ltac:(lia)). pose proof (years_mono secs secs' ltac:(lia) ltac:(lia)).
  assert (dmul rate (years_elapsed secs) <= dmul rate' (years_elapsed secs')).
  { transitivity (dmul rate (years_elapsed secs')); [apply dmul_mono_r; lia|apply dmul_mono_l; lia]. }
  pose proof (eff_nonneg rate secs ltac:(lia) ltac:(lia)).
  apply dquo_mono_l; [apply dmul_nonneg; lia| |lia]. apply dmul_mono_r; lia.
Qed.

(* ---------------- (i) the index-accrual clauses ---------------- *)
Lemma idx_nonneg amt rate gi secs : 0 <= amt -> 0 <= rate -> 0 < gi -> 0 <= secs ->
  0 <= index_new amt rate gi secs.
Proof. intros. rewrite index_new_eq. pose proof (index_factor_ge_one rate gi secs). nia. Qed.

Lemma idx_zero_time amt rate gi : 0 < gi -> index_new amt rate gi 0 = 0.
Proof. intros. rewrite index_new_eq, index_factor_zero by lia. lia. Qed.

Lemma idx_monotone amt amt' rate rate' gi secs secs' :
  0 <= amt -> amt <= amt' -> 0 <= rate -> rate <= rate' -> 0 < gi -> 0 <= secs -> secs <= secs' ->
  index_new amt rate gi secs <= index_new amt' rate' gi secs'.
Proof.
  intros. rewrite !index_new_eq.
  pose proof (index_factor_ge_one rate gi secs ltac:(lia) ltac:(lia) ltac:(lia)).
  pose proof (index_factor_mono rate rate' gi secs secs' ltac:(lia) ltac:(lia) ltac:(lia) ltac:(lia) ltac:(lia)).
  nia.
Qed.

(* effective rates over consecutive intervals *)
Lemma eff_subadd rate t1 t2 : 0 <= rate -> 0 <= t1 -> 0 <= t2 ->
  dmul rate (years_elapsed t1) + dmul rate (years_elapsed t2) <= dmul rate (years_elapsed (t1 + t2)) + 1.
Proof.
  intros. dec_consts.
  pose proof (years_superadd t1 t2 ltac:(lia) ltac:(lia)).
  pose proof (years_nonneg t1 ltac:(lia)). pose proof (years_nonneg t2 ltac:(lia)).
  pose proof (dmul_bounds rate (years_elapsed t1)). pose proof (dmul_bounds rate (years_elapsed t2)).
  pose proof (dmul_bounds rate (years_elapsed (t1 + t2))).
  set (y1 := years_elapsed t1) in *. set (y2 := years_elapsed t2) in *. set (y12 := years_elapsed (t1 + t2)) in *.
  set (e1 := dmul rate y1) in *. set (e2 := dmul rate y2) in *. set (e12 := dmul rate y12) in *.
  assert (rate * (y1 + y2) <= rate * y12) by nia.
  nia.
Qed.

(* two consecutive accruals on the same principal (any positive indices, in particular the
   index stored after the first accrual) against one accrual over the combined interval *)
Lemma idx_subadditive amt rate gi1 gi2 gi12 t1 t2 :
  0 <= amt -> 0 <= rate -> 0 < gi1 -> 0 < gi2 -> 0 < gi12 -> 0 <= t1 -> 0 <= t2 ->
  index_new amt rate gi1 t1 + index_new amt rate gi2 t2
    <= index_new amt rate gi12 (t1 + t2) + idx_slack amt gi1 gi2 gi12.
Proof.
  intros Ha Hr H1 H2 H12 Ht1 Ht2. rewrite !index_new_eq. unfold idx_slack, index_factor.
  pose proof (eff_subadd rate t1 t2 Hr Ht1 Ht2) as He.
  pose proof (eff_nonneg rate t1 Hr Ht1). pose proof (eff_nonneg rate t2 Hr Ht2).
  pose proof (eff_nonneg rate (t1 + t2) Hr ltac:(lia)).
  set (e1 := dmul rate (years_elapsed t1)) in *. set (e2 := dmul rate (years_elapsed t2)) in *.
  set (e12 := dmul rate (years_elapsed (t1 + t2))) in *.
  dec_consts.
  pose proof (dquo_dmul_cancel gi1 (P18 + e1) H1 ltac:(lia)) as [A1 _].
  pose proof (dquo_dmul_cancel gi2 (P18 + e2) H2 ltac:(lia)) as [A2 _].
  pose proof (dquo_dmul_cancel gi12 (P18 + e12) H12 ltac:(lia)) as [_ A12].
  cbv zeta in *.
  set (F1 := dquo (dmul gi1 (P18 + e1)) gi1) in *. set (F2 := dquo (dmul gi2 (P18 + e2)) gi2) in *.
  set (F12 := dquo (dmul gi12 (P18 + e12)) gi12) in *.
  assert (0 <= HALF18 / gi1) by (apply Z.div_pos; lia).
  assert (0 <= HALF18 / gi2) by (apply Z.div_pos; lia).
  assert (0 <= HALF18 / gi12) by (apply Z.div_pos; lia).
  nia.
Qed.

(* ---------------- stable interest ---------------- *)
Lemma stable_new_eq amt perc secs : stable_new amt perc secs = dmul (amt * perc) (years_elapsed secs).
Proof. unfold stable_new. rewrite dmul_int_exact. reflexivity. Qed.

Lemma stable_interest_spec now last amt perc r :
  stable_interest now last amt perc = Ok r ->
  0 <= lend_secs now last /\ r = stable_new amt perc (lend_secs now last).
Proof.
  unfold stable_interest. destruct (Z.ltb_spec (lend_secs now last) 0); [discriminate|].
  unfold obind2. destruct (dmul_c (dec_of_int amt) perc) as [x|] eqn:E1; [|discriminate].
  apply dmul_c_some in E1. destruct (dmul_c x _) as [y|] eqn:E2; [|discriminate]. apply dmul_c_some in E2.
  intros Hr. injection Hr as <-. subst. split; [lia|reflexivity].
Qed.

Lemma stable_nonneg amt perc secs : 0 <= amt -> 0 <= perc -> 0 <= secs -> 0 <= stable_new amt perc secs.
Proof. intros. rewrite stable_new_eq. apply dmul_nonneg; [nia|apply years_nonneg; lia]. Qed.
Lemma stable_zero_time amt perc : stable_new amt perc 0 = 0.
Proof. rewrite stable_new_eq, years_zero. apply dmul_zero_r. Qed.
Lemma stable_monotone amt amt' perc perc' secs secs' :
  0 <= amt -> amt <= amt' -> 0 <= perc -> perc <= perc' -> 0 <= secs -> secs <= secs' ->
  stable_new amt perc secs <= stable_new amt' perc' secs'.
Proof.
  intros. rewrite !stable_new_eq.
  pose proof (years_nonneg secs ltac:(lia)). pose proof (years_mono secs secs' ltac:(lia) ltac:(lia)).
  transitivity (dmul (amt * perc) (years_elapsed secs')); [apply dmul_mono_r; nia|apply dmul_mono_l; nia].
Qed.
Lemma stable_subadditive amt perc t1 t2 : 0 <= amt -> 0 <= perc -> 0 <= t1 -> 0 <= t2 ->
  stable_new amt perc t1 + stable_new amt perc t2 <= stable_new amt perc (t1 + t2) + 1.
Proof.
  intros. rewrite !stable_new_eq. dec_consts.
  pose proof (years_superadd t1 t2 ltac:(lia) ltac:(lia)).
  pose proof (years_nonneg t1 ltac:(lia)). pose proof (years_nonneg t2 ltac:(lia)).
  pose proof (dmul_bounds (amt * perc) (years_elapsed t1)). pose proof (dmul_bounds (amt * perc) (years_elapsed t2)).
  pose proof (dmul_bounds (amt * perc) (years_elapsed (t1 + t2))).
  set (y1 := years_elapsed t1) in *. set (y2 := years_elapsed t2) in *. set (y12 := years_elapsed (t1 + t2)) in *.
  set (k := amt * perc) in *. assert (0 <= k) by (unfold k; nia).
  assert (k * (y1 + y2) <= k * y12) by nia. nia.
Qed.

(* ---------------- tracker carry ---------------- *)
Lemma carry_step_spec acc x : 0 <= acc -> 0 <= x ->
  let '(p, acc') := carry_step acc x in
  p * P18 + acc' = acc + x /\ 0 <= p /\ 0 <= acc' < P18 /\ p = (acc + x) / P18.
Proof.
  intros Ha Hx. dec_consts. unfold carry_step, dadd, dsub, dtrunc_int, dec_of_int.
  destruct (Z.leb_spec P18 (acc + x)).
  - rewrite Z.quot_div_nonneg by lia.
    pose proof (Z.div_mod (acc + x) P18 ltac:(lia)). pose proof (Z.mod_pos_bound (acc + x) P18 ltac:(lia)).
    assert (0 <= (acc + x) / P18) by (apply Z.div_pos; lia). repeat split; nia.
  - repeat split; try lia. symmetry. apply Z.div_small. lia.
Qed.

Lemma carry_run_gen xs : forall paid0 acc0, 0 <= acc0 < P18 -> Forall (fun x => 0 <= x) xs ->
  let '(paid, acc) := fold_left (fun st x => let '(paid, acc) := st in
                         let '(p, acc') := carry_step acc x in (paid + p, acc')) xs (paid0, acc0) in
  paid * P18 + acc = paid0 * P18 + acc0 + zsum xs /\ 0 <= acc < P18 /\ paid0 <= paid.
Proof.
  induction xs as [|x xs IH]; intros paid0 acc0 Hacc Hxs; cbn [fold_left zsum].
  - lia.
  - inversion Hxs as [|? ? Hx Hxs']; subst.
    pose proof (carry_step_spec acc0 x ltac:(lia) Hx) as S. destruct (carry_step acc0 x) as [p acc'].
    destruct S as (S1 & S2 & S3 & _).
    specialize (IH (paid0 + p) acc' S3 Hxs').
    destruct (fold_left _ xs (paid0 + p, acc')) as [paid acc]. nia.
Qed.

Lemma carry_run_spec acc0 xs : 0 <= acc0 < P18 -> Forall (fun x => 0 <= x) xs ->
  let '(paid, acc) := carry_run acc0 xs in
  paid * P18 + acc = acc0 + zsum xs /\ 0 <= acc < P18 /\ paid = (acc0 + zsum xs) / P18.
Proof.
  intros Ha Hx. unfold carry_run. pose proof (carry_run_gen xs 0 acc0 Ha Hx) as G.
  destruct (fold_left _ xs (0, acc0)) as [paid acc]. destruct G as (G1 & G2 & G3).
  dec_consts. split; [lia|]. split; [lia|].
  apply (Z.div_unique_pos _ _ paid acc); lia.
Qed.

(* ---------------- (iii) compound accrual through float64 ---------------- *)
Section Compound.
  Variable pow : Z -> Z -> Z.
  (* the hypotheses on Go's math.Pow (amd64): TESTED by the harness on every evaluated point and
     on neighbouring pairs, not proved *)
  Hypothesis H1 : forall x y, F_ONE <= x -> 0 <= y -> F_ONE <= pow x y.
  Hypothesis H2 : forall x, pow x 0 = F_ONE.
  Hypothesis H3 : forall x x' y y', F_ONE <= x -> x <= x' -> 0 <= y -> y <= y' -> pow x y <= pow x' y'.

  Lemma cmp_x_ge lsr : 0 <= lsr -> F_ONE <= cmp_x lsr.
  Proof.
    intros. unfold cmp_x. rewrite <- to64_one. apply to64_mono.
    change P18f with P18. lia.
  Qed.
  Lemma cmp_y_ge secs : 0 <= secs -> 0 <= cmp_y secs.
  Proof. intros. unfold cmp_y. apply to64_nonneg. apply years_nonneg; lia. Qed.
  Lemma cmp_amtf_ge amt : 0 <= amt -> 0 <= cmp_amtf amt.
  Proof. intros. unfold cmp_amtf. apply to64_nonneg. dec_consts. unfold dec_of_int. nia. Qed.

  Lemma after_pow_nonneg f amtf : F_ONE <= f -> 0 <= amtf -> 0 <= cmp_after_pow f amtf.
  Proof.
    intros. pose proof F_ONE_pos. unfold cmp_after_pow. apply fmt18_nonneg.
    unfold mul64. apply rnd64_nonneg; [|nia].
    assert (0 <= sub64 f F_ONE) by (unfold sub64; apply rnd64_nonneg; lia). nia.
  Qed.

  Lemma after_pow_mono f f' a a' : F_ONE <= f -> f <= f' -> 0 <= a -> a <= a' ->
    cmp_after_pow f a <= cmp_after_pow f' a'.
  Proof.
    intros. pose proof F_ONE_pos. unfold cmp_after_pow.
    assert (0 <= sub64 f F_ONE) by (unfold sub64; apply rnd64_nonneg; lia).
    assert (sub64 f F_ONE <= sub64 f' F_ONE) by (unfold sub64; apply rnd64_mono; lia).
    apply fmt18_mono.
    - unfold mul64. apply rnd64_nonneg; nia.
    - unfold mul64. apply rnd64_mono; nia.
  Qed.

  Lemma cmp_nonneg amt lsr secs : 0 <= amt -> 0 <= lsr -> 0 <= secs -> 0 <= cmp_new pow amt lsr secs.
  Proof.
    intros. unfold cmp_new. apply after_pow_nonneg; [|apply cmp_amtf_ge; lia].
    apply H1; [apply cmp_x_ge; lia|apply cmp_y_ge; lia].
  Qed.

  Lemma cmp_zero_time amt lsr : cmp_new pow amt lsr 0 = 0.
  Proof.
    unfold cmp_new, cmp_y. rewrite years_zero, to64_zero, H2. unfold cmp_after_pow, sub64.
    rewrite Z.sub_diag, rnd64_zero by apply F_ONE_pos. unfold mul64. rewrite Z.mul_0_l.
    rewrite rnd64_zero; [reflexivity|]. pose proof F_ONE_pos; nia.
  Qed.

  Lemma cmp_monotone amt amt' lsr lsr' secs secs' :
    0 <= amt -> amt <= amt' -> 0 <= lsr -> lsr <= lsr' -> 0 <= secs -> secs <= secs' ->
    cmp_new pow amt lsr secs <= cmp_new pow amt' lsr' secs'.
  Proof.
    intros. unfold cmp_new. apply after_pow_mono.
    - apply H1; [apply cmp_x_ge; lia|apply cmp_y_ge; lia].
    - apply H3; [apply cmp_x_ge; lia| | apply cmp_y_ge; lia|].
      + unfold cmp_x. apply to64_mono. lia.
      + unfold cmp_y. apply to64_mono. apply years_mono; lia.
    - apply cmp_amtf_ge; lia.
    - unfold cmp_amtf. apply to64_mono. dec_consts. unfold dec_of_int. nia.
  Qed.

  Lemma calc_spec now btime amt lsr r :
    calculation_of_rewards pow now btime amt lsr = Ok r ->
    0 <= now - btime /\ r = cmp_new pow amt lsr (now - btime).
  Proof.
    unfold calculation_of_rewards. destruct (Z.ltb_spec (now - btime) 0); [discriminate|].
    unfold int64_c. destruct (_ && _); [|discriminate].
    destruct (negb _); [discriminate|]. destruct (fits_dec _); [|discriminate].
    intros E. injection E as <-. split; [lia|reflexivity].
  Qed.
End Compound.

(* exact core of the compound-accrual subadditivity: (a-1) + (b-1) <= ab - 1 for a, b >= 1, and
   pow x y1 * pow x y2 <= (1 + en/2^53) * pow x y12  (H4, tested)  give
   (f1 - 1) + (f2 - 1) <= (f12 - 1) + en/2^53 * f12   on the float values, before the two float
   roundings (f - 1, * amount) and the 18-decimal formatting *)
Lemma cmp_core_subadd en f1 f2 f12 : F_ONE <= f1 -> F_ONE <= f2 ->
  h4_ok en f1 f2 f12 = true ->
  ((f1 - F_ONE) + (f2 - F_ONE)) * F_P53 <= (f12 - F_ONE) * F_P53 + en * f12.
Proof.
  intros A B H. unfold h4_ok in H. pose proof F_ONE_pos. pose proof F_P53_pos.
  assert (E : f1 * f2 * F_P53 <= (F_P53 + en) * f12 * F_ONE) by lia.
  assert (((f1 - F_ONE) + (f2 - F_ONE)) * F_ONE <= f1 * f2 - F_ONE * F_ONE) by nia.
  assert (((f1 - F_ONE) + (f2 - F_ONE)) * F_ONE * F_P53 <= ((F_P53 + en) * f12 - F_ONE * F_P53) * F_ONE) by nia.
  nia.
Qed.
