(* Tie (C), C18: size facts used by Properties/TieC18.v (independent of Gen/PureFuns.v). *)
From Comdex Require Import Lib.Base Lib.DecArith Lib.GoSem Model.Rates Proofs.PureFunsLemmas.

Lemma two63_lt_two256 : 9223372036854775808 < two256. Proof. vm_compute. reflexivity. Qed.
Lemma int64_dec_sum_lt : (9223372036854775808 * P18) + (9223372036854775808 * P18) < two315.
Proof. vm_compute. reflexivity. Qed.

Lemma int64_c_some : forall x y,
  int64_c x = Some y -> y = x /\ -9223372036854775808 <= x <= 9223372036854775807.
Proof. unfold int64_c; intros x y H. destruct (_ && _) eqn:E; inversion H; subst. split; [reflexivity|lia]. Qed.

(* an Int that does not fit 256 bits is not an int64 either: Int.Add's overflow panic and the
   Int64() panic the model has are the same observable (the call panics) *)
Lemma not_fits_int_int64 : forall x, fits_int x = false -> int64_c x = None.
Proof.
  unfold fits_int, int64_c; intros x H. pose proof two63_lt_two256.
  destruct (_ && _) eqn:E; [|reflexivity]. exfalso. lia.
Qed.

(* NewDec(int64).Add(NewDec(int64)) cannot exceed 315 bits *)
Lemma int64_dec_add_fits : forall a b,
  -9223372036854775808 <= a <= 9223372036854775807 -> -9223372036854775808 <= b <= 9223372036854775807 ->
  fits_dec (dec_of_int a + dec_of_int b) = true.
Proof.
  intros a b Ha Hb. unfold fits_dec, dec_of_int. pose proof int64_dec_sum_lt as K.
  assert (0 < P18) by (vm_compute; reflexivity).
  apply Z.ltb_lt. nia.
Qed.

(* (value, nil) *)
Definition pair0 (o : option Z) : option (Z * Z) := option_map (fun v => (v, 0)) o.
