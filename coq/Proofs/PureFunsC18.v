(* Tie (C) for C18: the part of Model/AccrualSites.borrow_rates that UpdateAPR computes. *)
From Comdex Require Import Lib.Base Lib.DecArith Model.Rates.

(* what UpdateAPR computes besides copying the statistics: the two borrow APRs (the lend APR and the
   utilisation are computed as well: a panic in any of the four propagates) *)
Definition aprs (p : rate_params) (mb tb tsb : Z) : option (Z * Z * Z) :=
  obindr (utilisation mb (tb + tsb)) (fun u =>
  obindr (lend_apr_p p u) (fun _ =>
  obindr (borrow_apr p false u) (fun b =>
  obindr (borrow_apr p true u) (fun sb => Some (b, sb, u))))).

