(* C01 / C02 invariants of the vault books: preserved by every [effect] (Proofs/VaultProofs.v),
   hence by every successful message (Proofs/VaultHandlers.v), hence along every finite history. *)
From Comdex Require Import Lib.Base Lib.DecArith Lib.DecFacts Lib.Atomic Model.Vault Proofs.VaultProofs Proofs.VaultExec Proofs.VaultHandlers.
From Coq Require Import ZifyBool Sorted.

Record Inv01 (c : cfg) (s : state) : Prop := mkInv01 {
  (* (a) custody of every denom = recorded collateral of that denom + unsolicited coins *)
  i_custody : forall d, bal s VAULT d = coll_sum c s d + unsol s d;
  (* (b) LengthOfVault = number of open vaults *)
  i_count : vlen s = zlen (vaults s);
  (* (c) published totals and id list of every product = sums / ids over its records *)
  i_prod : forall a p, pcoll s a p = prod_coll_sum s a p /\ pmint s a p = prod_mint_sum s a p /\ pids s a p = prod_ids s a p;
  (* auxiliary: ids ascending and below the id counters, a product is either CDP or stable-mint *)
  i_sorted_v : StronglySorted Z.lt (map v_id (vaults s));
  i_sorted_sv : StronglySorted Z.lt (map sv_id (svaults s));
  i_vid : Forall (fun v => v_id v <= vid s) (vaults s);
  i_sid : Forall (fun x => sv_id x <= sid s) (svaults s);
  i_kind_v : forall v, In v (vaults s) -> exists ep, get_ep c (v_pair v) = Some ep /\ ep_stable ep = false;
  i_kind_sv : forall x, In x (svaults s) -> exists ep, get_ep c (sv_pair x) = Some ep /\ ep_stable ep = true;
  i_wf : VWf s
}.

(* ---------- generic facts ---------- *)
Lemma zlen_app {A} (l1 l2 : list A) : zlen (l1 ++ l2) = zlen l1 + zlen l2.
Proof. unfold zlen. rewrite app_length. lia. Qed.

Lemma gput_found_len {A} (key : A -> Z) l v v0 : gfind key l (key v) = Some v0 -> zlen (gput key l v) = zlen l.
Proof.
  unfold zlen. induction l as [|x l IH]; cbn [gfind gput]; [discriminate|].
  destruct (Z.eqb_spec (key x) (key v)); intros H; cbn [length]; [reflexivity|]. specialize (IH H). lia.
Qed.

Lemma fresh_v s v : Forall (fun w => v_id w <= vid s) (vaults s) -> v_id v = vid s + 1 -> find_v (vaults s) (v_id v) = None.
Proof.
  intros HF Hv. apply (gfind_notin v_id). intros Hin. apply in_map_iff in Hin. destruct Hin as (w & Hw & Hin).
  rewrite Forall_forall in HF. specialize (HF _ Hin). lia.
Qed.
Lemma fresh_sv s x : Forall (fun w => sv_id w <= sid s) (svaults s) -> sv_id x = sid s + 1 -> find_sv (svaults s) (sv_id x) = None.
Proof.
  intros HF Hv. apply (gfind_notin sv_id). intros Hin. apply in_map_iff in Hin. destruct Hin as (w & Hw & Hin).
  rewrite Forall_forall in HF. specialize (HF _ Hin). lia.
Qed.

(* how a weighted sum over the two record lists moves with the touched record *)
Definition bc_delta (wv : vault -> Z) (wx : svault -> Z) bc : Z :=
  match bc with
  | BNone => 0 | BUpd v0 v1 => wv v1 - wv v0 | BNew v => wv v | BDel v0 => - wv v0
  | SUpd x0 x1 => wx x1 - wx x0 | SNew x => wx x end.

Lemma bc_wsum c s bc wv wx : Inv01 c s -> bc_pre c s bc ->
  wsum wv (bc_vaults bc (vaults s)) + wsum wx (bc_svaults bc (svaults s)) =
  wsum wv (vaults s) + wsum wx (svaults s) + bc_delta wv wx bc.
Proof.
  intros I Hpre. destruct bc as [|v0 v1|v|v0|x0 x1|x]; cbn [bc_vaults bc_svaults bc_delta bc_pre] in *.
  - lia.
  - destruct Hpre as (Hf & Hid & _). unfold put_v. rewrite (gput_found_wsum v_id wv _ v1 v0); [lia|].
    rewrite Hid. exact Hf.
  - destruct Hpre as (Hid & _). unfold put_v. rewrite gput_new by (apply fresh_v; [apply (i_vid _ _ I)|exact Hid]).
    rewrite wsum_app, wsum_cons, wsum_nil. lia.
  - unfold del_v. rewrite (gdel_wsum v_id wv _ _ v0 Hpre). lia.
  - destruct Hpre as (Hf & Hid & _). unfold put_sv. rewrite (gput_found_wsum sv_id wx _ x1 x0); [lia|].
    rewrite Hid. exact Hf.
  - destruct Hpre as (Hid & _). unfold put_sv. rewrite gput_new by (apply fresh_sv; [apply (i_sid _ _ I)|exact Hid]).
    rewrite wsum_app, wsum_cons, wsum_nil. lia.
Qed.

(* a CDP vault and a stable-mint vault never share an extended pair *)
Lemma kind_sep c p epv epx : get_ep c p = Some epv -> ep_stable epv = false -> get_ep c p = Some epx -> ep_stable epx = true -> False.
Proof. intros H1 H2 H3 H4. congruence. Qed.

Lemma no_sv_in_cdp c s a p : Inv01 c s -> (exists ep, get_ep c p = Some ep /\ ep_stable ep = false) ->
  filter (sinprod a p) (svaults s) = [].
Proof.
  intros I (ep & He & Hs). destruct (filter _ _) as [|x r] eqn:F; [reflexivity|exfalso].
  assert (Hin : In x (filter (sinprod a p) (svaults s))) by (rewrite F; left; reflexivity).
  apply filter_In in Hin. destruct Hin as [Hin Hp]. unfold sinprod in Hp. apply andb_true_iff in Hp. destruct Hp as [_ Hp].
  apply Z.eqb_eq in Hp. destruct (i_kind_sv _ _ I _ Hin) as (epx & Hx & Hsx). rewrite Hp in Hx. exact (kind_sep _ _ _ _ He Hs Hx Hsx).
Qed.

Lemma no_v_in_stable c s a p : Inv01 c s -> (exists ep, get_ep c p = Some ep /\ ep_stable ep = true) ->
  filter (inprod a p) (vaults s) = [].
Proof.
  intros I (ep & He & Hs). destruct (filter _ _) as [|x r] eqn:F; [reflexivity|exfalso].
  assert (Hin : In x (filter (inprod a p) (vaults s))) by (rewrite F; left; reflexivity).
  apply filter_In in Hin. destruct Hin as [Hin Hp]. unfold inprod in Hp. apply andb_true_iff in Hp. destruct Hp as [_ Hp].
  apply Z.eqb_eq in Hp. destruct (i_kind_v _ _ I _ Hin) as (epx & Hx & Hsx). rewrite Hp in Hx. exact (kind_sep _ _ _ _ Hx Hsx He Hs).
Qed.

Lemma prod_ids_sorted c s a p : Inv01 c s -> StronglySorted Z.lt (prod_ids s a p).
Proof.
  intros I. unfold prod_ids.
  destruct (filter (inprod a p) (vaults s)) as [|v r] eqn:F.
  - cbn [map app]. apply sorted_filter_map. apply (i_sorted_sv _ _ I).
  - assert (Hin : In v (filter (inprod a p) (vaults s))) by (rewrite F; left; reflexivity).
    apply filter_In in Hin. destruct Hin as [Hin Hp]. unfold inprod in Hp. apply andb_true_iff in Hp. destruct Hp as [_ Hp].
    apply Z.eqb_eq in Hp. rewrite (no_sv_in_cdp c s a p I).
    + change (map sv_id []) with (@nil Z). rewrite app_nil_r. rewrite <- F. apply sorted_filter_map. apply (i_sorted_v _ _ I).
    + rewrite <- Hp. apply (i_kind_v _ _ I _ Hin).
Qed.

Lemma filter_app_single {A} (P : A -> bool) l v : filter P (l ++ [v]) = filter P l ++ (if P v then [v] else []).
Proof. rewrite filter_app. reflexivity. Qed.

Lemma touched_inprod bc a p v : bc_app bc = v_app v -> bc_pair bc = v_pair v -> bc <> BNone -> touched bc a p = inprod a p v.
Proof.
  intros Ha Hp Hn. unfold touched, inprod. destruct bc; try congruence; rewrite Ha, Hp;
    rewrite (Z.eqb_sym a), (Z.eqb_sym p); reflexivity.
Qed.
Lemma touched_sinprod bc a p x : bc_app bc = sv_app x -> bc_pair bc = sv_pair x -> bc <> BNone -> touched bc a p = sinprod a p x.
Proof.
  intros Ha Hp Hn. unfold touched, sinprod. destruct bc; try congruence; rewrite Ha, Hp;
    rewrite (Z.eqb_sym a), (Z.eqb_sym p); reflexivity.
Qed.

(* the id list of a product moves exactly as the handler edits the published list *)
Lemma bc_prod_ids c s s' bc a p : Inv01 c s -> bc_pre c s bc ->
  vaults s' = bc_vaults bc (vaults s) -> svaults s' = bc_svaults bc (svaults s) ->
  prod_ids s' a p = if touched bc a p then bc_ids bc (prod_ids s a p) else prod_ids s a p.
Proof.
  intros I Hpre Hv Hx. unfold prod_ids. rewrite Hv, Hx.
  destruct bc as [|v0 v1|v|v0|x0 x1|x]; cbn [bc_vaults bc_svaults bc_ids bc_pre] in *.
  - reflexivity.
  - destruct Hpre as (Hf & Hid & Ha & Hp). unfold put_v.
    rewrite (gput_found_filter v_id (inprod a p) _ v1 v0); [destruct (touched _ _ _); reflexivity| |].
    + rewrite Hid. exact Hf.
    + unfold inprod. rewrite Ha, Hp. reflexivity.
  - destruct Hpre as (Hid & Hk). unfold put_v. rewrite gput_new by (apply fresh_v; [apply (i_vid _ _ I)|exact Hid]).
    rewrite filter_app_single, map_app.
    rewrite (touched_inprod (BNew v) a p v) by (reflexivity || discriminate).
    destruct (inprod a p v) eqn:P.
    + unfold inprod in P. apply andb_true_iff in P. destruct P as [_ P]. apply Z.eqb_eq in P.
      rewrite (no_sv_in_cdp c s a p I) by (rewrite <- P; exact Hk). cbn [map]. rewrite !app_nil_r. reflexivity.
    + cbn [map]. rewrite app_nil_r. reflexivity.
  - pose proof Hpre as Hf. apply (gfind_some v_id) in Hf. destruct Hf as [Hin _].
    rewrite (touched_inprod (BDel v0) a p v0) by (reflexivity || discriminate).
    destruct (inprod a p v0) eqn:P.
    + pose proof (prod_ids_sorted c s a p I) as Hs. unfold prod_ids in Hs. rewrite (del_id_sorted _ _ Hs).
      unfold inprod in P. apply andb_true_iff in P. destruct P as [_ P]. apply Z.eqb_eq in P.
      rewrite (no_sv_in_cdp c s a p I) by (rewrite <- P; apply (i_kind_v _ _ I _ Hin)). cbn [map]. rewrite !app_nil_r.
      unfold del_v. apply (gdel_filter_in v_id (inprod a p) _ _ v0); [apply sorted_nodup; apply (i_sorted_v _ _ I)|exact Hpre].
    + unfold del_v. rewrite (gdel_filter_out v_id (inprod a p) _ _ v0 Hpre P). reflexivity.
  - destruct Hpre as (Hf & Hid & Ha & Hp). unfold put_sv.
    rewrite (gput_found_filter sv_id (sinprod a p) _ x1 x0); [destruct (touched _ _ _); reflexivity| |].
    + rewrite Hid. exact Hf.
    + unfold sinprod. rewrite Ha, Hp. reflexivity.
  - destruct Hpre as (Hid & Hk). unfold put_sv. rewrite gput_new by (apply fresh_sv; [apply (i_sid _ _ I)|exact Hid]).
    rewrite filter_app_single, map_app.
    rewrite (touched_sinprod (SNew x) a p x) by (reflexivity || discriminate).
    destruct (sinprod a p x); cbn [map]; rewrite ?app_nil_r, ?app_assoc; reflexivity.
Qed.

Lemma delta_in (g : Z -> Z -> bool) c s bc : bc_pre c s bc ->
  bc_delta (fun v => if g (v_app v) (v_pair v) then v_in v else 0) (fun x => if g (sv_app x) (sv_pair x) then sv_in x else 0) bc =
  if g (bc_app bc) (bc_pair bc) then bc_din bc else 0.
Proof.
  destruct bc as [|v0 v1|v|v0|x0 x1|x]; cbn [bc_pre bc_delta bc_app bc_pair bc_din]; intros Hpre.
  - destruct (g 0 0); reflexivity.
  - destruct Hpre as (_ & _ & -> & ->). destruct (g _ _); lia.
  - reflexivity.
  - destruct (g _ _); lia.
  - destruct Hpre as (_ & _ & -> & ->). destruct (g _ _); lia.
  - reflexivity.
Qed.
Lemma delta_out (g : Z -> Z -> bool) c s bc : bc_pre c s bc ->
  bc_delta (fun v => if g (v_app v) (v_pair v) then v_out v else 0) (fun x => if g (sv_app x) (sv_pair x) then sv_out x else 0) bc =
  if g (bc_app bc) (bc_pair bc) then bc_dout bc else 0.
Proof.
  destruct bc as [|v0 v1|v|v0|x0 x1|x]; cbn [bc_pre bc_delta bc_app bc_pair bc_dout]; intros Hpre.
  - destruct (g 0 0); reflexivity.
  - destruct Hpre as (_ & _ & -> & ->). destruct (g _ _); lia.
  - reflexivity.
  - destruct (g _ _); lia.
  - destruct Hpre as (_ & _ & -> & ->). destruct (g _ _); lia.
  - reflexivity.
Qed.

Lemma touched_alt bc a p (k : Z) : (if touched bc a p then k else 0) = if (bc_app bc =? a) && (bc_pair bc =? p) then (if touched bc a p then k else 0) else 0.
Proof.
  unfold touched. destruct bc; cbn [bc_app bc_pair]; rewrite ?(Z.eqb_sym a), ?(Z.eqb_sym p); try (destruct (_ && _); reflexivity).
Qed.

(* the four sums after an effect *)
Lemma effect_sums c s s' from bc fee : Inv01 c s -> effect c s s' from bc fee ->
  (forall d, coll_sum c s' d = coll_sum c s d + (if denom_in c (bc_pair bc) =? d then bc_din bc else 0)) /\
  (forall d, debt_sum c s' d = debt_sum c s d + (if denom_out c (bc_pair bc) =? d then bc_dout bc else 0)) /\
  (forall a p, prod_coll_sum s' a p = prod_coll_sum s a p + (if touched bc a p then bc_din bc else 0)) /\
  (forall a p, prod_mint_sum s' a p = prod_mint_sum s a p + (if touched bc a p then bc_dout bc else 0)).
Proof.
  intros I E. pose proof (ef_pre _ _ _ _ _ _ E) as Hpre.
  pose proof (ef_vaults _ _ _ _ _ _ E) as Hv. pose proof (ef_svaults _ _ _ _ _ _ E) as Hx.
  repeat split.
  - intros d. unfold coll_sum. rewrite Hv, Hx, (bc_wsum c s bc _ _ I Hpre).
    rewrite (delta_in (fun _ p => denom_in c p =? d) c s bc Hpre). reflexivity.
  - intros d. unfold debt_sum. rewrite Hv, Hx, (bc_wsum c s bc _ _ I Hpre).
    rewrite (delta_out (fun _ p => denom_out c p =? d) c s bc Hpre). reflexivity.
  - intros a p. unfold prod_coll_sum. rewrite Hv, Hx, (bc_wsum c s bc _ _ I Hpre).
    unfold inprod, sinprod. rewrite (delta_in (fun x y => (x =? a) && (y =? p)) c s bc Hpre).
    rewrite (touched_alt bc a p). unfold touched. destruct bc; cbn [bc_app bc_pair bc_din];
      rewrite ?(Z.eqb_sym a), ?(Z.eqb_sym p); try (destruct (_ && _); reflexivity).
  - intros a p. unfold prod_mint_sum. rewrite Hv, Hx, (bc_wsum c s bc _ _ I Hpre).
    unfold inprod, sinprod. rewrite (delta_out (fun x y => (x =? a) && (y =? p)) c s bc Hpre).
    rewrite (touched_alt bc a p). unfold touched. destruct bc; cbn [bc_app bc_pair bc_dout];
      rewrite ?(Z.eqb_sym a), ?(Z.eqb_sym p); try (destruct (_ && _); reflexivity).
Qed.

Lemma VAULT_COLL : (VAULT =? COLL) = false. Proof. reflexivity. Qed.

Theorem effect_inv01 c s s' from bc fee : from <> VAULT -> Inv01 c s -> effect c s s' from bc fee -> Inv01 c s'.
Proof.
  intros Hfrom I E. destruct (effect_sums c s s' from bc fee I E) as (Sc & _ & Spc & Spm).
  pose proof (ef_pre _ _ _ _ _ _ E) as Hpre. pose proof (ef_wf _ _ _ _ _ _ E) as Hwf.
  pose proof (ef_vaults _ _ _ _ _ _ E) as Hv. pose proof (ef_svaults _ _ _ _ _ _ E) as Hx.
  constructor.
  - (* custody *)
    intros d. rewrite (ef_bal _ _ _ _ _ _ E), Sc, (ef_unsol _ _ _ _ _ _ E), (i_custody _ _ I d).
    unfold xfer, at2. rewrite VAULT_COLL, Z.eqb_refl. destruct (Z.eqb_spec VAULT from); [congruence|]. cbn [andb].
    rewrite (Z.eqb_sym d). destruct (_ =? d); lia.
  - (* count *)
    rewrite (ef_vlen _ _ _ _ _ _ E), Hv, (i_count _ _ I).
    destruct bc as [|v0 v1|v|v0|x0 x1|x]; cbn [bc_vaults bc_pre] in *; try reflexivity.
    + destruct Hpre as (Hf & Hid & _). unfold put_v. symmetry. apply (gput_found_len v_id _ v1 v0). rewrite Hid. exact Hf.
    + destruct Hpre as (Hid & _). unfold put_v. rewrite gput_new by (apply fresh_v; [apply (i_vid _ _ I)|exact Hid]).
      rewrite zlen_app. reflexivity.
    + pose proof (gdel_len v_id _ _ _ Hpre) as Hl. unfold del_v.
      destruct (Z.eqb_spec (zlen (vaults s)) 0); [|lia]. unfold zlen in *. lia.
  - (* products *)
    intros a p. destruct (i_prod _ _ I a p) as (P1 & P2 & P3).
    rewrite (ef_coll _ _ _ _ _ _ E), (ef_mint _ _ _ _ _ _ E), (ef_ids _ _ _ _ _ _ E), Spc, Spm.
    rewrite (bc_prod_ids c s s' bc a p I Hpre Hv Hx), P1, P2, P3. repeat split; reflexivity.
  - (* vault ids ascending *)
    rewrite Hv. destruct bc as [|v0 v1|v|v0|x0 x1|x]; cbn [bc_vaults bc_pre] in *; try apply (i_sorted_v _ _ I).
    + destruct Hpre as (Hf & Hid & _). unfold put_v. rewrite (gput_found_keys v_id _ v1 v0) by (rewrite Hid; exact Hf). apply (i_sorted_v _ _ I).
    + destruct Hpre as (Hid & _). unfold put_v. rewrite gput_new by (apply fresh_v; [apply (i_vid _ _ I)|exact Hid]).
      rewrite map_app. cbn [map]. apply sorted_snoc; [apply (i_sorted_v _ _ I)|].
      pose proof (i_vid _ _ I) as HF. rewrite Forall_forall in *. intros k Hk. apply in_map_iff in Hk. destruct Hk as (w & <- & Hw).
      specialize (HF _ Hw). lia.
    + apply gdel_sorted. apply (i_sorted_v _ _ I).
  - (* stable vault ids ascending *)
    rewrite Hx. destruct bc as [|v0 v1|v|v0|x0 x1|x]; cbn [bc_svaults bc_pre] in *; try apply (i_sorted_sv _ _ I).
    + destruct Hpre as (Hf & Hid & _). unfold put_sv. rewrite (gput_found_keys sv_id _ x1 x0) by (rewrite Hid; exact Hf). apply (i_sorted_sv _ _ I).
    + destruct Hpre as (Hid & _). unfold put_sv. rewrite gput_new by (apply fresh_sv; [apply (i_sid _ _ I)|exact Hid]).
      rewrite map_app. cbn [map]. apply sorted_snoc; [apply (i_sorted_sv _ _ I)|].
      pose proof (i_sid _ _ I) as HF. rewrite Forall_forall in *. intros k Hk. apply in_map_iff in Hk. destruct Hk as (w & <- & Hw).
      specialize (HF _ Hw). lia.
  - (* ids below the counter *)
    rewrite Hv, (ef_vid _ _ _ _ _ _ E). pose proof (i_vid _ _ I) as HF. rewrite Forall_forall in *. intros w Hw.
    destruct bc as [|v0 v1|v|v0|x0 x1|x]; cbn [bc_vaults bc_pre] in *; try (apply HF; exact Hw).
    + destruct Hpre as (Hf & Hid & _). apply (gput_in v_id) in Hw. destruct Hw as [->|Hw]; [|apply HF; exact Hw].
      rewrite Hid. apply (gfind_some v_id) in Hf. destruct Hf as [Hin _]. apply HF; exact Hin.
    + destruct Hpre as (Hid & _). apply (gput_in v_id) in Hw. destruct Hw as [->|Hw]; [lia|]. specialize (HF _ Hw). lia.
    + apply (gdel_in v_id) in Hw. apply HF; exact Hw.
  - rewrite Hx, (ef_sid _ _ _ _ _ _ E). pose proof (i_sid _ _ I) as HF. rewrite Forall_forall in *. intros w Hw.
    destruct bc as [|v0 v1|v|v0|x0 x1|x]; cbn [bc_svaults bc_pre] in *; try (apply HF; exact Hw).
    + destruct Hpre as (Hf & Hid & _). apply (gput_in sv_id) in Hw. destruct Hw as [->|Hw]; [|apply HF; exact Hw].
      rewrite Hid. apply (gfind_some sv_id) in Hf. destruct Hf as [Hin _]. apply HF; exact Hin.
    + destruct Hpre as (Hid & _). apply (gput_in sv_id) in Hw. destruct Hw as [->|Hw]; [lia|]. specialize (HF _ Hw). lia.
  - (* CDP products *)
    rewrite Hv. intros w Hw. pose proof (i_kind_v _ _ I) as HK.
    destruct bc as [|v0 v1|v|v0|x0 x1|x]; cbn [bc_vaults bc_pre] in *; try (apply HK; exact Hw).
    + destruct Hpre as (Hf & _ & _ & Hp). apply (gput_in v_id) in Hw. destruct Hw as [->|Hw]; [|apply HK; exact Hw].
      rewrite Hp. apply (gfind_some v_id) in Hf. destruct Hf as [Hin _]. apply HK; exact Hin.
    + destruct Hpre as (_ & Hk). apply (gput_in v_id) in Hw. destruct Hw as [->|Hw]; [exact Hk|apply HK; exact Hw].
    + apply (gdel_in v_id) in Hw. apply HK; exact Hw.
  - rewrite Hx. intros w Hw. pose proof (i_kind_sv _ _ I) as HK.
    destruct bc as [|v0 v1|v|v0|x0 x1|x]; cbn [bc_svaults bc_pre] in *; try (apply HK; exact Hw).
    + destruct Hpre as (Hf & _ & _ & Hp). apply (gput_in sv_id) in Hw. destruct Hw as [->|Hw]; [|apply HK; exact Hw].
      rewrite Hp. apply (gfind_some sv_id) in Hf. destruct Hf as [Hin _]. apply HK; exact Hin.
    + destruct Hpre as (_ & Hk). apply (gput_in sv_id) in Hw. destruct Hw as [->|Hw]; [exact Hk|apply HK; exact Hw].
  - (* amounts never negative *)
    unfold VWf. rewrite Hv. intros w Hw. pose proof (i_wf _ _ I) as HW. unfold VWf in HW.
    destruct bc as [|v0 v1|v|v0|x0 x1|x]; cbn [bc_vaults bc_wf] in *; try (apply HW; exact Hw).
    + apply (gput_in v_id) in Hw. destruct Hw as [->|Hw]; [exact Hwf|apply HW; exact Hw].
    + apply (gput_in v_id) in Hw. destruct Hw as [->|Hw]; [exact Hwf|apply HW; exact Hw].
    + apply (gdel_in v_id) in Hw. apply HW; exact Hw.
Qed.

Lemma inv_prods_exist c s : Inv01 c s -> ProdsExist s.
Proof.
  intros I. split.
  - intros v Hin. destruct (i_prod _ _ I (v_app v) (v_pair v)) as (_ & _ & P3). unfold pfound. unfold pids in P3.
    destruct (prods s (v_app v) (v_pair v)); [reflexivity|exfalso].
    assert (Hi : In (v_id v) (prod_ids s (v_app v) (v_pair v))).
    { unfold prod_ids. apply in_or_app. left. apply in_map. apply filter_In. split; [exact Hin|].
      unfold inprod. rewrite !Z.eqb_refl. reflexivity. }
    rewrite <- P3 in Hi. destruct Hi.
  - intros x Hin. destruct (i_prod _ _ I (sv_app x) (sv_pair x)) as (_ & _ & P3). unfold pfound. unfold pids in P3.
    destruct (prods s (sv_app x) (sv_pair x)); [reflexivity|exfalso].
    assert (Hi : In (sv_id x) (prod_ids s (sv_app x) (sv_pair x))).
    { unfold prod_ids. apply in_or_app. right. apply in_map. apply filter_In. split; [exact Hin|].
      unfold sinprod. rewrite !Z.eqb_refl. reflexivity. }
    rewrite <- P3 in Hi. destruct Hi.
Qed.

(* ---------- who sends a message: user accounts, never the two module accounts ---------- *)
Definition sender (o : op) : Z :=
  match o with
  | Create f _ _ _ _ | Deposit f _ _ _ _ _ | Withdraw f _ _ _ _ _ | Draw f _ _ _ _ _ | Repay f _ _ _ _ _
  | Close f _ _ _ _ | DepositDraw f _ _ _ _ _ _ | StableCreate f _ _ _ | StableDeposit f _ _ _ _
  | StableWithdraw f _ _ _ _ | Donate f _ _ => f
  | _ => 2
  end.
Definition user_op (o : op) : Prop := sender o <> VAULT /\ sender o <> COLL.

(* ---------- environment operations and donations ---------- *)
Lemma inv01_env c s s' : Inv01 c s ->
  vaults s' = vaults s -> svaults s' = svaults s -> prods s' = prods s -> vlen s' = vlen s -> vid s' = vid s -> sid s' = sid s ->
  (forall d, bal s' VAULT d - unsol s' d = bal s VAULT d - unsol s d) -> Inv01 c s'.
Proof.
  intros I Hv Hx Hp Hl Hi Hsi Hb.
  constructor; unfold coll_sum, prod_coll_sum, prod_mint_sum, prod_ids, pcoll, pmint, pids, VWf in *; rewrite ?Hv, ?Hx, ?Hp, ?Hl, ?Hi, ?Hsi;
    try apply I.
  intros d. pose proof (i_custody _ _ I d) as Hc. unfold coll_sum in Hc. specialize (Hb d). lia.
Qed.

Lemma donate_inv01 c s f d amt s' : f <> VAULT -> Inv01 c s -> donate s f d amt = Ok s' -> Inv01 c s'.
Proof.
  intros Hf I H. unfold donate in H. exec1 H. exec1 H. apply send_spec in E. destruct E as (_ & b1 & -> & Hb1).
  injection H as <-. apply (inv01_env c s); try reflexivity; [exact I|].
  intros x. ssimpl. rewrite Hb1. unfold xfer, at1. rewrite Z.eqb_refl. destruct (Z.eqb_spec VAULT f); [congruence|]. cbn [andb].
  destruct (x =? d); lia.
Qed.

(* ---------- one step ---------- *)
Theorem run_inv01 c s o s' : cfg_ok c -> user_op o -> Inv01 c s -> run c s o = Ok s' -> Inv01 c s'.
Proof.
  intros CK [Hu _] I H. pose proof (inv_prods_exist c s I) as PE. pose proof (i_wf _ _ I) as W.
  destruct o; cbn [run sender] in *.
  - unfold msg_create in H. do 2 exec1 H.
    destruct (create_h_effect c s from app epid ain aout s' CK ltac:(lia) ltac:(lia) H) as (ep & cl & _ & _ & _ & _ & _ & _ & _ & _ & _ & E).
    exact (effect_inv01 _ _ _ _ _ _ Hu I E).
  - unfold msg_deposit in H. do 2 exec1 H.
    destruct (deposit_h_effect c s from app epid id amt ienv s' PE W ltac:(lia) H) as (v0 & ep & _ & _ & _ & _ & _ & _ & _ & E).
    exact (effect_inv01 _ _ _ _ _ _ Hu I E).
  - unfold msg_withdraw in H. do 2 exec1 H.
    destruct (withdraw_h_effect c s from app epid id amt ienv s' PE W ltac:(lia) H) as (v0 & ep & _ & _ & _ & _ & _ & _ & _ & E).
    exact (effect_inv01 _ _ _ _ _ _ Hu I E).
  - unfold msg_draw in H. do 2 exec1 H.
    destruct (draw_h_effect c s from app epid id amt ienv s' CK PE W H) as (v0 & ep & _ & _ & _ & _ & _ & _ & _ & _ & _ & _ & _ & E).
    exact (effect_inv01 _ _ _ _ _ _ Hu I E).
  - destruct (repay_effect c s from app epid id amt ienv s' PE W H) as (v0 & ep & _ & _ & _ & _ & _ & _ & _ & [[_ E]|(_ & _ & E)]);
      exact (effect_inv01 _ _ _ _ _ _ Hu I E).
  - destruct (close_effect c s from app epid id ienv s' PE W H) as (v0 & ep & _ & _ & _ & _ & _ & _ & E).
    exact (effect_inv01 _ _ _ _ _ _ Hu I E).
  - unfold msg_deposit_draw in H. do 5 exec1 H. exec1 H.
    destruct (deposit_h_effect c s from app epid id amt i1 st PE W ltac:(lia) E) as (v0 & ep & _ & _ & _ & _ & _ & _ & _ & E1).
    pose proof (effect_inv01 _ _ _ _ _ _ Hu I E1) as I1.
    destruct (draw_h_effect c st from app epid id z0 i2 s' CK (inv_prods_exist c st I1) (i_wf _ _ I1) H) as (v1 & ep1 & _ & _ & _ & _ & _ & _ & _ & _ & _ & _ & _ & E2).
    exact (effect_inv01 _ _ _ _ _ _ Hu I1 E2).
  - destruct (stable_create_effect c s from app epid amt s' CK H) as (ep & tout & _ & _ & _ & _ & _ & _ & _ & _ & E).
    exact (effect_inv01 _ _ _ _ _ _ Hu I E).
  - destruct (stable_deposit_effect c s from app epid id amt s' CK PE H) as (x0 & ep & tout & _ & _ & _ & _ & _ & _ & _ & _ & _ & E).
    exact (effect_inv01 _ _ _ _ _ _ Hu I E).
  - destruct (stable_withdraw_effect c s from app epid id amt s' CK PE H) as (x0 & ep & tout & upd & _ & _ & _ & _ & _ & _ & _ & _ & _ & E).
    exact (effect_inv01 _ _ _ _ _ _ Hu I E).
  - destruct (interest_effect c s app id ienv s' W H) as (v0 & _ & _ & E).
    exact (effect_inv01 _ _ _ 2 _ _ Hu I (E 2)).
  - exact (donate_inv01 c s from d amt s' Hu I H).
  - injection H as <-. apply (inv01_env c s); try reflexivity; exact I.
  - injection H as <-. apply (inv01_env c s); try reflexivity; exact I.
  - injection H as <-. apply (inv01_env c s); try reflexivity; exact I.
  - injection H as <-. apply (inv01_env c s); try reflexivity; exact I.
  - injection H as <-. apply (inv01_env c s); try reflexivity; exact I.
Qed.

(* ---------- every finite history ---------- *)
Lemma step_inv01 c s o : cfg_ok c -> user_op o -> Inv01 c s -> Inv01 c (step c s o).
Proof.
  intros CK U I. destruct (step_cases c s o) as [(s' & H & ->)|[_ ->]]; [|exact I].
  exact (run_inv01 c s o s' CK U I H).
Qed.

Theorem history_inv01 c ops : cfg_ok c -> Forall user_op ops -> forall s, Inv01 c s -> Inv01 c (run_all c ops s).
Proof.
  intros CK. induction ops as [|o ops IH]; intros U s I; [exact I|].
  inversion U as [|? ? Uo Uops]; subst. cbn [run_all fold_left]. apply IH; [exact Uops|].
  apply step_inv01; assumption.
Qed.

Lemma inv01_init c b sp t pr : (forall d, b VAULT d = 0) -> Inv01 c (init b sp t pr).
Proof.
  intros Hb. constructor; cbn [init vaults svaults prods vlen vid sid bal unsol].
  - intros d. rewrite Hb. reflexivity.
  - reflexivity.
  - intros a' p'. repeat split; reflexivity.
  - constructor.
  - constructor.
  - constructor.
  - constructor.
  - intros v [].
  - intros v [].
  - intros v [].
Qed.

(* ---------- the executable predicate that judges the implementation ---------- *)
Lemma inv01_product c s a p : Inv01 c s -> c01_product s a p = true.
Proof.
  intros I. destruct (i_prod _ _ I a p) as (P1 & P2 & P3). pose proof (prod_ids_sorted c s a p I) as Hs.
  unfold c01_product. unfold pcoll, pmint, pids in *. destruct (prods s a p) as [pr|].
  - rewrite P1, P2, P3, !Z.eqb_refl, list_eqb_refl, (sorted_ascending _ Hs). reflexivity.
  - rewrite <- P3. reflexivity.
Qed.

Theorem inv01_holds c s denoms : Inv01 c s -> holds_C01 c denoms s = true.
Proof.
  intros I. unfold holds_C01. rewrite !andb_true_iff. repeat split.
  - apply forallb_forall. intros d _. unfold c01_custody. rewrite (i_custody _ _ I d). apply Z.eqb_refl.
  - unfold c01_count. rewrite (i_count _ _ I). apply Z.eqb_refl.
  - apply forallb_forall. intros e _. apply (inv01_product c); exact I.
Qed.

(* ---------- the example configuration meets the hypotheses ---------- *)
From Comdex Require Import Model.VaultExample.
Lemma ex_cfg_ok : cfg_ok ex_cfg.
Proof.
  split.
  - cbn. repeat constructor; cbn; intuition discriminate.
  - intros e [<-|[<-|[]]]; unfold ep_ok; cbn; repeat split; try discriminate; reflexivity.
Qed.
Lemma ex_ops_users : Forall user_op ex_ops.
Proof. repeat constructor; discriminate. Qed.
Lemma ex_init_inv : Inv01 ex_cfg ex_init.
Proof. apply inv01_init. reflexivity. Qed.
