(* C20 - soundness of the table decision procedures w.r.t. the export / init model, the generic
   round-trip and fresh-id lemmas, and the finite theorems over the regenerated table. *)
From Coq Require Import String.
From Comdex Require Import Lib.Base Lib.GenesisTypes Gen.GenesisTable Model.Genesis.
Open Scope Z_scope.

(* ---------------- list helpers ---------------- *)
Lemma find_map {A B} (f : A -> B) (p : B -> bool) (l : list A) :
  find p (map f l) = option_map f (find (fun x => p (f x)) l).
Proof.
  induction l as [|a l IH]; cbn; [reflexivity|].
  destruct (p (f a)); [reflexivity|exact IH].
Qed.

Lemma get_init dv t m g b :
  In b (map p_byte (pref_rows t m)) ->
  get (init dv t m g) b = init_prefix dv t m g b.
Proof.
  unfold get, init. induction (pref_rows t m) as [|p l IH]; cbn; [tauto|].
  intros [H|H].
  - subst b. rewrite Z.eqb_refl. reflexivity.
  - destruct (Z.eqb_spec (p_byte p) b) as [E|E]; [rewrite E; reflexivity|]. exact (IH H).
Qed.

Lemma find_direct_inst t m b s :
  find (direct_c t m b) (export t m s) = option_map (inst s) (find (direct_s t m b) (sym t m)).
Proof. unfold export. rewrite find_map. reflexivity. Qed.

Lemma find_derived_inst t m b s :
  find (derived_c t m b) (export t m s) = option_map (inst s) (find (derived_s t m b) (sym t m)).
Proof. unfold export. rewrite find_map. reflexivity. Qed.

(* what the model's InitGenesis leaves under prefix b, by cases of the decision procedure *)
Lemma init_prefix_spec dv t m s b :
  init_prefix dv t m (export t m s) b =
  match classify t m b with
  | CovDirect => get s b
  | CovKeysOnly => zeroed (get s b)
  | CovDerived b0 => dv b b0 (get s b0)
  | CovMismatch b0 => dv b b0 (get s b0)
  | CovLost => []
  end.
Proof.
  unfold init_prefix, classify. rewrite find_direct_inst, find_derived_inst.
  destruct (find (direct_s t m b) (sym t m)) as [x|] eqn:Hd; cbn.
  - apply find_some in Hd. destruct Hd as [_ Hd]. unfold direct_s in Hd.
    apply andb_prop in Hd. destruct Hd as [Hb _]. apply Z.eqb_eq in Hb.
    destruct (sc_valued x); rewrite Hb; reflexivity.
  - destruct (find (derived_s t m b) (sym t m)) as [x|] eqn:Hv; cbn; [|reflexivity].
    apply find_some in Hv. destruct Hv as [_ Hv]. unfold derived_s in Hv.
    apply andb_prop in Hv. destruct Hv as [Hv _]. apply andb_prop in Hv. destruct Hv as [_ Hv].
    rewrite Hv. destruct (existsb _ _); reflexivity.
Qed.

Lemma roundtrip_spec dv t m s b :
  In b (map p_byte (pref_rows t m)) ->
  get (roundtrip dv t m s) b =
  match classify t m b with
  | CovDirect => get s b
  | CovKeysOnly => zeroed (get s b)
  | CovDerived b0 => dv b b0 (get s b0)
  | CovMismatch b0 => dv b b0 (get s b0)
  | CovLost => []
  end.
Proof. intros H. unfold roundtrip. rewrite (get_init dv t m _ b H). apply init_prefix_spec. Qed.

(* the state keeps its derived indexes consistent with the records they index: [dv] is the
   function the setter computes (asset-by-denom from the asset, order index from the order ...) *)
Definition consistent (dv : Z -> Z -> entries -> entries) (t : table) (m : string) (s : mstore) : Prop :=
  forall b b0, classify t m b = CovDerived b0 -> get s b = dv b b0 (get s b0).

(* generic round trip: a covered prefix comes back with exactly its entries *)
Lemma roundtrip_generic dv t m s b :
  In b (map p_byte (pref_rows t m)) ->
  cover_ok (classify t m b) = true ->
  consistent dv t m s ->
  get (roundtrip dv t m s) b = get s b.
Proof.
  intros Hin Hok Hc. rewrite (roundtrip_spec dv t m s b Hin).
  destruct (classify t m b) eqn:E; cbn in Hok; try discriminate; [reflexivity|].
  symmetry. exact (Hc b from E).
Qed.

(* a prefix the genesis does not carry comes back empty: a state with a record there does not
   survive *)
Lemma lost_refuted dv t m b :
  In b (map p_byte (pref_rows t m)) ->
  classify t m b = CovLost ->
  exists s, get (roundtrip dv t m s) b <> get s b.
Proof.
  intros Hin Hl. exists [(b, [(1, 1)])].
  rewrite (roundtrip_spec dv t m _ b Hin), Hl. unfold get. cbn. rewrite Z.eqb_refl. cbn. discriminate.
Qed.

Lemma in_pref_rows (t : table) (p : prefix_row) :
  In p (t_pref t) -> In (p_byte p) (map p_byte (pref_rows t (p_mod p))).
Proof.
  intros H. apply in_map. unfold pref_rows. apply filter_In. split; [exact H|apply String.eqb_refl].
Qed.

(* ---------------- id counters ---------------- *)
Lemma zmax_ge l i : In i l -> i <= zmax_list l.
Proof.
  unfold zmax_list. induction l as [|a l IH]; cbn [fold_right In]; [tauto|].
  intros [H|H]; [subst; lia|]. specialize (IH H). lia.
Qed.

(* a counter that is at least every live id hands out an id that collides with none of them *)
Lemma fresh_id_generic (live_ids : list Z) (c : Z) :
  (forall i, In i live_ids -> i <= c) -> ~ In (next_id c) live_ids.
Proof. intros H Hin. specialize (H _ Hin). unfold next_id in H. lia. Qed.

Lemma max_restore_fresh (items : entries) : ~ In (next_id (zmax_list (ids items))) (ids items).
Proof. apply fresh_id_generic. intros i. apply zmax_ge. Qed.

(* counter_ok: the restored value is the original one, provided - for a recomputed maximum - the
   counter was the maximum id of its (never deleted) collection, which is how the keepers allocate *)
Lemma counter_ok_exact t m b orig items :
  counter_ok t m b = true ->
  (match counter_restore t m b with RMax _ => orig = zmax_list (ids items) | _ => True end) ->
  restored_value (counter_restore t m b) orig items = Some orig.
Proof.
  unfold counter_ok. destruct (counter_restore t m b); cbn; try discriminate.
  - reflexivity.
  - intros _ ->. reflexivity.
Qed.

(* counter_safe: the next id is fresh w.r.t. the imported records, whatever was deleted before *)
Lemma counter_safe_fresh t m b orig items v :
  counter_safe t m b = true ->
  (forall i, In i (ids items) -> i <= orig) ->
  restored_value (counter_restore t m b) orig items = Some v ->
  ~ In (next_id v) (ids items).
Proof.
  unfold counter_safe. destruct (counter_restore t m b); cbn; try discriminate.
  - intros _ H [= <-]. apply fresh_id_generic. exact H.
  - intros _ _ [= <-]. apply max_restore_fresh.
Qed.

(* the failing shapes, with witnesses *)
Lemma count_restore_collides l :
  exists items, match restored_value (RCount l) 3 items with
                | Some v => In (next_id v) (ids items) | None => False end.
Proof. exists [(2, 0); (3, 0)]. cbn. tauto. Qed.

Lemma zero_restore_collides :
  exists items, match restored_value RZero 1 items with
                | Some v => In (next_id v) (ids items) | None => False end.
Proof. exists [(1, 0)]. cbn. tauto. Qed.

(* an absent counter reads as 0 *)
Lemma absent_restore_collides :
  exists items, restored_value RAbsent 1 items = None /\ In (next_id 0) (ids items).
Proof. exists [(1, 0)]. cbn. tauto. Qed.

(* max over the live records after the newest record (id 2) was deleted: the counter goes back *)
Lemma max_restore_reissues l :
  exists orig items, (forall i, In i (ids items) -> i <= orig) /\
                     restored_value (RMax l) orig items <> Some orig.
Proof. exists 2, [(1, 0)]. cbn. split; [intros i [<-|[]]; lia|discriminate]. Qed.

Lemma last_restore_reissues l :
  exists orig items, (forall i, In i (ids items) -> i <= orig) /\
                     restored_value (RLast l) orig items <> Some orig.
Proof. exists 2, [(1, 0)]. cbn. split; [intros i [<-|[]]; lia|discriminate]. Qed.

(* ---------------- the finite theorems over the regenerated table ---------------- *)
Definition prefix_decided (p : prefix_row) : bool :=
  negb (live p) || survives the_table (p_mod p) p || kf_C20_any (p_mod p) (p_byte p).

Lemma table_recognised : t_unrec the_table = [].
Proof. vm_compute. reflexivity. Qed.

Lemma table_decided : forallb prefix_decided (t_pref the_table) = true.
Proof. vm_compute. reflexivity. Qed.

(* every listed hole is a hole of the regenerated table (no stale entry) *)
Definition hole_is_hole (h : string * Z * Z) : bool :=
  existsb (fun p => String.eqb (p_mod p) (fst (fst h)) && (p_byte p =? snd (fst h)) && live p &&
                    negb (survives the_table (p_mod p) p)) (t_pref the_table) &&
  hole_shape_ok the_table (fst (fst h)) (snd (fst h)).
Lemma holes_are_holes : forallb hole_is_hole known_holes = true.
Proof. vm_compute. reflexivity. Qed.

Lemma table_decided_row p :
  In p (t_pref the_table) -> live p = true -> kf_C20_any (p_mod p) (p_byte p) = false ->
  survives the_table (p_mod p) p = true.
Proof.
  intros Hin Hl Hk. pose proof table_decided as H. rewrite forallb_forall in H. specialize (H p Hin).
  unfold prefix_decided in H. rewrite Hl, Hk in H.
  change (negb true) with false in H. rewrite orb_false_l, orb_false_r in H. exact H.
Qed.

Lemma survives_cover t m p : survives t m p = true -> p_counter p = false ->
  cover_ok (classify t m (p_byte p)) = true.
Proof. unfold survives. intros H Hc. rewrite Hc in H. apply andb_prop in H. tauto. Qed.

Lemma survives_counter t m p : survives t m p = true -> p_counter p = true ->
  counter_ok t m (p_byte p) = true.
Proof. unfold survives. intros H Hc. rewrite Hc in H. apply andb_prop in H. tauto. Qed.
