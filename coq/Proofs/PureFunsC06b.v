(* Tie (C) for C06, second part: the decimal length used by amm.InitialPoolCoinSupply
   (GoSem.dec_text_len, fuel = log2) is Model/Pool.v's text_len (fuel 100) below 10^100. *)
From Coq Require Import ZifyBool.
From Comdex Require Import Lib.Base Lib.DecArith Lib.GoSem Model.Pool Proofs.PureFunsLemmas2.

Lemma ndigits_loop_fuel f z : ndigits_loop f z = dec_digits_fuel f z.
Proof. revert z; induction f as [|f IH]; intros z; cbn [ndigits_loop dec_digits_fuel]; [reflexivity|]. rewrite IH. reflexivity. Qed.

Lemma dec_digits_fuel_bounds f z : 1 <= dec_digits_fuel f z <= 1 + Z.of_nat f.
Proof.
  revert z; induction f as [|f IH]; intros z; cbn [dec_digits_fuel]; [lia|].
  destruct (z <? 10); [lia|]. specialize (IH (z / 10)). lia.
Qed.

(* enough fuel: the result does not depend on it *)
Lemma dec_digits_fuel_indep f1 : forall f2 z,
  0 <= z < 10 ^ Z.of_nat f1 -> z < 10 ^ Z.of_nat f2 -> dec_digits_fuel f1 z = dec_digits_fuel f2 z.
Proof.
  induction f1 as [|f1 IH]; intros f2 z H1 H2.
  - change (10 ^ Z.of_nat 0) with 1 in H1. assert (z = 0) by lia; subst.
    destruct f2; reflexivity.
  - cbn [dec_digits_fuel]. destruct (Z.ltb_spec z 10) as [Hs|Hs].
    + destruct f2; cbn [dec_digits_fuel]; [reflexivity|]. destruct (Z.ltb_spec z 10); [reflexivity|lia].
    + destruct f2 as [|f2]; [change (10 ^ Z.of_nat 0) with 1 in H2; lia|].
      cbn [dec_digits_fuel]. destruct (Z.ltb_spec z 10); [lia|]. f_equal.
      rewrite !Nat2Z.inj_succ, !Z.pow_succ_r in * by lia.
      apply IH; [split; [apply Z.div_pos; lia|apply Z.div_lt_upper_bound; lia]|apply Z.div_lt_upper_bound; lia].
Qed.

Lemma dec_digits_100 z : 0 <= z < 10 ^ 100 -> dec_digits z = ndigits_loop 100 z.
Proof.
  intros H. rewrite ndigits_loop_fuel. unfold dec_digits. symmetry.
  apply dec_digits_fuel_indep; [exact H|].
  rewrite Nat2Z.inj_succ, Z2Nat.id by apply Z.log2_nonneg.
  destruct (Z.eq_dec z 0) as [->|Hz]; [reflexivity|].
  pose proof (Z.log2_spec z ltac:(lia)) as [_ Hlt].
  eapply Z.lt_le_trans; [exact Hlt|].
  apply Z.pow_le_mono_l. pose proof (Z.log2_nonneg z). lia.
Qed.

Lemma dec_text_len_100 z : Z.abs z < 10 ^ 100 -> dec_text_len z = text_len z.
Proof. intros H. unfold dec_text_len, text_len. rewrite dec_digits_100 by lia. reflexivity. Qed.

Lemma text_len_bounds z : 1 <= text_len z <= 102.
Proof.
  unfold text_len. rewrite ndigits_loop_fuel.
  pose proof (dec_digits_fuel_bounds 100 (Z.abs z)). destruct (z <? 0); lia.
Qed.
