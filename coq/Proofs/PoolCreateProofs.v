(* Proofs about Pool.create_ranged_amounts (amm.CreateRangedPool): of the offered (x, y) the pool never
   accepts more of either coin.  The two-sided branch first assumes all of x is accepted and computes
   the y that goes with it, ay = ceil((x / (sqrtP - sqrtM)) * (1/sqrtP - 1/sqrtL)); only when ay > y
   (strictly) it accepts all of y and recomputes ax = ceil((y / (1/sqrtP - 1/sqrtL)) * (sqrtP - sqrtM)).
   That the recomputed ax is at most x needs the STRICT comparison and the exact rounding of each step
   (every Quo / Mul is at most half a unit above the exact value). *)
From Comdex Require Import Lib.Base Lib.DecArith Lib.DecFacts Lib.DecFacts2 Model.Pool.
From Coq Require Import ZifyBool.

(* Quo is at most half a unit (of 10^-18) above the exact quotient *)
Lemma dquo_upper_half a b : 0 <= a -> 0 < b -> 2 * (dquo a b * b) <= 2 * (a * P18) + b.
Proof.
  intros Ha Hb. dec_consts. pose proof P36_eq.
  pose proof (quo_raw_bounds a b Ha Hb) as (Ht0 & Ht1 & Ht2). cbv zeta in *.
  unfold dquo. set (t := Z.quot (a * P36) b) in *.
  pose proof (chop_round_bounds t) as Hr. set (q := chop_round t) in *.
  assert (q * P18 * b <= a * P36 + HALF18 * b) by nia.
  assert (2 * (q * b) * P18 <= (2 * (a * P18) + b) * P18) by nia.
  nia.
Qed.

Lemma dceil_int_nonpos m : m <= 0 -> dtrunc_int (dceil m) <= 0.
Proof.
  intros Hm. dec_consts. unfold dtrunc_int, dceil.
  assert (Hq : Z.quot m P18 <= 0).
  { rewrite <- (Z.opp_involutive m). rewrite Z.quot_opp_l by lia.
    assert (0 <= Z.quot (- m) P18) by (apply Z.quot_pos; lia). lia. }
  assert (Hr : Z.rem m P18 <= 0).
  { rewrite <- (Z.opp_involutive m). rewrite Z.rem_opp_l by lia.
    rewrite Z.rem_mod_nonneg by lia. pose proof (Z.mod_pos_bound (- m) P18 ltac:(lia)). lia. }
  destruct (Z.eqb_spec (Z.rem m P18) 0); [rewrite Z.quot_mul by lia; exact Hq|].
  destruct (Z.ltb_spec (Z.rem m P18) 0); [rewrite Z.quot_mul by lia; exact Hq|lia].
Qed.

(* the arithmetic core: D = sqrtP - sqrtM > 0, E = 1/sqrtP - 1/sqrtL of any sign; when E is at least 1
   (10^18) D is below 1 - a consequence of 0 < sqrtM and 1/sqrtL >= 0, proved below *)
Lemma create_core x y D E :
  0 <= x -> 0 <= y -> 0 < D -> (P18 <= E -> D < P18) ->
  let ay := dtrunc_int (dceil (dmul (dquo (dec_of_int x) D) E)) in
  (0 <= E -> 0 <= ay) /\
  (y < ay -> E <> 0 ->
   let ax := dtrunc_int (dceil (dmul (dquo (dec_of_int y) E) D)) in 0 <= ax <= x).
Proof.
  intros Hx Hy HD HDE. dec_consts. cbv zeta.
  set (X := dec_of_int x). assert (HX : 0 <= X) by (unfold X, dec_of_int; nia).
  set (q1 := dquo X D). assert (Hq1 : 0 <= q1) by (apply dquo_nonneg; assumption).
  pose proof (dquo_upper_half X D HX HD) as U1. fold q1 in U1.
  set (m1 := dmul q1 E). pose proof (dmul_bounds q1 E) as Bm1. fold m1 in Bm1.
  split.
  - intros HE. assert (0 <= m1) by (apply dmul_nonneg; assumption).
    apply (dceil_int_bounds m1); assumption.
  - intros Hlt HE0.
    destruct (Z.le_gt_cases E 0) as [HEn | HEp].
    { (* E < 0: m1 <= 0, so ay <= 0 <= y *)
      exfalso. assert (m1 <= 0) by (unfold m1, dmul; apply (chop_round_le_grid _ 0); nia).
      pose proof (dceil_int_nonpos m1 ltac:(assumption)). lia. }
    assert (Hm1 : 0 <= m1) by (apply dmul_nonneg; lia).
    pose proof (dceil_int_bounds m1 Hm1) as (_ & _ & C2). cbv zeta in C2.
    set (ay := dtrunc_int (dceil m1)) in *.
    set (Y := dec_of_int y). assert (HY : 0 <= Y) by (unfold Y, dec_of_int; nia).
    (* y <= ay - 1 and (ay - 1) * P18 < m1: Y + 1 <= m1 *)
    assert (HYm : Y + 1 <= m1) by (unfold Y, dec_of_int; nia).
    set (q2 := dquo Y E). assert (Hq2 : 0 <= q2) by (apply dquo_nonneg; assumption).
    pose proof (dquo_upper_half Y E HY HEp) as U4. fold q2 in U4.
    set (m2 := dmul q2 D). pose proof (dmul_bounds q2 D) as Bm2. fold m2 in Bm2.
    assert (Hm2 : 0 <= m2) by (apply dmul_nonneg; lia).
    pose proof (dceil_int_bounds m2 Hm2) as (A0 & A1 & A2). cbv zeta in *.
    set (ax := dtrunc_int (dceil m2)) in *.
    split; [exact A0|].
    (* 2 q2 E <= 2 Y P18 + E <= 2 (m1 - 1) P18 + E <= 2 q1 E + P18 - 2 P18 + E *)
    assert (K : 2 * (q2 * E) <= 2 * (q1 * E) - P18 + E) by nia.
    (* m2 <= X suffices *)
    assert (Hgoal : m2 <= X).
    { destruct (Z.le_gt_cases q1 q2) as [Hge | Hlt2].
      - (* q1 <= q2: then E >= P18, hence D < P18 *)
        assert (P18 <= E) by nia. pose proof (HDE ltac:(assumption)) as HDs.
        assert (q2 = q1) by nia. subst q2.
        (* 2 m2 P18 <= 2 q1 D + P18 <= 2 X P18 + D + P18 < 2 X P18 + 2 P18 *)
        assert (2 * (m2 * P18) < 2 * (X * P18) + 2 * P18) by nia.
        nia.
      - (* q2 <= q1 - 1 *)
        assert (q2 * D <= q1 * D - D) by nia.
        assert (2 * (m2 * P18) <= 2 * (X * P18) + D - 2 * D + P18) by nia.
        nia. }
    unfold X, dec_of_int in Hgoal. nia.
Qed.

(* 1/sqrtP - 1/sqrtL >= 1 forces sqrtP <= 1, hence sqrtP - sqrtM < 1 *)
Lemma inv_gap_small sp sm sl ip il :
  0 < sm -> sm <= sp -> 0 < sl -> ip = dquo P18 sp -> il = dquo P18 sl ->
  P18 <= ip - il -> sp - sm < P18.
Proof.
  intros Hsm Hsp Hsl -> -> H. dec_consts.
  assert (0 <= dquo P18 sl) by (apply dquo_nonneg; lia).
  pose proof (dquo_upper_half P18 sp ltac:(lia) ltac:(lia)) as U.
  assert (P18 <= dquo P18 sp) by lia.
  (* 2 P18 sp <= 2 inv sp <= 2 P36 + sp *)
  assert (2 * (P18 * sp) <= 2 * (P18 * P18) + sp) by nia.
  nia.
Qed.

Lemma ob_some {A B} (o : option A) (f : A -> option B) v : ob o f = Some v -> exists a, o = Some a /\ f a = Some v.
Proof. destruct o; cbn; [eauto|discriminate]. Qed.

Lemma dquo_c_some a b v : dquo_c a b = Some v -> b <> 0 /\ v = dquo a b.
Proof. unfold dquo_c. destruct (Z.eqb_spec b 0); [discriminate|]. intros H. apply chk_dec_some in H. auto. Qed.

Lemma create_ranged_amounts_bounded x y minP maxP initP ax ay :
  0 <= x -> 0 <= y -> ranged_roots_ok minP maxP initP = true ->
  create_ranged_amounts x y minP maxP initP = Ok (ax, ay) ->
  0 <= ax <= x /\ 0 <= ay <= y.
Proof.
  intros Hx Hy Hr H. unfold create_ranged_amounts in H.
  destruct (negb (x >? 0) && negb (y >? 0)); [discriminate|].
  destruct (validate_ranged minP maxP initP) as [[]| |]; cbn [obind] in H; try discriminate.
  destruct (initP =? minP); [inversion H; subst; lia|].
  destruct (initP =? maxP); [inversion H; subst; lia|].
  match type of H with match ?r with _ => _ end = _ => destruct r as [[ax' ay']|] eqn:R; [|discriminate] end.
  inversion H; subst ax' ay'; clear H.
  unfold ranged_roots_ok in Hr.
  apply ob_some in R as (sp & Esp & R). apply ob_some in R as (sm & Esm & R). apply ob_some in R as (sl & Esl & R).
  rewrite Esp, Esm, Esl in Hr.
  apply ob_some in R as (dpm & Edpm & R). apply ob_some in R as (q1 & Eq1 & R).
  apply ob_some in R as (ip & Eip & R). apply ob_some in R as (il & Eil & R).
  apply ob_some in R as (dinv & Edinv & R). apply ob_some in R as (m1 & Em1 & R).
  apply ob_some in R as (ay0 & Eay & R).
  unfold dsub_c in Edpm, Edinv. apply chk_dec_some in Edpm, Edinv.
  apply dquo_c_some in Eq1 as (Dnz & ->).
  unfold inv_d in Eip, Eil. apply dquo_c_some in Eip as (_ & Eip). apply dquo_c_some in Eil as (_ & Eil).
  unfold dmul_c in Em1. apply chk_dec_some in Em1. unfold dtrunc_int_c in Eay. apply chk_int_some in Eay.
  assert (HD : 0 < dpm) by lia.
  assert (HDE : P18 <= dinv -> dpm < P18).
  { intros. subst dpm dinv. apply (inv_gap_small sp sm sl ip il); lia. }
  assert (HE : 0 <= dinv).
  { subst dinv ip il. assert (dquo P18 sl <= dquo P18 sp); [|lia].
    pose proof P18_pos. apply dquo_anti_r; lia. }
  pose proof (create_core x y dpm dinv Hx Hy HD HDE) as (C1 & C2). cbv zeta in C1, C2.
  rewrite <- Em1, <- Eay in C1, C2.
  destruct (Z.gtb_spec ay0 y) as [Hgt | Hle].
  - apply ob_some in R as (q2 & Eq2 & R). apply ob_some in R as (m2 & Em2 & R). apply ob_some in R as (ax0 & Eax & R).
    inversion R; subst ax ay; clear R.
    apply dquo_c_some in Eq2 as (Enz & ->). unfold dmul_c in Em2. apply chk_dec_some in Em2.
    unfold dtrunc_int_c in Eax. apply chk_int_some in Eax.
    specialize (C2 ltac:(lia) Enz). rewrite <- Em2, <- Eax in C2. lia.
  - inversion R; subst ax ay; clear R. specialize (C1 HE). lia.
Qed.
