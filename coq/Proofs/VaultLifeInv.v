(* C01 over the full life cycle (Model/VaultLife.v): the invariant [InvL] and its preservation by every
   step - vault messages, seizure (message and sweep), bids (partial and closing), auction block ticks
   without an ESM return, esm vault redemption. *)
From Comdex Require Import Lib.Base Lib.DecArith Lib.DecFacts Lib.Atomic Model.Vault Model.VaultLife
  Proofs.VaultProofs Proofs.VaultExec Proofs.VaultHandlers Proofs.VaultInv Proofs.VaultLifeBase.
From Coq Require Import ZifyBool Sorted.

(* the offsets of the published books against the open records *)
Definition oc_of (l : lstate) : Z -> Z := fun d => - er_short l d.
Definition opc_of (l : lstate) : Z -> Z -> Z := fun a p => lock_coll l a p - er_coll l a p.
Definition opm_of (l : lstate) : Z -> Z -> Z := fun a p => lock_prin l a p - drift l a p - er_mint l a p.
Definition view (l : lstate) : state := shift (vs l) (oc_of l) (opc_of l) (opm_of l).

Definition lk_ok (c : cfg) (l : lstate) (k : lockedv) : Prop :=
  lk_owner k <> VAULT /\ (lk_intk k = true -> lk_keeper k <> VAULT) /\ 0 <= lk_prin k <= lk_debt k /\
  pfound (vs l) (lk_app k) (lk_pair k) = true /\
  exists ep, get_ep c (lk_pair k) = Some ep /\ ep_stable ep = false.
Definition au_ok (c : cfg) (l : lstate) (a : auct) : Prop :=
  au_lock a <= lkid l /\ 0 <= au_coll a /\ 0 <= au_debt a /\
  forall k, find_lk (lks l) (au_lock a) = Some k ->
    au_cin a = denom_in c (lk_pair k) /\ au_cout a = denom_out c (lk_pair k) /\ au_app a = lk_app k.
(* the owner -> vault lookup points at open vaults of that owner and product *)
Definition umap_ok (s : state) : Prop :=
  forall o a p id, umap s o a p = Some id ->
    exists v, find_v (vaults s) id = Some v /\ v_owner v = o /\ v_app v = a /\ v_pair v = p.

Record InvL (c : cfg) (l : lstate) : Prop := mkInvL {
  il_view : Inv01 c (view l);
  il_owner : forall v, In v (vaults (vs l)) -> v_owner v <> VAULT;
  il_umap : umap_ok (vs l);
  il_sorted : StronglySorted Z.lt (map lk_id (lks l));
  il_lkid : Forall (fun k => lk_id k <= lkid l) (lks l);
  il_lk : forall k, In k (lks l) -> lk_ok c l k;
  il_au : forall a, In a (aus l) -> au_ok c l a
}.

Lemma invL_pe c l : InvL c l -> ProdsExist (vs l).
Proof. intros I. exact (shift_prods_exist c _ _ _ _ (il_view _ _ I)). Qed.
Lemma invL_wf c l : InvL c l -> VWf (vs l).
Proof. intros I. exact (shift_wf c _ _ _ _ (il_view _ _ I)). Qed.

(* ---------- vault messages ---------- *)
Definition bc_owner_ok (from : Z) bc : Prop :=
  match bc with BUpd v0 v1 => v_owner v1 = v_owner v0 | BNew v => v_owner v = from | BDel v => v_owner v = from | _ => True end.

Lemma owners_step c s s' from bc : from <> VAULT -> (forall v, In v (vaults s) -> v_owner v <> VAULT) ->
  bc_pre c s bc -> vaults s' = bc_vaults bc (vaults s) -> bc_owner_ok from bc ->
  forall v, In v (vaults s') -> v_owner v <> VAULT.
Proof.
  intros Hfr HO Hpre Hv Hok v Hin. rewrite Hv in Hin.
  destruct bc as [|v0 v1|nv|v0|x0 x1|x]; cbn [bc_vaults bc_pre bc_owner_ok] in *; try (apply HO; exact Hin).
  - destruct Hpre as (Hf & _). apply (gput_in v_id) in Hin. destruct Hin as [->|Hin]; [|apply HO; exact Hin].
    rewrite Hok. apply (gfind_some v_id) in Hf. destruct Hf as [Hi _]. apply HO; exact Hi.
  - apply (gput_in v_id) in Hin. destruct Hin as [->|Hin]; [rewrite Hok; exact Hfr|apply HO; exact Hin].
  - apply (gdel_in v_id) in Hin. apply HO; exact Hin.
Qed.

Lemma upd3_hit {A} (f : Z -> Z -> Z -> A) k1 k2 k3 v : upd3 f k1 k2 k3 v k1 k2 k3 = v.
Proof. unfold upd3. rewrite !Z.eqb_refl. reflexivity. Qed.
Lemma upd3_cases {A} (f : Z -> Z -> Z -> A) k1 k2 k3 v x y z :
  (x = k1 /\ y = k2 /\ z = k3 /\ upd3 f k1 k2 k3 v x y z = v) \/ ((x <> k1 \/ y <> k2 \/ z <> k3) /\ upd3 f k1 k2 k3 v x y z = f x y z).
Proof.
  unfold upd3. destruct (Z.eqb_spec x k1); destruct (Z.eqb_spec y k2); destruct (Z.eqb_spec z k3); cbn [andb];
    first [left; repeat split; assumption | right; split; [tauto|reflexivity]].
Qed.

Lemma find_del_other l id id' : id' <> id -> find_v (del_v l id) id' = find_v l id'.
Proof.
  intros Hne. unfold find_v, del_v. induction l as [|y l IH]; cbn [gdel gfind]; [reflexivity|].
  destruct (Z.eqb_spec (v_id y) id) as [E|E].
  - destruct (Z.eqb_spec (v_id y) id'); [lia|reflexivity].
  - cbn [gfind]. destruct (v_id y =? id'); [reflexivity|exact IH].
Qed.

Lemma umap_step c s s' from bc : umap_ok s -> Forall (fun w => v_id w <= vid s) (vaults s) ->
  bc_pre c s bc -> bc_owner_ok from bc -> vaults s' = bc_vaults bc (vaults s) ->
  umap s' = match bc with
            | BNew v => upd3 (umap s) from (v_app v) (v_pair v) (Some (v_id v))
            | BDel v => upd3 (umap s) from (v_app v) (v_pair v) None
            | _ => umap s end ->
  umap_ok s'.
Proof.
  intros U HF Hpre Hok Hv Hu o a p id H. rewrite Hu in H. rewrite Hv.
  destruct bc as [|v0 v1|nv|v0|x0 x1|x]; cbn [bc_vaults bc_pre bc_owner_ok] in *; try exact (U o a p id H).
  - destruct Hpre as (Hf & Hid & Ha & Hp). destruct (U o a p id H) as (v & Fv & Eo & Ea & Ep).
    destruct (Z.eq_dec id (v_id v0)) as [->|Ne].
    + rewrite Hf in Fv. injection Fv as <-. exists v1. split; [apply find_put_same; exact Hid|]. repeat split; congruence.
    + exists v. split; [rewrite find_put_other by lia; exact Fv|]. repeat split; assumption.
  - destruct Hpre as (Hid & _).
    assert (Hfresh : find_v (vaults s) (v_id nv) = None) by (apply fresh_v; assumption).
    destruct (upd3_cases (umap s) from (v_app nv) (v_pair nv) (Some (v_id nv)) o a p) as [(-> & -> & -> & E)|[_ E]]; rewrite E in H.
    + injection H as <-. exists nv. split; [apply find_put_same; reflexivity|]. repeat split; first [exact Hok|reflexivity].
    + destruct (U o a p id H) as (v & Fv & Eo & Ea & Ep). exists v. split; [|repeat split; assumption].
      rewrite find_put_other; [exact Fv|]. intros Eq. rewrite <- Eq, Hfresh in Fv. discriminate Fv.
  - destruct (upd3_cases (umap s) from (v_app v0) (v_pair v0) None o a p) as [(-> & -> & -> & E)|[Hne E]]; rewrite E in H; [discriminate H|].
    destruct (U o a p id H) as (v & Fv & Eo & Ea & Ep). exists v. split; [|repeat split; assumption].
    rewrite find_del_other; [exact Fv|]. intros ->. rewrite Hpre in Fv. injection Fv as <-. rewrite Hok in Eo. intuition congruence.
Qed.

Lemma eff_step c l s' from bc fee : from <> VAULT -> InvL c l -> effect c (vs l) s' from bc fee -> bc_owner_ok from bc ->
  InvL c (set_vs l s').
Proof.
  intros Hf I E Hok. constructor.
  - change (view (set_vs l s')) with (shift s' (oc_of l) (opc_of l) (opm_of l)).
    exact (beffect_inv01 c _ _ bc (il_view _ _ I) (effect_shift c _ _ from bc fee _ _ _ Hf E)).
  - exact (owners_step c (vs l) s' from bc Hf (il_owner _ _ I) (ef_pre _ _ _ _ _ _ E) (ef_vaults _ _ _ _ _ _ E) Hok).
  - exact (umap_step c (vs l) s' from bc (il_umap _ _ I) (i_vid _ _ (il_view _ _ I)) (ef_pre _ _ _ _ _ _ E) Hok
             (ef_vaults _ _ _ _ _ _ E) (ef_umap _ _ _ _ _ _ E)).
  - exact (il_sorted _ _ I).
  - exact (il_lkid _ _ I).
  - intros k Hk. destruct (il_lk _ _ I k Hk) as (H1 & H2 & H3 & H4 & H5). repeat split; try assumption; try lia.
    cbn [vs set_vs]. rewrite (ef_found _ _ _ _ _ _ E), H4. reflexivity.
  - exact (il_au _ _ I).
Qed.

Lemma frame_step c l s' : InvL c l ->
  vaults s' = vaults (vs l) -> svaults s' = svaults (vs l) -> prods s' = prods (vs l) -> umap s' = umap (vs l) -> vlen s' = vlen (vs l) ->
  vid s' = vid (vs l) -> sid s' = sid (vs l) ->
  (forall d, bal s' VAULT d - unsol s' d = bal (vs l) VAULT d - unsol (vs l) d) -> InvL c (set_vs l s').
Proof.
  intros I Hv Hx Hp Hu Hl Hi Hsi Hb. constructor.
  - change (view (set_vs l s')) with (shift s' (oc_of l) (opc_of l) (opm_of l)).
    exact (shift_env c (vs l) s' _ _ _ (il_view _ _ I) Hv Hx Hp Hl Hi Hsi Hb).
  - cbn [vs set_vs]. rewrite Hv. exact (il_owner _ _ I).
  - cbn [vs set_vs]. unfold umap_ok. rewrite Hu, Hv. exact (il_umap _ _ I).
  - exact (il_sorted _ _ I).
  - exact (il_lkid _ _ I).
  - intros k Hk. destruct (il_lk _ _ I k Hk) as (H1 & H2 & H3 & H4 & H5). repeat split; try assumption; try lia.
    cbn [vs set_vs]. unfold pfound. rewrite Hp. exact H4.
  - exact (il_au _ _ I).
Qed.

Theorem vop_invL c l o s' : cfg_ok c -> user_op o -> InvL c l -> run c (vs l) o = Ok s' -> InvL c (set_vs l s').
Proof.
  intros CK [Hu _] I H. pose proof (invL_pe c l I) as PE. pose proof (invL_wf c l I) as W.
  destruct o; cbn [run sender] in *.
  - unfold msg_create in H. do 2 exec1 H.
    destruct (create_h_effect c (vs l) from app epid ain aout s' CK ltac:(lia) ltac:(lia) H) as (ep & cl & _ & _ & _ & _ & _ & _ & _ & _ & _ & E).
    apply (eff_step c l s' _ _ _ Hu I E). reflexivity.
  - unfold msg_deposit in H. do 2 exec1 H.
    destruct (deposit_h_effect c (vs l) from app epid id amt ienv s' PE W ltac:(lia) H) as (v0 & ep & _ & _ & _ & _ & _ & _ & _ & E).
    apply (eff_step c l s' _ _ _ Hu I E). reflexivity.
  - unfold msg_withdraw in H. do 2 exec1 H.
    destruct (withdraw_h_effect c (vs l) from app epid id amt ienv s' PE W ltac:(lia) H) as (v0 & ep & _ & _ & _ & _ & _ & _ & _ & E).
    apply (eff_step c l s' _ _ _ Hu I E). reflexivity.
  - unfold msg_draw in H. do 2 exec1 H.
    destruct (draw_h_effect c (vs l) from app epid id amt ienv s' CK PE W H) as (v0 & ep & _ & _ & _ & _ & _ & _ & _ & _ & _ & _ & _ & E).
    apply (eff_step c l s' _ _ _ Hu I E). reflexivity.
  - destruct (repay_effect c (vs l) from app epid id amt ienv s' PE W H) as (v0 & ep & _ & _ & _ & _ & _ & _ & _ & [[_ E]|(_ & _ & E)]);
      apply (eff_step c l s' _ _ _ Hu I E); reflexivity.
  - destruct (close_effect c (vs l) from app epid id ienv s' PE W H) as (v0 & ep & _ & _ & _ & _ & Hown & _ & E).
    apply (eff_step c l s' _ _ _ Hu I E). exact Hown.
  - unfold msg_deposit_draw in H. do 5 exec1 H. exec1 H.
    destruct (deposit_h_effect c (vs l) from app epid id amt i1 st PE W ltac:(lia) E) as (v0 & ep & _ & _ & _ & _ & _ & _ & _ & E1).
    assert (I1 : InvL c (set_vs l st)) by (apply (eff_step c l st _ _ _ Hu I E1); reflexivity).
    destruct (draw_h_effect c st from app epid id z0 i2 s' CK (invL_pe c _ I1) (invL_wf c _ I1) H) as (v1 & ep1 & _ & _ & _ & _ & _ & _ & _ & _ & _ & _ & _ & E2).
    change (set_vs l s') with (set_vs (set_vs l st) s').
    apply (eff_step c (set_vs l st) s' _ _ _ Hu I1 E2). reflexivity.
  - destruct (stable_create_effect c (vs l) from app epid amt s' CK H) as (ep & tout & _ & _ & _ & _ & _ & _ & _ & _ & E).
    apply (eff_step c l s' _ _ _ Hu I E). exact Logic.I.
  - destruct (stable_deposit_effect c (vs l) from app epid id amt s' CK PE H) as (x0 & ep & tout & _ & _ & _ & _ & _ & _ & _ & _ & _ & E).
    apply (eff_step c l s' _ _ _ Hu I E). exact Logic.I.
  - destruct (stable_withdraw_effect c (vs l) from app epid id amt s' CK PE H) as (x0 & ep & tout & upd & _ & _ & _ & _ & _ & _ & _ & _ & _ & E).
    apply (eff_step c l s' _ _ _ Hu I E). exact Logic.I.
  - destruct (interest_effect c (vs l) app id ienv s' W H) as (v0 & _ & _ & E).
    apply (eff_step c l s' 2 _ _ Hu I (E 2)). reflexivity.
  - unfold donate in H. exec1 H. exec1 H. apply send_spec in E. destruct E as (_ & b1 & -> & Hb1).
    injection H as <-. apply (frame_step c l); try reflexivity; [exact I|].
    intros x. ssimpl. rewrite Hb1. unfold xfer, at1. rewrite Z.eqb_refl. destruct (Z.eqb_spec VAULT from); [congruence|]. cbn [andb].
    destruct (x =? d); lia.
  - injection H as <-. apply (frame_step c l); try reflexivity; exact I.
  - injection H as <-. apply (frame_step c l); try reflexivity; exact I.
  - injection H as <-. apply (frame_step c l); try reflexivity; exact I.
  - injection H as <-. apply (frame_step c l); try reflexivity; exact I.
  - injection H as <-. apply (frame_step c l); try reflexivity; exact I.
Qed.

(* ---------- keyed lists, generic ---------- *)
Section KV2.
  Context {A : Type} (key : A -> Z).
  Lemma gfind_app_old l x id : key x <> id -> gfind key (l ++ [x]) id = gfind key l id.
  Proof.
    intros Hne. induction l as [|y l IH]; cbn [app gfind].
    - destruct (Z.eqb_spec (key x) id); [contradiction|reflexivity].
    - destruct (key y =? id); [reflexivity|exact IH].
  Qed.
  Lemma gfind_app_new l x : gfind key l (key x) = None -> gfind key (l ++ [x]) (key x) = Some x.
  Proof.
    induction l as [|y l IH]; cbn [app gfind]; intros H.
    - rewrite Z.eqb_refl. reflexivity.
    - destruct (key y =? key x); [discriminate|exact (IH H)].
  Qed.
  Lemma gfind_gdel_other l id id' : id' <> id -> gfind key (gdel key l id) id' = gfind key l id'.
  Proof.
    intros Hne. induction l as [|y l IH]; cbn [gdel gfind]; [reflexivity|].
    destruct (Z.eqb_spec (key y) id) as [E|E].
    - destruct (Z.eqb_spec (key y) id'); [lia|reflexivity].
    - cbn [gfind]. destruct (key y =? id'); [reflexivity|exact IH].
  Qed.
  Lemma gfind_gdel_same l id : NoDup (map key l) -> gfind key (gdel key l id) id = None.
  Proof.
    induction l as [|y l IH]; cbn [gdel gfind map]; intros Hnd; [reflexivity|].
    inversion Hnd as [|? ? Hny Hnd']; subst. destruct (Z.eqb_spec (key y) id) as [E|E].
    - apply gfind_notin. rewrite <- E. exact Hny.
    - cbn [gfind]. destruct (Z.eqb_spec (key y) id); [contradiction|]. exact (IH Hnd').
  Qed.
  Lemma gfind_gput_other l v id : key v <> id -> gfind key (gput key l v) id = gfind key l id.
  Proof.
    intros Hne. induction l as [|w l IH]; cbn [gput gfind].
    - destruct (Z.eqb_spec (key v) id); [contradiction|reflexivity].
    - destruct (Z.eqb_spec (key w) (key v)) as [E|E]; cbn [gfind].
      + destruct (Z.eqb_spec (key v) id); [contradiction|]. destruct (Z.eqb_spec (key w) id); [lia|reflexivity].
      + destruct (key w =? id); [reflexivity|exact IH].
  Qed.
  Lemma fresh_key l x bound : Forall (fun w => key w <= bound) l -> key x = bound + 1 -> gfind key l (key x) = None.
  Proof.
    intros HF Hx. apply gfind_notin. intros Hin. apply in_map_iff in Hin. destruct Hin as (w & Hw & Hin).
    rewrite Forall_forall in HF. specialize (HF _ Hin). lia.
  Qed.
End KV2.

Lemma lkin_touched v a p k : lk_app k = v_app v -> lk_pair k = v_pair v -> lkin a p k = touched (BDel v) a p.
Proof.
  intros Ha Hp. unfold lkin, touched. cbn [bc_app bc_pair]. rewrite Ha, Hp, (Z.eqb_sym a), (Z.eqb_sym p). reflexivity.
Qed.

Lemma liquidate_invL c lc l id ie intk keeper l' : cfg_ok c -> (intk = true -> keeper <> VAULT) -> InvL c l ->
  liquidate c lc l id ie intk keeper = Ok l' -> InvL c l'.
Proof.
  intros CK Hkeep I H. pose proof (invL_pe c l I) as PE. pose proof (invL_wf c l I) as W.
  unfold liquidate in H. cbv zeta in H.
  exec_checks H. exec1 H. exec1 H; [injection H as <-; exact I|].
  exec_accrue H. bc_simpl.
  exec1 H. exec1 H. exec1 H. exec1 H. exec1 H. exec1 H. exec1 H. exec1 H.
  injection H as <-.
  apply csend_spec in E1. destruct E1 as (b1 & -> & Hb1).
  pose proof (find_v_id _ _ _ M) as Hvid. pose proof (prods_exist_v _ _ _ PE M) as Hpf.
  pose proof (vwf_found _ _ _ W M) as (W1 & W2 & W3 & W4).
  pose proof (denom_in_ep _ _ _ M0) as Hdi. pose proof (denom_out_ep _ _ _ M0) as Hdo.
  assert (Hvin : In v (vaults (vs l))) by (apply (gfind_some v_id) in M; tauto).
  unfold dec_len. ssimpl.
  match goal with |- context [prod_del_id ?st ?a0 ?p0 ?m] =>
    assert (Hpf3 : pfound st a0 p0 = true) by exact Hpf;
    destruct (prod_del_id_spec st a0 p0 m Hpf3) as (f3 & -> & Hf31 & Hf32 & Hf33 & Hf34) end.
  ssimpl. rewrite del_put by reflexivity.
  set (nk := mkLK (lkid l + 1) (v_app v) (v_pair v) (v_owner v) (v_in v) (v_out v + (v_int v + ie) + v_fee v) z intk keeper (v_out v)).
  assert (Hfresh : find_lk (lks l) (lk_id nk) = None) by (apply (fresh_key lk_id _ _ (lkid l)); [exact (il_lkid _ _ I)|reflexivity]).
  assert (Hput : put_lk (lks l) nk = lks l ++ [nk]) by (apply (gput_new lk_id); exact Hfresh).
  rewrite Hput.
  constructor; cbn [vs lks aus lkid auid].
  - (* the books *)
    apply (beffect_inv01 c _ _ (BDel v) (il_view _ _ I)). unfold view. cbn [vs].
    apply beffect_shift; cbn [bc_pre bc_wf bc_vaults bc_svaults bc_din bc_dout bc_ids bc_pair]; ssimpl; try reflexivity; try exact Logic.I;
      try (rewrite ?Hvid; first [exact M | reflexivity]).
    + intros a p. unfold opc_of, lock_coll. cbn [lks er_coll]. rewrite wsum_app, wsum_cons, wsum_nil.
      rewrite (lkin_touched v a p nk) by reflexivity. unfold pcoll at 1. ssimpl. fold (fcoll f3 a p). rewrite Hf32. rewrite <- pcoll_f.
      cbn [lk_coll nk]. destruct (touched (BDel v) a p); lia.
    + intros a p. unfold opm_of, lock_prin. cbn [lks er_mint drift]. rewrite wsum_app, wsum_cons, wsum_nil.
      rewrite (lkin_touched v a p nk) by reflexivity. unfold pmint at 1. ssimpl. fold (fmint f3 a p). rewrite Hf33. rewrite <- pmint_f.
      cbn [lk_prin nk]. destruct (touched (BDel v) a p); lia.
    + intros a p. unfold pids at 1. ssimpl. fold (fids f3 a p). rewrite Hf34, <- pids_f. unfold touched. cbn [bc_app bc_pair]. reflexivity.
    + intros d. unfold oc_of. cbn [er_short]. rewrite Hb1. ssimpl. rewrite Hdi. unfold xfer.
      replace (Z.max 0 (v_in v)) with (v_in v) by lia.
      change (VAULT =? AUC) with false. rewrite Z.eqb_refl. cbn [andb]. rewrite (Z.eqb_sym d). destruct (ep_in e =? d); lia.
  - intros w Hw. apply (gdel_in v_id) in Hw. apply (il_owner _ _ I). exact Hw.
  - apply (umap_step c (vs l) _ (v_owner v) (BDel v) (il_umap _ _ I) (i_vid _ _ (il_view _ _ I))); cbn [bc_pre bc_owner_ok bc_vaults]; ssimpl;
      try reflexivity. rewrite Hvid. exact M.
  - rewrite map_app. cbn [map]. apply sorted_snoc; [exact (il_sorted _ _ I)|].
    pose proof (il_lkid _ _ I) as HF. rewrite Forall_forall in *. intros k Hk. apply in_map_iff in Hk. destruct Hk as (w & <- & Hw).
    specialize (HF _ Hw). cbn [lk_id nk]. lia.
  - apply Forall_app. split.
    + pose proof (il_lkid _ _ I) as HF. rewrite Forall_forall in *. intros k Hk. specialize (HF _ Hk). lia.
    + constructor; [cbn [lk_id nk]; lia|constructor].
  - intros k Hk. apply in_app_or in Hk. destruct Hk as [Hk|[<-|[]]].
    + destruct (il_lk _ _ I k Hk) as (H1 & H2 & H3 & H4 & H5). repeat split; try assumption; try lia.
      cbn [vs]. unfold pfound. ssimpl. fold (ffound f3 (lk_app k) (lk_pair k)). rewrite Hf31. exact H4.
    + unfold lk_ok. cbn [lk_owner lk_intk lk_keeper lk_prin lk_debt lk_app lk_pair nk vs]. repeat split; try lia; try exact Hkeep.
      * apply (il_owner _ _ I). exact Hvin.
      * unfold pfound. ssimpl. fold (ffound f3 (v_app v) (v_pair v)). rewrite Hf31. exact Hpf.
      * exact (i_kind_v _ _ (il_view _ _ I) v Hvin).
  - apply orb_false_iff in C3. destruct C3 as [C3a C3b].
    intros a Ha. apply (gput_in au_id) in Ha. destruct Ha as [->|Ha].
    + unfold au_ok. cbn [au_lock au_cin au_cout au_app au_coll au_debt lkid lks]. split; [lia|]. split; [lia|]. split; [lia|].
      intros k Hk. change (lkid l + 1) with (lk_id nk) in Hk. unfold find_lk in Hk. rewrite (gfind_app_new lk_id _ _ Hfresh) in Hk. injection Hk as <-.
      cbn [lk_pair lk_app nk]. rewrite Hdi, Hdo. repeat split; reflexivity.
    + destruct (il_au _ _ I a Ha) as (A1 & A2 & A3 & A4). unfold au_ok. cbn [lkid lks]. split; [lia|]. split; [lia|]. split; [lia|].
      intros k Hk. unfold find_lk in Hk. rewrite (gfind_app_old lk_id) in Hk by (cbn [lk_id nk]; lia). exact (A4 k Hk).
Qed.

Lemma keep_invL c l x : InvL c l -> (forall l', x = Ok l' -> InvL c l') -> InvL c (keep x l).
Proof. intros I H. destruct x as [l'| |]; cbn [keep]; [apply H; reflexivity|exact I|exact I]. Qed.

Lemma sweep_invL c lc items : cfg_ok c -> forall l, InvL c l -> InvL c (sweep c lc l items).
Proof.
  intros CK. unfold sweep. induction items as [|it items IH]; intros l I; cbn [fold_left]; [exact I|].
  apply IH. apply keep_invL; [exact I|]. intros l' H. exact (liquidate_invL c lc l _ _ false 0 l' CK ltac:(discriminate) I H).
Qed.

Lemma AUC_ne : AUC <> VAULT. Proof. discriminate. Qed.
Lemma LIQ_ne : LIQ <> VAULT. Proof. discriminate. Qed.
Lemma ESMA_ne : ESMA <> VAULT. Proof. discriminate. Qed.
Lemma COLL_ne : COLL <> VAULT. Proof. discriminate. Qed.

(* ---------- transfers that leave the books and the custody row alone ---------- *)
Record bsame (s s' : state) : Prop := mkBS {
  bs_vaults : vaults s' = vaults s; bs_svaults : svaults s' = svaults s; bs_prods : prods s' = prods s;
  bs_umap : umap s' = umap s; bs_vlen : vlen s' = vlen s; bs_vid : vid s' = vid s; bs_sid : sid s' = sid s;
  bs_unsol : unsol s' = unsol s; bs_cust : forall d, bal s' VAULT d = bal s VAULT d;
  bs_now : now s' = now s; bs_price : price s' = price s; bs_esm : esm s' = esm s; bs_snap : snap s' = snap s; bs_brk : brk s' = brk s
}.

Lemma bsame_refl s : bsame s s.
Proof. constructor; reflexivity. Qed.
Lemma bsame_trans s1 s2 s3 : bsame s1 s2 -> bsame s2 s3 -> bsame s1 s3.
Proof.
  intros A B. constructor; try (etransitivity; [apply B|apply A]);
    intros d; rewrite (bs_cust _ _ B), (bs_cust _ _ A); reflexivity.
Qed.

Lemma send_bsame s f t d amt s' : f <> VAULT -> t <> VAULT -> send s f t d amt = Ok s' -> bsame s s' /\ sup s' = sup s.
Proof.
  intros Hf Ht H. apply send_spec in H. destruct H as (_ & b' & -> & Hb). split; [|reflexivity].
  constructor; try reflexivity. intros x. ssimpl. rewrite Hb. unfold xfer.
  destruct (Z.eqb_spec VAULT t); [congruence|]. destruct (Z.eqb_spec VAULT f); [congruence|]. cbn [andb]. lia.
Qed.
Lemma csend_bsame s f t d amt s' : f <> VAULT -> t <> VAULT -> (if amt >? 0 then send s f t d amt else Ok s) = Ok s' ->
  bsame s s' /\ sup s' = sup s.
Proof.
  intros Hf Ht H. destruct (amt >? 0); [exact (send_bsame _ _ _ _ _ _ Hf Ht H)|]. injection H as <-. split; [apply bsame_refl|reflexivity].
Qed.
Lemma cburn_from_bsame s acct d amt s' : acct <> VAULT -> 0 <= amt -> (if amt >? 0 then burn_from s acct d amt else Ok s) = Ok s' ->
  bsame s s' /\ forall x, sup s' x = sup s x - at1 d amt x.
Proof.
  intros Ha Hamt H. destruct (Z.gtb_spec amt 0).
  - unfold burn_from in H. destruct (amt <? 0); [discriminate|]. destruct (bal s acct d <? amt); [discriminate|]. injection H as <-.
    split; [|intros x; reflexivity]. constructor; try reflexivity. intros x. ssimpl. unfold at2.
    destruct (Z.eqb_spec VAULT acct); [congruence|]. cbn [andb]. lia.
  - injection H as <-. split; [apply bsame_refl|]. intros x. replace amt with 0 by lia. unfold at1. destruct (x =? d); lia.
Qed.

(* the part of an lstate a bid does not touch *)
Lemma withdraw_reserve_spec l app asset amt l1 : withdraw_reserve l app asset amt = Ok l1 ->
  exists s1 r', l1 = mkL s1 (lks l) (aus l) (lkid l) (auid l) (ereg l) (edebt l) r' (drift l) (er_mint l) (er_coll l) (er_short l) (over l) /\
    bsame (vs l) s1 /\ sup s1 = sup (vs l).
Proof.
  unfold withdraw_reserve. intros H. do 3 exec1 H. injection H as <-.
  destruct (csend_bsame (vs l) LIQ AUC asset amt st LIQ_ne AUC_ne E) as [B S].
  eexists _, _. split; [reflexivity|]. split; assumption.
Qed.

Definition closes (l : lstate) (a : auct) (lk : lockedv) (s' : state) (r' : Z -> Z -> option Z) : lstate :=
  mkL (upd_coll (upd_mint s' (au_app a) (lk_pair lk) (lk_debt lk) false) (au_app a) (lk_pair lk) (lk_coll lk) false)
      (del_lk (lks l) (lk_id lk)) (del_au (aus l) (au_id a)) (lkid l) (auid l) (ereg l) (edebt l) r'
      (add2 (drift l) (au_app a) (lk_pair lk) (lk_debt lk - lk_prin lk)) (er_mint l) (er_coll l) (er_short l)
      (add1 (over l) (au_cout a) (lk_debt lk - lk_prin lk)).

Lemma bid_spec lc l aid who paid recv closed exh topup l' : who <> VAULT ->
  (forall k, In k (lks l) -> lk_owner k <> VAULT /\ (lk_intk k = true -> lk_keeper k <> VAULT)) ->
  bid lc l aid who paid recv closed exh topup = Ok l' ->
  exists a lk, find_au (aus l) aid = Some a /\ find_lk (lks l) (au_lock a) = Some lk /\
    if closed then
      exists s' r', l' = closes l a lk s' r' /\ bsame (vs l) s' /\ 0 <= lk_debt lk /\
        forall x, sup s' x = sup (vs l) x - at1 (au_cout a) (lk_debt lk) x
    else
      exists s', l' = mkL s' (lks l) (put_au (aus l) (mkAU (au_id a) (au_app a) (au_lock a) (au_cin a) (au_cout a) (au_coll a - recv) (au_debt a - paid) (au_end a)))
                          (lkid l) (auid l) (ereg l) (edebt l) (rsv l) (drift l) (er_mint l) (er_coll l) (er_short l) (over l) /\
        bsame (vs l) s' /\ sup s' = sup (vs l).
Proof.
  intros Hw HL H. unfold bid in H. cbv zeta in H. exec1 H. exec1 H. rename M into Ma. rename M0 into Mk.
  exists a, l0. split; [first [exact Ma|reflexivity]|]. split; [first [exact Mk|reflexivity]|].
  destruct (gfind_some lk_id _ _ _ Mk) as [Hin _].
  destruct (HL _ Hin) as [Ho Hkp].
  destruct (gfind_some au_id _ _ _ Ma) as [_ Haid].
  destruct closed.
  - exec1 H. rename st into l1.
    assert (L1 : exists s1 r', l1 = mkL s1 (lks l) (aus l) (lkid l) (auid l) (ereg l) (edebt l) r' (drift l) (er_mint l) (er_coll l) (er_short l) (over l) /\
               bsame (vs l) s1 /\ sup s1 = sup (vs l)).
    { destruct exh; [exact (withdraw_reserve_spec _ _ _ _ _ E)|]. injection E as <-. exists (vs l), (rsv l). split; [destruct l; reflexivity|].
      split; [apply bsame_refl|reflexivity]. }
    destruct L1 as (s1 & r' & -> & B1 & S1). clear E. cbn [vs lks aus lkid auid ereg edebt rsv drift er_mint er_coll er_short over] in H.
    exec1 H. exec1 H. exec1 H. exec1 H. exec1 H. exec1 H.
    match type of H with obind ?X _ = _ => destruct X as [[s5 pen]| |] eqn:E3; cbn [obind] in H; try discriminate H end.
    assert (K : bsame st2 s5 /\ sup s5 = sup st2).
    { destruct (lk_intk l0) eqn:Ik.
      - destruct (fee_share _ _) as [ki|]; [|discriminate E3]. destruct (ki >? 0).
        + destruct (lk_fee l0 - ki <? 0); [discriminate E3|].
          destruct (send st2 AUC (lk_keeper l0) (au_cout a) ki) as [x| |] eqn:Es; cbn [obind] in E3; try discriminate E3.
          injection E3 as <- <-. exact (send_bsame _ _ _ _ _ _ AUC_ne (Hkp eq_refl) Es).
        + injection E3 as <- <-. split; [apply bsame_refl|reflexivity].
      - injection E3 as <- <-. split; [apply bsame_refl|reflexivity]. }
    destruct K as [Bk Sk]. cbv beta iota in H.
    match type of H with obind ?X _ = _ => destruct X as [s6| |] eqn:E4; cbn [obind] in H; try discriminate H end.
    match type of H with obind ?X _ = _ => destruct X as [s7| |] eqn:E5; cbn [obind] in H; try discriminate H end.
    apply update_collector_spec in E5. destruct E5 as [_ ->].
    injection H as <-.
    destruct (csend_bsame _ _ _ _ _ _ Hw AUC_ne E) as [Ba Sa].
    destruct (csend_bsame _ _ _ _ _ _ AUC_ne Hw E0) as [Bb Sb].
    assert (Hd0 : 0 <= lk_debt l0) by lia. destruct (cburn_from_bsame _ _ _ _ _ AUC_ne Hd0 E1) as [Bc Sc].
    destruct (csend_bsame _ _ _ _ _ _ AUC_ne Ho E2) as [Bd Sd].
    destruct (csend_bsame _ _ _ _ _ _ AUC_ne COLL_ne E4) as [Be Se].
    exists s6, r'. split; [unfold closes; rewrite Haid; reflexivity|].
    split; [exact (bsame_trans _ _ _ B1 (bsame_trans _ _ _ Ba (bsame_trans _ _ _ Bb (bsame_trans _ _ _ Bc (bsame_trans _ _ _ Bd (bsame_trans _ _ _ Bk Be))))))|].
    split; [lia|]. intros x. rewrite Se, Sk, Sd, Sc, Sb, Sa, S1. reflexivity.
  - do 3 exec1 H. injection H as <-.
    destruct (csend_bsame _ _ _ _ _ _ Hw AUC_ne E) as [Ba Sa].
    destruct (csend_bsame _ _ _ _ _ _ AUC_ne Hw E0) as [Bb Sb].
    exists st0. split; [reflexivity|]. split; [exact (bsame_trans _ _ _ Ba Bb)|]. rewrite Sb, Sa. reflexivity.
Qed.

Lemma bsame_view c l s' : InvL c l -> bsame (vs l) s' -> Inv01 c (shift s' (oc_of l) (opc_of l) (opm_of l)).
Proof.
  intros I B. apply (shift_env c (vs l) s' _ _ _ (il_view _ _ I)); try apply B.
  intros d. rewrite (bs_cust _ _ B), (bs_unsol _ _ B). reflexivity.
Qed.

Lemma lkin_sym a p k a0 : a0 = lk_app k -> lkin a p k = (a =? a0) && (p =? lk_pair k).
Proof. intros ->. unfold lkin. rewrite (Z.eqb_sym a), (Z.eqb_sym p). reflexivity. Qed.

Lemma bid_invL c lc l aid who paid recv closed exh topup l' : who <> VAULT ->
  (forall a, find_au (aus l) aid = Some a -> 0 <= paid <= au_debt a /\ 0 <= recv <= au_coll a) -> InvL c l ->
  bid lc l aid who paid recv closed exh topup = Ok l' -> InvL c l'.
Proof.
  intros Hw Henv I H.
  assert (HL : forall k, In k (lks l) -> lk_owner k <> VAULT /\ (lk_intk k = true -> lk_keeper k <> VAULT)).
  { intros k Hk. destruct (il_lk _ _ I k Hk) as (H1 & H2 & _). split; assumption. }
  destruct (bid_spec lc l aid who paid recv closed exh topup l' Hw HL H) as (a & lk & Ma & Mk & Hc).
  destruct (gfind_some lk_id _ _ _ Mk) as [Hkin Hkid]. destruct (gfind_some au_id _ _ _ Ma) as [Hain Haid].
  destruct (il_lk _ _ I lk Hkin) as (K1 & K2 & K3 & K4 & K5).
  destruct (il_au _ _ I a Hain) as (A1 & Ac & Ad & A2). destruct (A2 lk Mk) as (A5 & A3 & A4).
  destruct (Henv a Ma) as [Ep Er].
  destruct closed.
  - destruct Hc as (s' & r' & -> & B & Hd & Hs). unfold closes.
    assert (Hpf : pfound s' (au_app a) (lk_pair lk) = true) by (unfold pfound; rewrite (bs_prods _ _ B), A4; exact K4).
    destruct (upd_mint_spec s' (au_app a) (lk_pair lk) (lk_debt lk) false Hpf) as (f1 & -> & Hf11 & Hf12 & Hf13 & Hf14).
    assert (Hpf2 : pfound (set_prods s' f1) (au_app a) (lk_pair lk) = true) by (rewrite pfound_set, Hf11, <- pfound_f; exact Hpf).
    destruct (upd_coll_spec _ (au_app a) (lk_pair lk) (lk_coll lk) false Hpf2) as (f2 & -> & Hf21 & Hf22 & Hf23 & Hf24).
    ssimpl.
    constructor; cbn [vs lks aus lkid auid].
    + apply (beffect_inv01 c _ _ BNone (bsame_view c l s' I B)). unfold view. cbn [vs].
      apply beffect_shift; cbn [bc_pre bc_wf bc_vaults bc_svaults bc_din bc_dout bc_ids bc_pair touched]; ssimpl; try reflexivity; try exact Logic.I.
      * intros a' p'. unfold opc_of, lock_coll. cbn [lks er_coll]. unfold del_lk. rewrite (gdel_wsum lk_id _ _ _ lk) by (rewrite Hkid; exact Mk).
        rewrite (lkin_sym a' p' lk (au_app a) A4). unfold pcoll at 1. ssimpl. fold (fcoll f2 a' p'). rewrite Hf22. ssimpl. rewrite Hf12, <- pcoll_f.
        destruct ((a' =? au_app a) && (p' =? lk_pair lk)); lia.
      * intros a' p'. unfold opm_of, lock_prin, add2. cbn [lks er_mint drift]. unfold del_lk. rewrite (gdel_wsum lk_id _ _ _ lk) by (rewrite Hkid; exact Mk).
        rewrite (lkin_sym a' p' lk (au_app a) A4). unfold pmint at 1. ssimpl. fold (fmint f2 a' p'). rewrite Hf23. ssimpl. rewrite Hf13, <- pmint_f.
        destruct ((a' =? au_app a) && (p' =? lk_pair lk)); lia.
      * intros a' p'. unfold pids at 1. ssimpl. fold (fids f2 a' p'). rewrite Hf24. ssimpl. rewrite Hf14. reflexivity.
      * intros d. unfold oc_of. cbn [er_short]. destruct (_ =? d); lia.
    + intros v Hv. apply (il_owner _ _ I). rewrite <- (bs_vaults _ _ B). exact Hv.
    + unfold umap_ok. ssimpl. rewrite (bs_umap _ _ B), (bs_vaults _ _ B). exact (il_umap _ _ I).
    + apply gdel_sorted. exact (il_sorted _ _ I).
    + pose proof (il_lkid _ _ I) as HF. rewrite Forall_forall in *. intros k Hk. apply (gdel_in lk_id) in Hk. exact (HF _ Hk).
    + intros k Hk. apply (gdel_in lk_id) in Hk. destruct (il_lk _ _ I k Hk) as (H1 & H2 & H3 & H4 & H5). repeat split; try assumption; try lia.
      cbn [vs]. unfold pfound. ssimpl. fold (ffound f2 (lk_app k) (lk_pair k)). rewrite Hf21. ssimpl. rewrite Hf11. unfold ffound. rewrite (bs_prods _ _ B). exact H4.
    + intros a' Ha'. apply (gdel_in au_id) in Ha'. destruct (il_au _ _ I a' Ha') as (B1 & Bc & Bd & B2).
      split; [exact B1|]. split; [exact Bc|]. split; [exact Bd|]. cbn [lks]. intros k Hk.
      destruct (Z.eq_dec (au_lock a') (lk_id lk)) as [Eq|Ne].
      * unfold find_lk, del_lk in Hk. rewrite Eq, (gfind_gdel_same lk_id) in Hk by (apply sorted_nodup; exact (il_sorted _ _ I)). discriminate.
      * unfold find_lk, del_lk in Hk. rewrite (gfind_gdel_other lk_id) in Hk by exact Ne. exact (B2 k Hk).
  - destruct Hc as (s' & -> & B & Hs).
    constructor; cbn [vs lks aus lkid auid].
    + exact (bsame_view c l s' I B).
    + intros v Hv. apply (il_owner _ _ I). rewrite <- (bs_vaults _ _ B). exact Hv.
    + unfold umap_ok. rewrite (bs_umap _ _ B), (bs_vaults _ _ B). exact (il_umap _ _ I).
    + exact (il_sorted _ _ I).
    + exact (il_lkid _ _ I).
    + intros k Hk. destruct (il_lk _ _ I k Hk) as (H1 & H2 & H3 & H4 & H5). repeat split; try assumption; try lia.
      cbn [vs]. unfold pfound. rewrite (bs_prods _ _ B). exact H4.
    + intros a' Ha'. apply (gput_in au_id) in Ha'. destruct Ha' as [->|Ha']; [|exact (il_au _ _ I a' Ha')].
      unfold au_ok. cbn [au_lock au_coll au_debt au_cin au_cout au_app]. split; [exact A1|]. split; [lia|]. split; [lia|]. exact A2.
Qed.


(* ---------- auctionsV2 TriggerEsm: the ESM auction return ---------- *)
Lemma create_new_vault_spec c s owner app pair ain aout s' : umap_ok s -> pfound s app pair = true ->
  Forall (fun w => v_id w <= vid s) (vaults s) ->
  (exists ep, get_ep c pair = Some ep /\ ep_stable ep = false) -> 0 <= ain -> 0 <= aout -> VWf s ->
  create_new_vault s owner app pair ain aout = Ok s' ->
  exists bc, bc_pre c s bc /\ bc_wf bc /\ bc_app bc = app /\ bc_pair bc = pair /\ bc_din bc = ain /\ bc_dout bc = aout /\
    (match bc with BUpd v0 v1 => v_owner v1 = v_owner v0 | BNew v => v_owner v = owner | _ => False end) /\
    vaults s' = bc_vaults bc (vaults s) /\ svaults s' = svaults s /\
    vlen s' = (match bc with BNew _ => vlen s + 1 | _ => vlen s end) /\
    vid s' = (match bc with BNew v => v_id v | _ => vid s end) /\ sid s' = sid s /\
    umap s' = (match bc with BNew v => upd3 (umap s) owner app pair (Some (v_id v)) | _ => umap s end) /\
    unsol s' = unsol s /\ bal s' = bal s /\ sup s' = sup s /\
    (forall a' p', pfound s' a' p' = pfound s a' p') /\ (forall a' p', pcoll s' a' p' = pcoll s a' p') /\
    (forall a' p', pmint s' a' p' = pmint s a' p') /\
    (forall a' p', pids s' a' p' = if touched bc a' p' then bc_ids bc (pids s a' p') else pids s a' p').
Proof.
  intros U Hpf HF Hk Hain Haout W H. unfold create_new_vault in H.
  destruct (umap s owner app pair) as [vid0|] eqn:Um.
  - destruct (find_v (vaults s) vid0) as [v|] eqn:Fv; [|discriminate H]. injection H as <-.
    destruct (U _ _ _ _ Um) as (v' & Fv' & Eo & Ea & Ep). rewrite Fv in Fv'. injection Fv' as <-.
    pose proof (find_v_id _ _ _ Fv) as Hvid. destruct (vwf_found _ _ _ W Fv) as (W1 & W2 & W3 & W4).
    exists (BUpd v (with_out (with_in v (v_in v + ain)) (v_out v + aout))). cbn [bc_pre bc_wf bc_app bc_pair bc_din bc_dout bc_vaults touched bc_ids]. ssimpl.
    repeat split; try reflexivity; try assumption; try (cbn; lia).
    + rewrite Hvid. exact Fv.
    + intros a' p'. destruct (_ && _); reflexivity.
  - injection H as <-.
    exists (BNew (mkV (vid s + 1) owner app pair ain aout 0 0)). cbn [bc_pre bc_wf bc_app bc_pair bc_din bc_dout bc_vaults touched bc_ids v_id v_app v_pair v_in v_out v_owner].
    unfold prod_add_id. unfold pfound in Hpf. destruct (prods s app pair) as [pr|] eqn:Pr; [|discriminate Hpf]. ssimpl. rewrite Pr.
    repeat split; try reflexivity; try assumption; try (cbn; lia).
    + intros a' p'. unfold pfound. ssimpl. unfold upd2. destruct (Z.eqb_spec a' app) as [->|]; destruct (Z.eqb_spec p' pair) as [->|]; cbn [andb]; rewrite ?Pr; reflexivity.
    + intros a' p'. unfold pcoll. ssimpl. unfold upd2. destruct (Z.eqb_spec a' app) as [->|]; destruct (Z.eqb_spec p' pair) as [->|]; cbn [andb]; rewrite ?Pr; reflexivity.
    + intros a' p'. unfold pmint. ssimpl. unfold upd2. destruct (Z.eqb_spec a' app) as [->|]; destruct (Z.eqb_spec p' pair) as [->|]; cbn [andb]; rewrite ?Pr; reflexivity.
    + intros a' p'. unfold pids. ssimpl. unfold upd2. destruct (Z.eqb_spec a' app) as [->|]; destruct (Z.eqb_spec p' pair) as [->|]; cbn [andb]; rewrite ?Pr; reflexivity.
Qed.

Lemma trigger_esm_spec c l a lk l' : InvL c l -> In a (aus l) -> find_lk (lks l) (au_lock a) = Some lk ->
  trigger_esm l a lk = Ok l' ->
  exists bc tb, 0 <= tb /\
    bc_pre c (vs l) bc /\ bc_wf bc /\ bc_app bc = au_app a /\ bc_pair bc = lk_pair lk /\ bc_din bc = au_coll a /\ bc_dout bc = au_debt a /\
    (match bc with BUpd v0 v1 => v_owner v1 = v_owner v0 | BNew v => v_owner v = lk_owner lk | _ => False end) /\
    vaults (vs l') = bc_vaults bc (vaults (vs l)) /\ svaults (vs l') = svaults (vs l) /\
    vlen (vs l') = (match bc with BNew _ => vlen (vs l) + 1 | _ => vlen (vs l) end) /\
    vid (vs l') = (match bc with BNew v => v_id v | _ => vid (vs l) end) /\ sid (vs l') = sid (vs l) /\
    umap (vs l') = (match bc with BNew v => upd3 (umap (vs l)) (lk_owner lk) (au_app a) (lk_pair lk) (Some (v_id v)) | _ => umap (vs l) end) /\
    unsol (vs l') = unsol (vs l) /\ (forall d, bal (vs l') VAULT d = bal (vs l) VAULT d) /\
    (forall x, sup (vs l') x = sup (vs l) x - at1 (au_cout a) tb x) /\
    (forall a' p', pfound (vs l') a' p' = pfound (vs l) a' p') /\
    (forall a' p', pcoll (vs l') a' p' = pcoll (vs l) a' p' - (if (a' =? au_app a) && (p' =? lk_pair lk) then lk_coll lk - au_coll a else 0)) /\
    (forall a' p', pmint (vs l') a' p' = pmint (vs l) a' p' - (if (a' =? au_app a) && (p' =? lk_pair lk) then tb else 0)) /\
    (forall a' p', pids (vs l') a' p' = if touched bc a' p' then bc_ids bc (pids (vs l) a' p') else pids (vs l) a' p') /\
    lks l' = lks l /\ aus l' = aus l /\ lkid l' = lkid l /\ auid l' = auid l /\ edebt l' = edebt l /\ drift l' = drift l /\
    er_mint l' = add2 (er_mint l) (au_app a) (lk_pair lk) (au_debt a + tb) /\
    er_coll l' = add2 (er_coll l) (au_app a) (lk_pair lk) (lk_coll lk) /\
    er_short l' = add1 (er_short l) (au_cin a) (au_coll a) /\
    over l' = add1 (over l) (au_cout a) (au_debt a + tb).
Proof.
  intros I Hain Mk H. pose proof (invL_wf c l I) as W.
  destruct (gfind_some lk_id _ _ _ Mk) as [Hkin Hkid].
  destruct (il_lk _ _ I lk Hkin) as (K1 & K2 & K3 & K4 & K5).
  destruct (il_au _ _ I a Hain) as (A1 & Ac & Ad & A2). destruct (A2 lk Mk) as (A5 & A3 & A4).
  rewrite <- A4 in K4.
  unfold trigger_esm in H. cbv zeta in H. exec1 H.
  match type of H with obind ?X _ = _ => destruct X as [[[s2 tr] tb]| |] eqn:E1; cbn [obind] in H; try discriminate H end.
  cbv beta iota in H.
  assert (F2 : vaults s2 = vaults (vs l) /\ svaults s2 = svaults (vs l) /\ umap s2 = umap (vs l) /\ vlen s2 = vlen (vs l) /\
               vid s2 = vid (vs l) /\ sid s2 = sid (vs l) /\ unsol s2 = unsol (vs l) /\ (forall d, bal s2 VAULT d = bal (vs l) VAULT d) /\
               (forall x, sup s2 x = sup (vs l) x - at1 (au_cout a) tb x) /\
               (forall a' p', pfound s2 a' p' = pfound (vs l) a' p') /\ (forall a' p', pcoll s2 a' p' = pcoll (vs l) a' p') /\
               (forall a' p', pmint s2 a' p' = pmint (vs l) a' p' - (if (a' =? au_app a) && (p' =? lk_pair lk) then tb else 0)) /\
               (forall a' p', pids s2 a' p' = pids (vs l) a' p') /\ 0 <= tb).
  { destruct (lk_debt lk + lk_fee lk - au_debt a >? lk_fee lk) eqn:Cf.
    - match type of E1 with obind ?X _ = _ => destruct X as [s1| |] eqn:Eb; cbn [obind] in E1; try discriminate E1 end.
      injection E1 as <- <- <-.
      assert (Htb : 0 <= lk_debt lk + lk_fee lk - au_debt a - lk_fee lk) by lia.
      destruct (cburn_from_bsame _ _ _ _ _ AUC_ne Htb Eb) as [B S].
      assert (Hpf : pfound s1 (au_app a) (lk_pair lk) = true) by (unfold pfound; rewrite (bs_prods _ _ B); exact K4).
      destruct (upd_mint_spec s1 (au_app a) (lk_pair lk) (lk_debt lk + lk_fee lk - au_debt a - lk_fee lk) false Hpf) as (f1 & -> & Hf11 & Hf12 & Hf13 & Hf14).
      ssimpl. repeat split; try apply B; try assumption.
      + intros a' p'. rewrite pfound_set, Hf11. unfold ffound, pfound. rewrite (bs_prods _ _ B). reflexivity.
      + intros a' p'. rewrite pcoll_set, Hf12. unfold fcoll, pcoll. rewrite (bs_prods _ _ B). reflexivity.
      + intros a' p'. rewrite pmint_set, Hf13. unfold fmint, pmint. rewrite (bs_prods _ _ B). destruct (_ && _); lia.
      + intros a' p'. rewrite pids_set, Hf14. unfold fids, pids. rewrite (bs_prods _ _ B). reflexivity.
    - injection E1 as <- <- <-. repeat split; try reflexivity; try lia.
      + intros x. unfold at1. destruct (x =? au_cout a); lia.
      + intros a' p'. destruct (_ && _); lia. }
  destruct F2 as (Fv & Fx & Fu & Fl & Fi & Fsi & Fun & Fb & Fs & Fpf & Fpc & Fpm & Fpi & Htb).
  exec1 H. rename st into s3. apply send_spec in E. destruct E as (Htr & b3 & -> & Hb3).
  exec1 H. apply update_collector_spec in E. destruct E as [_ ->].
  exec1 H. rename st into s5. injection H as <-.
  assert (U4 : umap_ok (set_bal s2 b3)) by (unfold umap_ok; ssimpl; rewrite Fu, Fv; exact (il_umap _ _ I)).
  assert (P4 : pfound (set_bal s2 b3) (au_app a) (lk_pair lk) = true) by (unfold pfound; ssimpl; fold (pfound s2 (au_app a) (lk_pair lk)); rewrite Fpf; exact K4).
  assert (V4 : Forall (fun w => v_id w <= vid (set_bal s2 b3)) (vaults (set_bal s2 b3))) by (ssimpl; rewrite Fv, Fi; exact (i_vid _ _ (il_view _ _ I))).
  assert (W4 : VWf (set_bal s2 b3)) by (unfold VWf; ssimpl; rewrite Fv; exact W).
  destruct (create_new_vault_spec c _ _ _ _ _ _ s5 U4 P4 V4 K5 Ac Ad W4 E) as
    (bc & Bpre & Bwf & Bapp & Bpair & Bdin & Bdout & Bown & Cv & Cx & Cl & Ci & Csi & Cu & Cun & Cb & Cs & Cpf & Cpc & Cpm & Cpi).
  assert (P5 : pfound s5 (au_app a) (lk_pair lk) = true) by (rewrite Cpf; exact P4).
  destruct (upd_coll_spec s5 (au_app a) (lk_pair lk) (lk_coll lk - au_coll a) false P5) as (f2 & -> & Hf21 & Hf22 & Hf23 & Hf24).
  exists bc, tb. cbn [vs lks aus lkid auid edebt drift er_mint er_coll er_short over]. ssimpl.
  assert (Bpre' : bc_pre c (vs l) bc).
  { destruct bc as [|v0 v1|nv|v0|x0 x1|x]; cbn [bc_pre] in *; ssimpl; try rewrite Fv in Bpre; try rewrite Fi in Bpre; try rewrite Fx in Bpre; try rewrite Fsi in Bpre; exact Bpre. }
  split; [exact Htb|]. split; [exact Bpre'|]. split; [exact Bwf|]. split; [exact Bapp|]. split; [exact Bpair|]. split; [exact Bdin|]. split; [exact Bdout|].
  split; [exact Bown|].
  split; [rewrite Cv; ssimpl; rewrite Fv; reflexivity|]. split; [rewrite Cx; ssimpl; exact Fx|].
  split; [rewrite Cl; ssimpl; rewrite Fl; reflexivity|]. split; [rewrite Ci; ssimpl; rewrite Fi; reflexivity|]. split; [rewrite Csi; ssimpl; exact Fsi|].
  split; [rewrite Cu; ssimpl; rewrite Fu; reflexivity|]. split; [rewrite Cun; ssimpl; exact Fun|].
  split; [intros d; rewrite Cb; ssimpl; rewrite Hb3, Fb; unfold xfer; change (VAULT =? COLL) with false; change (VAULT =? AUC) with false; cbn [andb]; lia|].
  split; [intros x; rewrite Cs; ssimpl; apply Fs|].
  split; [intros a' p'; rewrite pfound_set, Hf21, <- pfound_f, Cpf; change (pfound (set_bal s2 b3) a' p') with (pfound s2 a' p'); apply Fpf|].
  split; [intros a' p'; rewrite pcoll_set, Hf22, <- pcoll_f, Cpc; change (pcoll (set_bal s2 b3) a' p') with (pcoll s2 a' p'); rewrite Fpc; destruct (_ && _); lia|].
  split; [intros a' p'; rewrite pmint_set, Hf23, <- pmint_f, Cpm; change (pmint (set_bal s2 b3) a' p') with (pmint s2 a' p'); apply Fpm|].
  split; [intros a' p'; rewrite pids_set, Hf24, <- pids_f, Cpi; change (pids (set_bal s2 b3) a' p') with (pids s2 a' p'); rewrite Fpi; reflexivity|].
  repeat split; reflexivity.
Qed.

Lemma trigger_esm_invL c l a lk l' : InvL c l -> In a (aus l) -> find_lk (lks l) (au_lock a) = Some lk ->
  trigger_esm l a lk = Ok l' -> InvL c l'.
Proof.
  intros I Hain Mk H.
  destruct (gfind_some lk_id _ _ _ Mk) as [Hkin Hkid].
  destruct (il_lk _ _ I lk Hkin) as (K1 & K2 & K3 & K4 & K5).
  destruct (il_au _ _ I a Hain) as (A1 & Ac & Ad & A2). destruct (A2 lk Mk) as (A5 & A3 & A4).
  destruct (trigger_esm_spec c l a lk l' I Hain Mk H) as
    (bc & tb & Htb & Bpre & Bwf & Bapp & Bpair & Bdin & Bdout & Bown & Sv & Sx & Sl & Si & Ssi & Su & Sun & Sb & Ss & Spf & Spc & Spm & Spi &
     Llk & Lau & Llkid & Lauid & Led & Ldr & Lem & Lec & Les & Lov).
  assert (Htouch : forall a' p', touched bc a' p' = (a' =? au_app a) && (p' =? lk_pair lk)).
  { intros a' p'. destruct bc; try (exfalso; exact Bown); unfold touched; rewrite Bapp, Bpair; reflexivity. }
  assert (Hok : bc_owner_ok (lk_owner lk) bc) by (destruct bc; try (exfalso; exact Bown); exact Bown).
  constructor.
  - apply (beffect_inv01 c _ _ bc (il_view _ _ I)). unfold view.
    apply beffect_shift; try assumption.
    + rewrite Sx. destruct bc; try (exfalso; exact Bown); reflexivity.
    + rewrite Sl. destruct bc; try (exfalso; exact Bown); reflexivity.
    + rewrite Ssi. destruct bc; try (exfalso; exact Bown); reflexivity.
    + intros a' p'. unfold opc_of, lock_coll. rewrite Llk, Lec, Spc, Htouch, Bdin. unfold add2. destruct ((a' =? au_app a) && (p' =? lk_pair lk)); lia.
    + intros a' p'. unfold opm_of, lock_prin. rewrite Llk, Lem, Ldr, Spm, Htouch, Bdout. unfold add2. destruct ((a' =? au_app a) && (p' =? lk_pair lk)); lia.
    + intros d. unfold oc_of. rewrite Les, Sb, Sun, Bpair, Bdin, <- A5. unfold add1. rewrite (Z.eqb_sym (au_cin a) d). destruct (d =? au_cin a); lia.
  - exact (owners_step c (vs l) (vs l') (lk_owner lk) bc K1 (il_owner _ _ I) Bpre Sv Hok).
  - apply (umap_step c (vs l) (vs l') (lk_owner lk) bc (il_umap _ _ I) (i_vid _ _ (il_view _ _ I)) Bpre Hok Sv).
    rewrite Su. destruct bc; try (exfalso; exact Bown); try reflexivity. cbn [bc_app bc_pair] in Bapp, Bpair. rewrite Bapp, Bpair. reflexivity.
  - rewrite Llk. exact (il_sorted _ _ I).
  - rewrite Llk, Llkid. exact (il_lkid _ _ I).
  - rewrite Llk. intros k Hk. destruct (il_lk _ _ I k Hk) as (H1 & H2 & H3 & H4 & H5). repeat split; try assumption; try lia.
    rewrite Spf. exact H4.
  - rewrite Lau. intros a' Ha'. destruct (il_au _ _ I a' Ha') as (B1 & Bc & Bd & B2). unfold au_ok. rewrite Llkid, Llk.
    split; [exact B1|]. split; [exact Bc|]. split; [exact Bd|]. exact B2.
Qed.

(* ---------- the auctionsV2 block tick ---------- *)
Lemma existsb_false {A} (f : A -> bool) l : existsb f l = false <-> forall x, In x l -> f x = false.
Proof.
  induction l as [|y l IH]; cbn [existsb In]; [tauto|]. rewrite orb_false_iff, IH. split.
  - intros [H1 H2] x [<-|Hx]; [exact H1|exact (H2 x Hx)].
  - intros H. split; [apply H; left; reflexivity|intros x Hx; apply H; right; exact Hx].
Qed.

Lemma tick_one_invL c lc l aid l' : InvL c l -> tick_one lc l aid = Ok l' -> InvL c l'.
Proof.
  intros I H. unfold tick_one in H. cbv zeta in H.
  destruct (find_au (aus l) aid) as [a|] eqn:Ma; [|injection H as <-; exact I].
  destruct (gfind_some au_id _ _ _ Ma) as [Hain Haid].
  destruct (e_status (esm (vs l) (au_app a))) eqn:Es.
  - destruct (now (vs l) >? au_end a) eqn:Nw; [|injection H as <-; exact I].
    destruct (find_lk (lks l) (au_lock a)) as [lk|] eqn:Mk; [|injection H as <-; exact I].
    exact (trigger_esm_invL c l a lk l' I Hain Mk H).
  - destruct (now (vs l) >? au_end a) eqn:Nw; [|injection H as <-; exact I].
    do 3 exec1 H. injection H as <-. destruct (il_au _ _ I a Hain) as (A1 & Ac & Ad & A2).
    constructor.
    + exact (il_view _ _ I).
    + exact (il_owner _ _ I).
    + exact (il_umap _ _ I).
    + exact (il_sorted _ _ I).
    + exact (il_lkid _ _ I).
    + exact (il_lk _ _ I).
    + cbn [aus]. intros a' Ha'. apply (gput_in au_id) in Ha'. destruct Ha' as [->|Ha']; [|exact (il_au _ _ I a' Ha')].
      split; [exact A1|]. split; [exact Ac|]. split; [exact Ad|]. exact A2.
Qed.

Lemma auc_tick_invL c lc l : InvL c l -> InvL c (auc_tick lc l).
Proof.
  unfold auc_tick. generalize (map au_id (aus l)) as ids. intros ids. revert l.
  induction ids as [|aid ids IH]; intros l I; cbn [fold_left]; [exact I|].
  destruct (tick_one lc l aid) as [l1| |] eqn:T; cbn [keep].
  - exact (IH l1 (tick_one_invL c lc l aid l1 I T)).
  - exact (IH l I).
  - exact (IH l I).
Qed.

(* ---------- esm: collateral redemption set-up for the vaults of an app ---------- *)
Lemma gfind_self {A} (key : A -> Z) l v : NoDup (map key l) -> In v l -> gfind key l (key v) = Some v.
Proof.
  induction l as [|y l IH]; cbn [map gfind In]; intros Hnd Hin; [destruct Hin|].
  inversion Hnd as [|? ? Hny Hnd']; subst. destruct Hin as [->|Hin]; [rewrite Z.eqb_refl; reflexivity|].
  destruct (Z.eqb_spec (key y) (key v)) as [E|E]; [|exact (IH Hnd' Hin)].
  exfalso. apply Hny. rewrite E. apply in_map. exact Hin.
Qed.

Lemma esm_redeem_one_invL c lc app l v l' : InvL c l -> find_v (vaults (vs l)) (v_id v) = Some v ->
  esm_redeem_one c lc app l v = Ok l' ->
  InvL c l' /\ forall id, id <> v_id v -> find_v (vaults (vs l')) id = find_v (vaults (vs l)) id.
Proof.
  intros I M H. pose proof (invL_pe c l I) as PE. pose proof (invL_wf c l I) as W.
  unfold esm_redeem_one in H. cbv zeta in H.
  exec1 H; [injection H as <-; split; [exact I|reflexivity]|].
  do 4 exec1 H. injection H as <-. rename M0 into Mep.
  apply send_spec in E. destruct E as (_ & b1 & -> & Hb1).
  pose proof (prods_exist_v _ _ _ PE M) as Hpf. pose proof (vwf_found _ _ _ W M) as (W1 & W2 & W3 & W4).
  pose proof (denom_in_ep _ _ _ Mep) as Hdi. bool_norm.
  assert (Happ : v_app v = app) by lia. rewrite <- Happ in *.
  unfold dec_len. ssimpl.
  match goal with |- context [prod_del_id ?st ?a0 ?p0 ?m] =>
    assert (Hpf3 : pfound st a0 p0 = true) by exact Hpf;
    destruct (prod_del_id_spec st a0 p0 m Hpf3) as (f3 & -> & Hf31 & Hf32 & Hf33 & Hf34) end.
  ssimpl.
  match goal with |- context [upd_mint ?st ?a0 ?p0 ?m ?ad] =>
    assert (Hpf1 : pfound st a0 p0 = true) by (prod_rw; rewrite <- pfound_f; exact Hpf);
    destruct (upd_mint_spec st a0 p0 m ad Hpf1) as (f1 & -> & Hf11 & Hf12 & Hf13 & Hf14) end.
  match goal with |- context [upd_coll ?st ?a0 ?p0 ?m ?ad] =>
    assert (Hpf2 : pfound st a0 p0 = true) by (prod_rw; rewrite <- pfound_f; exact Hpf);
    destruct (upd_coll_spec st a0 p0 m ad Hpf2) as (f2 & -> & Hf21 & Hf22 & Hf23 & Hf24) end.
  ssimpl. split.
  - constructor; cbn [vs lks aus lkid auid].
    + apply (beffect_inv01 c _ _ (BDel v) (il_view _ _ I)). unfold view. cbn [vs].
      apply beffect_shift; cbn [bc_pre bc_wf bc_vaults bc_svaults bc_din bc_dout bc_ids bc_pair]; ssimpl; try reflexivity; try exact Logic.I;
        try exact M.
      * intros a p. unfold opc_of, lock_coll. cbn [lks er_coll]. unfold pcoll at 1. ssimpl. fold (fcoll f2 a p).
        rewrite Hf22. ssimpl. rewrite Hf12. ssimpl. rewrite Hf32, <- pcoll_f. unfold touched. cbn [bc_app bc_pair].
        destruct ((a =? v_app v) && (p =? v_pair v)); lia.
      * intros a p. unfold opm_of, lock_prin. cbn [lks er_mint drift]. unfold pmint at 1. ssimpl. fold (fmint f2 a p).
        rewrite Hf23. ssimpl. rewrite Hf13. ssimpl. rewrite Hf33, <- pmint_f. unfold touched. cbn [bc_app bc_pair].
        destruct ((a =? v_app v) && (p =? v_pair v)); lia.
      * intros a p. unfold pids at 1. ssimpl. fold (fids f2 a p). rewrite Hf24. ssimpl. rewrite Hf14. ssimpl. rewrite Hf34, <- pids_f.
        unfold touched. cbn [bc_app bc_pair]. reflexivity.
      * intros d. unfold oc_of. cbn [er_short]. rewrite Hb1. rewrite Hdi. unfold xfer.
        change (VAULT =? ESMA) with false. rewrite Z.eqb_refl. cbn [andb]. rewrite (Z.eqb_sym d). destruct (ep_in e =? d); lia.
    + intros w Hw. apply (gdel_in v_id) in Hw. apply (il_owner _ _ I). exact Hw.
    + apply (umap_step c (vs l) _ (v_owner v) (BDel v) (il_umap _ _ I) (i_vid _ _ (il_view _ _ I))); cbn [bc_pre bc_owner_ok bc_vaults]; ssimpl;
        try reflexivity. exact M.
    + exact (il_sorted _ _ I).
    + exact (il_lkid _ _ I).
    + intros k Hk. destruct (il_lk _ _ I k Hk) as (H1 & H2 & H3 & H4 & H5). repeat split; try assumption; try lia.
      cbn [vs]. unfold pfound. ssimpl. fold (ffound f2 (lk_app k) (lk_pair k)). rewrite Hf21. ssimpl. rewrite Hf11. ssimpl. rewrite Hf31. exact H4.
    + exact (il_au _ _ I).
  - intros id Hid. unfold find_v, del_v. apply (gfind_gdel_other v_id). exact Hid.
Qed.

Lemma esm_redeem_loop_invL c lc app vl : NoDup (map v_id vl) -> forall l l', InvL c l ->
  (forall v, In v vl -> find_v (vaults (vs l)) (v_id v) = Some v) ->
  esm_redeem_loop c lc app vl l = Ok l' -> InvL c l'.
Proof.
  induction vl as [|v vl IH]; intros Hnd l l' I HF H; cbn [esm_redeem_loop] in H; [injection H as <-; exact I|].
  inversion Hnd as [|? ? Hny Hnd']; subst.
  destruct (esm_redeem_one c lc app l v) as [l1| |] eqn:E1; cbn [obind] in H; try discriminate H.
  destruct (esm_redeem_one_invL c lc app l v l1 I (HF v (or_introl eq_refl)) E1) as [I1 Hf1].
  apply (IH Hnd' l1 l' I1); [|exact H]. intros w Hw. rewrite Hf1; [apply HF; right; exact Hw|].
  intros Eq. apply Hny. rewrite <- Eq. apply in_map. exact Hw.
Qed.

Lemma esm_redeem_invL c lc l app l' : InvL c l -> esm_redeem c lc l app = Ok l' -> InvL c l'.
Proof.
  intros I H. unfold esm_redeem in H.
  assert (Hnd : NoDup (map v_id (vaults (vs l)))) by (apply sorted_nodup; exact (i_sorted_v _ _ (il_view _ _ I))).
  apply (esm_redeem_loop_invL c lc app _ Hnd l l' I); [|exact H].
  intros v Hv. apply (gfind_self v_id); assumption.
Qed.
