(* Proofs about the eligibility a gauge's liquidity metadata defines (Model/Gauge.v, last section):
   a master gauge pays only farmers with a positive farmed value in the gauge's pool AND in the child
   pools of the gauge's own metadata - the pools listed in MsgCreateGauge, or every other enabled pool
   when none is listed. *)
From Comdex Require Import Lib.Base Lib.DecArith Lib.F64 Model.Gauge Proofs.GaugeProofs.

Lemma zsum_nonneg l : Forall (fun x => 0 <= x) l -> 0 <= zsum l.
Proof. induction 1; cbn [zsum]; lia. Qed.

Lemma zsum_all_zero l : Forall (fun x => x = 0) l -> zsum l = 0.
Proof. induction 1; cbn [zsum]; lia. Qed.

Lemma child_value_nonneg ids vals : Forall (fun pv => 0 <= snd pv) vals -> 0 <= child_value ids vals.
Proof.
  intros H. unfold child_value. apply zsum_nonneg. apply Forall_forall. intros x Hx.
  apply in_map_iff in Hx as (pid & <- & _). apply zsum_nonneg. apply Forall_forall. intros y Hy.
  apply in_map_iff in Hy as (pv & <- & Hpv). apply filter_In in Hpv as (Hpv & _).
  rewrite Forall_forall in H. apply H. exact Hpv.
Qed.

(* values farmed in pools outside [ids] do not count *)
Lemma child_value_unlisted ids vals :
  (forall pv, In pv vals -> In (fst pv) ids -> snd pv = 0) -> child_value ids vals = 0.
Proof.
  intros H. unfold child_value. apply zsum_all_zero. apply Forall_forall. intros x Hx.
  apply in_map_iff in Hx as (pid & <- & Hpid). apply zsum_all_zero. apply Forall_forall. intros y Hy.
  apply in_map_iff in Hy as (pv & <- & Hpv). apply filter_In in Hpv as (Hpv & E).
  apply Z.eqb_eq in E. apply H; [exact Hpv|]. rewrite E. exact Hpid.
Qed.

Lemma eligible_master_in (obs : list fobs) (cv : fobs -> Z) a s :
  In (a, s) (combine (map fst (map (fun o => (fo_acct o, fo_value o)) obs))
                     (min_supplies (map snd (map (fun o => (fo_acct o, fo_value o)) obs)) (map cv obs))) ->
  exists o, In o obs /\ fo_acct o = a /\ s = (if fo_value o <=? cv o then fo_value o else cv o).
Proof.
  induction obs as [|o obs IH]; cbn [map combine min_supplies fst snd]; [contradiction|].
  unfold min_supplies in *. cbn [map combine fst snd]. intros [E | Hin].
  - inversion E; subst. exists o. split; [left; reflexivity|]. split; reflexivity.
  - destruct (IH Hin) as (o' & Ho' & Ha & Hs). exists o'. split; [right; exact Ho'|]. split; assumption.
Qed.

Definition obs_wf (obs : list fobs) : Prop :=
  Forall (fun o => 0 <= fo_value o /\ Forall (fun pv => 0 <= snd pv) (fo_others o)) obs.

Lemma master_paid_only_listed m others obs coins ps a r :
  m_master m = true -> child_ids m others <> [] -> obs_wf obs -> 0 <= coins ->
  farm_calc (farm_env_of m others obs) coins = Ok ps -> In (a, r) ps -> 0 < r ->
  exists o, In o obs /\ fo_acct o = a /\ 0 < fo_value o /\ 0 < child_value (child_ids m others) (fo_others o).
Proof.
  intros Hm Hc Hwf Hcoins E Hin Hr.
  unfold farm_env_of in E. rewrite Hm in E.
  destruct (child_ids m others) as [|i ids] eqn:Ei; [contradiction|].
  set (IDS := i :: ids) in *.
  set (e := FarmMaster (map (fun o => (fo_acct o, fo_value o)) obs) (map (fun o => child_value IDS (fo_others o)) obs)) in *.
  assert (Hnn : Forall (fun f => 0 <= snd f) (eligible e)).
  { apply Forall_forall. intros [a' s'] Hx. unfold e, eligible in Hx.
    apply eligible_master_in in Hx as (o & Ho & _ & ->). cbn [snd].
    unfold obs_wf in Hwf. rewrite Forall_forall in Hwf. destruct (Hwf o Ho) as (V & W).
    pose proof (child_value_nonneg IDS (fo_others o) W). destruct (_ <=? _); lia. }
  destruct (farm_share_bound e coins ps a r E Hin Hcoins Hnn) as (_ & s & Hs & Hz & _).
  unfold e, eligible in Hs. apply eligible_master_in in Hs as (o & Ho & Ha & Hsv).
  exists o. split; [exact Ho|]. split; [exact Ha|].
  unfold obs_wf in Hwf. rewrite Forall_forall in Hwf. destruct (Hwf o Ho) as (V & W).
  pose proof (child_value_nonneg IDS (fo_others o) W) as C.
  assert (s <> 0) by (intros Z0; specialize (Hz Z0); lia).
  destruct (Z.leb_spec (fo_value o) (child_value IDS (fo_others o))); lia.
Qed.
