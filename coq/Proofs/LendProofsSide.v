(* C08 proofs, part 2b: the side invariant of the books that the loan-to-value rule needs (every
   open position hangs on an existing lend position of its pair's asset in and has positive
   collateral), the configuration / oracle sanity conditions, and what the collateralisation
   check of rates.go guarantees, with the rounding slack of Dec.Quo explicit. *)
From Comdex Require Import Lib.Base Lib.DecArith Lib.DecFacts Model.Lend Proofs.LendProofs Proofs.LendProofsInv.
From Coq Require Import ZifyBool.

(* ---------- side invariant ---------- *)
Definition coll_ok (cfg : config) (L : list (Z * lendpos)) (b : borrowpos) : Prop :=
  0 < b_in b /\
  exists l pr, zget L (b_lend b) = Some l /\ zget (c_pairs cfg) (b_pair b) = Some pr /\ l_asset l = pr_in pr.
Definition Side (cfg : config) (L : list (Z * lendpos)) (B : list (Z * borrowpos)) : Prop :=
  forall j b, zget B j = Some b -> b_liq b = false -> coll_ok cfg L b.

Definition GoodB cfg L B S nl nb : Prop := InvB cfg L B S nl nb /\ Side cfg L B.
Definition Good (cfg : config) (st : state) : Prop :=
  GoodB cfg (lends st) (borrows st) (sstats st) (lctr st) (bctr st).

Lemma Good_Inv cfg st : Good cfg st -> Inv cfg st. Proof. intros [H _]. exact H. Qed.

Section SideTransitions.
  Variable cfg : config.
  Variables (L : list (Z * lendpos)) (B : list (Z * borrowpos)).
  Hypothesis HS : Side cfg L B.

  Lemma S_lend_upd i l l' : zget L i = Some l -> l_asset l' = l_asset l -> Side cfg (zset L i l') B.
  Proof.
    intros Hg Ha j b Hb Hq. destruct (HS j b Hb Hq) as (Hpos & l0 & pr & Hl0 & Hpr & Heq). split; [exact Hpos|].
    destruct (Z.eqb_spec i (b_lend b)) as [E|E].
    - exists l', pr. rewrite <- E, zget_zset_same. rewrite <- E, Hg in Hl0. injection Hl0 as <-.
      repeat split; [exact Hpr|congruence].
    - exists l0, pr. rewrite zget_zset_other by exact E. repeat split; assumption.
  Qed.

  Lemma S_lend_new i l : (forall j b, zget B j = Some b -> b_liq b = false -> b_lend b <> i) -> Side cfg (zset L i l) B.
  Proof.
    intros Hn j b Hb Hq. destruct (HS j b Hb Hq) as (Hpos & l0 & pr & Hl0 & Hpr & Heq). split; [exact Hpos|].
    exists l0, pr. rewrite zget_zset_other by (intros E; exact (Hn j b Hb Hq (eq_sym E))). repeat split; assumption.
  Qed.

  Lemma S_lend_del i : (forall j b, zget B j = Some b -> b_liq b = false -> b_lend b <> i) -> Side cfg (zdel L i) B.
  Proof.
    intros Hn j b Hb Hq. destruct (HS j b Hb Hq) as (Hpos & l0 & pr & Hl0 & Hpr & Heq). split; [exact Hpos|].
    exists l0, pr. rewrite zget_zdel. destruct (Z.eqb_spec i (b_lend b)) as [E|E]; [exfalso; exact (Hn j b Hb Hq (eq_sym E))|].
    repeat split; assumption.
  Qed.

  Lemma S_bor_upd j b b' :
    zget B j = Some b -> b_lend b' = b_lend b -> b_pair b' = b_pair b -> b_liq b' = b_liq b ->
    (b_liq b = false -> 0 < b_in b') -> Side cfg L (zset B j b').
  Proof.
    intros Hg El Ep Eq Hpos j' x. rewrite zget_zset. destruct (Z.eqb_spec j j') as [<-|]; [|apply HS].
    intros H. injection H as <-. rewrite Eq. intros Hq. destruct (HS j b Hg Hq) as (_ & l0 & pr & Hl0 & Hpr & Heq).
    split; [exact (Hpos Hq)|]. exists l0, pr. rewrite El, Ep. repeat split; assumption.
  Qed.

  (* a position flagged as handed over to an auction leaves the side invariant's scope *)
  Lemma S_bor_flag j b' : b_liq b' = true -> Side cfg L (zset B j b').
  Proof.
    intros Eq j' x. rewrite zget_zset. destruct (Z.eqb_spec j j') as [<-|]; [|apply HS].
    intros H. injection H as <-. rewrite Eq. discriminate.
  Qed.

  Lemma S_bor_new j bn : coll_ok cfg L bn -> Side cfg L (zset B j bn).
  Proof.
    intros Hc j' x. rewrite zget_zset. destruct (Z.eqb_spec j j') as [<-|]; [|apply HS].
    intros H. injection H as <-. intros _. exact Hc.
  Qed.

  Lemma S_bor_del j : Side cfg L (zdel B j).
  Proof. intros j' x. rewrite zget_zdel. destruct (j =? j'); [discriminate|apply HS]. Qed.
End SideTransitions.

(* borrows never hang on a lend id beyond the counter, nor on a lend position without open borrows *)
Lemma unref_fresh cfg L B S nl nb i : InvB cfg L B S nl nb -> nl < i -> forall j b, zget B j = Some b -> b_liq b = false -> b_lend b <> i.
Proof.
  intros (_ & _ & Hwl & Hwb & _) Hi j b Hb Hq E. destruct (Hwb j b Hb) as (_ & Hex). destruct (Hex Hq) as (l0 & Hl0 & _).
  apply Hwl in Hl0. lia.
Qed.
Lemma unref_nobids cfg L B S nl nb i l : InvB cfg L B S nl nb -> zget L i = Some l -> l_bids l = [] ->
  forall j b, zget B j = Some b -> b_liq b = false -> b_lend b <> i.
Proof.
  intros (_ & _ & Hwl & Hwb & _) Hl Hn j b Hb Hq E. destruct (Hwb j b Hb) as (_ & Hex). destruct (Hex Hq) as (l0 & Hl0 & Hin).
  rewrite E, Hl in Hl0. injection Hl0 as <-. rewrite Hn in Hin. exact Hin.
Qed.

(* ---------- sanity of the governance records and of the oracle ---------- *)
Definition cfg_wf (cfg : config) : Prop :=
  (forall id a, zget (c_assets cfg) id = Some a -> 0 < a_dec a /\ a_id a = id) /\
  (forall id r, zget (c_rates cfg) id = Some r -> 0 <= r_ltv r /\ 0 <= r_eltv r).
Definition PricesOk (P : list (Z * Z)) : Prop := forall a p, zget P a = Some p -> 0 <= p.

Lemma calc_price_ext cfg st st' id amt : prices st' = prices st -> calc_price cfg st' id amt = calc_price cfg st id amt.
Proof. intros E. unfold calc_price. rewrite E. reflexivity. Qed.

Lemma dquo_nonpos a b : a <= 0 -> 0 < b -> dquo a b <= 0.
Proof.
  intros Ha Hb. unfold dquo. pose proof P36_pos.
  assert (Hq : Z.quot (a * P36) b <= 0 * P18).
  { replace (a * P36) with (- (- a * P36)) by lia. rewrite Z.quot_opp_l by lia.
    assert (0 <= Z.quot (- a * P36) b) by (apply Z.quot_pos; nia). lia. }
  apply chop_round_mono in Hq. rewrite chop_round_exact in Hq. exact Hq.
Qed.

Lemma calc_price_sign cfg st id amt v :
  cfg_wf cfg -> PricesOk (prices st) -> calc_price cfg st id amt = Ok v ->
  (0 <= amt -> 0 <= v) /\ (amt <= 0 -> v <= 0).
Proof.
  intros (Hwa & _) HP. unfold calc_price.
  destruct (zget (c_assets cfg) id) as [a|] eqn:Ea; [|discriminate].
  destruct (zget (prices st) id) as [twa|] eqn:Et; [|discriminate].
  unfold dmul_c, dquo_c, chk_dec. rewrite dmul_int_exact.
  destruct (fits_dec _); [|discriminate].
  destruct (dec_of_int (a_dec a) =? 0) eqn:E0; [discriminate|].
  destruct (fits_dec _); [|discriminate]. intros H. injection H as <-.
  destruct (Hwa id a Ea) as (Hd & _). specialize (HP id twa Et). dec_consts.
  unfold dec_of_int in *. split; intros Hs.
  - apply dquo_nonneg; nia.
  - apply dquo_nonpos; nia.
Qed.

(* VerifyCollateralizationRatio accepted: value(out) <= (ltv + 10^-18) * value(in); the extra unit
   is the rounding of the Quo that forms the ratio *)
Lemma verify_cr_le cfg st ain ai aout ao ltv :
  cfg_wf cfg -> PricesOk (prices st) -> 0 <= ain -> 0 <= ltv ->
  verify_cr cfg st ain ai aout ao ltv = Ok tt ->
  exists vin vout, calc_price cfg st ai ain = Ok vin /\ calc_price cfg st ao aout = Ok vout /\
                   0 < vin /\ vout * P18 <= (ltv + 1) * vin.
Proof.
  intros Hwf HP Hain Hltv. unfold verify_cr, calc_cr.
  destruct (calc_price cfg st ai ain) as [vin| |] eqn:Ei; cbn [obind]; try discriminate.
  destruct (calc_price cfg st ao aout) as [vout| |] eqn:Eo; cbn [obind]; try discriminate.
  unfold dquo_c, chk_dec. destruct (vin =? 0) eqn:E0; [discriminate|].
  destruct (fits_dec _); [|discriminate]. cbn [obind].
  destruct (dquo vout vin >? ltv) eqn:Er; [discriminate|]. intros _.
  destruct (calc_price_sign cfg st ai ain vin Hwf HP Ei) as (Hnn & _).
  assert (Hvin : 0 < vin) by lia.
  exists vin, vout. repeat split; try assumption. dec_consts.
  destruct (Z_lt_le_dec vout 0) as [Hneg|Hpos].
  - nia.
  - pose proof (dquo_bounds vout vin Hpos Hvin). nia.
Qed.
