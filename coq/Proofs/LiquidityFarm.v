(* Proofs about Model/Liquidity.v, part 4: farmed pool coins.  In every reachable state the liquidity
   module account holds, in every pool-coin denom, exactly the coins recorded as queued plus active -
   including the LIFO consumption of the queue in Unfarm and the maturation of queued coins.
   Instance of the generic sweep. *)
From Comdex Require Import Lib.Base Lib.DecArith Lib.DecFacts Model.Liquidity Proofs.LiquidityProofs
  Proofs.LiquiditySweep Proofs.LiquidityProofs2 Proofs.LiquidityEffects Proofs.LiquidityLists Proofs.LiquidityCustody.
From Coq Require Import ZifyBool Lia.

Definition qkey (q : qfarmer) : key3 := (q_app q, q_pool q, q_owner q).
Definition akey (a : afarmer) : key3 := (a_app a, a_pool a, a_owner a).
Definition qterm (d : Z) (q : qfarmer) : Z := if pool_denom (q_app q) (q_pool q) =? d then qsum (q_coins q) else 0.
Definition aterm (d : Z) (a : afarmer) : Z := if pool_denom (a_app a) (a_pool a) =? d then a_amt a else 0.
Definition queued (d : Z) (s : state) : Z := zsum (map (qterm d) (qfs s)).
Definition active (d : Z) (s : state) : Z := zsum (map (aterm d) (afs s)).

Record FInv (s : state) : Prop := {
  fi_led : forall d, led s Module d = farmed s d;
  fi_sum : forall d, farmed s d = queued d s + active d s;
  fi_qnodup : NoDup (map qkey (qfs s));
  fi_anodup : NoDup (map akey (afs s));
  fi_qpos : forall q, In q (qfs s) -> Forall (fun c => 0 < fst c) (q_coins q) }.

(* ---------------- the two keyed lists ---------------- *)
Definition qmatch (k : key3) (x : qfarmer) : bool := k3_eqb (qkey x) k.
Definition amatch (k : key3) (x : afarmer) : bool := k3_eqb (akey x) k.

Lemma find_qf_spec app pid owner l : find_qf app pid owner l = find (qmatch (app, pid, owner)) l.
Proof. induction l as [|x r IH]; cbn [find_qf find]; [reflexivity|]. unfold qmatch at 1, qkey, k3_eqb. rewrite IH. reflexivity. Qed.
Lemma find_af_spec app pid owner l : find_af app pid owner l = find (amatch (app, pid, owner)) l.
Proof. induction l as [|x r IH]; cbn [find_af find]; [reflexivity|]. unfold amatch at 1, akey, k3_eqb. rewrite IH. reflexivity. Qed.

(* generic: a list with unique keys, the entry under a key removed *)
Section Keyed.
Context {A : Type} (key : A -> key3) (f : A -> Z).
Lemma zsum_remove k l : NoDup (map key l) ->
  zsum (map f (filter (fun x => negb (k3_eqb (key x) k)) l)) =
  zsum (map f l) - match find (fun x => k3_eqb (key x) k) l with Some x => f x | None => 0 end.
Proof.
  induction l as [|x r IH]; cbn [filter map zsum find]; intros Hnd; [reflexivity|].
  inversion Hnd as [|? ? Hx Hr]; subst. destruct (k3_eqb (key x) k) eqn:E; cbn [negb map zsum].
  - apply k3_eqb_eq in E. subst k.
    assert (G : forall t, ~ In (key x) (map key t) -> filter (fun y => negb (k3_eqb (key y) (key x))) t = t).
    { induction t as [|y t IHt]; cbn [filter map]; intros Hn; [reflexivity|].
      destruct (k3_eqb (key y) (key x)) eqn:E2; [apply k3_eqb_eq in E2; exfalso; apply Hn; left; exact E2|].
      cbn [negb]. f_equal. apply IHt. intros Hi. apply Hn. right. exact Hi. }
    rewrite (G r Hx). lia.
  - rewrite (IH Hr). lia.
Qed.
Lemma nodup_remove_cons k x l : key x = k -> NoDup (map key l) ->
  NoDup (map key (x :: filter (fun y => negb (k3_eqb (key y) k)) l)).
Proof.
  intros Hk Hnd. cbn [map]. constructor.
  - intros Hi. apply in_map_iff in Hi. destruct Hi as (y & Hy & Hy2). apply filter_In in Hy2. destruct Hy2 as [_ Hy2].
    rewrite Hy, Hk, k3_eqb_refl in Hy2. discriminate.
  - induction l as [|y t IH]; cbn [filter map]; [constructor|]. inversion Hnd as [|? ? Hy Ht]; subst.
    destruct (negb (k3_eqb (key y) (key x))); [|exact (IH Ht)]. cbn [map]. constructor; [|exact (IH Ht)].
    intros Hi. apply Hy. apply in_map_iff in Hi. destruct Hi as (z & Hz & Hz2). apply filter_In in Hz2.
    apply in_map_iff. exists z. split; [exact Hz|apply Hz2].
Qed.
Lemma find_in k l x : find (fun x => k3_eqb (key x) k) l = Some x -> In x l /\ key x = k.
Proof. intros H. apply find_some in H. destruct H as [H1 H2]. split; [exact H1|apply k3_eqb_eq, H2]. Qed.
End Keyed.

Lemma put_qf_eq q l : put_qf q l = q :: filter (fun x => negb (k3_eqb (qkey x) (qkey q))) l.
Proof. reflexivity. Qed.
Lemma put_af_eq a l : put_af a l = a :: filter (fun x => negb (k3_eqb (akey x) (akey a))) l.
Proof. reflexivity. Qed.
Lemma del_af_eq app pid owner l : del_af app pid owner l = filter (fun x => negb (k3_eqb (akey x) (app, pid, owner))) l.
Proof. reflexivity. Qed.

(* ---------------- queue arithmetic ---------------- *)
Lemma qsum_app a b : qsum (a ++ b) = qsum a + qsum b.
Proof. unfold qsum. rewrite map_app, zsum_app. reflexivity. Qed.
Lemma qsum_rev l : qsum (rev l) = qsum l.
Proof. induction l as [|x r IH]; cbn [rev]; [reflexivity|]. rewrite qsum_app, IH. unfold qsum. cbn. lia. Qed.
Lemma qsum_zeros z : Forall (fun c : Z * Z => fst c = 0) z -> qsum z = 0.
Proof. unfold qsum. induction 1 as [|x r Hx _ IH]; cbn [map zsum]; lia. Qed.

(* the consumed queue is a block of emptied entries followed by untouched positive ones *)
Lemma unfarm_queue_shape rq : forall amt, 0 < amt -> Forall (fun c => 0 < fst c) rq ->
  exists z p, fst (unfarm_queue rq amt) = z ++ p /\ Forall (fun c => fst c = 0) z /\ Forall (fun c => 0 < fst c) p.
Proof.
  induction rq as [|[a t] r IH]; intros amt Ha Hq; cbn [unfarm_queue].
  - exists [], []. repeat split; constructor.
  - inversion Hq as [|? ? Hq1 Hq2]; subst. cbn [fst] in Hq1. destruct (a >=? amt) eqn:E.
    + cbn [fst]. destruct (a - amt =? 0) eqn:E2.
      * exists [(a - amt, t)], r. repeat split; [constructor; [cbn; lia|constructor]|exact Hq2].
      * exists [], ((a - amt, t) :: r). repeat split; [constructor|constructor; [cbn; lia|exact Hq2]].
    + destruct (IH (amt - a) ltac:(lia) Hq2) as (z & p & Hz & Z1 & P1).
      destruct (unfarm_queue r (amt - a)) as [r' lft]. cbn [fst] in *. subst r'.
      exists ((0, t) :: z), p. repeat split; [constructor; [reflexivity|exact Z1]|exact P1].
Qed.

Lemma take_nonzero_app p z : Forall (fun c : Z * Z => 0 < fst c) p -> Forall (fun c : Z * Z => fst c = 0) z ->
  take_nonzero (p ++ z) = p.
Proof.
  intros Hp Hz. induction Hp as [|[a t] r Ha _ IH]; cbn [app take_nonzero].
  - destruct Hz as [|[a t] r Ha _]; cbn [take_nonzero]; [reflexivity|]. cbn [fst] in Ha. subst a. reflexivity.
  - cbn [fst] in Ha. destruct (a =? 0) eqn:E; [lia|]. f_equal. exact IH.
Qed.

(* what Unfarm writes back as the queue: its total is the old total minus what was consumed from it *)
Lemma unfarm_newq coins amt : 0 < amt -> Forall (fun c => 0 < fst c) coins ->
  let r := unfarm_queue (rev coins) amt in
  let newq := take_nonzero (rev (fst r)) in
  qsum newq = qsum coins - (amt - snd r) /\ 0 <= snd r <= amt /\ Forall (fun c => 0 < fst c) newq.
Proof.
  intros Ha Hq r newq. assert (Hrq : Forall (fun c : Z * Z => 0 < fst c) (rev coins)).
  { apply Forall_forall. intros x Hx. apply in_rev in Hx. exact (proj1 (Forall_forall _ _) Hq x Hx). }
  assert (Hnn : Forall (fun c : Z * Z => 0 <= fst c) (rev coins)).
  { eapply Forall_impl; [|exact Hrq]. cbn. intros; lia. }
  pose proof (unfarm_queue_law (rev coins) amt ltac:(lia) Hnn) as (L1 & L2 & _ & _).
  destruct (unfarm_queue_shape (rev coins) amt Ha Hrq) as (z & p & Hz & Z1 & P1).
  fold r in L1, L2, Hz. unfold newq. rewrite Hz, rev_app_distr.
  assert (Pr : Forall (fun c : Z * Z => 0 < fst c) (rev p)).
  { apply Forall_forall. intros x Hx. apply in_rev in Hx. exact (proj1 (Forall_forall _ _) P1 x Hx). }
  assert (Zr : Forall (fun c : Z * Z => fst c = 0) (rev z)).
  { apply Forall_forall. intros x Hx. apply in_rev in Hx. exact (proj1 (Forall_forall _ _) Z1 x Hx). }
  rewrite (take_nonzero_app _ _ Pr Zr). rewrite qsum_rev in *. rewrite Hz, qsum_app, (qsum_zeros z Z1) in L1.
  repeat split; try lia. exact Pr.
Qed.

Lemma filter_partition_qsum (p : Z * Z -> bool) l : qsum (filter p l) + qsum (filter (fun c => negb (p c)) l) = qsum l.
Proof. unfold qsum. induction l as [|x r IH]; cbn [filter map zsum]; [reflexivity|]. destruct (p x); cbn [negb map zsum]; lia. Qed.

(* ---------------- ledger normalisation ---------------- *)
Ltac led_norm :=
  repeat first
    [ match goal with
      | Hl : send ?l0 _ _ _ _ = Ok ?l |- context [?l ?c ?d'] => rewrite (proj2 (proj2 (send_eff _ _ _ _ _ _ Hl)) c d')
      end
    | progress unfold at_, ladd
    | progress cbn [acct_eqb andb] ].
Ltac ifs := repeat match goal with |- context [if ?c then _ else _] => destruct c eqn:? end; try lia.

(* ---------------- transitions that do not touch farming ---------------- *)
Definition FFrame (s s' : state) : Prop :=
  qfs s' = qfs s /\ afs s' = afs s /\ farmed s' = farmed s /\ forall d, led s' Module d = led s Module d.
Lemma finv_frame s s' : FFrame s s' -> FInv s -> FInv s'.
Proof.
  intros (A & B & C & D) [H1 H2 H3 H4 H5]. constructor; unfold queued, active in *; rewrite ?A, ?B, ?C; try assumption.
  intros d. rewrite D. apply H1.
Qed.
Lemma ff_refl s : FFrame s s.
Proof. unfold FFrame. repeat (split; [reflexivity|]). reflexivity. Qed.

Ltac ff_frame H s' :=
  inv_ok H; try subst s'; sends; proj_cbn; unfold FFrame; proj_cbn;
  repeat (split; [reflexivity|]); intros; led_norm; ifs.

Lemma ff_finish s e st s' : finish_entry s e st = Ok s' -> FFrame s s'.
Proof.
  intros H. destruct (finish_entry_eff _ _ _ _ H) as [[_ ->]|(_ & rate & e' & refund & fee & l & _ & _ & _ & _ & Hl & ->)]; [apply ff_refl|].
  unfold FFrame. proj_cbn. repeat (split; [reflexivity|]). intros d. rewrite Hl. unfold at_. cbn [acct_eqb andb]. lia.
Qed.
Lemma ff_place s m typ pr price offer fee now s' : place s m typ pr price offer fee now = Ok s' -> FFrame s s'.
Proof.
  intros H. destruct (place_eff _ _ _ _ _ _ _ _ _ H) as (l & _ & _ & Hl & ->).
  unfold FFrame. proj_cbn. repeat (split; [reflexivity|]). intros d. rewrite Hl. unfold at_. cbn [acct_eqb andb]. lia.
Qed.
Lemma ff_mm_tail s m pr bt st now s' : mm_tail s m pr bt st now = Ok s' -> FFrame s s'.
Proof.
  unfold mm_tail, obind. intros H.
  destruct (ssend s _ _ _ _) as [s2| |] eqn:E2; try discriminate.
  destruct (ssend s2 _ _ _ _) as [s3| |] eqn:E3; try discriminate.
  destruct (mm_place _ _ _ _ pr true bt _ (orders s3)) as [[st1 ids1] last1].
  destruct (mm_place _ _ _ _ pr false st last1 st1) as [[st2 ids2] last2]. injection H as <-. sends.
  unfold FFrame. proj_cbn. repeat (split; [reflexivity|]). intros d. led_norm. lia.
Qed.
Lemma ff_esc_in s app pair from d x s' : is_outside from = true -> esc_in s app pair from d x = Ok s' -> FFrame s s'.
Proof.
  intros Hf H. destruct (esc_in_eff _ _ _ _ _ _ _ H) as (l & _ & Hl & ->).
  unfold FFrame. proj_cbn. repeat (split; [reflexivity|]). intros d'. rewrite Hl. unfold at_.
  destruct from; try discriminate; cbn [acct_eqb andb]; lia.
Qed.
Lemma ff_esc_out s app pair to d x s' : is_outside to = true -> esc_out s app pair to d x = Ok s' -> FFrame s s'.
Proof.
  intros Hf H. destruct (esc_out_eff _ _ _ _ _ _ _ H) as (l & _ & Hl & ->).
  unfold FFrame. proj_cbn. repeat (split; [reflexivity|]). intros d'. rewrite Hl. unfold at_.
  destruct to; try discriminate; cbn [acct_eqb andb]; lia.
Qed.
Lemma ff_create_pair s a c b q s' : create_pair s a c b q = Ok s' -> FFrame s s'.
Proof. unfold create_pair, obind. intros H. ff_frame H s'. Qed.
Lemma ff_new_pool s P a c pr rg ax ay ps s' : new_pool s P a c pr rg ax ay ps = Ok s' -> FFrame s s'.
Proof. unfold new_pool, obind. intros H. ff_frame H s'. Qed.
Lemma ff_deposit_req s a o p x y s' r : deposit_req s a o p x y = Ok (s', r) -> FFrame s s'.
Proof. unfold deposit_req, obind. intros H. ff_frame H s'. Qed.
Lemma ff_withdraw_req s a o p pc s' r : withdraw_req s a o p pc = Ok (s', r) -> FFrame s s'.
Proof. unfold withdraw_req, obind. intros H. ff_frame H s'. Qed.
Lemma ff_fail_dep s r s' : fail_dep s r = Ok s' -> FFrame s s'.
Proof. unfold fail_dep, obind. intros H. ff_frame H s'. Qed.
Lemma ff_fail_wd s r s' : fail_wd s r = Ok s' -> FFrame s s'.
Proof. unfold fail_wd, obind. intros H. ff_frame H s'. Qed.
Lemma ff_do_deposit s r pr ax ay pc s' : do_deposit s r pr ax ay pc = Ok s' -> FFrame s s'.
Proof. unfold do_deposit, obind. intros H. ff_frame H s'. Qed.
Lemma ff_do_withdraw s r pl pr x y s' : do_withdraw s r pl pr x y = Ok s' -> FFrame s s'.
Proof. unfold do_withdraw, obind. intros H. ff_frame H s'. Qed.

(* ---------------- farm / unfarm / maturation ---------------- *)
Lemma fi_farm s app owner pid amt now s' : FInv s -> farm s app owner pid amt now = Ok s' -> FInv s'.
Proof.
  intros [H1 H2 H3 H4 H5] H. unfold farm in H.
  destruct ((pid =? 0) || (app =? 0) || (amt <=? 0)) eqn:Eg; [discriminate|].
  destruct (negb (has_app s app)); [discriminate|]. destruct (find_pool app pid (pools s)); [|discriminate].
  unfold obind in H. destruct (ssend s _ _ _ _) as [s1| |] eqn:E1; try discriminate. injection H as <-. sends. proj_cbn.
  set (pd := pool_denom app pid) in *.
  set (q0 := match find_qf app pid owner (qfs s) with Some q => q | None => mkQF app pid owner [] end).
  set (nq := mkQF app pid owner (q_coins q0 ++ [(amt, now)])).
  assert (Hq0 : qterm pd q0 = match find (fun x => k3_eqb (qkey x) (qkey nq)) (qfs s) with Some x => qterm pd x | None => 0 end /\
                Forall (fun c => 0 < fst c) (q_coins q0) /\ pool_denom (q_app q0) (q_pool q0) = pd).
  { unfold q0. rewrite find_qf_spec. unfold qmatch. change (qkey nq) with (app, pid, owner).
    destruct (find (fun x => k3_eqb (qkey x) (app, pid, owner)) (qfs s)) as [q|] eqn:Ef.
    - destruct (find_in qkey _ _ _ Ef) as [Hin Hk]. unfold qkey in Hk. injection Hk as K1 K2 K3.
      split; [reflexivity|]. split; [apply H5; exact Hin|]. rewrite K1, K2. reflexivity.
    - split; [unfold qterm, qsum; cbn [q_app q_pool q_coins map zsum]; destruct (pool_denom app pid =? pd); reflexivity|]. split; [constructor|reflexivity]. }
  destruct Hq0 as (Q1 & Q2 & Q3).
  constructor; proj_cbn; unfold queued, active in *; proj_cbn.
  - intros d. led_norm. unfold fadd1. rewrite H1. fold pd. ifs.
  - intros d. unfold fadd1. rewrite H2. rewrite put_qf_eq. cbn [map zsum]. rewrite (zsum_remove qkey (qterm d) _ _ H3).
    fold nq. assert (Hnq : qterm d nq = if pd =? d then qsum (q_coins q0) + amt else 0).
    { unfold qterm. cbn [nq q_app q_pool q_coins]. fold pd. rewrite qsum_app. unfold qsum at 2. cbn [map zsum fst]. destruct (pd =? d); lia. }
    rewrite Hnq. destruct (pd =? d) eqn:Ed.
    + assert (d = pd) by lia. subst d. rewrite <- Q1. unfold qterm. rewrite Q3, Z.eqb_refl. lia.
    + assert (Hz : match find (fun x => k3_eqb (qkey x) (qkey nq)) (qfs s) with Some x => qterm d x | None => 0 end = 0).
      { destruct (find _ (qfs s)) as [q|] eqn:Ef; [|reflexivity]. destruct (find_in qkey _ _ _ Ef) as [_ Hk].
        unfold qkey in Hk. cbn [nq q_app q_pool q_owner] in Hk. injection Hk as K1 K2 K3. unfold qterm. rewrite K1, K2. fold pd. rewrite Ed. reflexivity. }
      rewrite Hz. lia.
  - rewrite put_qf_eq. apply nodup_remove_cons; [reflexivity|exact H3].
  - exact H4.
  - intros q Hq. rewrite put_qf_eq in Hq. destruct Hq as [<-|Hq]; [|apply filter_In in Hq; apply H5, Hq].
    cbn [nq q_coins]. apply Forall_app. split; [exact Q2|]. constructor; [cbn; lia|constructor].
Qed.

Lemma fi_unfarm s app owner pid amt s' : FInv s -> unfarm s app owner pid amt = Ok s' -> FInv s'.
Proof.
  intros [H1 H2 H3 H4 H5] H. unfold unfarm in H.
  destruct ((pid =? 0) || (app =? 0) || (amt <=? 0)) eqn:Eg; [discriminate|].
  destruct (negb (has_app s app)); [discriminate|]. destruct (find_pool app pid (pools s)); [|discriminate].
  set (pd := pool_denom app pid) in *.
  destruct (find_qf app pid owner (qfs s)) as [q|] eqn:Eq.
  2:{ destruct (find_af app pid owner (afs s)) as [a|]; [|discriminate].
      destruct (0 + a_amt a <? amt); [discriminate|]. cbn [negb] in H. destruct (negb (amt =? 0)); unfold obind in H;
      destruct (ssend s _ _ _ _); discriminate. }
  rewrite find_qf_spec in Eq. unfold qmatch in Eq. destruct (find_in qkey _ _ _ Eq) as [Hqin Hqk].
  unfold qkey in Hqk. injection Hqk as K1 K2 K3.
  pose proof (unfarm_newq (q_coins q) amt ltac:(lia) (H5 q Hqin)) as (N1 & N2 & N3). cbv zeta in N1, N2, N3.
  destruct (unfarm_queue (rev (q_coins q)) amt) as [rq lft] eqn:Eu. cbn [fst snd] in N1, N2, N3.
  assert (Hqt : forall d, match find (fun x => k3_eqb (qkey x) (app, pid, owner)) (qfs s) with Some x => qterm d x | None => 0 end
                          = if pd =? d then qsum (q_coins q) else 0).
  { intros d. rewrite Eq. unfold qterm. rewrite K1, K2. reflexivity. }
  set (nq := mkQF app pid owner (take_nonzero (rev rq))) in *.
  destruct (find_af app pid owner (afs s)) as [a|] eqn:Ea.
  - (* an active farmer record exists *)
    rewrite find_af_spec in Ea. unfold amatch in Ea. destruct (find_in akey _ _ _ Ea) as [Hain Hak].
    unfold akey in Hak. injection Hak as A1 A2 A3.
    destruct (zsum (map fst (q_coins q)) + a_amt a <? amt) eqn:Eb; [discriminate|].
    assert (Hat : forall d, match find (fun x => k3_eqb (akey x) (app, pid, owner)) (afs s) with Some x => aterm d x | None => 0 end
                            = if pd =? d then a_amt a else 0).
    { intros d. rewrite Ea. unfold aterm. rewrite A1, A2. reflexivity. }
    replace (match negb (lft =? 0) with true => _ | false => _ end) with
      (do s1 <- ssend s Module (User owner) pd amt;
       let s2 := if negb (lft =? 0) then
                   (if a_amt a - lft =? 0 then set_afs s1 (del_af app pid owner (afs s1))
                    else set_afs s1 (put_af (mkAF app pid owner (a_amt a - lft)) (afs s1))) else s1 in
       Ok (set_qfs (set_farmed s2 (fadd1 (farmed s2) pd (- amt))) (put_qf nq (qfs (set_farmed s2 (fadd1 (farmed s2) pd (- amt)))))))
      in H by (destruct (negb (lft =? 0)); reflexivity).
    unfold obind in H. destruct (ssend s _ _ _ _) as [s1| |] eqn:E1; try discriminate. injection H as <-. sends.
    destruct (negb (lft =? 0)) eqn:El; [destruct (a_amt a - lft =? 0) eqn:Ez|]; proj_cbn;
      (constructor; proj_cbn; unfold queued, active in *; proj_cbn;
       [ intros d; led_norm; unfold fadd1; rewrite H1; fold pd; ifs
       | intros d; unfold fadd1; rewrite H2, put_qf_eq; cbn [map zsum];
         rewrite (zsum_remove qkey (qterm d) _ _ H3); change (qkey nq) with (app, pid, owner); rewrite Hqt;
         change (qterm d nq) with (if pd =? d then qsum (take_nonzero (rev rq)) else 0)
       | rewrite put_qf_eq; apply nodup_remove_cons; [reflexivity|exact H3]
       |
       | intros q' Hq'; rewrite put_qf_eq in Hq'; destruct Hq' as [<-|Hq']; [exact N3|apply filter_In in Hq'; apply H5, Hq'] ]).
    + rewrite del_af_eq, (zsum_remove akey (aterm d) _ _ H4), Hat. ifs.
    + rewrite del_af_eq. clear -H4. induction (afs s) as [|y t IH]; cbn [filter map]; [constructor|].
      inversion H4 as [|? ? Hy Ht]; subst. destruct (negb _); [|exact (IH Ht)]. cbn [map]. constructor; [|exact (IH Ht)].
      intros Hi. apply Hy. apply in_map_iff in Hi. destruct Hi as (z & Hz & Hz2). apply filter_In in Hz2.
      apply in_map_iff. exists z. split; [exact Hz|apply Hz2].
    + rewrite put_af_eq. cbn [map zsum]. rewrite (zsum_remove akey (aterm d) _ _ H4).
      change (akey (mkAF app pid owner (a_amt a - lft))) with (app, pid, owner). rewrite Hat.
      change (aterm d (mkAF app pid owner (a_amt a - lft))) with (if pd =? d then a_amt a - lft else 0). ifs.
    + rewrite put_af_eq. apply nodup_remove_cons; [reflexivity|exact H4].
    + ifs.
    + exact H4.
  - (* no active farmer record: the whole amount must come from the queue *)
    destruct (zsum (map fst (q_coins q)) + 0 <? amt) eqn:Eb; [discriminate|].
    destruct (negb (lft =? 0)) eqn:El; [discriminate|].
    unfold obind in H. destruct (ssend s _ _ _ _) as [s1| |] eqn:E1; try discriminate. injection H as <-. sends. proj_cbn.
    constructor; proj_cbn; unfold queued, active in *; proj_cbn.
    + intros d. led_norm. unfold fadd1. rewrite H1. fold pd. ifs.
    + intros d. unfold fadd1. rewrite H2, put_qf_eq. cbn [map zsum].
      rewrite (zsum_remove qkey (qterm d) _ _ H3). change (qkey nq) with (app, pid, owner). rewrite Hqt.
      change (qterm d nq) with (if pd =? d then qsum (take_nonzero (rev rq)) else 0). ifs.
    + rewrite put_qf_eq. apply nodup_remove_cons; [reflexivity|exact H3].
    + exact H4.
    + intros q' Hq'. rewrite put_qf_eq in Hq'. destruct Hq' as [<-|Hq']; [exact N3|apply filter_In in Hq'; apply H5, Hq'].
Qed.

Lemma find_unique {A} (key : A -> key3) l x : NoDup (map key l) -> In x l -> find (fun y => k3_eqb (key y) (key x)) l = Some x.
Proof.
  induction l as [|y t IH]; intros Hnd []; cbn [find].
  - subst. rewrite k3_eqb_refl. reflexivity.
  - inversion Hnd as [|? ? Hy Ht]; subst. destruct (k3_eqb (key y) (key x)) eqn:E; [|exact (IH Ht H)].
    apply k3_eqb_eq in E. exfalso. apply Hy. rewrite E. apply in_map. exact H.
Qed.
Lemma nodup_filter_map {A} (key : A -> key3) (p : A -> bool) l : NoDup (map key l) -> NoDup (map key (filter p l)).
Proof.
  induction l as [|x r IH]; cbn [filter map]; intros H; [constructor|]. inversion H as [|? ? Hx Hr]; subst.
  destruct (p x); [|exact (IH Hr)]. cbn [map]. constructor; [|exact (IH Hr)].
  intros Hi. apply Hx. apply in_map_iff in Hi. destruct Hi as (y & Hy & Hy2). apply filter_In in Hy2.
  apply in_map_iff. exists y. split; [exact Hy|apply Hy2].
Qed.

Lemma fi_process_qf now dur s q : FInv s -> In q (qfs s) ->
  FInv (process_qf now dur s q) /\ forall q', In q' (qfs s) -> qkey q' <> qkey q -> In q' (qfs (process_qf now dur s q)).
Proof.
  intros [H1 H2 H3 H4 H5] Hin. unfold process_qf.
  pose proof (filter_partition_qsum (fun c => now <? snd c + dur) (q_coins q)) as Hpart.
  remember (filter (fun c => now <? snd c + dur) (q_coins q)) as keep eqn:Ek.
  remember (filter (fun c => negb (now <? snd c + dur)) (q_coins q)) as moved0 eqn:Em.
  destruct moved0 as [|m0 mr]; [split; [constructor; assumption|auto]|]. clear Em.
  set (moved := m0 :: mr) in *.
  set (pd := pool_denom (q_app q) (q_pool q)).
  set (cur := match find_af (q_app q) (q_pool q) (q_owner q) (afs s) with Some a => a_amt a | None => 0 end).
  set (na := mkAF (q_app q) (q_pool q) (q_owner q) (cur + zsum (map fst moved))).
  set (nq := mkQF (q_app q) (q_pool q) (q_owner q) keep).
  assert (Hcur : forall d, match find (fun x => k3_eqb (akey x) (akey na)) (afs s) with Some x => aterm d x | None => 0 end
                           = if pd =? d then cur else 0).
  { intros d. unfold cur. rewrite find_af_spec. unfold amatch. change (akey na) with (q_app q, q_pool q, q_owner q).
    destruct (find _ (afs s)) as [a|] eqn:Ef; [|destruct (pd =? d); reflexivity].
    destruct (find_in akey _ _ _ Ef) as [_ Hk]. unfold akey in Hk. injection Hk as K1 K2 K3. unfold aterm. rewrite K1, K2. reflexivity. }
  split.
  - constructor; proj_cbn; unfold queued, active in *; proj_cbn.
    + exact H1.
    + intros d. rewrite H2, put_qf_eq, put_af_eq. cbn [map zsum].
      rewrite (zsum_remove qkey (qterm d) _ _ H3), (zsum_remove akey (aterm d) _ _ H4), Hcur.
      change (qkey nq) with (qkey q). rewrite (find_unique qkey _ _ H3 Hin).
      change (qterm d nq) with (if pd =? d then qsum keep else 0).
      change (aterm d na) with (if pd =? d then cur + qsum moved else 0).
      unfold qterm. fold pd. ifs.
    + rewrite put_qf_eq. apply nodup_remove_cons; [reflexivity|exact H3].
    + rewrite put_af_eq. apply nodup_remove_cons; [reflexivity|exact H4].
    + intros q' Hq'. rewrite put_qf_eq in Hq'. destruct Hq' as [<-|Hq']; [|apply filter_In in Hq'; apply H5, Hq'].
      cbn [nq q_coins]. rewrite Ek. apply Forall_forall. intros c Hc. apply filter_In in Hc.
      exact (proj1 (Forall_forall _ _) (H5 q Hin) c (proj1 Hc)).
  - intros q' Hq' Hne. proj_cbn. rewrite put_qf_eq. right. apply filter_In. split; [exact Hq'|].
    change (qkey nq) with (qkey q). destruct (k3_eqb (qkey q') (qkey q)) eqn:E; [apply k3_eqb_eq in E; contradiction|reflexivity].
Qed.

Lemma fi_process_queued s now app : FInv s -> FInv (process_queued now app s).
Proof.
  intros HI. unfold process_queued. destruct (get_params s app) as [P|]; [|exact HI].
  assert (G : forall L t, NoDup (map qkey L) -> (forall q, In q L -> In q (qfs t)) -> FInv t ->
                          FInv (fold_left (process_qf now (pr_queue_dur P)) L t)).
  { induction L as [|q r IH]; intros t Hnd Hin Ht; cbn [fold_left]; [exact Ht|].
    inversion Hnd as [|? ? Hq Hr]; subst.
    destruct (fi_process_qf now (pr_queue_dur P) t q Ht (Hin q (or_introl eq_refl))) as [F1 F2].
    apply IH; [exact Hr| |exact F1]. intros q' Hq'. apply F2; [apply Hin; right; exact Hq'|].
    intros E. apply Hq. rewrite <- E. apply in_map. exact Hq'. }
  apply G; [apply nodup_filter_map, (fi_qnodup _ HI)| |exact HI].
  intros q Hq. apply filter_In in Hq. apply Hq.
Qed.

Theorem fi_run ops s : Forall (fun o => is_addapp o = false) ops -> FInv s -> FInv (fold_left apply_op ops s).
Proof.
  intros Ho. apply (sw_run FInv); try assumption.
  - intros; eapply finv_frame; [eapply ff_finish; eauto|assumption].
  - intros; eapply finv_frame; [eapply ff_place; eauto|assumption].
  - intros s0 a o p HI _. eapply finv_frame; [|exact HI]. unfold FFrame. proj_cbn. repeat (split; [reflexivity|]). reflexivity.
  - intros; eapply finv_frame; [eapply ff_mm_tail; eauto|assumption].
  - intros s0 k o g m p r HI _ _ _ _ _. eapply finv_frame; [|exact HI]. destruct k as [[a pp] i]. unfold FFrame, fill_book. proj_cbn. repeat (split; [reflexivity|]). reflexivity.
  - intros s0 k o g st HI _ _ _. eapply finv_frame; [|exact HI]. unfold FFrame. proj_cbn. repeat (split; [reflexivity|]). reflexivity.
  - intros; eapply finv_frame; [eapply ff_esc_in; eauto|assumption].
  - intros; eapply finv_frame; [eapply ff_esc_out; eauto|assumption].
  - intros s0 pr HI. eapply finv_frame; [|exact HI]. unfold FFrame. proj_cbn. repeat (split; [reflexivity|]). reflexivity.
  - intros s0 pr env HI _. eapply finv_frame; [|exact HI]. unfold FFrame. proj_cbn. repeat (split; [reflexivity|]). reflexivity.
  - intros s0 app HI. eapply finv_frame; [|exact HI]. unfold FFrame, begin_app. proj_cbn. repeat (split; [reflexivity|]). reflexivity.
  - intros; eapply finv_frame; [eapply ff_create_pair; eauto|assumption].
  - intros; eapply finv_frame; [eapply ff_new_pool; eauto|assumption].
  - intros; eapply finv_frame; [eapply ff_deposit_req; eauto|assumption].
  - intros; eapply finv_frame; [eapply ff_withdraw_req; eauto|assumption].
  - intros; eapply finv_frame; [eapply ff_fail_dep; eauto|assumption].
  - intros; eapply finv_frame; [eapply ff_fail_wd; eauto|assumption].
  - intros s0 pl a i HI _. eapply finv_frame; [|exact HI]. unfold FFrame. proj_cbn. repeat (split; [reflexivity|]). reflexivity.
  - intros; eapply finv_frame; [eapply ff_do_deposit; eauto|assumption].
  - intros; eapply finv_frame; [eapply ff_do_withdraw; eauto|assumption].
  - exact fi_farm.
  - exact fi_unfarm.
  - exact fi_process_queued.
  - intros s0 d HI. eapply finv_frame; [|exact HI]. unfold FFrame. proj_cbn. repeat (split; [reflexivity|]). reflexivity.
  - intros s0 w d amt HI. eapply finv_frame; [|exact HI]. unfold FFrame. proj_cbn. repeat (split; [reflexivity|]).
    intros. unfold ladd. cbn [acct_eqb andb]. reflexivity.
Qed.
