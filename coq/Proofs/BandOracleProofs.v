(* Proofs about Model/BandOracle.v: the block-level pipeline (bandoracle.BeginBlocker, then
   market.BeginBlocker, IBC callbacks, registration, asset registration) keeps the ring invariant
   of Proofs/MarketProofs.v for every asset over every finite history; an active price is the
   integer mean of n samples delivered since the last wipe; the discard flag is raised exactly
   when an outage measured from the first silent check to the first answered check is at least
   AcceptedHeightDiff blocks, and the market hook then wipes every window before it uses a
   sample; a registration leaves no Twa record. *)
From Comdex Require Import Lib.Base Model.Market Model.BandOracle Proofs.MarketProofs Proofs.MarketBlock.
From Coq Require Import ZifyBool.
From Coq Require FinFun.

(* ---------- the observer store ---------- *)
Lemma gget_gapply gap ops : forall gs id,
  gget (gapply gap gs ops) id = ghost_run gap (gget gs id) (filter_ops id ops).
Proof.
  unfold gapply, ghost_run, filter_ops.
  induction ops as [|[k o] ops IH]; intros gs id; cbn [fold_left filter map fst snd]; [reflexivity|].
  rewrite IH. cbn [gget fst snd].
  destruct (k =? id) eqn:E; cbn [map fold_left snd]; [|reflexivity].
  apply Z.eqb_eq in E. subst k. reflexivity.
Qed.

Lemma ghost_run_app gap a b g : ghost_run gap g (a ++ b) = ghost_run gap (ghost_run gap g a) b.
Proof. unfold ghost_run. apply fold_left_app. Qed.

Lemma ghost_run_invalidates gap id (assets : list (Z * bool)) : forall g,
  ghost_run gap g (filter_ops id (map (fun a : Z * bool => (fst a, Invalidate)) assets)) = g.
Proof.
  unfold ghost_run, filter_ops.
  induction assets as [|[a rq] rest IH]; intros g; cbn [map filter fst snd fold_left]; [reflexivity|].
  destruct (a =? id); cbn [map snd fold_left ghost_step]; apply IH.
Qed.

Lemma ghost_run_discards gap id (known : list Z) : forall g,
  ghost_run gap g (filter_ops id (map (fun k => (k, DiscardReset)) known)) =
  if existsb (fun k => k =? id) known then mkGhost [] (g_disc g) (g_exists g) else g.
Proof.
  unfold ghost_run, filter_ops.
  induction known as [|k r IH]; intros g; cbn [map filter fst snd fold_left existsb]; [reflexivity|].
  destruct (k =? id); cbn [orb map snd fold_left ghost_step]; [|apply IH].
  rewrite IH. cbn [g_disc g_exists]. destruct (existsb _ r); reflexivity.
Qed.

(* ---------- an active price is the mean of the last n samples: an invariant ---------- *)
Definition AvgOk (n : Z) (g : ghost) (t : option twa) : Prop :=
  match t with
  | Some tw => active tw = true -> avg tw = zsum (firstn (Z.to_nat n) (g_hist g)) / n
  | None => True
  end.

Lemma mstep_avg n gap g t o t' :
  1 <= n -> Inv17 n g t -> AvgOk n g t -> mstep n gap t o = Ok t' ->
  AvgOk n (ghost_step gap g o) t'.
Proof.
  intros Hn HI HA Hs. destruct o as [h r| |].
  - destruct (Z.gtb_spec r 0) as [Hr|Hr].
    + destruct t' as [tw'|]; [|exact I]. intros Ha.
      apply (sample_mean n gap g t h r (Some tw') tw' Hn HI ltac:(lia) Hs eq_refl Ha).
    + cbn [mstep] in Hs. destruct t as [tw|].
      * destruct HI as (He & Hd & HR). unfold update in Hs.
        destruct ((r <=? 0) && (disc tw <? 0)) eqn:E1.
        { injection Hs as <-. cbn [AvgOk active]. discriminate. }
        destruct ((r >? 0) && (disc tw >? 0)) eqn:E2; [lia|].
        rewrite tail_zero in Hs by lia. injection Hs as <-.
        cbn [ghost_step]. rewrite He, <- Hd, E1, E2.
        destruct (Z.gtb_spec r 0); [lia|]. exact HA.
      * unfold update, update_tail in Hs. destruct (Z.gtb_spec r 0); [lia|].
        injection Hs as <-. exact I.
  - cbn [mstep] in Hs. injection Hs as <-. destruct t as [tw|]; cbn [option_map AvgOk discard_reset active];
      [discriminate|exact I].
  - cbn [mstep] in Hs. injection Hs as <-. destruct t as [tw|]; cbn [option_map AvgOk invalidate active];
      [discriminate|exact I].
Qed.

Definition Inv17m (n : Z) (g : ghost) (t : option twa) : Prop := Inv17 n g t /\ AvgOk n g t.

Theorem mrun_inv_m n gap ops : forall g t,
  1 <= n -> Inv17m n g t ->
  exists t', mrun n gap t ops = Ok t' /\ Inv17m n (ghost_run gap g ops) t'.
Proof.
  induction ops as [|o ops IH]; intros g t Hn [HI HA]; cbn [mrun ghost_run fold_left].
  - exists t. split; [reflexivity|split; assumption].
  - destruct (mstep_inv n gap g t o Hn HI) as (t1 & Hs & HI1). rewrite Hs. cbn [obind].
    apply IH; [assumption|]. split; [exact HI1|]. apply (mstep_avg n gap g t o t1 Hn HI HA Hs).
Qed.

(* ---------- the boolean predicate the runner evaluates is the invariant ---------- *)
Lemma zlist_eqb_refl a : zlist_eqb a a = true.
Proof. induction a as [|x a IH]; cbn [zlist_eqb]; [reflexivity|]. rewrite Z.eqb_refl, IH. reflexivity. Qed.

Lemma zlist_eqb_eq a : forall b, zlist_eqb a b = true -> a = b.
Proof.
  induction a as [|x a IH]; intros [|y b] H; cbn [zlist_eqb] in H; try discriminate; [reflexivity|].
  apply andb_prop in H. destruct H as [H1 H2]. apply Z.eqb_eq in H1. rewrite (IH b H2), H1. reflexivity.
Qed.

Lemma ring_b_of_ring n h tw : Ring n h tw -> ring_b n h tw = true.
Proof.
  unfold ring_b. intros [(H1 & H2 & H3 & H4)|(H1 & H2 & H3 & H4)].
  - destruct (Z.ltb_spec (zlen h) n); [|lia]. rewrite H2, zlist_eqb_refl, H3, Z.eqb_refl, H4. reflexivity.
  - destruct (Z.ltb_spec (zlen h) n); [lia|]. rewrite H4, zlist_eqb_refl, H2, Z.eqb_refl.
    destruct (Z.leb_spec 0 (idx tw)); [|lia]. destruct (Z.ltb_spec (idx tw) n); [|lia]. reflexivity.
Qed.

Lemma ring_of_ring_b n h tw : ring_b n h tw = true -> Ring n h tw.
Proof.
  unfold ring_b. destruct (Z.ltb_spec (zlen h) n) as [Hl|Hl]; intros H.
  - left. apply andb_prop in H. destruct H as [H H3]. apply andb_prop in H. destruct H as [H1 H2].
    apply zlist_eqb_eq in H1. apply Z.eqb_eq in H2. apply negb_true_iff in H3. auto.
  - right. apply andb_prop in H. destruct H as [H H4]. apply andb_prop in H. destruct H as [H H3].
    apply andb_prop in H. destruct H as [H1 H2]. apply zlist_eqb_eq in H4.
    repeat split; try lia. exact H4.
Qed.

Theorem holds_pipe_iff n g t : holds_C17_pipe n g t = true <-> Inv17m n g t.
Proof.
  unfold holds_C17_pipe, Inv17m, Inv17, AvgOk. destruct t as [tw|].
  - split.
    + intros H. apply andb_prop in H. destruct H as [H H4]. apply andb_prop in H. destruct H as [H H3].
      apply andb_prop in H. destruct H as [H1 H2]. apply Z.eqb_eq in H2.
      split; [repeat split; [exact H1|exact H2|apply ring_of_ring_b; exact H3]|].
      intros Ha. rewrite Ha in H4. apply Z.eqb_eq in H4. exact H4.
    + intros [(H1 & H2 & H3) H4]. rewrite H1, H2, Z.eqb_refl, (ring_b_of_ring _ _ _ H3). cbn [andb].
      destruct (active tw); [|reflexivity]. rewrite (H4 eq_refl). apply Z.eqb_refl.
  - split; [intros H; apply negb_true_iff in H; split; [exact H|exact I]|].
    intros [H _]. rewrite H. reflexivity.
Qed.

(* ---------- bandoracle.BeginBlocker: what it leaves alone ---------- *)
Lemma band_bb_block h b : b_block (band_begin_block h b) = b_block b.
Proof. unfold band_begin_block. destruct (b_block b =? 0), (h mod 20 =? 0), (b_check b); reflexivity. Qed.
Lemma band_bb_msg h b : b_msg (band_begin_block h b) = b_msg b.
Proof. unfold band_begin_block. destruct (b_block b =? 0), (h mod 20 =? 0), (b_check b); reflexivity. Qed.
Lemma band_bb_last h b : b_last (band_begin_block h b) = b_last b.
Proof. unfold band_begin_block. destruct (b_block b =? 0), (h mod 20 =? 0), (b_check b); reflexivity. Qed.
Lemma band_bb_results h b : b_results (band_begin_block h b) = b_results b.
Proof. unfold band_begin_block. destruct (b_block b =? 0), (h mod 20 =? 0), (b_check b); reflexivity. Qed.

(* the discard flag is raised only by an answered check, at a height the market hook works at *)
Lemma band_bb_dbool h b :
  b_dbool b = false -> b_dbool (band_begin_block h b) = true ->
  b_valid (band_begin_block h b) = true /\ h mod 20 = 0 /\ b_block b <> 0.
Proof.
  unfold band_begin_block. intros H0.
  destruct (Z.eqb_spec (b_block b) 0) as [|Hb]; [congruence|].
  destruct (Z.eqb_spec (h mod 20) 0) as [Hm|]; [|congruence].
  destruct (b_check b); cbn [negb b_dbool b_valid]; [|congruence].
  unfold discard_update. rewrite H0.
  destruct (negb (b_last b =? b_temp b)); cbn [negb andb fst snd].
  - intros _. auto.
  - destruct (b_dheight b <? 0); cbn [snd]; congruence.
Qed.

(* ---------- market.BeginBlocker: the discard flag it returns ---------- *)
Lemma begin_block_dflag e assets s s' d :
  begin_block e assets s = Ok (s', d) ->
  d = if bb_valid e && (negb (bb_last e =? 0) && (bb_height e mod 20 =? 0)) then false else bb_discard e.
Proof.
  unfold begin_block. destruct (bb_valid e); cbn [andb].
  - destruct (negb (bb_last e =? 0) && (bb_height e mod 20 =? 0)).
    + destruct (rate_loop _ _ _ _ _ _ _); intros H; inversion H; reflexivity.
    + intros H; inversion H; reflexivity.
  - intros H; inversion H; reflexivity.
Qed.

Lemma fold_invalidate_nil (assets : list (Z * bool)) :
  fold_left (fun acc a => match sget acc (fst a) with
                          | Some tw => sset acc (fst a) (invalidate tw)
                          | None => acc end) assets (@nil (Z * twa)) = [].
Proof. induction assets as [|a r IH]; cbn [fold_left sget]; [reflexivity|exact IH]. Qed.

(* when the validation result is false the market hook only deactivates: it cannot fail *)
Lemma begin_block_invalid e assets s : bb_valid e = false ->
  begin_block e assets s =
  Ok (fold_left (fun acc a => match sget acc (fst a) with
                              | Some tw => sset acc (fst a) (invalidate tw)
                              | None => acc end) assets s, bb_discard e).
Proof. intros H. unfold begin_block. rewrite H. reflexivity. Qed.

(* ---------- the pipeline invariant ---------- *)
Definition PInv (p : pstate) (gs : gstore) : Prop :=
  b_dbool (p_band p) = false /\
  (b_block (p_band p) = 0 -> p_store p = []) /\
  (b_block (p_band p) <> 0 -> 1 <= f_n (b_msg (p_band p))) /\
  (forall id, Inv17m (f_n (b_msg (p_band p))) (gget gs id) (sget (p_store p) id)) /\
  (forall id, Forall (fun x => x > 0) (g_hist (gget gs id))).

Lemma pinv_init : PInv pinit [].
Proof.
  unfold PInv, pinit. cbn. repeat split; try reflexivity; try lia; constructor.
Qed.

Lemma block_step_inv h p gs : PInv p gs ->
  exists p', block_step h p = Ok p' /\ PInv p' (pghost p gs (Block h)).
Proof.
  intros (Hd & H0 & Hn & HI & HP). unfold block_step. cbn [pghost].
  set (b1 := band_begin_block h (p_band p)).
  assert (Hb1 : b_block b1 = b_block (p_band p)) by apply band_bb_block.
  assert (Hm1 : b_msg b1 = b_msg (p_band p)) by apply band_bb_msg.
  destruct (Z.eq_dec (b_block (p_band p)) 0) as [Hz|Hnz].
  - (* nothing registered: both hooks leave the (empty) store alone *)
    assert (Eb : b1 = p_band p) by (unfold b1, band_begin_block; rewrite Hz; reflexivity).
    rewrite (H0 Hz).
    assert (HB : begin_block (market_env h b1) (p_assets p) [] = Ok ([], b_dbool b1)).
    { unfold begin_block. cbn [market_env bb_valid bb_last bb_height bb_discard]. rewrite Hb1, Hz.
      cbn [Z.eqb negb andb]. destruct (b_valid b1); [reflexivity|]. rewrite fold_invalidate_nil. reflexivity. }
    rewrite HB. eexists; split; [reflexivity|].
    unfold PInv. cbn [p_band p_store set_dbool b_dbool b_block b_msg]. rewrite Eb.
    split; [exact Hd|]. split; [intros; reflexivity|]. split; [intros; contradiction|]. split.
    + intros id. rewrite gget_gapply.
      assert (Hg : ghost_run (f_gap (b_msg (p_band p))) (gget gs id) (filter_ops id (block_ops h p)) = gget gs id).
      { unfold block_ops, bb_ops. fold b1. cbn [market_env bb_valid bb_last bb_height bb_discard]. rewrite Hb1, Hz.
        cbn [Z.eqb negb andb]. destruct (b_valid b1); [reflexivity|apply ghost_run_invalidates]. }
      rewrite Hg. specialize (HI id). rewrite (H0 Hz) in HI. exact HI.
    + intros id. rewrite gget_gapply. apply ghost_run_pos. apply HP.
  - (* registered: 1 <= n, the block refines the per-asset pipeline *)
    specialize (Hn Hnz).
    set (e := market_env h b1).
    assert (Hne : bb_n e = f_n (b_msg (p_band p))) by (unfold e; cbn [market_env bb_n]; rewrite Hm1; reflexivity).
    assert (Hge : bb_gap e = f_gap (b_msg (p_band p))) by (unfold e; cbn [market_env bb_gap]; rewrite Hm1; reflexivity).
    assert (HS : StoreInv (bb_n e) (p_store p)).
    { intros id. exists (gget gs id). rewrite Hne. apply (HI id). }
    destruct (begin_block_no_panic e (p_assets p) (p_store p) ltac:(lia) HS) as (s' & d & HB & _).
    rewrite HB. eexists; split; [reflexivity|].
    assert (Hdf : d = false).
    { rewrite (begin_block_dflag _ _ _ _ _ HB). unfold e. cbn [market_env bb_valid bb_last bb_height bb_discard].
      destruct (b_dbool b1) eqn:Edb; [|destruct (_ && _); reflexivity].
      destruct (band_bb_dbool h (p_band p) Hd Edb) as (Hv & Hmod & _). fold b1 in Hv. rewrite Hv, Hb1.
      destruct (Z.eqb_spec (b_block (p_band p)) 0); [contradiction|]. rewrite Hmod. reflexivity. }
    unfold PInv. cbn [p_band p_store set_dbool b_dbool b_block b_msg]. rewrite Hb1, Hm1.
    split; [exact Hdf|]. split; [intros; contradiction|]. split; [intros; exact Hn|]. split.
    + intros id. rewrite gget_gapply.
      destruct (mrun_inv_m (bb_n e) (bb_gap e) (filter_ops id (bb_ops e (p_assets p) (map fst (p_store p))))
                  (gget gs id) (sget (p_store p) id) ltac:(lia) ltac:(rewrite Hne; apply HI)) as (t' & Hr & HI').
      rewrite (begin_block_refines _ _ _ _ _ HB id) in Hr. injection Hr as <-.
      rewrite Hne, Hge in HI'. exact HI'.
    + intros id. rewrite gget_gapply. apply ghost_run_pos. apply HP.
Qed.

(* the values a Go caller can pass: TwaBatchSize is a uint64 *)
Definition op_typed (o : pop) : Prop :=
  match o with Register _ m => 0 <= f_n m | _ => True end.

Lemma pstep_inv p gs o : op_typed o -> PInv p gs ->
  exists p', pstep p o = Ok p' /\ PInv p' (pghost p gs o).
Proof.
  intros Ht HP. destruct o as [h|r|r rates|h m|req]; cbn [pstep pghost].
  - apply block_step_inv. exact HP.
  - eexists; split; [reflexivity|]. exact HP.
  - eexists; split; [reflexivity|]. exact HP.
  - cbn [op_typed] in Ht. destruct (Z.eqb_spec (f_n m) 0) as [|Hm].
    + eexists; split; [reflexivity|exact HP].
    + eexists; split; [reflexivity|]. unfold PInv.
      cbn [p_band p_store add_fetch_price_records b_dbool b_block b_msg gget sget].
      repeat split; try reflexivity; try lia; try constructor.
  - eexists; split; [reflexivity|]. destruct HP as (H1 & H2 & H3 & H4 & H5).
    unfold PInv. cbn [p_band p_store]. destruct req; cbn [set_check b_dbool b_block b_msg]; exact (conj H1 (conj H2 (conj H3 (conj H4 H5)))).
Qed.

Theorem prun_g_inv ops : forall p gs, Forall op_typed ops -> PInv p gs ->
  exists p' gs', prun_g p gs ops = Ok (p', gs') /\ PInv p' gs'.
Proof.
  induction ops as [|o ops IH]; intros p gs Ht HP; cbn [prun_g].
  - exists p, gs. split; [reflexivity|exact HP].
  - inversion Ht as [|? ? Ho Hr]; subst.
    destruct (pstep_inv p gs o Ho HP) as (p1 & Hs & HP1). rewrite Hs. cbn [obind]. apply IH; assumption.
Qed.

Lemma prun_of_prun_g ops : forall p gs p' gs', prun_g p gs ops = Ok (p', gs') -> prun p ops = Ok p'.
Proof.
  induction ops as [|o ops IH]; intros p gs p' gs' H; cbn [prun_g prun] in *.
  - injection H as <- _. reflexivity.
  - destruct (pstep p o) as [p1| |]; cbn [obind] in *; try discriminate. apply (IH _ _ _ _ H).
Qed.

Lemma prun_app a : forall p b, prun p (a ++ b) = obind (prun p a) (fun p' => prun p' b).
Proof.
  induction a as [|o a IH]; intros p b; cbn [app prun obind]; [reflexivity|].
  destruct (pstep p o) as [p1| |]; cbn [obind]; [apply IH|reflexivity|reflexivity].
Qed.

Lemma prun_g_app a : forall p gs b,
  prun_g p gs (a ++ b) = obind (prun_g p gs a) (fun pg => prun_g (fst pg) (snd pg) b).
Proof.
  induction a as [|o a IH]; intros p gs b; cbn [app prun_g obind fst snd]; [reflexivity|].
  destruct (pstep p o) as [p1| |]; cbn [obind]; [apply IH|reflexivity|reflexivity].
Qed.

(* what the invariant says about an active price *)
Lemma pinv_active p gs id tw : PInv p gs ->
  sget (p_store p) id = Some tw -> active tw = true ->
  let n := f_n (b_msg (p_band p)) in
  let hist := g_hist (gget gs id) in
  1 <= n /\ zlen hist >= n /\ Forall (fun x => x > 0) hist /\
  zlen (vals tw) = n /\ 0 <= idx tw < n /\ avg tw = zsum (firstn (Z.to_nat n) hist) / n.
Proof.
  intros (Hd & H0 & Hn & HI & HP) Hg Ha n hist.
  assert (Hnz : b_block (p_band p) <> 0).
  { intros Hz. rewrite (H0 Hz) in Hg. discriminate. }
  specialize (Hn Hnz). specialize (HI id). rewrite Hg in HI. destruct HI as [HI HA].
  split; [exact Hn|]. split; [apply (inv_activation _ _ _ HI Ha)|]. split; [apply HP|].
  destruct (inv_index _ _ _ Hn HI) as (_ & Hi0 & Hact). destruct (Hact Ha) as [Hl Hi].
  split; [exact Hl|]. split; [lia|]. apply (HA Ha).
Qed.

(* ---------- registration ---------- *)
Lemma register_effect p gs h m : f_n m <> 0 ->
  exists p', pstep p (Register h m) = Ok p' /\ p_store p' = [] /\ pghost p gs (Register h m) = [] /\
    b_msg (p_band p') = m /\ b_block (p_band p') = h /\ b_check (p_band p') = false /\
    b_dheight (p_band p') = -1 /\ b_dbool (p_band p') = false /\ p_assets p' = p_assets p.
Proof.
  intros Hm. cbn [pstep pghost]. destruct (Z.eqb_spec (f_n m) 0); [contradiction|].
  eexists; split; [reflexivity|]. cbn. repeat split.
Qed.

(* ---------- the outage: first silent check h0 ... first answered check h1 ---------- *)
(* band state between the silent check at h0 and the next acknowledgement *)
Definition Out (h0 : Z) (m : fmsg) (l : Z) (b : bstate) : Prop :=
  b_block b <> 0 /\ b_check b = true /\ b_dheight b = h0 /\ b_last b = l /\ b_temp b = l /\
  b_valid b = false /\ b_dbool b = false /\ b_msg b = m.

(* ... and after the acknowledgement of a new request r, before the next check *)
Definition Pending (h0 : Z) (m : fmsg) (l r : Z) (b : bstate) : Prop :=
  b_block b <> 0 /\ b_check b = true /\ b_dheight b = h0 /\ b_last b = r /\ b_temp b = l /\
  b_valid b = false /\ b_dbool b = false /\ b_msg b = m.

Definition silent_op (o : pop) : Prop :=
  match o with Block _ => True | Result _ _ => True | _ => False end.
Definition quiet_op (o : pop) : Prop :=
  match o with Block h => h mod 20 <> 0 | Result _ _ => True | _ => False end.

Lemma block_step_invalid h p : b_valid (band_begin_block h (p_band p)) = false ->
  exists s', block_step h p =
    Ok (mkP (set_dbool (band_begin_block h (p_band p)) (b_dbool (band_begin_block h (p_band p)))) (p_assets p) s').
Proof.
  intros Hv. unfold block_step. rewrite begin_block_invalid by exact Hv.
  eexists; reflexivity.
Qed.

Lemma outage_start h0 p :
  b_block (p_band p) <> 0 -> b_check (p_band p) = true -> b_dheight (p_band p) < 0 ->
  b_last (p_band p) = b_temp (p_band p) -> b_dbool (p_band p) = false -> h0 mod 20 = 0 ->
  exists p', pstep p (Block h0) = Ok p' /\ Out h0 (b_msg (p_band p)) (b_last (p_band p)) (p_band p').
Proof.
  intros Hb Hc Hd Hl Hdb Hm. cbn [pstep].
  assert (E : band_begin_block h0 (p_band p) =
              mkBand (b_block (p_band p)) (b_last (p_band p)) (b_last (p_band p)) true h0 false false
                     (b_msg (p_band p)) (b_results (p_band p))).
  { unfold band_begin_block. destruct (Z.eqb_spec (b_block (p_band p)) 0); [contradiction|].
    rewrite Hm, Hc. cbn [Z.eqb negb]. rewrite <- Hl, Z.eqb_refl. cbn [negb]. unfold discard_update. cbn [negb andb].
    destruct (Z.ltb_spec (b_dheight (p_band p)) 0); [|lia]. cbn [fst snd]. rewrite Hdb. reflexivity. }
  destruct (block_step_invalid h0 p) as [s' Hs]; [rewrite E; reflexivity|].
  rewrite Hs, E. eexists; split; [reflexivity|]. unfold Out. cbn. repeat split; auto.
Qed.

Lemma outage_silent_step h0 m l p o : 0 < h0 ->
  Out h0 m l (p_band p) -> silent_op o ->
  exists p', pstep p o = Ok p' /\ Out h0 m l (p_band p').
Proof.
  intros Hh (Hb & Hc & Hd & Hl & Ht & Hv & Hdb & Hmsg) Ho. destruct o as [h|r|r rates|h mm|req]; try contradiction.
  - cbn [pstep].
    assert (E : band_begin_block h (p_band p) =
                if h mod 20 =? 0
                then mkBand (b_block (p_band p)) l l true h0 false false m (b_results (p_band p))
                else p_band p).
    { unfold band_begin_block. destruct (Z.eqb_spec (b_block (p_band p)) 0); [contradiction|].
      destruct (h mod 20 =? 0); [|reflexivity]. rewrite Hc, Hl, Ht, Z.eqb_refl, Hd, Hdb, Hmsg. cbn [negb].
      unfold discard_update. cbn [negb andb]. destruct (Z.ltb_spec h0 0); [lia|]. reflexivity. }
    destruct (block_step_invalid h p) as [s' Hs]; [rewrite E; destruct (h mod 20 =? 0); [reflexivity|exact Hv]|].
    rewrite Hs, E. eexists; split; [reflexivity|]. unfold Out.
    destruct (h mod 20 =? 0); cbn; repeat split; auto.
  - cbn [pstep]. eexists; split; [reflexivity|]. unfold Out. cbn. repeat split; auto.
Qed.

Lemma outage_silent_run h0 m l ops : 0 < h0 -> Forall silent_op ops ->
  forall p, Out h0 m l (p_band p) -> exists p', prun p ops = Ok p' /\ Out h0 m l (p_band p').
Proof.
  intros Hh. induction 1 as [|o ops Ho _ IH]; intros p HO; cbn [prun].
  - exists p; split; [reflexivity|exact HO].
  - destruct (outage_silent_step h0 m l p o Hh HO Ho) as (p1 & Hs & HO1). rewrite Hs. cbn [obind]. apply IH. exact HO1.
Qed.

Lemma pending_quiet_step h0 m l r p o :
  Pending h0 m l r (p_band p) -> quiet_op o ->
  exists p', pstep p o = Ok p' /\ Pending h0 m l r (p_band p').
Proof.
  intros (Hb & Hc & Hd & Hl & Ht & Hv & Hdb & Hmsg) Ho. destruct o as [h|r'|r' rates|h mm|req]; try contradiction.
  - cbn [pstep quiet_op] in *.
    assert (E : band_begin_block h (p_band p) = p_band p).
    { unfold band_begin_block. destruct (Z.eqb_spec (b_block (p_band p)) 0); [reflexivity|].
      destruct (Z.eqb_spec (h mod 20) 0); [contradiction|reflexivity]. }
    destruct (block_step_invalid h p) as [s' Hs]; [rewrite E; exact Hv|].
    rewrite Hs, E. eexists; split; [reflexivity|]. unfold Pending. cbn. repeat split; auto.
  - cbn [pstep]. eexists; split; [reflexivity|]. unfold Pending. cbn. repeat split; auto.
Qed.

Lemma pending_quiet_run h0 m l r ops : Forall quiet_op ops ->
  forall p, Pending h0 m l r (p_band p) -> exists p', prun p ops = Ok p' /\ Pending h0 m l r (p_band p').
Proof.
  induction 1 as [|o ops Ho _ IH]; intros p HO; cbn [prun].
  - exists p; split; [reflexivity|exact HO].
  - destruct (pending_quiet_step h0 m l r p o HO Ho) as (p1 & Hs & HO1). rewrite Hs. cbn [obind]. apply IH. exact HO1.
Qed.

(* the answered check at h1: the exact boundary the code uses *)
Lemma pending_check h0 m l r h1 b : 0 < h0 -> r <> l -> h1 mod 20 = 0 ->
  Pending h0 m l r b ->
  let b' := band_begin_block h1 b in
  b_valid b' = true /\ b_dheight b' = -1 /\ b_dbool b' = (h1 - h0 >=? f_gap m) /\
  b_block b' = b_block b /\ b_last b' = r /\ b_temp b' = r /\ b_msg b' = m /\ b_results b' = b_results b.
Proof.
  intros Hh Hr Hm (Hb & Hc & Hd & Hl & Ht & Hv & Hdb & Hmsg). cbv zeta.
  unfold band_begin_block. destruct (Z.eqb_spec (b_block b) 0); [contradiction|].
  rewrite Hm, Hc, Hl, Ht, Hd, Hdb, Hmsg. cbn [Z.eqb negb].
  destruct (Z.eqb_spec r l); [contradiction|]. cbn [negb]. unfold discard_update. cbn [negb andb].
  destruct (Z.gtb_spec h0 0); [|lia].
  destruct (Z.ltb_spec (h1 - h0) (f_gap m)); destruct (Z.geb_spec (h1 - h0) (f_gap m)); try lia;
    cbn; repeat split; reflexivity.
Qed.

(* the whole outage, from any state of the pipeline in which the last check was answered *)
Theorem outage_run p h0 mid r post :
  b_block (p_band p) <> 0 -> b_check (p_band p) = true -> b_dheight (p_band p) < 0 ->
  b_last (p_band p) = b_temp (p_band p) -> b_dbool (p_band p) = false ->
  0 < h0 -> h0 mod 20 = 0 -> Forall silent_op mid -> Forall quiet_op post -> r <> b_last (p_band p) ->
  exists p1, prun p (Block h0 :: mid ++ Ack r :: post) = Ok p1 /\
             Pending h0 (b_msg (p_band p)) (b_last (p_band p)) r (p_band p1).
Proof.
  intros Hb Hc Hd Hl Hdb Hh Hm Hmid Hpost Hr.
  destruct (outage_start h0 p Hb Hc Hd Hl Hdb Hm) as (pa & Hsa & HOa).
  destruct (outage_silent_run h0 _ _ mid Hh Hmid pa HOa) as (pb & Hsb & HOb).
  set (pc := mkP (set_last (p_band pb) r) (p_assets pb) (p_store pb)).
  assert (HPc : Pending h0 (b_msg (p_band p)) (b_last (p_band p)) r (p_band pc)).
  { destruct HOb as (H1 & H2 & H3 & H4 & H5 & H6 & H7 & H8). unfold Pending, pc. cbn. repeat split; auto. }
  destruct (pending_quiet_run h0 _ _ r post Hpost pc HPc) as (pd & Hsd & HPd).
  exists pd. split; [|exact HPd].
  change (Block h0 :: mid ++ Ack r :: post) with ([Block h0] ++ mid ++ [Ack r] ++ post).
  rewrite prun_app. cbn [prun]. rewrite Hsa. cbn [obind].
  rewrite prun_app, Hsb. cbn [obind app prun pstep]. fold pc. exact Hsd.
Qed.

(* what the block at h1 delivers: when the flag is raised, a DiscardReset for EVERY stored record
   precedes every sample *)
Lemma pending_block_ops h0 m l r h1 p : 0 < h0 -> r <> l -> h1 mod 20 = 0 ->
  Pending h0 m l r (p_band p) ->
  block_ops h1 p =
    (if h1 - h0 >=? f_gap m then map (fun id => (id, DiscardReset)) (map fst (p_store p)) else [])
    ++ bb_samples h1 (lookup_result (b_results (p_band p)) r) (p_assets p) (-1).
Proof.
  intros Hh Hr Hm HP.
  destruct (pending_check h0 m l r h1 (p_band p) Hh Hr Hm HP) as (Hv & _ & Hdb & Hbl & Hla & _ & _ & Hres).
  destruct HP as (Hb & _).
  unfold block_ops, bb_ops. cbn [market_env bb_valid bb_last bb_height bb_discard bb_rates].
  rewrite Hv, Hbl, Hm, Hdb, Hla, Hres. destruct (Z.eqb_spec (b_block (p_band p)) 0); [contradiction|].
  cbn [negb andb Z.eqb]. reflexivity.
Qed.

(* ---------- at most one sample per asset and block (asset ids are distinct) ---------- *)
Lemma bb_samples_notin h rates assets : forall index id,
  ~ In id (map fst assets) -> filter_ops id (bb_samples h rates assets index) = [].
Proof.
  induction assets as [|[a rq] rest IH]; intros index id Hni; cbn [bb_samples]; [reflexivity|].
  cbn [map fst In] in Hni.
  destruct (rq && negb match rates with [] => true | _ :: _ => false end).
  - destruct (zlen rates >? index + 1).
    + destruct (nth_z rates (Z.to_nat (index + 1))); [|reflexivity].
      unfold filter_ops. cbn [filter fst]. destruct (Z.eqb_spec a id) as [->|]; [tauto|].
      apply IH. tauto.
    + apply IH. tauto.
  - apply IH. tauto.
Qed.

Lemma bb_samples_one h rates assets : forall index id,
  NoDup (map fst assets) -> (length (filter_ops id (bb_samples h rates assets index)) <= 1)%nat.
Proof.
  induction assets as [|[a rq] rest IH]; intros index id Hnd; cbn [bb_samples]; [cbn; lia|].
  cbn [map fst] in Hnd. inversion Hnd as [|? ? Hni Hnd']; subst.
  destruct (rq && negb match rates with [] => true | _ :: _ => false end).
  - destruct (zlen rates >? index + 1).
    + destruct (nth_z rates (Z.to_nat (index + 1))); [|cbn; lia].
      unfold filter_ops. cbn [filter fst]. destruct (Z.eqb_spec a id) as [->|].
      * cbn [map snd length]. fold (filter_ops id (bb_samples h rates rest (index + 1))).
        rewrite bb_samples_notin by assumption. cbn. lia.
      * apply IH. assumption.
    + apply IH. assumption.
  - apply IH. assumption.
Qed.

Lemma ghost_step_short gap g o : g_hist g = [] -> (length (g_hist (ghost_step gap g o)) <= 1)%nat.
Proof.
  intros H. destruct o as [h r| |]; cbn [ghost_step]; [|cbn; lia|rewrite H; cbn; lia].
  destruct (g_exists g).
  - destruct ((r <=? 0) && (g_disc g <? 0)); [cbn [g_hist]; rewrite H; cbn; lia|].
    destruct ((r >? 0) && (g_disc g >? 0)).
    + destruct (h - g_disc g <? gap); cbn [g_hist]; rewrite ?H; cbn; lia.
    + destruct (r >? 0); cbn [g_hist]; rewrite H; cbn; lia.
  - destruct (r >? 0); cbn [g_hist]; rewrite ?H; cbn; lia.
Qed.

(* the asset list: ids 1, 2, 3, ... in order (AddAssetRecords numbers consecutively) *)
Definition AssetsOk (l : list (Z * bool)) : Prop :=
  map fst l = map Z.of_nat (seq 1 (length l)).

Lemma assets_ok_nodup l : AssetsOk l -> NoDup (map fst l).
Proof.
  intros H. rewrite H. apply FinFun.Injective_map_NoDup; [|apply seq_NoDup].
  intros x y Hxy. lia.
Qed.

Lemma pstep_assets_ok p o p' : pstep p o = Ok p' -> AssetsOk (p_assets p) -> AssetsOk (p_assets p').
Proof.
  intros Hs HA. destruct o as [h|r|r rates|h m|req]; cbn [pstep] in Hs.
  - unfold block_step in Hs. destruct (begin_block _ _ _) as [[s' d]| |]; try discriminate.
    injection Hs as <-. exact HA.
  - injection Hs as <-. exact HA.
  - injection Hs as <-. exact HA.
  - destruct (f_n m =? 0); injection Hs as <-; exact HA.
  - injection Hs as <-. cbn [p_assets]. unfold AssetsOk in *.
    rewrite map_app, app_length, HA. cbn [map fst length].
    replace (length (p_assets p) + 1)%nat with (S (length (p_assets p))) by lia.
    rewrite seq_S, map_app. cbn [map]. f_equal. f_equal. unfold zlen. lia.
Qed.

Lemma prun_assets_ok ops : forall p p', prun p ops = Ok p' -> AssetsOk (p_assets p) -> AssetsOk (p_assets p').
Proof.
  induction ops as [|o ops IH]; intros p p' H HA; cbn [prun] in H.
  - injection H as <-. exact HA.
  - destruct (pstep p o) as [p1| |] eqn:Hs; cbn [obind] in H; try discriminate.
    apply (IH _ _ H). apply (pstep_assets_ok _ _ _ Hs HA).
Qed.

(* after the block that ends an outage of at least the accepted gap, every stored record's
   samples-since-wipe are those of this very block: at most one *)
Lemma wipe_block_hist h0 m l r h1 p gs id : 0 < h0 -> r <> l -> h1 mod 20 = 0 ->
  Pending h0 m l r (p_band p) -> h1 - h0 >= f_gap m -> AssetsOk (p_assets p) ->
  sget (p_store p) id <> None ->
  (length (g_hist (gget (pghost p gs (Block h1)) id)) <= 1)%nat.
Proof.
  intros Hh Hr Hm HP Hge HA Hin. cbn [pghost]. rewrite gget_gapply.
  rewrite (pending_block_ops h0 m l r h1 p Hh Hr Hm HP).
  destruct (Z.geb_spec (h1 - h0) (f_gap m)); [|lia].
  rewrite filter_ops_app, ghost_run_app, ghost_run_discards, (existsb_keys _ _ Hin).
  pose proof (bb_samples_one h1 (lookup_result (b_results (p_band p)) r) (p_assets p) (-1) id
                (assets_ok_nodup _ HA)) as Hone.
  destruct (filter_ops id (bb_samples _ _ _ _)) as [|o [|o2 rest]]; cbn [length] in Hone; try lia.
  - cbn. lia.
  - unfold ghost_run. cbn [fold_left]. apply ghost_step_short. reflexivity.
Qed.

(* ---------- the whole outage on the pipeline ---------- *)
Lemma silent_typed ops : Forall silent_op ops -> Forall op_typed ops.
Proof. induction 1 as [|o ops Ho _ IH]; constructor; [destruct o; try contradiction; exact I|exact IH]. Qed.

Lemma quiet_typed ops : Forall quiet_op ops -> Forall op_typed ops.
Proof. induction 1 as [|o ops Ho _ IH]; constructor; [destruct o; try contradiction; exact I|exact IH]. Qed.

Lemma block_step_band h p p' : block_step h p = Ok p' ->
  b_msg (p_band p') = b_msg (p_band p) /\ b_block (p_band p') = b_block (p_band p) /\
  b_valid (p_band p') = b_valid (band_begin_block h (p_band p)) /\
  b_dheight (p_band p') = b_dheight (band_begin_block h (p_band p)) /\
  p_assets p' = p_assets p.
Proof.
  unfold block_step. destruct (begin_block _ _ _) as [[s' d]| |]; try discriminate.
  intros H. injection H as <-. cbn [p_band p_assets set_dbool b_msg b_block b_valid b_dheight].
  rewrite band_bb_msg, band_bb_block. repeat split.
Qed.

Theorem outage_pipeline p gs h0 mid r post h1 :
  PInv p gs -> AssetsOk (p_assets p) ->
  b_block (p_band p) <> 0 -> b_check (p_band p) = true -> b_dheight (p_band p) < 0 ->
  b_last (p_band p) = b_temp (p_band p) ->
  0 < h0 -> h0 mod 20 = 0 -> h1 mod 20 = 0 ->
  Forall silent_op mid -> Forall quiet_op post -> r <> b_last (p_band p) ->
  let m := b_msg (p_band p) in
  exists p1 gs1 p2,
    prun_g p gs (Block h0 :: mid ++ Ack r :: post) = Ok (p1, gs1) /\
    b_dheight (p_band p1) = h0 /\ b_valid (p_band p1) = false /\
    pstep p1 (Block h1) = Ok p2 /\ PInv p2 (pghost p1 gs1 (Block h1)) /\
    b_msg (p_band p2) = m /\ b_valid (p_band p2) = true /\ b_dheight (p_band p2) = -1 /\
    block_ops h1 p1 =
      (if h1 - h0 >=? f_gap m then map (fun id => (id, DiscardReset)) (map fst (p_store p1)) else [])
      ++ bb_samples h1 (lookup_result (b_results (p_band p1)) r) (p_assets p1) (-1) /\
    (h1 - h0 >= f_gap m -> forall id, sget (p_store p1) id <> None ->
       (length (g_hist (gget (pghost p1 gs1 (Block h1)) id)) <= 1)%nat /\
       (2 <= f_n m -> forall tw, sget (p_store p2) id = Some tw -> active tw = false)).
Proof.
  intros HP HA Hb Hc Hd Hl Hh Hm0 Hm1 Hmid Hpost Hr m.
  assert (Hty : Forall op_typed (Block h0 :: mid ++ Ack r :: post)).
  { constructor; [exact I|]. apply Forall_app. split; [apply silent_typed; exact Hmid|].
    constructor; [exact I|apply quiet_typed; exact Hpost]. }
  destruct (prun_g_inv _ p gs Hty HP) as (p1 & gs1 & Hrun & HP1).
  pose proof (prun_of_prun_g _ _ _ _ _ Hrun) as Hrun'.
  assert (Hdb : b_dbool (p_band p) = false) by (destruct HP as (H & _); exact H).
  destruct (outage_run p h0 mid r post Hb Hc Hd Hl Hdb Hh Hm0 Hmid Hpost Hr) as (p1' & Hr1 & HPend).
  rewrite Hrun' in Hr1. injection Hr1 as <-.
  pose proof (prun_assets_ok _ _ _ Hrun' HA) as HA1.
  destruct (pstep_inv p1 gs1 (Block h1) I HP1) as (p2 & Hs2 & HP2).
  destruct (pending_check h0 m (b_last (p_band p)) r h1 (p_band p1) Hh Hr Hm1 HPend)
    as (Hv & Hdh & _ & _ & _ & _ & _ & _).
  pose proof Hs2 as Hs2'. cbn [pstep] in Hs2'.
  destruct (block_step_band _ _ _ Hs2') as (Hmsg2 & _ & Hv2 & Hdh2 & _).
  assert (Hm2 : b_msg (p_band p2) = m).
  { rewrite Hmsg2. destruct HPend as (_ & _ & _ & _ & _ & _ & _ & Hmm). exact Hmm. }
  exists p1, gs1, p2. split; [exact Hrun|].
  split; [destruct HPend as (_ & _ & H & _); exact H|].
  split; [destruct HPend as (_ & _ & _ & _ & _ & H & _); exact H|].
  split; [exact Hs2|]. split; [exact HP2|]. split; [exact Hm2|].
  split; [rewrite Hv2; exact Hv|]. split; [rewrite Hdh2; exact Hdh|].
  split; [apply (pending_block_ops h0 m (b_last (p_band p)) r h1 p1 Hh Hr Hm1 HPend)|].
  intros Hge id Hin.
  pose proof (wipe_block_hist h0 m (b_last (p_band p)) r h1 p1 gs1 id Hh Hr Hm1 HPend Hge HA1 Hin) as Hlen.
  split; [exact Hlen|]. intros Hn2 tw Hg.
  destruct HP2 as (_ & _ & _ & HI2 & _). specialize (HI2 id). rewrite Hg, Hm2 in HI2. destruct HI2 as [HI2 _].
  destruct (active tw) eqn:Ea; [|reflexivity].
  pose proof (inv_activation _ _ _ HI2 Ea) as Hact. unfold zlen in Hact. lia.
Qed.

(* every state reachable from genesis satisfies the invariant and has consecutive asset ids *)
Theorem reachable_inv ops : Forall op_typed ops ->
  exists p gs, prun_g pinit [] ops = Ok (p, gs) /\ PInv p gs /\ AssetsOk (p_assets p).
Proof.
  intros Ht. destruct (prun_g_inv ops pinit [] Ht pinv_init) as (p & gs & Hr & HP).
  exists p, gs. split; [exact Hr|]. split; [exact HP|].
  apply (prun_assets_ok ops pinit p (prun_of_prun_g _ _ _ _ _ Hr)). reflexivity.
Qed.

(* ==================================================================================== *)
(* Freshness: is the result of one request delivered to the windows more than once?
   Trackers maintained from the inputs: [cons] = ids delivered so far (BandOracle.pconsumed),
   [acked] = ids acknowledged so far.  Band's request ids are unique and non-zero: [ack_ok]. *)
Definition packed (acked : list Z) (o : pop) : list Z :=
  match o with Ack r => r :: acked | _ => acked end.
Definition ack_ok (acked : list Z) (o : pop) : Prop :=
  match o with Ack r => r <> 0 /\ ~ In r acked | _ => True end.
Fixpoint acks_ok (acked : list Z) (ops : list pop) : Prop :=
  match ops with [] => True | o :: r => ack_ok acked o /\ acks_ok (packed acked o) r end.

Fixpoint prun_f (p : pstate) (cons acked : list Z) (ops : list pop)
  : outcome (pstate * list Z * list Z) :=
  match ops with
  | [] => Ok (p, cons, acked)
  | o :: r => obind (pstep p o) (fun p' => prun_f p' (pconsumed p cons o) (packed acked o) r)
  end.

(* the invariant behind freshness (repaired hook, fix C17-F4: the first check after a check-flag
   reset stores TempFetchPriceID = LastFetchPriceID):
   - an id that has been delivered and is still the last acknowledged one is the id the previous
     check saw, so no later check takes it for new;
   - the delivered ids are distinct acknowledged ids;
   - before the first acknowledgement both ids are 0. *)
Definition FInv (p : pstate) (cons acked : list Z) : Prop :=
  (zmem (b_last (p_band p)) cons = true -> b_temp (p_band p) = b_last (p_band p)) /\
  (forall r, zmem r cons = true -> In r acked) /\
  (b_last (p_band p) = 0 \/ In (b_last (p_band p)) acked) /\
  (b_last (p_band p) = 0 -> b_temp (p_band p) = 0) /\
  NoDup cons /\ ~ In 0 acked.

Lemma delivered_some h b r : delivered_id h b = Some r ->
  r = b_last b /\ b_valid b = true /\ b_block b <> 0 /\ h mod 20 = 0.
Proof.
  unfold delivered_id. destruct (b_valid b); cbn [andb]; [|discriminate].
  destruct (Z.eqb_spec (b_block b) 0); cbn [negb andb]; [discriminate|].
  destruct (Z.eqb_spec (h mod 20) 0); [|discriminate].
  destruct (lookup_result _ _); [discriminate|]. intros H; injection H as <-. auto.
Qed.

(* a delivering check is an answered check of the second branch *)
Lemma delivering_check h b r : delivered_id h (band_begin_block h b) = Some r ->
  r = b_last b /\ b_check b = true /\ b_last b <> b_temp b /\ b_block b <> 0 /\ h mod 20 = 0 /\
  b_temp (band_begin_block h b) = b_last b.
Proof.
  intros H. destruct (delivered_some _ _ _ H) as (Hr & Hv & Hb & Hm).
  rewrite band_bb_last in Hr. rewrite band_bb_block in Hb.
  unfold band_begin_block in Hv |- *.
  destruct (Z.eqb_spec (b_block b) 0); [contradiction|]. rewrite Hm in *. cbn [Z.eqb] in *.
  destruct (b_check b); cbn [negb b_valid b_temp] in *; [|discriminate].
  destruct (Z.eqb_spec (b_last b) (b_temp b)); cbn [negb] in Hv; [discriminate|]. repeat split; auto.
Qed.

(* the first check after a check-flag reset (first branch of the hook): nothing is validated, and
   every request acknowledged so far counts as seen *)
Lemma first_check h b : b_block b <> 0 -> h mod 20 = 0 -> b_check b = false ->
  let b' := band_begin_block h b in
  b_temp b' = b_last b /\ b_last b' = b_last b /\ b_check b' = true /\ b_valid b' = false /\
  b_dheight b' = b_dheight b /\ b_dbool b' = b_dbool b /\ delivered_id h b' = None.
Proof.
  intros Hb Hm Hc. cbv zeta. unfold delivered_id, band_begin_block.
  destruct (Z.eqb_spec (b_block b) 0); [contradiction|]. rewrite Hm, Hc. cbn. repeat split; reflexivity.
Qed.

Lemma zmem_cons x y l : zmem x (y :: l) = (x =? y) || zmem x l.
Proof. reflexivity. Qed.

Lemma zmem_In x l : zmem x l = true <-> In x l.
Proof.
  induction l as [|y l IH]; cbn [zmem In]; [split; [discriminate|tauto]|].
  rewrite orb_true_iff, IH, Z.eqb_eq. split; intros [H|H]; auto.
Qed.

(* the temp id after the band hook: unchanged, or the last acknowledged id *)
Lemma band_bb_temp h b :
  b_temp (band_begin_block h b) = b_temp b \/ b_temp (band_begin_block h b) = b_last b.
Proof.
  unfold band_begin_block. destruct (b_block b =? 0); [left; reflexivity|].
  destruct (h mod 20 =? 0); [|left; reflexivity]. destruct (b_check b); cbn [negb b_temp]; auto.
Qed.

Lemma pstep_finv p o p' cons acked :
  pstep p o = Ok p' -> ack_ok acked o -> FInv p cons acked ->
  FInv p' (pconsumed p cons o) (packed acked o).
Proof.
  intros Hs Hack (HK & H1 & H2 & H3 & H4 & H5). destruct o as [h|r|r rates|h m|req]; cbn [pstep pconsumed packed] in *.
  - (* Block *)
    unfold block_step in Hs. destruct (begin_block _ _ _) as [[s' d]| |]; try discriminate.
    injection Hs as <-. unfold FInv. cbn [p_band set_dbool b_last b_temp]. rewrite band_bb_last.
    destruct (delivered_id h (band_begin_block h (p_band p))) as [r|] eqn:Ed; cbn [consume].
    + destruct (delivering_check _ _ _ Ed) as (Hr & _ & Hne & _ & _ & Ht). subst r.
      assert (Hnew : zmem (b_last (p_band p)) cons = false).
      { destruct (zmem (b_last (p_band p)) cons) eqn:Ez; [|reflexivity]. specialize (HK eq_refl). congruence. }
      assert (Hin : In (b_last (p_band p)) acked).
      { destruct H2 as [H0|Hin]; [|exact Hin]. specialize (H3 H0). congruence. }
      split; [intros _; exact Ht|]. split; [|split; [exact H2|split; [|split; [|exact H5]]]].
      * intros r. rewrite zmem_cons. intros Hz. apply orb_prop in Hz. destruct Hz as [Hz|Hz].
        -- apply Z.eqb_eq in Hz. subst r. exact Hin.
        -- apply H1. exact Hz.
      * intros H0. rewrite Ht. exact H0.
      * constructor; [|exact H4]. intros Hc. apply zmem_In in Hc. congruence.
    + split; [|split; [assumption|split; [assumption|split; [|split; assumption]]]].
      * intros Hz. specialize (HK Hz). destruct (band_bb_temp h (p_band p)) as [E|E]; rewrite E; auto.
      * intros H0. destruct (band_bb_temp h (p_band p)) as [E|E]; rewrite E; auto.
  - (* Ack: the id is new, so it has not been delivered *)
    injection Hs as <-. destruct Hack as [Hr0 Hnew]. unfold FInv. cbn [p_band set_last b_last b_temp].
    split; [|split; [|split; [|split; [|split]]]].
    + intros Hz. specialize (H1 _ Hz). contradiction.
    + intros r' Hz. right. exact (H1 _ Hz).
    + right. left. reflexivity.
    + intros H0. contradiction.
    + exact H4.
    + intros [E|E]; [congruence|contradiction].
  - injection Hs as <-. unfold FInv. cbn [p_band add_result b_last b_temp]. exact (conj HK (conj H1 (conj H2 (conj H3 (conj H4 H5))))).
  - destruct (f_n m =? 0); injection Hs as <-; unfold FInv; cbn [p_band add_fetch_price_records b_last b_temp]; exact (conj HK (conj H1 (conj H2 (conj H3 (conj H4 H5))))).
  - injection Hs as <-. unfold FInv. cbn [p_band]. destruct req; cbn [set_check b_last b_temp]; exact (conj HK (conj H1 (conj H2 (conj H3 (conj H4 H5))))).
Qed.

Lemma finv_init : FInv pinit [] [].
Proof.
  unfold FInv. cbn. split; [discriminate|]. split; [discriminate|]. split; [left; reflexivity|].
  split; [reflexivity|]. split; [constructor|intros []].
Qed.

Lemma prun_f_inv ops : forall p cons acked p' cons' acked',
  acks_ok acked ops -> FInv p cons acked ->
  prun_f p cons acked ops = Ok (p', cons', acked') -> FInv p' cons' acked'.
Proof.
  induction ops as [|o ops IH]; intros p cons acked p' cons' acked' Ha HF Hr; cbn [prun_f acks_ok] in *.
  - injection Hr as <- <- <-. exact HF.
  - destruct Ha as [Ha0 Ha]. destruct (pstep p o) as [p1| |] eqn:Hs; cbn [obind] in Hr; try discriminate.
    apply (IH _ _ _ _ _ _ Ha (pstep_finv _ _ _ _ _ Hs Ha0 HF) Hr).
Qed.

(* every delivered result is new: the result of a request reaches the windows at most once *)
Theorem fresh_always p cons acked h :
  FInv p cons acked ->
  holds_C17_fresh cons (delivered_id h (band_begin_block h (p_band p))) = true.
Proof.
  intros (HK & _). destruct (delivered_id h (band_begin_block h (p_band p))) as [r|] eqn:Ed;
    cbn [holds_C17_fresh]; [|reflexivity].
  destruct (delivering_check _ _ _ Ed) as (Hr & _ & Hne & _). subst r.
  destruct (zmem (b_last (p_band p)) cons) eqn:Ez; [|reflexivity]. specialize (HK eq_refl). congruence.
Qed.

(* over a whole history: the delivered ids are pairwise distinct and each was acknowledged *)
Theorem delivered_once p cons acked :
  FInv p cons acked -> NoDup cons /\ (forall r, In r cons -> In r acked /\ r <> 0).
Proof.
  intros (_ & H1 & _ & _ & H4 & H5). split; [exact H4|]. intros r Hin. apply zmem_In in Hin.
  split; [exact (H1 _ Hin)|]. intros ->. exact (H5 (H1 _ Hin)).
Qed.

(* the freshness trackers ride on the same state run as the observer *)
Lemma prun_of_prun_f ops : forall p cons acked p' cons' acked',
  prun_f p cons acked ops = Ok (p', cons', acked') -> prun p ops = Ok p'.
Proof.
  induction ops as [|o ops IH]; intros p cons acked p' cons' acked' H; cbn [prun_f prun] in *.
  - injection H as <- _ _. reflexivity.
  - destruct (pstep p o) as [p1| |]; cbn [obind] in *; try discriminate. apply (IH _ _ _ _ _ _ H).
Qed.
