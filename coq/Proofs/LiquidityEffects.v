(* Proofs about Model/Liquidity.v: characterising "effect" lemmas of the leaf transitions.  Later proofs
   use these instead of unfolding the handlers. *)
From Comdex Require Import Lib.Base Lib.DecArith Lib.DecFacts Model.Liquidity Proofs.LiquidityProofs Proofs.LiquidityBase.
From Coq Require Import ZifyBool Lia.

(* the indicator of "account c, denom d'" *)
Definition at_ (a : acct) (d : Z) (c : acct) (d' : Z) (x : Z) : Z := if acct_eqb a c && (d =? d') then x else 0.

Lemma send_eff l a b d x l' : send l a b d x = Ok l' ->
  0 <= x /\ (x = 0 \/ x <= l a d) /\
  forall c d', l' c d' = l c d' + at_ b d c d' x - at_ a d c d' x.
Proof.
  unfold send, at_. destruct (x <? 0) eqn:E1; [discriminate|]. destruct (x =? 0) eqn:E2.
  - intros H. injection H as <-. split; [lia|]. split; [left; lia|]. intros c d'.
    destruct (acct_eqb b c && (d =? d')), (acct_eqb a c && (d =? d')); lia.
  - destruct (l a d <? x) eqn:E3; [discriminate|]. intros H. injection H as <-. split; [lia|]. split; [right; lia|].
    intros c d'. unfold ladd. destruct (acct_eqb b c && (d =? d')), (acct_eqb a c && (d =? d')); lia.
Qed.

Lemma send_ok l a b d x : 0 <= x -> x <= l a d -> exists l', send l a b d x = Ok l'.
Proof.
  intros H0 H1. unfold send. destruct (x <? 0) eqn:E1; [lia|]. destruct (x =? 0); [eauto|].
  destruct (l a d <? x) eqn:E3; [lia|eauto].
Qed.

Lemma acct_eqb_refl a : acct_eqb a a = true.
Proof. destruct a; cbn; lia. Qed.

(* ---------------- FinishOrder ---------------- *)
Definition fin_rate (s : state) (e : entry) : option Z :=
  if o_type (fst e) =? 3 then Some 0 else option_map pr_fee_rate (get_params s (o_app (fst e))).

Lemma finish_entry_eff s e st s' : finish_entry s e st = Ok s' ->
  (is_term (o_status (fst e)) = true /\ s' = s) \/
  (is_term (o_status (fst e)) = false /\ exists rate e' refund fee l,
     fin_rate s e = Some rate /\ finish_calc rate e st = (e', refund, fee) /\ 0 <= refund /\ 0 <= fee /\
     (forall c d, l c d = led s c d + at_ (User (o_owner (fst e))) (o_odenom (fst e)) c d refund
                          + at_ (SwapFee (o_app (fst e)) (o_pair (fst e))) (o_odenom (fst e)) c d fee
                          - at_ (Escrow (o_app (fst e)) (o_pair (fst e))) (o_odenom (fst e)) c d (refund + fee)) /\
     s' = set_owed (set_orders (set_led s l) (upd_order (ekey e) (fun _ => e') (orders s)))
                   (fadd3 (owed s) (o_app (fst e)) (o_pair (fst e)) (o_odenom (fst e)) (- (refund + fee)))).
Proof.
  unfold finish_entry. intros H. destruct (is_term (o_status (fst e))) eqn:El; [left; injection H as <-; auto|right].
  split; [reflexivity|]. fold (fin_rate s e) in H. destruct (fin_rate s e) as [rate|]; [|discriminate].
  destruct (finish_calc rate e st) as [[e' refund] fee] eqn:Ec. unfold obind in H.
  destruct (ssend s _ _ _ refund) as [s1| |] eqn:E1; try discriminate.
  destruct (ssend s1 _ _ _ fee) as [s2| |] eqn:E2; try discriminate. injection H as <-.
  apply ssend_inv in E1. destruct E1 as (l1 & Hl & ->). apply ssend_inv in E2. destruct E2 as (l0 & Hl0 & ->).
  destruct (send_eff _ _ _ _ _ _ Hl) as (R0 & _ & R1). cbn [led set_led] in Hl0.
  destruct (send_eff _ _ _ _ _ _ Hl0) as (F0 & _ & F1).
  exists rate, e', refund, fee, l0. repeat split; try assumption; try reflexivity.
  intros c d. rewrite F1, R1. unfold at_.
  destruct (acct_eqb (User _) c && _), (acct_eqb (SwapFee _ _) c && _), (acct_eqb (Escrow _ _) c && _); lia.
Qed.

(* FinishOrder on a live order succeeds as soon as the escrow holds the order's share *)
Lemma finish_entry_ok s e st rate :
  is_term (o_status (fst e)) = false -> fin_rate s e = Some rate ->
  0 <= snd (fst (finish_calc rate e st)) -> 0 <= snd (finish_calc rate e st) ->
  snd (fst (finish_calc rate e st)) + snd (finish_calc rate e st)
    <= led s (Escrow (o_app (fst e)) (o_pair (fst e))) (o_odenom (fst e)) ->
  exists s', finish_entry s e st = Ok s'.
Proof.
  intros El Er H0 H1 Hb. unfold finish_entry. rewrite El. fold (fin_rate s e). rewrite Er.
  destruct (finish_calc rate e st) as [[e' refund] fee]. cbn [fst snd] in *.
  destruct (send_ok (led s) (Escrow (o_app (fst e)) (o_pair (fst e))) (User (o_owner (fst e))) (o_odenom (fst e)) refund H0 ltac:(lia)) as [l1 E1].
  destruct (send_eff _ _ _ _ _ _ E1) as (_ & _ & R1).
  destruct (send_ok l1 (Escrow (o_app (fst e)) (o_pair (fst e))) (SwapFee (o_app (fst e)) (o_pair (fst e))) (o_odenom (fst e)) fee H1) as [l2 E2].
  { rewrite R1. unfold at_. rewrite acct_eqb_refl, Z.eqb_refl. cbn [acct_eqb andb]. lia. }
  cbv zeta. unfold ssend, obind. rewrite E1. cbn [led set_led]. rewrite E2. eauto.
Qed.

(* ---------------- escrow in / out ---------------- *)
Lemma esc_in_eff s app pair from d x s' : esc_in s app pair from d x = Ok s' ->
  exists l, 0 <= x /\ (forall c d', l c d' = led s c d' + at_ (Escrow app pair) d c d' x - at_ from d c d' x) /\
            s' = set_surplus (set_led s l) (fadd3 (surplus s) app pair d x).
Proof.
  unfold esc_in, obind. intros H. destruct (ssend s _ _ _ _) as [s1| |] eqn:E; try discriminate. injection H as <-. sends.
  destruct (send_eff _ _ _ _ _ _ Hl) as (R0 & _ & R1). exists l. repeat split; assumption.
Qed.
Lemma esc_out_eff s app pair to d x s' : esc_out s app pair to d x = Ok s' ->
  exists l, 0 <= x /\ (forall c d', l c d' = led s c d' + at_ to d c d' x - at_ (Escrow app pair) d c d' x) /\
            s' = set_surplus (set_led s l) (fadd3 (surplus s) app pair d (- x)).
Proof.
  unfold esc_out, obind. intros H. destruct (ssend s _ _ _ _) as [s1| |] eqn:E; try discriminate. injection H as <-. sends.
  destruct (send_eff _ _ _ _ _ _ Hl) as (R0 & _ & R1). exists l. repeat split; assumption.
Qed.

(* ---------------- placement ---------------- *)
Lemma place_eff s m typ pr price offer fee now s' : place s m typ pr price offer fee now = Ok s' ->
  exists l, 0 <= offer /\ 0 <= offer + fee /\
    (forall c d, l c d = led s c d + at_ (Escrow (m_app m) (m_pair m)) (m_odenom m) c d (offer + fee)
                         - at_ (User (m_owner m)) (m_odenom m) c d (offer + fee)) /\
    s' = set_owed (set_orders (set_pairs (set_led s l)
            (ins_pair (mkPair (p_app pr) (p_id pr) (p_base pr) (p_quote pr) (p_last_order pr + 1) (p_last_price pr) (p_batch pr)) (pairs s)))
            (ins_order (mkOrder (m_app m) (p_id pr) (p_last_order pr + 1) (m_owner m) (m_buy m) typ (m_odenom m) (m_ddenom m)
                                offer offer 0 price (m_amt m) (m_amt m) (p_batch pr) (now + m_life m) 1, new_ghost (offer + fee)) (orders s)))
          (fadd3 (owed s) (m_app m) (m_pair m) (m_odenom m) (offer + fee)).
Proof.
  unfold place, obind. intros H. destruct (offer <? 0) eqn:E0; [discriminate|].
  destruct (ssend s _ _ _ _) as [s1| |] eqn:E; try discriminate. injection H as <-. sends.
  destruct (send_eff _ _ _ _ _ _ Hl) as (R0 & _ & R1). exists l. repeat split; try assumption; lia.
Qed.

(* ---------------- lookups after an update ---------------- *)
Lemma find_order_upd_other k k' st (e' : entry) : ekey e' = k -> k' <> k ->
  find_order k' (upd_order k (fun _ => e') st) = find_order k' st.
Proof.
  intros He Hk. induction st as [|x r IH]; cbn [find_order upd_order map]; [reflexivity|].
  destruct (k3_eqb (ekey x) k) eqn:E.
  - apply k3_eqb_eq in E. destruct (k3_eqb (ekey e') k') eqn:E2; [apply k3_eqb_eq in E2; congruence|].
    destruct (k3_eqb (ekey x) k') eqn:E3; [apply k3_eqb_eq in E3; congruence|]. exact IH.
  - destruct (k3_eqb (ekey x) k'); [reflexivity|exact IH].
Qed.
Lemma find_order_upd_none k st (e' : entry) : find_order k st = None -> upd_order k (fun _ => e') st = st.
Proof.
  induction st as [|x r IH]; cbn [find_order upd_order map]; [reflexivity|]. destruct (k3_eqb (ekey x) k); [discriminate|].
  intros H. f_equal. apply IH, H.
Qed.

Lemma finish_calc_key rate e st : ekey (fst (fst (finish_calc rate e st))) = ekey e.
Proof.
  destruct e as [o g]. unfold finish_calc. cbn [fst].
  destruct (is_term (o_status o)); [reflexivity|]. destruct (o_type o =? 3); [reflexivity|].
  destruct (o_rem o >? 0); [destruct (o_rem o =? o_offer o)|]; reflexivity.
Qed.
Lemma finish_calc_status rate e st : is_term (o_status (fst e)) = false ->
  o_status (fst (fst (fst (finish_calc rate e st)))) = st.
Proof.
  destruct e as [o g]. unfold finish_calc. cbn [fst]. intros ->. destruct (o_type o =? 3); [reflexivity|].
  destruct (o_rem o >? 0); [destruct (o_rem o =? o_offer o)|]; reflexivity.
Qed.
